#!/bin/bash
# runs every archived seeded change against every check (quick tier); writes seeded/MATRIX.jsonl
cd /verif
: > seeded/MATRIX.jsonl
for d in seeded/C*-*; do
  id=$(basename $d)
  prop=${id%-*}
  race=""
  [ "$id" = "C14-1" ] && race=1
  SEED_DEMO_RACE=$race python3 seedtest.py $d/patch.diff - $prop --all 2>/dev/null | python3 -c "
import json,sys
s=json.load(sys.stdin)
print(json.dumps({'id':'$id','tests_pass':s.get('existing_tests_pass'),'detected_by':s.get('detected_by'),
  'kinds':{p:(v.get('replay') or {}).get('kind') if isinstance(v.get('replay'),dict) else None for p,v in s.get('checks',{}).items() if v['exit']!=0}}))" >> seeded/MATRIX.jsonl
done
echo done >> seeded/MATRIX.done
