#!/usr/bin/env python3
"""seedkeep.py <Cxx> <k>: run seedtest on /tmp/mut/out-Cxx/patch<k>.diff and archive it under seeded/Cxx-<k>/"""
import json, os, shutil, subprocess, sys
ROOT = os.path.dirname(os.path.abspath(__file__))
prop, k = sys.argv[1], sys.argv[2]
extra = sys.argv[3:]
src = f"/tmp/mut/out-{prop}"
patch, demo = f"{src}/patch{k}.diff", f"{src}/demo{k}_test.go"
out = subprocess.run([sys.executable, os.path.join(ROOT, "seedtest.py"), patch, demo, prop] + extra, stdout=subprocess.PIPE, text=True).stdout
try:
    s = json.loads(out)
except Exception:
    print(out); sys.exit(1)
ok = s.get("existing_tests_pass") and s.get("demo_passes_on_clean_tree") and s.get("demo_fails_with_change")
print(prop, k, "valid" if ok else "INVALID", "detected_by", s.get("detected_by"))
for p, v in s.get("checks", {}).items():
    print("   ", p, v["exit"], (v["violation_lines"] or [""])[0], json.dumps(v.get("replay"))[:260])
if ok:
    d = os.path.join(ROOT, "seeded", f"{prop}-{k}")
    os.makedirs(d, exist_ok=True)
    shutil.copy(patch, os.path.join(d, "patch.diff"))
    shutil.copy(demo, os.path.join(d, "demo_test.go"))
    meta = json.load(open(f"{src}/meta{k}.json")) if os.path.exists(f"{src}/meta{k}.json") else {}
    meta.update({"property": prop, "confirmed": {kk: s.get(kk) for kk in ("existing_tests_pass", "demo_passes_on_clean_tree", "demo_fails_with_change")},
                 "ran": "seedtest.py: git -C /repo apply patch.diff; go test ./... (pass); demo (fail); ./check; git checkout; demo (pass)",
                 "detected_by": s.get("detected_by"),
                 "check_results": {p: {"exit": v["exit"], "violation": (v["violation_lines"] or [None])[0], "replay": v.get("replay")} for p, v in s.get("checks", {}).items()}})
    json.dump(meta, open(os.path.join(d, "meta.json"), "w"), indent=1)
