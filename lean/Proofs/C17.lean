/-
  Proofs/C17.lean — property C17: ReadHtml mirrors the tree of the HTML5 parsing algorithm.

  `Html.adapter` is the model of `htmlParser.Pull` (parser/html.go) driven to io.EOF over the pointer
  representation (`Html.linearize`: Parent / FirstChild / NextSibling as array indices) of the DOM
  that `html.Parse` returned, given as a rose tree `HTree`.  `Html.mirrorForest` is the
  specification: the events of the mirrored tree (elements with local names, attributes minus xmlns
  declarations with prefixes stripped, text, comments, everything in no namespace).

  The proofs are in Proofs/Lemmas/Html*.lean:
   * HtmlSpec   — `createAttrs = specAttrs`, well-typed trees, the structural facts on the spec;
   * HtmlLayout — the layout invariant `ReprT arr i parent next t` established by `linTree`;
   * HtmlWalk   — single-pull lemmas, draining the attribute queue, and the big-step lemmas
                  `walk_tree` / `walk_forest` by mutual structural recursion, with the exact number
                  of pulls (`cost`);
   * HtmlRefine — the Document → Doctype prefix, the fuel bound of `adapter`, the theorem.
-/
import Proofs.Lemmas.HtmlRefine

namespace Xsel.C17
open Xsel Xsel.Html

/-! ## non-vacuity -/

/-- `<!DOCTYPE html><html xmlns="u" a:b="1"><!--c--><p xmlns:x="v" id="i">t</p><br/></html><!--z-->`
    as the DOM (attribute namespaces as x/net/html reports them in foreign content) -/
def sample : HTree :=
  .node .document [] [] (.cons (.node .doctype ['h'] [] .nil)
    (.cons (.node .element ['h'] [⟨[], "xmlns".toList, ['u']⟩, ⟨[], ['a', ':', 'b'], ['1']⟩]
      (.cons (.node .comment ['c'] [] .nil)
        (.cons (.node .element ['p'] [⟨[], "xmlns:x".toList, ['v']⟩, ⟨"xmlns".toList, ['y'], ['w']⟩,
                                      ⟨[], ['i', 'd'], ['i']⟩]
          (.cons (.node .text ['t'] [] .nil) .nil))
        (.cons (.node .element ['s', ':', 'b', 'r'] [] .nil) .nil))))
    (.cons (.node .comment ['z'] [] .nil) .nil)))

example : adapter sample =
    some [.elem [] ['h'], .attr [] ['b'] ['1'], .comment ['c'],
          .elem [] ['p'], .attr [] ['i', 'd'] ['i'], .text ['t'], .close,
          .elem [] ['b', 'r'], .close, .close, .comment ['z'], .close] := by decide

example : specEvents sample = adapter sample := by decide

/-! ## the attribute rule -/

/-- **attrs_agree** — `createHtmlAttrs` (drop `xmlns`, `xmlns:…` and attributes in the namespace
    `xmlns`; strip prefixes; no namespace) is the specified attribute rule -/
theorem attrs_agree (attrs : List HAttr) : Html.createAttrs attrs = Html.specAttrs attrs :=
  Html.attrs_agree attrs

/-! ## what `html.Parse` guarantees -/

/-- every node below the document is an element, a text or a comment node (no error / raw /
    document / doctype nodes inside); text and comment nodes have no children -/
abbrev WellTyped (f : HForest) : Prop := Html.WellTyped f

example (f : HForest) : Decidable (WellTyped f) := inferInstance

theorem wellTyped_nil : WellTyped .nil := rfl

theorem wellTyped_cons (t : HTree) (ts : HForest) :
    WellTyped (.cons t ts) ↔ wtTree t = true ∧ WellTyped ts := by
  simp [WellTyped, Html.WellTyped, wtForest]

theorem wtTree_element (data : Chars) (attrs : List HAttr) (kids : HForest) :
    wtTree (.node .element data attrs kids) = true ↔ WellTyped kids := by
  simp [WellTyped, Html.WellTyped, wtTree]

theorem wtTree_text (data : Chars) (attrs : List HAttr) (kids : HForest) :
    wtTree (.node .text data attrs kids) = true ↔ kids = .nil := by
  cases kids <;> simp [wtTree, HForest.hasKids]

theorem wtTree_comment (data : Chars) (attrs : List HAttr) (kids : HForest) :
    wtTree (.node .comment data attrs kids) = true ↔ kids = .nil := by
  cases kids <;> simp [wtTree, HForest.hasKids]

theorem wtTree_other (ty : HType) (data : Chars) (attrs : List HAttr) (kids : HForest)
    (h : wtTree (.node ty data attrs kids) = true) : ty = .element ∨ ty = .text ∨ ty = .comment := by
  cases ty <;> simp [wtTree] at h ⊢

/-! ## the refinement -/

/-- **html_refines** — for every document whose first child is the doctype, followed by at least one
    node (html.Parse always adds the `html` element) and well typed below, the walker terminates
    within the fuel `adapter` supplies and returns exactly the events of the mirrored tree followed
    by the one surplus end event with which it leaves the document node.  The children of the
    doctype node, if any, are ignored. -/
theorem html_refines (data : Chars) (dattrs : List HAttr) (ddata : Chars) (dtattrs : List HAttr)
    (dkids rest : HForest) (hw : WellTyped rest) (hne : rest ≠ .nil) :
    Html.adapter (.node .document data dattrs (.cons (.node .doctype ddata dtattrs dkids) rest))
      = some (Html.mirrorForest rest ++ [.close]) :=
  Html.adapter_refines data dattrs ddata dtattrs dkids rest hw hne

/-- the documents `html_refines` speaks about -/
def docOk : HTree → Bool
  | .node .document _ _ (.cons (.node .doctype _ _ _) rest) => wtForest rest && rest.hasKids
  | _ => false

/-- **html_refines_spec** — `adapter t = specEvents t` on these documents -/
theorem html_refines_spec (t : HTree) (h : docOk t = true) : Html.adapter t = Html.specEvents t := by
  unfold docOk at h
  split at h
  · next data dattrs ddata dtattrs dkids rest =>
    simp only [Bool.and_eq_true] at h
    rw [specEvents]
    refine html_refines data dattrs ddata dtattrs dkids rest h.1 ?_
    intro hn; subst hn; simp [HForest.hasKids] at h
  · simp at h

/-- **html_doctype_only** — the recorded behaviour for the degenerate tree `document [doctype]`
    (never produced by html.Parse): the Go code dereferences the nil NextSibling of the doctype
    node; the model reports `none` -/
theorem html_doctype_only (data : Chars) (dattrs : List HAttr) (ddata : Chars)
    (dtattrs : List HAttr) (dkids : HForest) :
    Html.adapter (.node .document data dattrs (.cons (.node .doctype ddata dtattrs dkids) .nil))
      = none :=
  Html.adapter_doctype_only data dattrs ddata dtattrs dkids

/-- the fuel `adapter` supplies is not essential: any fuel from `fcost rest + 2` on (the exact
    number of pulls: per element 2 + number of emitted attributes, per text or comment 1, one for
    leaving the document, one for io.EOF) gives the same result -/
theorem html_refines_walk (data : Chars) (dattrs : List HAttr) (ddata : Chars)
    (dtattrs : List HAttr) (dkids rest : HForest) (hw : WellTyped rest) (hne : rest ≠ .nil)
    (F : Nat) (hF : fcost rest + 2 ≤ F) :
    Html.walk
        (linearize (.node .document data dattrs (.cons (.node .doctype ddata dtattrs dkids) rest)))
        F {} []
      = some (Html.mirrorForest rest ++ [.close]) := by
  have hk : rest.hasKids = true := by
    cases rest with
    | nil => exact absurd rfl hne
    | cons _ _ => rfl
  exact walk_document (doc_layout data dattrs ddata dtattrs dkids rest) hw hk F hF

/-! ## structural facts on the mirrored tree -/

/-- **html_no_namespace** — every element and attribute event is in no namespace -/
theorem html_no_namespace (rest : HForest) :
    (∀ u l, Ev.elem u l ∈ Html.mirrorForest rest → u = [])
    ∧ (∀ u l v, Ev.attr u l v ∈ Html.mirrorForest rest → u = []) :=
  ⟨fun u l h => mirrorForest_noNs rest (.elem u l) h,
   fun u l v h => mirrorForest_noNs rest (.attr u l v) h⟩

/-- no namespace-declaration and no processing-instruction events -/
theorem html_no_ns_pi (rest : HForest) :
    (∀ p u, Ev.ns p u ∉ Html.mirrorForest rest) ∧ (∀ t v, Ev.pi t v ∉ Html.mirrorForest rest) :=
  ⟨fun p u h => mirrorForest_kind rest (.ns p u) h, fun t v h => mirrorForest_kind rest (.pi t v) h⟩

/-- **html_counts** — nothing skipped or duplicated: the numbers of element, text and comment events
    are the numbers of element, text and comment nodes, and every element is closed once -/
theorem html_counts (rest : HForest) (hw : WellTyped rest) :
    (Html.mirrorForest rest).countP Html.Ev.isElem = countTyF .element rest
    ∧ (Html.mirrorForest rest).countP Html.Ev.isText = countTyF .text rest
    ∧ (Html.mirrorForest rest).countP Html.Ev.isComment = countTyF .comment rest
    ∧ (Html.mirrorForest rest).countP Html.Ev.isClose = countTyF .element rest :=
  ⟨mirrorForest_count .element (.inl rfl) rest hw,
   mirrorForest_count .text (.inr (.inl rfl)) rest hw,
   mirrorForest_count .comment (.inr (.inr rfl)) rest hw,
   mirrorForest_close_count rest hw⟩

/-- the same facts for the output of the adapter -/
theorem html_adapter_facts (data : Chars) (dattrs : List HAttr) (ddata : Chars)
    (dtattrs : List HAttr) (dkids rest : HForest) (hw : WellTyped rest) (hne : rest ≠ .nil) :
    ∃ evs, Html.adapter (.node .document data dattrs
              (.cons (.node .doctype ddata dtattrs dkids) rest)) = some evs
      ∧ (∀ u l, Ev.elem u l ∈ evs → u = []) ∧ (∀ u l v, Ev.attr u l v ∈ evs → u = [])
      ∧ evs.countP Html.Ev.isElem = countTyF .element rest
      ∧ evs.countP Html.Ev.isText = countTyF .text rest
      ∧ evs.countP Html.Ev.isComment = countTyF .comment rest
      ∧ evs.countP Html.Ev.isClose = countTyF .element rest + 1 := by
  refine ⟨_, html_refines data dattrs ddata dtattrs dkids rest hw hne, ?_, ?_, ?_⟩
  · intro u l h
    simp only [List.mem_append, List.mem_singleton, reduceCtorEq, or_false] at h
    exact (html_no_namespace rest).1 u l h
  · intro u l v h
    simp only [List.mem_append, List.mem_singleton, reduceCtorEq, or_false] at h
    exact (html_no_namespace rest).2 u l v h
  · obtain ⟨h1, h2, h3, h4⟩ := html_counts rest hw
    simp [List.countP_append, h1, h2, h3, h4, Html.Ev.isElem, Html.Ev.isText, Html.Ev.isComment,
      Html.Ev.isClose]

end Xsel.C17
