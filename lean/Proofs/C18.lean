/-
  Proofs/C18.lean — property C18: sub-queries compose like steps.

  * `Model.run` (the model of `exec.Exec(cursor, expr)`) evaluates the expression with the start
    node as context node, position 1 and size 1;
  * a path `P/R` selects the union of what the step `R` selects from each node selected by `P`
    (specification: by definition of the evaluator; model: by the refinement theorem);
  * a function used as the last step of a path, `P/f()`, is `f` called with the value of `P` as
    context, which for the functions with a defaulted argument is `f(P)`.
-/
import Proofs.Lemmas.EvalCalls

namespace Xsel.C18
open Xsel Arena

/-! ## the seed context -/

/-- **exec_seed** — a query starts from the cursor as only context node -/
theorem exec_seed (a : Arena) (env : Env) (start : Nat) (e : Expr) :
    Model.run a env start e
      = eval Model.sem e { a := a, env := env, result := .nodes [start], pos := 0, size := 1 } :=
  rfl

/-- in the seed context `position()` is 1 -/
theorem exec_seed_position (sem : Sem) (a : Arena) (env : Env) (start : Nat)
    (hu : lookupQ ([], "position".toList) env.fns = none) :
    eval sem (.call .ctx none "position".toList .nil)
        { a := a, env := env, result := .nodes [start], pos := 0, size := 1 }
      = .ok (.num (Num.ofNat 1)) :=
  eval_position sem _ String.ofList_toList hu

/-- in the seed context `last()` is 1 -/
theorem exec_seed_last (sem : Sem) (a : Arena) (env : Env) (start : Nat)
    (hu : lookupQ ([], "last".toList) env.fns = none) :
    eval sem (.call .ctx none "last".toList .nil)
        { a := a, env := env, result := .nodes [start], pos := 0, size := 1 }
      = .ok (.num (Num.ofNat 1)) :=
  eval_last sem _ String.ofList_toList hu

/-! ## paths -/

/-- the step `ax::t[preds]` from ONE context node `n`: the axis in axis order, the node test,
    the predicates with proximity positions -/
def stepFrom (sem : Sem) (c : Ctx) (ax : Axis) (t : NodeTest) (preds : Exprs) (n : Nat) :
    Except Err (List Nat) := do
  let l ← NodeTest.apply c.a c.env ax t (sem.axis c.a ax [n])
  applyPreds sem preds c l

/-- for the specification the axis from one node is `Spec.axisList` -/
theorem stepFrom_spec (c : Ctx) (ax : Axis) (t : NodeTest) (preds : Exprs) (n : Nat) :
    stepFrom Spec.sem c ax t preds n = (do
      let l ← NodeTest.apply c.a c.env ax t (Spec.axisList c.a ax n)
      applyPreds Spec.sem preds c l) := by
  simp [stepFrom, Spec.sem]

/-- **compose_path_general** — for an evaluator that works per context node (the
    specification), with no side condition: the prefix of the node test of `R` is resolved
    (an unbound prefix is an error of the expression, also when `P` selects nothing), then the
    nodes selected by `P/R` are the union, in document order, of the nodes `R` selects from each
    node selected by `P` -/
theorem compose_path_general (sem : Sem) (hper : sem.perNode = true) (c : Ctx) (P : Expr)
    (ax : Axis) (t : NodeTest) (preds : Exprs) {ns : List Nat}
    (hP : eval sem P c = .ok (.nodes ns)) :
    eval sem (.step P ax t preds) c
      = (do let _ ← NodeTest.apply c.a c.env ax t []
            (concatMapE (stepFrom sem c ax t preds) ns).map (fun r => .nodes (cleanupFwd r))) := by
  rw [eval, hP]
  simp only [hper, Bool.true_or, if_true, Val.nodes?]
  show (NodeTest.apply c.a c.env ax t [] >>= fun _ =>
    concatMapE (stepFrom sem c ax t preds) ns >>=
      fun r => pure (Val.nodes (cleanupFwd r))) = _
  cases NodeTest.apply c.a c.env ax t [] with
  | error e => rfl
  | ok _ => cases concatMapE (stepFrom sem c ax t preds) ns <;> rfl

/-- the resolution of the prefix is part of every `stepFrom`: it only shows when there is no
    context node -/
theorem resolve_absorbed (sem : Sem) (c : Ctx) (ax : Axis) (t : NodeTest) (preds : Exprs)
    {ns : List Nat} (hne : t.bound c.env = true ∨ ns ≠ []) {β : Type}
    (k : Except Err (List Nat) → Except Err β) (hk : ∀ e, k (.error e) = .error e) :
    (do let _ ← NodeTest.apply c.a c.env ax t []
        k (concatMapE (stepFrom sem c ax t preds) ns))
      = k (concatMapE (stepFrom sem c ax t preds) ns) := by
  cases hb : t.bound c.env
  · rcases hne with hb' | hne
    · rw [hb] at hb'; cases hb'
    · cases ns with
      | nil => exact absurd rfl hne
      | cons n rest =>
        have e : concatMapE (stepFrom sem c ax t preds) (n :: rest) = .error .unboundPrefix := by
          simp only [concatMapE, stepFrom, NodeTest.apply_unbound c.a c.env ax hb]
          rfl
        rw [e, hk, NodeTest.apply_unbound c.a c.env ax hb]
        rfl
  · rw [NodeTest.apply_nil_bound c.a c.env ax hb]
    rfl

/-- **compose_path** — for an evaluator that works per context node (the specification):
    the nodes selected by `P/R` are the union, in document order, of the nodes `R` selects
    from each node selected by `P` (when `P` selects at least one node or the prefix of the
    node test of `R` is bound; otherwise see `compose_path_unbound`) -/
theorem compose_path (sem : Sem) (hper : sem.perNode = true) (c : Ctx) (P : Expr) (ax : Axis)
    (t : NodeTest) (preds : Exprs) {ns : List Nat} (hP : eval sem P c = .ok (.nodes ns))
    (hne : t.bound c.env = true ∨ ns ≠ []) :
    eval sem (.step P ax t preds) c
      = (concatMapE (stepFrom sem c ax t preds) ns).map (fun r => .nodes (cleanupFwd r)) := by
  rw [compose_path_general sem hper c P ax t preds hP]
  exact resolve_absorbed sem c ax t preds hne
    (fun x => x.map (fun r => Val.nodes (cleanupFwd r))) (fun _ => rfl)

/-- with an unbound prefix in the node test of `R`, `P/R` is an error whatever `P` selects -/
theorem compose_path_unbound (sem : Sem) (hper : sem.perNode = true) (c : Ctx) (P : Expr)
    (ax : Axis) (t : NodeTest) (preds : Exprs) {ns : List Nat}
    (hP : eval sem P c = .ok (.nodes ns)) (hb : t.bound c.env = false) :
    eval sem (.step P ax t preds) c = .error .unboundPrefix := by
  rw [compose_path_general sem hper c P ax t preds hP, NodeTest.apply_unbound c.a c.env ax hb]
  rfl

theorem compose_path_spec (c : Ctx) (P : Expr) (ax : Axis) (t : NodeTest) (preds : Exprs)
    {ns : List Nat} (hP : eval Spec.sem P c = .ok (.nodes ns))
    (hne : t.bound c.env = true ∨ ns ≠ []) :
    eval Spec.sem (.step P ax t preds) c
      = (concatMapE (stepFrom Spec.sem c ax t preds) ns).map (fun r => .nodes (cleanupFwd r)) :=
  compose_path Spec.sem rfl c P ax t preds hP hne

/-- the predicates of a step do not see the context value of the step -/
theorem applyPreds_ctx (sem : Sem) : ∀ (ps : Exprs) (c : Ctx) (v : Val) (l : List Nat),
    applyPreds sem ps { c with result := v } l = applyPreds sem ps c l
  | .nil, c, v, l => by rw [applyPreds, applyPreds]
  | .cons p ps, c, v, l => by
    rw [applyPreds, applyPreds]
    have e : applyPred sem p { c with result := v } l = applyPred sem p c l := by
      rw [applyPred, applyPred]
    rw [e]
    congr 1
    funext kept
    exact applyPreds_ctx sem ps c v kept

/-- `stepFrom … n` is the relative path `R` evaluated with `n` as context node -/
theorem stepFrom_is_eval (sem : Sem) (hper : sem.perNode = true) (c : Ctx) (ax : Axis)
    (t : NodeTest) (preds : Exprs) (n : Nat) :
    eval sem (.step .ctx ax t preds) { c with result := .nodes [n] }
      = (stepFrom sem c ax t preds n).map (fun r => .nodes (cleanupFwd r)) := by
  rw [compose_path sem hper _ .ctx ax t preds (ns := [n]) (by rw [eval]) (.inr (by simp)),
    concatMapE_single]
  have e : stepFrom sem { c with result := .nodes [n] } ax t preds n
      = stepFrom sem c ax t preds n := by
    simp only [stepFrom, applyPreds_ctx]
  rw [e]
  cases stepFrom sem c ax t preds n <;> simp [bind, Except.bind, Except.map, pure, Except.pure]

/-- **compose_path_model** — the same for the model, up to the listing order: the nodes the
    Go-shaped evaluator selects for `P/R` are the union of the nodes the specification's `R`
    selects from each node the model selected for `P` (when `P` selects at least one node or
    the prefix of the node test of `R` is bound; with an unbound prefix and no node both
    evaluators fail, and the union over no node would be the empty node-set).  Prefixes
    elsewhere in `P` or in the predicates need not be bound. -/
theorem compose_path_model (a : Arena) (h : wfb a = true)
    (hsv : ∀ i, i < a.size → Model.strval a i = Spec.strval a i)
    (env : Env) (henv : EnvOk a env) (P : Expr) (ax : Axis) (t : NodeTest) (preds : Exprs)
    (ca : Bool) (hs : sumSafe ca (.step P ax t preds) = true)
    (c : Ctx) (ha : c.a = a) (he : c.env = env) (hok : Val.Ok a c.result)
    (hasc : ca = true → Val.Asc c.result)
    {ns : List Nat} (hP : eval Model.sem P c = .ok (.nodes ns))
    (hne : t.bound env = true ∨ ns ≠ []) :
    Res.Equiv (eval Model.sem (.step P ax t preds) c)
      ((concatMapE (stepFrom Spec.semKF c ax t preds) ns).map
        (fun r => .nodes (cleanupFwd r))) := by
  have hc : Ctx.Equiv c c := ⟨rfl, rfl, rfl, rfl, .refl _⟩
  have hasc' : ca = true → Val.Asc c.result ∧ Val.Asc c.result := fun x => ⟨hasc x, hasc x⟩
  have hsP : sumSafe ca P = true := by
    simp only [sumSafe, Bool.and_eq_true] at hs
    exact hs.1
  have r1 := exec_refines_spec a h hsv env henv _ ca hs c c hc hok hasc' ha he
  have r2 := exec_refines_spec a h hsv env henv P ca hsP c c hc hok hasc' ha he
  rw [hP] at r2
  obtain ⟨v, hv, hvv⟩ := ExRel.ok_left r2 rfl
  obtain ⟨ns', rfl, hperm⟩ := hvv.nodes_left
  have hne' : t.bound c.env = true ∨ ns' ≠ [] := by
    rcases hne with hb | hne
    · exact .inl (he ▸ hb)
    · refine .inr (fun e => hne ?_)
      subst e
      exact hperm.eq_nil
  rw [compose_path Spec.semKF rfl c P ax t preds hv hne'] at r1
  have r3 := concatMapE_perm (stepFrom Spec.semKF c ax t preds) hperm
  refine ExRel.trans (R := Val.Equiv) (S := Val.Equiv) (fun _ _ _ => Val.Equiv.trans) r1 ?_
  revert r3
  generalize concatMapE (stepFrom Spec.semKF c ax t preds) ns = x
  generalize concatMapE (stepFrom Spec.semKF c ax t preds) ns' = y
  intro r3
  cases x <;> cases y <;> simp only [ExRel] at r3
  · exact True.intro
  · show Val.Equiv (.nodes _) (.nodes _)
    rw [cleanupFwd_perm r3]
    exact .refl _

/-! ## a function as the last step of a path -/

/-- **fn_in_path** — `P/f(args)` is `f(args)` evaluated with the value of `P` as context value
    (for a function name that no user function shadows) -/
theorem fn_in_path (sem : Sem) (c : Ctx) (P : Expr) (f : Chars) (args : Exprs)
    (hu : lookupQ ([], f) c.env.fns = none) :
    eval sem (.call P none f args) c = (do
      let b ← eval sem P c
      eval sem (.call .ctx none f args) { c with result := b }) := by
  rw [eval_call_builtin sem c P f args hu]
  congr 1
  funext b
  rw [eval_call_builtin sem { c with result := b } .ctx f args hu, eval]
  rfl

/-- … and for the functions whose argument defaults to the context node — `string`, `number`,
    `name`, `local-name`, `namespace-uri`, `string-length`, `normalize-space` (`ctxDefault`) —
    `P/f()` is `f(P)` -/
theorem fn_in_path_arg (sem : Sem) (c : Ctx) (P : Expr) (f : Chars) (hf : ctxDefault f = true)
    (hu : lookupQ ([], f) c.env.fns = none) :
    eval sem (.call P none f .nil) c = eval sem (.call .ctx none f (.cons P .nil)) c := by
  rw [eval_call_builtin sem c P f .nil hu, eval_call_builtin sem c .ctx f (.cons P .nil) hu]
  simp only [eval, evalArgs]
  cases hP : eval sem P c with
  | error e =>
    have e' : eval sem P { c with result := c.result } = .error e := hP
    simp only [bind, Except.bind, e']
  | ok b =>
    have e : eval sem P { c with result := c.result } = .ok b := hP
    simp only [bind, Except.bind, pure, Except.pure, e]
    rw [builtin_ctx_arg sem c hf b]

/-- the seven names -/
theorem ctxDefault_names :
    ctxDefault "string".toList = true ∧ ctxDefault "number".toList = true
    ∧ ctxDefault "name".toList = true ∧ ctxDefault "local-name".toList = true
    ∧ ctxDefault "namespace-uri".toList = true ∧ ctxDefault "string-length".toList = true
    ∧ ctxDefault "normalize-space".toList = true := by
  simp [ctxDefault]

end Xsel.C18
