/-
  Proofs/C06.lean — property C06: the arithmetic operators and number functions are IEEE-754
  double arithmetic (XPath 1.0 §3.5, §4.4), and none of them can fail.

  `Num` models binary64 values as NaN, ±infinity, -0 or a finite rational (`fin 0` is +0);
  `Num.rnd` rounds an exact rational to the nearest double.  `Model.round` is the code's
  `getRound`; `Spec.round` is §4.4 `round` (⌊x + ½⌋, and "If the argument is less than zero, but
  greater than or equal to -0.5, then negative zero is returned": `round_negative_zero`).  The only
  deviation of the code from the Recommendation is known finding KF-round-negative-tie
  (`round(-1.5) = -2`, `round(-0.5) = -1`), which appears below as the explicit hypothesis of
  `round_partial` and as `round_counterexample` / `round_negative_half`.
-/
import Xsel.Eval
import Proofs.Lemmas.NumRound
import Proofs.Lemmas.RndNearest

namespace Xsel.C06
open Xsel Xsel.NumL

/-! ### 1. division -/

/-- **div_by_zero** — a finite non-zero number divided by +0 is the infinity with the sign of the
    dividend, divided by -0 the infinity of the opposite sign (no error, no NaN). -/
theorem div_by_zero (q : Rat) (hq : q ≠ 0) :
    Num.div (.fin q) (.fin 0) = (if q < 0 then .ninf else .pinf) ∧
    Num.div (.fin q) .nzero = (if q < 0 then .pinf else .ninf) := by
  by_cases h : q < 0 <;>
    simp [Num.div, Num.isNaN, Num.isInf, Num.toRat?, Num.signBit, hq, h]

/-- the remaining special cases of IEEE division -/
theorem div_special :
    Num.div (.fin 0) (.fin 0) = .nan ∧ Num.div (.fin 0) .nzero = .nan ∧
    Num.div .nzero (.fin 0) = .nan ∧ Num.div .nzero .nzero = .nan ∧
    (∀ y, Num.div .nan y = .nan) ∧ (∀ x, Num.div x .nan = .nan) ∧
    Num.div .pinf .pinf = .nan ∧ Num.div .pinf .ninf = .nan ∧
    Num.div .ninf .pinf = .nan ∧ Num.div .ninf .ninf = .nan ∧
    Num.div .pinf (.fin 0) = .pinf ∧ Num.div .pinf .nzero = .ninf ∧
    Num.div .ninf (.fin 0) = .ninf ∧ Num.div .ninf .nzero = .pinf ∧
    (∀ q, Num.div (.fin q) .pinf = if q < 0 then .nzero else .fin 0) ∧
    (∀ q, Num.div (.fin q) .ninf = if q < 0 then .fin 0 else .nzero) := by
  refine ⟨by decide +kernel, by decide +kernel, by decide +kernel, by decide +kernel, ?_, ?_,
    by decide +kernel, by decide +kernel, by decide +kernel, by decide +kernel,
    by decide +kernel, by decide +kernel, by decide +kernel, by decide +kernel, ?_, ?_⟩
  · intro y; simp [Num.div, Num.isNaN]
  · intro x; cases x <;> simp [Num.div, Num.isNaN]
  · intro q; by_cases h : q < 0 <;> simp [Num.div, Num.isNaN, Num.isInf, Num.signBit, h]
  · intro q; by_cases h : q < 0 <;> simp [Num.div, Num.isNaN, Num.isInf, Num.signBit, h]

/-- otherwise the quotient is the exact rational quotient rounded to the nearest double -/
theorem div_finite (a b : Rat) (ha : a ≠ 0) (hb : b ≠ 0) :
    Num.div (.fin a) (.fin b) = Num.rnd (a / b) := by
  simp [Num.div, Num.isNaN, Num.isInf, Num.toRat?, ha, hb]

/-! ### 2. mod -/

/-- **mod_exact** — for finite non-zero operands `mod` is the exact remainder of the truncating
    division `r = a - b·trunc(a/b)` (never rounded); a zero remainder takes the sign of the dividend. -/
theorem mod_exact (a b : Rat) (ha : a ≠ 0) (hb : b ≠ 0) :
    Num.fmod (.fin a) (.fin b) =
      (let r : Rat := a - b * ((Num.truncRat (a / b) : Int) : Rat)
       if r = 0 then (if a < 0 then .nzero else .fin 0) else .fin r) := by
  simp [Num.fmod, Num.isNaN, Num.isInf, Num.isZero, Num.toRat?, Num.signBit, ha, hb]

/-- **mod_sign_of_dividend** — the remainder is smaller in magnitude than the divisor and, when it
    is not zero, has the sign of the dividend (`5 mod -2 = 1`, `-5 mod 2 = -1`). -/
theorem mod_sign_of_dividend (a b : Rat) (hb : b ≠ 0) :
    let r : Rat := a - b * ((Num.truncRat (a / b) : Int) : Rat)
    r.abs < b.abs ∧ (r ≠ 0 → (r < 0 ↔ a < 0)) :=
  fmod_rem_bounds a b hb

/-- `trunc` is the integer part: between the argument and zero, less than 1 away -/
theorem trunc_spec (t : Rat) :
    (0 ≤ t → ((Num.truncRat t : Int) : Rat) ≤ t ∧ t < ((Num.truncRat t : Int) : Rat) + 1) ∧
    (t < 0 → t ≤ ((Num.truncRat t : Int) : Rat) ∧ ((Num.truncRat t : Int) : Rat) - 1 < t) :=
  truncRat_bounds t

/-- the special cases of `mod` -/
theorem mod_special :
    (∀ x, Num.fmod x (.fin 0) = .nan) ∧ (∀ x, Num.fmod x .nzero = .nan) ∧
    (∀ y, Num.fmod .pinf y = .nan) ∧ (∀ y, Num.fmod .ninf y = .nan) ∧
    (∀ y, Num.fmod .nan y = .nan) ∧ (∀ x, Num.fmod x .nan = .nan) ∧
    (∀ q, Num.fmod (.fin q) .pinf = .fin q) ∧ (∀ q, Num.fmod (.fin q) .ninf = .fin q) ∧
    Num.fmod .nzero .pinf = .nzero ∧
    (∀ b, b ≠ 0 → Num.fmod (.fin 0) (.fin b) = .fin 0) ∧
    (∀ b, b ≠ 0 → Num.fmod .nzero (.fin b) = .nzero) := by
  refine ⟨?_, ?_, ?_, ?_, ?_, ?_, ?_, ?_, by decide +kernel, ?_, ?_⟩
  · intro x; cases x <;> simp [Num.fmod, Num.isNaN, Num.isInf, Num.isZero]
  · intro x; cases x <;> simp [Num.fmod, Num.isNaN, Num.isInf, Num.isZero]
  · intro y; cases y <;> simp [Num.fmod, Num.isNaN, Num.isInf]
  · intro y; cases y <;> simp [Num.fmod, Num.isNaN, Num.isInf]
  · intro y; simp [Num.fmod, Num.isNaN]
  · intro x; cases x <;> simp [Num.fmod, Num.isNaN]
  · intro q; simp [Num.fmod, Num.isNaN, Num.isInf, Num.isZero]
  · intro q; simp [Num.fmod, Num.isNaN, Num.isInf, Num.isZero]
  · intro b hb; simp [Num.fmod, Num.isNaN, Num.isInf, Num.isZero, Num.toRat?, hb]
  · intro b hb; simp [Num.fmod, Num.isNaN, Num.isInf, Num.isZero, Num.toRat?, hb]

/-- `5.5 mod 2 = 1.5`, `5 mod 0.5 = 0`, `-5 mod 2 = -1`, `5 mod -2 = 1`, `-4 mod 2 = -0` -/
theorem mod_examples :
    Num.fmod (.fin (11 / 2)) (.fin 2) = .fin (3 / 2) ∧
    Num.fmod (.fin 5) (.fin (1 / 2)) = .fin 0 ∧
    Num.fmod (.fin (-5)) (.fin 2) = .fin (-1) ∧
    Num.fmod (.fin 5) (.fin (-2)) = .fin 1 ∧
    Num.fmod (.fin (-4)) (.fin 2) = .nzero := by
  decide +kernel

/-! ### 3. round -/

/-- **round_partial** — outside the negative ties (known finding KF-round-negative-tie, excluded by
    the hypothesis) the code's `getRound` is §4.4 `round`. -/
theorem round_partial (x : Num) (h : Spec.isNegativeTie x = false) : Model.round x = Spec.round x :=
  NumL.round_partial x h

/-- **round_counterexample** — the recorded deviation: `round(-1.5)` is `-2` in the code
    (pinned by TestFunctionRound) and `-1` in the Recommendation. -/
theorem round_counterexample :
    Model.round (.fin (-3 / 2)) = .fin (-2) ∧ Spec.round (.fin (-3 / 2)) = .fin (-1) ∧
    Spec.isNegativeTie (.fin (-3 / 2)) = true := by
  decide +kernel

/-- the deviation happens exactly on the negative ties, where the code gives one less: the code
    returns `⌊q⌋`, the Recommendation `⌊q⌋ + 1` — which for the tie `-0.5` is the NEGATIVE zero
    of §4.4 ("less than zero, but greater than or equal to -0.5"). -/
theorem round_negative_tie (q : Rat) (h : Spec.isNegativeTie (.fin q) = true) :
    Model.round (.fin q) = .fin ((q.floor : Int) : Rat) ∧
    Spec.round (.fin q) =
      (if q = -(1 : Rat) / 2 then .nzero else .fin ((q.floor + 1 : Int) : Rat)) ∧
    (Spec.round (.fin q)).toRat? = some ((q.floor + 1 : Int) : Rat) := by
  simp only [Spec.isNegativeTie, Bool.and_eq_true, decide_eq_true_eq, beq_iff_eq] at h
  obtain ⟨hq, hd⟩ := h
  have h1 : ¬ ((1 : Rat) / 2 < (1 : Rat) / 2) := by decide +kernel
  have h2 : ¬ (0 < q) := by grind
  have ⟨hb1, hb2⟩ := floor_bounds q
  have hm : ¬ (-(1 : Rat) / 2 < q ∧ q < 0) := by
    intro ⟨a, b⟩
    -- -1/2 < q < 0 forces ⌊q⌋ = -1, so the fraction q + 1 is above 1/2
    have hf : q.floor = -1 := by
      apply floor_eq
      · have : ((-1 : Int) : Rat) = -1 := by decide +kernel
        rw [this]; grind
      · have : ((-1 : Int) : Rat) + 1 = 0 := by decide +kernel
        rw [this]; exact b
    rw [hf] at hd
    have : ((-1 : Int) : Rat) = -1 := by decide +kernel
    rw [this] at hd
    have hq' : q = -(1 : Rat) / 2 := by grind
    rw [hq'] at a
    exact absurd a (by decide +kernel)
  have hsp : (Spec.round (.fin q)).toRat? = some ((q.floor + 1 : Int) : Rat) := by
    rw [spec_round_toRat, floor_add_half]
    have : (1 : Rat) / 2 ≤ q - ((q.floor : Int) : Rat) := by rw [hd]; exact Rat.le_refl
    simp [this]
  refine ⟨?_, ?_, hsp⟩
  · rw [model_round_outside q hm]
    simp [hd, h1, h2]
  · by_cases he : q = -(1 : Rat) / 2
    · subst he; decide +kernel
    · have hs : ¬ (-(1 : Rat) / 2 ≤ q ∧ q < 0) := by grind
      rw [spec_round_outside q hs, floor_add_half]
      have : (1 : Rat) / 2 ≤ q - ((q.floor : Int) : Rat) := by rw [hd]; exact Rat.le_refl
      simp [this, he]

/-- the negative tie at `-0.5`: `-1` in the code, negative zero in the Recommendation -/
theorem round_negative_half :
    Model.round (.fin (-1 / 2)) = .fin (-1) ∧ Spec.round (.fin (-1 / 2)) = .nzero ∧
    Spec.isNegativeTie (.fin (-1 / 2)) = true := by
  decide +kernel

/-- **round_passes_special** — NaN, the infinities and the two zeros are returned unchanged -/
theorem round_passes_special :
    Model.round .nan = .nan ∧ Model.round .pinf = .pinf ∧ Model.round .ninf = .ninf ∧
    Model.round .nzero = .nzero ∧ Model.round (.fin 0) = .fin 0 ∧
    Spec.round .nan = .nan ∧ Spec.round .pinf = .pinf ∧ Spec.round .ninf = .ninf ∧
    Spec.round .nzero = .nzero ∧ Spec.round (.fin 0) = .fin 0 := by
  decide +kernel

/-- **round_negative_zero** — §4.4: "If the argument is less than zero, but greater than or equal to
    -0.5, then negative zero is returned." -/
theorem round_negative_zero (q : Rat) (h1 : -(1 : Rat) / 2 ≤ q) (h2 : q < 0) :
    Spec.round (.fin q) = .nzero :=
  NumL.spec_round_negative_zero q h1 h2

/-- the code (`math.Copysign(0, -1)` for `-0.5 < n < 0`) does the same on the open interval; the
    end point `-0.5` is a negative tie (`round_negative_half`) -/
theorem model_round_negative_zero (q : Rat) (h1 : -(1 : Rat) / 2 < q) (h2 : q < 0) :
    Model.round (.fin q) = .nzero :=
  NumL.model_round_negative_zero q h1 h2

/-- negative zero is the result on a finite argument EXACTLY on these intervals; everywhere else the
    result is `fin n` for an integer `n` (`+0` when `n = 0`) -/
theorem round_zero_sign (q : Rat) :
    (Spec.round (.fin q) = .nzero ↔ -(1 : Rat) / 2 ≤ q ∧ q < 0) ∧
    (Model.round (.fin q) = .nzero ↔ -(1 : Rat) / 2 < q ∧ q < 0) ∧
    (¬ (-(1 : Rat) / 2 ≤ q ∧ q < 0) → ∃ n : Int, Spec.round (.fin q) = .fin (n : Rat)) ∧
    (¬ (-(1 : Rat) / 2 < q ∧ q < 0) → ∃ n : Int, Model.round (.fin q) = .fin (n : Rat)) := by
  have hs : ¬ (-(1 : Rat) / 2 ≤ q ∧ q < 0) → ∃ n : Int, Spec.round (.fin q) = .fin (n : Rat) :=
    fun h => ⟨_, spec_round_outside q h⟩
  have hm : ¬ (-(1 : Rat) / 2 < q ∧ q < 0) → ∃ n : Int, Model.round (.fin q) = .fin (n : Rat) := by
    intro h
    rw [model_round_outside q h]
    split
    · exact ⟨_, rfl⟩
    · exact ⟨_, rfl⟩
  refine ⟨⟨fun e => ?_, fun h => NumL.spec_round_negative_zero q h.1 h.2⟩,
    ⟨fun e => ?_, fun h => NumL.model_round_negative_zero q h.1 h.2⟩, hs, hm⟩
  · apply Classical.byContradiction
    intro h
    obtain ⟨n, hn⟩ := hs h
    rw [hn] at e; cases e
  · apply Classical.byContradiction
    intro h
    obtain ⟨n, hn⟩ := hm h
    rw [hn] at e; cases e

/-- **round_is_integer** — on a finite number both functions return an integer (`Num.toRat?`: the
    value of the result as a rational, both zeros being 0; see `round_zero_sign` for which zero) -/
theorem round_is_integer (q : Rat) :
    (∃ n : Int, (Model.round (.fin q)).toRat? = some (n : Rat)) ∧
    (∃ n : Int, (Spec.round (.fin q)).toRat? = some (n : Rat)) := by
  refine ⟨?_, ⟨_, spec_round_toRat q⟩⟩
  rw [model_round_toRat]
  split
  · exact ⟨_, rfl⟩
  · exact ⟨_, rfl⟩

/-- the value of §4.4 `round` is `⌊q + ½⌋` for every finite argument -/
theorem round_value (q : Rat) :
    (Spec.round (.fin q)).toRat? = some (((q + (1 : Rat) / 2).floor : Int) : Rat) :=
  spec_round_toRat q

/-- **round_closest** — §4.4: the result of `round` is an integer closest to the argument
    (distance at most ½), and of two closest integers it is the one nearer to +∞. -/
theorem round_closest (q : Rat) :
    ∃ n : Int, (Spec.round (.fin q)).toRat? = some (n : Rat) ∧ ((n : Rat) - q).abs ≤ (1 : Rat) / 2 ∧
      ((q - (n : Rat) = (1 : Rat) / 2) → False) := by
  refine ⟨(q + (1 : Rat) / 2).floor, spec_round_toRat q, ?_, ?_⟩
  · have ⟨h1, h2⟩ := floor_bounds (q + (1 : Rat) / 2)
    generalize (((q + (1 : Rat) / 2).floor : Int) : Rat) = n at *
    rcases abs_cases (n - q) with ⟨_, e⟩ | ⟨_, e⟩ <;> rw [e] <;> grind
  · have ⟨h1, h2⟩ := floor_bounds (q + (1 : Rat) / 2)
    grind

/-- ties go up: `round(k + ½) = k + 1` for every integer `k` (`round(2.5) = 3`, `round(-2.5) = -2`);
    for `k = -1` the result `0` is the negative zero (`round_negative_half`) -/
theorem round_tie_up (k : Int) :
    (Spec.round (.fin ((k : Rat) + (1 : Rat) / 2))).toRat? = some ((k + 1 : Int) : Rat) ∧
    (k ≠ -1 → Spec.round (.fin ((k : Rat) + (1 : Rat) / 2)) = .fin ((k + 1 : Int) : Rat)) := by
  have hfl : ((k : Rat) + (1 : Rat) / 2 + (1 : Rat) / 2).floor = k + 1 := by
    apply floor_eq
    · rw [Rat.intCast_add]; simp only [Rat.intCast_ofNat]; grind
    · rw [Rat.intCast_add]; simp only [Rat.intCast_ofNat]; grind
  refine ⟨by rw [spec_round_toRat, hfl], fun hk => ?_⟩
  have hout : ¬ (-(1 : Rat) / 2 ≤ (k : Rat) + (1 : Rat) / 2 ∧ (k : Rat) + (1 : Rat) / 2 < 0) := by
    intro ⟨a, b⟩
    have a' : ((-1 : Int) : Rat) ≤ (k : Rat) := by
      have : ((-1 : Int) : Rat) = -1 := by decide +kernel
      rw [this]; grind
    have b' : (k : Rat) < ((0 : Int) : Rat) := by
      have : ((0 : Int) : Rat) = 0 := by decide +kernel
      rw [this]; grind
    have a'' : (-1 : Int) ≤ k := Rat.intCast_le_intCast.1 a'
    have b'' : k < 0 := Rat.intCast_lt_intCast.1 b'
    omega
  rw [spec_round_outside _ hout, hfl]

/-- the code's result is also always a closest integer: the deviation is only in the direction of ties -/
theorem model_round_closest (q : Rat) :
    ∃ n : Int, (Model.round (.fin q)).toRat? = some (n : Rat) ∧ ((n : Rat) - q).abs ≤ (1 : Rat) / 2 := by
  have ⟨h1, h2⟩ := floor_bounds q
  rw [model_round_toRat]
  split
  · rename_i h
    refine ⟨_, rfl, ?_⟩
    simp only [Bool.or_eq_true, decide_eq_true_eq, Bool.and_eq_true, beq_iff_eq] at h
    rw [Rat.intCast_add]; simp only [Rat.intCast_ofNat]
    generalize ((q.floor : Int) : Rat) = f at *
    rcases abs_cases (f + 1 - q) with ⟨_, e⟩ | ⟨_, e⟩ <;> rw [e] <;> grind
  · rename_i h
    refine ⟨_, rfl, ?_⟩
    simp only [Bool.or_eq_true, decide_eq_true_eq, Bool.and_eq_true, beq_iff_eq, not_or] at h
    generalize ((q.floor : Int) : Rat) = f at *
    rcases abs_cases (f - q) with ⟨_, e⟩ | ⟨_, e⟩ <;> rw [e] <;> grind

/-! ### 4. floor and ceiling -/

/-- **floor_spec** — `floor` of a finite number is the largest integer not above it;
    the special values pass through. -/
theorem floor_spec (q : Rat) :
    Num.floor (.fin q) = .fin ((q.floor : Int) : Rat) ∧
    ((q.floor : Int) : Rat) ≤ q ∧ q < ((q.floor : Int) : Rat) + 1 :=
  ⟨rfl, floor_bounds q⟩

/-- **ceil_spec** — `ceiling` of a finite number is the smallest integer not below it
    (`-0` when a negative argument rounds up to zero, as IEEE `ceil` does). -/
theorem ceil_spec (q : Rat) :
    Num.ceil (.fin q) = (if q.ceil = 0 ∧ q < 0 then .nzero else .fin ((q.ceil : Int) : Rat)) ∧
    q ≤ ((q.ceil : Int) : Rat) ∧ ((q.ceil : Int) : Rat) < q + 1 := by
  refine ⟨?_, ceil_bounds q⟩
  simp [Num.ceil]

theorem floor_ceil_special :
    Num.floor .nan = .nan ∧ Num.floor .pinf = .pinf ∧ Num.floor .ninf = .ninf ∧ Num.floor .nzero = .nzero ∧
    Num.ceil .nan = .nan ∧ Num.ceil .pinf = .pinf ∧ Num.ceil .ninf = .ninf ∧ Num.ceil .nzero = .nzero :=
  ⟨rfl, rfl, rfl, rfl, rfl, rfl, rfl, rfl⟩

/-! ### 5. algebraic facts, sum, count -/

theorem neg_neg (x : Num) : Num.neg (Num.neg x) = x := by
  cases x with
  | fin q =>
    by_cases h : q = 0
    · subst h; decide +kernel
    · have : -q ≠ 0 := by grind
      simp [Num.neg, h, this, Rat.neg_neg]
  | _ => rfl

theorem add_comm (x y : Num) : Num.add x y = Num.add y x := by
  cases x <;> cases y <;> simp [Num.add, Rat.add_comm]

theorem mul_comm (x y : Num) : Num.mul x y = Num.mul y x := by
  cases x <;> cases y <;>
    simp [Num.mul, Num.isNaN, Num.isInf, Num.isZero, Num.signBit, Num.toRat?, Rat.mul_comm, Bool.or_comm, bne_comm]

/-- `x - y` is `x + (-y)`; unary minus flips the sign bit of every non-NaN value (`-(+0) = -0`) -/
theorem sub_def (x y : Num) : Num.sub x y = Num.add x (Num.neg y) := rfl

theorem neg_signBit (x : Num) (h : x ≠ .nan) : (Num.neg x).signBit = !x.signBit := by
  cases x with
  | fin q =>
    by_cases h0 : q = 0
    · subst h0; decide +kernel
    · simp only [Num.neg, beq_iff_eq, h0, if_false, Num.signBit]
      by_cases hq : q < 0
      · have : ¬ (-q < 0) := by grind
        simp [hq, this]
      · have : -q < 0 := by grind
        simp [hq, this]
  | nan => exact absurd rfl h
  | _ => rfl

/-- zeros and NaN in addition: `-0 + -0 = -0`, `+0 + -0 = +0`, NaN is absorbing, `∞ - ∞ = NaN` -/
theorem add_special :
    Num.add .nzero .nzero = .nzero ∧ Num.add (.fin 0) .nzero = .fin 0 ∧ Num.add .nzero (.fin 0) = .fin 0 ∧
    (∀ y, Num.add .nan y = .nan) ∧ (∀ x, Num.add x .nan = .nan) ∧
    Num.add .pinf .ninf = .nan ∧ Num.add .ninf .pinf = .nan ∧
    (∀ q, Num.add (.fin q) .nzero = .fin q) ∧ (∀ q, Num.add .nzero (.fin q) = .fin q) ∧
    (∀ q, Num.add (.fin q) .pinf = .pinf) ∧ (∀ q, Num.add (.fin q) .ninf = .ninf) := by
  refine ⟨rfl, rfl, rfl, fun y => ?_, fun x => ?_, rfl, rfl, fun _ => rfl, fun _ => rfl, fun _ => rfl, fun _ => rfl⟩
  · cases y <;> rfl
  · cases x <;> rfl

/-- finite operands: the exact sum, difference-free product and quotient, rounded once -/
theorem add_finite (a b : Rat) : Num.add (.fin a) (.fin b) = Num.rnd (a + b) := rfl

theorem mul_finite (a b : Rat) (ha : a ≠ 0) (hb : b ≠ 0) : Num.mul (.fin a) (.fin b) = Num.rnd (a * b) := by
  simp [Num.mul, Num.isNaN, Num.isInf, Num.toRat?, ha, hb]

theorem mul_special :
    (∀ y, Num.mul .nan y = .nan) ∧ (∀ x, Num.mul x .nan = .nan) ∧
    Num.mul .pinf (.fin 0) = .nan ∧ Num.mul .nzero .ninf = .nan ∧
    Num.mul .pinf .ninf = .ninf ∧ Num.mul .ninf .ninf = .pinf ∧
    Num.mul .nzero (.fin 0) = .nzero ∧ Num.mul .nzero .nzero = .fin 0 ∧
    (∀ q, q ≠ 0 → Num.mul (.fin q) (.fin 0) = if q < 0 then .nzero else .fin 0) := by
  refine ⟨fun y => ?_, fun x => ?_, by decide +kernel, by decide +kernel, by decide +kernel,
    by decide +kernel, by decide +kernel, by decide +kernel, fun q hq => ?_⟩
  · simp [Num.mul, Num.isNaN]
  · cases x <;> simp [Num.mul, Num.isNaN]
  · by_cases h : q < 0 <;> simp [Num.mul, Num.isNaN, Num.isInf, Num.toRat?, Num.signBit, h]

/-- **sum_is_fold** — `sum` adds the numbers from left to right starting from +0 -/
theorem sum_is_fold (l : List Num) : Model.sumNums l = l.foldl Num.add (.fin 0) := rfl

theorem sum_nil : Model.sumNums [] = .fin 0 := rfl

theorem sum_singleton (x : Num) : Model.sumNums [x] = Num.add (.fin 0) x := rfl

theorem sum_cons (x : Num) (l : List Num) :
    Model.sumNums (x :: l) = l.foldl Num.add (Num.add (.fin 0) x) := rfl

theorem sum_append_singleton (l : List Num) (x : Num) :
    Model.sumNums (l ++ [x]) = Num.add (Model.sumNums l) x := by
  simp [Model.sumNums, List.foldl_append]

/-- a NaN anywhere makes the sum NaN -/
theorem sum_nan (l : List Num) (h : Num.nan ∈ l) : Model.sumNums l = .nan := by
  have key : ∀ (l : List Num) (acc : Num), (acc = .nan ∨ Num.nan ∈ l) → l.foldl Num.add acc = .nan := by
    intro l
    induction l with
    | nil => intro acc h; simpa using h
    | cons y t ih =>
      intro acc h
      apply ih
      rcases h with h | h
      · subst h; left; simp [Num.add]
      · rcases List.mem_cons.1 h with h | h
        · subst h; left; cases acc <;> rfl
        · right; exact h
  exact key l _ (.inr h)

/-! ### 6. totality: no numeric operation can fail -/

/-- the five arithmetic operators are total functions on doubles: every pair of operands has a result
    (`arith` returns a `Num`, not an `Except`), and evaluation of a binary arithmetic expression
    whose operands evaluate succeeds with that result. -/
theorem arith_total (sem : Sem) (op : BinOp) (l r : Expr) (c : Ctx) (x y : Val)
    (hop : op = .add ∨ op = .sub ∨ op = .mul ∨ op = .div ∨ op = .mod)
    (hl : eval sem l c = .ok x) (hr : eval sem r c = .ok y) :
    eval sem (.bin op l r) c =
      .ok (.num (arith op (Model.toNum (sem.sv c.a) x) (Model.toNum (sem.sv c.a) y))) := by
  rcases hop with h | h | h | h | h <;> subst h <;> simp [eval, hl, hr] <;> rfl

theorem arith_ops (x y : Num) :
    arith .add x y = Num.add x y ∧ arith .sub x y = Num.sub x y ∧ arith .mul x y = Num.mul x y ∧
    arith .div x y = Num.div x y ∧ arith .mod x y = Num.fmod x y :=
  ⟨rfl, rfl, rfl, rfl, rfl⟩

/-- unary minus never fails either -/
theorem neg_total (sem : Sem) (e : Expr) (c : Ctx) (x : Val) (h : eval sem e c = .ok x) :
    eval sem (.neg e) c = .ok (.num (Num.neg (Model.toNum (sem.sv c.a) x))) := by
  simp [eval, h]; rfl

/-- **builtin_numeric_total** — `floor`, `ceiling`, `round` and `number` accept an argument of any
    type (it is converted with `number()`) and always succeed; `number()` without argument uses the
    context. -/
theorem builtin_numeric_total (sem : Sem) (c : Ctx) (v : Val) :
    builtin sem c "floor".toList [v] = some (.ok (.num (Num.floor (Model.toNum (sem.sv c.a) v)))) ∧
    builtin sem c "ceiling".toList [v] = some (.ok (.num (Num.ceil (Model.toNum (sem.sv c.a) v)))) ∧
    builtin sem c "round".toList [v] = some (.ok (.num (sem.round (Model.toNum (sem.sv c.a) v)))) ∧
    builtin sem c "number".toList [v] = some (.ok (.num (Model.toNum (sem.sv c.a) v))) ∧
    builtin sem c "number".toList [] = some (.ok (.num (Model.toNum (sem.sv c.a) c.result))) :=
  ⟨rfl, rfl, rfl, rfl, rfl⟩

/-- **sum_count_total** — on a node-set `sum` is the fold of `number(string-value)` over the nodes and
    `count` is the number of nodes; neither fails. -/
theorem sum_count_total (sem : Sem) (c : Ctx) (l : List Nat) :
    builtin sem c "sum".toList [.nodes l] =
      some (.ok (.num (Model.sumNums (l.map (fun i => strToNum (sem.sv c.a i)))))) ∧
    builtin sem c "count".toList [.nodes l] = some (.ok (.num (Num.ofNat l.length))) :=
  ⟨rfl, rfl⟩

/-- the only error of `sum`/`count` is the type error of §4.1/§4.4 for an argument that is not a node-set -/
theorem sum_count_type_error (sem : Sem) (c : Ctx) (v : Val) (h : ∀ l, v ≠ .nodes l) :
    builtin sem c "sum".toList [v] = some (.error .notNodeSet) ∧
    builtin sem c "count".toList [v] = some (.error .notNodeSet) := by
  cases v with
  | nodes l => exact absurd rfl (h l)
  | _ => exact ⟨rfl, rfl⟩

end Xsel.C06

/-! ### 7. `Num.rnd` IS round-to-nearest, ties-to-even (Proofs/Lemmas/RndNearest.lean)

  Until here `rnd` — the function every arithmetic operator applies to its exact rational result —
  was only validated against hardware.  The theorems below characterise it completely:
  its range is the set of binary64 values, it fixes them, a finite result is at least as near to
  the argument as EVERY double, a tie is broken towards the even significand, it is monotone, it
  overflows to ±infinity exactly from `2^1024 - 2^970` on and underflows to a zero of the sign of
  the argument exactly up to `2^-1075`. -/

namespace Xsel.C06
open Xsel Xsel.Num

/-- the finite binary64 values: `0`, or `±m·2^e` with `0 < m < 2^53`, `-1074 ≤ e ≤ 971` -/
abbrev IsDouble (q : Rat) : Prop := Rnd.IsDouble q

theorem isDouble_iff (q : Rat) : IsDouble q ↔
    (q = 0 ∨ ∃ (m : Nat) (e : Int) (s : Bool),
      q = (if s then -((m : Rat) * pow2 e) else (m : Rat) * pow2 e) ∧
      0 < m ∧ m < 2 ^ 53 ∧ -1074 ≤ e ∧ e ≤ 971) := Iff.rfl

/-- **rnd_range** — the result of `rnd` is a finite double, `-0`, or an infinity; never NaN -/
theorem rnd_range (q : Rat) :
    (∃ q', rnd q = .fin q' ∧ IsDouble q') ∨ rnd q = .nzero ∨ rnd q = .pinf ∨ rnd q = .ninf :=
  Rnd.rnd_range q

/-- **rnd_fixes_doubles** — representable values are not changed -/
theorem rnd_fixes_doubles (q : Rat) (h : IsDouble q) : rnd q = .fin q := Rnd.rnd_fixes_doubles q h

/-- `rnd` is idempotent -/
theorem rnd_idem (q q' : Rat) (h : rnd q = .fin q') : rnd q' = .fin q' := Rnd.rnd_idem q q' h

/-- **roundHalfEvenNat_nearest** — the significand rounding: within ½, even at distance exactly ½ -/
theorem roundHalfEvenNat_nearest (x : Rat) (hx : 0 ≤ x) :
    ((roundHalfEvenNat x : Rat) - x).abs ≤ (1 : Rat) / 2 ∧
    (((roundHalfEvenNat x : Rat) - x).abs = (1 : Rat) / 2 → roundHalfEvenNat x % 2 = 0) :=
  Rnd.roundHalfEvenNat_nearest x hx

/-- **ulpExp_spec** — the exponent of the unit in the last place: `2^52 ≤ a/2^e < 2^53` in the
    normal range, clamped at the subnormal exponent `-1074` -/
theorem ulpExp_spec (a : Rat) (ha : 0 < a) :
    -1074 ≤ ulpExp a ∧
    (-1074 < ulpExp a → pow2 52 ≤ a / pow2 (ulpExp a) ∧ a / pow2 (ulpExp a) < pow2 53) ∧
    (ulpExp a = -1074 → a / pow2 (ulpExp a) < pow2 53) := Rnd.ulpExp_spec a ha

/-- the exponent is determined by the binade -/
theorem ulpExp_unique (a : Rat) (ha : 0 < a) (e : Int) (he : -1074 ≤ e)
    (h1 : pow2 52 ≤ a / pow2 e) (h2 : a / pow2 e < pow2 53) : ulpExp a = e :=
  Rnd.ulpExp_unique a ha e he h1 h2

/-- **rnd_nearest** — GLOBAL form: a finite result `q'` (`-0` counted as `0`:
    `Num.toRat?`) is at least as near to `q` as every double `d` -/
theorem rnd_nearest (q q' : Rat) (h : (rnd q).toRat? = some q') (d : Rat) (hd : IsDouble d) :
    (q' - q).abs ≤ (d - q).abs := Rnd.rnd_nearest q q' h d hd

/-- **rnd_ties_even** — when another double is exactly as near, the result has the even
    significand: `|q'| = M·2^e`, `e = ulpExp |q|`, `M` even -/
theorem rnd_ties_even (q q' : Rat) (h : (rnd q).toRat? = some q') (d : Rat) (hd : IsDouble d)
    (hne : d ≠ q') (heq : (d - q).abs = (q' - q).abs) :
    ∃ M : Nat, M % 2 = 0 ∧ q'.abs = (M : Rat) * pow2 (ulpExp q.abs) :=
  Rnd.rnd_ties_even q q' h d hd hne heq

/-- … and also in the normal form of the result itself, `|q'| = M·2^(ulpExp |q'|)`, `M < 2^53` -/
theorem rnd_ties_even' (q q' : Rat) (h : (rnd q).toRat? = some q') (d : Rat) (hd : IsDouble d)
    (hne : d ≠ q') (heq : (d - q).abs = (q' - q).abs) :
    ∃ M : Nat, M % 2 = 0 ∧ M < 2 ^ 53 ∧ q'.abs = (M : Rat) * pow2 (ulpExp q'.abs) :=
  Rnd.rnd_ties_even' q q' h d hd hne heq

/-- **rnd_monotone** — in the order of the IEEE comparison (`Num.le`: `-∞ < finite < +∞`,
    `-0 = +0`) -/
theorem rnd_monotone (p q : Rat) (h : p ≤ q) : Num.le (rnd p) (rnd q) = true :=
  Rnd.rnd_monotone p q h

/-- **rnd_overflow** — from the rounding boundary `2^1024 - 2^970` on: the infinity of the sign -/
theorem rnd_overflow (q : Rat) (h : pow2 1024 - pow2 970 ≤ q.abs) :
    rnd q = if q < 0 then .ninf else .pinf := Rnd.rnd_overflow q h

/-- … and below it the result is finite -/
theorem rnd_finite (q : Rat) (h : q.abs < pow2 1024 - pow2 970) :
    ∃ q', (rnd q).toRat? = some q' ∧ IsDouble q' := Rnd.rnd_finite q h

/-- **rnd_underflow_sign** — a non-zero argument that rounds to a zero keeps its sign -/
theorem rnd_underflow_sign (q : Rat) (hz : (rnd q).isZero = true) :
    (q < 0 → rnd q = .nzero) ∧ (0 < q → rnd q = .fin 0) := Rnd.rnd_underflow_sign q hz

/-- … which happens exactly up to half the smallest subnormal (the tie goes to the even `0`) -/
theorem rnd_underflow (q : Rat) (hq : q ≠ 0) : (rnd q).isZero = true ↔ q.abs ≤ pow2 (-1075) :=
  Rnd.rnd_underflow q hq

/-- rounding commutes with negation -/
theorem rnd_neg (q : Rat) (hq : q ≠ 0) : rnd (-q) = Num.neg (rnd q) := Rnd.rnd_neg q hq

/-- **add_is_rounded_sum** etc. — on finite operands the operators round the exact result once -/
theorem add_is_rounded_sum (a b : Rat) : Num.add (.fin a) (.fin b) = rnd (a + b) := rfl

theorem sub_is_rounded_difference (a b : Rat) (hb : b ≠ 0) :
    Num.sub (.fin a) (.fin b) = rnd (a - b) := Rnd.sub_is_rounded_difference a b hb

theorem mul_is_rounded_product (a b : Rat) (ha : a ≠ 0) (hb : b ≠ 0) :
    Num.mul (.fin a) (.fin b) = rnd (a * b) := mul_finite a b ha hb

theorem div_is_rounded_quotient (a b : Rat) (ha : a ≠ 0) (hb : b ≠ 0) :
    Num.div (.fin a) (.fin b) = rnd (a / b) := div_finite a b ha hb

/-- **arith_nearest** — the result of `+ - * div` on finite non-zero doubles is, when finite, a
    double nearest to the exact rational result (no double `d` is nearer) -/
theorem arith_nearest (a b : Rat) (ha : a ≠ 0) (hb : b ≠ 0) (d : Rat) (hd : IsDouble d) :
    (∀ q', (Num.add (.fin a) (.fin b)).toRat? = some q' → (q' - (a + b)).abs ≤ (d - (a + b)).abs) ∧
    (∀ q', (Num.sub (.fin a) (.fin b)).toRat? = some q' → (q' - (a - b)).abs ≤ (d - (a - b)).abs) ∧
    (∀ q', (Num.mul (.fin a) (.fin b)).toRat? = some q' → (q' - a * b).abs ≤ (d - a * b).abs) ∧
    (∀ q', (Num.div (.fin a) (.fin b)).toRat? = some q' → (q' - a / b).abs ≤ (d - a / b).abs) :=
  Rnd.arith_nearest a b ha hb d hd

/-- … and exact when the exact result is representable -/
theorem arith_exact (a b : Rat) (ha : a ≠ 0) (hb : b ≠ 0) :
    (IsDouble (a + b) → Num.add (.fin a) (.fin b) = .fin (a + b)) ∧
    (IsDouble (a - b) → Num.sub (.fin a) (.fin b) = .fin (a - b)) ∧
    (IsDouble (a * b) → Num.mul (.fin a) (.fin b) = .fin (a * b)) ∧
    (IsDouble (a / b) → Num.div (.fin a) (.fin b) = .fin (a / b)) :=
  Rnd.arith_exact a b ha hb

/-- concrete ties: `2^53 + 1 ↦ 2^53` (down to even), `2^53 + 3 ↦ 2^53 + 4` (up to even) -/
example : rnd 9007199254740993 = .fin 9007199254740992 ∧
    rnd 9007199254740995 = .fin 9007199254740996 := by decide +kernel

end Xsel.C06
