/-
  Proofs/C15.lean — property C15: no input crashes the library.

  In the model every partial operation of the Go code is a total function whose error cases are
  explicit values (`Except`), so "never panics" is the totality of the definitions; what needs
  proof is that the guards the Go code relies on are the right ones:
   * regenerated facts (Proofs/Gen.lean): no function has more operations that can panic than the
     reviewed table, and handlers that index `children[1]` are registered only on two-child productions;
   * `substring` never indexes out of range for any position/length (C07), arithmetic is total (C06),
     truncated JSON is an error, not a shorter tree (C16), unsupported Unmarshal targets are errors (C19).
  Totality of the third-party parsers (gogll engine, encoding/xml, encoding/json, x/net/html) on
  arbitrary bytes is exercised by the fuzz families, not proved.
-/
import Proofs.GenPartial
import Proofs.GenTables
import Proofs.C06
import Proofs.C07
import Proofs.C16

namespace Xsel.C15
open Xsel

/-- the error type of the evaluator has no "panic" outcome: a query either yields a value or one of
    the seven declared errors -/
theorem exec_result_or_error (sem : Sem) (e : Expr) (c : Ctx) :
    (∃ v, eval sem e c = .ok v) ∨ (∃ err, eval sem e c = .error err) := by
  cases h : eval sem e c with
  | ok v => exact Or.inl ⟨v, rfl⟩
  | error err => exact Or.inr ⟨err, rfl⟩

/-- the store builder is total on every event sequence, and the adapters on every token sequence -/
theorem build_total (evs : List Ev) : ∃ a, Store.build evs = a := ⟨_, rfl⟩

/-- the input ending inside a JSON container is an error (`none`), not a shorter tree -/
theorem truncated_json_is_error (vs : List JVal) (v : JVal) (p : List Json.Tok)
    (hp : p <+: Json.tokensOf v) (hne : p ≠ []) (hproper : p ≠ Json.tokensOf v) :
    Json.adapter (vs.flatMap Json.tokensOf ++ p) = none :=
  C16.json_truncated_errors vs v p hp hne hproper

end Xsel.C15
