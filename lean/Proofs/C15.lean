/-
  Proofs/C15.lean — property C15: no input crashes the library.

  In the model every partial operation of the Go code is a total function whose error cases are
  explicit values (`Except`), so "never panics" is the totality of the definitions; what needs
  proof is that the guards the Go code relies on are the right ones:
   * regenerated facts (Proofs/Gen.lean): no function has more operations that can panic than the
     reviewed table, and handlers that index `children[1]` are registered only on two-child productions;
   * `substring` never indexes out of range for any position/length (C07), arithmetic is total (C06),
     truncated JSON is an error, not a shorter tree (C16), unsupported Unmarshal targets are errors (C19).
  Totality of the third-party parsers (gogll engine, encoding/xml, encoding/json, x/net/html) on
  arbitrary bytes is exercised by the fuzz families, not proved.
-/
import Proofs.GenPartial
import Proofs.GenTables
import Proofs.C06
import Proofs.C07
import Proofs.C16
import Proofs.Lemmas.WalkTop
import Proofs.Lemmas.WalkNoPanic
import Proofs.Lemmas.WalkValid3
import Proofs.GenWalk
import Proofs.Lemmas.WalkLower

namespace Xsel.C15
open Xsel

/-- the error type of the evaluator has no "panic" outcome: a query either yields a value or one of
    the seven declared errors -/
theorem exec_result_or_error (sem : Sem) (e : Expr) (c : Ctx) :
    (∃ v, eval sem e c = .ok v) ∨ (∃ err, eval sem e c = .error err) := by
  cases h : eval sem e c with
  | ok v => exact Or.inl ⟨v, rfl⟩
  | error err => exact Or.inr ⟨err, rfl⟩

/-- the store builder is total on every event sequence, and the adapters on every token sequence -/
theorem build_total (evs : List Ev) : ∃ a, Store.build evs = a := ⟨_, rfl⟩

/-- the input ending inside a JSON container is an error (`none`), not a shorter tree -/
theorem truncated_json_is_error (vs : List JVal) (v : JVal) (p : List Json.Tok)
    (hp : p <+: Json.tokensOf v) (hne : p ≠ []) (hproper : p ≠ Json.tokensOf v) :
    Json.adapter (vs.flatMap Json.tokensOf ++ p) = none :=
  C16.json_truncated_errors vs v p hp hne hproper

/-- **handler_walk_never_panics** — the partial operations of the handler layer (exec/contextfn*.go:
    `children[1]` of a node, `literal[1:len-1]`, the nil BSR of a node without nonterminal child,
    `GetTChildI` on a nonterminal position) are explicit `panic` outcomes in the model of the walk over the
    parse forest (`Xsel/Walk.lean`); on the derivation tree of EVERY expression of the modelled domain, with
    the handler table regenerated from the code, none of them is reached: `Exec` returns a value or one of
    the declared errors, never its internal "xpath query panic" -/
theorem handler_walk_never_panics (a : Arena) (env : Env) (start : Nat) (e : Expr) (h : Walk.walkOk e = true) :
    Walk.run Generated.handlers a env start (Walk.derivTop e) ≠ .error .panic :=
  Walk.walk_never_panics a env start e h

/-- … and the outcome is the evaluator's (value or declared error) -/
theorem handler_walk_result_or_error (a : Arena) (env : Env) (start : Nat) (e : Expr) (h : Walk.walkOk e = true) :
    (∃ v, Walk.run Generated.handlers a env start (Walk.derivTop e) = .ok v) ∨
    (∃ err, Walk.run Generated.handlers a env start (Walk.derivTop e) = .error (.err err)) := by
  rw [Walk.walk_refines_eval a env start e h]
  cases Model.run a env start (Syntax.normCtx e) with
  | ok v => exact .inl ⟨v, rfl⟩
  | error err => exact .inr ⟨err, rfl⟩

/-- **any_forest_never_panics** — the statement for EVERY forest: take any derivation tree of the grammar compiled
    into the parser (every node an instance of a production of the regenerated table — abbreviated forms, names
    that spell keywords, either derivation of an ambiguous sentence, any nesting), any context and any bindings.
    The handler walk with the regenerated handler table never reaches `children[i]` of a missing child, a nil
    BSR, `literal[1:len-1]` of a short text or `GetTChildI` on a nonterminal: `Exec` cannot fail with its internal
    "xpath query panic" because of the handler layer.  The premise about the two tables is
    `Gen.handlers_fit_productions`, decided by kernel evaluation on every run. -/
theorem any_forest_never_panics (t : Walk.PT) (hv : t.valid Generated.productions = true) (w : Walk.WCtx) :
    Walk.walk Generated.handlers t w ≠ .error .panic :=
  Walk.walk_valid_never_panics Generated.handlers Generated.productions Gen.handlers_fit_productions t hv w

/-- the premise is met by the derivation tree of every expression (`C08.forest_is_derivation`) -/
example (e : Expr) (w : Walk.WCtx) : Walk.walk Generated.handlers (Walk.derivTop e) w ≠ .error .panic :=
  any_forest_never_panics _ (Walk.derivTop_valid e) w

/-- **denoting_forest_never_panics** — the same conclusion from a different premise: a tree that DENOTES an
    expression (`L2.lower t = some x`, Xsel/Lower.lean — the condition the driver checks on the forest of the real
    parser for every generated string) is walked without panic in every context, whether or not each of its nodes
    is an instance of a production; the run ends in a value or an ordinary error, the evaluator's own. -/
theorem denoting_forest_never_panics (a : Arena) (env : Env) (start : Nat) (t : Walk.PT) (x : Expr)
    (h : Walk.L2.lower t = some x) :
    Walk.run Generated.handlers a env start t ≠ .error .panic := by
  have e : Walk.run Generated.handlers a env start t = Walk.ofEval (Model.run a env start x) := by
    rw [Gen.handlers_agree]
    exact Walk.run_of_sim (Walk.L2.walk_lower t x h _)
  rw [e]
  cases Model.run a env start x <;> simp [Walk.ofEval]

/-- a panic IS reachable in the model when a handler is registered for a nonterminal whose production does
    not have the children it indexes (the class of defect the regenerated fact
    `binary_handlers_have_two_children` excludes): `leftRightDependentResult` on the one-child node `Step` -/
example : (match Walk.run [("Step", "leftRightDependentResult")] #[] {} 0
      (Walk.N "Step" [Walk.N "AbbreviatedStep" [Walk.N "AbbreviatedStepSelf" [Walk.tkp .dot]]]) with
    | .error .panic => true
    | _ => false) = true := by
  decide +kernel

end Xsel.C15
