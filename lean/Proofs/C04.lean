/-
  Proofs/C04.lean — property C04: the conversions between the four XPath value types follow
  XPath 1.0 §4.2 (`string`), §4.3 (`boolean`) and §4.4 (`number`).
-/
import Xsel.Eval
import Proofs.Lemmas.NumParse
import Proofs.Lemmas.NumPrint
import Proofs.Lemmas.NumRoundTrip

namespace Xsel.C04
open Xsel Xsel.Model Xsel.NumL

/-! ### 11. boolean(), and conversions of booleans -/

/-- **bool_conv** — §4.3: a number is true iff it is neither a zero (of either sign) nor NaN;
    a string iff it is non-empty; a node-set iff it is non-empty; a boolean is itself. -/
theorem bool_conv :
    (∀ n : Num, Model.toBool (Val.num n) = true ↔ (n ≠ .nan ∧ n ≠ .nzero ∧ n ≠ .fin 0)) ∧
    (∀ s : Chars, Model.toBool (Val.str s) = true ↔ s ≠ []) ∧
    (∀ l : List Nat, Model.toBool (Val.nodes l) = true ↔ l ≠ []) ∧
    (∀ b : Bool, Model.toBool (Val.bool b) = b) := by
  refine ⟨?_, ?_, ?_, fun _ => rfl⟩
  · intro n
    cases n <;> simp [Model.toBool, Num.isZero, Num.isNaN]
  · intro s; cases s <;> simp [Model.toBool]
  · intro l; cases l <;> simp [Model.toBool]

/-- §4.4 / §4.2: `number(true()) = 1`, `number(false()) = 0`, `string(true()) = "true"`, `string(false()) = "false"` -/
theorem bool_to_num_str (sv : Nat → Chars) :
    toNum sv (.bool true) = .fin 1 ∧ toNum sv (.bool false) = .fin 0 ∧
    toStr sv (.bool true) = "true".toList ∧ toStr sv (.bool false) = "false".toList :=
  ⟨rfl, rfl, rfl, rfl⟩

/-- identity conversions, and node-sets convert through the string-value of their first node in
    document order (`firstDoc` is the minimum, node ids being document order) -/
theorem conv_basic (sv : Nat → Chars) :
    (∀ n, toNum sv (.num n) = n) ∧ (∀ s, toStr sv (.str s) = s) ∧
    (∀ s, toNum sv (.str s) = strToNum s) ∧ (∀ n, toStr sv (.num n) = numToStr n) ∧
    toStr sv (.nodes []) = [] ∧ toNum sv (.nodes []) = .nan ∧
    (∀ l, toNum sv (.nodes l) = strToNum (toStr sv (.nodes l))) :=
  ⟨fun _ => rfl, fun _ => rfl, fun _ => rfl, fun _ => rfl, rfl, by show strToNum [] = .nan; decide +kernel, fun _ => rfl⟩

theorem firstDoc_min (x : Nat) (xs : List Nat) :
    ∃ m, firstDoc (x :: xs) = some m ∧ m ∈ x :: xs ∧ ∀ y ∈ x :: xs, m ≤ y := by
  refine ⟨_, rfl, ?_, ?_⟩
  · induction xs generalizing x with
    | nil => simp
    | cons y t ih =>
      simp only [List.foldl_cons]
      split
      · rcases List.mem_cons.1 (ih y) with h | h
        · rw [h]; simp
        · simp [h]
      · rcases List.mem_cons.1 (ih x) with h | h
        · rw [h]; simp
        · simp [h]
  · have key : ∀ (l : List Nat) (m : Nat),
        l.foldl (fun m y => if y < m then y else m) m ≤ m ∧
        ∀ y ∈ l, l.foldl (fun m y => if y < m then y else m) m ≤ y := by
      intro l
      induction l with
      | nil => intro m; simp
      | cons z t ih =>
        intro m
        simp only [List.foldl_cons]
        have ⟨h1, h2⟩ := ih (if z < m then z else m)
        generalize List.foldl (fun m y => if y < m then y else m) (if z < m then z else m) t = r at h1 h2
        refine ⟨by split at h1 <;> omega, ?_⟩
        intro y hy
        rcases List.mem_cons.1 hy with h | h
        · subst h; split at h1 <;> omega
        · exact h2 y h
    intro y hy
    rcases List.mem_cons.1 hy with h | h
    · subst h; exact (key xs y).1
    · exact (key xs x).2 y h

/-! ### 12. string(number): special values -/

/-- **num_to_str_special** — §4.2: NaN is "NaN", the infinities are "Infinity" and "-Infinity",
    positive and negative zero are both "0". -/
theorem num_to_str_special :
    numToStr .nan = "NaN".toList ∧ numToStr .pinf = "Infinity".toList ∧
    numToStr .ninf = "-Infinity".toList ∧ numToStr .nzero = "0".toList ∧ numToStr (.fin 0) = "0".toList :=
  ⟨rfl, rfl, rfl, rfl, by decide +kernel⟩

/-! ### 13. number(string) -/

/-- **str_to_num_grammar** — §4.4: a string converts to NaN exactly when it is not
    optional white space, an optional '-', a Number (`Digits ('.' Digits?)? | '.' Digits`), optional
    white space.  (A grammatical string of huge magnitude becomes ±Infinity, never NaN.) -/
theorem str_to_num_grammar (s : Chars) : strToNum s = .nan ↔ ¬ Grammar s :=
  strToNum_nan_iff s

/-- the value of a grammatical string is the exact decimal value rounded to the nearest double
    (`Num.rnd`), negated when there is a minus sign (so "-0" is negative zero) -/
theorem str_to_num_value (s : Chars) :
    (∀ r q, trimXml s = '-' :: r → parseUnsigned r = some q → strToNum s = Num.neg (Num.rnd q)) ∧
    (∀ q, (trimXml s).head? ≠ some '-' → parseUnsigned (trimXml s) = some q → strToNum s = Num.rnd q) := by
  constructor
  · intro r q h1 h2; simp [strToNum, h1, h2]
  · intro q h1 h2
    unfold strToNum
    split
    · rename_i r hr; rw [hr] at h1; exact absurd rfl h1
    · rw [h2]

/-- the exact value of `Digits.Digits` -/
theorem parse_unsigned_value (ip fr : Chars) (hi : ∀ c ∈ ip, isDigit c = true) (hf : ∀ c ∈ fr, isDigit c = true)
    (hne : ¬ (ip = [] ∧ fr = [])) :
    parseUnsigned ip = (if ip = [] then none else some ((digitsVal ip : Nat) : Rat)) ∧
    parseUnsigned (ip ++ '.' :: fr) =
      some (((digitsVal ip * 10 ^ fr.length + digitsVal fr : Nat) : Rat) / ((10 ^ fr.length : Nat) : Rat)) := by
  have hdot : ¬ isDigit '.' = true := by decide
  constructor
  · have ⟨h1, h2⟩ := takeWhile_all (p := isDigit) ip hi
    unfold parseUnsigned
    simp only [h1, h2]
    cases ip <;> simp
  · have h1 : (ip ++ '.' :: fr).takeWhile isDigit = ip := by
      rw [List.takeWhile_append_of_pos hi, List.takeWhile_cons_of_neg hdot, List.append_nil]
    have h2 : (ip ++ '.' :: fr).dropWhile isDigit = '.' :: fr := by
      rw [List.dropWhile_append_of_pos hi, List.dropWhile_cons_of_neg hdot]
    have h3 : fr.all isDigit = true := by simpa [List.all_eq_true] using hf
    have h4 : (!(ip.isEmpty && fr.isEmpty)) = true := by
      cases ip <;> cases fr <;> simp_all
    unfold parseUnsigned
    simp only [h1, h2, h3, h4, Bool.and_self, if_true]

/-- examples: no exponent, no '+', no hex, no "Infinity"/"NaN" words, no inner space -/
theorem str_to_num_examples :
    strToNum "1e3".toList = .nan ∧ strToNum "+1".toList = .nan ∧ strToNum "0x10".toList = .nan ∧
    strToNum "Infinity".toList = .nan ∧ strToNum "NaN".toList = .nan ∧ strToNum "".toList = .nan ∧
    strToNum "-".toList = .nan ∧ strToNum ".".toList = .nan ∧ strToNum "1 2".toList = .nan ∧
    strToNum "- 1".toList = .nan ∧ strToNum "--1".toList = .nan ∧ strToNum "1.2.3".toList = .nan ∧
    strToNum " 1".toList = .nan ∧
    strToNum " 12.50 ".toList = .fin (25 / 2) ∧ strToNum "-.5".toList = .fin (-1 / 2) ∧
    strToNum "5.".toList = .fin 5 ∧ strToNum "\t\r\n 7".toList = .fin 7 ∧
    strToNum "-0".toList = .nzero ∧ strToNum "0.0".toList = .fin 0 ∧ strToNum "007".toList = .fin 7 := by
  decide +kernel

/-- overflow gives an infinity, not NaN and not an error: `number("1" followed by 400 zeros) = Infinity` -/
theorem str_to_num_overflow :
    strToNum ('1' :: List.replicate 400 '0') = .pinf ∧ strToNum ('-' :: '1' :: List.replicate 400 '0') = .ninf := by
  decide +kernel

/-! ### 14. string(number): finite values -/

/-- **num_to_str_no_exponent** — §4.2: a finite number is written as an optional leading '-'
    followed by decimal digits with at most one '.'; there is never an exponent ('e'), a '+',
    or any other character, and the text is not empty. -/
theorem num_to_str_no_exponent (q : Rat) :
    ∃ body : Chars, numToStr (.fin q) = (if q < 0 then ['-'] else []) ++ body ∧
      (∀ c ∈ body, isDigit c = true ∨ c = '.') ∧ body.count '.' ≤ 1 ∧ body ≠ [] :=
  numToStr_fin_shape q

/-- the decimal point is written only when it falls before the last significant digit: a decimal
    whose significant digits all lie in the integer part (an integer) is printed without '.' -/
theorem layout_integer_no_point (d : Dec) (h : ∀ c ∈ d.digits, isDigit c = true)
    (hp : 0 < d.dp) (hi : (d.digits.length : Int) ≤ d.dp) : ∀ c ∈ layoutF d, isDigit c = true :=
  (layoutF_shape d h).2.2.2 hp hi

/-- every `Dec` produced by the shortest-digits search consists of decimal digits -/
theorem shortest_digits_are_digits (q : Rat) : ∀ c ∈ (shortestDec q).digits, isDigit c = true :=
  shortestDec_digits q

theorem num_to_str_examples :
    numToStr (.fin (1 / 2)) = "0.5".toList ∧ numToStr (.fin 100) = "100".toList ∧
    numToStr (.fin (-3 / 2)) = "-1.5".toList ∧ numToStr (Num.rnd (1 / 10)) = "0.1".toList ∧
    numToStr (Num.rnd (10 ^ 21)) = "1000000000000000000000".toList ∧
    numToStr (Num.rnd (1 / 10 ^ 7)) = "0.0000001".toList ∧
    numToStr (Num.add (Num.rnd (1 / 10)) (Num.rnd (2 / 10))) = "0.30000000000000004".toList := by
  decide +kernel

/-! ### 15. number(string(x)) = x -/

/-- what the printed text of a decimal `0.d₁d₂… × 10^dp` parses to: exactly its value -/
theorem layout_parses_to_value (d : Dec) (h : ∀ c ∈ d.digits, isDigit c = true) :
    parseUnsigned (layoutF d) = some (decVal d) :=
  parse_layoutF d h

/-- the decimal chosen by the shortest-digits search rounds back to the double it was chosen for
    (the exact-expansion fallback included: a double has at most 1074 fractional binary digits) -/
theorem shortest_reads_back (p : Rat) (hp : 0 < p) (h : Num.rnd p = .fin p) :
    Num.rnd (decVal (shortestDec p)) = .fin p :=
  shortestDec_reads_back p hp h

/-- **num_to_str_reads_back** — for every non-zero finite double `x` (a rational that `Num.rnd`
    leaves unchanged), converting to a string and back gives `x` again. -/
theorem num_to_str_reads_back (q : Rat) (hq : q ≠ 0) (h : Num.rnd q = .fin q) :
    strToNum (numToStr (.fin q)) = .fin q :=
  reads_back q hq h

/-- the remaining values: +0 reads back, -0 loses its sign ("0"), and "NaN", "Infinity",
    "-Infinity" are not Numbers, so all three read back as NaN (as §4.4 prescribes) -/
theorem reads_back_special :
    strToNum (numToStr (.fin 0)) = .fin 0 ∧ strToNum (numToStr .nzero) = .fin 0 ∧
    strToNum (numToStr .nan) = .nan ∧ strToNum (numToStr .pinf) = .nan ∧ strToNum (numToStr .ninf) = .nan := by
  decide +kernel

end Xsel.C04
