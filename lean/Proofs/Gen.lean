/-
  Proofs/Gen.lean — theorems over the fact tables regenerated from /repo's source on every run
  (`xh facts` → Generated/Facts.lean).  All are closed by kernel evaluation (`decide`), so a
  change of the source that alters a table makes the corresponding theorem fail to check.
-/
import Generated.Facts
import Proofs.Expect
import Xsel.Axes

namespace Xsel.Gen
open Xsel

/-- the evaluator dispatches every nonterminal to the handler the model was written against -/
theorem handlers_agree : Generated.handlers = Expect.handlers := by decide +kernel

/-- the parser's production table is the grammar the model and the C08 theorems were written against -/
theorem productions_agree : Generated.productions = Expect.productions := by decide +kernel

def hasHandler (nt : String) : Bool := Generated.handlers.any (fun p => p.1 == nt)

def ntCount (syms : List (Bool × String)) : Nat := (syms.filter (·.1)).length

/-- nonterminals whose children are walked by `gatherFunctionArgs`, not by `execChildren` -/
def argListNTs : List String :=
  ["FunctionSignature", "FunctionCallArgumentList", "FunctionCallArgumentListArgWithNext", "FunctionCallArgumentListEndArg"]

/-- **no_dropped_symbol** — a production whose head has no handler is evaluated by `execChildren`,
    which evaluates only the first nonterminal child; so such a production must not have two
    nonterminal children (otherwise part of the expression is silently ignored). -/
theorem no_dropped_symbol :
    (Generated.productions.all fun p => hasHandler p.1 || argListNTs.contains p.1 || ntCount p.2 ≤ 1) = true := by
  decide +kernel

/-- handlers that take `children[0]` and `children[1]` -/
def binaryHandlers : List String :=
  ["leftRightDependentResult", "execOrExprOr", "execAndExprAnd", "execEqualityExprEqual", "execEqualityExprNotEqual",
   "execRelationalExprLessThan", "execRelationalExprGreaterThan", "execRelationalExprLessThanOrEqual",
   "execRelationalExprGreaterThanOrEqual", "execAdditiveExprAdd", "execAdditiveExprSubtract",
   "execMultiplicativeExprMultiply", "execMultiplicativeExprDivide", "execMultiplicativeExprMod",
   "execUnionExprUnion", "execAbbreviatedRelativeLocationPath", "execFilterExprWithPredicate", "execFunctionCall"]

/-- **binary_handlers_have_two_children** — every nonterminal evaluated by a handler that indexes
    `children[1]` has exactly two nonterminal children in each of its productions (no index panic). -/
theorem binary_handlers_have_two_children :
    (Generated.handlers.all fun h => !binaryHandlers.contains h.2 ||
      (Generated.productions.all fun p => p.1 != h.1 || ntCount p.2 == 2)) = true := by
  decide +kernel

/-- **inplace_ops_on_fresh** — every call that sorts a slice in place (sort.Sort, cleanupForwardAxis,
    cleanupBackwardAxis, unionCleanup) is applied to a slice created in the same function; the only
    exceptions are the three cleanup helpers themselves, which sort their parameter. -/
theorem inplace_ops_on_fresh :
    (Generated.sortSites.all fun s => s.2.2 == "fresh-local" ||
      ["exec.cleanupForwardAxis", "exec.cleanupBackwardAxis", "exec.unionCleanup"].contains s.1) = true := by
  decide +kernel

/-- **no_shared_writes** — outside the command-line tool's `main`, no function assigns to a
    package-level variable or calls a mutating/synchronising method (Store, LoadOrStore, Delete, Lock, …)
    on one (no caches, counters or memo tables shared between queries); the CLI's directory walker only
    adds to its WaitGroup. -/
theorem no_shared_writes :
    (Generated.globalWrites.all fun w => w.1 == "main.main" || w == ("main.walker", "fileSync.Add")) = true := by decide +kernel

/-- **one_write_per_block** — the command-line tool writes to standard output in exactly one place:
    the single `fmt.Print` of a file's whole block in `executeXpath` (the premise of `cli_output_perm`) -/
theorem one_write_per_block :
    Generated.stdoutWrites = [("main.executeXpath", "fmt.Print")] := by decide +kernel

/-- **builder_not_event_recursive** — no function of the store package calls itself
    (the tree builder is a loop; its stack use does not grow with the number of events). -/
theorem builder_not_event_recursive :
    (Generated.selfRecursive.all fun f => f.1 != "store") = true := by decide +kernel

/-- the only goroutines are the command-line tool's per-file workers -/
theorem go_statements_only_in_cli :
    Generated.goStmts = [("main.main", "runXpathOnStdin"), ("main.walker", "runXpathOnFile")] := by decide +kernel

/-- the XPath 1.0 core function library (§4) except `id`, with the argument counts the Recommendation allows
    (`concat` takes two or more) -/
def coreFunctions : List (String × List Nat) :=
  [("last", [0]), ("position", [0]), ("count", [1]), ("local-name", [0, 1]), ("namespace-uri", [0, 1]), ("name", [0, 1]),
   ("string", [0, 1]), ("concat", [2, 3, 4]), ("starts-with", [2]), ("contains", [2]), ("substring-before", [2]),
   ("substring-after", [2]), ("substring", [2, 3]), ("string-length", [0, 1]), ("normalize-space", [0, 1]),
   ("translate", [3]), ("boolean", [1]), ("not", [1]), ("true", [0]), ("false", [0]), ("lang", [1]),
   ("number", [0, 1]), ("sum", [1]), ("floor", [1]), ("ceiling", [1]), ("round", [1])]

/-- **builtins_agree** — every core function is present and accepts the Recommendation's argument counts -/
theorem builtins_agree :
    (coreFunctions.all fun f => Generated.builtins.any fun b => b.1 == f.1 && f.2.all (fun k => b.2.contains k)) = true := by
  decide +kernel

/-- the axes in the order of their names, with the selector `execAxisName` must call and the accessor
    or per-node collector that selector must use (the Lean `Model.axis` has the same twelve cases;
    `self` needs no selector) -/
def axisTable : List (Axis × String × String × String) :=
  [(.ancestor, "ancestor", "selectAncestor", "appendAncestors"),
   (.ancestorOrSelf, "ancestor-or-self", "selectAncestorOrSelf", "appendAncestors"),
   (.attribute, "attribute", "selectAttributes", "Attributes()"),
   (.child, "child", "selectChild", "Children()"),
   (.descendant, "descendant", "selectDescendant", "appendDescendant"),
   (.descendantOrSelf, "descendant-or-self", "selectDescendantOrSelf", "appendDescendant"),
   (.following, "following", "selectFollowing", "appendFollowing"),
   (.followingSibling, "following-sibling", "selectFollowingSibling", "appendFollowingSibling"),
   (.namespace, "namespace", "selectNamespace", "Namespaces()"),
   (.parent, "parent", "selectParent", "Parent()"),
   (.preceding, "preceding", "selectPreceding", "appendPreceding"),
   (.precedingSibling, "preceding-sibling", "selectPrecedingSibling", "appendPrecedingSibling")]

/-- **axis_dispatch_agrees** — `execAxisName` maps every axis name to the selector the model's
    `Model.axis` case for that axis transcribes -/
theorem axis_dispatch_agrees :
    Generated.axisDispatch = axisTable.map (fun r => (r.2.1, r.2.2.1)) := by decide +kernel

/-- **selector_cleanup_agrees** — every selector collects with the expected accessor/collector and
    returns through `cleanupBackwardAxis` exactly for the reverse axes (`Axis.isReverse`, the
    direction the C01/C03 theorems are stated with), `cleanupForwardAxis` otherwise -/
theorem selector_cleanup_agrees :
    Generated.selectorShape = axisTable.map (fun r =>
      (r.2.2.1, r.2.2.2, if r.1.isReverse then "cleanupBackwardAxis" else "cleanupForwardAxis")) := by
  decide +kernel

/-- the builtin library with the exact argument counts each function accepts (lenient ones included:
    `concat`, `last`, `position` do not check their argument count) -/
def builtinTable : List (String × List Nat) :=
  [("boolean", [1]), ("ceiling", [1]), ("concat", [0, 1, 2, 3, 4]), ("contains", [2]), ("count", [1]), ("false", [0]),
   ("floor", [1]), ("lang", [1]), ("last", [0, 1, 2, 3, 4]), ("local-name", [0, 1]), ("name", [0, 1]),
   ("namespace-uri", [0, 1]), ("normalize-space", [0, 1]), ("not", [1]), ("number", [0, 1]),
   ("position", [0, 1, 2, 3, 4]), ("round", [1]), ("starts-with", [2]), ("string", [0, 1]), ("string-length", [0, 1]),
   ("substring", [2, 3]), ("substring-after", [2]), ("substring-before", [2]), ("sum", [1]), ("translate", [3]),
   ("true", [0])]

/-- **builtins_table_agree** — the function library is exactly the one `Xsel.builtin` models, with
    the same accepted argument counts -/
theorem builtins_table_agree : Generated.builtins = builtinTable := by decide +kernel

def dominated (g e : String × Nat × Nat × Nat × Nat × Nat × Nat) : Bool :=
  g.1 == e.1 && g.2.1 ≤ e.2.1 && g.2.2.1 ≤ e.2.2.1 && g.2.2.2.1 ≤ e.2.2.2.1 && g.2.2.2.2.1 ≤ e.2.2.2.2.1
    && g.2.2.2.2.2.1 ≤ e.2.2.2.2.2.1 && g.2.2.2.2.2.2 ≤ e.2.2.2.2.2.2

/-- **partial_sites_covered** — no function of the hand-written packages has more operations that can
    panic (index, slice, unchecked assertion, %, float→int, panic) than the reviewed table allows -/
theorem partial_sites_covered :
    (Generated.partialCounts.all fun g => Expect.partialCounts.any fun e => dominated g e) = true := by
  decide +kernel

end Xsel.Gen
