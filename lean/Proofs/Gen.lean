/-
  Proofs/Gen.lean — all theorems over the regenerated fact tables (split by topic so that a property's
  check depends only on the tables it uses).
-/
import Proofs.GenTables
import Proofs.GenPurity
import Proofs.GenStore
import Proofs.GenAxes
import Proofs.GenPartial
