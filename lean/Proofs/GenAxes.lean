/-
  Proofs/GenAxes.lean — axis dispatch and selector clean-up.
  Theorems over the fact tables regenerated from /repo on every run (`xh facts` → Generated/Facts.lean),
  closed by kernel evaluation: a change of the source that alters a table makes the theorem fail to check.
-/
import Generated.Facts
import Proofs.Expect
import Xsel.Axes

namespace Xsel.Gen
open Xsel

/-- the axes in the order of their names, with the selector `execAxisName` must call and the accessor
    or per-node collector that selector must use (the Lean `Model.axis` has the same twelve cases;
    `self` needs no selector) -/
def axisTable : List (Axis × String × String × String) :=
  [(.ancestor, "ancestor", "selectAncestor", "appendAncestors"),
   (.ancestorOrSelf, "ancestor-or-self", "selectAncestorOrSelf", "appendAncestors"),
   (.attribute, "attribute", "selectAttributes", "Attributes()"),
   (.child, "child", "selectChild", "Children()"),
   (.descendant, "descendant", "selectDescendant", "appendDescendant"),
   (.descendantOrSelf, "descendant-or-self", "selectDescendantOrSelf", "appendDescendant"),
   (.following, "following", "selectFollowing", "appendFollowing"),
   (.followingSibling, "following-sibling", "selectFollowingSibling", "appendFollowingSibling"),
   (.namespace, "namespace", "selectNamespace", "Namespaces()"),
   (.parent, "parent", "selectParent", "Parent()"),
   (.preceding, "preceding", "selectPreceding", "appendPreceding"),
   (.precedingSibling, "preceding-sibling", "selectPrecedingSibling", "appendPrecedingSibling")]

/-- **axis_dispatch_agrees** — `execAxisName` maps every axis name to the selector the model's
    `Model.axis` case for that axis transcribes -/
theorem axis_dispatch_agrees :
    Generated.axisDispatch = axisTable.map (fun r => (r.2.1, r.2.2.1)) := by decide +kernel

/-- **selector_cleanup_agrees** — every selector collects with the expected accessor/collector and
    returns through `cleanupBackwardAxis` exactly for the reverse axes (`Axis.isReverse`, the
    direction the C01/C03 theorems are stated with), `cleanupForwardAxis` otherwise -/
theorem selector_cleanup_agrees :
    Generated.selectorShape = axisTable.map (fun r =>
      (r.2.2.1, r.2.2.2, if r.1.isReverse then "cleanupBackwardAxis" else "cleanupForwardAxis")) := by
  decide +kernel


end Xsel.Gen
