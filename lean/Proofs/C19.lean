/-
  Proofs/C19.lean — property C19: Unmarshal fills targets with the converted results of their tag
  queries; targets that cannot be filled and results of the wrong shape give an error, never a
  panic.

  Model: Xsel/Unmarshal.lean (`Unm.unmarshal`, `fill`, `fillFields`, `fillSlice`), parametrised by
  `run : Nat → Expr → Except Err Val` (the execution of a field's tag from a node) and
  `sv : Nat → Chars` (string-values).

  Proofs: Proofs/Lemmas/UnmBasic.lean, UnmProps.lean, UnmFuel.lean, UnmTop.lean.
-/
import Proofs.Lemmas.UnmProps
import Proofs.Lemmas.UnmFuel
import Proofs.Lemmas.UnmTop

namespace Xsel.C19
open Xsel Xsel.Unm

variable (run : Nat → Expr → Except Err Val) (sv : Nat → Chars)

/-! ### targets that cannot be filled, results of the wrong shape: an error -/

/-- untyped nil -/
theorem nil_target (res : Val) : unmarshal run sv .nilIface res = .error .nilTarget := rfl

/-- a nil pointer anywhere in the chain -/
theorem nil_pointer (k j : Nat) (ty : GoTy) (cur : GoVal) (res : Val) :
    unmarshal run sv (.val k (some j) ty cur) res = .error .notPointer := rfl

/-- a struct passed by value -/
theorem struct_by_value (fs : GoFields) (cur : GoVal) (res : Val) :
    unmarshal run sv (.val 0 none (.struct fs) cur) res = .error .notPointer := rfl

/-- (pointers to) scalars, maps, arrays, channels, … -/
theorem scalar_target (k : Nat) (s : Scalar) (cur : GoVal) (res : Val) :
    unmarshal run sv (.val k none (.scalar s) cur) res = .error .unsupported := rfl

theorem other_target (k : Nat) (cur : GoVal) (res : Val) :
    unmarshal run sv (.val k none .other cur) res = .error .unsupported := rfl

/-- a slice target needs a node-set -/
theorem slice_needs_nodeset (k : Nat) (et : GoTy) (cur : GoVal) (res : Val) (h : ∀ ns, res ≠ .nodes ns) :
    unmarshal run sv (.val k none (.slice et) cur) res = .error .notNodeSet :=
  unmarshal_slice_not_nodeset run sv k et cur res h

/-- a struct target needs exactly one node -/
theorem struct_needs_one_node (k : Nat) (fs : GoFields) (cur : GoVal) (res : Val) (h : ∀ n, res ≠ .nodes [n]) :
    unmarshal run sv (.val (k + 1) none (.struct fs) cur) res = .error .notOneNode :=
  unmarshal_struct_not_one_node run sv k fs cur res h

/-- multi-dimensional slices -/
theorem multi_dim_is_error (fuel : Nat) (et : GoTy) (k : Nat) (t : GoTy) (hty : stripPtr et = (k, .slice t))
    (n : Nat) (ns : List Nat) (items : GoVals) (st : Bool) :
    fillSlice run sv (fuel + 1) et (n :: ns) items st = .error .multiDim :=
  Unm.multi_dim_is_error run sv fuel et k t hty n ns items st

theorem multi_dim_target (k : Nat) (et : GoTy) (j : Nat) (t : GoTy) (hty : stripPtr et = (j, .slice t))
    (cur : GoVal) (n : Nat) (ns : List Nat) :
    unmarshal run sv (.val k none (.slice et) cur) (.nodes (n :: ns)) = .error .multiDim :=
  unmarshal_multi_dim run sv k et j t hty cur n ns

/-- a slice passed by value cannot grow -/
theorem slice_not_settable (fuel : Nat) (et : GoTy) (items : GoVals) :
    fillSlice run sv fuel et [] items false = .ok items ∧
    ∀ n ns, ∃ err, fillSlice run sv fuel et (n :: ns) items false = .error err :=
  ⟨slice_not_settable_nil run sv fuel et items, fun n ns => Unm.slice_not_settable run sv fuel et n ns items⟩

theorem slice_by_value (et : GoTy) (cur : GoVal) :
    unmarshal run sv (.val 0 none (.slice et) cur) (.nodes []) = .ok (.slice (itemsOf cur)) ∧
    ∀ n ns, ∃ err, unmarshal run sv (.val 0 none (.slice et) cur) (.nodes (n :: ns)) = .error err :=
  ⟨unmarshal_slice_by_value_nil run sv et cur, fun n ns => unmarshal_slice_by_value run sv et cur n ns⟩

/-- a field with an invalid tag -/
theorem bad_tag_is_error (fuel : Nat) (name : Chars) (ex : Bool) (ty : GoTy) (rest : GoFields)
    (vals : GoVals) (n : Nat) :
    fillFields run sv (fuel + 1) (.cons name ex none true ty rest) vals n = .error .badTag :=
  Unm.bad_tag_is_error run sv fuel name ex ty rest vals n

/-- a tagged unexported field, whatever its tag and type -/
theorem unexported_tagged_is_error (fuel : Nat) (name : Chars) (e : Expr) (bt : Bool) (ty : GoTy)
    (rest : GoFields) (vals : GoVals) (n : Nat) :
    ∃ err, fillFields run sv fuel (.cons name false (some e) bt ty rest) vals n = .error err :=
  Unm.unexported_tagged_is_error run sv fuel name e bt ty rest vals n

/-- … at any position of the struct, for the entry point -/
theorem bad_struct_is_error (k : Nat) (nilAt : Option Nat) (fs : GoFields) (cur : GoVal) (res : Val)
    (h : hasBadField fs = true) :
    ∃ err, unmarshal run sv (.val k nilAt (.struct fs) cur) res = .error err :=
  unmarshal_bad_struct_is_error run sv k nilAt fs cur res h

/-- a tag whose query fails -/
theorem query_error_is_error (fuel : Nat) (name : Chars) (ex : Bool) (e : Expr) (bt : Bool) (ty : GoTy)
    (rest : GoFields) (vals : GoVals) (n : Nat) (err : Err) (hr : run n e = .error err) :
    fillFields run sv (fuel + 1) (.cons name ex (some e) bt ty rest) vals n = .error .query :=
  Unm.query_error_is_error run sv fuel name ex e bt ty rest vals n err hr

/-- remark: `unmarshal` is a total function into `Except UErr GoVal`; there is no panic outcome -/
theorem never_panics (t : Target) (res : Val) :
    (∃ v, unmarshal run sv t res = .ok v) ∨ (∃ e, unmarshal run sv t res = .error e) :=
  Unm.never_panics run sv t res

/-! ### what the fields receive -/

/-- a pointer (chain) to a struct and a one-node node-set: the fields in declaration order -/
theorem struct_target (k : Nat) (fs : GoFields) (cur : GoVal) (n : Nat) :
    unmarshal run sv (.val (k + 1) none (.struct fs) cur) (.nodes [n]) =
      (fillFields run sv (2 * tySize (.struct fs) + 3) fs (valsOf fs cur) n).map .struct :=
  unmarshal_struct_one run sv k fs cur n

/-- an untagged field keeps its current value (and the remaining fields are filled from the
    remaining values) -/
theorem untagged_untouched (fuel : Nat) (name : Chars) (ex : Bool) (ty : GoTy) (rest : GoFields)
    (cur : GoVal) (others : GoVals) (n : Nat) (v : GoVal) (vs : GoVals)
    (h : fillFields run sv fuel (.cons name ex none false ty rest) (.cons cur others) n = .ok (.cons v vs)) :
    v = cur :=
  (Unm.untagged_untouched run sv fuel name ex ty rest cur others n v vs h).1

/-- a tagged exported field of scalar kind behind `k` pointers gets the converted result of its tag,
    behind `k` fresh pointers -/
theorem scalar_field_value (fuel : Nat) (name : Chars) (e : Expr) (bt : Bool) (ty : GoTy)
    (rest : GoFields) (vals : GoVals) (n : Nat) (res : Val) (k : Nat) (s : Scalar)
    (hr : run n e = .ok res) (hty : stripPtr ty = (k, .scalar s)) :
    fillFields run sv (fuel + 1) (.cons name true (some e) bt ty rest) vals n =
      (fillFields run sv fuel rest (othersOf vals) n).map
        (GoVals.cons (wrapPtr k (createValue sv s res))) :=
  Unm.scalar_field_value run sv fuel name e bt ty rest vals n res k s hr hty

/-- string fields: the string value; bool fields: the boolean value; numeric fields: the number
    (float32 fields: rounded to the nearest binary32 value, as Go's `float32(x)` does) -/
theorem conversions (res : Val) (b : Nat) :
    createValue sv .str res = .str (Model.toStr sv res) ∧
    createValue sv .bool res = .bool (Model.toBool res) ∧
    createValue sv (.int b) res = .int (toInt (Model.toNum sv res)) ∧
    createValue sv (.uint b) res = .int (toInt (Model.toNum sv res)) ∧
    createValue sv (.float b) res
      = .float (if b == 32 then Num.toFloat32 (Model.toNum sv res) else Model.toNum sv res) :=
  ⟨rfl, rfl, rfl, rfl, rfl⟩

/-- struct and slice fields: filled recursively, from the zero value, with the result of the tag -/
theorem composite_field_value (fuel : Nat) (name : Chars) (e : Expr) (bt : Bool) (ty : GoTy)
    (rest : GoFields) (vals : GoVals) (n : Nat) (res : Val) (k : Nat) (base : GoTy) (v : GoVal)
    (hr : run n e = .ok res) (hty : stripPtr ty = (k, base))
    (hb : (∃ fs, base = .struct fs) ∨ (∃ et, base = .slice et))
    (hv : fill run sv fuel base (zero base) res = .ok v) :
    fillFields run sv (fuel + 1) (.cons name true (some e) bt ty rest) vals n =
      (fillFields run sv fuel rest (othersOf vals) n).map (GoVals.cons (wrapPtr k v)) :=
  Unm.composite_field_value run sv fuel name e bt ty rest vals n res k base v hr hty hb hv

/-- pointer fields are freshly allocated: exactly `k` non-nil pointer layers around the value -/
theorem pointer_fields_fresh (k : Nat) (v : GoVal) :
    peel k (wrapPtr k v) = some v ∧ wrapPtr (k + 1) v ≠ .nilPtr :=
  ⟨peel_wrapPtr k v, wrapPtr_succ_ne_nil k v⟩

/-- `stripPtr` counts exactly the pointer layers of the declared type -/
theorem stripPtr_exact (t : GoTy) :
    isPtrTy (stripPtr t).2 = false ∧ t = ptrTy (stripPtr t).1 (stripPtr t).2 :=
  ⟨(stripPtr_spec t).1, (stripPtr_spec t).2.1⟩

/-! ### slices -/

/-- scalar elements behind `k` pointers: one element per node, in result order, after the existing
    items (any positive fuel) -/
theorem slice_order (fuel : Nat) (et : GoTy) (k : Nat) (s : Scalar) (hty : stripPtr et = (k, .scalar s))
    (ns : List Nat) (items out : GoVals)
    (h : fillSlice run sv (fuel + 1) et ns items true = .ok out) :
    out = items.append (GoVals.ofList (ns.map (fun n => wrapPtr k (createValue sv s (.nodes [n]))))) ∧
    out.toList = items.toList ++ ns.map (fun n => wrapPtr k (createValue sv s (.nodes [n]))) := by
  rw [Unm.slice_order run sv fuel et k s hty ns items] at h
  cases h
  exact ⟨rfl, by rw [GoVals.toList_append, GoVals.toList_ofList]⟩

/-- struct elements: each built from the zero struct and the one-node node-set of its node -/
theorem slice_order_struct (fuel : Nat) (et : GoTy) (k : Nat) (fs : GoFields) (g : Nat → GoVal)
    (hty : stripPtr et = (k, .struct fs)) (ns : List Nat) (items : GoVals)
    (hg : ∀ n ∈ ns, fill run sv fuel (.struct fs) (zero (.struct fs)) (.nodes [n]) = .ok (g n)) :
    fillSlice run sv (fuel + 1) et ns items true =
      .ok (items.append (GoVals.ofList (ns.map (fun n => wrapPtr k (g n))))) :=
  Unm.slice_order_struct run sv fuel et k fs g hty ns items hg

/-- the entry point on a pointer to a slice of scalars -/
theorem slice_target (k : Nat) (et : GoTy) (j : Nat) (s : Scalar) (hty : stripPtr et = (j, .scalar s))
    (cur : GoVal) (ns : List Nat) :
    unmarshal run sv (.val (k + 1) none (.slice et) cur) (.nodes ns) =
      .ok (.slice ((itemsOf cur).append
        (GoVals.ofList (ns.map (fun n => wrapPtr j (createValue sv s (.nodes [n]))))))) :=
  unmarshal_scalar_slice run sv k et j s hty cur ns

/-! ### fuel -/

/-- from `2 * tySize ty` on, more fuel gives the same result -/
theorem fuel_sufficient (ty : GoTy) (cur : GoVal) (res : Val) (d : Nat) :
    fill run sv (2 * tySize ty + d) ty cur res = fill run sv (2 * tySize ty) ty cur res :=
  fill_fuel_irrelevant run sv ty cur res d

/-- `unmarshal` run with any larger fuel than its own `2 * tySize ty + 4` returns the same result:
    its answers are never the fuel-exhaustion answer -/
theorem unmarshal_fuel_sufficient (k : Nat) (nilAt : Option Nat) (ty : GoTy) (cur : GoVal) (res : Val)
    (d : Nat) :
    unmarshalWith run sv (2 * tySize ty + 4 + d) (.val k nilAt ty cur) res
      = unmarshal run sv (.val k nilAt ty cur) res :=
  Unm.unmarshal_fuel_sufficient run sv k nilAt ty cur res d

end Xsel.C19
