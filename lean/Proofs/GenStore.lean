/-
  Proofs/GenStore.lean — the tree builder is not recursive.
  Theorems over the fact tables regenerated from /repo on every run (`xh facts` → Generated/Facts.lean),
  closed by kernel evaluation: a change of the source that alters a table makes the theorem fail to check.
-/
import Generated.Facts
import Proofs.Expect

namespace Xsel.Gen
open Xsel

/-- **builder_not_event_recursive** — no function of the store package calls itself
    (the tree builder is a loop; its stack use does not grow with the number of events). -/
theorem builder_not_event_recursive :
    (Generated.selfRecursive.all fun f => f.1 != "store") = true := by decide +kernel


end Xsel.Gen
