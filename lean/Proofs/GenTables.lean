/-
  Proofs/GenTables.lean — grammar, handler table and builtin library.
  Theorems over the fact tables regenerated from /repo on every run (`xh facts` → Generated/Facts.lean),
  closed by kernel evaluation: a change of the source that alters a table makes the theorem fail to check.
-/
import Generated.Facts
import Proofs.Expect

namespace Xsel.Gen
open Xsel

/-- the evaluator dispatches every nonterminal to the handler the model was written against -/
theorem handlers_agree : Generated.handlers = Expect.handlers := by decide +kernel

/-- the parser's production table is the grammar the model and the C08 theorems were written against -/
theorem productions_agree : Generated.productions = Expect.productions := by decide +kernel

def hasHandler (nt : String) : Bool := Generated.handlers.any (fun p => p.1 == nt)

def ntCount (syms : List (Bool × String)) : Nat := (syms.filter (·.1)).length

/-- nonterminals whose children are walked by `gatherFunctionArgs`, not by `execChildren` -/
def argListNTs : List String :=
  ["FunctionSignature", "FunctionCallArgumentList", "FunctionCallArgumentListArgWithNext", "FunctionCallArgumentListEndArg"]

/-- **no_dropped_symbol** — a production whose head has no handler is evaluated by `execChildren`,
    which evaluates only the first nonterminal child; so such a production must not have two
    nonterminal children (otherwise part of the expression is silently ignored). -/
theorem no_dropped_symbol :
    (Generated.productions.all fun p => hasHandler p.1 || argListNTs.contains p.1 || ntCount p.2 ≤ 1) = true := by
  decide +kernel

/-- handlers that take `children[0]` and `children[1]` -/
def binaryHandlers : List String :=
  ["leftRightDependentResult", "execOrExprOr", "execAndExprAnd", "execEqualityExprEqual", "execEqualityExprNotEqual",
   "execRelationalExprLessThan", "execRelationalExprGreaterThan", "execRelationalExprLessThanOrEqual",
   "execRelationalExprGreaterThanOrEqual", "execAdditiveExprAdd", "execAdditiveExprSubtract",
   "execMultiplicativeExprMultiply", "execMultiplicativeExprDivide", "execMultiplicativeExprMod",
   "execUnionExprUnion", "execAbbreviatedRelativeLocationPath", "execFilterExprWithPredicate", "execFunctionCall"]

/-- **binary_handlers_have_two_children** — every nonterminal evaluated by a handler that indexes
    `children[1]` has exactly two nonterminal children in each of its productions (no index panic). -/
theorem binary_handlers_have_two_children :
    (Generated.handlers.all fun h => !binaryHandlers.contains h.2 ||
      (Generated.productions.all fun p => p.1 != h.1 || ntCount p.2 == 2)) = true := by
  decide +kernel

/-- the XPath 1.0 core function library (§4) except `id`, with the argument counts the Recommendation allows
    (`concat` takes two or more) -/
def coreFunctions : List (String × List Nat) :=
  [("last", [0]), ("position", [0]), ("count", [1]), ("local-name", [0, 1]), ("namespace-uri", [0, 1]), ("name", [0, 1]),
   ("string", [0, 1]), ("concat", [2, 3, 4]), ("starts-with", [2]), ("contains", [2]), ("substring-before", [2]),
   ("substring-after", [2]), ("substring", [2, 3]), ("string-length", [0, 1]), ("normalize-space", [0, 1]),
   ("translate", [3]), ("boolean", [1]), ("not", [1]), ("true", [0]), ("false", [0]), ("lang", [1]),
   ("number", [0, 1]), ("sum", [1]), ("floor", [1]), ("ceiling", [1]), ("round", [1])]

/-- **builtins_agree** — every core function is present and accepts the Recommendation's argument counts -/
theorem builtins_agree :
    (coreFunctions.all fun f => Generated.builtins.any fun b => b.1 == f.1 && f.2.all (fun k => b.2.contains k)) = true := by
  decide +kernel

/-- the builtin library with the exact argument counts each function accepts (lenient ones included:
    `concat`, `last`, `position` do not check their argument count) -/
def builtinTable : List (String × List Nat) :=
  [("boolean", [1]), ("ceiling", [1]), ("concat", [0, 1, 2, 3, 4]), ("contains", [2]), ("count", [1]), ("false", [0]),
   ("floor", [1]), ("lang", [1]), ("last", [0, 1, 2, 3, 4]), ("local-name", [0, 1]), ("name", [0, 1]),
   ("namespace-uri", [0, 1]), ("normalize-space", [0, 1]), ("not", [1]), ("number", [0, 1]),
   ("position", [0, 1, 2, 3, 4]), ("round", [1]), ("starts-with", [2]), ("string", [0, 1]), ("string-length", [0, 1]),
   ("substring", [2, 3]), ("substring-after", [2]), ("substring-before", [2]), ("sum", [1]), ("translate", [3]),
   ("true", [0])]

/-- **builtins_table_agree** — the function library is exactly the one `Xsel.builtin` models, with
    the same accepted argument counts -/
theorem builtins_table_agree : Generated.builtins = builtinTable := by decide +kernel


end Xsel.Gen
