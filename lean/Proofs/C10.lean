/-
  Proofs/C10.lean — property C10: the in-memory store honours the Cursor contract.

  `Store.build evs` is the model of `store.CreateInMemory` on the event stream `evs`.
  Everything below except the last block holds for EVERY event list; the relative order
  namespace nodes < attributes < children inside an element (`nss_lt_attrs`, …, and hence `wfb`)
  needs the stream to honour the Parser contract (`Ordered`), and fails without it
  (see the counter-examples at the end).
-/
import Xsel.SpecStore
import Proofs.Lemmas.StoreWf
import Proofs.Lemmas.StoreMirror

namespace Xsel.C10
open Xsel Xsel.Store Xsel.StoreL

/-- non-vacuity: a stream with namespaces, an override, an undeclaration, attributes, nested and
    top-level nodes and a surplus end event builds a tree that satisfies the Cursor contract and
    mirrors the stream -/
def sampleStream : List Ev :=
  [.comment ['c'], .elem [] ['r'], .ns ['p'] ['u'], .ns [] ['d'], .attr [] ['k'] ['v'],
   .elem ['u'] ['a'], .ns ['p'] ['w'], .ns [] [], .text ['t'], .close,
   .pi ['t'] ['d'], .close, .close, .elem [] ['z'], .close]

example : wfb (build sampleStream) = true := by decide
example : Spec.mirrors sampleStream (build sampleStream) = true := by decide

/-! ### for every event list -/

variable (evs : List Ev)

/-- the tree is never empty (cell 0, the root, always exists) -/
theorem build_size_pos : 0 < (build evs).size := StoreL.build_size_pos evs

/-- S1. `Pos()` of the cursor at index `i` is `i` -/
theorem build_pos_eq_index : ∀ i, i < (build evs).size → ((build evs).cell i).pos = i :=
  fun _ hi => StoreL.build_pos_eq_index evs hi

/-- `Pos()` is unique per cursor -/
theorem build_pos_inj {i j : Nat} (hi : i < (build evs).size) (hj : j < (build evs).size)
    (h : (build evs).pos i = (build evs).pos j) : i = j := by
  have h1 := build_pos_eq_index evs i hi
  have h2 := build_pos_eq_index evs j hj
  unfold Arena.pos at h
  omega

/-- `Pos()` is 0 only for the root -/
theorem build_pos_eq_zero_iff {i : Nat} (hi : i < (build evs).size) :
    (build evs).pos i = 0 ↔ i = 0 := by
  have h1 := build_pos_eq_index evs i hi
  unfold Arena.pos
  omega

/-- `Pos()` increases in document (= allocation) order -/
theorem build_pos_lt_iff {i j : Nat} (hi : i < (build evs).size) (hj : j < (build evs).size) :
    (build evs).pos i < (build evs).pos j ↔ i < j := by
  have h1 := build_pos_eq_index evs i hi
  have h2 := build_pos_eq_index evs j hj
  unfold Arena.pos
  omega

/-- S2. cell 0 is the root and is its own parent -/
theorem build_root : (build evs).kind 0 = .root ∧ (build evs).parent 0 = 0 :=
  StoreL.build_root evs

/-- S2. no other cell is a root -/
theorem build_kind_ne_root : ∀ i, 0 < i → i < (build evs).size → (build evs).kind i ≠ .root :=
  fun _ h0 hi => StoreL.build_kind_ne_root evs h0 hi

/-- S2. `Parent()` of every other cursor comes earlier in document order -/
theorem build_parent_lt : ∀ i, 0 < i → i < (build evs).size → (build evs).parent i < i :=
  fun _ h0 hi => StoreL.build_parent_lt evs h0 hi

/-- S3. `Namespaces()`: every listed node comes after the element, is a namespace node and has the
    element as `Parent()` — so each element owns its own namespace nodes -/
theorem build_mem_nss {i j : Nat} (hi : i < (build evs).size) (hj : j ∈ (build evs).nss i) :
    i < j ∧ j < (build evs).size ∧ (build evs).kind j = .ns ∧ (build evs).parent j = i :=
  StoreL.build_mem_nss evs hi hj

/-- a namespace node is listed by exactly one cursor -/
theorem build_nss_owner {i i' j : Nat} (hi : i < (build evs).size) (hi' : i' < (build evs).size)
    (hj : j ∈ (build evs).nss i) (hj' : j ∈ (build evs).nss i') : i = i' := by
  rw [← (build_mem_nss evs hi hj).2.2.2, ← (build_mem_nss evs hi' hj').2.2.2]

/-- S3. `Attributes()` -/
theorem build_mem_attrs {i j : Nat} (hi : i < (build evs).size) (hj : j ∈ (build evs).attrs i) :
    i < j ∧ j < (build evs).size ∧ (build evs).kind j = .attr ∧ (build evs).parent j = i :=
  StoreL.build_mem_attrs evs hi hj

/-- S3. `Children()` -/
theorem build_mem_kids {i j : Nat} (hi : i < (build evs).size) (hj : j ∈ (build evs).kids i) :
    i < j ∧ j < (build evs).size
    ∧ ((build evs).kind j ≠ .ns ∧ (build evs).kind j ≠ .attr ∧ (build evs).kind j ≠ .root)
    ∧ (build evs).parent j = i :=
  StoreL.build_mem_kids evs hi hj

/-- S3. conversely, every cursor but the root is listed by its `Parent()`, in the list that
    matches its kind -/
theorem build_listed {j : Nat} (h0 : 0 < j) (hj : j < (build evs).size) :
    match (build evs).kind j with
    | .ns => j ∈ (build evs).nss ((build evs).parent j)
    | .attr => j ∈ (build evs).attrs ((build evs).parent j)
    | _ => j ∈ (build evs).kids ((build evs).parent j) :=
  StoreL.build_listed evs h0 hj

/-- S3. the three lists are strictly ascending (document order, no duplicates) -/
theorem build_lists_asc {i : Nat} (hi : i < (build evs).size) :
    strictAsc ((build evs).nss i) = true ∧ strictAsc ((build evs).attrs i) = true
    ∧ strictAsc ((build evs).kids i) = true :=
  StoreL.build_lists_asc evs hi

/-- S3. only the root and elements have namespace nodes, attributes or children -/
theorem build_container {i : Nat} (hi : i < (build evs).size) :
    (build evs).kind i = .root ∨ (build evs).kind i = .elem
    ∨ ((build evs).nss i = [] ∧ (build evs).attrs i = [] ∧ (build evs).kids i = []) :=
  StoreL.build_container evs hi

/-- S5. pre-order layout: the parent of cell `i` is cell `i-1` or one of its ancestors, i.e. a node
    comes after the whole subtree of every preceding sibling -/
theorem build_preorder : ∀ i, 0 < i → i < (build evs).size →
    (build evs).parent i = i - 1 ∨ Spec.anc (build evs) ((build evs).parent i) (i - 1) = true :=
  fun _ h0 hi => StoreL.build_preorder evs h0 hi

/-- S6, unconditional form: the only clause of the Cursor contract that can fail is the relative
    order of the three lists of a cell -/
theorem build_wf_iff :
    wfb (build evs) = true ↔
      ∀ i, i < (build evs).size →
        (∀ x ∈ (build evs).nss i, ∀ y ∈ (build evs).attrs i, x < y)
        ∧ (∀ x ∈ (build evs).nss i, ∀ y ∈ (build evs).kids i, x < y)
        ∧ (∀ x ∈ (build evs).attrs i, ∀ y ∈ (build evs).kids i, x < y) := by
  rw [StoreL.build_wf_iff_ordinv]
  constructor
  · intro o i hi
    exact ⟨o i hi .ns .attr (by decide), o i hi .ns .kid (by decide), o i hi .attr .kid (by decide)⟩
  · intro h i hi Y Z hr
    obtain ⟨h1, h2, h3⟩ := h i hi
    cases Y <;> cases Z <;> simp [Cls.rank] at hr
    · exact h1
    · exact h2
    · exact h3

/-! ### for streams that honour the Parser contract

  `Ordered evs` (decidable): in every element, and at the top level, namespace events come before
  attribute events, which come before child events.  `Conforming evs` adds: no attribute event at
  the top level (not needed for the Cursor contract). -/

variable {evs}

/-- S4. an element < its namespace nodes < its attributes < its children -/
theorem build_lists_ordered (ho : Ordered evs) {i : Nat} (hi : i < (build evs).size) :
    (∀ x ∈ (build evs).nss i, ∀ y ∈ (build evs).attrs i, x < y)
    ∧ (∀ x ∈ (build evs).nss i, ∀ y ∈ (build evs).kids i, x < y)
    ∧ (∀ x ∈ (build evs).attrs i, ∀ y ∈ (build evs).kids i, x < y) :=
  have o := StoreL.build_ordinv ho
  ⟨o i hi .ns .attr (by decide), o i hi .ns .kid (by decide), o i hi .attr .kid (by decide)⟩

/-- S6. the store honours the whole Cursor contract -/
theorem build_wf_of_ordered (ho : Ordered evs) : wfb (build evs) = true :=
  StoreL.build_wf_of_ordered ho

theorem build_wf (hc : Conforming evs) : wfb (build evs) = true :=
  StoreL.build_wf hc

/-- S7. the tree denotes the stream: in document order, every element, attribute, text, comment and
    processing instruction of the stream appears with its names, value and nesting depth, and every
    element has exactly the in-scope namespace bindings the stream declares for it -/
theorem build_mirrors_of_ordered (ho : Ordered evs) : Spec.mirrors evs (build evs) = true :=
  StoreL.build_mirrors_of_ordered ho

theorem build_mirrors (hc : Conforming evs) : Spec.mirrors evs (build evs) = true :=
  StoreL.build_mirrors hc

/-- C10 on a conforming stream: the Cursor contract holds and the tree is the tree of the stream -/
theorem build_correct (hc : Conforming evs) :
    wfb (build evs) = true ∧ Spec.mirrors evs (build evs) = true :=
  ⟨build_wf hc, build_mirrors hc⟩

example : Conforming sampleStream := by decide

/-! ### `Ordered` cannot be dropped: streams outside the Parser contract -/

/-- a namespace event after an attribute: the namespace node gets a larger position than the
    attribute -/
example : wfb (build [.elem [] ['r'], .attr [] ['k'] ['v'], .ns ['p'] ['u']]) = false := by decide
/-- an attribute event after a child -/
example : wfb (build [.elem [] ['r'], .text ['t'], .attr [] ['k'] ['v']]) = false := by decide
/-- a namespace event after a child, at the top level -/
example : wfb (build [.comment ['c'], .ns ['p'] ['u']]) = false := by decide
/-- an attribute event at the top level alone does not break the Cursor contract -/
example : wfb (build [.attr [] ['k'] ['v'], .elem [] ['r']]) = true := by decide
/-- a late namespace event also breaks `mirrors` (the specification rebinds the prefix for the
    element's scope, the store cannot renumber the nodes it already handed out) -/
example : Spec.mirrors [.elem [] ['r'], .text ['t'], .ns ['p'] ['u']]
    (build [.elem [] ['r'], .text ['t'], .ns ['p'] ['u']]) = false := by decide

end Xsel.C10
