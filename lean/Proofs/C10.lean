/-
  Proofs/C10.lean — property C10: the in-memory store honours the Cursor contract.
-/
import Xsel.SpecStore

namespace Xsel.C10
open Xsel Xsel.Store

/-- non-vacuity: a stream with namespaces, an override, an undeclaration, attributes, nested and
    top-level nodes and a surplus end event builds a tree that satisfies the Cursor contract and
    mirrors the stream -/
def sampleStream : List Ev :=
  [.comment ['c'], .elem [] ['r'], .ns ['p'] ['u'], .ns [] ['d'], .attr [] ['k'] ['v'],
   .elem ['u'] ['a'], .ns ['p'] ['w'], .ns [] [], .text ['t'], .close,
   .pi ['t'] ['d'], .close, .close, .elem [] ['z'], .close]

example : wfb (build sampleStream) = true := by decide
example : Spec.mirrors sampleStream (build sampleStream) = true := by decide

end Xsel.C10
