/-
  Proofs/C03.lean — property C03: node-set results are duplicate-free, ordered, and the union
  operator obeys the set laws.

  The union operator of the model (`eval … (.bin .union l r)`) is `cleanupFwd (p ++ q)`
  (exec/contextfn.go `execUnionExprUnion` → `unionCleanup`), so the laws are stated on it.
-/
import Proofs.Lemmas.Cleanup
import Xsel.Eval

namespace Xsel.C03
open Xsel

/-- the union operator as the evaluator computes it -/
def union (p q : List Nat) : List Nat := cleanupFwd (p ++ q)

theorem union_is_eval (sem : Sem) (c : Ctx) (l r : Expr) (p q : List Nat)
    (hl : eval sem l c = .ok (.nodes p)) (hr : eval sem r c = .ok (.nodes q)) :
    eval sem (.bin .union l r) c = .ok (.nodes (union p q)) := by
  simp [eval, hl, hr, union, bind, Except.bind, pure, Except.pure]

/-- every union is strictly ascending in document order (hence duplicate-free) -/
theorem union_ascending (p q : List Nat) : (union p q).Pairwise (· < ·) := cleanupFwd_strict _

/-- a union contains exactly the nodes of its operands -/
theorem mem_union {x : Nat} {p q : List Nat} : x ∈ union p q ↔ x ∈ p ∨ x ∈ q := by
  simp [union]

theorem union_comm (p q : List Nat) : union p q = union q p :=
  cleanupFwd_ext (by intro x; simp [or_comm])

theorem union_assoc (p q r : List Nat) : union (union p q) r = union p (union q r) :=
  cleanupFwd_ext (by intro x; simp [union, or_assoc])

theorem union_idem (p : List Nat) : union p p = cleanupFwd p :=
  cleanupFwd_ext (by intro x; simp)

/-- on a node-set that is already in document order the union with itself changes nothing -/
theorem union_self_of_sorted (p : List Nat) (h : p.Pairwise (· < ·)) : union p p = p :=
  strict_ext (union_ascending p p) h (by intro x; simp [union])

theorem nodup_of_strict {l : List Nat} (h : l.Pairwise (· < ·)) : l.Nodup :=
  h.imp (fun hab => Nat.ne_of_lt hab)

/-- count(A | B) = count(A) + count(B) - count(nodes common to A and B), for duplicate-free A, B -/
theorem count_union (p q : List Nat) (hp : p.Nodup) (hq : q.Nodup) :
    (union p q).length + (q.filter (fun x => p.contains x)).length = p.length + q.length := by
  have hU : (union p q).Nodup := nodup_of_strict (union_ascending p q)
  let v := p ++ q.filter (fun x => !p.contains x)
  have hv : v.Nodup := by
    refine List.nodup_append.mpr ⟨hp, hq.filter _, ?_⟩
    intro a ha b hb hab
    subst hab
    have := (List.mem_filter.mp hb).2
    simp at this
    exact this ha
  have hperm : (union p q).Perm v := by
    refine (List.perm_ext_iff_of_nodup hU hv).mpr ?_
    intro x
    simp only [mem_union, v, List.mem_append, List.mem_filter]
    constructor
    · rintro (h | h)
      · exact Or.inl h
      · by_cases hx : x ∈ p
        · exact Or.inl hx
        · exact Or.inr ⟨h, by simpa using hx⟩
    · rintro (h | ⟨h, _⟩)
      · exact Or.inl h
      · exact Or.inr h
  have hlen : (union p q).length = p.length + (q.filter (fun x => !p.contains x)).length := by
    rw [hperm.length_eq]; simp [v]
  have hsplit : ∀ (f : Nat → Bool) (l : List Nat),
      (l.filter f).length + (l.filter (fun x => !f x)).length = l.length := by
    intro f l
    induction l with
    | nil => simp
    | cons a t ih =>
      by_cases h : f a <;> simp [h] <;> omega
  have := hsplit (fun x => p.contains x) q
  omega

end Xsel.C03
