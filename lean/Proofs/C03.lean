/-
  Proofs/C03.lean — property C03: node-set results are duplicate-free, ordered, and the union
  operator obeys the set laws.

  The union operator of the model (`eval … (.bin .union l r)`) is `cleanupFwd (p ++ q)`
  (exec/contextfn.go `execUnionExprUnion` → `unionCleanup`), so the laws are stated on it.
-/
import Proofs.Lemmas.Cleanup
import Xsel.Eval
import Proofs.Lemmas.MonoEval

namespace Xsel.C03
open Xsel

/-- the union operator as the evaluator computes it -/
def union (p q : List Nat) : List Nat := cleanupFwd (p ++ q)

theorem union_is_eval (sem : Sem) (c : Ctx) (l r : Expr) (p q : List Nat)
    (hl : eval sem l c = .ok (.nodes p)) (hr : eval sem r c = .ok (.nodes q)) :
    eval sem (.bin .union l r) c = .ok (.nodes (union p q)) := by
  simp [eval, hl, hr, union, bind, Except.bind, pure, Except.pure]

/-- every union is strictly ascending in document order (hence duplicate-free) -/
theorem union_ascending (p q : List Nat) : (union p q).Pairwise (· < ·) := cleanupFwd_strict _

/-- a union contains exactly the nodes of its operands -/
theorem mem_union {x : Nat} {p q : List Nat} : x ∈ union p q ↔ x ∈ p ∨ x ∈ q := by
  simp [union]

theorem union_comm (p q : List Nat) : union p q = union q p :=
  cleanupFwd_ext (by intro x; simp [or_comm])

theorem union_assoc (p q r : List Nat) : union (union p q) r = union p (union q r) :=
  cleanupFwd_ext (by intro x; simp [union, or_assoc])

theorem union_idem (p : List Nat) : union p p = cleanupFwd p :=
  cleanupFwd_ext (by intro x; simp)

/-- on a node-set that is already in document order the union with itself changes nothing -/
theorem union_self_of_sorted (p : List Nat) (h : p.Pairwise (· < ·)) : union p p = p :=
  strict_ext (union_ascending p p) h (by intro x; simp [union])

theorem nodup_of_strict {l : List Nat} (h : l.Pairwise (· < ·)) : l.Nodup :=
  h.imp (fun hab => Nat.ne_of_lt hab)

/-- count(A | B) = count(A) + count(B) - count(nodes common to A and B), for duplicate-free A, B -/
theorem count_union (p q : List Nat) (hp : p.Nodup) (hq : q.Nodup) :
    (union p q).length + (q.filter (fun x => p.contains x)).length = p.length + q.length := by
  have hU : (union p q).Nodup := nodup_of_strict (union_ascending p q)
  let v := p ++ q.filter (fun x => !p.contains x)
  have hv : v.Nodup := by
    refine List.nodup_append.mpr ⟨hp, hq.filter _, ?_⟩
    intro a ha b hb hab
    subst hab
    have := (List.mem_filter.mp hb).2
    simp at this
    exact this ha
  have hperm : (union p q).Perm v := by
    refine (List.perm_ext_iff_of_nodup hU hv).mpr ?_
    intro x
    simp only [mem_union, v, List.mem_append, List.mem_filter]
    constructor
    · rintro (h | h)
      · exact Or.inl h
      · by_cases hx : x ∈ p
        · exact Or.inl hx
        · exact Or.inr ⟨h, by simpa using hx⟩
    · rintro (h | ⟨h, _⟩)
      · exact Or.inl h
      · exact Or.inr h
  have hlen : (union p q).length = p.length + (q.filter (fun x => !p.contains x)).length := by
    rw [hperm.length_eq]; simp [v]
  have hsplit : ∀ (f : Nat → Bool) (l : List Nat),
      (l.filter f).length + (l.filter (fun x => !f x)).length = l.length := by
    intro f l
    induction l with
    | nil => simp
    | cons a t ih =>
      by_cases h : f a <;> simp [h] <;> omega
  have := hsplit (fun x => p.contains x) q
  omega

end Xsel.C03

/-! ## every node-set result is duplicate-free, in range and strictly monotone

  (appended; the proofs are in Proofs/Lemmas/EvalOk.lean, EvalAsc.lean and MonoEval.lean) -/

namespace Xsel.C03
open Xsel Arena

/-- **result_monotone** — on a well-formed arena (`wfb a`), with node-set variables that list
    cells of the arena in document order (`EnvOk`), and a context node-set that lists cells of
    the arena, each once (`Val.Ok`), strictly ascending or strictly descending (`Val.Mono`):
    every node-set the Go-shaped evaluator returns is listed strictly ascending or strictly
    descending in document order — never a mixture —, so contains each node at most once, and
    contains only cells of the queried arena. -/
theorem result_monotone (a : Arena) (h : wfb a = true) (e : Expr) (c : Ctx) (ha : c.a = a)
    (henv : EnvOk a c.env) (hok : Val.Ok a c.result) (hmono : Val.Mono c.result) (l : List Nat)
    (hv : eval Model.sem e c = .ok (.nodes l)) :
    (l.Pairwise (· < ·) ∨ l.Pairwise (· > ·)) ∧ l.Nodup ∧ ∀ j ∈ l, j < a.size := by
  have h1 : Val.Mono (.nodes l) := eval_mono semOk_model e c _ henv hmono hv
  have h2 : Val.Ok a (.nodes l) := eval_ok h e c _ ha henv hok hv
  exact ⟨h1, h2.2, h2.1⟩

/-- the same for the arguments of a call (every value-producing position) -/
theorem args_monotone (a : Arena) (h : wfb a = true) (es : Exprs) (c : Ctx) (ha : c.a = a)
    (henv : EnvOk a c.env) (hok : Val.Ok a c.result) (hmono : Val.Mono c.result) (vs : List Val)
    (hv : evalArgs Model.sem es c = .ok vs) :
    ∀ l, Val.nodes l ∈ vs →
      (l.Pairwise (· < ·) ∨ l.Pairwise (· > ·)) ∧ l.Nodup ∧ ∀ j ∈ l, j < a.size := by
  intro l hl
  have h1 : Val.Mono (.nodes l) := evalArgs_mono semOk_model es c vs henv hmono hv _ hl
  have h2 : Val.Ok a (.nodes l) := evalArgs_ok h es c vs ha henv hok hv _ hl
  exact ⟨h1, h2.2, h2.1⟩

/-- `exec.Exec` from a start node of the arena -/
theorem run_monotone (a : Arena) (h : wfb a = true) (env : Env) (henv : EnvOk a env)
    (start : Nat) (hstart : start < a.size) (e : Expr) (l : List Nat)
    (hv : Model.run a env start e = .ok (.nodes l)) :
    (l.Pairwise (· < ·) ∨ l.Pairwise (· > ·)) ∧ l.Nodup ∧ ∀ j ∈ l, j < a.size :=
  result_monotone a h e _ rfl henv (Val.Ok.single hstart) (Val.Mono.single start) l hv

/-- the specification evaluator lists its node-sets monotonically as well -/
theorem spec_result_monotone (a : Arena) (e : Expr) (c : Ctx) (henv : EnvOk a c.env)
    (hmono : Val.Mono c.result) (l : List Nat) (hv : eval Spec.sem e c = .ok (.nodes l)) :
    l.Pairwise (· < ·) ∨ l.Pairwise (· > ·) :=
  eval_mono semOk_spec e c _ henv hmono hv

/-- **forward_expr_ascending** — `ascending ca e` (Proofs/Lemmas/EvalBasic.lean) is the syntactic
    class "uses no reverse axis at its outermost path": unions, filter expressions, variables,
    the root, steps along a forward axis (`self` steps keep the order of their base; `ca` says
    whether the context node-set is ascending).  For such an expression the node-set is listed in
    ASCENDING document order. -/
theorem forward_expr_ascending (a : Arena) (e : Expr) (ca : Bool) (c : Ctx)
    (henv : EnvOk a c.env) (hctx : ca = true → Val.Asc c.result)
    (hasc : ascending ca e = true) (l : List Nat) (hv : eval Model.sem e c = .ok (.nodes l)) :
    l.Pairwise (· < ·) :=
  eval_asc semOk_model e ca c _ hctx henv hasc hv

/-- every union is ascending, whatever its operands (restated at the level of `eval`) -/
theorem union_result_ascending (sem : Sem) (c : Ctx) (x y : Expr) (l : List Nat)
    (hv : eval sem (.bin .union x y) c = .ok (.nodes l)) : l.Pairwise (· < ·) := by
  rw [eval] at hv
  simp only [bind_ok] at hv
  obtain ⟨p, _, q, _, hv⟩ := hv
  cases p <;> cases q <;> simp only [pure_ok, throw_ok, Val.nodes.injEq] at hv
  subst hv
  exact cleanupFwd_strict _

end Xsel.C03
