/-
  Proofs/GenWalk.lean — re-checked on every run by kernel evaluation over the REGENERATED tables: every
  production of the grammar compiled into the parser has the children that the handler registered for its
  nonterminal in `exec.contextFunctions` indexes (`WalkFit.fits`: `children[1]` needs two nonterminal
  children, `GetTChildI(2)` a terminal in third position, `literal[1:len-1]` a quoted token, …).  A handler
  registered on a production it does not fit — the way a Go panic enters the handler layer — makes this fail.
-/
import Proofs.Lemmas.WalkFit
import Generated.Facts

namespace Xsel.Gen
open Xsel.Walk

theorem handlers_fit_productions : allFit Generated.handlers Generated.productions = true := by decide +kernel

end Xsel.Gen
