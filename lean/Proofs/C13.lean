/-
  Proofs/C13.lean — property C13: executing a query never changes anything the caller can observe
  afterwards.  Here: the node-set slices (the cursor tree's `Children()`/`Attributes()` slices,
  node-sets passed in as variables, results of earlier queries) keep their contents and order.

  Model: Xsel/Effects.lean — Go slices over a heap of backing arrays; `append` writes in place when
  the capacity allows, `sort.Sort` permutes in place.  The evaluator's node-set plumbing after the
  repair is `Op.run` (`unionNew`, `docOrderCopy`, `selectInto`); `unionOld` is the code before.

  Proofs: Proofs/Lemmas/FxHeap.lean, FxOps.lean, FxOld.lean, FxProg.lean.
-/
import Proofs.Lemmas.FxOps
import Proofs.Lemmas.FxOld
import Proofs.Lemmas.FxProg
import Proofs.Lemmas.WalkFrame
import Proofs.Lemmas.WalkAlt

namespace Xsel.C13
open Xsel Xsel.Effects

/-! ### a. frame -/

/-- a query operation writes only to arrays it allocated itself: every pre-existing backing array —
    the WHOLE array, so including the spare capacity beyond the length of a caller's slice — is
    unchanged, and none disappears.  (No hypothesis on the operands is needed.) -/
theorem frame (h : Heap) (o : Op) :
    (∀ id, id < h.size → (o.run h).1.arrD id = h.arrD id) ∧ h.size ≤ (o.run h).1.size :=
  ⟨(o.run_frame h).2, (o.run_frame h).1⟩

/-- the same, under the hypothesis of the property statement (operands well formed in `h`) -/
theorem frame_valid (h : Heap) (o : Op) (_hv : ∀ s ∈ o.operands, s.valid h) :
    (∀ id, id < h.size → (o.run h).1.arrD id = h.arrD id) ∧ h.size ≤ (o.run h).1.size :=
  frame h o

/-- every slice of the old heap shows the same nodes in the same order afterwards -/
theorem inputs_unchanged (h : Heap) (o : Op) (s : Slice) (hs : s.arr < h.size) :
    read (o.run h).1 s = read h s :=
  (o.run_frame h).read hs

/-- … and stays well formed -/
theorem inputs_stay_valid (h : Heap) (o : Op) (s : Slice) (hs : s.valid h) : s.valid (o.run h).1 :=
  (o.run_frame h).valid hs.1 hs

/-! ### b. values and freshness -/

theorem union_value (h : Heap) (l r : Slice) (hl : l.valid h) (hr : r.valid h) :
    read (unionNew h l r).1 (unionNew h l r).2 = cleanupFwd (read h l ++ read h r) :=
  unionNew_read hl.1 hr.1

theorem docOrder_value (h : Heap) (s : Slice) (hs : s.valid h) :
    read (docOrderCopy h s).1 (docOrderCopy h s).2 = cleanupFwd (read h s) :=
  docOrderCopy_read hs.1

theorem select_value (h : Heap) (collected : List Nat) :
    read (selectInto h collected).1 (selectInto h collected).2 = cleanupFwd collected :=
  selectInto_read h collected

/-- all three at once: the result shows the node list the operation denotes -/
theorem op_value (h : Heap) (o : Op) (hv : ∀ s ∈ o.operands, s.valid h) :
    read (o.run h).1 (o.run h).2 = o.value h :=
  Op.run_read (Op.valid.inHeap hv)

/-- the returned slice lives in an array allocated by the operation: it aliases no input -/
theorem result_fresh (h : Heap) (o : Op) : h.size ≤ (o.run h).2.arr := o.run_fresh h

/-- … and is a well-formed slice of the new heap -/
theorem result_valid (h : Heap) (o : Op) : (o.run h).2.valid (o.run h).1 := o.run_valid h

/-! ### c. the defect that was repaired (known_findings.json, "fixed") -/

/-- `k = children[2:4:7]`, `k | r` with the code before the repair: the document's `children`
    array is different afterwards -/
theorem unionOld_mutates : (unionOld exHeap exLeft exRight).1.arrD 0 ≠ exHeap.arrD 0 :=
  Effects.unionOld_mutates

theorem unionOld_mutates_exact :
    exHeap.arrD 0 = #[10, 11, 12, 13, 14, 15, 16] ∧
    (unionOld exHeap exLeft exRight).1.arrD 0 = #[10, 11, 3, 5, 12, 13, 16] ∧
    (unionNew exHeap exLeft exRight).1.arrD 0 = #[10, 11, 12, 13, 14, 15, 16] := by decide

/-- whenever the right operand fits into the left operand's capacity, the old union leaves the
    caller's left operand showing the first `l.len` nodes of the sorted concatenation -/
theorem unionOld_reorders (h : Heap) (l r : Slice) (hl : l.valid h) (hr : r.valid h)
    (hfit : l.len + r.len ≤ l.cap) :
    read (unionOld h l r).1 l = (sortAsc (read h l ++ read h r)).take l.len :=
  Effects.unionOld_reorders hl hr hfit

/-- no spare capacity involved (`l.cap = l.len + r.len`, `r` empty): the old union sorts the
    caller's node-set in place -/
theorem unionOld_reorders_full (h : Heap) (l r : Slice) (hl : l.valid h) (hr : r.valid h)
    (hr0 : r.len = 0) : read (unionOld h l r).1 l = sortAsc (read h l) :=
  Effects.unionOld_reorders_full hl hr hr0

theorem unionOld_reorders_example :
    let h : Heap := #[#[30, 10, 20], #[]]
    let v : Slice := { arr := 0, off := 0, len := 3, cap := 3 }
    let e : Slice := { arr := 1, off := 0, len := 0, cap := 0 }
    read h v = [30, 10, 20] ∧ read (unionOld h v e).1 v = [10, 20, 30] ∧
    read (unionNew h v e).1 v = [30, 10, 20] :=
  Effects.unionOld_reorders_example

/-! ### d. sequences of operations -/

/-- a program is a list of steps; a step chooses its operation from the slices available so far
    (the caller's inputs followed by the results of the earlier steps).  Split the program anywhere
    (`ps` has run, `qs` runs afterwards):
    (1) every array of the initial heap is unchanged at the very end;
    (2) every array that exists after `ps` is unchanged by `qs`;
    (3) every slice available after `ps` — inputs and results obtained so far — shows the same nodes
        in the same order after `qs`;
    (4) it is still available. -/
theorem run_ops_frame (h : Heap) (av : List Slice) (ps qs : List Step)
    (hav : ∀ s ∈ av, s.arr < h.size) :
    (∀ id, id < h.size → (runProg h av (ps ++ qs)).1.arrD id = h.arrD id) ∧
    (∀ id, id < (runProg h av ps).1.size →
        (runProg h av (ps ++ qs)).1.arrD id = (runProg h av ps).1.arrD id) ∧
    (∀ s ∈ (runProg h av ps).2, read (runProg h av (ps ++ qs)).1 s = read (runProg h av ps).1 s) ∧
    (∃ rs, (runProg h av (ps ++ qs)).2 = (runProg h av ps).2 ++ rs) :=
  Effects.run_ops_frame h av ps qs hav

/-- the result of any step, read at the very end of the program, shows the node list the operation
    denoted when it ran -/
theorem run_ops_value (h : Heap) (av : List Slice) (ps : List Step) (p : Step) (qs : List Step)
    (hav : ∀ s ∈ av, s.arr < h.size)
    (hp : ∀ s ∈ (p (runProg h av ps).2).operands, s ∈ (runProg h av ps).2) :
    read (runProg h av (ps ++ p :: qs)).1 ((p (runProg h av ps).2).run (runProg h av ps).1).2
      = (p (runProg h av ps).2).value (runProg h av ps).1 :=
  runProg_result_value h av ps p qs (step_inHeap h av ps p hav hp)

/-- well-formed inputs stay well formed, and all results are well formed -/
theorem run_ops_valid (h : Heap) (av : List Slice) (ps : List Step) (hav : ∀ s ∈ av, s.valid h) :
    ∀ s ∈ (runProg h av ps).2, s.valid (runProg h av ps).1 :=
  runProg_valid h av ps hav

/-! ## the handler layer writes nothing but the result

`exec.Exec` threads ONE mutable `exprContext` through the handlers of a query.  In the model of that layer
(`Xsel/Walk.lean`) this is the statement that the context the caller gets back — and with it the document,
the binding maps, the context position and the context size — is untouched by any handler, for every parse
forest and every handler table: handlers write `result` and the principal node type, sub-evaluations that
need another context node work on copies. -/

/-- **handler_walk_frame** — for EVERY tree, EVERY handler table and every context: after a successful walk
    the document, the bindings, the context position and the context size are the ones the walk started with -/
theorem handler_walk_frame (tb : List (String × String)) (t : Walk.PT) (w w' : Walk.WCtx)
    (h : Walk.walk tb t w = .ok w') :
    w'.c.a = w.c.a ∧ w'.c.env = w.c.env ∧ w'.c.pos = w.c.pos ∧ w'.c.size = w.c.size :=
  Walk.walk_frame tb t w w' h

/-- **order_of_alternatives_irrelevant** — "BuildExpr of the same string always yields an equivalent query": the
    one place where the generated parser can hand the evaluator two different trees for one string is the
    function call at the head of a path; both trees evaluate to the same outcome (`Walk.alternatives_agree`) -/
theorem order_of_alternatives_irrelevant (e : Expr) (hp : Walk.isPathLike e = true) (p : Option Chars) (n : Chars)
    (as : Exprs)
    (hhead : (Walk.dRel e).1 = .filt (Walk.N "FilterExpr" [Walk.N "PrimaryExpr" [Walk.dCall p n as]]))
    (hq : Walk.qnOk p n = true) (hall : Walk.walkOks as = true) (w : Walk.WCtx) :
    (Walk.walk Expect.handlers (Walk.dNat e) w).map Walk.WCtx.res =
      (Walk.walk Expect.handlers (Walk.altPath p n as e) w).map Walk.WCtx.res :=
  (Walk.alternatives_agree e hp p n as hhead hq hall w).2

end Xsel.C13
