/-
  Proofs/C05.lean — property C05: comparison operators implement XPath 1.0 §3.4.

  `Model.compare` is the transcription of exec/contextfn_comparisons.go (two cascades for
  `=`/`!=`, `relationalCompare` for the four relational operators); `Spec.compare` is §3.4.
-/
import Xsel.Cmp

namespace Xsel.C05
open Xsel Xsel.Model

/-- **compare_refines** — for every string-value function, every operator and every pair of
    operand values of the four types, the code's cascade returns what §3.4 defines. -/
theorem compare_refines (sv : Nat → Chars) (op : CmpOp) (l r : Val) :
    Model.compare sv op l r = Spec.compare sv op l r := by
  cases op <;> cases l <;> cases r <;>
    simp [Model.compare, Spec.compare, Model.equality, Model.relational, Spec.atomic,
          CmpOp.isRel, CmpOp.onNum, Model.toNum, Model.toStr, Model.toBool, boolNum, Num.ne, Function.comp_def]

end Xsel.C05

namespace Xsel.C05
open Xsel Xsel.Model

/-- NaN is unequal to every number, string and node-set, including itself
    (against a boolean the comparison is on booleans: `boolean(NaN) = false`). -/
theorem nan_unequal (sv : Nat → Chars) (v : Val) (hv : ∀ b, v ≠ .bool b) :
    Model.compare sv .eq (.num .nan) v = false ∧ Model.compare sv .eq v (.num .nan) = false := by
  rw [compare_refines, compare_refines]
  cases v <;> simp_all [Spec.compare, Spec.atomic, CmpOp.isRel, CmpOp.onNum, Model.toNum, Num.eq, Num.ext]
  all_goals (intros; split <;> simp_all)

theorem nan_ne_itself (sv : Nat → Chars) :
    Model.compare sv .ne (.num .nan) (.num .nan) = true := by
  rw [compare_refines]; simp [Spec.compare, Spec.atomic, CmpOp.isRel, CmpOp.onNum, Model.toNum, Num.ne, Num.eq, Num.ext]

/-- an empty node-set makes every comparison with a non-boolean false -/
theorem empty_nodeset_false (sv : Nat → Chars) (op : CmpOp) (v : Val) (hv : ∀ b, v ≠ .bool b) :
    Model.compare sv op (.nodes []) v = false ∧ Model.compare sv op v (.nodes []) = false := by
  rw [compare_refines, compare_refines]
  cases v <;> simp_all [Spec.compare]

/-- against a boolean, a node-set counts as `boolean(node-set)`: empty = false() -/
theorem empty_nodeset_eq_false (sv : Nat → Chars) :
    Model.compare sv .eq (.nodes []) (.bool false) = true := by
  rw [compare_refines]; simp [Spec.compare, Spec.atomic, CmpOp.isRel, Model.toBool]

/-- `A != B` is not the negation of `A = B` for node-sets: with two nodes whose string-values
    differ, both `A = A` and `A != A` hold. -/
theorem ne_not_negation :
    let sv : Nat → Chars := fun i => if i = 1 then ['a'] else ['b']
    Model.compare sv .eq (.nodes [1, 2]) (.nodes [1, 2]) = true ∧
    Model.compare sv .ne (.nodes [1, 2]) (.nodes [1, 2]) = true := by
  decide

end Xsel.C05
