/-
  Proofs/C02.lean — property C02: predicates use the per-context-node proximity position and
  the true context size.

  `eval Model.sem` (Xsel/Eval.lean) is the evaluator shaped like the Go code: axes are
  set-at-a-time walkers followed by sort/unique, and a step is evaluated per context node only
  when it has predicates and more than one context node.  `eval Spec.sem` is the XPath 1.0
  Recommendation: every step is evaluated per context node, the axis is listed in axis order,
  each predicate sees the proximity position and the size of that list, the per-node results
  are united.  `Spec.semKF` is `Spec.sem` with the one recorded deviation of the code
  (`round` of negative ties).

  The proofs live in Proofs/Lemmas/Eval*.lean; this file restates the results.
-/
import Proofs.Lemmas.EvalCalls
import Proofs.Lemmas.ChainE2E
import Proofs.Lemmas.WalkTop

namespace Xsel.C02
open Xsel Arena

/-! ## the refinement theorem -/

/-- **exec_refines_spec** — on a well-formed arena the Go-shaped evaluator and the
    specification evaluator agree on every expression: both fail, or both return the same
    value up to the order in which a node-set is listed (`Val.Equiv`: `List.Perm`).

    Hypotheses: `wfb a` (the Cursor contract), `hsv` (the two string-value functions agree on
    the cells of the arena), `EnvOk` (node-set variables list cells in document order), the two
    contexts agree up to listing order (`Ctx.Equiv`), the context node-set lists cells of the
    arena without repetition (`Val.Ok`).  `ca = true` when both context node-sets are listed in
    ascending order (`hasc`), as is the case for the single start node of `Model.run`.

    Side condition on the expression (decidable, syntactic):
    * `sumSafe ca e`: every `sum(arg)` has an argument for which `ascending` holds (IEEE
      addition is not associative, so a sum over a differently listed node-set may differ),
      and every `lang(s)` is called on a context for which `ascending` holds (the first context
      node with an `xml:lang` in scope decides; in a predicate the context is one node).

    Nothing is assumed about namespace prefixes: a node test whose prefix is not bound is an
    error of the expression in both evaluators, whatever the context node-set — see
    `unbound_prefix_fails_in_both`. -/
theorem exec_refines_spec (a : Arena) (h : wfb a = true)
    (hsv : ∀ i, i < a.size → Model.strval a i = Spec.strval a i)
    (env : Env) (henv : EnvOk a env) (e : Expr) (ca : Bool)
    (hs : sumSafe ca e = true)
    (c c' : Ctx) (hc : Ctx.Equiv c c') (hok : Val.Ok a c.result)
    (hasc : ca = true → Val.Asc c.result ∧ Val.Asc c'.result)
    (ha : c.a = a) (he : c.env = env) :
    Res.Equiv (eval Model.sem e c) (eval Spec.semKF e c') :=
  Xsel.exec_refines_spec a h hsv env henv e ca hs c c' hc hok hasc ha he

/-- `exec.Exec` from a start node -/
theorem run_refines_spec (a : Arena) (h : wfb a = true)
    (hsv : ∀ i, i < a.size → Model.strval a i = Spec.strval a i)
    (env : Env) (henv : EnvOk a env) (start : Nat) (hstart : start < a.size) (e : Expr)
    (hs : sumSafe true e = true) :
    Res.Equiv (Model.run a env start e) (Spec.runKF a env start e) :=
  Xsel.run_refines_spec a h hsv env henv start hstart e hs

/-- predicates are applied to the same lists and keep the same nodes: a predicate list applied
    to a list `l` of cells gives the same result (or fails) in both evaluators -/
theorem preds_refine_spec (a : Arena) (h : wfb a = true)
    (hsv : ∀ i, i < a.size → Model.strval a i = Spec.strval a i)
    (env : Env) (henv : EnvOk a env) (ps : Exprs)
    (hs : sumSafeL true ps = true)
    (c c' : Ctx) (ha : c.a = a) (ha' : c'.a = a) (he : c.env = env) (he' : c'.env = env)
    (l : List Nat) (hl : ∀ x ∈ l, x < a.size) :
    ExRel Eq (applyPreds Model.sem ps c l) (applyPreds Spec.semKF ps c' l) :=
  applyPreds_refines_spec a h hsv env henv ps hs c c' ha ha' he he' l hl

/-- a step whose node test has an unbound prefix is an error, in every evaluator, whatever its
    base selects (also nothing) and whatever its predicates: the prefix is resolved before the
    context nodes are looked at -/
theorem unbound_prefix_fails (sem : Sem) (c : Ctx) (base : Expr) (ax : Axis) (t : NodeTest)
    (preds : Exprs) {l : List Nat} (hbase : eval sem base c = .ok (.nodes l))
    (hb : t.bound c.env = false) :
    eval sem (.step base ax t preds) c = .error .unboundPrefix := by
  rw [eval, hbase]
  simp only [Val.nodes?, NodeTest.apply_unbound c.a c.env ax hb]
  show (if _ then _ else _) = _
  split <;> rfl

/-- **unbound_prefix_fails_in_both** — an unbound prefix in a node test is an error of the
    expression, independent of the context (XPath 1.0 §2.3: the prefix is expanded with the
    namespace declarations of the expression context): the model (the node test is resolved
    once, before looking at the nodes) and the specification (the node test is resolved before
    the per-node loop) both fail with `unboundPrefix`, for ANY context node-set `l`, the empty
    one included.  This is why `exec_refines_spec` needs no hypothesis on prefixes. -/
theorem unbound_prefix_fails_in_both (c : Ctx) (p x : Chars) (ax : Axis) (l : List Nat)
    (hres : c.result = .nodes l) (hp : lookup p c.env.ns = none) :
    eval Model.sem (.step .ctx ax (.qname p x) .nil) c = .error .unboundPrefix
    ∧ eval Spec.semKF (.step .ctx ax (.qname p x) .nil) c = .error .unboundPrefix := by
  have hb : (NodeTest.qname p x).bound c.env = false := by simp [NodeTest.bound, hp]
  have hctx : ∀ sem, eval sem .ctx c = .ok (.nodes l) := fun sem => by rw [eval, hres]
  exact ⟨unbound_prefix_fails Model.sem c .ctx ax _ .nil (hctx _) hb,
    unbound_prefix_fails Spec.semKF c .ctx ax _ .nil (hctx _) hb⟩

/-! ## what a predicate sees -/

/-- `execPredicate`, unfolded: the node at 0-based index `i` of `l` is tested with itself as
    context node, `i` as 0-based context position and `|l|` as context size -/
theorem applyPred_def (sem : Sem) (p : Expr) (c : Ctx) (l : List Nat) :
    applyPred sem p c l =
      filterIdx (fun i n => do
        let v ← eval sem p { c with result := .nodes [n], pos := i, size := l.length }
        pure (predTruth (i + 1) v)) l 0 := by
  rw [applyPred]

/-- **last_is_size** — inside a predicate applied to `l`, `last()` is `|l|` -/
theorem last_is_size (sem : Sem) (c : Ctx) (l : List Nat) (n i : Nat)
    (hu : lookupQ ([], "last".toList) c.env.fns = none) :
    eval sem (.call .ctx none "last".toList .nil)
        { c with result := .nodes [n], pos := i, size := l.length }
      = .ok (.num (Num.ofNat l.length)) :=
  eval_last sem _ String.ofList_toList hu

/-- **position_is_index** — inside a predicate, `position()` is the 1-based index in `l` -/
theorem position_is_index (sem : Sem) (c : Ctx) (l : List Nat) (n i : Nat)
    (hu : lookupQ ([], "position".toList) c.env.fns = none) :
    eval sem (.call .ctx none "position".toList .nil)
        { c with result := .nodes [n], pos := i, size := l.length }
      = .ok (.num (Num.ofNat (i + 1))) :=
  eval_position sem _ String.ofList_toList hu

/-- **preds_renumber** — successive predicates renumber the survivors: the second predicate is
    applied to the list the first one kept -/
theorem preds_renumber (sem : Sem) (p : Expr) (ps : Exprs) (c : Ctx) (l : List Nat) :
    applyPreds sem (.cons p ps) c l = applyPred sem p c l >>= applyPreds sem ps c := by
  rw [applyPreds]

/-! ## numeric predicates -/

/-- the comparison `=` of the evaluator on two numbers is IEEE equality -/
def CmpNum (sem : Sem) : Prop :=
  ∀ sv x y, sem.compare sv .eq (.num x) (.num y) = Num.eq x y

theorem cmpNum_model : CmpNum Model.sem := by
  intro sv x y
  simp [Model.sem, Model.compare, Model.equality, Model.toNum]

theorem cmpNum_spec : CmpNum Spec.sem := by
  intro sv x y
  simp [Spec.sem, Spec.compare, Spec.atomic, CmpOp.isRel, CmpOp.onNum, Model.toNum]

theorem cmpNum_specKF : CmpNum Spec.semKF := cmpNum_spec

theorem numeric_pred_is_position_eq' (sem : Sem) (hcmp : CmpNum sem) (n : Num) (c : Ctx)
    (l : List Nat) {nm : Chars} (hnm : String.ofList nm = "position")
    (hu : lookupQ ([], nm) c.env.fns = none) :
    applyPred sem (.num n) c l =
      applyPred sem (.bin (.cmp .eq) (.call .ctx none nm .nil) (.num n)) c l := by
  rw [applyPred, applyPred]
  congr 1
  funext i m
  rw [eval, eval,
    eval_position sem { c with result := .nodes [m], pos := i, size := l.length } hnm hu, eval]
  simp only [bind, Except.bind, pure, Except.pure, predTruth]
  rw [hcmp _ _ _]

/-- **numeric_pred_is_position_eq** — a numeric predicate `[n]` is `[position() = n]`
    (for both evaluators: `cmpNum_model`, `cmpNum_spec`) -/
theorem numeric_pred_is_position_eq (sem : Sem) (hcmp : CmpNum sem) (n : Num) (c : Ctx)
    (l : List Nat) (hu : lookupQ ([], "position".toList) c.env.fns = none) :
    applyPred sem (.num n) c l =
      applyPred sem (.bin (.cmp .eq) (.call .ctx none "position".toList .nil) (.num n)) c l :=
  numeric_pred_is_position_eq' sem hcmp n c l String.ofList_toList hu

/-- `[NaN]` selects nothing -/
theorem numeric_pred_nan (p : Nat) : predTruth p (.num .nan) = false := by
  simp [predTruth, Num.eq, Num.ext]

/-- a numeric predicate selects position `p ≥ 1` only when the number IS `p`: fractions,
    numbers `≤ 0` (including `-0`), numbers above the context size, infinities and NaN select
    nothing -/
theorem numeric_pred_out_of_range {p : Nat} (hp : 0 < p) {n : Num}
    (h : predTruth p (.num n) = true) : n = Num.ofNat p := by
  cases n <;> simp [predTruth, Num.eq, Num.ext, Num.ofNat] at h ⊢
  case nzero =>
    have : ((p : Nat) : Rat) = ((0 : Nat) : Rat) := by simpa using h
    have := Rat.natCast_inj.mp this
    omega
  case fin q => exact h.symm

/-- … hence a number that is no position of the list selects nothing -/
theorem numeric_pred_selects_nothing (sem : Sem) (n : Num) (c : Ctx) (l : List Nat)
    (hn : ∀ k, 1 ≤ k → k ≤ l.length → n ≠ Num.ofNat k) :
    applyPred sem (.num n) c l = .ok [] := by
  rw [applyPred]
  have hfun : (fun (i m : Nat) => do
        let v ← eval sem (.num n) { c with result := .nodes [m], pos := i, size := l.length }
        pure (predTruth (i + 1) v))
      = fun i _ => (.ok (predTruth (i + 1) (.num n)) : Except Err Bool) := by
    funext i m
    rw [eval]
    rfl
  rw [hfun]
  have key : ∀ (l' : List Nat) (i : Nat), i + l'.length ≤ l.length →
      filterIdx (fun i _ => (.ok (predTruth (i + 1) (.num n)) : Except Err Bool)) l' i
        = .ok [] := by
    intro l'
    induction l' with
    | nil => intro i _; rfl
    | cons m t ih =>
      intro i hi
      simp only [List.length_cons] at hi
      have hf : predTruth (i + 1) (.num n) = false := by
        cases hpt : predTruth (i + 1) (.num n) with
        | false => rfl
        | true =>
          exact absurd (numeric_pred_out_of_range (Nat.succ_pos i) hpt)
            (hn (i + 1) (by omega) (by omega))
      simp only [filterIdx, hf, ih (i + 1) (by omega)]
      rfl
  exact key l 0 (by omega)

/-! ## filter expressions -/

/-- **filter_docorder** — `(base)[p]` applies the predicate to the node-set of `base` in
    ascending document order (`cleanupFwd`), whatever order `base` produced -/
theorem filter_docorder (sem : Sem) (base p : Expr) (c : Ctx) {l : List Nat}
    (hl : eval sem base c = .ok (.nodes l)) :
    eval sem (.filt base p) c = (applyPred sem p c (cleanupFwd l)).map .nodes := by
  rw [eval, hl]
  cases hr : applyPred sem p c (cleanupFwd l) <;>
    simp [Val.nodes?, bind, Except.bind, hr, Except.map, pure, Except.pure]

/-- the list the predicate is applied to is strictly ascending and has the members of `l` -/
theorem filter_docorder_list (l : List Nat) :
    (cleanupFwd l).Pairwise (· < ·) ∧ ∀ x, x ∈ cleanupFwd l ↔ x ∈ l :=
  ⟨cleanupFwd_strict l, fun _ => mem_cleanupFwd⟩

/-- two bases that select the same nodes, in whatever order and multiplicity, give the same
    filter expression -/
theorem filter_order_irrelevant (sem : Sem) (base base' p : Expr) (c : Ctx) {l l' : List Nat}
    (hl : eval sem base c = .ok (.nodes l)) (hl' : eval sem base' c = .ok (.nodes l'))
    (hmem : ∀ x, x ∈ l ↔ x ∈ l') :
    eval sem (.filt base p) c = eval sem (.filt base' p) c := by
  rw [filter_docorder sem base p c hl, filter_docorder sem base' p c hl', cleanupFwd_ext hmem]

/-! ## non-vacuity of the side conditions -/

/-- `//a[position() = 2]/b[last()][lang('en')]` -/
example : sumSafe true
    (.step (.step (.step .root .descendantOrSelf .node .nil) .child (.name "a".toList)
      (.cons (.bin (.cmp .eq) (.call .ctx none "position".toList .nil) (.num (Num.ofNat 2))) .nil))
      .child (.name "b".toList)
      (.cons (.call .ctx none "last".toList .nil)
        (.cons (.call .ctx none "lang".toList (.cons (.lit "en".toList) .nil)) .nil))) = true := by
  simp [sumSafe, sumSafeL, ascending, sumArgAsc]

/-- `sum(//x)` -/
example : sumSafe true
    (.call .ctx none "sum".toList
      (.cons (.step (.step .root .descendantOrSelf .node .nil) .child (.name "x".toList) .nil)
        .nil)) = true := by
  simp [sumSafe, sumSafeL, ascending, sumArgAsc, Axis.isReverse]

end Xsel.C02

/-! ## end-to-end forms (Proofs/Lemmas/ChainE2E.lean) -/

namespace Xsel.C02
open Xsel Arena

/-- **exec_refines_spec'** — `exec_refines_spec` with the string-value hypothesis `hsv` discharged:
    on a well-formed arena `Model.strval` IS the XPath string-value (`Strval.strval_refines'`). -/
theorem exec_refines_spec' (a : Arena) (h : wfb a = true)
    (env : Env) (henv : EnvOk a env) (e : Expr) (ca : Bool)
    (hs : sumSafe ca e = true)
    (c c' : Ctx) (hc : Ctx.Equiv c c') (hok : Val.Ok a c.result)
    (hasc : ca = true → Val.Asc c.result ∧ Val.Asc c'.result)
    (ha : c.a = a) (he : c.env = env) :
    Res.Equiv (eval Model.sem e c) (eval Spec.semKF e c') :=
  Chain.exec_refines_spec' a h env henv e ca hs c c' hc hok hasc ha he

/-- **run_refines_spec'** — `exec.Exec` from a start node of ANY arena that satisfies the Cursor
    contract returns what the specification (with the recorded `round` deviation) returns, up to
    the listing order of a node-set, or both fail.  The only hypotheses left are the Cursor
    contract, `EnvOk`, and the syntactic side condition `sumSafe`. -/
theorem run_refines_spec' (a : Arena) (h : wfb a = true) (env : Env) (henv : EnvOk a env)
    (e : Expr) (start : Nat) (hs : start < a.size) (hsum : sumSafe true e = true) :
    Res.Equiv (Model.run a env start e) (Spec.runKF a env start e) :=
  Chain.run_refines_spec' a h env henv e start hs hsum

/-- `Spec.semKF` differs from `Spec.sem` only in `round`, which the function library reads only
    for the builtins `round` and `substring`: on an expression that calls neither
    (`Chain.noRound`, decidable, syntactic) the two specifications coincide -/
theorem semKF_eq_sem_of_noRound (e : Expr) (h : Chain.noRound e = true) (c : Ctx) :
    eval Spec.semKF e c = eval Spec.sem e c :=
  Chain.semKF_eq_sem_of_noRound e h c

/-- **run_refines_spec_noRound** — for such expressions the refinement holds against the
    UNMODIFIED XPath 1.0 specification `Spec.sem` -/
theorem run_refines_spec_noRound (a : Arena) (h : wfb a = true) (env : Env) (henv : EnvOk a env)
    (e : Expr) (start : Nat) (hs : start < a.size) (hsum : sumSafe true e = true)
    (hnr : Chain.noRound e = true) :
    Res.Equiv (Model.run a env start e) (Spec.run a env start e) :=
  Chain.run_refines_spec_noRound a h env henv e start hs hsum hnr

/-! ## through the parse forest: nothing after a filter expression is dropped

The defects F08/F12 of the pinned tree were MISSING HANDLERS: the nonterminals `PathExprFilterWithPath` and
`AbsoluteLocationPathWithRelative` had no entry in `exec.contextFunctions`, so `execChildren` evaluated
their first child only and `(E)[p]/step`, `$v/step`, `f()/step` returned the value of the filter
expression.  With the handler table regenerated from the code, the model of the walk over the parse forest
(`Xsel/Walk.lean`) evaluates the step from the filtered nodes — for every filter expression, predicate and
step (instance of `Walk.walk_refines_eval`). -/

/-- **filter_then_path_forest** — `(E)[p]/axis::test[q…]`: the forest of this string, walked as the Go code
    walks it, evaluates the step from the nodes the predicate kept -/
theorem filter_then_path_forest (a : Arena) (env : Env) (start : Nat) (b p : Expr) (ax : Axis) (t : NodeTest)
    (ps : Exprs) (h : Walk.walkOk (.step (.filt b p) ax t ps) = true) :
    Walk.run Generated.handlers a env start (Walk.derivTop (.step (.filt b p) ax t ps)) =
      Walk.ofEval (Model.run a env start
        (.step (.filt (Syntax.normCtx b) (Syntax.normCtx p)) ax t (Syntax.normCtxs ps))) := by
  have := Walk.walk_refines_eval a env start _ h
  simpa [Syntax.normCtx, Syntax.normBase] using this

/-- with the handler of `PathExprFilterWithPath` REMOVED from the table the step is dropped: `(/)[1]/child::a`
    on `<r><a/></r>`… evaluates to the root alone (the old defect, as a theorem about the model) -/
example :
    let tbl := Generated.handlers.filter (fun p => p.1 != "PathExprFilterWithPath")
    let e : Expr := .step (.filt .root (.num (.fin 1))) .child .node .nil
    let a : Arena := #[{ kind := .root, kids := [1] }, { kind := .elem, loc := ['r'], pos := 1, parent := 0 }]
    (match Walk.run tbl a {} 0 (Walk.derivTop e), Walk.run Generated.handlers a {} 0 (Walk.derivTop e) with
     | .ok (.nodes [0]), .ok (.nodes [1]) => true
     | _, _ => false) = true := by
  decide +kernel

end Xsel.C02
