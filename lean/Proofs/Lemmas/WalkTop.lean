/-
  Proofs/Lemmas/WalkTop.lean — the walk theorem at the level of `exec.Exec`: the derivation tree of the
  whole expression (`derivTop`), the context `Exec` starts with, and the handler table REGENERATED from
  the source (`Generated.handlers`, equal to the expected table by `GenTables.handlers_agree`).
-/
import Proofs.Lemmas.WalkMain
import Proofs.GenTables

namespace Xsel.Walk
open Xsel Xsel.Syntax

/-- the outcome of the evaluator as an outcome of the walk: no panic -/
def ofEval : Except Err Val → Except WErr Val
  | .ok v => .ok v
  | .error e => .error (.err e)

theorem run_of_sim {r : R} {c : Ctx} {ev : Except Err Val} (h : Sim r c ev) : r.map WCtx.res = ofEval ev := by
  cases ev with
  | error e => rw [show r = .error (.err e) from h]; rfl
  | ok v => obtain ⟨k, hk⟩ := h; rw [hk]; rfl

theorem sim_derivTop (e : Expr) (h : walkOk e = true) (w : WCtx) :
    Sim (walk tbl (derivTop e) w) w.c (eval Model.sem (normCtx e) w.c) := by
  by_cases hr : e = .root
  · subst hr
    rw [derivTop, normCtx_root, eval, walk_lift _ _ _ rfl]
    simp only [rootPath, N, ofList_cons, ofList_nil]
    rw [walk_nohandler _ _ _ _ lk_PathExpr, walkFirst_nt, walk_nohandler _ _ _ _ lk_LocationPath, walkFirst_nt,
      walk_nohandler _ _ _ _ lk_AbsoluteLocationPath, walkFirst_nt, walk]
    simp only [lk_AbsoluteLocationPathOnly]
    exact Sim.ok w.principal rfl
  · have : derivTop e = wrapAt 0 (level e) (dNat e) := by
      cases e <;> first | exact absurd rfl hr | rfl
    rw [this, walk_wrapAt _ _ _ (isNt_dNat e)]
    exact sim_dNat e h w

/-- **walk_refines_eval** — `exec.Exec` on the derivation tree of the canonical spelling of `e`, walked with
    the handler table regenerated from exec/contextfn*.go, returns exactly what the evaluator on abstract
    syntax returns for `e` (read with `.` as `self::node()`), or fails with the same error; it never panics. -/
theorem walk_refines_eval (a : Arena) (env : Env) (start : Nat) (e : Expr) (h : walkOk e = true) :
    Walk.run Generated.handlers a env start (derivTop e) = ofEval (Model.run a env start (normCtx e)) := by
  rw [Gen.handlers_agree]
  exact run_of_sim (sim_derivTop e h _)

theorem walk_never_panics (a : Arena) (env : Env) (start : Nat) (e : Expr) (h : walkOk e = true) :
    Walk.run Generated.handlers a env start (derivTop e) ≠ .error .panic := by
  rw [walk_refines_eval a env start e h]
  cases Model.run a env start (normCtx e) <;> simp [ofEval]

end Xsel.Walk
