/-
  Proofs/Lemmas/JsonSound.lean — the JSON text reader of Xsel/JsonText.lean on ARBITRARY texts.

  A. FUEL.  `parseText_fuel_adequate`: whatever the stream reader `pTop` reads with ANY amount of
     fuel it reads with the fuel `cs.length + 1` that `parseText` gives it.  Behind it:
     `read_adequate`/`pVal_adequate` (a successful call of a fuel-taking reader succeeds with every
     fuel that is at least the number of characters it consumed — every level of the recursion and
     every item consumes at least one character, `pVal_length` …), `pTop_adequate`, and
     `read_mono`/`pVal_mono`/`pTop_mono` (more fuel never changes an answer).
  B. SOUNDNESS.  `parseText_sound`: an accepted text is, character for character, a spelling of the
     returned values.  `Spells v t` (mutual with `SpellsTail`, `SpellsMember`, `SpellsMTail`) is a
     declarative description of the JSON texts of a value after RFC 8259 — white space (`AllWs`) is
     allowed after `[` `{`, around `,` `:` and before `]` `}`; strings are spelled by `SpellsStr`
     (raw characters, the eight single-character escapes, `\uXXXX`; surrogate escapes as `combine`
     joins them); numbers by `SpellsNum` (`-? int frac? exp?`, `IsIntPart`/`SpellsFrac`/`SpellsExp`,
     with the value `numVal`, not an infinity) —, `SpellsStream` the texts of a sequence of values
     with white space before, between and after them.  Every character of the text belongs to a
     value or is white space where the grammar allows it: nothing is skipped.
     (`pStr_sound`, `pNum_sound`, `read_sound`/`pVal_sound`, `pTop_sound`.)
  C. EXACTNESS.  `parseText_exact`: `parseText cs = some vs ↔ SpellsStreamExact vs cs`, where
     `SpellsStreamExact` is `SpellsStream` with the maximal-munch rule `Munch` between a top-level
     number and what follows it (directly followed by a digit only after `0`/`-0`; without it `12`
     would also spell `1 2`).  Completeness is `pStr_complete`, `pNum_complete` (`NumFollow`),
     `read_complete`/`pVal_complete`, `pTop_complete`.  Corollaries: `Spells.unique`,
     `SpellsStreamExact.unique` (a text spells at most one value / sequence), `parseText_none`.
-/
import Proofs.Lemmas.JsonText

namespace Xsel.Json

/-! ### the declarative description of JSON texts -/

/-- all characters are decimal digits -/
def AllDigits (ds : Chars) : Prop := ∀ c ∈ ds, isDigit c = true

/-- the text between the quotes of a string literal and its units: a raw character (not `"`, not
    `\`, not below U+0020), a single-character escape, or a `\uXXXX` escape -/
inductive SpellsUnits : List SUnit → Chars → Prop
  | nil : SpellsUnits [] []
  | raw (c : Char) (us : List SUnit) (t : Chars) :
      c ≠ '"' → c ≠ '\\' → ¬ c.toNat < 0x20 → SpellsUnits us t → SpellsUnits (.ch c :: us) (c :: t)
  | esc (e x : Char) (us : List SUnit) (t : Chars) :
      simpleEsc e = some x → SpellsUnits us t → SpellsUnits (.ch x :: us) ('\\' :: e :: t)
  | uni (a b c d : Char) (n : Nat) (us : List SUnit) (t : Chars) :
      hex4 a b c d = some n → SpellsUnits us t →
      SpellsUnits (.u n :: us) ('\\' :: 'u' :: a :: b :: c :: d :: t)

/-- `t` (the text between the quotes) spells the string `s` -/
def SpellsStr (s t : Chars) : Prop := ∃ us, SpellsUnits us t ∧ combine us = s

/-- `0`, or a digit other than `0` followed by digits -/
def IsIntPart (ip : Chars) : Prop :=
  ip = ['0'] ∨ ∃ c ds, ip = c :: ds ∧ c ≠ '0' ∧ isDigit c = true ∧ AllDigits ds

/-- the fraction digits and their text: nothing, or `.` and at least one digit -/
inductive SpellsFrac : Chars → Chars → Prop
  | none : SpellsFrac [] []
  | some (ds : Chars) : ds ≠ [] → AllDigits ds → SpellsFrac ds ('.' :: ds)

/-- the exponent and its text: nothing (0), or `e`/`E`, an optional sign and at least one digit -/
inductive SpellsExp : Int → Chars → Prop
  | none : SpellsExp 0 []
  | pos (E : Char) (ds : Chars) : E = 'e' ∨ E = 'E' → ds ≠ [] → AllDigits ds →
      SpellsExp ((digitsVal ds : Nat) : Int) (E :: ds)
  | plus (E : Char) (ds : Chars) : E = 'e' ∨ E = 'E' → ds ≠ [] → AllDigits ds →
      SpellsExp ((digitsVal ds : Nat) : Int) (E :: '+' :: ds)
  | minus (E : Char) (ds : Chars) : E = 'e' ∨ E = 'E' → ds ≠ [] → AllDigits ds →
      SpellsExp (-((digitsVal ds : Nat) : Int)) (E :: '-' :: ds)

/-- `-? int frac? exp?`; the number is the value `numVal` of the literal, which is not an infinity -/
inductive SpellsNum : Num → Chars → Prop
  | pos (ip fr ft : Chars) (e : Int) (et : Chars) :
      IsIntPart ip → SpellsFrac fr ft → SpellsExp e et → (numVal false ip fr e).isInf = false →
      SpellsNum (numVal false ip fr e) (ip ++ (ft ++ et))
  | neg (ip fr ft : Chars) (e : Int) (et : Chars) :
      IsIntPart ip → SpellsFrac fr ft → SpellsExp e et → (numVal true ip fr e).isInf = false →
      SpellsNum (numVal true ip fr e) ('-' :: (ip ++ (ft ++ et)))

mutual
/-- `t` is a JSON text of the value `v` (no white space before or after it) -/
inductive Spells : JVal → Chars → Prop
  | null : Spells .null ['n', 'u', 'l', 'l']
  | tru : Spells (.bool true) ['t', 'r', 'u', 'e']
  | fls : Spells (.bool false) ['f', 'a', 'l', 's', 'e']
  | num (n : Num) (t : Chars) : SpellsNum n t → Spells (.num n) t
  | str (s t : Chars) : SpellsStr s t → Spells (.str s) ('"' :: (t ++ ['"']))
  | arrNil (ws : Chars) : AllWs ws → Spells (.arr .nil) ('[' :: (ws ++ [']']))
  | arr (ws : Chars) (v : JVal) (t : Chars) (l : JList) (tl : Chars) :
      AllWs ws → Spells v t → SpellsTail l tl → Spells (.arr (.cons v l)) ('[' :: (ws ++ (t ++ tl)))
  | objNil (ws : Chars) : AllWs ws → Spells (.obj .nil) ('{' :: (ws ++ ['}']))
  | obj (ws : Chars) (k : Chars) (v : JVal) (t : Chars) (ms : JMembers) (tl : Chars) :
      AllWs ws → SpellsMember k v t → SpellsMTail ms tl →
      Spells (.obj (.cons k v ms)) ('{' :: (ws ++ (t ++ tl)))
/-- what follows an item of an array: the closing `]`, or `,` and the further items -/
inductive SpellsTail : JList → Chars → Prop
  | close (ws : Chars) : AllWs ws → SpellsTail .nil (ws ++ [']'])
  | comma (ws1 ws2 : Chars) (v : JVal) (t : Chars) (l : JList) (tl : Chars) :
      AllWs ws1 → AllWs ws2 → Spells v t → SpellsTail l tl →
      SpellsTail (.cons v l) (ws1 ++ ',' :: (ws2 ++ (t ++ tl)))
/-- a member `"key" : value` -/
inductive SpellsMember : Chars → JVal → Chars → Prop
  | mk (k kt ws1 ws2 : Chars) (v : JVal) (t : Chars) :
      SpellsStr k kt → AllWs ws1 → AllWs ws2 → Spells v t →
      SpellsMember k v ('"' :: (kt ++ '"' :: (ws1 ++ ':' :: (ws2 ++ t))))
/-- what follows a member of an object: the closing `}`, or `,` and the further members -/
inductive SpellsMTail : JMembers → Chars → Prop
  | close (ws : Chars) : AllWs ws → SpellsMTail .nil (ws ++ ['}'])
  | comma (ws1 ws2 : Chars) (k : Chars) (v : JVal) (t : Chars) (ms : JMembers) (tl : Chars) :
      AllWs ws1 → AllWs ws2 → SpellsMember k v t → SpellsMTail ms tl →
      SpellsMTail (.cons k v ms) (ws1 ++ ',' :: (ws2 ++ (t ++ tl)))
end

/-- a stream of JSON texts: white space, then the values each followed by optional white space -/
inductive SpellsStream : List JVal → Chars → Prop
  | nil (ws : Chars) : AllWs ws → SpellsStream [] ws
  | cons (ws : Chars) (v : JVal) (t : Chars) (vs : List JVal) (rest : Chars) :
      AllWs ws → Spells v t → SpellsStream vs rest → SpellsStream (v :: vs) (ws ++ (t ++ rest))

/-! ### white space -/

theorem takeWhile_sat (p : Char → Bool) : ∀ (l : Chars), ∀ c ∈ l.takeWhile p, p c = true := by
  intro l
  induction l with
  | nil => intro c hc; cases hc
  | cons a l ih =>
    intro c hc
    by_cases ha : p a = true
    · simp only [List.takeWhile_cons, ha, if_true, List.mem_cons] at hc
      rcases hc with rfl | hc
      · exact ha
      · exact ih c hc
    · simp [ha] at hc

theorem skipWs_split (cs : Chars) : ∃ ws, AllWs ws ∧ cs = ws ++ skipWs cs :=
  ⟨cs.takeWhile isWs, takeWhile_sat isWs cs, (List.takeWhile_append_dropWhile).symm⟩

theorem skipWs_length_le (cs : Chars) : (skipWs cs).length ≤ cs.length := by
  obtain ⟨ws, _, h⟩ := skipWs_split cs
  have := congrArg List.length h
  simp only [List.length_append] at this
  omega

theorem allWs_nil : AllWs [] := by intro c hc; cases hc

/-! ### strings -/

theorem pStrU_sound (cs : Chars) : ∀ us r, pStrU cs = some (us, r) →
    ∃ t, cs = t ++ '"' :: r ∧ SpellsUnits us t := by
  induction cs using pStrU.induct with
  | case1 => intro us r h; simp [pStrU] at h
  | case2 r =>
    intro us r' h
    rw [pStrU_quote] at h
    simp only [Option.some.injEq, Prod.mk.injEq] at h
    obtain ⟨rfl, rfl⟩ := h
    exact ⟨[], rfl, .nil⟩
  | case3 => intro us r h; simp [pStrU] at h
  | case4 a b c2 d r2 hx => intro us r h; rw [pStrU.eq_def] at h; simp [hx] at h
  | case5 a b c2 d r2 n hx _ ih =>
    intro us r h
    rw [pStrU.eq_def] at h
    simp [hx] at h
    obtain ⟨us', hr, rfl⟩ := h
    obtain ⟨t, rfl, ht⟩ := ih us' r hr
    exact ⟨'\\' :: 'u' :: a :: b :: c2 :: d :: t, rfl, .uni a b c2 d n us' t hx ht⟩
  | case6 r1 hr1 =>
    intro us r h
    rw [pStrU.eq_def] at h
    simp at h
  | case7 e r1 he x hx _ ih =>
    intro us r h
    rw [pStrU.eq_def] at h
    simp [he, hx] at h
    obtain ⟨us', hr, rfl⟩ := h
    obtain ⟨t, rfl, ht⟩ := ih us' r hr
    exact ⟨'\\' :: e :: t, rfl, .esc e x us' t hx ht⟩
  | case8 e r1 he hx => intro us r h; rw [pStrU.eq_def] at h; simp [he, hx] at h
  | case9 c r hc hb hlt => intro us r h; rw [pStrU.eq_def] at h; simp [hc, hb, hlt] at h
  | case10 c r hc hb hlt ih =>
    intro us r' h
    rw [pStrU.eq_def] at h
    simp [hc, hb, hlt] at h
    obtain ⟨us', hr, rfl⟩ := h
    obtain ⟨t, rfl, ht⟩ := ih us' r' hr
    exact ⟨c :: t, rfl, .raw c us' t hc hb hlt ht⟩

/-- the reader of string literals: the consumed characters are a spelling of the string and the
    closing quote -/
theorem pStr_sound (cs s r : Chars) (h : pStr cs = some (s, r)) :
    ∃ t, cs = t ++ '"' :: r ∧ SpellsStr s t := by
  simp only [pStr, Option.map_eq_some_iff, Prod.mk.injEq] at h
  obtain ⟨⟨us, r'⟩, hp, rfl, rfl⟩ := h
  obtain ⟨t, ht, hs⟩ := pStrU_sound cs us r' hp
  exact ⟨t, ht, us, hs, rfl⟩

/-! ### numbers -/

theorem span_split (cs : Chars) :
    cs = cs.takeWhile isDigit ++ cs.dropWhile isDigit ∧ AllDigits (cs.takeWhile isDigit) :=
  ⟨(List.takeWhile_append_dropWhile).symm, takeWhile_sat isDigit cs⟩

theorem scanInt_sound (cs ip r : Chars) (h : scanInt cs = some (ip, r)) :
    cs = ip ++ r ∧ IsIntPart ip := by
  cases cs with
  | nil => simp [scanInt] at h
  | cons c t =>
    simp only [scanInt] at h
    split at h
    · rename_i hc
      simp only [Option.some.injEq, Prod.mk.injEq] at h
      obtain ⟨rfl, rfl⟩ := h
      exact ⟨by simp [hc], Or.inl rfl⟩
    · rename_i hc
      split at h
      · rename_i hd
        simp only [Option.some.injEq, Prod.mk.injEq] at h
        obtain ⟨rfl, rfl⟩ := h
        have := span_split t
        refine ⟨?_, Or.inr ⟨c, _, rfl, hc, hd, this.2⟩⟩
        simp only [List.cons_append]
        rw [← this.1]
      · simp at h

theorem scanFrac_sound (cs fr r : Chars) (h : scanFrac cs = some (fr, r)) :
    ∃ ft, cs = ft ++ r ∧ SpellsFrac fr ft := by
  cases cs with
  | nil =>
    simp only [scanFrac, Option.some.injEq, Prod.mk.injEq] at h
    obtain ⟨rfl, rfl⟩ := h
    exact ⟨[], rfl, .none⟩
  | cons c t =>
    simp only [scanFrac] at h
    split at h
    · rename_i hc
      split at h
      · simp at h
      · rename_i hne
        simp only [Option.some.injEq, Prod.mk.injEq] at h
        obtain ⟨rfl, rfl⟩ := h
        have := span_split t
        refine ⟨'.' :: t.takeWhile isDigit, ?_, .some _ (by simpa using hne) this.2⟩
        simp only [List.cons_append]
        rw [← this.1, hc]
    · simp only [Option.some.injEq, Prod.mk.injEq] at h
      obtain ⟨rfl, rfl⟩ := h
      exact ⟨[], rfl, .none⟩

theorem scanExp_sound (cs r : Chars) (e : Int) (h : scanExp cs = some (e, r)) :
    ∃ et, cs = et ++ r ∧ SpellsExp e et := by
  cases cs with
  | nil =>
    simp only [scanExp, Option.some.injEq, Prod.mk.injEq] at h
    obtain ⟨rfl, rfl⟩ := h
    exact ⟨[], rfl, .none⟩
  | cons c t =>
    simp only [scanExp] at h
    split at h
    · rename_i hc
      split at h
      · simp at h
      · rename_i hne
        simp only [Option.some.injEq, Prod.mk.injEq] at h
        obtain ⟨rfl, rfl⟩ := h
        have hne' : (scanSign t).2.takeWhile isDigit ≠ [] := by simpa using hne
        have hsp := span_split (scanSign t).2
        cases t with
        | nil => simp [scanSign] at hne'
        | cons s t' =>
          simp only [scanSign] at hne' hsp ⊢
          split
          · rename_i hs
            subst hs
            simp only [if_true] at hne' hsp ⊢
            refine ⟨c :: '+' :: t'.takeWhile isDigit, ?_, .plus c _ hc hne' hsp.2⟩
            simp only [List.cons_append]
            rw [← hsp.1]
          · rename_i hs
            split
            · rename_i hm
              subst hm
              simp only [if_neg hs, if_true] at hne' hsp ⊢
              refine ⟨c :: '-' :: t'.takeWhile isDigit, ?_, .minus c _ hc hne' hsp.2⟩
              simp only [List.cons_append]
              rw [← hsp.1]
            · rename_i hm
              simp only [if_neg hs, if_neg hm] at hne' hsp ⊢
              refine ⟨c :: (s :: t').takeWhile isDigit, ?_, .pos c _ hc hne' hsp.2⟩
              simp only [List.cons_append]
              rw [← hsp.1]
    · simp only [Option.some.injEq, Prod.mk.injEq] at h
      obtain ⟨rfl, rfl⟩ := h
      exact ⟨[], rfl, .none⟩

/-- the text does not start with a digit -/
def NoDigit (rest : Chars) : Prop := ∀ c r, rest = c :: r → isDigit c = false

theorem noDigit_dropWhile (l : Chars) : NoDigit (l.dropWhile isDigit) := by
  induction l with
  | nil => intro c r h; simp at h
  | cons a l ih =>
    by_cases ha : isDigit a = true
    · simpa [List.dropWhile_cons, ha] using ih
    · intro c r h
      simp only [List.dropWhile_cons, ha] at h
      simp only [Bool.false_eq_true, if_false, List.cons.injEq] at h
      rw [← h.1]; simpa using ha

theorem noDigit_cons {c : Char} {r : Chars} (h : isDigit c = false) : NoDigit (c :: r) := by
  intro c' r' e
  cases e
  exact h

theorem scanInt_munch (cs ip r : Chars) (h : scanInt cs = some (ip, r)) :
    ip = ['0'] ∨ NoDigit r := by
  cases cs with
  | nil => simp [scanInt] at h
  | cons c t =>
    simp only [scanInt] at h
    split at h
    · simp only [Option.some.injEq, Prod.mk.injEq] at h
      exact Or.inl h.1.symm
    · split at h
      · simp only [Option.some.injEq, Prod.mk.injEq] at h
        rw [← h.2]
        exact Or.inr (noDigit_dropWhile t)
      · simp at h

theorem scanFrac_munch (cs fr r : Chars) (h : scanFrac cs = some (fr, r)) :
    r = cs ∨ NoDigit r := by
  cases cs with
  | nil =>
    simp only [scanFrac, Option.some.injEq, Prod.mk.injEq] at h
    exact Or.inl h.2.symm
  | cons c t =>
    simp only [scanFrac] at h
    split at h
    · split at h
      · simp at h
      · simp only [Option.some.injEq, Prod.mk.injEq] at h
        rw [← h.2]
        exact Or.inr (noDigit_dropWhile t)
    · simp only [Option.some.injEq, Prod.mk.injEq] at h
      exact Or.inl h.2.symm

theorem scanExp_munch (cs r : Chars) (e : Int) (h : scanExp cs = some (e, r)) :
    r = cs ∨ NoDigit r := by
  cases cs with
  | nil =>
    simp only [scanExp, Option.some.injEq, Prod.mk.injEq] at h
    exact Or.inl h.2.symm
  | cons c t =>
    simp only [scanExp] at h
    split at h
    · split at h
      · simp at h
      · simp only [Option.some.injEq, Prod.mk.injEq] at h
        rw [← h.2]
        exact Or.inr (noDigit_dropWhile _)
    · simp only [Option.some.injEq, Prod.mk.injEq] at h
      exact Or.inl h.2.symm

theorem append_eq_right_nil {a b : Chars} (h : b = a ++ b) : a = [] := by
  have := congrArg List.length h
  simp only [List.length_append] at this
  exact List.eq_nil_of_length_eq_zero (by omega)

/-- the parts of the literal; if what remains starts with a digit, the literal is just `0` (a
    leading `0` ends the integer part; everywhere else the digits are read to their end) -/
theorem pUNum_sound (neg : Bool) (cs r : Chars) (n : Num) (h : pUNum neg cs = some (n, r)) :
    ∃ ip fr ft e et, cs = ip ++ (ft ++ et) ++ r ∧ IsIntPart ip ∧ SpellsFrac fr ft ∧ SpellsExp e et ∧
      n = numVal neg ip fr e ∧ (numVal neg ip fr e).isInf = false ∧
      (¬ NoDigit r → ip = ['0'] ∧ ft = [] ∧ et = []) := by
  unfold pUNum at h
  split at h
  · simp at h
  · rename_i ip r1 h1
    split at h
    · simp at h
    · rename_i fr r2 h2
      split at h
      · simp at h
      · rename_i e r3 h3
        simp only at h
        split at h
        · simp at h
        · rename_i hinf
          simp only [Option.some.injEq, Prod.mk.injEq] at h
          obtain ⟨rfl, rfl⟩ := h
          have m1 := scanInt_munch _ _ _ h1
          have m2 := scanFrac_munch _ _ _ h2
          have m3 := scanExp_munch _ _ _ h3
          obtain ⟨rfl, hip⟩ := scanInt_sound _ _ _ h1
          obtain ⟨ft, rfl, hfr⟩ := scanFrac_sound _ _ _ h2
          obtain ⟨et, rfl, hex⟩ := scanExp_sound _ _ _ h3
          refine ⟨ip, fr, ft, e, et, by simp, hip, hfr, hex, rfl, by simpa using hinf, ?_⟩
          intro hnd
          rcases m3 with m3 | m3
          · have het := append_eq_right_nil m3
            subst het
            simp only [List.nil_append] at m2 m1
            rcases m2 with m2 | m2
            · have hft := append_eq_right_nil m2
              subst hft
              simp only [List.nil_append] at m1
              rcases m1 with m1 | m1
              · exact ⟨m1, rfl, rfl⟩
              · exact absurd m1 hnd
            · exact absurd m2 hnd
          · exact absurd m3 hnd

theorem IsIntPart.head {ip : Chars} (h : IsIntPart ip) :
    ∃ c ds, ip = c :: ds ∧ isDigit c = true := by
  rcases h with rfl | ⟨c, ds, rfl, _, hd, _⟩
  · exact ⟨'0', [], rfl, by decide⟩
  · exact ⟨c, ds, rfl, hd⟩

/-- the reader of numbers: the consumed characters are a JSON number with that value; it stops
    before a digit only after the literals `0` and `-0` -/
theorem pNum_sound (cs r : Chars) (n : Num) (h : pNum cs = some (n, r)) :
    ∃ t, cs = t ++ r ∧ SpellsNum n t ∧ (¬ NoDigit r → t = ['0'] ∨ t = ['-', '0']) := by
  cases cs with
  | nil => simp [pNum] at h
  | cons c t =>
    simp only [pNum] at h
    split at h
    · rename_i hc
      obtain ⟨ip, fr, ft, e, et, rfl, hip, hfr, hex, rfl, hinf, hm⟩ := pUNum_sound _ _ _ _ h
      refine ⟨'-' :: (ip ++ (ft ++ et)), by simp [hc], .neg ip fr ft e et hip hfr hex hinf, ?_⟩
      intro hnd
      obtain ⟨rfl, rfl, rfl⟩ := hm hnd
      exact Or.inr rfl
    · obtain ⟨ip, fr, ft, e, et, h1, hip, hfr, hex, rfl, hinf, hm⟩ := pUNum_sound _ _ _ _ h
      refine ⟨ip ++ (ft ++ et), h1, .pos ip fr ft e et hip hfr hex hinf, ?_⟩
      intro hnd
      obtain ⟨rfl, rfl, rfl⟩ := hm hnd
      exact Or.inl rfl

theorem IsIntPart.ne_nil {ip : Chars} (h : IsIntPart ip) : ip ≠ [] := by
  rcases h with rfl | ⟨c, ds, rfl, _⟩ <;> simp

theorem SpellsNum.ne_nil {n : Num} {t : Chars} (h : SpellsNum n t) : t ≠ [] := by
  cases h with
  | pos ip fr ft e et hip => 
    have := hip.ne_nil
    cases ip <;> simp_all
  | neg => simp

/-! ### literal names -/

theorem lit_sound : ∀ (p cs r : Chars), lit p cs = some r → cs = p ++ r := by
  intro p
  induction p with
  | nil => intro cs r h; simp [lit] at h; simp [h]
  | cons a p ih =>
    intro cs r h
    cases cs with
    | nil => simp [lit] at h
    | cons c cs =>
      simp only [lit] at h
      split at h
      · rename_i hac
        rw [ih cs r h, hac]; rfl
      · simp at h

/-! ### values: soundness of the fuel-taking readers -/

/-- maximal munch: a number that is directly followed by a digit is the literal `0` or `-0` (a
    leading `0` ends the integer part, so `01` is `0 1`; everywhere else the digits are read to
    their end, so `12` is never `1 2`) -/
def Munch (v : JVal) (t rest : Chars) : Prop :=
  ∀ n c r, v = .num n → rest = c :: r → isDigit c = true → t = ['0'] ∨ t = ['-', '0']

theorem munch_of_not_num {v : JVal} (h : ∀ n, v ≠ .num n) (t rest : Chars) : Munch v t rest :=
  fun n _ _ e => absurd e (h n)

theorem read_sound (f : Nat) :
    (∀ cs v r, pVal f cs = some (v, r) → ∃ t, cs = t ++ r ∧ Spells v t ∧ Munch v t r) ∧
    (∀ cs l r, pTail f cs = some (l, r) → ∃ t, cs = t ++ r ∧ SpellsTail l t) ∧
    (∀ cs k v r, pMember f cs = some (k, v, r) → ∃ t, cs = t ++ r ∧ SpellsMember k v t) ∧
    (∀ cs ms r, pMTail f cs = some (ms, r) → ∃ t, cs = t ++ r ∧ SpellsMTail ms t) := by
  induction f with
  | zero => simp [pVal, pTail, pMember, pMTail]
  | succ f ih =>
    obtain ⟨ihV, ihT, ihM, ihMT⟩ := ih
    refine ⟨?_, ?_, ?_, ?_⟩
    · intro cs v r h
      cases cs with
      | nil => simp [pVal] at h
      | cons c rest =>
        rw [pVal] at h
        split at h
        · rename_i hc
          subst hc
          obtain ⟨ws, hws, hrest⟩ := skipWs_split rest
          cases hsk : skipWs rest with
          | nil => rw [hsk] at h; simp at h
          | cons c1 r1 =>
            rw [hsk] at h hrest
            simp only at h
            split at h
            · rename_i hc1
              simp only [Option.some.injEq, Prod.mk.injEq] at h
              obtain ⟨rfl, rfl⟩ := h
              exact ⟨'[' :: (ws ++ [']']), by simp [hrest, hc1], .arrNil ws hws, munch_of_not_num (by intro n h; cases h) _ _⟩
            · cases hv : pVal f (c1 :: r1) with
              | none => rw [hv] at h; simp at h
              | some p =>
                obtain ⟨v1, r2⟩ := p
                rw [hv] at h
                simp only [Option.map_eq_some_iff, Prod.mk.injEq] at h
                obtain ⟨⟨l, r3⟩, hl, rfl, rfl⟩ := h
                obtain ⟨t, ht, hsv, _⟩ := ihV _ _ _ hv
                obtain ⟨tl, rfl, hsl⟩ := ihT _ _ _ hl
                refine ⟨'[' :: (ws ++ (t ++ tl)), ?_, .arr ws v1 t l tl hws hsv hsl, munch_of_not_num (by intro n h; cases h) _ _⟩
                rw [hrest, ht]; simp
        · split at h
          · rename_i hc
            subst hc
            obtain ⟨ws, hws, hrest⟩ := skipWs_split rest
            cases hsk : skipWs rest with
            | nil => rw [hsk] at h; simp at h
            | cons c1 r1 =>
              rw [hsk] at h hrest
              simp only at h
              split at h
              · rename_i hc1
                simp only [Option.some.injEq, Prod.mk.injEq] at h
                obtain ⟨rfl, rfl⟩ := h
                exact ⟨'{' :: (ws ++ ['}']), by simp [hrest, hc1], .objNil ws hws, munch_of_not_num (by intro n h; cases h) _ _⟩
              · cases hv : pMember f (c1 :: r1) with
                | none => rw [hv] at h; simp at h
                | some p =>
                  obtain ⟨k, v1, r2⟩ := p
                  rw [hv] at h
                  simp only [Option.map_eq_some_iff, Prod.mk.injEq] at h
                  obtain ⟨⟨l, r3⟩, hl, rfl, rfl⟩ := h
                  obtain ⟨t, ht, hsv⟩ := ihM _ _ _ _ hv
                  obtain ⟨tl, rfl, hsl⟩ := ihMT _ _ _ hl
                  refine ⟨'{' :: (ws ++ (t ++ tl)), ?_, .obj ws k v1 t l tl hws hsv hsl,
                    munch_of_not_num (by intro n h; cases h) _ _⟩
                  rw [hrest, ht]; simp
          · split at h
            · rename_i hc
              subst hc
              simp only [Option.map_eq_some_iff, Prod.mk.injEq] at h
              obtain ⟨⟨s, r'⟩, hs, rfl, rfl⟩ := h
              obtain ⟨t, rfl, hst⟩ := pStr_sound _ _ _ hs
              exact ⟨'"' :: (t ++ ['"']), by simp, .str s t hst, munch_of_not_num (by intro n h; cases h) _ _⟩
            · split at h
              · rename_i hc
                subst hc
                simp only [Option.map_eq_some_iff, Prod.mk.injEq] at h
                obtain ⟨r', hl, rfl, rfl⟩ := h
                exact ⟨['t', 'r', 'u', 'e'], by rw [lit_sound _ _ _ hl]; rfl, .tru,
                  munch_of_not_num (by intro n h; cases h) _ _⟩
              · split at h
                · rename_i hc
                  subst hc
                  simp only [Option.map_eq_some_iff, Prod.mk.injEq] at h
                  obtain ⟨r', hl, rfl, rfl⟩ := h
                  exact ⟨['f', 'a', 'l', 's', 'e'], by rw [lit_sound _ _ _ hl]; rfl, .fls,
                    munch_of_not_num (by intro n h; cases h) _ _⟩
                · split at h
                  · rename_i hc
                    subst hc
                    simp only [Option.map_eq_some_iff, Prod.mk.injEq] at h
                    obtain ⟨r', hl, rfl, rfl⟩ := h
                    exact ⟨['n', 'u', 'l', 'l'], by rw [lit_sound _ _ _ hl]; rfl, .null,
                      munch_of_not_num (by intro n h; cases h) _ _⟩
                  · simp only [Option.map_eq_some_iff, Prod.mk.injEq] at h
                    obtain ⟨⟨n, r'⟩, hn, rfl, rfl⟩ := h
                    obtain ⟨t, ht, hsn, hm⟩ := pNum_sound _ _ _ hn
                    refine ⟨t, ht, .num n t hsn, ?_⟩
                    intro n' c' r'' _ hr' hd
                    exact hm (fun hnd => by rw [hnd c' r'' hr'] at hd; cases hd)
    · intro cs l r h
      rw [pTail] at h
      obtain ⟨ws, hws, hcs⟩ := skipWs_split cs
      cases hsk : skipWs cs with
      | nil => rw [hsk] at h; simp at h
      | cons c r0 =>
        rw [hsk] at h hcs
        simp only at h
        split at h
        · rename_i hc
          subst hc
          obtain ⟨ws2, hws2, hr0⟩ := skipWs_split r0
          cases hv : pVal f (skipWs r0) with
          | none => rw [hv] at h; simp at h
          | some p =>
            obtain ⟨v1, r1⟩ := p
            rw [hv] at h
            simp only [Option.map_eq_some_iff, Prod.mk.injEq] at h
            obtain ⟨⟨l', r2⟩, hl, rfl, rfl⟩ := h
            obtain ⟨t, ht, hsv, _⟩ := ihV _ _ _ hv
            obtain ⟨tl, rfl, hsl⟩ := ihT _ _ _ hl
            refine ⟨ws ++ ',' :: (ws2 ++ (t ++ tl)), ?_, .comma ws ws2 v1 t l' tl hws hws2 hsv hsl⟩
            rw [hcs, hr0, ht]; simp
        · split at h
          · rename_i hc
            subst hc
            simp only [Option.some.injEq, Prod.mk.injEq] at h
            obtain ⟨rfl, rfl⟩ := h
            exact ⟨ws ++ [']'], by rw [hcs]; simp, .close ws hws⟩
          · simp at h
    · intro cs k v r h
      cases cs with
      | nil => simp [pMember] at h
      | cons q r0 =>
        rw [pMember] at h
        split at h
        · rename_i hq
          subst hq
          cases hs : pStr r0 with
          | none => rw [hs] at h; simp at h
          | some p =>
            obtain ⟨k', r1⟩ := p
            rw [hs] at h
            simp only at h
            obtain ⟨kt, rfl, hkt⟩ := pStr_sound _ _ _ hs
            obtain ⟨ws1, hws1, hr1⟩ := skipWs_split r1
            cases hsk : skipWs r1 with
            | nil => rw [hsk] at h; simp at h
            | cons c r2 =>
              rw [hsk] at h hr1
              simp only at h
              split at h
              · rename_i hc
                subst hc
                obtain ⟨ws2, hws2, hr2⟩ := skipWs_split r2
                cases hv : pVal f (skipWs r2) with
                | none => rw [hv] at h; simp at h
                | some p =>
                  obtain ⟨v1, r3⟩ := p
                  rw [hv] at h
                  simp only [Option.some.injEq, Prod.mk.injEq] at h
                  obtain ⟨rfl, rfl, rfl⟩ := h
                  obtain ⟨t, ht, hsv, _⟩ := ihV _ _ _ hv
                  refine ⟨'"' :: (kt ++ '"' :: (ws1 ++ ':' :: (ws2 ++ t))), ?_,
                    .mk k' kt ws1 ws2 v1 t hkt hws1 hws2 hsv⟩
                  rw [hr1, hr2, ht]; simp
              · simp at h
        · simp at h
    · intro cs ms r h
      rw [pMTail] at h
      obtain ⟨ws, hws, hcs⟩ := skipWs_split cs
      cases hsk : skipWs cs with
      | nil => rw [hsk] at h; simp at h
      | cons c r0 =>
        rw [hsk] at h hcs
        simp only at h
        split at h
        · rename_i hc
          subst hc
          obtain ⟨ws2, hws2, hr0⟩ := skipWs_split r0
          cases hv : pMember f (skipWs r0) with
          | none => rw [hv] at h; simp at h
          | some p =>
            obtain ⟨k, v1, r1⟩ := p
            rw [hv] at h
            simp only [Option.map_eq_some_iff, Prod.mk.injEq] at h
            obtain ⟨⟨l', r2⟩, hl, rfl, rfl⟩ := h
            obtain ⟨t, ht, hsv⟩ := ihM _ _ _ _ hv
            obtain ⟨tl, rfl, hsl⟩ := ihMT _ _ _ hl
            refine ⟨ws ++ ',' :: (ws2 ++ (t ++ tl)), ?_,
              .comma ws ws2 k v1 t l' tl hws hws2 hsv hsl⟩
            rw [hcs, hr0, ht]; simp
        · split at h
          · rename_i hc
            subst hc
            simp only [Option.some.injEq, Prod.mk.injEq] at h
            obtain ⟨rfl, rfl⟩ := h
            exact ⟨ws ++ ['}'], by rw [hcs]; simp, .close ws hws⟩
          · simp at h

theorem pVal_sound_munch (f : Nat) (cs : Chars) (v : JVal) (r : Chars)
    (h : pVal f cs = some (v, r)) : ∃ t, cs = t ++ r ∧ Spells v t ∧ Munch v t r :=
  (read_sound f).1 cs v r h

theorem pVal_sound (f : Nat) (cs : Chars) (v : JVal) (r : Chars) (h : pVal f cs = some (v, r)) :
    ∃ t, cs = t ++ r ∧ Spells v t := by
  obtain ⟨t, h1, h2, _⟩ := pVal_sound_munch f cs v r h
  exact ⟨t, h1, h2⟩

theorem pTail_sound (f : Nat) (cs : Chars) (l : JList) (r : Chars) (h : pTail f cs = some (l, r)) :
    ∃ t, cs = t ++ r ∧ SpellsTail l t := (read_sound f).2.1 cs l r h

theorem pMember_sound (f : Nat) (cs k : Chars) (v : JVal) (r : Chars)
    (h : pMember f cs = some (k, v, r)) : ∃ t, cs = t ++ r ∧ SpellsMember k v t :=
  (read_sound f).2.2.1 cs k v r h

theorem pMTail_sound (f : Nat) (cs : Chars) (ms : JMembers) (r : Chars)
    (h : pMTail f cs = some (ms, r)) : ∃ t, cs = t ++ r ∧ SpellsMTail ms t :=
  (read_sound f).2.2.2 cs ms r h

/-- the stream reader with any fuel: what it accepts is a stream of JSON texts of what it returns -/
theorem pTop_sound : ∀ (f : Nat) (cs : Chars) (vs : List JVal), pTop f cs = some vs →
    SpellsStream vs cs := by
  intro f
  induction f with
  | zero => intro cs vs h; simp [pTop] at h
  | succ f ih =>
    intro cs vs h
    rw [pTop] at h
    obtain ⟨ws, hws, hcs⟩ := skipWs_split cs
    cases hsk : skipWs cs with
    | nil =>
      rw [hsk] at h hcs
      simp only [Option.some.injEq] at h
      subst h
      rw [hcs, List.append_nil]
      exact .nil ws hws
    | cons c r =>
      rw [hsk] at h hcs
      simp only at h
      cases hv : pVal (f + 1) (c :: r) with
      | none => rw [hv] at h; simp at h
      | some p =>
        obtain ⟨v, r'⟩ := p
        rw [hv] at h
        simp only [Option.map_eq_some_iff] at h
        obtain ⟨vs', hvs, rfl⟩ := h
        obtain ⟨t, ht, hsv⟩ := pVal_sound _ _ _ _ hv
        rw [hcs, ht]
        exact .cons ws v t vs' r' hws hsv (ih r' vs' hvs)

/-- **parseText_sound** — an accepted text is a stream of JSON texts of the returned values: every
    character belongs to the spelling of a value or is white space where the grammar allows it -/
theorem parseText_sound (cs : Chars) (vs : List JVal) (h : parseText cs = some vs) :
    SpellsStream vs cs := pTop_sound _ cs vs h

/-! ### every spelling has at least one character -/

theorem Spells.length_pos {v : JVal} {t : Chars} (h : Spells v t) : 0 < t.length := by
  cases h with
  | num n t hn =>
    have := hn.ne_nil
    cases t with
    | nil => exact absurd rfl this
    | cons => simp
  | _ => simp

theorem SpellsTail.length_pos {l : JList} {t : Chars} (h : SpellsTail l t) : 0 < t.length := by
  cases h <;> simp <;> omega

theorem SpellsMember.length_pos {k : Chars} {v : JVal} {t : Chars} (h : SpellsMember k v t) :
    0 < t.length := by
  cases h; simp

theorem SpellsMTail.length_pos {l : JMembers} {t : Chars} (h : SpellsMTail l t) : 0 < t.length := by
  cases h <;> simp <;> omega

theorem pVal_length (f : Nat) (cs : Chars) (v : JVal) (r : Chars) (h : pVal f cs = some (v, r)) :
    r.length < cs.length := by
  obtain ⟨t, rfl, ht⟩ := pVal_sound f cs v r h
  have := ht.length_pos
  simp only [List.length_append]; omega

theorem pTail_length (f : Nat) (cs : Chars) (l : JList) (r : Chars) (h : pTail f cs = some (l, r)) :
    r.length < cs.length := by
  obtain ⟨t, rfl, ht⟩ := pTail_sound f cs l r h
  have := ht.length_pos
  simp only [List.length_append]; omega

theorem pMember_length (f : Nat) (cs k : Chars) (v : JVal) (r : Chars)
    (h : pMember f cs = some (k, v, r)) : r.length < cs.length := by
  obtain ⟨t, rfl, ht⟩ := pMember_sound f cs k v r h
  have := ht.length_pos
  simp only [List.length_append]; omega

theorem pMTail_length (f : Nat) (cs : Chars) (ms : JMembers) (r : Chars)
    (h : pMTail f cs = some (ms, r)) : r.length < cs.length := by
  obtain ⟨t, rfl, ht⟩ := pMTail_sound f cs ms r h
  have := ht.length_pos
  simp only [List.length_append]; omega

/-! ### the fuel: the number of consumed characters is enough -/

theorem read_adequate (f : Nat) :
    (∀ cs v r, pVal f cs = some (v, r) → ∀ g, cs.length ≤ r.length + g → pVal g cs = some (v, r)) ∧
    (∀ cs l r, pTail f cs = some (l, r) → ∀ g, cs.length ≤ r.length + g → pTail g cs = some (l, r)) ∧
    (∀ cs k v r, pMember f cs = some (k, v, r) → ∀ g, cs.length ≤ r.length + g →
      pMember g cs = some (k, v, r)) ∧
    (∀ cs ms r, pMTail f cs = some (ms, r) → ∀ g, cs.length ≤ r.length + g →
      pMTail g cs = some (ms, r)) := by
  induction f with
  | zero => simp [pVal, pTail, pMember, pMTail]
  | succ f ih =>
    obtain ⟨ihV, ihT, ihM, ihMT⟩ := ih
    refine ⟨?_, ?_, ?_, ?_⟩
    · intro cs v r h g hg
      have hlen := pVal_length _ _ _ _ h
      obtain ⟨g, rfl⟩ : ∃ g', g = g' + 1 := ⟨g - 1, by omega⟩
      cases cs with
      | nil => simp [pVal] at h
      | cons c rest =>
        rw [pVal] at h ⊢
        split at h
        · rename_i hc
          subst hc
          have hle := skipWs_length_le rest
          rw [if_pos rfl]
          cases hsk : skipWs rest with
          | nil => rw [hsk] at h; simp at h
          | cons c1 r1 =>
            rw [hsk] at h hle
            simp only at h ⊢
            split at h
            · rename_i hc1
              rw [if_pos hc1]; exact h
            · rename_i hc1
              rw [if_neg hc1]
              cases hv : pVal f (c1 :: r1) with
              | none => rw [hv] at h; simp at h
              | some p =>
                obtain ⟨v1, r2⟩ := p
                rw [hv] at h
                simp only [Option.map_eq_some_iff, Prod.mk.injEq] at h
                obtain ⟨⟨l, r3⟩, hl, rfl, rfl⟩ := h
                have h1 := pVal_length _ _ _ _ hv
                have h2 := pTail_length _ _ _ _ hl
                simp only [List.length_cons] at hg hle h1
                rw [ihV _ _ _ hv g (by simp only [List.length_cons]; omega)]
                simp only
                rw [ihT _ _ _ hl g (by omega)]
                rfl
        · rename_i hb
          rw [if_neg hb]
          split at h
          · rename_i hc
            subst hc
            have hle := skipWs_length_le rest
            rw [if_pos rfl]
            cases hsk : skipWs rest with
            | nil => rw [hsk] at h; simp at h
            | cons c1 r1 =>
              rw [hsk] at h hle
              simp only at h ⊢
              split at h
              · rename_i hc1
                rw [if_pos hc1]; exact h
              · rename_i hc1
                rw [if_neg hc1]
                cases hv : pMember f (c1 :: r1) with
                | none => rw [hv] at h; simp at h
                | some p =>
                  obtain ⟨k, v1, r2⟩ := p
                  rw [hv] at h
                  simp only [Option.map_eq_some_iff, Prod.mk.injEq] at h
                  obtain ⟨⟨l, r3⟩, hl, rfl, rfl⟩ := h
                  have h1 := pMember_length _ _ _ _ _ hv
                  have h2 := pMTail_length _ _ _ _ hl
                  simp only [List.length_cons] at hg hle h1
                  rw [ihM _ _ _ _ hv g (by simp only [List.length_cons]; omega)]
                  simp only
                  rw [ihMT _ _ _ hl g (by omega)]
                  rfl
          · rename_i hc
            rw [if_neg hc]
            exact h
    · intro cs l r h g hg
      have hlen := pTail_length _ _ _ _ h
      obtain ⟨g, rfl⟩ : ∃ g', g = g' + 1 := ⟨g - 1, by omega⟩
      rw [pTail] at h ⊢
      have hle := skipWs_length_le cs
      cases hsk : skipWs cs with
      | nil => rw [hsk] at h; simp at h
      | cons c r0 =>
        rw [hsk] at h hle
        simp only at h ⊢
        split at h
        · rename_i hc
          rw [if_pos hc]
          have hle2 := skipWs_length_le r0
          cases hv : pVal f (skipWs r0) with
          | none => rw [hv] at h; simp at h
          | some p =>
            obtain ⟨v1, r1⟩ := p
            rw [hv] at h
            simp only [Option.map_eq_some_iff, Prod.mk.injEq] at h
            obtain ⟨⟨l', r2⟩, hl, rfl, rfl⟩ := h
            have h1 := pVal_length _ _ _ _ hv
            have h2 := pTail_length _ _ _ _ hl
            simp only [List.length_cons] at hle hg
            rw [ihV _ _ _ hv g (by omega)]
            simp only
            rw [ihT _ _ _ hl g (by omega)]
            rfl
        · rename_i hc
          rw [if_neg hc]
          exact h
    · intro cs k v r h g hg
      have hlen := pMember_length _ _ _ _ _ h
      obtain ⟨g, rfl⟩ : ∃ g', g = g' + 1 := ⟨g - 1, by omega⟩
      cases cs with
      | nil => simp [pMember] at h
      | cons q r0 =>
        rw [pMember] at h ⊢
        split at h
        · rename_i hq
          rw [if_pos hq]
          cases hs : pStr r0 with
          | none => rw [hs] at h; simp at h
          | some p =>
            obtain ⟨k', r1⟩ := p
            rw [hs] at h
            simp only at h ⊢
            obtain ⟨kt, hkt, _⟩ := pStr_sound _ _ _ hs
            have hl0 := congrArg List.length hkt
            simp only [List.length_append, List.length_cons] at hl0
            have hle := skipWs_length_le r1
            cases hsk : skipWs r1 with
            | nil => rw [hsk] at h; simp at h
            | cons c r2 =>
              rw [hsk] at h hle
              simp only at h ⊢
              split at h
              · rename_i hc
                rw [if_pos hc]
                have hle2 := skipWs_length_le r2
                cases hv : pVal f (skipWs r2) with
                | none => rw [hv] at h; simp at h
                | some p =>
                  obtain ⟨v1, r3⟩ := p
                  rw [hv] at h
                  simp only [Option.some.injEq, Prod.mk.injEq] at h
                  obtain ⟨rfl, rfl, rfl⟩ := h
                  simp only [List.length_cons] at hle hg
                  rw [ihV _ _ _ hv g (by omega)]
              · simp at h
        · simp at h
    · intro cs ms r h g hg
      have hlen := pMTail_length _ _ _ _ h
      obtain ⟨g, rfl⟩ : ∃ g', g = g' + 1 := ⟨g - 1, by omega⟩
      rw [pMTail] at h ⊢
      have hle := skipWs_length_le cs
      cases hsk : skipWs cs with
      | nil => rw [hsk] at h; simp at h
      | cons c r0 =>
        rw [hsk] at h hle
        simp only at h ⊢
        split at h
        · rename_i hc
          rw [if_pos hc]
          have hle2 := skipWs_length_le r0
          cases hv : pMember f (skipWs r0) with
          | none => rw [hv] at h; simp at h
          | some p =>
            obtain ⟨k, v1, r1⟩ := p
            rw [hv] at h
            simp only [Option.map_eq_some_iff, Prod.mk.injEq] at h
            obtain ⟨⟨l', r2⟩, hl, rfl, rfl⟩ := h
            have h1 := pMember_length _ _ _ _ _ hv
            have h2 := pMTail_length _ _ _ _ hl
            simp only [List.length_cons] at hle hg
            rw [ihM _ _ _ _ hv g (by omega)]
            simp only
            rw [ihMT _ _ _ hl g (by omega)]
            rfl
        · rename_i hc
          rw [if_neg hc]
          exact h

/-! ### more fuel never changes an answer -/

theorem read_mono (f : Nat) :
    (∀ cs x, pVal f cs = some x → pVal (f + 1) cs = some x) ∧
    (∀ cs x, pTail f cs = some x → pTail (f + 1) cs = some x) ∧
    (∀ cs x, pMember f cs = some x → pMember (f + 1) cs = some x) ∧
    (∀ cs x, pMTail f cs = some x → pMTail (f + 1) cs = some x) := by
  induction f with
  | zero =>
    refine ⟨?_, ?_, ?_, ?_⟩ <;> intro cs x h <;> simp [pVal, pTail, pMember, pMTail] at h
  | succ f ih =>
    obtain ⟨ihV, ihT, ihM, ihMT⟩ := ih
    refine ⟨?_, ?_, ?_, ?_⟩
    · intro cs x h
      cases cs with
      | nil => simp [pVal] at h
      | cons c rest =>
        rw [pVal] at h ⊢
        split at h
        · rename_i hc
          rw [if_pos hc]
          cases hsk : skipWs rest with
          | nil => rw [hsk] at h; simp at h
          | cons c1 r1 =>
            rw [hsk] at h
            simp only at h ⊢
            split at h
            · rename_i hc1
              rw [if_pos hc1]; exact h
            · rename_i hc1
              rw [if_neg hc1]
              cases hv : pVal f (c1 :: r1) with
              | none => rw [hv] at h; simp at h
              | some p =>
                rw [hv] at h
                rw [ihV _ _ hv]
                simp only at h ⊢
                cases ht : pTail f p.2 with
                | none => rw [ht] at h; simp at h
                | some q => rw [ht] at h; rw [ihT _ _ ht]; exact h
        · rename_i hb
          rw [if_neg hb]
          split at h
          · rename_i hc
            rw [if_pos hc]
            cases hsk : skipWs rest with
            | nil => rw [hsk] at h; simp at h
            | cons c1 r1 =>
              rw [hsk] at h
              simp only at h ⊢
              split at h
              · rename_i hc1
                rw [if_pos hc1]; exact h
              · rename_i hc1
                rw [if_neg hc1]
                cases hv : pMember f (c1 :: r1) with
                | none => rw [hv] at h; simp at h
                | some p =>
                  rw [hv] at h
                  rw [ihM _ _ hv]
                  simp only at h ⊢
                  cases ht : pMTail f p.2.2 with
                  | none => rw [ht] at h; simp at h
                  | some q => rw [ht] at h; rw [ihMT _ _ ht]; exact h
          · rename_i hc
            rw [if_neg hc]
            exact h
    · intro cs x h
      rw [pTail] at h ⊢
      cases hsk : skipWs cs with
      | nil => rw [hsk] at h; simp at h
      | cons c r0 =>
        rw [hsk] at h
        simp only at h ⊢
        split at h
        · rename_i hc
          rw [if_pos hc]
          cases hv : pVal f (skipWs r0) with
          | none => rw [hv] at h; simp at h
          | some p =>
            rw [hv] at h
            rw [ihV _ _ hv]
            simp only at h ⊢
            cases ht : pTail f p.2 with
            | none => rw [ht] at h; simp at h
            | some q => rw [ht] at h; rw [ihT _ _ ht]; exact h
        · rename_i hc
          rw [if_neg hc]
          exact h
    · intro cs x h
      cases cs with
      | nil => simp [pMember] at h
      | cons q r0 =>
        rw [pMember] at h ⊢
        split at h
        · rename_i hq
          rw [if_pos hq]
          cases hs : pStr r0 with
          | none => rw [hs] at h; simp at h
          | some p =>
            rw [hs] at h
            simp only at h ⊢
            cases hsk : skipWs p.2 with
            | nil => rw [hsk] at h; simp at h
            | cons c r2 =>
              rw [hsk] at h
              simp only at h ⊢
              split at h
              · rename_i hc
                rw [if_pos hc]
                cases hv : pVal f (skipWs r2) with
                | none => rw [hv] at h; simp at h
                | some p' => rw [hv] at h; rw [ihV _ _ hv]; exact h
              · simp at h
        · simp at h
    · intro cs x h
      rw [pMTail] at h ⊢
      cases hsk : skipWs cs with
      | nil => rw [hsk] at h; simp at h
      | cons c r0 =>
        rw [hsk] at h
        simp only at h ⊢
        split at h
        · rename_i hc
          rw [if_pos hc]
          cases hv : pMember f (skipWs r0) with
          | none => rw [hv] at h; simp at h
          | some p =>
            rw [hv] at h
            rw [ihM _ _ hv]
            simp only at h ⊢
            cases ht : pMTail f p.2.2 with
            | none => rw [ht] at h; simp at h
            | some q => rw [ht] at h; rw [ihMT _ _ ht]; exact h
        · rename_i hc
          rw [if_neg hc]
          exact h

theorem pVal_mono {f g : Nat} (hfg : f ≤ g) (cs : Chars) (x : JVal × Chars)
    (h : pVal f cs = some x) : pVal g cs = some x := by
  induction hfg with
  | refl => exact h
  | step _ ih => exact (read_mono _).1 cs x ih

theorem pTail_mono {f g : Nat} (hfg : f ≤ g) (cs : Chars) (x : JList × Chars)
    (h : pTail f cs = some x) : pTail g cs = some x := by
  induction hfg with
  | refl => exact h
  | step _ ih => exact (read_mono _).2.1 cs x ih

theorem pMember_mono {f g : Nat} (hfg : f ≤ g) (cs : Chars) (x : Chars × JVal × Chars)
    (h : pMember f cs = some x) : pMember g cs = some x := by
  induction hfg with
  | refl => exact h
  | step _ ih => exact (read_mono _).2.2.1 cs x ih

theorem pMTail_mono {f g : Nat} (hfg : f ≤ g) (cs : Chars) (x : JMembers × Chars)
    (h : pMTail f cs = some x) : pMTail g cs = some x := by
  induction hfg with
  | refl => exact h
  | step _ ih => exact (read_mono _).2.2.2 cs x ih

theorem pTop_mono_succ : ∀ (f : Nat) (cs : Chars) (vs : List JVal), pTop f cs = some vs →
    pTop (f + 1) cs = some vs := by
  intro f
  induction f with
  | zero => intro cs vs h; simp [pTop] at h
  | succ f ih =>
    intro cs vs h
    rw [pTop] at h ⊢
    cases hsk : skipWs cs with
    | nil => rw [hsk] at h; exact h
    | cons c r =>
      rw [hsk] at h
      simp only at h ⊢
      cases hv : pVal (f + 1) (c :: r) with
      | none => rw [hv] at h; simp at h
      | some p =>
        rw [hv] at h
        rw [(read_mono _).1 _ _ hv]
        simp only at h ⊢
        cases ht : pTop f p.2 with
        | none => rw [ht] at h; simp at h
        | some q => rw [ht] at h; rw [ih _ _ ht]; exact h

theorem pTop_mono {f g : Nat} (hfg : f ≤ g) (cs : Chars) (vs : List JVal)
    (h : pTop f cs = some vs) : pTop g cs = some vs := by
  induction hfg with
  | refl => exact h
  | step _ ih => exact pTop_mono_succ _ cs vs ih

/-! ### the number of consumed characters is enough fuel -/

/-- a value that is read with some fuel is read with every fuel that is at least the number of
    characters it spans -/
theorem pVal_adequate (f : Nat) (cs : Chars) (v : JVal) (r : Chars) (h : pVal f cs = some (v, r))
    (g : Nat) (hg : cs.length ≤ r.length + g) : pVal g cs = some (v, r) :=
  (read_adequate f).1 cs v r h g hg

/-- the stream reader: every fuel above the length of the text is enough -/
theorem pTop_adequate : ∀ (f : Nat) (cs : Chars) (vs : List JVal), pTop f cs = some vs →
    ∀ g, cs.length < g → pTop g cs = some vs := by
  intro f
  induction f with
  | zero => intro cs vs h; simp [pTop] at h
  | succ f ih =>
    intro cs vs h g hg
    obtain ⟨g, rfl⟩ : ∃ g', g = g' + 1 := ⟨g - 1, by omega⟩
    rw [pTop] at h ⊢
    have hle := skipWs_length_le cs
    cases hsk : skipWs cs with
    | nil => rw [hsk] at h; exact h
    | cons c r =>
      rw [hsk] at h hle
      simp only at h ⊢
      cases hv : pVal (f + 1) (c :: r) with
      | none => rw [hv] at h; simp at h
      | some p =>
        obtain ⟨v, r'⟩ := p
        rw [hv] at h
        simp only [Option.map_eq_some_iff] at h
        obtain ⟨vs', hvs, rfl⟩ := h
        have h1 := pVal_length _ _ _ _ hv
        rw [pVal_adequate _ _ _ _ hv (g + 1) (by omega)]
        simp only
        rw [ih r' vs' hvs g (by omega)]
        rfl

/-- **parseText_fuel_adequate** — the fuel of `parseText` is enough for EVERY text: whatever the
    stream reader `pTop` reads with any amount of fuel, `parseText` reads (and conversely) -/
theorem parseText_fuel_adequate (cs : Chars) (vs : List JVal) :
    (∃ f, pTop f cs = some vs) ↔ parseText cs = some vs :=
  ⟨fun ⟨f, h⟩ => pTop_adequate f cs vs h _ (Nat.lt_succ_self _), fun h => ⟨_, h⟩⟩

/-- the answer does not depend on the fuel: two successful runs agree -/
theorem pTop_fuel_irrelevant (f g : Nat) (cs : Chars) (vs ws : List JVal)
    (h1 : pTop f cs = some vs) (h2 : pTop g cs = some ws) : vs = ws := by
  have a := pTop_adequate f cs vs h1 _ (Nat.lt_succ_self _)
  have b := pTop_adequate g cs ws h2 _ (Nat.lt_succ_self _)
  rw [a] at b
  exact Option.some.inj b

/-! ### completeness: the reader reads every spelling -/

theorem simpleEsc_ne_u {e x : Char} (h : simpleEsc e = some x) : e ≠ 'u' := by
  rintro rfl
  simp [simpleEsc] at h

theorem pStrU_complete {us : List SUnit} {t : Chars} (h : SpellsUnits us t) (r : Chars) :
    pStrU (t ++ '"' :: r) = some (us, r) := by
  induction h with
  | nil => exact pStrU_quote r
  | raw c us t hc hb hlt _ ih =>
    simp only [List.cons_append]
    rw [pStrU.eq_def]
    simp [hc, hb, hlt, ih]
  | esc e x us t hx _ ih =>
    have := simpleEsc_ne_u hx
    simp only [List.cons_append]
    rw [pStrU.eq_def]
    simp [this, hx, ih]
  | uni a b c d n us t hx _ ih =>
    simp only [List.cons_append]
    rw [pStrU.eq_def]
    simp [hx, ih]

theorem pStr_complete {s t : Chars} (h : SpellsStr s t) (r : Chars) :
    pStr (t ++ '"' :: r) = some (s, r) := by
  obtain ⟨us, hu, rfl⟩ := h
  simp [pStr, pStrU_complete hu r]

theorem span_allDigits (ds rest : Chars) (hds : AllDigits ds) (hr : NoDigit rest) :
    (ds ++ rest).takeWhile isDigit = ds ∧ (ds ++ rest).dropWhile isDigit = rest := by
  rw [List.takeWhile_append_of_pos hds, List.dropWhile_append_of_pos hds]
  cases rest with
  | nil => simp
  | cons c r => simp [hr c r rfl]

theorem scanInt_complete (ip rest : Chars) (hip : IsIntPart ip) (h : ip = ['0'] ∨ NoDigit rest) :
    scanInt (ip ++ rest) = some (ip, rest) := by
  rcases hip with rfl | ⟨c, ds, rfl, hc0, hd, hds⟩
  · simp [scanInt]
  · have hr : NoDigit rest := by
      rcases h with h | h
      · simp only [List.cons.injEq] at h
        exact absurd h.1 hc0
      · exact h
    have hsp := span_allDigits ds rest hds hr
    simp [scanInt, hc0, hd, hsp.1, hsp.2]

theorem scanFrac_complete (fr ft rest : Chars) (h : SpellsFrac fr ft)
    (h1 : ft = [] → ∀ c r, rest = c :: r → c ≠ '.') (h2 : ft ≠ [] → NoDigit rest) :
    scanFrac (ft ++ rest) = some (fr, rest) := by
  cases h with
  | none =>
    cases rest with
    | nil => rfl
    | cons c r => simp [scanFrac, h1 rfl c r rfl]
  | some _ hne hds =>
    have hsp := span_allDigits fr rest hds (h2 (by simp))
    simp only [List.cons_append, scanFrac, if_true, hsp.1, hsp.2]
    cases fr with
    | nil => exact absurd rfl hne
    | cons => simp

theorem scanSign_digit (ds rest : Chars) (hne : ds ≠ []) (hds : AllDigits ds) :
    scanSign (ds ++ rest) = (false, ds ++ rest) := by
  cases ds with
  | nil => exact absurd rfl hne
  | cons d ds =>
    have hd : isDigit d = true := hds d (by simp)
    have h1 : d ≠ '+' := by rintro rfl; exact absurd hd (by decide)
    have h2 : d ≠ '-' := by rintro rfl; exact absurd hd (by decide)
    simp [scanSign, h1, h2]

theorem scanExp_complete (e : Int) (et rest : Chars) (h : SpellsExp e et)
    (h1 : et = [] → ∀ c r, rest = c :: r → c ≠ 'e' ∧ c ≠ 'E') (h2 : et ≠ [] → NoDigit rest) :
    scanExp (et ++ rest) = some (e, rest) := by
  cases h with
  | none =>
    cases rest with
    | nil => rfl
    | cons c r =>
      have := h1 rfl c r rfl
      simp [scanExp, this.1, this.2]
  | pos E ds hE hne hds =>
    have hsp := span_allDigits ds rest hds (h2 (by simp))
    simp only [List.cons_append, scanExp, hE, if_true, scanSign_digit ds rest hne hds, hsp.1, hsp.2]
    cases ds with
    | nil => exact absurd rfl hne
    | cons => simp
  | plus E ds hE hne hds =>
    have hsp := span_allDigits ds rest hds (h2 (by simp))
    simp only [List.cons_append, scanExp, hE, if_true, scanSign, hsp.1, hsp.2]
    cases ds with
    | nil => exact absurd rfl hne
    | cons => simp
  | minus E ds hE hne hds =>
    have hsp := span_allDigits ds rest hds (h2 (by simp))
    have : ('-' : Char) ≠ '+' := by decide
    simp only [List.cons_append, scanExp, hE, if_true, scanSign, if_neg this, hsp.1, hsp.2]
    cases ds with
    | nil => exact absurd rfl hne
    | cons => simp

theorem not_digit_of_eE {c : Char} (h : c = 'e' ∨ c = 'E') : isDigit c = false := by
  rcases h with rfl | rfl <;> decide

theorem SpellsFrac.head {fr ft : Chars} (h : SpellsFrac fr ft) : ∀ c r, ft = c :: r → c = '.' := by
  intro c r e
  cases h with
  | none => cases e
  | some _ _ _ => simp only [List.cons.injEq] at e; exact e.1.symm

theorem SpellsExp.head {e : Int} {et : Chars} (h : SpellsExp e et) :
    ∀ c r, et = c :: r → c = 'e' ∨ c = 'E' := by
  intro c r he
  cases h with
  | none => cases he
  | pos E ds hE | plus E ds hE | minus E ds hE =>
    simp only [List.cons.injEq] at he; rw [← he.1]; exact hE

/-- a literal with the parts `ip`, `ft`, `et` is read when what follows cannot continue it: it does
    not start with `.`, `e`, `E`, and it starts with a digit only after the literal `0` -/
theorem pUNum_complete (neg : Bool) (ip fr ft : Chars) (e : Int) (et rest : Chars)
    (hip : IsIntPart ip) (hfr : SpellsFrac fr ft) (hex : SpellsExp e et)
    (hinf : (numVal neg ip fr e).isInf = false)
    (hr : ∀ c r, rest = c :: r → c ≠ '.' ∧ c ≠ 'e' ∧ c ≠ 'E' ∧
      (isDigit c = true → ip = ['0'] ∧ ft = [] ∧ et = [])) :
    pUNum neg (ip ++ (ft ++ et) ++ rest) = some (numVal neg ip fr e, rest) := by
  have hF := hfr.head
  have hE := hex.head
  have hrest : ∀ (P : Prop), (ip = ['0'] ∧ ft = [] ∧ et = [] → P) → P ∨ NoDigit rest := by
    intro P hP
    cases rest with
    | nil => right; intro c r h; cases h
    | cons c r =>
      by_cases hd : isDigit c = true
      · exact Or.inl (hP ((hr c r rfl).2.2.2 hd))
      · exact Or.inr (noDigit_cons (by simpa using hd))
  have hA : ip = ['0'] ∨ NoDigit (ft ++ (et ++ rest)) := by
    cases ft with
    | nil =>
      cases et with
      | nil => exact hrest _ (fun h => h.1)
      | cons c r => exact Or.inr (noDigit_cons (not_digit_of_eE (hE c r rfl)))
    | cons c r =>
      have := hF c r rfl
      subst this
      exact Or.inr (noDigit_cons (by decide))
  have hB1 : ft = [] → ∀ c r, et ++ rest = c :: r → c ≠ '.' := by
    intro _ c r h
    cases et with
    | nil => exact (hr c r h).1
    | cons c' r' =>
      simp only [List.cons_append, List.cons.injEq] at h
      rw [← h.1]
      rcases hE c' r' rfl with rfl | rfl <;> decide
  have hB2 : ft ≠ [] → NoDigit (et ++ rest) := by
    intro hne
    cases et with
    | nil =>
      rcases hrest (ft = []) (fun h => h.2.1) with h | h
      · exact absurd h hne
      · exact h
    | cons c r => exact noDigit_cons (not_digit_of_eE (hE c r rfl))
  have hC1 : et = [] → ∀ c r, rest = c :: r → c ≠ 'e' ∧ c ≠ 'E' :=
    fun _ c r h => ⟨(hr c r h).2.1, (hr c r h).2.2.1⟩
  have hC2 : et ≠ [] → NoDigit rest := by
    intro hne
    rcases hrest (et = []) (fun h => h.2.2) with h | h
    · exact absurd h hne
    · exact h
  unfold pUNum
  simp only [List.append_assoc]
  rw [scanInt_complete ip _ hip hA]
  simp only
  rw [scanFrac_complete fr ft _ hfr hB1 hB2]
  simp only
  rw [scanExp_complete e et rest hex hC1 hC2]
  simp [hinf]

/-- what may follow the number literal `t`: not `.`, `e`, `E`, and a digit only after `0` or `-0` -/
def NumFollow (t rest : Chars) : Prop :=
  ∀ c r, rest = c :: r → c ≠ '.' ∧ c ≠ 'e' ∧ c ≠ 'E' ∧ (isDigit c = true → t = ['0'] ∨ t = ['-', '0'])

theorem IsIntPart.append_zero {ip x : Chars} (h : IsIntPart ip) (e : ip ++ x = ['0']) :
    ip = ['0'] ∧ x = [] := by
  obtain ⟨c, ds, rfl, _⟩ := h.head
  simp only [List.cons_append, List.cons.injEq, List.append_eq_nil_iff] at e
  obtain ⟨rfl, rfl, rfl⟩ := e
  exact ⟨rfl, rfl⟩

theorem IsIntPart.append_ne_minus {ip x y : Chars} (h : IsIntPart ip) : ip ++ x ≠ '-' :: y := by
  obtain ⟨c, ds, rfl, hd⟩ := h.head
  intro e
  simp only [List.cons_append, List.cons.injEq] at e
  rw [e.1] at hd
  exact absurd hd (by decide)

/-- the reader reads every spelling of a number that is followed by a text that cannot continue it -/
theorem pNum_complete {n : Num} {t : Chars} (h : SpellsNum n t) (rest : Chars)
    (hr : NumFollow t rest) : pNum (t ++ rest) = some (n, rest) := by
  cases h with
  | pos ip fr ft e et hip hfr hex hinf =>
    obtain ⟨c, ds, hc, hd⟩ := hip.head
    have hne : c ≠ '-' := by rintro rfl; exact absurd hd (by decide)
    have : pNum (ip ++ (ft ++ et) ++ rest) = pUNum false (ip ++ (ft ++ et) ++ rest) := by
      rw [hc]; simp [pNum, hne]
    rw [this]
    refine pUNum_complete false ip fr ft e et rest hip hfr hex hinf ?_
    intro c' r' h'
    obtain ⟨h1, h2, h3, h4⟩ := hr c' r' h'
    refine ⟨h1, h2, h3, fun hd' => ?_⟩
    rcases h4 hd' with h5 | h5
    · obtain ⟨a, b⟩ := hip.append_zero h5
      simp only [List.append_eq_nil_iff] at b
      exact ⟨a, b.1, b.2⟩
    · exact absurd h5 hip.append_ne_minus
  | neg ip fr ft e et hip hfr hex hinf =>
    have : pNum ('-' :: (ip ++ (ft ++ et)) ++ rest) = pUNum true (ip ++ (ft ++ et) ++ rest) := by
      simp [pNum]
    rw [this]
    refine pUNum_complete true ip fr ft e et rest hip hfr hex hinf ?_
    intro c' r' h'
    obtain ⟨h1, h2, h3, h4⟩ := hr c' r' h'
    refine ⟨h1, h2, h3, fun hd' => ?_⟩
    rcases h4 hd' with h5 | h5
    · simp at h5
    · simp only [List.cons.injEq, true_and] at h5
      obtain ⟨a, b⟩ := hip.append_zero h5
      simp only [List.append_eq_nil_iff] at b
      exact ⟨a, b.1, b.2⟩

/-! ### completeness: values -/

/-- the text starts (if it has a character) with white space, `,`, `]` or `}` -/
def Delim (rest : Chars) : Prop :=
  ∀ c r, rest = c :: r → isWs c = true ∨ c = ',' ∨ c = ']' ∨ c = '}'

theorem Delim.numFollow {rest : Chars} (h : Delim rest) (t : Chars) : NumFollow t rest := by
  intro c r e
  rcases h c r e with hw | rfl | rfl | rfl
  · have := nonNum_ws c hw
    exact ⟨this.2.1, this.2.2.1, this.2.2.2, fun hd => by rw [this.1] at hd; cases hd⟩
  all_goals exact ⟨by decide, by decide, by decide, fun hd => absurd hd (by decide)⟩

theorem delim_ws_cons (ws : Chars) (c : Char) (r : Chars) (hws : AllWs ws)
    (hc : c = ',' ∨ c = ']' ∨ c = '}') : Delim (ws ++ c :: r) := by
  intro c' r' e
  cases ws with
  | nil =>
    simp only [List.nil_append, List.cons.injEq] at e
    rw [← e.1]; exact Or.inr hc
  | cons w ws =>
    simp only [List.cons_append, List.cons.injEq] at e
    rw [← e.1]; exact Or.inl (hws w (by simp))

theorem SpellsTail.delim {l : JList} {t : Chars} (h : SpellsTail l t) (more : Chars) :
    Delim (t ++ more) := by
  cases h with
  | close ws hws =>
    simp only [List.append_assoc, List.cons_append, List.nil_append]
    exact delim_ws_cons ws _ _ hws (by simp)
  | comma ws1 ws2 v t l tl hws1 =>
    simp only [List.append_assoc, List.cons_append]
    exact delim_ws_cons ws1 _ _ hws1 (by simp)

theorem SpellsMTail.delim {l : JMembers} {t : Chars} (h : SpellsMTail l t) (more : Chars) :
    Delim (t ++ more) := by
  cases h with
  | close ws hws =>
    simp only [List.append_assoc, List.cons_append, List.nil_append]
    exact delim_ws_cons ws _ _ hws (by simp)
  | comma ws1 ws2 k v t l tl hws1 =>
    simp only [List.append_assoc, List.cons_append]
    exact delim_ws_cons ws1 _ _ hws1 (by simp)

theorem SpellsNum.head {n : Num} {t : Chars} (h : SpellsNum n t) :
    ∃ c t', t = c :: t' ∧ (c = '-' ∨ isDigit c = true) := by
  cases h with
  | pos ip fr ft e et hip =>
    obtain ⟨c, ds, rfl, hd⟩ := hip.head
    exact ⟨c, _, rfl, Or.inr hd⟩
  | neg => exact ⟨'-', _, rfl, Or.inl rfl⟩

/-- a spelling starts with a character that is neither white space nor a closing bracket -/
theorem Spells.valStart {v : JVal} {t : Chars} (h : Spells v t) (more : Chars) :
    ValStart (t ++ more) := by
  cases h with
  | num n t hn =>
    obtain ⟨c, t', rfl, hc⟩ := hn.head
    refine ⟨c, t' ++ more, rfl, ?_⟩
    rcases hc with rfl | hd
    · exact ⟨by decide, by decide, by decide⟩
    · have := isDigit_start c hd
      exact ⟨this.1, this.2.1, this.2.2.1⟩
  | _ => exact ⟨_, _, rfl, by decide, by decide, by decide⟩

theorem SpellsMember.valStart {k : Chars} {v : JVal} {t : Chars} (h : SpellsMember k v t)
    (more : Chars) : ValStart (t ++ more) := by
  cases h
  exact ⟨_, _, rfl, by decide, by decide, by decide⟩

/-- what may follow the spelling `t` of `v`: only numbers care -/
def Follow (v : JVal) (t rest : Chars) : Prop := ∀ n, v = .num n → NumFollow t rest

theorem Delim.follow {rest : Chars} (h : Delim rest) (v : JVal) (t : Chars) : Follow v t rest :=
  fun _ _ => h.numFollow t

theorem pVal_spelled_num (g : Nat) (n : Num) (t rest : Chars) (hn : SpellsNum n t)
    (hr : NumFollow t rest) : pVal (g + 1) (t ++ rest) = some (.num n, rest) := by
  have happ := pNum_complete hn rest hr
  obtain ⟨c, t', hc, hd⟩ := pNum_head _ _ _ happ
  rw [hc] at happ ⊢
  have hne : c ≠ '[' ∧ c ≠ '{' ∧ c ≠ '"' ∧ c ≠ 't' ∧ c ≠ 'f' ∧ c ≠ 'n' := by
    rcases hd with rfl | hd
    · decide
    · have := isDigit_start c hd
      exact ⟨this.2.2.2.1, this.2.2.2.2.1, this.2.2.2.2.2.1, this.2.2.2.2.2.2.1, this.2.2.2.2.2.2.2.1,
        this.2.2.2.2.2.2.2.2⟩
  rw [pVal, if_neg hne.1, if_neg hne.2.1, if_neg hne.2.2.1, if_neg hne.2.2.2.1, if_neg hne.2.2.2.2.1,
    if_neg hne.2.2.2.2.2, happ]
  rfl

theorem read_complete (g : Nat) :
    (∀ v t rest, Spells v t → t.length ≤ g → Follow v t rest →
      pVal g (t ++ rest) = some (v, rest)) ∧
    (∀ l t rest, SpellsTail l t → t.length ≤ g → pTail g (t ++ rest) = some (l, rest)) ∧
    (∀ k v t rest, SpellsMember k v t → t.length ≤ g → Delim rest →
      pMember g (t ++ rest) = some (k, v, rest)) ∧
    (∀ ms t rest, SpellsMTail ms t → t.length ≤ g → pMTail g (t ++ rest) = some (ms, rest)) := by
  induction g with
  | zero =>
    refine ⟨?_, ?_, ?_, ?_⟩
    · intro v t rest h hl; have := h.length_pos; omega
    · intro v t rest h hl; have := h.length_pos; omega
    · intro k v t rest h hl; have := h.length_pos; omega
    · intro v t rest h hl; have := h.length_pos; omega
  | succ g ih =>
    obtain ⟨ihV, ihT, ihM, ihMT⟩ := ih
    refine ⟨?_, ?_, ?_, ?_⟩
    · intro v t rest h hl hf
      cases h with
      | null => exact pVal_null g rest
      | tru => exact pVal_true g rest
      | fls => exact pVal_false g rest
      | num n t hn => exact pVal_spelled_num g n t rest hn (hf n rfl)
      | str s t hs =>
        simp only [List.cons_append, List.append_assoc, List.nil_append]
        rw [pVal, if_neg (by decide), if_neg (by decide), if_pos rfl, pStr_complete hs]
        rfl
      | arrNil ws hws =>
        simp only [List.cons_append, List.append_assoc, List.nil_append]
        exact pVal_arr_nil g ws rest hws
      | arr ws v t l tl hws hv htl =>
        simp only [List.cons_append, List.append_assoc, List.length_cons, List.length_append] at hl ⊢
        rw [pVal_arr g ws _ hws (hv.valStart _),
          ihV v t (tl ++ rest) hv (by omega) ((htl.delim rest).follow v t)]
        simp only
        rw [ihT l tl rest htl (by omega)]
        rfl
      | objNil ws hws =>
        simp only [List.cons_append, List.append_assoc, List.nil_append]
        exact pVal_obj_nil g ws rest hws
      | obj ws k v t ms tl hws hm htl =>
        simp only [List.cons_append, List.append_assoc, List.length_cons, List.length_append] at hl ⊢
        rw [pVal_obj g ws _ hws (hm.valStart _),
          ihM k v t (tl ++ rest) hm (by omega) (htl.delim rest)]
        simp only
        rw [ihMT ms tl rest htl (by omega)]
        rfl
    · intro l t rest h hl
      cases h with
      | close ws hws =>
        simp only [List.append_assoc, List.cons_append, List.nil_append]
        exact pTail_close g ws rest hws
      | comma ws1 ws2 v t l tl hws1 hws2 hv htl =>
        simp only [List.cons_append, List.append_assoc, List.length_cons, List.length_append] at hl ⊢
        rw [pTail, skipWs_sp _ _ hws1, skipWs_cons _ _ (by decide)]
        simp only [if_true, (hv.valStart _).skip ws2 hws2]
        rw [ihV v t (tl ++ rest) hv (by omega) ((htl.delim rest).follow v t)]
        simp only
        rw [ihT l tl rest htl (by omega)]
        rfl
    · intro k v t rest h hl hd
      cases h with
      | mk k kt ws1 ws2 v t hk hws1 hws2 hv =>
        simp only [List.cons_append, List.append_assoc, List.length_cons, List.length_append] at hl ⊢
        rw [pMember, if_pos rfl, pStr_complete hk]
        simp only [skipWs_sp _ _ hws1, skipWs_cons ':' _ (by decide), if_true,
          (hv.valStart _).skip ws2 hws2]
        rw [ihV v t rest hv (by omega) (hd.follow v t)]
    · intro l t rest h hl
      cases h with
      | close ws hws =>
        simp only [List.append_assoc, List.cons_append, List.nil_append]
        exact pMTail_close g ws rest hws
      | comma ws1 ws2 k v t l tl hws1 hws2 hm htl =>
        simp only [List.cons_append, List.append_assoc, List.length_cons, List.length_append] at hl ⊢
        rw [pMTail, skipWs_sp _ _ hws1, skipWs_cons _ _ (by decide)]
        simp only [if_true, (hm.valStart _).skip ws2 hws2]
        rw [ihM k v t (tl ++ rest) hm (by omega) (htl.delim rest)]
        simp only
        rw [ihMT l tl rest htl (by omega)]
        rfl

theorem pVal_complete {v : JVal} {t : Chars} (h : Spells v t) (rest : Chars) (hf : Follow v t rest)
    (g : Nat) (hg : t.length ≤ g) : pVal g (t ++ rest) = some (v, rest) :=
  (read_complete g).1 v t rest h hg hf

/-! ### the accepted texts are exactly the streams of JSON texts -/

/-- a stream of JSON texts as the reader splits it: `SpellsStream` with the maximal-munch rule
    `Munch` between a number and the text after it -/
inductive SpellsStreamExact : List JVal → Chars → Prop
  | nil (ws : Chars) : AllWs ws → SpellsStreamExact [] ws
  | cons (ws : Chars) (v : JVal) (t : Chars) (vs : List JVal) (rest : Chars) :
      AllWs ws → Spells v t → Munch v t rest → SpellsStreamExact vs rest →
      SpellsStreamExact (v :: vs) (ws ++ (t ++ rest))

theorem SpellsStreamExact.toStream {vs : List JVal} {cs : Chars} (h : SpellsStreamExact vs cs) :
    SpellsStream vs cs := by
  induction h with
  | nil ws hws => exact .nil ws hws
  | cons ws v t vs rest hws hv _ _ ih => exact .cons ws v t vs rest hws hv ih

/-- the first character of a spelling -/
theorem Spells.head_ne {v : JVal} {t : Chars} (h : Spells v t) :
    ∀ c r, t = c :: r → c ≠ '.' ∧ c ≠ 'e' ∧ c ≠ 'E' := by
  intro c r e
  cases h with
  | num n t hn =>
    obtain ⟨c', t', rfl, hc⟩ := hn.head
    simp only [List.cons.injEq] at e
    rw [← e.1]
    rcases hc with rfl | hd
    · decide
    · refine ⟨?_, ?_, ?_⟩ <;> (rintro rfl; exact absurd hd (by decide))
  | _ =>
    simp only [List.cons.injEq] at e
    rw [← e.1]; decide

theorem SpellsStream.head_ne {vs : List JVal} {cs : Chars} (h : SpellsStream vs cs) :
    ∀ c r, cs = c :: r → c ≠ '.' ∧ c ≠ 'e' ∧ c ≠ 'E' := by
  intro c r e
  have hws : ∀ w, isWs w = true → w ≠ '.' ∧ w ≠ 'e' ∧ w ≠ 'E' := fun w hw =>
    ⟨(nonNum_ws w hw).2.1, (nonNum_ws w hw).2.2.1, (nonNum_ws w hw).2.2.2⟩
  cases h with
  | nil ws h => exact hws c (h c (by rw [e]; simp))
  | cons ws v t vs rest h hv _ =>
    cases ws with
    | nil =>
      obtain ⟨c', t', ht⟩ : ∃ c' t', t = c' :: t' := by
        have := hv.length_pos
        cases t with
        | nil => simp at this
        | cons a b => exact ⟨a, b, rfl⟩
      have := hv.head_ne c' t' ht
      rw [ht] at e
      simp only [List.nil_append, List.cons_append, List.cons.injEq] at e
      rw [← e.1]; exact this
    | cons w ws =>
      simp only [List.cons_append, List.cons.injEq] at e
      rw [← e.1]; exact hws w (h w (by simp))

/-- the stream reader reads every stream of JSON texts that obeys the maximal-munch rule -/
theorem pTop_complete {vs : List JVal} {cs : Chars} (h : SpellsStreamExact vs cs) :
    ∀ g, cs.length < g → pTop g cs = some vs := by
  induction h with
  | nil ws hws =>
    intro g hg
    obtain ⟨g, rfl⟩ : ∃ g', g = g' + 1 := ⟨g - 1, by omega⟩
    exact pTop_end g ws hws
  | cons ws v t vs rest hws hv hm hrest ih =>
    intro g hg
    obtain ⟨g, rfl⟩ : ∃ g', g = g' + 1 := ⟨g - 1, by omega⟩
    have hpos := hv.length_pos
    simp only [List.length_append] at hg
    have hst := hv.valStart rest
    have hf : Follow v t rest := by
      intro n hn c r e
      have := hrest.toStream.head_ne c r e
      exact ⟨this.1, this.2.1, this.2.2, hm n c r hn e⟩
    have hval := pVal_complete hv rest hf (g + 1) (by omega)
    rw [pTop, hst.skip ws hws]
    obtain ⟨c, r, hc, _⟩ := hst
    rw [hc] at hval ⊢
    simp only [hval]
    rw [ih g (by omega)]
    rfl

/-- **parseText_complete** -/
theorem parseText_complete {vs : List JVal} {cs : Chars} (h : SpellsStreamExact vs cs) :
    parseText cs = some vs := pTop_complete h _ (Nat.lt_succ_self _)

theorem pTop_sound_exact : ∀ (f : Nat) (cs : Chars) (vs : List JVal), pTop f cs = some vs →
    SpellsStreamExact vs cs := by
  intro f
  induction f with
  | zero => intro cs vs h; simp [pTop] at h
  | succ f ih =>
    intro cs vs h
    rw [pTop] at h
    obtain ⟨ws, hws, hcs⟩ := skipWs_split cs
    cases hsk : skipWs cs with
    | nil =>
      rw [hsk] at h hcs
      simp only [Option.some.injEq] at h
      subst h
      rw [hcs, List.append_nil]
      exact .nil ws hws
    | cons c r =>
      rw [hsk] at h hcs
      simp only at h
      cases hv : pVal (f + 1) (c :: r) with
      | none => rw [hv] at h; simp at h
      | some p =>
        obtain ⟨v, r'⟩ := p
        rw [hv] at h
        simp only [Option.map_eq_some_iff] at h
        obtain ⟨vs', hvs, rfl⟩ := h
        obtain ⟨t, ht, hsv, hm⟩ := pVal_sound_munch _ _ _ _ hv
        rw [hcs, ht]
        exact .cons ws v t vs' r' hws hsv hm (ih r' vs' hvs)

/-- **parseText_exact** — the accepted texts are exactly the streams of JSON texts (with the
    maximal-munch rule of the top level), and the answer is the sequence of the spelled values -/
theorem parseText_exact (cs : Chars) (vs : List JVal) :
    parseText cs = some vs ↔ SpellsStreamExact vs cs :=
  ⟨pTop_sound_exact _ cs vs, parseText_complete⟩

/-- a text spells at most one sequence of values -/
theorem SpellsStreamExact.unique {vs ws : List JVal} {cs : Chars} (h1 : SpellsStreamExact vs cs)
    (h2 : SpellsStreamExact ws cs) : vs = ws := by
  have a := parseText_complete h1
  rw [parseText_complete h2] at a
  exact (Option.some.inj a).symm

/-- a text spells at most one value -/
theorem Spells.unique {v w : JVal} {t : Chars} (h1 : Spells v t) (h2 : Spells w t) : v = w := by
  have hf : ∀ u, Follow u t [] := fun u n _ c r e => by cases e
  have a := pVal_complete h1 [] (hf v) t.length (Nat.le_refl _)
  rw [pVal_complete h2 [] (hf w) t.length (Nat.le_refl _)] at a
  simp only [Option.some.injEq, Prod.mk.injEq, and_true] at a
  exact a.symm

/-- a rejected text is rejected with every fuel, and it is not a stream of JSON texts -/
theorem parseText_none (cs : Chars) (h : parseText cs = none) :
    (∀ f, pTop f cs = none) ∧ ∀ vs, ¬ SpellsStreamExact vs cs := by
  refine ⟨fun f => ?_, fun vs hs => ?_⟩
  · cases hf : pTop f cs with
    | none => rfl
    | some vs =>
      have := (parseText_fuel_adequate cs vs).1 ⟨f, hf⟩
      rw [h] at this
      cases this
  · rw [parseText_complete hs] at h
    cases h

/-! ### examples: spellings written down by hand -/

/-- `1.50e+1` spells 15 -/
example : Spells (.num (.fin 15)) ['1', '.', '5', '0', 'e', '+', '1'] := by
  have hv : numVal false ['1'] ['5', '0'] 1 = .fin 15 := by decide +kernel
  rw [← hv]
  exact .num _ _ (.pos ['1'] ['5', '0'] ['.', '5', '0'] 1 ['e', '+', '1']
    (Or.inr ⟨'1', [], rfl, by decide, by decide, fun _ h => by cases h⟩)
    (.some _ (by simp) (by unfold AllDigits; decide))
    (.plus 'e' ['1'] (Or.inl rfl) (by simp) (by unfold AllDigits; decide))
    (by decide +kernel))

/-- `[ null ,"a\n"]` spells the array of `null` and the string `a`, newline; hence the reader
    reads it (completeness) -/
example : parseText ['[', ' ', 'n', 'u', 'l', 'l', ' ', ',', '"', '\\', 'u', '0', '0', '6', '1',
      '\\', 'n', '"', ']'] = some [.arr (.cons .null (.cons (.str ['a', '\n']) .nil))] := by
  have hsp : AllWs [' '] := by unfold AllWs; decide
  have hstr : SpellsStr ['a', '\n'] ['\\', 'u', '0', '0', '6', '1', '\\', 'n'] :=
    ⟨[.u 0x61, .ch '\n'],
      .uni '0' '0' '6' '1' 0x61 _ _ (by decide) (.esc 'n' '\n' _ _ (by decide) .nil), by decide⟩
  have h : Spells (.arr (.cons .null (.cons (.str ['a', '\n']) .nil)))
      ['[', ' ', 'n', 'u', 'l', 'l', ' ', ',', '"', '\\', 'u', '0', '0', '6', '1', '\\', 'n', '"', ']'] :=
    .arr [' '] .null ['n', 'u', 'l', 'l'] _ _ hsp .null
      (.comma [' '] [] (.str ['a', '\n']) _ .nil _ hsp allWs_nil (.str _ _ hstr) (.close [] allWs_nil))
  have := parseText_complete (.cons [] _ _ [] [] allWs_nil h
    (munch_of_not_num (by intro n e; cases e) _ _) (.nil [] allWs_nil))
  simpa using this

end Xsel.Json
