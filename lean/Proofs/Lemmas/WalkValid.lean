/-
  Proofs/Lemmas/WalkValid.lean — the derivation tree of every expression (`Xsel/Deriv.lean`) IS a derivation
  tree of the grammar compiled into the parser: every node is an instance of a production of the table
  REGENERATED from the parser's slot tables (`Generated.productions`), and its yield is the canonical token
  list `Render.renderTop`.
-/
import Xsel.Deriv
import Generated.Facts

namespace Xsel.Walk
open Xsel Xsel.Syntax

abbrev prods := Generated.productions

/-- `t` is a valid tree rooted at the nonterminal `n` -/
def Rooted (n : String) (t : PT) : Prop := t.name = n ∧ t.isNt = true ∧ t.valid prods = true

theorem valid_N (n : String) (ks : List PT) :
    (N n ks).valid prods = (prods.contains (n, (PTs.ofList ks).rhs) && (PTs.ofList ks).valid prods) := by
  rw [N, PT.valid]

theorem rhs_cons_nt (t : PT) (ts : PTs) (n : String) (h : Rooted n t) :
    (PTs.cons t ts).rhs = (true, n) :: ts.rhs := by
  obtain ⟨hn, hi, _⟩ := h
  cases t with
  | nt m k => simp only [PT.name] at hn; subst hn; rfl
  | tk x => simp [PT.isNt] at hi

@[simp] theorem rhs_cons_tk (x : Tok) (ts : PTs) : (PTs.cons (.tk x) ts).rhs = (false, x.term) :: ts.rhs := rfl
@[simp] theorem rhs_cons_tkp (x : Punct) (ts : PTs) : (PTs.cons (tkp x) ts).rhs = (false, x.term) :: ts.rhs := rfl
@[simp] theorem rhs_nil : PTs.rhs .nil = [] := rfl
@[simp] theorem valid_nil : PTs.valid prods .nil = true := rfl
@[simp] theorem valid_cons (t : PT) (ts : PTs) : (PTs.cons t ts).valid prods = (t.valid prods && ts.valid prods) := by
  rw [PTs.valid]
@[simp] theorem valid_tk (x : Tok) : (PT.tk x).valid prods = true := by rw [PT.valid]
@[simp] theorem valid_tkp (x : Punct) : (tkp x).valid prods = true := by rw [tkp, PT.valid]

/-- a node with one nonterminal child -/
theorem rooted_unit (n m : String) (t : PT) (ht : Rooted m t) (hp : prods.contains (n, [(true, m)]) = true) :
    Rooted n (N n [t]) := by
  refine ⟨rfl, rfl, ?_⟩
  rw [valid_N]
  simp only [PTs.ofList, rhs_cons_nt t _ m ht, rhs_nil, hp, valid_cons, ht.2.2, valid_nil, Bool.and_self]

theorem unit_level (k : Nat) (h : k < 9) : prods.contains (levelName k, [(true, levelName (k + 1))]) = true := by
  match k, h with
  | 0, _ | 1, _ | 2, _ | 3, _ | 4, _ | 5, _ | 6, _ | 7, _ | 8, _ => decide +kernel

theorem rooted_climb : ∀ (n lo : Nat) (t : PT), lo + n ≤ 9 → Rooted (levelName (lo + n)) t → Rooted (levelName lo) (climb n lo t)
  | 0, lo, t, _, h => by simpa [climb] using h
  | n + 1, lo, t, hle, h => by
    rw [climb]
    refine rooted_unit _ (levelName (lo + 1)) _ ?_ (unit_level lo (by omega))
    exact rooted_climb n (lo + 1) t (by omega) (by rwa [show lo + 1 + n = lo + (n + 1) by omega])

theorem rooted_lift (lo hi : Nat) (t : PT) (h1 : lo ≤ hi) (h2 : hi ≤ 9) (h : Rooted (levelName hi) t) :
    Rooted (levelName lo) (lift lo hi t) := by
  unfold lift
  exact rooted_climb (hi - lo) lo t (by omega) (by rwa [show lo + (hi - lo) = hi by omega])

theorem rooted_parenFilter (t : PT) (h : Rooted "OrExpr" t) : Rooted "FilterExpr" (parenFilter t) := by
  refine ⟨rfl, rfl, ?_⟩
  simp only [parenFilter]
  rw [valid_N]
  have h3 : Rooted "PrimaryExprParenthetic" (N "PrimaryExprParenthetic" [tkp .lparen, t, tkp .rparen]) := by
    refine ⟨rfl, rfl, ?_⟩
    rw [valid_N]
    simp only [PTs.ofList, rhs_cons_tkp, rhs_cons_nt t _ _ h, rhs_nil, valid_cons, valid_tkp, h.2.2, valid_nil]
    decide +kernel
  have h2 := rooted_unit "PrimaryExpr" _ _ h3 (by decide +kernel)
  simp only [PTs.ofList, rhs_cons_nt _ _ _ h2, rhs_nil, valid_cons, h2.2.2, valid_nil]
  decide +kernel

/-- `wrapAt`: a tree of level `lv` where level `min` is expected -/
theorem rooted_wrapAt (min lv : Nat) (t : PT) (hm : min ≤ 9) (hl : lv ≤ 9) (h : Rooted (levelName lv) t) :
    Rooted (levelName min) (wrapAt min lv t) := by
  unfold wrapAt
  split
  · exact rooted_lift min 9 _ hm (Nat.le_refl _) (rooted_parenFilter _ (rooted_lift 0 lv t (Nat.zero_le _) hl h))
  · exact rooted_lift min lv t (by omega) hl h

end Xsel.Walk
