/-
  Proofs/Lemmas/StrFuncs.lean — lemmas about the string functions of Xsel/Funcs.lean (used by C07).
-/
import Xsel.Funcs

namespace Xsel.StrL
open Xsel Xsel.Str

/-! ### substring -/

/-- is the character at 1-based position `q` selected by `substring(_, p, l)`?
    (`rp`, `rl` are the rounded arguments; IEEE comparisons and addition) -/
def keepPos (rp : Num) (rl : Option Num) (q : Nat) : Bool :=
  Num.ge (Num.ofNat q) rp &&
    (match rl with
     | none => true
     | some l => Num.lt (Num.ofNat q) (Num.add rp l))

theorem substringR_go_eq (rp : Num) (rl : Option Num) (s : Chars) (q : Nat) :
    substringR.go rp (rl.map (fun l => Num.add rp l)) s q =
      ((s.zipIdx q).filter (fun p => keepPos rp rl p.2)).map Prod.fst := by
  induction s generalizing q with
  | nil => rfl
  | cons c t ih =>
    cases rl with
    | none =>
      simp only [Option.map_none] at ih ⊢
      simp only [substringR.go, List.zipIdx_cons, List.filter_cons, keepPos, Bool.and_true, ih]
      split <;> simp
    | some l =>
      simp only [Option.map_some] at ih ⊢
      simp only [substringR.go, List.zipIdx_cons, List.filter_cons, keepPos, ih]
      split <;> simp

theorem substringR_eq (s : Chars) (rp : Num) (rl : Option Num) :
    substringR s rp rl = ((s.zipIdx 1).filter (fun p => keepPos rp rl p.2)).map Prod.fst :=
  substringR_go_eq rp rl s 1

/-! ### translate -/

theorem idxOf_some (c : Char) (l : Chars) (k i : Nat) :
    idxOf c l k = some i ↔ ∃ j, i = k + j ∧ l[j]? = some c ∧ ∀ j' < j, l[j']? ≠ some c := by
  induction l generalizing k with
  | nil => simp [idxOf]
  | cons x xs ih =>
    simp only [idxOf]
    by_cases hx : x = c
    · subst hx
      simp only [beq_self_eq_true, if_true, Option.some.injEq]
      constructor
      · intro h; exact ⟨0, by omega, by simp, by intro j' h'; omega⟩
      · rintro ⟨j, hj, _, hmin⟩
        cases j with
        | zero => omega
        | succ j => exact absurd (by simp) (hmin 0 (by omega))
    · have : (x == c) = false := by simpa using hx
      simp only [this, Bool.false_eq_true, if_false, ih]
      constructor
      · rintro ⟨j, hj, hget, hmin⟩
        refine ⟨j + 1, by omega, by simpa using hget, ?_⟩
        intro j' hj'
        cases j' with
        | zero => simpa using hx
        | succ j' => simpa using hmin j' (by omega)
      · rintro ⟨j, hj, hget, hmin⟩
        cases j with
        | zero => simp at hget; exact absurd hget hx
        | succ j =>
          refine ⟨j, by omega, by simpa using hget, ?_⟩
          intro j' hj'
          simpa using hmin (j' + 1) (by omega)

theorem idxOf_none (c : Char) (l : Chars) (k : Nat) : idxOf c l k = none ↔ c ∉ l := by
  induction l generalizing k with
  | nil => simp [idxOf]
  | cons x xs ih =>
    simp only [idxOf]
    by_cases hx : x = c
    · subst hx; simp
    · have : (x == c) = false := by simpa using hx
      simp only [this, Bool.false_eq_true, if_false, ih, List.mem_cons, not_or]
      constructor
      · intro h; exact ⟨fun e => hx e.symm, h⟩
      · intro h; exact h.2

/-! ### splitSpaces / normalize-space -/

/-- a word: non-empty, no XML white space -/
def IsWord (w : Chars) : Prop := w ≠ [] ∧ ∀ c ∈ w, isXmlSpace c = false

def flush (cur : Chars) (acc : List Chars) : List Chars :=
  if cur.isEmpty then acc else cur.reverse :: acc

theorem flush_reverse (cur : Chars) (acc : List Chars) :
    (flush cur acc).reverse = acc.reverse ++ (flush cur []).reverse := by
  unfold flush; split <;> simp

theorem go_acc (s cur : Chars) (acc : List Chars) :
    splitSpaces.go s cur acc = acc.reverse ++ splitSpaces.go s cur [] := by
  induction s generalizing cur acc with
  | nil => exact flush_reverse cur acc
  | cons c t ih =>
    simp only [splitSpaces.go]
    split
    · rw [ih, ih (acc := if cur.isEmpty then [] else [cur.reverse])]
      have := flush_reverse cur acc
      unfold flush at this
      rw [this, List.append_assoc]
    · exact ih _ _

/-- white space ends the current word -/
theorem go_append_space (a b cur : Chars) (acc : List Chars) (c : Char) (hc : isXmlSpace c = true) :
    splitSpaces.go (a ++ c :: b) cur acc = splitSpaces.go a cur acc ++ splitSpaces.go b [] [] := by
  induction a generalizing cur acc with
  | nil =>
    simp only [List.nil_append, splitSpaces.go, hc, if_true]
    rw [go_acc]
  | cons x a ih =>
    simp only [List.cons_append, splitSpaces.go]
    split
    · exact ih _ _
    · exact ih _ _

theorem go_word (w cur : Chars) (hw : ∀ c ∈ w, isXmlSpace c = false) :
    splitSpaces.go w cur [] = (flush (w.reverse ++ cur) []).reverse := by
  induction w generalizing cur with
  | nil => rfl
  | cons x w ih =>
    have hx : isXmlSpace x = false := hw x (by simp)
    simp only [splitSpaces.go, hx, Bool.false_eq_true, if_false]
    rw [ih _ (fun c hc => hw c (by simp [hc]))]
    simp

theorem splitSpaces_nil : splitSpaces [] = [] := rfl

theorem splitSpaces_word (w : Chars) (hw : IsWord w) : splitSpaces w = [w] := by
  unfold splitSpaces
  rw [go_word w [] hw.2]
  have : w.reverse.isEmpty = false := by
    cases w with
    | nil => exact absurd rfl hw.1
    | cons x t => simp
  simp [flush, this]

theorem splitSpaces_append_space (a b : Chars) (c : Char) (hc : isXmlSpace c = true) :
    splitSpaces (a ++ c :: b) = splitSpaces a ++ splitSpaces b :=
  go_append_space a b [] [] c hc

theorem splitSpaces_space_cons (b : Chars) (c : Char) (hc : isXmlSpace c = true) :
    splitSpaces (c :: b) = splitSpaces b := by
  simpa [splitSpaces_nil] using splitSpaces_append_space [] b c hc

/-- every string is a word followed by white space and the rest, or has no white space at all -/
theorem span_nonspace (s : Chars) :
    (∀ c ∈ s, isXmlSpace c = false) ∨
    ∃ a c b, s = a ++ c :: b ∧ (∀ x ∈ a, isXmlSpace x = false) ∧ isXmlSpace c = true := by
  induction s with
  | nil => left; simp
  | cons x t ih =>
    by_cases hx : isXmlSpace x = true
    · right; exact ⟨[], x, t, rfl, by simp, hx⟩
    · have hx' : isXmlSpace x = false := by simpa using hx
      rcases ih with h | ⟨a, c, b, e, ha, hc⟩
      · left; intro y hy
        rcases List.mem_cons.1 hy with h' | h'
        · subst h'; exact hx'
        · exact h y h'
      · right
        refine ⟨x :: a, c, b, by simp [e], ?_, hc⟩
        intro y hy
        rcases List.mem_cons.1 hy with h' | h'
        · subst h'; exact hx'
        · exact ha y h'

theorem splitSpaces_nospace (a : Chars) (ha : ∀ x ∈ a, isXmlSpace x = false) :
    splitSpaces a = if a = [] then [] else [a] := by
  split
  · rename_i h; subst h; rfl
  · rename_i h; exact splitSpaces_word a ⟨h, ha⟩

/-- all elements of `splitSpaces s` are words -/
theorem splitSpaces_words (s : Chars) : ∀ w ∈ splitSpaces s, IsWord w := by
  generalize hn : s.length = n
  induction n using Nat.strongRecOn generalizing s with
  | _ n ih =>
    rcases span_nonspace s with h | ⟨a, c, b, e, ha, hc⟩
    · rw [splitSpaces_nospace s h]
      split
      · simp
      · rename_i h0; intro w hw; simp at hw; subst hw; exact ⟨h0, h⟩
    · subst e
      rw [splitSpaces_append_space a b c hc, splitSpaces_nospace a ha]
      intro w hw
      rcases List.mem_append.1 hw with h | h
      · split at h
        · simp at h
        · rename_i h0; simp at h; subst h; exact ⟨h0, ha⟩
      · exact ih b.length (by subst hn; simp; omega) b rfl w h

/-- the words are the string with the white space removed -/
theorem splitSpaces_flatten (s : Chars) :
    (splitSpaces s).flatten = s.filter (fun c => !isXmlSpace c) := by
  generalize hn : s.length = n
  induction n using Nat.strongRecOn generalizing s with
  | _ n ih =>
    rcases span_nonspace s with h | ⟨a, c, b, e, ha, hc⟩
    · rw [splitSpaces_nospace s h]
      have : s.filter (fun c => !isXmlSpace c) = s := by
        apply List.filter_eq_self.2; intro x hx; simp [h x hx]
      rw [this]; split
      · rename_i h0; subst h0; rfl
      · simp
    · subst e
      rw [splitSpaces_append_space a b c hc, splitSpaces_nospace a ha]
      have hfa : a.filter (fun c => !isXmlSpace c) = a := by
        apply List.filter_eq_self.2; intro x hx; simp [ha x hx]
      rw [List.flatten_append, ih b.length (by subst hn; simp; omega) b rfl,
        List.filter_append, List.filter_cons, hfa]
      simp only [hc, Bool.not_true, Bool.false_eq_true, if_false]
      split
      · rename_i h0; subst h0; rfl
      · simp

theorem intercalate_cons_cons (sep w w' : Chars) (ws : List Chars) :
    sep.intercalate (w :: w' :: ws) = w ++ sep ++ sep.intercalate (w' :: ws) := by
  simp [List.intercalate, List.intersperse]

theorem intercalate_singleton (sep w : Chars) : sep.intercalate [w] = w := by
  simp [List.intercalate, List.intersperse]

/-- splitting the single-space join of words gives the words back -/
theorem splitSpaces_join (ws : List Chars) (h : ∀ w ∈ ws, IsWord w) :
    splitSpaces ([' '].intercalate ws) = ws := by
  induction ws with
  | nil => rfl
  | cons w t ih =>
    cases t with
    | nil => rw [intercalate_singleton]; exact splitSpaces_word w (h w (by simp))
    | cons w' t =>
      rw [intercalate_cons_cons, List.append_assoc]
      show splitSpaces (w ++ ' ' :: ([' '].intercalate (w' :: t))) = _
      rw [splitSpaces_append_space _ _ ' ' (by decide), splitSpaces_word w (h w (by simp)),
        ih (fun x hx => h x (by simp [hx]))]
      rfl

theorem normalizeSpace_idem (s : Chars) : normalizeSpace (normalizeSpace s) = normalizeSpace s := by
  unfold normalizeSpace
  rw [splitSpaces_join _ (splitSpaces_words s)]

/-! #### shape of a single-space join of words -/

def noDbl : Chars → Bool
  | a :: b :: t => !(isXmlSpace a && isXmlSpace b) && noDbl (b :: t)
  | _ => true

theorem noDbl_cons_nonspace (x : Char) (r : Chars) (hx : isXmlSpace x = false) (hr : noDbl r = true) :
    noDbl (x :: r) = true := by
  cases r with
  | nil => rfl
  | cons y t => simp [noDbl, hx, hr]

theorem noDbl_word_append (w r : Chars) (hw : ∀ c ∈ w, isXmlSpace c = false) (hr : noDbl r = true) :
    noDbl (w ++ r) = true := by
  induction w with
  | nil => exact hr
  | cons x w ih =>
    exact noDbl_cons_nonspace x _ (hw x (by simp)) (ih (fun c hc => hw c (by simp [hc])))

theorem noDbl_tail (x : Char) (r : Chars) (h : noDbl (x :: r) = true) : noDbl r = true := by
  cases r with
  | nil => rfl
  | cons y t => simp only [noDbl, Bool.and_eq_true] at h; exact h.2

theorem noDbl_spec (t : Chars) (h : noDbl t = true) (u v : Chars) (a b : Char)
    (e : t = u ++ a :: b :: v) : ¬ (isXmlSpace a = true ∧ isXmlSpace b = true) := by
  induction u generalizing t with
  | nil =>
    subst e
    simp only [List.nil_append, noDbl, Bool.and_eq_true, Bool.not_eq_true'] at h
    intro ⟨ha, hb⟩; simp [ha, hb] at h
  | cons x u ih =>
    subst e
    exact ih _ (noDbl_tail x _ h) rfl

theorem join_head (ws : List Chars) (h : ∀ w ∈ ws, IsWord w) (c : Char)
    (hc : ([' '].intercalate ws).head? = some c) : isXmlSpace c = false := by
  cases ws with
  | nil => simp [List.intercalate] at hc
  | cons w t =>
    have hw := h w (by simp)
    obtain ⟨x, w', rfl⟩ : ∃ x w', w = x :: w' := by
      cases w with
      | nil => exact absurd rfl hw.1
      | cons x w' => exact ⟨x, w', rfl⟩
    cases t with
    | nil => rw [intercalate_singleton] at hc; simp at hc; subst hc; exact hw.2 _ (by simp)
    | cons w2 t =>
      rw [intercalate_cons_cons] at hc; simp at hc; subst hc; exact hw.2 _ (by simp)

theorem join_ne_nil (w : Chars) (t : List Chars) (hw : IsWord w) : [' '].intercalate (w :: t) ≠ [] := by
  cases t with
  | nil => rw [intercalate_singleton]; exact hw.1
  | cons w2 t => rw [intercalate_cons_cons]; cases w with
    | nil => exact absurd rfl hw.1
    | cons x w' => simp

theorem join_last (ws : List Chars) (h : ∀ w ∈ ws, IsWord w) (c : Char)
    (hc : ([' '].intercalate ws).getLast? = some c) : isXmlSpace c = false := by
  induction ws with
  | nil => simp [List.intercalate] at hc
  | cons w t ih =>
    have hw := h w (by simp)
    cases t with
    | nil =>
      rw [intercalate_singleton] at hc
      exact hw.2 c (List.mem_of_getLast? hc)
    | cons w2 t =>
      have hne := join_ne_nil w2 t (h w2 (by simp))
      rw [intercalate_cons_cons, List.append_assoc, List.getLast?_append] at hc
      have e : ([' '] ++ [' '].intercalate (w2 :: t)).getLast? = ([' '].intercalate (w2 :: t)).getLast? :=
        List.getLast?_cons_of_ne_nil hne
      rw [e] at hc
      cases hl : ([' '].intercalate (w2 :: t)).getLast? with
      | none => exact absurd (List.getLast?_eq_none_iff.1 hl) hne
      | some y =>
        rw [hl] at hc; simp at hc; subst hc
        exact ih (fun x hx => h x (by simp [hx])) hl

theorem join_mem (ws : List Chars) (c : Char) (hc : c ∈ [' '].intercalate ws) :
    c = ' ' ∨ ∃ w ∈ ws, c ∈ w := by
  induction ws with
  | nil => simp [List.intercalate] at hc
  | cons w t ih =>
    cases t with
    | nil => rw [intercalate_singleton] at hc; exact .inr ⟨w, by simp, hc⟩
    | cons w2 t =>
      rw [intercalate_cons_cons] at hc
      simp only [List.mem_append, List.mem_singleton] at hc
      rcases hc with (hc | hc) | hc
      · exact .inr ⟨w, by simp, hc⟩
      · exact .inl hc
      · rcases ih hc with h | ⟨x, hx, hcx⟩
        · exact .inl h
        · exact .inr ⟨x, by simp [hx], hcx⟩

theorem join_noDbl (ws : List Chars) (h : ∀ w ∈ ws, IsWord w) : noDbl ([' '].intercalate ws) = true := by
  induction ws with
  | nil => rfl
  | cons w t ih =>
    have hw := h w (by simp)
    cases t with
    | nil =>
      rw [intercalate_singleton]
      simpa using noDbl_word_append w [] hw.2 rfl
    | cons w2 t =>
      rw [intercalate_cons_cons, List.append_assoc]
      apply noDbl_word_append w _ hw.2
      have ih' := ih (fun x hx => h x (by simp [hx]))
      have hne := join_ne_nil w2 t (h w2 (by simp))
      have hhd := join_head (w2 :: t) (fun x hx => h x (by simp [hx]))
      generalize [' '].intercalate (w2 :: t) = r at *
      cases r with
      | nil => exact absurd rfl hne
      | cons y r =>
        have : isXmlSpace y = false := hhd y rfl
        simp [noDbl, this, ih']

/-! ### indexOf, contains, substring-before/after -/

theorem indexOf_go_some (p : Chars) (fuel : Nat) (s : Chars) (i k : Nat)
    (h : indexOf.go p fuel s i = some k) :
    ∃ j, k = i + j ∧ j ≤ s.length ∧ p.isPrefixOf (s.drop j) = true ∧
      ∀ j' < j, p.isPrefixOf (s.drop j') = false := by
  induction fuel generalizing s i with
  | zero => simp [indexOf.go] at h
  | succ fuel ih =>
    simp only [indexOf.go] at h
    split at h
    · rename_i hp
      simp at h; subst h
      exact ⟨0, rfl, by omega, by simpa using hp, by intro j' hj'; omega⟩
    · rename_i hp
      cases s with
      | nil => simp at h
      | cons x t =>
        simp only at h
        obtain ⟨j, hk, hj, hpre, hmin⟩ := ih t (i + 1) h
        refine ⟨j + 1, by omega, by simp; omega, by simpa using hpre, ?_⟩
        intro j' hj'
        cases j' with
        | zero => exact Bool.eq_false_iff.2 hp
        | succ j' => simpa using hmin j' (by omega)

theorem indexOf_go_none (p : Chars) (fuel : Nat) (s : Chars) (i : Nat) (hf : s.length < fuel)
    (h : indexOf.go p fuel s i = none) : ∀ j, p.isPrefixOf (s.drop j) = false := by
  induction fuel generalizing s i with
  | zero => omega
  | succ fuel ih =>
    simp only [indexOf.go] at h
    split at h
    · simp at h
    · rename_i hp
      cases s with
      | nil => intro j; rw [List.drop_nil]; exact Bool.eq_false_iff.2 hp
      | cons x t =>
        simp only at h
        intro j
        cases j with
        | zero => exact Bool.eq_false_iff.2 hp
        | succ j => simpa using ih t (i + 1) (by simp at hf; omega) h j

/-- `indexOf s p = some i`: `p` occurs at offset `i` and at no smaller offset -/
theorem indexOf_some (s p : Chars) (i : Nat) (h : indexOf s p = some i) :
    i ≤ s.length ∧ p <+: s.drop i ∧ ∀ j < i, ¬ p <+: s.drop j := by
  obtain ⟨j, hk, hj, hpre, hmin⟩ := indexOf_go_some p _ s 0 i h
  have : i = j := by omega
  subst this
  refine ⟨hj, List.isPrefixOf_iff_prefix.1 hpre, ?_⟩
  intro j' hj' hc
  have := hmin j' hj'
  rw [List.isPrefixOf_iff_prefix.2 hc] at this
  exact absurd this (by simp)

theorem indexOf_none (s p : Chars) (h : indexOf s p = none) : ∀ j, ¬ p <+: s.drop j := by
  intro j hc
  have := indexOf_go_none p _ s 0 (Nat.lt_succ_self _) h j
  rw [List.isPrefixOf_iff_prefix.2 hc] at this
  exact absurd this (by simp)

/-- an occurrence anywhere means `indexOf` finds one -/
theorem indexOf_isSome_of_occurs (s p u t : Chars) (e : s = u ++ p ++ t) : (indexOf s p).isSome = true := by
  cases h : indexOf s p with
  | some i => rfl
  | none =>
    exfalso
    apply indexOf_none s p h u.length
    subst e
    rw [List.append_assoc, List.drop_left]
    exact List.prefix_append p t

theorem split_at_index (s p : Chars) (i : Nat) (h : indexOf s p = some i) :
    s = s.take i ++ p ++ s.drop (i + p.length) := by
  obtain ⟨_, ⟨t, ht⟩, _⟩ := indexOf_some s p i h
  have h1 : s = s.take i ++ s.drop i := (List.take_append_drop i s).symm
  have h2 : s.drop (i + p.length) = t := by
    rw [← List.drop_drop, ← ht, List.drop_left]
  rw [h2, List.append_assoc, ht]
  exact h1

end Xsel.StrL
