/-
  Proofs/Lemmas/Strval.lean — the string-value of a node (`Model.strval`, the recursion over
  element children of `getElementStringValue`) is the XPath 1.0 one (`Spec.strval`: the
  concatenation of all text-node descendants in document order), in every well-formed arena.

  Route: the pre-order walk `Model.descendants` is strictly ascending, hence equals the filter of
  `List.range a.size` by "tree node below the cursor"; `Model.elemStr` is the concatenation of the
  values of the text nodes of that walk.
-/
import Xsel.Value
import Proofs.Lemmas.TreeAxes

namespace Xsel.Strval
open Xsel Arena Xsel.Tree

theorem flatMap_congr_mem {α β : Type} {l : List α} {f g : α → List β}
    (hfg : ∀ x ∈ l, f x = g x) : l.flatMap f = l.flatMap g := by
  induction l with
  | nil => rfl
  | cons x l ih =>
    simp only [List.flatMap_cons]
    rw [hfg x (List.mem_cons_self ..), ih (fun y hy => hfg y (List.mem_cons_of_mem _ hy))]

section
variable {a : Arena} (h : wfb a = true)
include h

/-! ### the pre-order walk is strictly ascending -/

theorem descendants_sorted : ∀ (f c : Nat), (Model.descendants a f c).Pairwise (· < ·)
  | 0, c => by simp [Model.descendants]
  | f + 1, c => by
    simp only [Model.descendants]
    refine List.pairwise_flatMap.mpr ⟨?_, ?_⟩
    · intro k _
      refine List.pairwise_cons.mpr ⟨?_, descendants_sorted f k⟩
      intro j hj
      exact anc_lt h (descendants_sound h f k j hj).2.1
    · refine List.Pairwise.imp_of_mem ?_ (kids_sorted h c)
      intro k1 k2 hk1 hk2 hlt x hx y hy
      obtain ⟨hc1, _, _, hp1⟩ := mem_kids h hk1
      obtain ⟨_, _, _, hp2⟩ := mem_kids h hk2
      have hy2 : k2 ≤ y := by
        rcases List.mem_cons.mp hy with e | e
        · omega
        · have := anc_lt h (descendants_sound h f k2 y e).2.1; omega
      rcases List.mem_cons.mp hx with e | e
      · omega
      · obtain ⟨_, hax, hxs⟩ := descendants_sound h f k1 x e
        have hsib : Spec.anc a k1 k2 = false :=
          not_anc_sibling h (c := k1) (k := k2) (by omega) (by omega)
        by_cases hle : k2 ≤ x
        · have := anc_between h hxs hax hlt hle
          rw [hsib] at this; cases this
        · omega

/-- the walk lists the tree nodes below the cursor in document order -/
theorem descendants_eq_filter (c : Nat) :
    Model.descendants a a.size c =
      (List.range a.size).filter (fun j => a.isTree j && Spec.anc a c j) := by
  refine strict_ext (descendants_sorted h _ c) (List.pairwise_lt_range.filter _) ?_
  intro j
  rw [mem_descendants h]
  simp only [List.mem_filter, List.mem_range, Bool.and_eq_true]
  constructor
  · rintro ⟨h1, h2, h3⟩; exact ⟨h3, h1, h2⟩
  · rintro ⟨h3, h1, h2⟩; exact ⟨h1, h2, h3⟩

/-! ### `elemStr` is the text of the walk -/

/-- a node that is neither the root nor an element has no descendants -/
theorem descendants_leaf (f k : Nat) (hk : a.kind k ≠ .root) (hk' : a.kind k ≠ .elem) :
    Model.descendants a f k = [] := by
  cases f with
  | zero => rfl
  | succ f =>
    rcases container h k with e | e | ⟨_, _, e⟩
    · exact absurd e hk
    · exact absurd e hk'
    · simp [Model.descendants, e]

theorem elemStr_eq : ∀ (f i : Nat),
    Model.elemStr a f i =
      ((Model.descendants a f i).filter (fun j => a.kind j == .text)).flatMap
        (fun j => (a.cell j).val)
  | 0, i => by simp [Model.elemStr, Model.descendants]
  | f + 1, i => by
    simp only [Model.elemStr, Model.descendants, List.filter_flatMap, List.flatMap_assoc]
    apply flatMap_congr_mem
    intro k hk
    obtain ⟨hik, hks, _, _⟩ := mem_kids h hk
    have hroot : a.kind k ≠ .root := kind_ne_root h (by omega) hks
    cases hkind : a.kind k with
    | root => exact absurd hkind hroot
    | elem => simp [hkind, elemStr_eq f k]
    | text =>
      have := descendants_leaf h f k hroot (by simp [hkind])
      simp [hkind, this]
    | attr | ns | comment | pi =>
      have := descendants_leaf h f k hroot (by simp [hkind])
      simp [hkind, this]

/-- the text nodes below `i`, in document order, as the specification lists them -/
theorem text_filter (i : Nat) :
    (Spec.allNodes a).filter (fun j => a.kind j == .text && Spec.anc a i j) =
      (Model.descendants a a.size i).filter (fun j => a.kind j == .text) := by
  rw [descendants_eq_filter h, List.filter_filter, Spec.allNodes]
  apply List.filter_congr
  intro j _
  cases hk : a.kind j <;> simp [Arena.isTree, Arena.isAttrOrNs, hk]

/-- **strval_refines** (no range hypothesis is needed) -/
theorem strval_refines' (i : Nat) : Model.strval a i = Spec.strval a i := by
  unfold Model.strval Spec.strval
  cases hk : a.kind i <;> simp only [] <;> rw [elemStr_eq h, text_filter h]

theorem strval_refines (i : Nat) (_hi : i < a.size) : Model.strval a i = Spec.strval a i :=
  strval_refines' h i

end
end Xsel.Strval
