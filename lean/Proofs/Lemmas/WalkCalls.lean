/-
  Proofs/Lemmas/WalkCalls.lean — `walk` at function calls: `gatherFunctionArgs`, the evaluation of the
  arguments in copies of the context, name resolution, user library before builtins.
-/
import Proofs.Lemmas.WalkSteps2

namespace Xsel.Walk
open Xsel Xsel.Syntax

/-- what `eval` does with the value `b` of the base of a call -/
def callSem (pfx : Option Chars) (name : Chars) (args : Exprs) (c : Ctx) (b : Val) : Except Err Val := do
  let c' : Ctx := { c with result := b }
  let vs ← evalArgs Model.sem args c'
  let q ← resolve c.env pfx name
  match lookupQ q c.env.fns with
  | some f => userFn Model.sem c' f vs
  | none =>
    if q.1.isEmpty then
      match builtin Model.sem c' q.2 vs with
      | some r => r
      | none => throw .unknownFn
    else throw .unknownFn

theorem eval_call (base : Expr) (pfx : Option Chars) (name : Chars) (args : Exprs) (c : Ctx) :
    eval Model.sem (.call base pfx name args) c = (eval Model.sem base c >>= callSem pfx name args c) := by
  rw [eval]; rfl

theorem ctx_eta (c : Ctx) : ({ c with result := c.result } : Ctx) = c := by cases c; rfl

theorem walk_of_simE {a : Expr} (h : SimE a) (w : WCtx) :
    (walk tbl (exprTree a) w >>= fun x => (pure x.res : Except WErr Val)) = liftE (eval Model.sem (normCtx a) w.c) := by
  have := h w
  cases hev : eval Model.sem (normCtx a) w.c with
  | error e => rw [hev] at this; rw [show walk tbl (exprTree a) w = .error (.err e) from this]; rfl
  | ok v => rw [hev] at this; obtain ⟨k, hk⟩ := this; rw [hk]; rfl

/-- the arguments of a call, gathered and evaluated left to right, each in a copy of the context -/
theorem walkArgs_dArgs : ∀ (bs : Exprs) (a : Expr) (w : WCtx), (exprTree a).isNt = true → SimE a →
    AllE SimE bs → AllE (fun q => (exprTree q).isNt = true) bs →
    walkArgs tbl (dArgs (exprTree a) bs) w = liftE (evalArgs Model.sem (.cons (normCtx a) (normCtxs bs)) w.c)
  | .nil, a, w, hA, ha, _, _ => by
    rw [dArgs]
    simp only [N, ofList_cons, ofList_nil]
    rw [walkArgs]
    simp only [ntCount_cons, ntCount_nil, isNt_nt]
    simp only [walkArgsNth_nt0]
    rw [walkArgs]
    simp [hA, walkNth_cons_nt0 _ _ _ _ hA]
    rw [normCtxs, evalArgs]
    have := walk_of_simE ha w
    rw [evalArgs]
    cases hev : eval Model.sem (normCtx a) w.c with
    | error e =>
      rw [hev] at this
      have h2 := ha w; rw [hev] at h2
      rw [show walk tbl (exprTree a) w = .error (.err e) from h2]; rfl
    | ok v =>
      have h2 := ha w; rw [hev] at h2
      obtain ⟨k, hk⟩ := h2
      rw [hk]; rfl
  | .cons b bs, a, w, hA, ha, hall, hnt => by
    rw [dArgs]
    simp only [N, ofList_cons, ofList_nil]
    rw [walkArgs]
    simp only [ntCount_cons, ntCount_nil, isNt_nt]
    simp only [walkArgsNth_nt0]
    rw [walkArgs]
    have hd : (dArgs (wrapAt 0 (level b) (dNat b)) bs).isNt = true := by cases bs <;> rfl
    simp [hA, hd, walkNth_cons_nt0 _ _ _ _ hA, walkArgsNth_cons_ntS _ _ _ _ _ hA, walkArgsNth_cons_nt0 _ _ _ _ hd]
    have ih := walkArgs_dArgs bs b w hnt.1 hall.1 hall.2 hnt.2
    simp only [exprTree] at ih
    rw [ih]
    conv => rhs; rw [normCtxs, evalArgs]
    cases hev : eval Model.sem (normCtx a) w.c with
    | error e =>
      have h2 := ha w; rw [hev] at h2
      rw [show walk tbl (exprTree a) w = .error (.err e) from h2]; rfl
    | ok v =>
      have h2 := ha w; rw [hev] at h2
      obtain ⟨k, hk⟩ := h2
      rw [hk]
      show (List.cons v <$> liftE (evalArgs Model.sem (.cons (normCtx b) (normCtxs bs)) w.c)) =
        liftE (evalArgs Model.sem (normCtxs (.cons b bs)) w.c >>= fun vs => pure (v :: vs))
      rw [normCtxs]
      cases evalArgs Model.sem (.cons (normCtx b) (normCtxs bs)) w.c <;> rfl

theorem qname_text (pfx : Option Chars) (name : Chars) :
    (qnameNode pfx name).text = (match pfx with | none => name | some p => p ++ ':' :: name) := by
  cases pfx with
  | none => simp [qnameNode, N, PT.text, PTs.text, tokText]
  | some p => simp [qnameNode, N, PT.text, PTs.text, tokText, tkp, Punct.chars]

theorem split_qname_text (pfx : Option Chars) (name : Chars) (h : qnOk pfx name = true) :
    splitQName (qnameNode pfx name).text = (pfx, name) := by
  rw [qname_text]
  cases pfx with
  | none => simp only [qnOk, Bool.and_true] at h; exact splitQName_none h
  | some p => simp only [qnOk, Bool.and_eq_true] at h; exact splitQName_some h.2 h.1

/-- `execFunctionCall` once the arguments are evaluated -/
theorem callFn_sim (pfx : Option Chars) (name : Chars) (w : WCtx) (vs : List Val) (h : qnOk pfx name = true) :
    Sim (callFn w (qnameNode pfx name).text vs) w.c
      (resolve w.c.env pfx name >>= fun q =>
        match lookupQ q w.c.env.fns with
        | some f => userFn Model.sem w.c f vs
        | none =>
          if q.1.isEmpty then
            match builtin Model.sem w.c q.2 vs with
            | some r => r
            | none => throw .unknownFn
          else throw .unknownFn) := by
  unfold callFn
  rw [split_qname_text pfx name h]
  simp only
  cases resolve w.c.env pfx name with
  | error e => exact Sim.err rfl
  | ok q =>
    show Sim (match lookupQ q w.c.env.fns with | some f => _ | none => _) _
      (match lookupQ q w.c.env.fns with | some f => _ | none => _)
    cases lookupQ q w.c.env.fns with
    | some f =>
      show Sim ((liftE (userFn Model.sem w.c f vs)).map w.set) _ (userFn Model.sem w.c f vs)
      cases userFn Model.sem w.c f vs with
      | error e => exact Sim.err rfl
      | ok v => exact Sim.ok w.principal rfl
    | none =>
      show Sim (if q.1.isEmpty then _ else _) _ (if q.1.isEmpty then _ else _)
      cases q.1.isEmpty with
      | false => exact Sim.err rfl
      | true =>
        show Sim (match builtin Model.sem w.c q.2 vs with | some r => _ | none => _) _
          (match builtin Model.sem w.c q.2 vs with | some r => _ | none => _)
        cases builtin Model.sem w.c q.2 vs with
        | none => exact Sim.err rfl
        | some r =>
          show Sim ((liftE r).map w.set) _ r
          cases r with
          | error e => exact Sim.err rfl
          | ok v => exact Sim.ok w.principal rfl

/-- a function call from the context `w` (an ordinary call, or a call as a step of a path) -/
theorem sim_dCall (pfx : Option Chars) (name : Chars) (args : Exprs) (w : WCtx) (h : qnOk pfx name = true)
    (hall : AllE SimE args) (hnt : AllE (fun q => (exprTree q).isNt = true) args) :
    Sim (walk tbl (dCall pfx name args) w) w.c (callSem pfx name (normCtxs args) w.c w.res) := by
  have hq : (qnameNode pfx name).isNt = true := by cases pfx <;> rfl
  unfold callSem
  rw [show ({ w.c with result := w.res } : Ctx) = w.c from ctx_eta w.c]
  cases args with
  | nil =>
    rw [dCall]
    simp only [N, ofList_cons, ofList_nil]
    rw [walk]
    simp only [lk_FunctionCall]
    have hc : (PTs.cons (qnameNode pfx name) (PTs.cons (tkp .lparen)
        (PTs.cons (PT.nt "FunctionSignature" (PTs.cons (PT.nt "FunctionSignatureNoArgs" (PTs.cons (tkp .rparen) .nil)) .nil)) .nil))).ntCount = 2 := by
      simp [hq]
    simp only [hc]
    simp [walkArgsNth_cons_ntS _ _ _ _ _ hq, PTs.ntText, hq]
    rw [walkArgs]
    simp
    rw [walkArgs]
    simp
    rw [normCtxs, evalArgs]
    have := callFn_sim pfx name w [] h
    simpa [bind, Except.bind] using this
  | cons a as =>
    rw [dCall]
    simp only [N, ofList_cons, ofList_nil]
    rw [walk]
    simp only [lk_FunctionCall]
    have hd : (dArgs (wrapAt 0 (level a) (dNat a)) as).isNt = true := by cases as <;> rfl
    have hc : (PTs.cons (qnameNode pfx name) (PTs.cons (tkp .lparen)
        (PTs.cons (PT.nt "FunctionSignature" (PTs.cons (dArgs (wrapAt 0 (level a) (dNat a)) as) .nil)) .nil))).ntCount = 2 := by
      simp [hq]
    simp only [hc]
    simp [walkArgsNth_cons_ntS _ _ _ _ _ hq, PTs.ntText, hq]
    rw [walkArgs]
    simp [hd, walkArgsNth_cons_nt0 _ _ _ _ hd]
    have ih := walkArgs_dArgs as a w hnt.1 hall.1 hall.2 hnt.2
    simp only [exprTree] at ih
    rw [ih]
    cases hev : evalArgs Model.sem (normCtxs (.cons a as)) w.c with
    | error e =>
      rw [normCtxs] at hev
      rw [hev]
      exact Sim.err rfl
    | ok vs =>
      rw [normCtxs] at hev
      rw [hev]
      have := callFn_sim pfx name w vs h
      simpa [bind, Except.bind, liftE] using this

end Xsel.Walk
