/-
  Proofs/Lemmas/FxThreads.lean — any number of threads on ONE heap; each thread's operations may
  use slices of the shared initial heap AND the thread's own earlier results.  Under every schedule
  each thread obtains, result by result, the values it obtains when it runs alone.
-/
import Proofs.Lemmas.FxConc

namespace Xsel
namespace Effects

/-- an operand: a slice of the shared heap, or the `i`-th result this thread obtained earlier -/
inductive Ref where
  | shared (s : Slice)
  | own (i : Nat)
deriving Repr, Inhabited

def Ref.resolve (own : List Slice) : Ref → Slice
  | .shared s => s
  | .own i => own.getD i default

/-- an operation of a thread's program -/
inductive POp where
  | union (a b : Ref)
  | docOrder (a : Ref)
  | select (c : List Nat)
deriving Repr, Inhabited

def POp.refs : POp → List Ref
  | .union a b => [a, b]
  | .docOrder a => [a]
  | .select _ => []

def POp.resolve (own : List Slice) : POp → Op
  | .union a b => .union (a.resolve own) (b.resolve own)
  | .docOrder a => .docOrder (a.resolve own)
  | .select c => .select c

/-- a reference is in scope: a slice of the shared heap (`< n`) or one of the `k` earlier results -/
def Ref.ok (n k : Nat) : Ref → Prop
  | .shared s => s.arr < n
  | .own i => i < k

def POp.ok (n k : Nat) (p : POp) : Prop := ∀ r ∈ p.refs, r.ok n k

/-- a thread's program is well scoped when it starts with `k` results -/
def threadOk (n : Nat) : Nat → List POp → Prop
  | _, [] => True
  | k, p :: ps => p.ok n k ∧ threadOk n (k + 1) ps

/-- a thread's state: the heap it works on and its own results so far -/
abbrev TState := Heap × List Slice

def TState.step (st : TState) (p : POp) : TState :=
  (((p.resolve st.2).run st.1).1, st.2 ++ [((p.resolve st.2).run st.1).2])

/-- a thread running alone -/
def runThread : TState → List POp → TState
  | st, [] => st
  | st, p :: ps => runThread (st.step p) ps

/-- what a thread's results show -/
def TState.values (st : TState) : List (List Nat) := st.2.map (read st.1)

/-- the shared heap and every thread's own results -/
structure Shared where
  heap : Heap
  own : Nat → List Slice

def Shared.step (s : Shared) (t : Nat) (p : POp) : Shared :=
  { heap := ((p.resolve (s.own t)).run s.heap).1
    own := fun u => if u = t then s.own t ++ [((p.resolve (s.own t)).run s.heap).2] else s.own u }

/-- a schedule: which thread performs which operation next -/
def runShared : Shared → List (Nat × POp) → Shared
  | s, [] => s
  | s, (t, p) :: zs => runShared (s.step t p) zs

/-- the program of thread `t` inside a schedule -/
def opsOf (t : Nat) : List (Nat × POp) → List POp
  | [] => []
  | (u, p) :: zs => if u = t then p :: opsOf t zs else opsOf t zs

/-- thread state `A` (alone) and the thread's view `(hS, ownS)` of the shared execution agree -/
structure Rel (h0 : Heap) (A : TState) (hS : Heap) (ownS : List Slice) : Prop where
  vals : A.2.map (read A.1) = ownS.map (read hS)
  frameA : Frame h0.size h0 A.1
  frameS : Frame h0.size h0 hS
  inA : ∀ s ∈ A.2, s.arr < A.1.size
  inS : ∀ s ∈ ownS, s.arr < hS.size

theorem Rel.length {h0 : Heap} {A : TState} {hS : Heap} {ownS : List Slice} (r : Rel h0 A hS ownS) :
    A.2.length = ownS.length := by
  have := congrArg List.length r.vals
  simpa using this

theorem getD_mem {l : List Slice} {i : Nat} (hi : i < l.length) : l.getD i default ∈ l := by
  rw [List.getD_eq_getElem?_getD, List.getElem?_eq_getElem hi]
  exact List.getElem_mem hi

theorem Rel.read_ref {h0 : Heap} {A : TState} {hS : Heap} {ownS : List Slice} (r : Rel h0 A hS ownS)
    {x : Ref} (hx : x.ok h0.size A.2.length) :
    read A.1 (x.resolve A.2) = read hS (x.resolve ownS) := by
  cases x with
  | shared s => simp only [Ref.resolve]; rw [r.frameA.read hx, r.frameS.read hx]
  | own i =>
    have hi : i < A.2.length := hx
    have hi' : i < ownS.length := r.length ▸ hi
    have := congrArg (fun l => l[i]?) r.vals
    simp only [List.getElem?_map, List.getElem?_eq_getElem hi, List.getElem?_eq_getElem hi',
      Option.map_some, Option.some.injEq] at this
    simp only [Ref.resolve, List.getD_eq_getElem?_getD, List.getElem?_eq_getElem hi,
      List.getElem?_eq_getElem hi', Option.getD_some]
    exact this

theorem resolve_inHeap {h0 h : Heap} {own : List Slice} (f : Frame h0.size h0 h)
    (hin : ∀ s ∈ own, s.arr < h.size) {x : Ref} (hx : x.ok h0.size own.length) :
    (x.resolve own).arr < h.size := by
  cases x with
  | shared s => exact Nat.lt_of_lt_of_le hx f.1
  | own i => exact hin _ (getD_mem hx)

theorem POp.resolve_inHeap {h0 h : Heap} {own : List Slice} (f : Frame h0.size h0 h)
    (hin : ∀ s ∈ own, s.arr < h.size) {p : POp} (hp : p.ok h0.size own.length) :
    (p.resolve own).inHeap h := by
  cases p with
  | union a b =>
    intro s hs
    simp only [POp.resolve, Op.operands, List.mem_cons, List.not_mem_nil, or_false] at hs
    rcases hs with rfl | rfl
    · exact Effects.resolve_inHeap f hin (hp a (by simp [POp.refs]))
    · exact Effects.resolve_inHeap f hin (hp b (by simp [POp.refs]))
  | docOrder a =>
    intro s hs
    simp only [POp.resolve, Op.operands, List.mem_cons, List.not_mem_nil, or_false] at hs
    subst hs
    exact Effects.resolve_inHeap f hin (hp a (by simp [POp.refs]))
  | select c => intro s hs; simp [POp.resolve, Op.operands] at hs

/-- the operation denotes the same node list in both executions -/
theorem Rel.value_eq {h0 : Heap} {A : TState} {hS : Heap} {ownS : List Slice} (r : Rel h0 A hS ownS)
    {p : POp} (hp : p.ok h0.size A.2.length) :
    (p.resolve A.2).value A.1 = (p.resolve ownS).value hS := by
  cases p with
  | union a b =>
    simp only [POp.resolve, Op.value, r.read_ref (hp a (by simp [POp.refs])),
      r.read_ref (hp b (by simp [POp.refs]))]
  | docOrder a => simp only [POp.resolve, Op.value, r.read_ref (hp a (by simp [POp.refs]))]
  | select c => rfl

/-- after appending the result of an operation run on `h`, the results show what they showed plus
    the operation's value -/
theorem values_step {h : Heap} {own : List Slice} (o : Op) (hin : ∀ s ∈ own, s.arr < h.size)
    (ho : o.inHeap h) :
    (own ++ [(o.run h).2]).map (read (o.run h).1) = own.map (read h) ++ [o.value h] := by
  rw [List.map_append]
  congr 1
  · apply List.map_congr_left
    intro s hs
    exact (o.run_frame h).read (hin s hs)
  · simp [Op.run_read ho]

theorem inHeap_step {h : Heap} {own : List Slice} (o : Op) (hin : ∀ s ∈ own, s.arr < h.size) :
    ∀ s ∈ own ++ [(o.run h).2], s.arr < (o.run h).1.size := by
  intro s hs
  rcases List.mem_append.mp hs with hs | hs
  · exact Nat.lt_of_lt_of_le (hin s hs) (o.run_frame h).1
  · have : s = (o.run h).2 := by simpa using hs
    subst this
    exact (o.run_valid h).1

/-- the thread itself performs its next operation: alone and in the shared execution -/
theorem Rel.step {h0 : Heap} {A : TState} {hS : Heap} {ownS : List Slice} (r : Rel h0 A hS ownS)
    {p : POp} (hp : p.ok h0.size A.2.length) :
    Rel h0 (A.step p) ((p.resolve ownS).run hS).1 (ownS ++ [((p.resolve ownS).run hS).2]) := by
  have hpS : p.ok h0.size ownS.length := r.length ▸ hp
  have hA := POp.resolve_inHeap r.frameA r.inA hp
  have hS' := POp.resolve_inHeap r.frameS r.inS hpS
  refine ⟨?_, ?_, ?_, ?_, ?_⟩
  · simp only [TState.step]
    rw [values_step _ r.inA hA, values_step _ r.inS hS', r.vals, r.value_eq hp]
  · exact r.frameA.trans (((p.resolve A.2).run_frame A.1).mono r.frameA.1)
  · exact r.frameS.trans (((p.resolve ownS).run_frame hS).mono r.frameS.1)
  · exact inHeap_step _ r.inA
  · exact inHeap_step _ r.inS

/-- another thread performs an operation on the shared heap: nothing this thread can see changes -/
theorem Rel.foreign {h0 : Heap} {A : TState} {hS hS' : Heap} {ownS : List Slice} (r : Rel h0 A hS ownS)
    (f : Frame hS.size hS hS') : Rel h0 A hS' ownS := by
  refine ⟨?_, r.frameA, r.frameS.trans (f.mono r.frameS.1), r.inA, ?_⟩
  · rw [r.vals]
    apply List.map_congr_left
    intro s hs
    exact (f.read (r.inS s hs)).symm
  · intro s hs; exact Nat.lt_of_lt_of_le (r.inS s hs) f.1

theorem runThread_length (st : TState) (ps : List POp) :
    (runThread st ps).2.length = st.2.length + ps.length := by
  induction ps generalizing st with
  | nil => rfl
  | cons p ps ih => rw [runThread, ih]; simp [TState.step]; omega

/-- **simulation.**  Whatever the schedule, every thread's view of the shared execution agrees with
    its solitary execution. -/
theorem shared_sim (h0 : Heap) (zs : List (Nat × POp)) (A : Nat → TState) (S : Shared)
    (hrel : ∀ t, Rel h0 (A t) S.heap (S.own t))
    (hok : ∀ t, threadOk h0.size (A t).2.length (opsOf t zs)) :
    ∀ t, Rel h0 (runThread (A t) (opsOf t zs)) (runShared S zs).heap ((runShared S zs).own t) := by
  induction zs generalizing A S with
  | nil => exact hrel
  | cons z zs ih =>
    obtain ⟨u, p⟩ := z
    have hu := hok u
    simp only [opsOf] at hu
    -- the new solitary states: only thread `u` moves
    let A' : Nat → TState := fun t => if t = u then (A u).step p else A t
    have hrel' : ∀ t, Rel h0 (A' t) (S.step u p).heap ((S.step u p).own t) := by
      intro t
      by_cases htu : t = u
      · subst htu
        simp only [A', if_pos rfl, Shared.step]
        exact (hrel t).step hu.1
      · simp only [A', if_neg htu, Shared.step]
        exact (hrel t).foreign ((p.resolve (S.own u)).run_frame S.heap)
    have hok' : ∀ t, threadOk h0.size (A' t).2.length (opsOf t zs) := by
      intro t
      by_cases htu : t = u
      · subst htu
        simp only [A', if_pos rfl]
        have : ((A t).step p).2.length = (A t).2.length + 1 := by simp [TState.step]
        rw [this]; exact hu.2
      · simp only [A', if_neg htu]
        have := hok t
        simp only [opsOf, if_neg (Ne.symm htu)] at this
        exact this
    intro t
    have := ih A' (S.step u p) hrel' hok' t
    by_cases htu : t = u
    · subst htu
      simp only [A', if_pos rfl] at this
      simp only [opsOf, runShared]
      exact this
    · simp only [A', if_neg htu] at this
      simp only [opsOf, if_neg (Ne.symm htu), runShared]
      exact this

/-- **interleaving_eq_serial**, `n` threads, operands = shared inputs and own earlier results.
    Start: heap `h0`, no thread has results.  After ANY schedule `zs`, for EVERY thread `t`: the list
    of values of its results is the list it obtains running its program `opsOf t zs` alone on `h0`;
    and the arrays of `h0` are unchanged. -/
theorem interleaving_eq_serial_n (h0 : Heap) (zs : List (Nat × POp))
    (hok : ∀ t, threadOk h0.size 0 (opsOf t zs)) :
    (∀ t, ((runShared ⟨h0, fun _ => []⟩ zs).own t).map (read (runShared ⟨h0, fun _ => []⟩ zs).heap)
          = (runThread (h0, []) (opsOf t zs)).values) ∧
    (∀ id, id < h0.size → (runShared ⟨h0, fun _ => []⟩ zs).heap.arrD id = h0.arrD id) := by
  have base : ∀ t : Nat, Rel h0 ((fun _ => ((h0, []) : TState)) t) h0 ((fun _ => ([] : List Slice)) t) :=
    fun _ => ⟨rfl, Frame.refl _ _, Frame.refl _ _, by simp, by simp⟩
  have key := shared_sim h0 zs (fun _ => (h0, [])) ⟨h0, fun _ => []⟩ base hok
  refine ⟨fun t => (key t).vals.symm, (key 0).frameS.2⟩

/-! ### two threads, as a merge of two programs -/

theorem opsOf_tag_same (t : Nat) (xs : List POp) : opsOf t (xs.map (fun p => (t, p))) = xs := by
  induction xs with
  | nil => rfl
  | cons x xs ih => simp [opsOf, ih]

theorem opsOf_tag_other {t u : Nat} (htu : u ≠ t) (xs : List POp) :
    opsOf t (xs.map (fun p => (u, p))) = [] := by
  induction xs with
  | nil => rfl
  | cons x xs ih => simp [opsOf, htu, ih]

theorem opsOf_merge {xs ys : List POp} {zs : List (Nat × POp)}
    (hi : Interleaving (xs.map (fun p => (0, p))) (ys.map (fun p => (1, p))) zs) :
    opsOf 0 zs = xs ∧ opsOf 1 zs = ys ∧ ∀ t, 2 ≤ t → opsOf t zs = [] := by
  generalize hx : xs.map (fun p => ((0 : Nat), p)) = xs' at hi
  generalize hy : ys.map (fun p => ((1 : Nat), p)) = ys' at hi
  induction hi generalizing xs ys with
  | nil =>
    have h1 : xs = [] := by simpa using hx
    have h2 : ys = [] := by simpa using hy
    subst h1; subst h2; simp [opsOf]
  | left _ ih =>
    cases xs with
    | nil => simp at hx
    | cons x xs =>
      simp only [List.map_cons, List.cons.injEq] at hx
      obtain ⟨rfl, hx⟩ := hx
      obtain ⟨a, b, c⟩ := ih hx hy
      refine ⟨by simp [opsOf, a], by simp [opsOf, b], ?_⟩
      intro t ht
      have : (0 : Nat) ≠ t := by omega
      simp [opsOf, this, c t ht]
  | right _ ih =>
    cases ys with
    | nil => simp at hy
    | cons y ys =>
      simp only [List.map_cons, List.cons.injEq] at hy
      obtain ⟨rfl, hy⟩ := hy
      obtain ⟨a, b, c⟩ := ih hx hy
      refine ⟨by simp [opsOf, a], by simp [opsOf, b], ?_⟩
      intro t ht
      have : (1 : Nat) ≠ t := by omega
      simp [opsOf, this, c t ht]

/-- **interleaving_eq_serial**, two threads: programs `xs` (thread 0) and `ys` (thread 1), well scoped
    over `h0`; for every merge `zs` of the two, each thread's results show what they show when the
    thread runs alone on `h0`, and `h0`'s arrays are unchanged -/
theorem interleaving_eq_serial_two (h0 : Heap) (xs ys : List POp) (zs : List (Nat × POp))
    (hi : Interleaving (xs.map (fun p => (0, p))) (ys.map (fun p => (1, p))) zs)
    (hx : threadOk h0.size 0 xs) (hy : threadOk h0.size 0 ys) :
    let fin := runShared ⟨h0, fun _ => []⟩ zs
    (fin.own 0).map (read fin.heap) = (runThread (h0, []) xs).values ∧
    (fin.own 1).map (read fin.heap) = (runThread (h0, []) ys).values ∧
    (∀ id, id < h0.size → fin.heap.arrD id = h0.arrD id) := by
  intro fin
  obtain ⟨e0, e1, e2⟩ := opsOf_merge hi
  have hok : ∀ t, threadOk h0.size 0 (opsOf t zs) := by
    intro t
    match t with
    | 0 => rw [e0]; exact hx
    | 1 => rw [e1]; exact hy
    | t + 2 => rw [e2 _ (by omega)]; trivial
  obtain ⟨a, b⟩ := interleaving_eq_serial_n h0 zs hok
  refine ⟨?_, ?_, b⟩
  · have := a 0; rw [e0] at this; exact this
  · have := a 1; rw [e1] at this; exact this

end Effects
end Xsel
