/-
  Proofs/Lemmas/StoreDesc.lean — how `Spec.describe` (kinds, names, values, depths, scopes) behaves
  when the arena grows, and which namespace bindings `Store.finish` gives the open element.
-/
import Proofs.Lemmas.StoreWf
import Proofs.Lemmas.StoreScope

namespace Xsel.StoreL
open Xsel Xsel.Store Xsel.Arena Xsel.Spec

/-! ### ancestors do not depend on the fuel or on later cells -/

theorem ancestors_zero (a : Arena) (f : Nat) : Spec.ancestors a f 0 = [] := by
  cases f <;> simp [Spec.ancestors]

theorem ancestors_keep {a a' : Arena} (h : AInv a)
    (hk : ∀ i, i < a.size → (cell a' i).parent = (cell a i).parent) :
    ∀ f g j, j < a.size → j ≤ f → j ≤ g → Spec.ancestors a' f j = Spec.ancestors a g j := by
  intro f
  induction f with
  | zero =>
    intro g j _ hf _
    have : j = 0 := by omega
    subst this
    rw [ancestors_zero, ancestors_zero]
  | succ f ih =>
    intro g j hj _ hg
    by_cases h0 : j = 0
    · subst h0; rw [ancestors_zero, ancestors_zero]
    · cases g with
      | zero => omega
      | succ g =>
        have hb : (j == 0) = false := by simp [h0]
        have hlt := (h.nonroot j (Nat.pos_of_ne_zero h0) hj).2
        simp only [Spec.ancestors, hb, Bool.false_eq_true, if_false, Arena.parent]
        rw [hk j hj, ih g _ (h.parent_lt_size hj) (by omega) (by omega)]

theorem ancestors_fuel {a : Arena} (h : AInv a) {f g j : Nat} (hj : j < a.size) (hf : j ≤ f)
    (hg : j ≤ g) : Spec.ancestors a f j = Spec.ancestors a g j :=
  ancestors_keep h (fun _ _ => rfl) f g j hj hf hg

theorem ancestors_pos {a : Arena} (h : AInv a) {j : Nat} (h0 : 0 < j) (hj : j < a.size) :
    Spec.ancestors a a.size j
      = (cell a j).parent :: Spec.ancestors a a.size (cell a j).parent := by
  have hlt := (h.nonroot j h0 hj).2
  obtain ⟨j', rfl⟩ : ∃ j', j = j' + 1 := ⟨j - 1, by omega⟩
  rw [ancestors_fuel h hj (f := a.size) (g := j' + 1) (by omega) (by omega)]
  have hb : (j' + 1 == 0) = false := by simp
  simp only [Spec.ancestors, hb, Bool.false_eq_true, if_false, Arena.parent]
  rw [ancestors_fuel h (h.parent_lt_size hj) (f := j') (g := a.size) (by omega)
    (by have := h.parent_lt_size hj; omega)]

/-! ### `describe`, cell by cell -/

/-- the namespace bindings recorded in a cell -/
def binds (a : Arena) (i : Nat) : List (Chars × Chars) :=
  (cell a i).nss.map (fun j => ((cell a j).loc, (cell a j).val))

def descOf (a : Arena) (i : Nat) : Option NodeDesc :=
  match (cell a i).kind with
  | .root | .ns => none
  | .elem =>
    some { kind := .elem, uri := (cell a i).uri, loc := (cell a i).loc, val := [],
           depth := depthIn a i, scope := sortBinds (binds a i) }
  | k => some { kind := k, uri := (cell a i).uri, loc := (cell a i).loc, val := (cell a i).val,
                depth := depthIn a i, scope := [] }

theorem describe_eq (a : Arena) : describe a = (List.range a.size).filterMap (descOf a) := rfl

theorem descOf_congr {a a' : Arena} {i : Nat} (hk : (cell a' i).kind = (cell a i).kind)
    (hu : (cell a' i).uri = (cell a i).uri) (hl : (cell a' i).loc = (cell a i).loc)
    (hv : (cell a' i).val = (cell a i).val) (hd : depthIn a' i = depthIn a i)
    (hb : (cell a i).kind = .elem → binds a' i = binds a i) : descOf a' i = descOf a i := by
  unfold descOf
  rw [hk, hu, hl, hv, hd]
  cases hkk : (cell a i).kind <;> simp only []
  rw [hb hkk]

/-- old cells keep their kind, names, value and parent -/
structure Keep (a a' : Arena) : Prop where
  le : a.size ≤ a'.size
  kind : ∀ i, i < a.size → (cell a' i).kind = (cell a i).kind
  uri : ∀ i, i < a.size → (cell a' i).uri = (cell a i).uri
  loc : ∀ i, i < a.size → (cell a' i).loc = (cell a i).loc
  val : ∀ i, i < a.size → (cell a' i).val = (cell a i).val
  parent : ∀ i, i < a.size → (cell a' i).parent = (cell a i).parent

theorem Keep.ancestors_eq {a a' : Arena} (k : Keep a a') (h : AInv a) {j : Nat} (hj : j < a.size) :
    Spec.ancestors a' a'.size j = Spec.ancestors a a.size j :=
  ancestors_keep h k.parent _ _ j hj (by have := k.le; omega) (by omega)

theorem Keep.depthIn_eq {a a' : Arena} (k : Keep a a') (h : AInv a) {j : Nat} (hj : j < a.size) :
    depthIn a' j = depthIn a j := by
  unfold Spec.depthIn; rw [k.ancestors_eq h hj]

theorem Keep.binds_eq {a a' : Arena} (k : Keep a a') (h : AInv a) {i : Nat} (hi : i < a.size)
    (hn : (cell a' i).nss = (cell a i).nss) : binds a' i = binds a i := by
  unfold StoreL.binds
  rw [hn]
  apply List.map_congr_left
  intro j hj
  have := (h.lst .ns i hi j hj).2.1
  rw [k.loc j this, k.val j this]

theorem Keep.descOf_eq {a a' : Arena} (k : Keep a a') (h : AInv a) {i : Nat} (hi : i < a.size)
    (hn : (cell a i).kind = .elem → (cell a' i).nss = (cell a i).nss) :
    descOf a' i = descOf a i :=
  descOf_congr (k.kind i hi) (k.uri i hi) (k.loc i hi) (k.val i hi) (k.depthIn_eq h hi)
    (fun he => k.binds_eq h hi (hn he))

theorem filterMap_congr' {α β : Type} {f g : α → Option β} :
    ∀ {l : List α}, (∀ x ∈ l, f x = g x) → l.filterMap f = l.filterMap g
  | [], _ => rfl
  | x :: t, h => by
    rw [List.filterMap_cons, List.filterMap_cons, h x (List.mem_cons_self ..),
      filterMap_congr' (fun y hy => h y (List.mem_cons_of_mem _ hy))]

theorem filterMap_range_split {β : Type} (f : Nat → Option β) {n m : Nat} (h : n ≤ m) :
    (List.range m).filterMap f
      = (List.range n).filterMap f ++ (List.range' n (m - n)).filterMap f := by
  have : List.range m = List.range n ++ List.range' n (m - n) := by
    rw [List.range_eq_range', List.range_eq_range']
    have e : m = n + (m - n) := by omega
    have := List.range'_append (s := 0) (m := n) (n := m - n) (step := 1)
    simp only [Nat.one_mul, Nat.zero_add] at this
    rw [this, ← e]
  rw [this, List.filterMap_append]

/-- `describe` of a grown arena: the old part, cell by cell, then the new cells -/
theorem Keep.describe_split {a a' : Arena} (k : Keep a a') :
    describe a' = (List.range a.size).filterMap (descOf a')
      ++ (List.range' a.size (a'.size - a.size)).filterMap (descOf a') := by
  rw [describe_eq, filterMap_range_split _ k.le]

end Xsel.StoreL
