/-
  Proofs/Lemmas/SpellRender.lean — from trees to STRINGS and back.

  * `spellToks ts`   : the characters of a token list: a space before every token that is not marked
                       as adjacent to its predecessor, nothing before one that is.
  * `namesOk lc e`   : the names, literals and variable references in `e` are ones the lexer `lc`
                       produces (proper names that are not keywords, literals that can be quoted).
  * `clean lc ts`    : every token is good, the first one is not glued, and every glued one may
                       directly follow its predecessor (`glueOk`); compositional (`clean_append`).
  * `clean_renderTop`: the canonical spelling of a well-formed tree with good names is clean, hence
  * `lexRaw_renderTop`: the tokeniser reads its characters back as exactly `renderTop e`;
  * `placed_renderTop`: in the canonical spelling every operator-name keyword is an operator and
                       stands directly after the last token of an operand (`Seg`: the spelling of an
                       expression takes the flag "an operand is expected" from true to false), so the
                       operator-name rule of `lex` (`retagOps`) changes nothing, hence
  * `calm`, `fnsPlaced_renderTop`, `dotsPlaced_renderTop`: in the canonical spelling every axis-name
                       keyword is followed by `::`, every node-type keyword by `(` and not preceded by
                       `:`, and every `.` that directly follows its predecessor is directly followed
                       by digits — so the function-name rule (`retagFns`) and the trailing-dot rule
                       (`dropTrailDots`) change nothing either (`post_renderTop`), hence
  * `lex_renderTop`  : the lexer — with or without the rules — reads the characters back as exactly
                       `renderTop e`, and with `parse_render`:
  * `parseModel_spelling`, `parseSpec_spelling` : lexing and parsing the characters of the canonical
                       spelling gives the tree back.
-/
import Xsel.Render
import Proofs.Lemmas.LexRound
import Proofs.Lemmas.ParseRender

namespace Xsel.Syntax

/-! ### the characters of a token list -/

/-- a space before every token that does not directly follow its predecessor -/
def spellToks (ts : Toks) : Chars :=
  ts.flatMap (fun t => (if t.glued then [] else [' ']) ++ t.tok.spell)

/-- the same list as input of `spellGlue` (flag: a space is written before the token) -/
def flagItems (ts : Toks) : List (Bool × Tok) := ts.map (fun t => (!t.glued, t.tok))

theorem spellToks_eq (ts : Toks) : spellToks ts = spellGlue (flagItems ts) := by
  unfold spellToks spellGlue flagItems
  rw [List.flatMap_map]
  congr 1
  funext t
  cases t.glued <;> rfl

/-! ### names -/

/-- an element, attribute, function or prefix name: a name of the lexer that is not a keyword -/
def nameOk (lc : LexCfg) (s : Chars) : Bool := isName lc s && (kwOf s).isNone

/-- a string that can be written as a literal: it does not contain both kinds of quote, and no
    backslash (outside the modelled domain of the lexer) -/
def litOk (s : Chars) : Bool := !(s.contains '\'' && s.contains '"') && !s.contains '\\'

def testOk (lc : LexCfg) : NodeTest → Bool
  | .piTarget s => litOk s
  | .nsAny p => nameOk lc p
  | .localAny l => nameOk lc l
  | .qname p l => nameOk lc p && nameOk lc l
  | .name l => nameOk lc l
  | _ => true

def fnOk (lc : LexCfg) (p : Option Chars) (n : Chars) : Bool :=
  (match p with | none => true | some p => nameOk lc p) && nameOk lc n

/-- a variable reference: names of the lexer (keywords are fine after `$`) -/
def varOk (lc : LexCfg) (p : Option Chars) (n : Chars) : Bool :=
  (match p with | none => true | some p => isName lc p) && isName lc n

mutual
/-- every name, literal and variable reference in the tree is one the lexer `lc` reads back -/
def namesOk (lc : LexCfg) : Expr → Bool
  | .bin _ l r => namesOk lc l && namesOk lc r
  | .neg e => namesOk lc e
  | .num _ => true
  | .lit s => litOk s
  | .var p n => varOk lc p n
  | .call b p n as => namesOk lc b && fnOk lc p n && namesOks lc as
  | .root => true
  | .ctx => true
  | .step b _ t ps => namesOk lc b && testOk lc t && namesOks lc ps
  | .filt b p => namesOk lc b && namesOk lc p
def namesOks (lc : LexCfg) : Exprs → Bool
  | .nil => true
  | .cons e es => namesOk lc e && namesOks lc es
end

/-! ### clean token lists -/

/-- good tokens; a glued token has a predecessor (`prev` for the first one) that it may directly follow -/
def tightOk (lc : LexCfg) : Option Tok → Toks → Bool
  | _, [] => true
  | prev, t :: r =>
    tokOk lc t.tok && (!t.glued || (match prev with | some p => glueOk p t.tok | none => false)) &&
      tightOk lc (some t.tok) r

/-- … and the first token is not glued -/
def clean (lc : LexCfg) (ts : Toks) : Bool := tightOk lc none ts

theorem tightOk_cons (lc : LexCfg) (prev : Option Tok) (t : LTok) (r : Toks) :
    tightOk lc prev (t :: r) =
      (tokOk lc t.tok && (!t.glued || (match prev with | some p => glueOk p t.tok | none => false)) &&
        tightOk lc (some t.tok) r) := rfl

theorem tightOk_of_clean {lc : LexCfg} {ts : Toks} (prev : Option Tok) (h : clean lc ts = true) :
    tightOk lc prev ts = true := by
  cases ts with
  | nil => rfl
  | cons t r =>
    unfold clean at h
    rw [tightOk_cons] at h ⊢
    simp only [Bool.and_eq_true, Bool.or_eq_true, Bool.not_eq_true'] at h ⊢
    refine ⟨⟨h.1.1, ?_⟩, h.2⟩
    rcases h.1.2 with hg | hg
    · exact Or.inl hg
    · cases hg

theorem tightOk_append {lc : LexCfg} : ∀ (a : Toks) {b : Toks} (prev : Option Tok),
    tightOk lc prev a = true → clean lc b = true → tightOk lc prev (a ++ b) = true
  | [], _, prev, _, hb => tightOk_of_clean prev hb
  | t :: a, b, prev, ha, hb => by
    rw [List.cons_append, tightOk_cons]
    rw [tightOk_cons] at ha
    simp only [Bool.and_eq_true] at ha ⊢
    exact ⟨ha.1, tightOk_append a _ ha.2 hb⟩

theorem clean_append {lc : LexCfg} {a b : Toks} (ha : clean lc a = true) (hb : clean lc b = true) :
    clean lc (a ++ b) = true := tightOk_append a none ha hb

theorem clean_nil (lc : LexCfg) : clean lc [] = true := rfl

theorem clean_one {lc : LexCfg} {t : Tok} (h : tokOk lc t = true) : clean lc [U t] = true := by
  simp [clean, tightOk, U, h]

theorem clean_cons {lc : LexCfg} {t : Tok} {r : Toks} (h : tokOk lc t = true) (hr : clean lc r = true) :
    clean lc (U t :: r) = true := clean_append (a := [U t]) (clean_one h) hr

theorem clean_p {lc : LexCfg} (x : Punct) {r : Toks} (hr : clean lc r = true) :
    clean lc (U (.p x) :: r) = true := clean_cons rfl hr

theorem clean_kw {lc : LexCfg} (k : Kw) {r : Toks} (hr : clean lc r = true) :
    clean lc (U (.kw k) :: r) = true := clean_cons rfl hr

theorem clean_wrap {lc : LexCfg} {lv min : Nat} {ts : Toks} (h : clean lc ts = true) :
    clean lc (wrap lv min ts) = true := by
  unfold wrap
  split
  · exact clean_p _ (clean_append h (clean_p _ (clean_nil lc)))
  · exact h

/-! ### the glued positions -/

theorem nameStart_ne_colon {lc : LexCfg} {c : Char} (h : isNameStart lc c = true) : (c != ':') = true := by
  have := nameStart_nat lc c h
  simp only [bne_iff_ne, ne_eq, char_eq_nat]
  simp
  omega

theorem glueOk_colon_name {lc : LexCfg} {l : Chars} (h : isName lc l = true) :
    glueOk (.p .colon) (.ncname l) = true := by
  cases l with
  | nil => simp [isName] at h
  | cons c l =>
    simp only [isName, Bool.and_eq_true] at h
    simpa [glueOk, headOk, Tok.spell] using nameStart_ne_colon h.1

theorem glueOk_name_colon (s : Chars) : glueOk (.ncname s) (.p .colon) = true := by
  show (!isNameChar ':' && !foreign ':') = true
  decide

theorem glueOk_colon_star : glueOk (.p .colon) (.p .star) = true := by decide

theorem glueOk_star_colon : glueOk (.p .star) (.p .colon) = true := by decide

theorem glueOk_digits_dot (s : Chars) : glueOk (.digits s) (.p .dot) = true := by
  show (!isDigit '.') = true
  decide

theorem glueOk_dot_digits {s : Chars} (h : s.all isDigit = true) : glueOk (.p .dot) (.digits s) = true := by
  cases s with
  | nil => rfl
  | cons c s =>
    simp only [List.all_cons, Bool.and_eq_true] at h
    have := (digit_nat c).mp h.1
    have hc : (c != '.') = true := by
      simp only [bne_iff_ne, ne_eq, char_eq_nat]
      simp
      omega
    simpa [glueOk, headOk, Tok.spell] using hc

theorem nameOk_tok {lc : LexCfg} {s : Chars} (h : nameOk lc s = true) : tokOk lc (.ncname s) = true := h

theorem nameOk_isName {lc : LexCfg} {s : Chars} (h : nameOk lc s = true) : isName lc s = true := by
  simp only [nameOk, Bool.and_eq_true] at h; exact h.1

/-- `a : b` written as `a:b` -/
theorem clean_triple {lc : LexCfg} {a b c : Tok} (ha : tokOk lc a = true) (hb : tokOk lc b = true)
    (hc : tokOk lc c = true) (hab : glueOk a b = true) (hbc : glueOk b c = true) :
    clean lc [U a, T b, T c] = true := by
  simp [clean, tightOk, U, T, ha, hb, hc, hab, hbc]

theorem litOk_tok {lc : LexCfg} {s : Chars} (h : litOk s = true) : tokOk lc (litTok s) = true := by
  unfold litOk at h
  unfold litTok
  cases hq : s.contains '\'' <;> simp_all [tokOk]

theorem clean_testToks {lc : LexCfg} {t : NodeTest} (h : testOk lc t = true) : clean lc (testToks t) = true := by
  cases t with
  | node => exact clean_kw _ (clean_p _ (clean_p _ (clean_nil lc)))
  | text => exact clean_kw _ (clean_p _ (clean_p _ (clean_nil lc)))
  | comment => exact clean_kw _ (clean_p _ (clean_p _ (clean_nil lc)))
  | pi => exact clean_kw _ (clean_p _ (clean_p _ (clean_nil lc)))
  | piTarget s => exact clean_kw _ (clean_p _ (clean_cons (litOk_tok h) (clean_p _ (clean_nil lc))))
  | any => exact clean_p _ (clean_nil lc)
  | nsAny p => exact clean_triple (nameOk_tok h) rfl rfl (glueOk_name_colon p) glueOk_colon_star
  | localAny l =>
    exact clean_triple rfl rfl (nameOk_tok h) glueOk_star_colon (glueOk_colon_name (nameOk_isName h))
  | qname p l =>
    simp only [testOk, Bool.and_eq_true] at h
    exact clean_triple (nameOk_tok h.1) rfl (nameOk_tok h.2) (glueOk_name_colon p)
      (glueOk_colon_name (nameOk_isName h.2))
  | name l => exact clean_one (nameOk_tok h)

theorem clean_fnToks {lc : LexCfg} {p : Option Chars} {n : Chars} (h : fnOk lc p n = true) :
    clean lc (fnToks p n) = true := by
  cases p with
  | none =>
    simp only [fnOk, Bool.true_and] at h
    exact clean_one (nameOk_tok h)
  | some p =>
    simp only [fnOk, Bool.and_eq_true] at h
    exact clean_triple (nameOk_tok h.1) rfl (nameOk_tok h.2) (glueOk_name_colon p)
      (glueOk_colon_name (nameOk_isName h.2))

theorem dropWhile_nil_all {α} (p : α → Bool) : ∀ (l : List α), l.dropWhile p = [] → l.all p = true
  | [], _ => rfl
  | x :: l, h => by
    cases hx : p x with
    | true =>
      simp only [List.dropWhile_cons, hx, if_true] at h
      simp [hx, dropWhile_nil_all p l h]
    | false => simp [hx] at h

theorem takeWhile_all_self {α} (p : α → Bool) : ∀ (l : List α), (l.takeWhile p).all p = true
  | [] => rfl
  | x :: l => by
    cases hx : p x with
    | true => simp [hx, takeWhile_all_self p l]
    | false => simp [hx]

theorem takeWhile_of_dropWhile_nil {α} (p : α → Bool) (l : List α) (h : l.dropWhile p = []) :
    l.takeWhile p = l := by
  have := List.takeWhile_append_dropWhile (p := p) (l := l)
  rw [h, List.append_nil] at this
  exact this

theorem clean_numToks {lc : LexCfg} {n : Num} (h : numOk n = true) : clean lc (numToks n) = true := by
  unfold numOk at h
  unfold numToks
  simp only at h ⊢
  split at h
  · rename_i hd
    try simp only [hd]
    simp only [Bool.and_eq_true, Bool.not_eq_true'] at h
    have hall := dropWhile_nil_all _ _ hd
    rw [takeWhile_of_dropWhile_nil _ _ hd] at h
    refine clean_one ?_
    simp only [tokOk, Bool.and_eq_true, Bool.not_eq_true']
    exact ⟨h.1, hall⟩
  · rename_i ch fr hd
    try simp only [hd]
    simp only [Bool.and_eq_true, Bool.not_eq_true'] at h
    obtain ⟨⟨⟨⟨_, hip⟩, hfr⟩, hfrd⟩, _⟩ := h
    refine clean_triple ?_ rfl ?_ (glueOk_digits_dot _) (glueOk_dot_digits hfrd)
    · simp only [tokOk, Bool.and_eq_true, Bool.not_eq_true']
      exact ⟨hip, takeWhile_all_self _ _⟩
    · simp only [tokOk, Bool.and_eq_true, Bool.not_eq_true']
      exact ⟨hfr, hfrd⟩

theorem isName_noColon {lc : LexCfg} {s : Chars} (h : isName lc s = true) : s.all (· != ':') = true := by
  cases s with
  | nil => rfl
  | cons c s =>
    simp only [isName, Bool.and_eq_true] at h
    rw [List.all_eq_true] at h ⊢
    intro x hx
    have := nameChar_nat x (h.2 x hx)
    have hne : x ≠ ':' := by
      intro he; subst he
      have h' := h.2 ':' hx
      revert h'; decide
    simpa using hne

theorem varOk_tok {lc : LexCfg} {p : Option Chars} {n : Chars} (h : varOk lc p n = true) :
    tokOk lc (varTok p n) = true := by
  cases p with
  | none =>
    simp only [varOk, Bool.true_and] at h
    simp [varTok, tokOk, h]
  | some p =>
    simp only [varOk, Bool.and_eq_true] at h
    have hnc := isName_noColon h.1
    have h1 : (p ++ ':' :: n).dropWhile (· != ':') = ':' :: n := by
      rw [dropWhile_all _ p _ hnc]; simp [List.dropWhile]
    have h2 : (p ++ ':' :: n).takeWhile (· != ':') = p := by
      rw [takeWhile_all _ p _ hnc]; simp [List.takeWhile]
    simp only [varTok, tokOk, h1, h2, h.1, h.2, Bool.and_self, Bool.or_true]

/-! ### the canonical spelling is clean -/

theorem clean_basePrefix {lc : LexCfg} {b : Expr} (h : clean lc (raw b) = true) :
    clean lc (basePrefix b) = true := by
  by_cases h1 : b = .ctx
  · subst h1; simp [basePrefix, clean_nil]
  by_cases h2 : b = .root
  · subst h2; simpa [basePrefix] using clean_p (lc := lc) .slash (clean_nil lc)
  · rw [basePrefix_of_ne h1 h2]
    exact clean_append (clean_wrap h) (clean_p _ (clean_nil lc))

mutual
theorem clean_raw (lc : LexCfg) : (e : Expr) → wfE e = true → namesOk lc e = true → clean lc (raw e) = true
  | .bin op l r, h, hn => by
    simp only [wfE, namesOk, Bool.and_eq_true] at h hn
    simp only [raw]
    exact clean_append (clean_wrap (clean_raw lc l h.1 hn.1))
      (clean_cons (by cases op with | cmp o => cases o <;> rfl | _ => rfl) (clean_wrap (clean_raw lc r h.2 hn.2)))
  | .neg e, h, hn => by
    simp only [wfE, namesOk] at h hn
    simp only [raw]
    exact clean_p _ (clean_wrap (clean_raw lc e h hn))
  | .num n, h, _ => by
    simp only [wfE] at h
    simp only [raw]
    exact clean_numToks h
  | .lit s, _, hn => by
    simp only [namesOk] at hn
    simp only [raw]
    exact clean_one (litOk_tok hn)
  | .var p n, _, hn => by
    simp only [namesOk] at hn
    simp only [raw]
    exact clean_one (varOk_tok hn)
  | .call b p n as, h, hn => by
    simp only [wfE, namesOk, Bool.and_eq_true] at h hn
    simp only [raw]
    exact clean_append (clean_append (clean_basePrefix (clean_raw lc b h.1 hn.1.1)) (clean_fnToks hn.1.2))
      (clean_p _ (clean_args lc as h.2 hn.2))
  | .root, _, _ => by
    simp only [raw]
    exact clean_p _ (clean_p _ (clean_p _ (clean_nil lc)))
  | .ctx, _, _ => by
    simp only [raw]
    exact clean_p _ (clean_nil lc)
  | .step b ax t ps, h, hn => by
    simp only [wfE, namesOk, Bool.and_eq_true] at h hn
    simp only [raw]
    exact clean_append (clean_basePrefix (clean_raw lc b h.1 hn.1.1))
      (clean_kw _ (clean_p _ (clean_append (clean_testToks hn.1.2) (clean_preds lc ps h.2 hn.2))))
  | .filt b p, h, hn => by
    simp only [wfE, namesOk, Bool.and_eq_true] at h hn
    simp only [raw]
    exact clean_append (clean_wrap (clean_raw lc b h.1 hn.1))
      (clean_p _ (clean_append (clean_wrap (clean_raw lc p h.2 hn.2)) (clean_p _ (clean_nil lc))))
theorem clean_preds (lc : LexCfg) : (ps : Exprs) → wfEs ps = true → namesOks lc ps = true →
    clean lc (renderPreds ps) = true
  | .nil, _, _ => by simp only [renderPreds]; exact clean_nil lc
  | .cons p ps, h, hn => by
    simp only [wfEs, namesOks, Bool.and_eq_true] at h hn
    simp only [renderPreds]
    exact clean_p _ (clean_append (clean_wrap (clean_raw lc p h.1 hn.1)) (clean_p _ (clean_preds lc ps h.2 hn.2)))
theorem clean_args (lc : LexCfg) : (as : Exprs) → wfEs as = true → namesOks lc as = true →
    clean lc (renderArgs as) = true
  | .nil, _, _ => by simp only [renderArgs]; exact clean_p _ (clean_nil lc)
  | .cons a as, h, hn => by
    simp only [wfEs, namesOks, Bool.and_eq_true] at h hn
    have ha := clean_wrap (lv := level a) (min := 0) (clean_raw lc a h.1 hn.1)
    cases as with
    | nil =>
      simp only [renderArgs]
      exact clean_append ha (clean_p _ (clean_nil lc))
    | cons b bs =>
      have := clean_args lc (.cons b bs) h.2 hn.2
      simp only [renderArgs] at this ⊢
      exact clean_append ha (clean_p _ this)
end

theorem clean_renderTop (lc : LexCfg) (e : Expr) (h : wfE e = true) (hn : namesOk lc e = true) :
    clean lc (renderTop e) = true := by
  by_cases hr : e = .root
  · subst hr; exact clean_p _ (clean_nil lc)
  · have hrt : renderTop e = render e 0 := by
      cases e <;> first | rfl | exact absurd rfl hr
    rw [hrt]
    exact clean_wrap (clean_raw lc e h hn)

/-! ### the lexer reads a clean list back -/

theorem glueAllOk_of_tight (lc : LexCfg) : ∀ (ts : Toks) (prev : Option Tok),
    tightOk lc prev ts = true → glueAllOk lc (flagItems ts) = true
  | [], _, _ => rfl
  | [t], _, h => by
    rw [tightOk_cons] at h
    simp only [Bool.and_eq_true] at h
    simpa [flagItems, glueAllOk] using h.1.1
  | t :: t' :: r, prev, h => by
    rw [tightOk_cons] at h
    simp only [Bool.and_eq_true] at h
    have ih := glueAllOk_of_tight lc (t' :: r) (some t.tok) h.2
    have h2 := h.2
    rw [tightOk_cons] at h2
    simp only [Bool.and_eq_true] at h2
    show (tokOk lc t.tok && (!t'.glued || glueOk t.tok t'.tok) && glueAllOk lc (flagItems (t' :: r))) = true
    rw [h.1.1, ih, h2.1.2]
    rfl

theorem glueToks_flagItems : ∀ (ts : Toks), clean lc ts = true → glueToks (flagItems ts) = ts
  | [], _ => rfl
  | t :: r, h => by
    unfold clean at h
    rw [tightOk_cons] at h
    simp only [Bool.and_eq_true, Bool.or_eq_true, Bool.not_eq_true'] at h
    have hg : t.glued = false := by
      rcases h.1.2 with hg | hg
      · exact hg
      · cases hg
    obtain ⟨tok, g⟩ := t
    simp only at hg
    subst hg
    simp [flagItems, glueToks, List.map_map, Function.comp_def]

/-- the tokeniser reads the characters of a clean token list back as that list, flags included -/
theorem lexRaw_spellToks (lc : LexCfg) (ts : Toks) (h : clean lc ts = true) :
    lexRaw lc (spellToks ts) = .ok ts := by
  rw [spellToks_eq, lexRaw_spellGlue lc _ (glueAllOk_of_tight lc ts none h), glueToks_flagItems ts h]

/-- the lexer reads them back and applies its passes (`lc.post`: operator names, function names,
    trailing dots — each when its rule is on) … -/
theorem lex_spellToks (lc : LexCfg) (ts : Toks) (h : clean lc ts = true) :
    lex lc (spellToks ts) = .ok (lc.post ts) :=
  lex_of_lexRaw (lexRaw_spellToks lc ts h)

/-- … hence as that list, if no operator name stands where an operand is expected, no keyword where a
    function name is read and no `.` directly after an integer part without a fraction -/
theorem lex_spellToks_placed (lc : LexCfg) (ts : Toks) (h : clean lc ts = true)
    (ho : lc.opRule = true → opsPlaced true ts = true)
    (hf : lc.fnRule = true → fnsPlaced false ts = true)
    (hd : lc.dotRule = true → dotsPlaced false false ts = true) : lex lc (spellToks ts) = .ok ts := by
  rw [lex_spellToks lc ts h, post_id lc ts ho hf hd]

/-- the tokeniser inverts the canonical spelling -/
theorem lexRaw_renderTop (lc : LexCfg) (e : Expr) (h : wfE e = true) (hn : namesOk lc e = true) :
    lexRaw lc (spellToks (renderTop e)) = .ok (renderTop e) :=
  lexRaw_spellToks lc _ (clean_renderTop lc e h hn)

/-! ### the operator names of the canonical spelling are operators

  `Seg a b ts`: read with the flag "an operand is expected" = `a` before its first token, `ts` has no
  operator-name keyword where an operand is expected, and the flag is `b` after its last token.  The
  spelling of an expression is a `Seg true false` (it starts where an operand is expected and ends
  with a token that ends an operand: a name, a name-test `*`, `)`, `]`, a literal, digits, a variable
  reference, `.`), a binary operator a `Seg false true` — also the multiplication `*`, which the rule
  tells from the name test by the same flag. -/

def Seg (a b : Bool) (ts : Toks) : Prop := opsPlaced a ts = true ∧ expAfter a ts = b

theorem Seg.nil (a : Bool) : Seg a a [] := ⟨rfl, rfl⟩

theorem Seg.append {a b c : Bool} {x y : Toks} (hx : Seg a b x) (hy : Seg b c y) : Seg a c (x ++ y) := by
  obtain ⟨h1, h2⟩ := hx
  obtain ⟨h3, h4⟩ := hy
  subst h2 h4
  exact ⟨by rw [opsPlaced_append, h1, h3]; rfl, by rw [expAfter_append]⟩

theorem Seg.cons {a c : Bool} (t : LTok) {r : Toks} (h1 : (t.tok.isOpKw && a) = false)
    (h2 : Seg (expNext a t.tok) c r) : Seg a c (t :: r) := by
  obtain ⟨h3, h4⟩ := h2
  exact ⟨by simp only [opsPlaced, h1, h3]; rfl, by simpa only [expAfter] using h4⟩

theorem Seg.one {a : Bool} (t : LTok) (h1 : (t.tok.isOpKw && a) = false) : Seg a (expNext a t.tok) [t] :=
  Seg.cons t h1 (Seg.nil _)

theorem seg_wrap {lv min : Nat} {ts : Toks} (h : Seg true false ts) : Seg true false (wrap lv min ts) := by
  unfold wrap
  split
  · exact Seg.cons _ rfl (Seg.append h (Seg.one (a := false) (U (.p .rparen)) rfl))
  · exact h

/-- a binary operator stands after an operand and expects one -/
theorem seg_opTok (op : BinOp) : Seg false true [U (opTok op)] := by
  cases op with
  | cmp o => cases o <;> exact ⟨rfl, rfl⟩
  | _ => exact ⟨rfl, rfl⟩

theorem seg_testToks (t : NodeTest) : Seg true false (testToks t) := by
  cases t <;> exact ⟨rfl, rfl⟩

theorem seg_fnToks (p : Option Chars) (n : Chars) : Seg true false (fnToks p n) := by
  cases p <;> exact ⟨rfl, rfl⟩

theorem seg_numToks (n : Num) : Seg true false (numToks n) := by
  unfold numToks
  simp only
  split <;> exact ⟨rfl, rfl⟩

theorem seg_basePrefix {b : Expr} (h : Seg true false (raw b)) : Seg true true (basePrefix b) := by
  by_cases h1 : b = .ctx
  · subst h1; simpa [basePrefix] using Seg.nil true
  by_cases h2 : b = .root
  · subst h2; simp only [basePrefix]; exact ⟨rfl, rfl⟩
  · rw [basePrefix_of_ne h1 h2]
    exact Seg.append (seg_wrap h) (Seg.one (a := false) (U (.p .slash)) rfl)

mutual
/-- the spelling of an expression starts where an operand is expected and ends an operand; every
    operator name in it stands after an operand -/
theorem seg_raw : (e : Expr) → Seg true false (raw e)
  | .bin op l r => by
    simp only [raw]
    exact Seg.append (seg_wrap (seg_raw l)) (Seg.append (x := [U (opTok op)]) (seg_opTok op) (seg_wrap (seg_raw r)))
  | .neg e => by
    simp only [raw]
    exact Seg.cons _ rfl (seg_wrap (seg_raw e))
  | .num n => by
    simp only [raw]
    exact seg_numToks n
  | .lit s => by
    simp only [raw]
    exact ⟨rfl, rfl⟩
  | .var p n => by
    simp only [raw]
    cases p <;> exact ⟨rfl, rfl⟩
  | .call b p n as => by
    simp only [raw]
    exact Seg.append (Seg.append (seg_basePrefix (seg_raw b)) (seg_fnToks p n))
      (Seg.cons (a := false) _ rfl (seg_args as))
  | .root => by
    simp only [raw]
    exact ⟨rfl, rfl⟩
  | .ctx => by
    simp only [raw]
    exact ⟨rfl, rfl⟩
  | .step b ax t ps => by
    simp only [raw]
    exact Seg.append (seg_basePrefix (seg_raw b))
      (Seg.cons (a := true) _ rfl (Seg.cons (a := false) _ rfl (Seg.append (seg_testToks t) (seg_preds ps))))
  | .filt b p => by
    simp only [raw]
    exact Seg.append (seg_wrap (seg_raw b))
      (Seg.cons (a := false) _ rfl (Seg.append (seg_wrap (seg_raw p)) (Seg.one (a := false) (U (.p .rbrack)) rfl)))
theorem seg_preds : (ps : Exprs) → Seg false false (renderPreds ps)
  | .nil => by simp only [renderPreds]; exact Seg.nil false
  | .cons p ps => by
    simp only [renderPreds]
    exact Seg.cons (a := false) _ rfl (Seg.append (seg_wrap (seg_raw p)) (Seg.cons (a := false) _ rfl (seg_preds ps)))
theorem seg_args : (as : Exprs) → Seg true false (renderArgs as)
  | .nil => by simp only [renderArgs]; exact ⟨rfl, rfl⟩
  | .cons a as => by
    have ha := seg_wrap (lv := level a) (min := 0) (seg_raw a)
    cases as with
    | nil =>
      simp only [renderArgs]
      exact Seg.append ha (Seg.one (a := false) (U (.p .rparen)) rfl)
    | cons b bs =>
      have := seg_args (.cons b bs)
      simp only [renderArgs] at this ⊢
      exact Seg.append ha (Seg.cons (a := false) _ rfl this)
end

/-- **in the canonical spelling the operator-name rule changes nothing**: every `or and div mod`
    keyword of `renderTop e` is an operator and follows an operand (no hypothesis on `e`: names are
    `ncname` tokens in `renderTop e`, whatever they spell) -/
theorem placed_renderTop (e : Expr) : opsPlaced true (renderTop e) = true := by
  by_cases hr : e = .root
  · subst hr; rfl
  · have hrt : renderTop e = render e 0 := by
      cases e <;> first | rfl | exact absurd rfl hr
    rw [hrt]
    exact (seg_wrap (seg_raw e)).1

theorem retagOps_renderTop (e : Expr) : retagOps true (renderTop e) = renderTop e :=
  retagOps_id true _ (placed_renderTop e)

/-! ### the keywords and dots of the canonical spelling stand where the other two rules leave them

  `calm ts`: every axis-name keyword of `ts` is followed by `::`, every node-type keyword by `(`, every
  `:` by a name or `*` (so no keyword is the local part of a QName), and every `.` that directly follows
  its predecessor is directly followed by digits (it is the point inside `1.5`).  The conditions look
  ahead only, and only ask for a token to be there, so they survive appending (`calm_append`); every
  piece of the canonical spelling meets them. -/

/-- the next token is `::` -/
def startsCC : Toks → Bool
  | n :: _ => n.tok == .p .coloncolon
  | [] => false

/-- the next token is an `ncname` or `*` -/
def nameNext : Toks → Bool
  | n :: _ => (match n.tok with | .ncname _ => true | .p .star => true | _ => false)
  | [] => false

def calmAt (t : LTok) (ts : Toks) : Bool :=
  match t.tok with
  | .kw k => k.isOpName || (if k.isNodeType then startsParen ts else startsCC ts)
  | .p .colon => nameNext ts
  | .p .dot => !t.glued || gluedDigitsNext ts
  | _ => true

def calm : Toks → Bool
  | [] => true
  | t :: ts => calmAt t ts && calm ts

theorem startsParen_append {ts : Toks} (b : Toks) (h : startsParen ts = true) : startsParen (ts ++ b) = true := by
  cases ts with
  | nil => simp [startsParen] at h
  | cons n r => rw [startsParen_eq] at h ⊢; exact h

theorem startsCC_append {ts : Toks} (b : Toks) (h : startsCC ts = true) : startsCC (ts ++ b) = true := by
  cases ts with
  | nil => simp [startsCC] at h
  | cons n r => exact h

theorem nameNext_append {ts : Toks} (b : Toks) (h : nameNext ts = true) : nameNext (ts ++ b) = true := by
  cases ts with
  | nil => simp [nameNext] at h
  | cons n r => exact h

theorem gluedDigitsNext_append {ts : Toks} (b : Toks) (h : gluedDigitsNext ts = true) :
    gluedDigitsNext (ts ++ b) = true := by
  cases ts with
  | nil => simp [gluedDigitsNext] at h
  | cons n r => exact h

theorem calmAt_append {t : LTok} {ts : Toks} (b : Toks) (h : calmAt t ts = true) : calmAt t (ts ++ b) = true := by
  obtain ⟨tok, g⟩ := t
  cases tok with
  | kw k =>
    simp only [calmAt, Bool.or_eq_true] at h ⊢
    rcases h with h | h
    · exact Or.inl h
    · refine Or.inr ?_
      cases hk : k.isNodeType
      · rw [hk] at h; exact startsCC_append b h
      · rw [hk] at h; exact startsParen_append b h
  | p x =>
    cases x <;> try exact h
    · exact nameNext_append b h
    · simp only [calmAt, Bool.or_eq_true] at h ⊢
      exact h.imp id (gluedDigitsNext_append b)
  | _ => exact h

theorem calm_append {a b : Toks} (ha : calm a = true) (hb : calm b = true) : calm (a ++ b) = true := by
  induction a with
  | nil => exact hb
  | cons t a ih =>
    simp only [calm, Bool.and_eq_true] at ha
    simp only [List.cons_append, calm, Bool.and_eq_true]
    exact ⟨calmAt_append b ha.1, ih ha.2⟩

theorem calm_nil : calm [] = true := rfl

theorem calm_cons {t : LTok} {r : Toks} (h : calmAt t r = true) (hr : calm r = true) : calm (t :: r) = true := by
  simp only [calm, h, hr, Bool.and_self]

theorem calm_wrap {lv min : Nat} {ts : Toks} (h : calm ts = true) : calm (wrap lv min ts) = true := by
  unfold wrap
  split
  · exact calm_cons rfl (calm_append h (calm_cons (t := U (.p .rparen)) rfl calm_nil))
  · exact h

theorem calmAt_opTok (op : BinOp) (r : Toks) : calmAt (U (opTok op)) r = true := by
  cases op with
  | cmp o => cases o <;> rfl
  | _ => rfl

theorem calm_testToks (t : NodeTest) : calm (testToks t) = true := by
  cases t <;> rfl

theorem calm_fnToks (p : Option Chars) (n : Chars) : calm (fnToks p n) = true := by
  cases p <;> rfl

/-- the `.` of a rendered Number is directly followed by its fraction digits (no hypothesis on `n`) -/
theorem calm_numToks (n : Num) : calm (numToks n) = true := by
  unfold numToks
  simp only
  split <;> rfl

theorem calm_basePrefix {b : Expr} (h : calm (raw b) = true) : calm (basePrefix b) = true := by
  by_cases h1 : b = .ctx
  · subst h1; simp [basePrefix, calm]
  by_cases h2 : b = .root
  · subst h2; simp only [basePrefix]; rfl
  · rw [basePrefix_of_ne h1 h2]
    exact calm_append (calm_wrap h) (calm_cons (t := U (.p .slash)) rfl calm_nil)

mutual
theorem calm_raw : (e : Expr) → calm (raw e) = true
  | .bin op l r => by
    simp only [raw]
    exact calm_append (calm_wrap (calm_raw l)) (calm_cons (calmAt_opTok op _) (calm_wrap (calm_raw r)))
  | .neg e => by
    simp only [raw]
    exact calm_cons rfl (calm_wrap (calm_raw e))
  | .num n => by
    simp only [raw]
    exact calm_numToks n
  | .lit s => by
    simp only [raw]
    rfl
  | .var p n => by
    simp only [raw]
    cases p <;> rfl
  | .call b p n as => by
    simp only [raw]
    exact calm_append (calm_append (calm_basePrefix (calm_raw b)) (calm_fnToks p n))
      (calm_cons rfl (calm_args as))
  | .root => by
    simp only [raw]
    rfl
  | .ctx => by
    simp only [raw]
    rfl
  | .step b ax t ps => by
    simp only [raw]
    exact calm_append (calm_basePrefix (calm_raw b))
      (calm_cons rfl (calm_cons rfl (calm_append (calm_testToks t) (calm_preds ps))))
  | .filt b p => by
    simp only [raw]
    exact calm_append (calm_wrap (calm_raw b))
      (calm_cons rfl (calm_append (calm_wrap (calm_raw p)) (calm_cons (t := U (.p .rbrack)) rfl calm_nil)))
theorem calm_preds : (ps : Exprs) → calm (renderPreds ps) = true
  | .nil => by simp only [renderPreds]; rfl
  | .cons p ps => by
    simp only [renderPreds]
    exact calm_cons rfl (calm_append (calm_wrap (calm_raw p)) (calm_cons rfl (calm_preds ps)))
theorem calm_args : (as : Exprs) → calm (renderArgs as) = true
  | .nil => by simp only [renderArgs]; rfl
  | .cons a as => by
    have ha := calm_wrap (lv := level a) (min := 0) (calm_raw a)
    cases as with
    | nil =>
      simp only [renderArgs]
      exact calm_append ha (calm_cons (t := U (.p .rparen)) rfl calm_nil)
    | cons b bs =>
      have := calm_args (.cons b bs)
      simp only [renderArgs] at this ⊢
      exact calm_append ha (calm_cons rfl this)
end

theorem calm_renderTop (e : Expr) : calm (renderTop e) = true := by
  by_cases hr : e = .root
  · subst hr; rfl
  · have hrt : renderTop e = render e 0 := by
      cases e <;> first | rfl | exact absurd rfl hr
    rw [hrt]
    exact calm_wrap (calm_raw e)

/-- the first token is an axis-name or node-type keyword -/
def headNameKw : Toks → Bool
  | n :: _ => n.tok.isNameKw
  | [] => false

theorem headNameKw_of_nameNext {ts : Toks} (h : nameNext ts = true) : headNameKw ts = false := by
  cases ts with
  | nil => rfl
  | cons n r =>
    obtain ⟨tok, g⟩ := n
    cases tok <;> first | rfl | simp [nameNext] at h

theorem not_call_of_startsCC {ts : Toks} (h : startsCC ts = true) :
    startsParen ts = false ∧ prefixOfCall ts = false := by
  cases ts with
  | nil => simp [startsCC] at h
  | cons n r =>
    obtain ⟨tok, g⟩ := n
    simp only [startsCC, beq_iff_eq] at h
    subst h
    constructor
    · rfl
    · simp [prefixOfCall]

theorem not_prefix_of_startsParen {ts : Toks} (h : startsParen ts = true) : prefixOfCall ts = false := by
  cases ts with
  | nil => simp [startsParen] at h
  | cons n r =>
    rw [startsParen_eq] at h
    obtain ⟨tok, g⟩ := n
    simp only [beq_iff_eq] at h
    subst h
    simp [prefixOfCall]

/-- in a calm list no keyword stands where a function name is read (`pc`: after a `:` there must not
    be a keyword at all) -/
theorem fnsPlaced_of_calm : ∀ (ts : Toks) (pc : Bool), calm ts = true →
    (pc = true → headNameKw ts = false) → fnsPlaced pc ts = true
  | [], _, _, _ => rfl
  | t :: ts, pc, h, hpc => by
    simp only [calm, Bool.and_eq_true] at h
    obtain ⟨tok, g⟩ := t
    cases tok with
    | kw k =>
      have ih := fnsPlaced_of_calm ts false h.2 (by simp)
      have hc := h.1
      simp only [calmAt, Bool.or_eq_true] at hc
      have hbeq : ((Tok.kw k : Tok) == Tok.p Punct.colon) = false := by simp
      simp only [fnsPlaced, hbeq, ih, Bool.and_true, Bool.not_eq_true']
      cases hk : k.isOpName with
      | true => simp [fnHere, hk]
      | false =>
        have hpc' : pc = false := by
          cases pc with
          | false => rfl
          | true => have := hpc rfl; simp [headNameKw, Tok.isNameKw, hk] at this
        subst hpc'
        rw [hk] at hc
        rcases hc with hc | hc
        · cases hc
        · cases hn : k.isNodeType with
          | true =>
            rw [hn] at hc
            simp [fnHere, hn, not_prefix_of_startsParen hc]
          | false =>
            rw [hn] at hc
            have := not_call_of_startsCC hc
            simp [fnHere, this.1, this.2]
    | p x =>
      by_cases hx : x = .colon
      · subst hx
        have hc : nameNext ts = true := h.1
        have ih := fnsPlaced_of_calm ts true h.2 (fun _ => headNameKw_of_nameNext hc)
        simpa [fnsPlaced] using ih
      · have hbeq : ((Tok.p x : Tok) == Tok.p Punct.colon) = false := by simpa using hx
        have ih := fnsPlaced_of_calm ts false h.2 (by simp)
        simp only [fnsPlaced, hbeq, ih, Bool.and_true]
    | ncname s =>
      have hbeq : ((Tok.ncname s : Tok) == Tok.p Punct.colon) = false := by simp
      have ih := fnsPlaced_of_calm ts false h.2 (by simp)
      simp only [fnsPlaced, hbeq, ih, Bool.and_true]
    | digits s =>
      have hbeq : ((Tok.digits s : Tok) == Tok.p Punct.colon) = false := by simp
      have ih := fnsPlaced_of_calm ts false h.2 (by simp)
      simp only [fnsPlaced, hbeq, ih, Bool.and_true]
    | lit dq s =>
      have hbeq : ((Tok.lit dq s : Tok) == Tok.p Punct.colon) = false := by simp
      have ih := fnsPlaced_of_calm ts false h.2 (by simp)
      simp only [fnsPlaced, hbeq, ih, Bool.and_true]
    | var s =>
      have hbeq : ((Tok.var s : Tok) == Tok.p Punct.colon) = false := by simp
      have ih := fnsPlaced_of_calm ts false h.2 (by simp)
      simp only [fnsPlaced, hbeq, ih, Bool.and_true]

/-- in a calm list no `.` is a trailing dot -/
theorem dotsPlaced_of_calm : ∀ (ts : Toks) (pi pdot : Bool), calm ts = true → dotsPlaced pi pdot ts = true
  | [], _, _, _ => rfl
  | t :: ts, pi, pdot, h => by
    simp only [calm, Bool.and_eq_true] at h
    have ih := dotsPlaced_of_calm ts (piNext pdot t) (t.tok == .p .dot) h.2
    simp only [dotsPlaced, ih, Bool.and_true, Bool.not_eq_true']
    obtain ⟨tok, g⟩ := t
    by_cases hd : tok = .p .dot
    · subst hd
      have hc := h.1
      simp only [calmAt, Bool.or_eq_true, Bool.not_eq_true'] at hc
      rcases hc with hc | hc
      · subst hc; simp [dotHere]
      · simp [dotHere, hc]
    · have : (tok == Tok.p Punct.dot) = false := by simpa using hd
      simp [dotHere, this]

/-- **in the canonical spelling the function-name rule changes nothing**: every axis-name keyword of
    `renderTop e` is followed by `::`, every node-type keyword by `(` and preceded by `::` (names are
    `ncname` tokens in `renderTop e`, whatever they spell) -/
theorem fnsPlaced_renderTop (e : Expr) : fnsPlaced false (renderTop e) = true :=
  fnsPlaced_of_calm _ false (calm_renderTop e) (by simp)

theorem retagFns_renderTop (e : Expr) : retagFns false (renderTop e) = renderTop e :=
  retagFns_id false _ (fnsPlaced_renderTop e)

/-- **in the canonical spelling no `.` is dropped**: a stand-alone `.` is written after a space, and the
    `.` of a Number is directly followed by its fraction -/
theorem dotsPlaced_renderTop (e : Expr) : dotsPlaced false false (renderTop e) = true :=
  dotsPlaced_of_calm _ false false (calm_renderTop e)

theorem dropTrailDots_renderTop (e : Expr) : dropTrailDots false false (renderTop e) = renderTop e :=
  dropTrailDots_id false false _ (dotsPlaced_renderTop e)

/-- the three passes of the lexer leave the canonical spelling as it is, whichever of them are on -/
theorem post_renderTop (lc : LexCfg) (e : Expr) : lc.post (renderTop e) = renderTop e :=
  post_id lc _ (fun _ => placed_renderTop e) (fun _ => fnsPlaced_renderTop e) (fun _ => dotsPlaced_renderTop e)

/-- **the lexer inverts the canonical spelling** (with the operator-name, function-name and
    trailing-dot rules — `lc.opRule`, `lc.fnRule`, `lc.dotRule` — or without) -/
theorem lex_renderTop (lc : LexCfg) (e : Expr) (h : wfE e = true) (hn : namesOk lc e = true) :
    lex lc (spellToks (renderTop e)) = .ok (renderTop e) :=
  lex_spellToks_placed lc _ (clean_renderTop lc e h hn) (fun _ => placed_renderTop e)
    (fun _ => fnsPlaced_renderTop e) (fun _ => dotsPlaced_renderTop e)

/-! ### names of a lexer with fewer name start characters are names of one with more -/

theorem isName_mono {lc lc' : LexCfg} (hu : lc.uscore = true → lc'.uscore = true) {s : Chars} (h : isName lc s = true) : isName lc' s = true := by
  cases s with
  | nil => simp [isName] at h
  | cons c s =>
    simp only [isName, isNameStart, Bool.and_eq_true, Bool.or_eq_true] at h ⊢
    refine ⟨?_, h.2⟩
    rcases h.1 with h1 | h1
    · exact Or.inl h1
    · exact Or.inr ⟨hu h1.1, h1.2⟩

theorem nameOk_mono {lc lc' : LexCfg} (hu : lc.uscore = true → lc'.uscore = true) {s : Chars} (h : nameOk lc s = true) : nameOk lc' s = true := by
  simp only [nameOk, Bool.and_eq_true] at h ⊢
  exact ⟨isName_mono hu h.1, h.2⟩

theorem testOk_mono {lc lc' : LexCfg} (hu : lc.uscore = true → lc'.uscore = true) {t : NodeTest} (h : testOk lc t = true) : testOk lc' t = true := by
  cases t with
  | qname p l =>
    simp only [testOk, Bool.and_eq_true] at h ⊢
    exact ⟨nameOk_mono hu h.1, nameOk_mono hu h.2⟩
  | nsAny p => exact nameOk_mono hu h
  | localAny l => exact nameOk_mono hu h
  | name l => exact nameOk_mono hu h
  | _ => exact h

theorem fnOk_mono {lc lc' : LexCfg} (hu : lc.uscore = true → lc'.uscore = true) {p : Option Chars} {n : Chars} (h : fnOk lc p n = true) : fnOk lc' p n = true := by
  cases p with
  | none =>
    simp only [fnOk, Bool.true_and] at h ⊢
    exact nameOk_mono hu h
  | some p =>
    simp only [fnOk, Bool.and_eq_true] at h ⊢
    exact ⟨nameOk_mono hu h.1, nameOk_mono hu h.2⟩

theorem varOk_mono {lc lc' : LexCfg} (hu : lc.uscore = true → lc'.uscore = true) {p : Option Chars} {n : Chars} (h : varOk lc p n = true) : varOk lc' p n = true := by
  cases p with
  | none =>
    simp only [varOk, Bool.true_and] at h ⊢
    exact isName_mono hu h
  | some p =>
    simp only [varOk, Bool.and_eq_true] at h ⊢
    exact ⟨isName_mono hu h.1, isName_mono hu h.2⟩

mutual
theorem namesOk_mono {lc lc' : LexCfg} (hu : lc.uscore = true → lc'.uscore = true) : (e : Expr) → namesOk lc e = true → namesOk lc' e = true
  | .bin _ l r, h => by
    simp only [namesOk, Bool.and_eq_true] at h ⊢
    exact ⟨namesOk_mono hu l h.1, namesOk_mono hu r h.2⟩
  | .neg e, h => by
    simp only [namesOk] at h ⊢
    exact namesOk_mono hu e h
  | .num _, _ => by simp only [namesOk]
  | .lit _, h => by simpa only [namesOk] using h
  | .var p n, h => by
    simp only [namesOk] at h ⊢
    exact varOk_mono hu h
  | .call b p n as, h => by
    simp only [namesOk, Bool.and_eq_true] at h ⊢
    exact ⟨⟨namesOk_mono hu b h.1.1, fnOk_mono hu h.1.2⟩, namesOks_mono hu as h.2⟩
  | .root, _ => by simp only [namesOk]
  | .ctx, _ => by simp only [namesOk]
  | .step b _ t ps, h => by
    simp only [namesOk, Bool.and_eq_true] at h ⊢
    exact ⟨⟨namesOk_mono hu b h.1.1, testOk_mono hu h.1.2⟩, namesOks_mono hu ps h.2⟩
  | .filt b p, h => by
    simp only [namesOk, Bool.and_eq_true] at h ⊢
    exact ⟨namesOk_mono hu b h.1, namesOk_mono hu p h.2⟩
theorem namesOks_mono {lc lc' : LexCfg} (hu : lc.uscore = true → lc'.uscore = true) : (es : Exprs) → namesOks lc es = true → namesOks lc' es = true
  | .nil, _ => by simp only [namesOks]
  | .cons e es, h => by
    simp only [namesOks, Bool.and_eq_true] at h ⊢
    exact ⟨namesOk_mono hu e h.1, namesOks_mono hu es h.2⟩
end

/-- every name of xsel's lexer is a name of XPath's (which also lets names start with `_`) -/
theorem namesOk_model_spec (e : Expr) (h : namesOk lexModel e = true) : namesOk lexSpec e = true :=
  namesOk_mono (lc := lexModel) (lc' := lexSpec) (fun _ => rfl) e h

/-! ### end to end, on strings -/

/-- xsel's reading of the characters of the canonical spelling of `e` is `e` -/
theorem parseModel_spelling (e : Expr) (h : wfE e = true) (hn : namesOk lexModel e = true) :
    parseModel (spellToks (renderTop e)) = .ok (normCtx e) := by
  unfold parseModel
  rw [lex_renderTop lexModel e h hn]
  simp only [parse_render_model e h]

/-- XPath 1.0's reading of the characters of the canonical spelling of `e` is `e` -/
theorem parseSpec_spelling (e : Expr) (h : wfE e = true) (hn : namesOk lexSpec e = true) :
    parseSpec (spellToks (renderTop e)) = .ok (normCtx e) := by
  unfold parseSpec
  rw [lex_renderTop lexSpec e h hn]
  simp only [parse_render_spec e h]

/-! ### evaluating `parseModel` / `parseSpec` on a concrete string in two steps (tokens, then tree) -/

theorem parseModel_of {cs : Chars} (ts : Toks) {e : Expr} (hl : lex lexModel cs = .ok ts)
    (hp : parseToks cfgModel ts = some e) : parseModel cs = .ok e := by
  simp only [parseModel, hl, hp]

theorem parseSpec_of {cs : Chars} (ts : Toks) {e : Expr} (hl : lex lexSpec cs = .ok ts)
    (hp : parseToks cfgSpec ts = some e) : parseSpec cs = .ok e := by
  simp only [parseSpec, hl, hp]

theorem parseModel_err_of {cs : Chars} (ts : Toks) (hl : lex lexModel cs = .ok ts)
    (hp : (parseToks cfgModel ts).isSome = false) (hp' : (parseToks cfgModelLoose ts).isSome = false)
    (hs : hasSlashStar ts = false) : parseModel cs = .err := by
  simp only [Option.isSome_eq_false_iff, Option.isNone_iff_eq_none] at hp
  simp [parseModel, hl, hp, hp', hs]

theorem parseSpec_err_of {cs : Chars} (ts : Toks) (hl : lex lexSpec cs = .ok ts)
    (hp : (parseToks cfgSpec ts).isSome = false) : parseSpec cs = .err := by
  simp only [Option.isSome_eq_false_iff, Option.isNone_iff_eq_none] at hp
  simp [parseSpec, hl, hp]

/-- the two formulations of the operator-name rule — xsel's, on the token list after the lexer
    (`retagOps`), and the specification's, in the parser by grammar position (`Cfg.opNames`) — read
    every canonical spelling alike -/
theorem parseModel_eq_parseSpec_spelling (e : Expr) (h : wfE e = true) (hn : namesOk lexModel e = true) :
    parseModel (spellToks (renderTop e)) = parseSpec (spellToks (renderTop e)) := by
  rw [parseModel_spelling e h hn, parseSpec_spelling e h (namesOk_model_spec e hn)]

end Xsel.Syntax
