/-
  Proofs/Lemmas/ParseRenderMono.lean — unfolding equations of the parser (one step of fuel) and
  fuel monotonicity: more fuel never changes an answer.
-/
import Xsel.Render

namespace Xsel.Syntax

section eqs
variable (c : Cfg) (f : Nat)

theorem pBin_zero (lvl ts) : pBin c 0 lvl ts = none := rfl
theorem pBinRest_zero (lvl l ts) : pBinRest c 0 lvl l ts = none := rfl
theorem pUnary_zero (ts) : pUnary c 0 ts = none := rfl
theorem pUnionRest_zero (l ts) : pUnionRest c 0 l ts = none := rfl
theorem pPath_zero (ts) : pPath c 0 ts = none := rfl
theorem pFilt_zero (e ts) : pFilt c 0 e ts = none := rfl
theorem pPrimary_zero (ts) : pPrimary c 0 ts = none := rfl
theorem pRel_zero (b ts) : pRel c 0 b ts = none := rfl
theorem pStep_zero (b ts) : pStep c 0 b ts = none := rfl
theorem pPreds_zero (ts) : pPreds c 0 ts = none := rfl
theorem pArgs_zero (ts) : pArgs c 0 ts = none := rfl
theorem pArgs1_zero (ts) : pArgs1 c 0 ts = none := rfl

theorem pBin_succ (lvl ts) : pBin c (f+1) lvl ts =
    if lvl ≥ 6 then pUnary c f ts
    else match pBin c f (lvl + 1) ts with
      | some (l, r) => pBinRest c f lvl l r
      | none => none := rfl

theorem pBinRest_succ (lvl lhs ts) : pBinRest c (f+1) lvl lhs ts =
    match ts with
    | t :: r =>
      (match opAt lvl t.tok with
       | some op =>
         (match pBin c f (lvl + 1) r with
          | some (rhs, r') => pBinRest c f lvl (.bin op lhs rhs) r'
          | none => none)
       | none => some (lhs, ts))
    | [] => some (lhs, ts) := rfl

theorem pUnary_succ (ts) : pUnary c (f+1) ts =
    match ts with
    | P .minus _ :: r => (match pUnary c f r with | some (e, r') => some (.neg e, r') | none => none)
    | _ =>
      match pPath c f ts with
      | some (l, r) => pUnionRest c f l r
      | none => none := rfl

theorem pUnionRest_succ (lhs ts) : pUnionRest c (f+1) lhs ts =
    match ts with
    | P .pipe _ :: r =>
      (match pPath c f r with
       | some (rhs, r') => pUnionRest c f (.bin .union lhs rhs) r'
       | none => none)
    | _ => some (lhs, ts) := rfl

theorem pPath_succ (ts) : pPath c (f+1) ts =
    match ts with
    | P .slash _ :: r => if startsStep c r then pRel c f .root r else some (.root, r)
    | P .dslash _ :: r => pRel c f (dos .root) r
    | _ =>
      if startsPrimary c ts then
        match pPrimary c f ts with
        | some (e, r) =>
          (match pFilt c f e r with
           | some (e', P .slash _ :: r') => pRel c f e' r'
           | some (e', P .dslash _ :: r') => pRel c f (dos e') r'
           | other => other)
        | none => none
      else pRel c f .ctx ts := rfl

theorem pFilt_succ (e ts) : pFilt c (f+1) e ts =
    match ts with
    | P .lbrack _ :: r =>
      (match pBin c f 0 r with
       | some (p, P .rbrack _ :: r') => pFilt c f (.filt e p) r'
       | _ => none)
    | _ => some (e, ts) := rfl

theorem pPrimary_succ (ts) : pPrimary c (f+1) ts =
    match ts with
    | P .lparen _ :: r =>
      (match pBin c f 0 r with
       | some (e, P .rparen _ :: r') => some (e, r')
       | _ => none)
    | ⟨.lit _ s, _⟩ :: r => some (.lit s, r)
    | ⟨.var s, _⟩ :: r => some (mkVar s, r)
    | _ =>
      match callStart c ts with
      | some (pfx, name, r) =>
        (match pArgs c f r with
         | some (args, r') => some (.call .ctx pfx name args, r')
         | none => none)
      | none => number c ts := rfl

theorem pRel_succ (base ts) : pRel c (f+1) base ts =
    match pStep c f base ts with
    | some (e, P .slash _ :: r) => pRel c f e r
    | some (e, P .dslash _ :: r) => pRel c f (dos e) r
    | other => other := rfl

theorem pStep_succ (base ts) : pStep c (f+1) base ts =
    match ts with
    | P .dot _ :: r => some (.step base .self .node .nil, r)
    | P .dotdot _ :: r => some (.step base .parent .node .nil, r)
    | P .at _ :: r =>
      (match nodeTest c r with
       | some (t, r') => (match pPreds c f r' with
                          | some (ps, r'') => some (.step base .attribute t ps, r'')
                          | none => none)
       | none => none)
    | K (.axis a) _ :: P .coloncolon _ :: r =>
      (match nodeTest c r with
       | some (t, r') => (match pPreds c f r' with
                          | some (ps, r'') => some (.step base a t ps, r'')
                          | none => none)
       | none => none)
    | _ =>
      match callStart c ts with
      | some (pfx, name, r) =>
        (match pArgs c f r with
         | some (args, r') => some (.call base pfx name args, r')
         | none => none)
      | none =>
        match nodeTest c ts with
        | some (t, r') => (match pPreds c f r' with
                           | some (ps, r'') => some (.step base .child t ps, r'')
                           | none => none)
        | none => none := rfl

theorem pPreds_succ (ts) : pPreds c (f+1) ts =
    match ts with
    | P .lbrack _ :: r =>
      (match pBin c f 0 r with
       | some (p, P .rbrack _ :: r') =>
         (match pPreds c f r' with
          | some (ps, r'') => some (.cons p ps, r'')
          | none => none)
       | _ => none)
    | _ => some (.nil, ts) := rfl

theorem pArgs_succ (ts) : pArgs c (f+1) ts =
    match ts with
    | P .rparen _ :: r => some (.nil, r)
    | _ => pArgs1 c f ts := rfl

theorem pArgs1_succ (ts) : pArgs1 c (f+1) ts =
    match pBin c f 0 ts with
    | some (e, P .comma _ :: r) =>
      (match pArgs1 c f r with
       | some (es, r') => some (.cons e es, r')
       | none => none)
    | some (e, P .rparen _ :: r) => some (.cons e .nil, r)
    | _ => none := rfl

end eqs

structure Mono (c : Cfg) (f : Nat) : Prop where
  bin : ∀ lvl ts r, pBin c f lvl ts = some r → pBin c (f + 1) lvl ts = some r
  binRest : ∀ lvl l ts r, pBinRest c f lvl l ts = some r → pBinRest c (f + 1) lvl l ts = some r
  unary : ∀ ts r, pUnary c f ts = some r → pUnary c (f + 1) ts = some r
  unionRest : ∀ l ts r, pUnionRest c f l ts = some r → pUnionRest c (f + 1) l ts = some r
  path : ∀ ts r, pPath c f ts = some r → pPath c (f + 1) ts = some r
  filt : ∀ e ts r, pFilt c f e ts = some r → pFilt c (f + 1) e ts = some r
  primary : ∀ ts r, pPrimary c f ts = some r → pPrimary c (f + 1) ts = some r
  rel : ∀ b ts r, pRel c f b ts = some r → pRel c (f + 1) b ts = some r
  step : ∀ b ts r, pStep c f b ts = some r → pStep c (f + 1) b ts = some r
  preds : ∀ ts r, pPreds c f ts = some r → pPreds c (f + 1) ts = some r
  args : ∀ ts r, pArgs c f ts = some r → pArgs c (f + 1) ts = some r
  args1 : ∀ ts r, pArgs1 c f ts = some r → pArgs1 c (f + 1) ts = some r

theorem mono_zero (c : Cfg) : Mono c 0 := by
  constructor <;> intros <;> simp_all [pBin_zero, pBinRest_zero, pUnary_zero, pUnionRest_zero, pPath_zero,
    pFilt_zero, pPrimary_zero, pRel_zero, pStep_zero, pPreds_zero, pArgs_zero, pArgs1_zero]

theorem mono_step (c : Cfg) (f : Nat) (ih : Mono c f) : Mono c (f + 1) := by
  constructor
  · intro lvl ts r h
    rw [pBin_succ] at h ⊢
    split
    · rename_i hl; simp only [hl, if_true] at h; exact ih.unary _ _ h
    · rename_i hl; simp only [hl, if_false] at h
      split at h
      · rename_i heq; simp only [ih.bin _ _ _ heq]; exact ih.binRest _ _ _ _ h
      · cases h
  · intro lvl l ts r h
    rw [pBinRest_succ] at h ⊢
    split at h
    · split at h
      · rename_i hop
        split at h
        · rename_i heq; simp only [ih.bin _ _ _ heq]; exact ih.binRest _ _ _ _ h
        · cases h
      · exact h
    · exact h
  · intro ts r h
    rw [pUnary_succ] at h ⊢
    split at h
    · split at h
      · rename_i heq; simp only [ih.unary _ _ heq]; exact h
      · cases h
    · split at h
      · rename_i heq; simp only [ih.path _ _ heq]; exact ih.unionRest _ _ _ h
      · cases h
  · intro l ts r h
    rw [pUnionRest_succ] at h ⊢
    split at h
    · split at h
      · rename_i heq; simp only [ih.path _ _ heq]; exact ih.unionRest _ _ _ h
      · cases h
    · exact h
  · intro ts r h
    rw [pPath_succ] at h ⊢
    split at h
    · split at h
      · rename_i hs; rw [if_pos hs]; exact ih.rel _ _ _ h
      · rename_i hs; rw [if_neg hs]; exact h
    · exact ih.rel _ _ _ h
    · split at h
      · rename_i hs; rw [if_pos hs]
        split at h
        · rename_i hp
          simp only [ih.primary _ _ hp]
          split at h
          · rename_i hf; simp only [ih.filt _ _ _ hf]; exact ih.rel _ _ _ h
          · rename_i hf; simp only [ih.filt _ _ _ hf]; exact ih.rel _ _ _ h
          · rename_i hn1 hn2
            rw [ih.filt _ _ _ h]
            split
            · rename_i heq; exact absurd (heq ▸ h) (hn1 _ _ _)
            · rename_i heq; exact absurd (heq ▸ h) (hn2 _ _ _)
            · rfl
        · cases h
      · rename_i hs; rw [if_neg hs]; exact ih.rel _ _ _ h
  · intro e ts r h
    rw [pFilt_succ] at h ⊢
    split at h
    · split at h
      · rename_i hb; simp only [ih.bin _ _ _ hb]; exact ih.filt _ _ _ h
      · cases h
    · exact h
  · intro ts r h
    rw [pPrimary_succ] at h ⊢
    split at h
    · split at h
      · rename_i hb; simp only [ih.bin _ _ _ hb]; exact h
      · cases h
    · exact h
    · exact h
    · split at h
      · rename_i hc
        split at h
        · rename_i ha; simp only [ih.args _ _ ha]; exact h
        · cases h
      · exact h
  · intro b ts r h
    rw [pRel_succ] at h ⊢
    split at h
    · rename_i hf; simp only [ih.step _ _ _ hf]; exact ih.rel _ _ _ h
    · rename_i hf; simp only [ih.step _ _ _ hf]; exact ih.rel _ _ _ h
    · rename_i hn1 hn2
      rw [ih.step _ _ _ h]
      split
      · rename_i heq; exact absurd (heq ▸ h) (hn1 _ _ _)
      · rename_i heq; exact absurd (heq ▸ h) (hn2 _ _ _)
      · rfl
  · intro b ts r h
    rw [pStep_succ] at h ⊢
    split at h
    · exact h
    · exact h
    · split at h
      · split at h
        · rename_i hp; simp only [ih.preds _ _ hp]; exact h
        · cases h
      · cases h
    · split at h
      · split at h
        · rename_i hp; simp only [ih.preds _ _ hp]; exact h
        · cases h
      · cases h
    · split at h
      · split at h
        · rename_i ha; simp only [ih.args _ _ ha]; exact h
        · cases h
      · split at h
        · split at h
          · rename_i hp; simp only [ih.preds _ _ hp]; exact h
          · cases h
        · cases h
  · intro ts r h
    rw [pPreds_succ] at h ⊢
    split at h
    · split at h
      · rename_i hb
        split at h
        · rename_i hp; simp only [ih.bin _ _ _ hb, ih.preds _ _ hp]; exact h
        · cases h
      · cases h
    · exact h
  · intro ts r h
    rw [pArgs_succ] at h ⊢
    split at h
    · exact h
    · exact ih.args1 _ _ h
  · intro ts r h
    rw [pArgs1_succ] at h ⊢
    split at h
    · rename_i hb
      split at h
      · rename_i ha; simp only [ih.bin _ _ _ hb, ih.args1 _ _ ha]; exact h
      · cases h
    · rename_i hb; simp only [ih.bin _ _ _ hb]; exact h
    · cases h

theorem mono (c : Cfg) : ∀ f, Mono c f
  | 0 => mono_zero c
  | f + 1 => mono_step c f (mono c f)

section le
variable {c : Cfg} {f f' : Nat}

theorem pBin_mono {lvl ts r} (h : pBin c f lvl ts = some r) (hf : f ≤ f') : pBin c f' lvl ts = some r := by
  induction hf with
  | refl => exact h
  | step _ ih => exact (mono c _).bin _ _ _ ih
theorem pBinRest_mono {lvl l ts r} (h : pBinRest c f lvl l ts = some r) (hf : f ≤ f') : pBinRest c f' lvl l ts = some r := by
  induction hf with
  | refl => exact h
  | step _ ih => exact (mono c _).binRest _ _ _ _ ih
theorem pUnary_mono {ts r} (h : pUnary c f ts = some r) (hf : f ≤ f') : pUnary c f' ts = some r := by
  induction hf with
  | refl => exact h
  | step _ ih => exact (mono c _).unary _ _ ih
theorem pUnionRest_mono {l ts r} (h : pUnionRest c f l ts = some r) (hf : f ≤ f') : pUnionRest c f' l ts = some r := by
  induction hf with
  | refl => exact h
  | step _ ih => exact (mono c _).unionRest _ _ _ ih
theorem pPath_mono {ts r} (h : pPath c f ts = some r) (hf : f ≤ f') : pPath c f' ts = some r := by
  induction hf with
  | refl => exact h
  | step _ ih => exact (mono c _).path _ _ ih
theorem pFilt_mono {e ts r} (h : pFilt c f e ts = some r) (hf : f ≤ f') : pFilt c f' e ts = some r := by
  induction hf with
  | refl => exact h
  | step _ ih => exact (mono c _).filt _ _ _ ih
theorem pPrimary_mono {ts r} (h : pPrimary c f ts = some r) (hf : f ≤ f') : pPrimary c f' ts = some r := by
  induction hf with
  | refl => exact h
  | step _ ih => exact (mono c _).primary _ _ ih
theorem pRel_mono {b ts r} (h : pRel c f b ts = some r) (hf : f ≤ f') : pRel c f' b ts = some r := by
  induction hf with
  | refl => exact h
  | step _ ih => exact (mono c _).rel _ _ _ ih
theorem pStep_mono {b ts r} (h : pStep c f b ts = some r) (hf : f ≤ f') : pStep c f' b ts = some r := by
  induction hf with
  | refl => exact h
  | step _ ih => exact (mono c _).step _ _ _ ih
theorem pPreds_mono {ts r} (h : pPreds c f ts = some r) (hf : f ≤ f') : pPreds c f' ts = some r := by
  induction hf with
  | refl => exact h
  | step _ ih => exact (mono c _).preds _ _ ih
theorem pArgs_mono {ts r} (h : pArgs c f ts = some r) (hf : f ≤ f') : pArgs c f' ts = some r := by
  induction hf with
  | refl => exact h
  | step _ ih => exact (mono c _).args _ _ ih
theorem pArgs1_mono {ts r} (h : pArgs1 c f ts = some r) (hf : f ≤ f') : pArgs1 c f' ts = some r := by
  induction hf with
  | refl => exact h
  | step _ ih => exact (mono c _).args1 _ _ ih

end le

end Xsel.Syntax
