/-
  Proofs/Lemmas/MonoEval.lean — every node-set the evaluator produces is listed strictly
  monotonically in document order: ascending or descending, never a mixture (`Val.Mono`).

  The statement is proved for every value-producing position (results, arguments of calls,
  values of bases), by the recursion scheme of `eval_ok`, for the evaluators covered by
  `SemOk` (the model of the Go code and the specification):
   * every axis selector of the model except `self` finishes with the clean-up of its direction
     (`model_axis_sorted`); `self` returns the list it was given;
   * node tests and predicates are filters (sub-lists keep `Pairwise`);
   * unions, filter expressions and per-node evaluated steps finish with `cleanupFwd`;
   * variables are ascending by `EnvOk`; the library never returns a node-set; the user
     function `echo` returns one of its arguments.
-/
import Proofs.Lemmas.EvalAsc

namespace Xsel
open Arena

/-- a node-set listed strictly ascending or strictly descending in document order -/
def Val.Mono : Val → Prop
  | .nodes l => l.Pairwise (· < ·) ∨ l.Pairwise (· > ·)
  | _ => True

theorem Val.Mono.of_asc {v : Val} (h : Val.Asc v) : Val.Mono v := by
  cases v <;> first | exact True.intro | exact Or.inl h

theorem Val.Mono.sublist {l r : List Nat} (hs : r.Sublist l) (h : Val.Mono (.nodes l)) :
    Val.Mono (.nodes r) := by
  rcases h with h | h
  · exact Or.inl (List.Pairwise.sublist hs h)
  · exact Or.inr (List.Pairwise.sublist hs h)

theorem Val.Mono.single (n : Nat) : Val.Mono (.nodes [n]) := Or.inl (by simp)

theorem Val.Mono.nodup {l : List Nat} (h : Val.Mono (.nodes l)) : l.Nodup := by
  rcases h with h | h
  · exact nodup_of_lt h
  · exact nodup_of_gt h

def MonoE (sem : Sem) (a : Arena) (e : Expr) : Prop :=
  ∀ (c : Ctx) (v : Val), EnvOk a c.env → Val.Mono c.result → eval sem e c = .ok v → Val.Mono v

def MonoEs (sem : Sem) (a : Arena) (es : Exprs) : Prop :=
  ∀ (c : Ctx) (vs : List Val), EnvOk a c.env → Val.Mono c.result →
    evalArgs sem es c = .ok vs → ∀ v ∈ vs, Val.Mono v

section
variable {sem : Sem} {a : Arena}

theorem monoE_of_ascE {e : Expr} (h : ascending false e = true) (hsem : SemOk sem) :
    MonoE sem a e := by
  intro c v he _ hv
  exact Val.Mono.of_asc (eval_asc hsem e false c v (by simp) he h hv)

theorem monoE_ctx : MonoE sem a .ctx := by
  intro c v he hc hv
  rw [eval] at hv
  cases hv
  exact hc

theorem userFn_mono (c : Ctx) (f : UserFn) {vs : List Val}
    (hvs : ∀ w ∈ vs, Val.Mono w) {v : Val} (h : userFn sem c f vs = .ok v) : Val.Mono v := by
  cases f <;> simp only [userFn] at h
  case echo =>
    cases vs with
    | nil => cases h
    | cons w t =>
      simp only [Except.ok.injEq] at h
      subst h
      exact hvs _ List.mem_cons_self
  all_goals (cases h; first | done | exact True.intro)

theorem monoE_call {base : Expr} (pfx : Option Chars) (name : Chars) {args : Exprs}
    (ihb : MonoE sem a base) (iha : MonoEs sem a args) : MonoE sem a (.call base pfx name args) := by
  intro c v he hc hv
  rw [eval] at hv
  simp only [bind_ok] at hv
  obtain ⟨b, hb, vs, hvs, q, _, hv⟩ := hv
  have ob := ihb c b he hc hb
  have ovs := iha { c with result := b } vs he ob hvs
  split at hv
  · exact userFn_mono _ _ ovs hv
  · split at hv
    · split at hv
      · next r hr =>
        subst hv
        cases v with
        | nodes l => exact absurd hr (builtin_not_nodes _ _ _ _ l)
        | _ => exact True.intro
      · simp only [throw_ok] at hv
    · simp only [throw_ok] at hv

theorem monoE_step (hsem : SemOk sem) {base : Expr} (ax : Axis) (t : NodeTest) (preds : Exprs)
    (ihb : MonoE sem a base) : MonoE sem a (.step base ax t preds) := by
  intro c v he hc hv
  rw [eval] at hv
  simp only [bind_ok, nodes?_ok] at hv
  obtain ⟨b, hb, s, rfl, hv⟩ := hv
  have ob := ihb c _ he hc hb
  split at hv
  · simp only [bind_ok, pure_ok] at hv
    obtain ⟨_, _, r, hr, rfl⟩ := hv
    exact Or.inl (cleanupFwd_strict _)
  · next hcond =>
    simp only [bind_ok, pure_ok] at hv
    obtain ⟨l0, hl0, r, hr, rfl⟩ := hv
    have hax : sem.axis = Model.axis := by
      rcases hsem with hp | hp
      · simp [hp] at hcond
      · exact hp
    rw [hax] at hl0
    refine Val.Mono.sublist ((applyPreds_sublist _ _ _ _ hr).trans (NodeTest.apply_sublist hl0)) ?_
    by_cases hself : ax = .self
    · subst hself; exact ob
    · have := Tree.model_axis_sorted c.a hself s
      split at this
      · exact Or.inr this
      · exact Or.inl this

theorem monoEs_nil : MonoEs sem a .nil := by
  intro c vs he hc hv
  rw [evalArgs] at hv
  cases hv
  intro v hv; cases hv

theorem monoEs_cons {e : Expr} {es : Exprs} (ihe : MonoE sem a e) (ihes : MonoEs sem a es) :
    MonoEs sem a (.cons e es) := by
  intro c vs he hc hv
  rw [evalArgs] at hv
  simp only [bind_ok, pure_ok] at hv
  obtain ⟨v, hv1, ws, hws, rfl⟩ := hv
  intro w hw
  rcases List.mem_cons.mp hw with rfl | hw
  · exact ihe c _ he hc hv1
  · exact ihes c ws he hc hws w hw

/-- both evaluators map strictly monotone contexts to strictly monotone results -/
theorem eval_mono (hsem : SemOk sem) (e : Expr) : MonoE sem a e :=
  @Expr.rec (fun e => MonoE sem a e) (fun es => MonoEs sem a es)
    (fun _ _ _ _ _ => monoE_of_ascE rfl hsem)
    (fun _ _ => monoE_of_ascE rfl hsem)
    (fun _ => monoE_of_ascE rfl hsem)
    (fun _ => monoE_of_ascE rfl hsem)
    (fun _ _ => monoE_of_ascE rfl hsem)
    (fun _ pfx name _ ihb iha => monoE_call pfx name ihb iha)
    (monoE_of_ascE rfl hsem) monoE_ctx
    (fun _ ax t preds ihb _ => monoE_step hsem ax t preds ihb)
    (fun _ _ _ _ => monoE_of_ascE rfl hsem)
    monoEs_nil
    (fun _ _ ihe ihes => monoEs_cons ihe ihes)
    e

theorem evalArgs_mono (hsem : SemOk sem) (es : Exprs) : MonoEs sem a es :=
  match es with
  | .nil => monoEs_nil
  | .cons e es => monoEs_cons (eval_mono hsem e) (evalArgs_mono hsem es)

end
end Xsel
