/-
  Proofs/Lemmas/HtmlLayout.lean — characterisation of `linearize`: the layout invariant
  `ReprT arr i parent next t` ("the subtree `t` is laid out in `arr` from index `i` on, in pre-order,
  with parent pointer `parent` and next-sibling pointer `next`"), established by `linTree`.
-/
import Proofs.Lemmas.HtmlSpec

namespace Xsel
namespace Html

theorem hasKids_match (f : HForest) :
    (match f with | .nil => false | _ => true) = f.hasKids := by
  cases f <;> rfl

/-! ### the layout invariant -/

mutual
def ReprT (arr : Array HNode) (i : Nat) (parent next : Option Nat) : HTree → Prop
  | .node ty data attrs kids =>
    arr[i]? = some { ty := ty, data := data, attrs := attrs, parent := parent,
                     firstChild := if kids.hasKids then some (i + 1) else none,
                     nextSibling := next }
    ∧ ReprF arr (i + 1) (some i) kids
def ReprF (arr : Array HNode) (i : Nat) (parent : Option Nat) : HForest → Prop
  | .nil => True
  | .cons t ts =>
    ReprT arr i parent (if ts.hasKids then some (i + size t) else none) t
    ∧ ReprF arr (i + size t) parent ts
end

mutual
/-- the invariant only reads the cells `[i, i + size t)` -/
theorem ReprT.frame {arr arr' : Array HNode} {i : Nat} {parent next : Option Nat} (t : HTree)
    (hag : ∀ j, i ≤ j → j < i + size t → arr'[j]? = arr[j]?)
    (h : ReprT arr i parent next t) : ReprT arr' i parent next t :=
  match t, h with
  | .node ty data attrs kids, h => by
    simp only [ReprT] at h ⊢
    simp only [size] at hag
    refine ⟨?_, ?_⟩
    · rw [hag i (Nat.le_refl _) (by omega)]; exact h.1
    · exact ReprF.frame kids (fun j h1 h2 => hag j (by omega) (by omega)) h.2
theorem ReprF.frame {arr arr' : Array HNode} {i : Nat} {parent : Option Nat} (f : HForest)
    (hag : ∀ j, i ≤ j → j < i + fsize f → arr'[j]? = arr[j]?)
    (h : ReprF arr i parent f) : ReprF arr' i parent f :=
  match f, h with
  | .nil, _ => by simp [ReprF]
  | .cons t ts, h => by
    simp only [ReprF] at h ⊢
    simp only [fsize] at hag
    refine ⟨?_, ?_⟩
    · exact ReprT.frame t (fun j h1 h2 => hag j h1 (by omega)) h.1
    · exact ReprF.frame ts (fun j h1 h2 => hag j (by omega) (by omega)) h.2
end

/-! ### `linTree` -/

/-- the freshly pushed cell -/
def cell0 (ty : HType) (data : Chars) (attrs : List HAttr) (parent : Option Nat) (kids : HForest)
    (idx : Nat) : HNode :=
  { ty := ty, data := data, attrs := attrs, parent := parent,
    firstChild := if kids.hasKids then some (idx + 1) else none }

def setNext (k : Nat) (n : HNode) : HNode := { n with nextSibling := some k }

theorem linTree_node (parent : Option Nat) (hasNext : Bool) (ty : HType) (data : Chars)
    (attrs : List HAttr) (kids : HForest) (arr : Array HNode) :
    linTree parent hasNext (.node ty data attrs kids) arr =
      if hasNext then
        (linForest (some arr.size) kids (arr.push (cell0 ty data attrs parent kids arr.size))).modify
          arr.size
          (setNext (linForest (some arr.size) kids
            (arr.push (cell0 ty data attrs parent kids arr.size))).size)
      else linForest (some arr.size) kids (arr.push (cell0 ty data attrs parent kids arr.size)) := by
  cases kids <;> rfl

theorem linForest_nil (parent : Option Nat) (arr : Array HNode) :
    linForest parent .nil arr = arr := by rw [linForest]

theorem linForest_cons (parent : Option Nat) (t : HTree) (ts : HForest) (arr : Array HNode) :
    linForest parent (.cons t ts) arr = linForest parent ts (linTree parent ts.hasKids t arr) := by
  cases ts <;> rfl

mutual
theorem linTree_size (parent : Option Nat) (hasNext : Bool) (t : HTree) (arr : Array HNode) :
    (linTree parent hasNext t arr).size = arr.size + size t :=
  match t with
  | .node ty data attrs kids => by
    rw [linTree_node]
    split
    · rw [Array.size_modify, linForest_size]; simp [size]; omega
    · rw [linForest_size]; simp [size]; omega
theorem linForest_size (parent : Option Nat) (f : HForest) (arr : Array HNode) :
    (linForest parent f arr).size = arr.size + fsize f :=
  match f with
  | .nil => by simp [linForest_nil, fsize]
  | .cons t ts => by
    rw [linForest_cons, linForest_size parent ts, linTree_size parent _ t]; simp [fsize]; omega
end

mutual
/-- earlier cells are not touched -/
theorem linTree_prefix (parent : Option Nat) (hasNext : Bool) (t : HTree) (arr : Array HNode)
    (j : Nat) (hj : j < arr.size) : (linTree parent hasNext t arr)[j]? = arr[j]? :=
  match t with
  | .node ty data attrs kids => by
    rw [linTree_node]
    have hp : ∀ x : HNode, (arr.push x)[j]? = arr[j]? := by
      intro x; rw [Array.getElem?_push]; simp [Nat.ne_of_lt hj]
    split
    · rw [Array.getElem?_modify]
      simp only [Nat.ne_of_gt hj, if_false]
      rw [linForest_prefix _ kids _ j (by simp; omega)]; exact hp _
    · rw [linForest_prefix _ kids _ j (by simp; omega)]; exact hp _
theorem linForest_prefix (parent : Option Nat) (f : HForest) (arr : Array HNode)
    (j : Nat) (hj : j < arr.size) : (linForest parent f arr)[j]? = arr[j]? :=
  match f with
  | .nil => by rw [linForest_nil]
  | .cons t ts => by
    rw [linForest_cons, linForest_prefix parent ts _ j (by rw [linTree_size]; omega),
      linTree_prefix parent _ t arr j hj]
end

mutual
/-- `linTree` lays the subtree out at the end of the array -/
theorem linTree_repr (parent : Option Nat) (hasNext : Bool) (t : HTree) (arr : Array HNode) :
    ReprT (linTree parent hasNext t arr) arr.size parent
      (if hasNext then some (arr.size + size t) else none) t :=
  match t with
  | .node ty data attrs kids => by
    rw [linTree_node]
    have hF : ReprF (linForest (some arr.size) kids
        (arr.push (cell0 ty data attrs parent kids arr.size))) (arr.size + 1) (some arr.size)
        kids := by
      have := linForest_repr (some arr.size) kids
        (arr.push (cell0 ty data attrs parent kids arr.size))
      simpa using this
    have hcell : (linForest (some arr.size) kids
        (arr.push (cell0 ty data attrs parent kids arr.size)))[arr.size]?
          = some (cell0 ty data attrs parent kids arr.size) := by
      rw [linForest_prefix _ kids _ _ (by simp)]; simp
    have hsz : (linForest (some arr.size) kids
        (arr.push (cell0 ty data attrs parent kids arr.size))).size
          = arr.size + (1 + fsize kids) := by
      rw [linForest_size]; simp; omega
    cases hasNext with
    | false =>
      simp only [Bool.false_eq_true, if_false, ReprT]
      exact ⟨by rw [hcell]; rfl, hF⟩
    | true =>
      simp only [if_true, ReprT]
      refine ⟨?_, ?_⟩
      · rw [Array.getElem?_modify]
        simp only [if_true]
        rw [hcell, hsz]
        simp [setNext, cell0, size]
      · refine ReprF.frame kids (fun j h1 h2 => ?_) hF
        rw [Array.getElem?_modify]
        have : arr.size ≠ j := by omega
        simp only [this, if_false]
theorem linForest_repr (parent : Option Nat) (f : HForest) (arr : Array HNode) :
    ReprF (linForest parent f arr) arr.size parent f :=
  match f with
  | .nil => by simp [ReprF]
  | .cons t ts => by
    rw [linForest_cons]
    simp only [ReprF]
    refine ⟨?_, ?_⟩
    · refine ReprT.frame t (fun j h1 h2 => ?_) (linTree_repr parent ts.hasKids t arr)
      exact linForest_prefix parent ts _ j (by rw [linTree_size]; omega)
    · have := linForest_repr parent ts (linTree parent ts.hasKids t arr)
      rw [linTree_size] at this
      exact this
end

/-- the array `adapter` walks over -/
theorem linearize_repr (t : HTree) : ReprT (linearize t) 0 none none t := by
  have := linTree_repr none false t #[]
  simpa [linearize] using this

theorem linearize_size (t : HTree) : (linearize t).size = size t := by
  simp [linearize, linTree_size]

/-! ### the attribute total of the array -/

def sumAttrs (arr : Array HNode) : Nat := arr.foldl (fun n x => n + x.attrs.length) 0

theorem sumAttrs_eq (arr : Array HNode) :
    sumAttrs arr = (arr.toList.map (fun x => x.attrs.length)).sum := by
  unfold sumAttrs
  rw [← Array.foldl_toList]
  generalize arr.toList = l
  suffices h : ∀ (l : List HNode) (k : Nat),
      List.foldl (fun n x => n + x.attrs.length) k l = k + (l.map (fun x => x.attrs.length)).sum by
    simpa using h l 0
  intro l
  induction l with
  | nil => intro k; simp
  | cons a l ih => intro k; simp [ih]; omega

theorem sumAttrs_push (arr : Array HNode) (x : HNode) :
    sumAttrs (arr.push x) = sumAttrs arr + x.attrs.length := by
  simp [sumAttrs_eq]

theorem list_modify_map_sum (g : HNode → Nat) (f : HNode → HNode) (hf : ∀ x, g (f x) = g x) :
    ∀ (l : List HNode) (i : Nat), ((l.modify i f).map g).sum = (l.map g).sum
  | [], i => by simp
  | a :: l, 0 => by simp [hf]
  | a :: l, i + 1 => by simp [list_modify_map_sum g f hf l i]

theorem sumAttrs_modify (arr : Array HNode) (i : Nat) (f : HNode → HNode)
    (hf : ∀ x, (f x).attrs = x.attrs) : sumAttrs (arr.modify i f) = sumAttrs arr := by
  rw [sumAttrs_eq, sumAttrs_eq, Array.toList_modify]
  exact list_modify_map_sum _ f (fun x => by rw [hf]) _ _

mutual
theorem linTree_sumAttrs (parent : Option Nat) (hasNext : Bool) (t : HTree) (arr : Array HNode) :
    sumAttrs (linTree parent hasNext t arr) = sumAttrs arr + tattrs t :=
  match t with
  | .node ty data attrs kids => by
    rw [linTree_node]
    split
    · rw [sumAttrs_modify _ _ _ (by intro x; rfl), linForest_sumAttrs, sumAttrs_push]
      simp [tattrs, cell0]; omega
    · rw [linForest_sumAttrs, sumAttrs_push]; simp [tattrs, cell0]; omega
theorem linForest_sumAttrs (parent : Option Nat) (f : HForest) (arr : Array HNode) :
    sumAttrs (linForest parent f arr) = sumAttrs arr + fattrs f :=
  match f with
  | .nil => by simp [linForest_nil, fattrs]
  | .cons t ts => by
    rw [linForest_cons, linForest_sumAttrs parent ts, linTree_sumAttrs parent _ t]
    simp [fattrs]; omega
end

theorem linearize_sumAttrs (t : HTree) : sumAttrs (linearize t) = tattrs t := by
  rw [linearize, linTree_sumAttrs]; simp [sumAttrs]

end Html
end Xsel
