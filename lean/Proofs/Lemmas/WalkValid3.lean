/-
  Proofs/Lemmas/WalkValid3.lean — `derivTop e` is a derivation tree of the regenerated grammar: the mutual
  induction over expressions.
-/
import Proofs.Lemmas.WalkValid2

namespace Xsel.Walk
open Xsel Xsel.Syntax

theorem rooted_opNode (op : BinOp) (L R : PT) (hL : Rooted (levelName (opLevel op)) L)
    (hR : Rooted (levelName (opLevel op + 1)) R) :
    Rooted (levelName (opLevel op)) (N (levelName (opLevel op)) [N (opNode op) [L, .tk (opTok op), R]]) := by
  have h1 : Rooted (opNode op) (N (opNode op) [L, .tk (opTok op), R]) := by
    refine rooted_infix _ _ _ L R (opTok op) hL hR ?_
    cases op with
    | cmp o => cases o <;> decide +kernel
    | _ => decide +kernel
  refine rooted_unit _ _ _ h1 ?_
  cases op with
  | cmp o => cases o <;> decide +kernel
  | _ => decide +kernel

theorem rooted_relWith (b : Expr) (relB : Head × PT) (natB s : PT) (hs : Rooted "Step" s)
    (h1 : isPathLike b = true → HeadValid relB.1 ∧ Rooted "RelativeLocationPath" relB.2)
    (h2 : Rooted (levelName (level b)) natB) :
    HeadValid (relWith b relB natB s).1 ∧ Rooted "RelativeLocationPath" (relWith b relB natB s).2 := by
  have r1 : Rooted "RelativeLocationPath" (N "RelativeLocationPath" [s]) := rooted_unit _ _ _ hs (by decide +kernel)
  unfold relWith
  have other : ∀ b' : Expr, b' = b →
      HeadValid (if isPathLike b' = true then
          (relB.1, N "RelativeLocationPath" [N "RelativeLocationPathWithStep" [relB.2, tkp .slash, s]])
        else (Head.filt (wrapAt 9 (level b') natB), N "RelativeLocationPath" [s])).1 ∧
      Rooted "RelativeLocationPath" (if isPathLike b' = true then
          (relB.1, N "RelativeLocationPath" [N "RelativeLocationPathWithStep" [relB.2, tkp .slash, s]])
        else (Head.filt (wrapAt 9 (level b') natB), N "RelativeLocationPath" [s])).2 := by
    intro b' hb
    subst hb
    by_cases hp : isPathLike b' = true
    · simp only [hp, if_true]
      obtain ⟨hv, hr⟩ := h1 hp
      refine ⟨hv, ?_⟩
      have : Rooted "RelativeLocationPathWithStep" (N "RelativeLocationPathWithStep" [relB.2, tkp .slash, s]) :=
        rooted_infix _ _ _ relB.2 s (.p .slash) hr hs (by decide +kernel)
      exact rooted_unit _ _ _ this (by decide +kernel)
    · simp only [hp]
      exact ⟨rooted_wrapAt 9 (level b') natB (Nat.le_refl _) (level_le b') h2, r1⟩
  cases b with
  | ctx => exact ⟨trivial, r1⟩
  | root => exact ⟨trivial, r1⟩
  | _ => exact other _ rfl

mutual

theorem rooted_dNat : (e : Expr) → Rooted (levelName (level e)) (dNat e)
  | .bin op l r => by
    rw [dNat]
    exact rooted_opNode op _ _
      (rooted_wrapAt _ _ _ (by have := opLevel_le op; omega) (level_le l) (rooted_dNat l))
      (rooted_wrapAt _ _ _ (opLevel_le op) (level_le r) (rooted_dNat r))
  | .neg e => by
    rw [dNat]
    have h1 : Rooted "UnaryExprNegate" (N "UnaryExprNegate" [tkp .minus, wrapAt 6 (level e) (dNat e)]) := by
      have := rooted_wrapAt 6 (level e) _ (by decide) (level_le e) (rooted_dNat e)
      refine rooted_node _ _ [(false, "-"), (true, "UnaryExpr")] ?_ ?_ (by decide +kernel)
      · simp only [PTs.ofList, rhs_cons_tkp, rhs_cons_nt _ _ _ this, rhs_nil]; rfl
      · simp only [PTs.ofList, valid_cons, valid_tkp, this.2.2, valid_nil]; rfl
    show Rooted "UnaryExpr" _
    exact rooted_unit _ _ _ h1 (by decide +kernel)
  | .num n => by
    rw [dNat]
    show Rooted "FilterExpr" _
    exact rooted_unit _ _ _ (rooted_unit "PrimaryExpr" _ _ (rooted_numNode n) (by decide +kernel)) (by decide +kernel)
  | .lit s => by
    rw [dNat]
    show Rooted "FilterExpr" _
    exact rooted_unit _ _ _ (rooted_unit "PrimaryExpr" _ _ (rooted_litNode s) (by decide +kernel)) (by decide +kernel)
  | .var p n => by
    rw [dNat]
    have : Rooted "VariableReference" (N "VariableReference" [.tk (varTok p n)]) := by
      cases p <;> exact rooted_node _ _ [(false, "variableReference")] rfl rfl (by decide +kernel)
    show Rooted "FilterExpr" _
    exact rooted_unit _ _ _ (rooted_unit "PrimaryExpr" _ _ this (by decide +kernel)) (by decide +kernel)
  | .root => by
    rw [dNat]
    have hr : Rooted "PathExpr" rootPath := by
      unfold rootPath
      exact rooted_unit _ _ _ (rooted_unit "LocationPath" _ _ (rooted_unit "AbsoluteLocationPath" _ _
        (rooted_node "AbsoluteLocationPathOnly" _ [(false, "/")] rfl rfl (by decide +kernel)) (by decide +kernel))
        (by decide +kernel)) (by decide +kernel)
    exact rooted_unit _ _ _ (rooted_parenFilter _ (rooted_lift 0 8 _ (by decide) (by decide) hr)) (by decide +kernel)
  | .ctx => by
    rw [dNat]
    unfold selfStepPath
    exact rooted_unit _ _ _ (rooted_unit "LocationPath" _ _ (rooted_unit "RelativeLocationPath" _ _
      (rooted_unit "Step" _ _ (rooted_unit "AbbreviatedStep" _ _
        (rooted_node "AbbreviatedStepSelf" _ [(false, ".")] rfl rfl (by decide +kernel)) (by decide +kernel))
        (by decide +kernel)) (by decide +kernel)) (by decide +kernel)) (by decide +kernel)
  | .filt b p => by
    rw [dNat]
    have hb := rooted_wrapAt 9 (level b) _ (by decide) (level_le b) (rooted_dNat b)
    have hp := rooted_predNode _ (rooted_wrapAt 0 (level p) _ (by decide) (level_le p) (rooted_dNat p))
    show Rooted "FilterExpr" _
    exact rooted_unit _ _ _ (rooted_pair "FilterExprWithPredicate" _ _ _ _ hb hp (by decide +kernel)) (by decide +kernel)
  | .call b p n as => by
    have hc := rooted_dCall p n as
    by_cases hb : b = .ctx
    · subst hb
      rw [dNat]
      show Rooted "FilterExpr" _
      exact rooted_unit _ _ _ (rooted_unit "PrimaryExpr" _ _ hc (by decide +kernel)) (by decide +kernel)
    · have hl : level (.call b p n as) = 8 := by cases b <;> first | exact absurd rfl hb | rfl
      rw [hl]
      have : dNat (.call b p n as) =
          pathNode (relWith b (dRel b) (dNat b) (N "Step" [dCall p n as])).1
            (relWith b (dRel b) (dNat b) (N "Step" [dCall p n as])).2 := by
        cases b <;> first | exact absurd rfl hb | simp only [dNat]
      rw [this]
      have hs : Rooted "Step" (N "Step" [dCall p n as]) := rooted_unit _ _ _ hc (by decide +kernel)
      obtain ⟨h1, h2⟩ := rooted_relWith b (dRel b) (dNat b) _ hs (fun hp => rooted_dRel b hp) (rooted_dNat b)
      exact rooted_pathNode _ _ h1 h2
  | .step b ax t ps => by
    rw [dNat]
    obtain ⟨h1, h2⟩ := rooted_relWith b (dRel b) (dNat b) _ (rooted_dStep ax t ps) (fun hp => rooted_dRel b hp) (rooted_dNat b)
    exact rooted_pathNode _ _ h1 h2

theorem rooted_dRel : (e : Expr) → isPathLike e = true →
    HeadValid (dRel e).1 ∧ Rooted "RelativeLocationPath" (dRel e).2
  | .step b ax t ps, _ => by
    rw [dRel]
    exact rooted_relWith b (dRel b) (dNat b) _ (rooted_dStep ax t ps) (fun hp => rooted_dRel b hp) (rooted_dNat b)
  | .call b p n as, _ => by
    rw [dRel]
    exact rooted_relWith b (dRel b) (dNat b) _ (rooted_unit _ _ _ (rooted_dCall p n as) (by decide +kernel))
      (fun hp => rooted_dRel b hp) (rooted_dNat b)
  | .bin _ _ _, hp | .neg _, hp | .num _, hp | .lit _, hp | .var _ _, hp | .root, hp | .ctx, hp | .filt _ _, hp => by
    simp [isPathLike] at hp

theorem rooted_dStep (ax : Axis) (t : NodeTest) : (ps : Exprs) → Rooted "Step" (dStep ax t ps)
  | .nil => by
    rw [dStep]
    exact rooted_unit _ _ _ (rooted_pair "StepWithAxisAndNodeTest" _ _ _ _ (rooted_axisNode ax) (rooted_testNode t)
      (by decide +kernel)) (by decide +kernel)
  | .cons p ps => by
    rw [dStep]
    have h1 := rooted_pair "StepWithAxisAndNodeTest" _ _ _ _ (rooted_axisNode ax) (rooted_testNode t) (by decide +kernel)
    have hp := rooted_predNode _ (rooted_wrapAt 0 (level p) _ (by decide) (level_le p) (rooted_dNat p))
    exact rooted_unit _ _ _ (rooted_pair "StepWithAxisAndNodeTestAndPredicate" _ _ _ _ h1 (rooted_dPreds _ hp ps)
      (by decide +kernel)) (by decide +kernel)

theorem rooted_dPreds (first : PT) (hf : Rooted "Predicate" first) : (qs : Exprs) → Rooted "StepWithPredicate" (dPreds first qs)
  | .nil => by
    rw [dPreds]
    exact rooted_unit _ _ _ hf (by decide +kernel)
  | .cons q qs => by
    rw [dPreds]
    have hq := rooted_predNode _ (rooted_wrapAt 0 (level q) _ (by decide) (level_le q) (rooted_dNat q))
    exact rooted_unit _ _ _ (rooted_pair "StepWithPredicateWithAnotherPredicate" _ _ _ _ hf (rooted_dPreds _ hq qs)
      (by decide +kernel)) (by decide +kernel)

theorem rooted_dCall (p : Option Chars) (n : Chars) : (as : Exprs) → Rooted "FunctionCall" (dCall p n as)
  | .nil => by
    rw [dCall]
    have hs : Rooted "FunctionSignature" (N "FunctionSignature" [N "FunctionSignatureNoArgs" [tkp .rparen]]) :=
      rooted_unit _ _ _ (rooted_node "FunctionSignatureNoArgs" _ [(false, ")")] rfl rfl (by decide +kernel)) (by decide +kernel)
    have hq := rooted_qnameNode p n
    refine rooted_node _ _ [(true, "QName"), (false, "("), (true, "FunctionSignature")] ?_ ?_ (by decide +kernel)
    · simp only [PTs.ofList, rhs_cons_nt _ _ _ hq, rhs_cons_tkp, rhs_cons_nt _ _ _ hs, rhs_nil]; rfl
    · simp only [PTs.ofList, valid_cons, hq.2.2, valid_tkp, hs.2.2, valid_nil]; rfl
  | .cons a as => by
    rw [dCall]
    have ha := rooted_wrapAt 0 (level a) _ (by decide) (level_le a) (rooted_dNat a)
    have hs : Rooted "FunctionSignature" (N "FunctionSignature" [dArgs (wrapAt 0 (level a) (dNat a)) as]) :=
      rooted_unit _ _ _ (rooted_dArgs _ ha as) (by decide +kernel)
    have hq := rooted_qnameNode p n
    refine rooted_node _ _ [(true, "QName"), (false, "("), (true, "FunctionSignature")] ?_ ?_ (by decide +kernel)
    · simp only [PTs.ofList, rhs_cons_nt _ _ _ hq, rhs_cons_tkp, rhs_cons_nt _ _ _ hs, rhs_nil]; rfl
    · simp only [PTs.ofList, valid_cons, hq.2.2, valid_tkp, hs.2.2, valid_nil]; rfl

theorem rooted_dArgs (first : PT) (hf : Rooted "OrExpr" first) : (bs : Exprs) → Rooted "FunctionCallArgumentList" (dArgs first bs)
  | .nil => by
    rw [dArgs]
    have : Rooted "FunctionCallArgumentListEndArg" (N "FunctionCallArgumentListEndArg" [first, tkp .rparen]) := by
      refine rooted_node _ _ [(true, "OrExpr"), (false, ")")] ?_ ?_ (by decide +kernel)
      · simp only [PTs.ofList, rhs_cons_nt _ _ _ hf, rhs_cons_tkp, rhs_nil]; rfl
      · simp only [PTs.ofList, valid_cons, hf.2.2, valid_tkp, valid_nil]; rfl
    exact rooted_unit _ _ _ this (by decide +kernel)
  | .cons b bs => by
    rw [dArgs]
    have hb := rooted_wrapAt 0 (level b) _ (by decide) (level_le b) (rooted_dNat b)
    have := rooted_infix "FunctionCallArgumentListArgWithNext" _ _ first _ (.p .comma) hf (rooted_dArgs _ hb bs) (by decide +kernel)
    exact rooted_unit _ _ _ this (by decide +kernel)

end

/-- **derivTop_valid** — the derivation tree of the canonical spelling of EVERY expression is a derivation
    tree of the grammar compiled into the parser (production table regenerated from the parser's slot tables) -/
theorem derivTop_valid (e : Expr) : (derivTop e).valid Generated.productions = true := by
  by_cases hr : e = .root
  · subst hr
    rw [derivTop]
    have hr : Rooted "PathExpr" rootPath := by
      unfold rootPath
      exact rooted_unit _ _ _ (rooted_unit "LocationPath" _ _ (rooted_unit "AbsoluteLocationPath" _ _
        (rooted_node "AbsoluteLocationPathOnly" _ [(false, "/")] rfl rfl (by decide +kernel)) (by decide +kernel))
        (by decide +kernel)) (by decide +kernel)
    exact (rooted_lift 0 8 _ (by decide) (by decide) hr).2.2
  · have : derivTop e = wrapAt 0 (level e) (dNat e) := by
      cases e <;> first | exact absurd rfl hr | rfl
    rw [this]
    exact (rooted_wrapAt 0 (level e) _ (by decide) (level_le e) (rooted_dNat e)).2.2

end Xsel.Walk
