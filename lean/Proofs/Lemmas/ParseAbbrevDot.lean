/-
  Proofs/Lemmas/ParseAbbrevDot.lean — the stand-alone `.` is `self::node()` at the level of tokens.

  A `.` token is part of a Number when it directly precedes or follows a `digits` token (`.5`, `1.`,
  `1.5`); every other `.` is replaced by the tokens of `self::node()`, and `parseToks` finds the same
  tree.
-/
import Proofs.Lemmas.ParseAbbrev

set_option linter.unusedSimpArgs false

namespace Xsel.Syntax

/-! ### the expansion -/

-- `isDigitsTok` (is the token a `digits` token?) is defined in Xsel/Lex.lean

def headDigits : Toks → Bool
  | t :: _ => isDigitsTok t.tok
  | [] => false

/-- `expandDots p ts`: `p` — the token before `ts` is a `digits` token -/
def expandDots : Bool → Toks → Toks
  | _, [] => []
  | p, t :: r =>
    match t.tok with
    | .p .dot =>
      if p || headDigits r then t :: expandDots false r
      else K (.axis .self) t.glued :: P .coloncolon true :: K .node true :: P .lparen true :: P .rparen true ::
        expandDots false r
    | tk => t :: expandDots (isDigitsTok tk) r

/-- every `.` that is not next to a `digits` token becomes `self::node()` -/
def expandDot (ts : Toks) : Toks := expandDots false ts

inductive ExpD : Bool → Toks → Toks → Prop
  | nil (p : Bool) : ExpD p [] []
  | keep (p : Bool) (t : LTok) {r x : Toks} (h : t.tok ≠ .p .dot) :
      ExpD (isDigitsTok t.tok) r x → ExpD p (t :: r) (t :: x)
  | dotKeep (p g : Bool) {r x : Toks} (h : (p || headDigits r) = true) :
      ExpD false r x → ExpD p (⟨.p .dot, g⟩ :: r) (⟨.p .dot, g⟩ :: x)
  | dot (p g : Bool) {r x : Toks} (h : (p || headDigits r) = false) :
      ExpD false r x → ExpD p (⟨.p .dot, g⟩ :: r)
        (⟨.kw (.axis .self), g⟩ :: ⟨.p .coloncolon, true⟩ :: ⟨.kw .node, true⟩ :: ⟨.p .lparen, true⟩ ::
          ⟨.p .rparen, true⟩ :: x)

theorem expandDots_nil (p : Bool) : expandDots p [] = [] := rfl

theorem expandDots_cons_of_ne {t : LTok} (h : t.tok ≠ .p .dot) (p : Bool) (r : Toks) :
    expandDots p (t :: r) = t :: expandDots (isDigitsTok t.tok) r := by
  obtain ⟨tok, g⟩ := t
  simp only at h
  simp only [expandDots]

theorem expandDots_dot_keep {p : Bool} {r : Toks} (h : (p || headDigits r) = true) (g : Bool) :
    expandDots p (⟨.p .dot, g⟩ :: r) = ⟨.p .dot, g⟩ :: expandDots false r := by
  simp only [expandDots, h, if_true]

theorem expandDots_dot {p : Bool} {r : Toks} (h : (p || headDigits r) = false) (g : Bool) :
    expandDots p (⟨.p .dot, g⟩ :: r) = ⟨.kw (.axis .self), g⟩ :: ⟨.p .coloncolon, true⟩ :: ⟨.kw .node, true⟩ ::
      ⟨.p .lparen, true⟩ :: ⟨.p .rparen, true⟩ :: expandDots false r := by
  simp only [expandDots, h]; rfl

theorem expD_expand : ∀ (p : Bool) (ts : Toks), ExpD p ts (expandDots p ts)
  | p, [] => .nil p
  | p, t :: r => by
    by_cases h : t.tok = .p .dot
    · rw [tok_eq_mk h]
      cases hc : (p || headDigits r) with
      | true => rw [expandDots_dot_keep hc]; exact .dotKeep p _ hc (expD_expand false r)
      | false => rw [expandDots_dot hc]; exact .dot p _ hc (expD_expand false r)
    · rw [expandDots_cons_of_ne h]; exact .keep p t h (expD_expand _ r)

theorem ExpD.eq {p : Bool} {ts xs : Toks} (h : ExpD p ts xs) : xs = expandDots p ts := by
  induction h with
  | nil p => rfl
  | keep p t h _ ih => rw [expandDots_cons_of_ne h, ih]
  | dotKeep p g h _ ih => rw [expandDots_dot_keep h, ih]
  | dot p g h _ ih => rw [expandDots_dot h, ih]

/-- the flag matters only in front of a `.` -/
theorem expandDots_flag {ts : Toks} (h : ∀ g r', ts ≠ P .dot g :: r') (p : Bool) :
    expandDots p ts = expandDots false ts := by
  cases ts with
  | nil => rfl
  | cons t r =>
    have ht : t.tok ≠ .p .dot := fun he => h t.glued r (by rw [tok_eq_mk he]; rfl)
    rw [expandDots_cons_of_ne ht, expandDots_cons_of_ne ht]

/-! ### `callStart` -/

theorem callStart_three_none' {c : Cfg} {a d : LTok} {g : Bool} {y : Toks} (h1 : fnTok c d.tok = none) :
    callStart c (a :: ⟨.p .colon, g⟩ :: d :: y) = none := callStart_three_none h1
theorem callStart_four_none' {c : Cfg} {a d e : LTok} {g : Bool} {y : Toks} (h1 : e.tok ≠ .p .lparen) :
    callStart c (a :: ⟨.p .colon, g⟩ :: d :: e :: y) = none := callStart_four_none h1

theorem callStart_expD {c : Cfg} {p : Bool} {ts xs : Toks} (he : ExpD p ts xs) :
    callStart c xs = (callStart c ts).map (fun R => (R.1, R.2.1, expandDots false R.2.2)) := by
  have hcc : ∀ g, (⟨.p .coloncolon, g⟩ : LTok).tok ≠ .p .lparen ∧ (⟨.p .coloncolon, g⟩ : LTok).tok ≠ .p .colon := by
    intro g; simp
  have hkw : ∀ k g, (⟨.kw k, g⟩ : LTok).tok ≠ .p .lparen ∧ (⟨.kw k, g⟩ : LTok).tok ≠ .p .colon := by
    intro k g; simp
  have hdot : ∀ g, (⟨.p .dot, g⟩ : LTok).tok ≠ .p .lparen ∧ (⟨.p .dot, g⟩ : LTok).tok ≠ .p .colon := by
    intro g; simp
  have hP : ∀ x g, fnTok c (⟨.p x, g⟩ : LTok).tok = none := fun _ _ => rfl
  cases he with
  | nil => rfl
  | dotKeep _ g _ he' => rw [callStart_none_of_fnTok (hP .dot g), callStart_none_of_fnTok (hP .dot g)]; rfl
  | dot _ g _ he' =>
    rw [callStart_none_of_fnTok (hP .dot g), callStart_two_none (hcc true).1 (hcc true).2]; rfl
  | keep _ a ha he' =>
    cases he' with
    | nil => rfl
    | dotKeep _ g _ he' => rw [callStart_two_none (hdot g).1 (hdot g).2, callStart_two_none (hdot g).1 (hdot g).2]; rfl
    | dot _ g _ he' => rw [callStart_two_none (hkw _ g).1 (hkw _ g).2, callStart_two_none (hdot g).1 (hdot g).2]; rfl
    | keep _ b hb he' =>
      rename_i r x
      by_cases h1 : b.tok = .p .lparen
      · rw [tok_eq_mk h1] at he' ⊢
        rw [he'.eq]
        simp only [callStart]
        split
        · split <;> simp [Option.map_map, Function.comp_def, isDigitsTok]
        · simp [Option.map_map, Function.comp_def, isDigitsTok]
      · by_cases h2 : b.tok = .p .colon
        · rw [tok_eq_mk h2] at he' ⊢
          cases he' with
          | nil => rfl
          | dotKeep _ g _ he' => rw [callStart_three_none' (hP .dot g), callStart_three_none' (hP .dot g)]; rfl
          | dot _ g _ he' => rw [callStart_four_none' (hcc true).1, callStart_three_none' (hP .dot g)]; rfl
          | keep _ d hd he' =>
            cases he' with
            | nil => rfl
            | dotKeep _ g _ he' => rw [callStart_four_none' (hdot g).1, callStart_four_none' (hdot g).1]; rfl
            | dot _ g _ he' => rw [callStart_four_none' (hkw _ g).1, callStart_four_none' (hdot g).1]; rfl
            | keep _ e hE he' =>
              by_cases h3 : e.tok = .p .lparen
              · rw [tok_eq_mk h3] at he' ⊢
                rw [he'.eq]
                simp only [callStart]
                split
                · split <;> simp [isDigitsTok]
                · rfl
              · rw [callStart_four_none' h3, callStart_four_none' h3]; rfl
        · rw [callStart_two_none h1 h2, callStart_two_none h1 h2]; rfl

theorem callStart_expandDots_some {c : Cfg} {q : Bool} {ts : Toks} {p : Option Chars} {n : Chars} {r : Toks}
    (h : callStart c ts = some (p, n, r)) : callStart c (expandDots q ts) = some (p, n, expandDots false r) := by
  rw [callStart_expD (expD_expand q ts), h]; rfl

theorem callStart_expandDots_none {c : Cfg} {q : Bool} {ts : Toks} (h : callStart c ts = none) :
    callStart c (expandDots q ts) = none := by
  rw [callStart_expD (expD_expand q ts), h]; rfl

/-! ### heads of expansions -/

theorem expandDots_eq_cons {p : Bool} {ts : Toks} {t : LTok} {y : Toks} (h : expandDots p ts = t :: y)
    (ht : t.tok ≠ .kw (.axis .self)) : ∃ r, ts = t :: r ∧ y = expandDots (isDigitsTok t.tok) r := by
  have he := expD_expand p ts
  rw [h] at he
  cases he with
  | keep _ _ _ he' => exact ⟨_, rfl, he'.eq⟩
  | dotKeep _ g _ he' => exact ⟨_, rfl, he'.eq⟩
  | dot _ g _ he' => exact absurd rfl ht

theorem expandDots_not_head {x : Punct} {p : Bool} {r : Toks} (h : ∀ g r', r ≠ P x g :: r') :
    ∀ g r', expandDots p r ≠ P x g :: r' := by
  intro g r' he
  obtain ⟨r0, h0, _⟩ := expandDots_eq_cons he (by simp [P])
  exact h _ _ h0

/-! ### `startsStep`, `startsPrimary` -/

theorem startsStep_expD {c : Cfg} {p : Bool} {ts xs : Toks} (he : ExpD p ts xs) : startsStep c xs = startsStep c ts := by
  cases he with
  | nil => rfl
  | dotKeep _ g _ he' => rfl
  | dot _ g _ he' => rfl
  | keep _ a ha he' =>
    rcases a with ⟨(x|k|s|s|⟨b,s⟩|s), g⟩
    · cases x <;> rfl
    all_goals rfl

theorem startsPrimary_expD {c : Cfg} {p : Bool} {ts xs : Toks} (he : ExpD p ts xs) :
    startsPrimary c xs = startsPrimary c ts := by
  have hcs := callStart_expD (c := c) he
  cases he with
  | nil => rfl
  | dotKeep _ g _ he' =>
    change startsPrimary c (P .dot g :: _) = startsPrimary c (P .dot g :: _)
    rw [startsPrimary_dot_eq, startsPrimary_dot_eq]
    cases he' with
    | nil => rfl
    | dotKeep _ g _ he' => rfl
    | dot _ g _ he' => rfl
    | keep _ b hb he' => rcases b with ⟨(x|k|s|s|⟨b,s⟩|s), g'⟩ <;> rfl
  | dot _ g hd he' =>
    rename_i r x
    change _ = startsPrimary c (P .dot g :: _)
    rw [startsPrimary_dot_eq]
    have h1 : startsPrimary c (⟨.kw (.axis .self), g⟩ :: ⟨.p .coloncolon, true⟩ :: ⟨.kw .node, true⟩ ::
        ⟨.p .lparen, true⟩ :: ⟨.p .rparen, true⟩ :: x) = false := by
      simp [startsPrimary, callStart_two_none]
    rw [h1]
    cases r with
    | nil => rfl
    | cons b r' =>
      rcases b with ⟨(x|k|s|s|⟨b,s⟩|s), g'⟩
      case digits => simp [headDigits, isDigitsTok] at hd
      all_goals rfl
  | keep _ a ha he' =>
    rcases a with ⟨(x|k|s|s|⟨b,s⟩|s), g⟩
    · cases x
      case dot => exact absurd rfl ha
      all_goals simp [startsPrimary, hcs]
    all_goals simp [startsPrimary, hcs]

/-! ### `number` -/

/-- the remainder does not start with `.` (nothing can follow a complete operand that starts so) -/
def NoDot (r : Toks) : Prop := ∀ g r', r ≠ P .dot g :: r'

theorem noDot_nil : NoDot [] := fun _ _ h => by cases h
theorem noDot_cons {t : LTok} {r : Toks} (h : t.tok ≠ .p .dot) : NoDot (t :: r) :=
  fun _ _ he => by cases he; exact h rfl

theorem number_expD {c : Cfg} {p : Bool} {ts xs : Toks} {e : Expr} {r : Toks} (he : ExpD p ts xs)
    (h : number c ts = some (e, r)) (hr : NoDot r) : number c xs = some (e, expandDots false r) := by
  cases he with
  | nil => simp [number] at h
  | dotKeep _ g _ he1 =>
    cases he1 with
    | nil => simp [number] at h
    | dotKeep _ g _ _ => simp [number] at h
    | dot _ g _ _ => simp [number] at h
    | keep _ b hb he2 =>
      rcases b with ⟨(x|k|s|s|⟨b,s⟩|s), g'⟩
      case digits =>
        simp only [number] at h ⊢
        split at h
        · rename_i hg; simp only [hg, if_true]; injection h with h; injection h with h1 h2; subst h1 h2
          rw [he2.eq, expandDots_flag hr]
        · cases h
      all_goals simp [number] at h
  | dot _ g hd he1 =>
    rename_i r0 x
    cases r0 with
    | nil => simp [number] at h
    | cons b r' =>
      rcases b with ⟨(x|k|s|s|⟨b,s⟩|s), g'⟩
      case digits => simp [headDigits, isDigitsTok] at hd
      all_goals simp [number] at h
  | keep _ a ha he1 =>
    rcases a with ⟨(x|k|s|s|⟨b,s⟩|s), g⟩
    case digits =>
      cases he1 with
      | nil => simp [number] at h ⊢; obtain ⟨rfl, rfl⟩ := h; simp [expandDots_nil]
      | dot _ g' hd _ => simp [isDigitsTok] at hd
      | keep _ b hb he2 =>
        have hbx := expandDots_cons_of_ne hb false
        rw [he2.eq]
        rcases b with ⟨(x|k|s'|s'|⟨b,s'⟩|s'), g'⟩
        · cases x
          case dot => exact absurd rfl hb
          all_goals (simp [number] at h ⊢; obtain ⟨rfl, rfl⟩ := h; exact ⟨rfl, (hbx _).symm⟩)
        all_goals (simp [number] at h ⊢; obtain ⟨rfl, rfl⟩ := h; exact ⟨rfl, (hbx _).symm⟩)
      | dotKeep _ g' _ he2 =>
        cases he2 with
        | nil =>
          simp only [number] at h ⊢
          split at h <;> rename_i hc <;> simp only [hc] <;>
            (injection h with h; injection h with h1 h2; subst h1 h2)
          · rfl
          · exact absurd rfl (hr _ _)
        | dotKeep _ g2 _ he3 =>
          simp only [number] at h
          split at h <;> (injection h with h; injection h with h1 h2; subst h1 h2; exact absurd rfl (hr _ _))
        | dot _ g2 _ he3 =>
          simp only [number] at h
          split at h <;> (injection h with h; injection h with h1 h2; subst h1 h2; exact absurd rfl (hr _ _))
        | keep _ b2 hb2 he3 =>
          have hbx := expandDots_cons_of_ne hb2 false
          rw [he3.eq]
          rcases b2 with ⟨(x|k|s2|s2|⟨b,s2⟩|s2), g2⟩
          case digits =>
            simp only [number] at h ⊢
            split at h
            · rename_i hc; simp only [hc, if_true]
              injection h with h; injection h with h1 h2; subst h1 h2
              rw [expandDots_flag hr]
            · rename_i hc; simp only [hc]
              split at h <;> rename_i hc2 <;> simp only [hc2] <;>
                (injection h with h; injection h with h1 h2; subst h1 h2)
              · simp [hbx]
              · exact absurd rfl (hr _ _)
          · cases x
            case dot => exact absurd rfl hb2
            all_goals (
              simp only [number] at h ⊢
              split at h <;> rename_i hc <;> simp only [hc] <;>
                (injection h with h; injection h with h1 h2; subst h1 h2)
              · simp [hbx]
              · exact absurd rfl (hr _ _))
          all_goals (
              simp only [number] at h ⊢
              split at h <;> rename_i hc <;> simp only [hc] <;>
                (injection h with h; injection h with h1 h2; subst h1 h2)
              · simp [hbx]
              · exact absurd rfl (hr _ _))
    · cases x
      case dot => exact absurd rfl ha
      all_goals simp [number] at h
    all_goals simp [number] at h

/-! ### `nodeTest` -/

theorem expandDots_P {x : Punct} (hx : x ≠ .dot) (p g : Bool) (r : Toks) :
    expandDots p (⟨.p x, g⟩ :: r) = ⟨.p x, g⟩ :: expandDots false r :=
  expandDots_cons_of_ne (t := ⟨.p x, g⟩) (by simpa using hx) p r
theorem expandDots_K (p : Bool) (k : Kw) (g : Bool) (r : Toks) :
    expandDots p (⟨.kw k, g⟩ :: r) = ⟨.kw k, g⟩ :: expandDots false r :=
  expandDots_cons_of_ne (t := ⟨.kw k, g⟩) (by simp) p r
theorem expandDots_lparen (p g : Bool) (r : Toks) :
    expandDots p (⟨.p .lparen, g⟩ :: r) = ⟨.p .lparen, g⟩ :: expandDots false r := expandDots_P (by simp) p g r
theorem expandDots_rparen (p g : Bool) (r : Toks) :
    expandDots p (⟨.p .rparen, g⟩ :: r) = ⟨.p .rparen, g⟩ :: expandDots false r := expandDots_P (by simp) p g r
theorem expandDots_colon (p g : Bool) (r : Toks) :
    expandDots p (⟨.p .colon, g⟩ :: r) = ⟨.p .colon, g⟩ :: expandDots false r := expandDots_P (by simp) p g r
theorem expandDots_star (p g : Bool) (r : Toks) :
    expandDots p (⟨.p .star, g⟩ :: r) = ⟨.p .star, g⟩ :: expandDots false r := expandDots_P (by simp) p g r
theorem expandDots_lit (p d : Bool) (s : Chars) (g : Bool) (r : Toks) :
    expandDots p (⟨.lit d s, g⟩ :: r) = ⟨.lit d s, g⟩ :: expandDots false r :=
  expandDots_cons_of_ne (t := ⟨.lit d s, g⟩) (by simp) p r

theorem expandDots_name {c : Cfg} {a : LTok} {n : Chars} (hn : nameTok c a.tok = some n) (p : Bool) (r : Toks) :
    expandDots p (a :: r) = a :: expandDots false r := by
  obtain ⟨t, g⟩ := a
  cases t with
  | p x => simp [nameTok] at hn
  | kw k => exact expandDots_K p k g r
  | ncname s => exact expandDots_cons_of_ne (t := ⟨.ncname s, g⟩) (by simp) p r
  | _ => simp [nameTok] at hn

theorem nodeTest_expandDots {c : Cfg} {ts : Toks} {t : NodeTest} {r : Toks}
    (h : nodeTest c ts = some (t, r)) (hr : ∀ g r', r ≠ P .colon g :: r') (p : Bool) :
    nodeTest c (expandDots p ts) = some (t, expandDots false r) := by
  unfold nodeTest at h
  split at h
  · injection h with h; injection h with h1 h2; subst h1 h2
    simp only [expandDots_K, expandDots_lparen, expandDots_rparen]; rfl
  · injection h with h; injection h with h1 h2; subst h1 h2
    simp only [expandDots_K, expandDots_lparen, expandDots_rparen]; rfl
  · injection h with h; injection h with h1 h2; subst h1 h2
    simp only [expandDots_K, expandDots_lparen, expandDots_rparen]; rfl
  · injection h with h; injection h with h1 h2; subst h1 h2
    simp only [expandDots_K, expandDots_lparen, expandDots_rparen]; rfl
  · injection h with h; injection h with h1 h2; subst h1 h2
    simp only [expandDots_K, expandDots_lparen, expandDots_rparen, expandDots_lit]; rfl
  · rename_i g r0
    rw [expandDots_star]
    split at h
    · rename_i g1 b r'
      split at h
      · rename_i n hn
        split at h
        · rename_i hc
          injection h with h; injection h with h1 h2; subst h1 h2
          rw [expandDots_colon, expandDots_name hn]
          simp only [nodeTest, hn, hc, if_true]
        · injection h with h; injection h with h1 h2; subst h1 h2
          exact absurd rfl (hr _ _)
      · injection h with h; injection h with h1 h2; subst h1 h2
        exact absurd rfl (hr _ _)
    · injection h with h; injection h with h1 h2; subst h1 h2
      exact nodeTest_star_plain (expandDots_not_head hr)
  · rename_i a r0 q1 q2 q3 q4 q5 q6
    clear q1 q2 q3 q4 q5 q6
    split at h
    · cases h
    · rename_i n hn
      rw [expandDots_name hn]
      split at h
      · cases h
      · rename_i g1 b r'
        rw [expandDots_colon]
        split at h
        · rename_i hc
          split at h
          · rename_i hb
            injection h with h; injection h with h1 h2; subst h1 h2
            rw [tok_eq_mk hb, expandDots_star, nodeTest_name_colon hn]
            simp only [hc, if_true]
          · rename_i hb
            split at h
            · rename_i l hl
              injection h with h; injection h with h1 h2; subst h1 h2
              rw [expandDots_name hl, nodeTest_name_colon hn]
              simp only [hc, if_true, hl]
            · injection h with h; injection h with h1 h2; subst h1 h2
              exact absurd rfl (hr _ _)
        · injection h with h; injection h with h1 h2; subst h1 h2
          exact absurd rfl (hr _ _)
      · rename_i hl hcn
        injection h with h; injection h with h1 h2; subst h1 h2
        exact nodeTest_name_plain hn (expandDots_not_head (fun g r' he => hl g r' he)) (expandDots_not_head hr)
  · cases h


/-! ### remainders -/

theorem pBinRest_noDot {c : Cfg} {f lvl : Nat} {l e : Expr} {r1 r : Toks}
    (h : pBinRest c f lvl l r1 = some (e, r)) (hl : NoDot r) : NoDot r1 := by
  cases f with
  | zero => cases h
  | succ f =>
    rw [pBinRest_succ] at h
    split at h
    · rename_i t r0
      split at h
      · rename_i op hop
        refine noDot_cons ?_
        intro ht; rw [ht] at hop; simp [opAt] at hop
      · injection h with h; injection h with h1 h2; subst h2; exact hl
    · exact noDot_nil

theorem pUnionRest_noDot {c : Cfg} {f : Nat} {l e : Expr} {r1 r : Toks}
    (h : pUnionRest c f l r1 = some (e, r)) (hl : NoDot r) : NoDot r1 := by
  cases f with
  | zero => cases h
  | succ f =>
    rw [pUnionRest_succ] at h
    split at h
    · exact noDot_cons (by simp)
    · injection h with h; injection h with h1 h2; subst h2; exact hl

theorem pFilt_noDot {c : Cfg} {f : Nat} {l e : Expr} {r1 r : Toks}
    (h : pFilt c f l r1 = some (e, r)) (hl : NoDot r) : NoDot r1 := by
  cases f with
  | zero => cases h
  | succ f =>
    rw [pFilt_succ] at h
    split at h
    · exact noDot_cons (by simp)
    · injection h with h; injection h with h1 h2; subst h2; exact hl

theorem pPreds_noDot {c : Cfg} {f : Nat} {ps : Exprs} {r1 r : Toks}
    (h : pPreds c f r1 = some (ps, r)) (hl : NoDot r) : NoDot r1 := by
  cases f with
  | zero => cases h
  | succ f =>
    rw [pPreds_succ] at h
    split at h
    · exact noDot_cons (by simp)
    · injection h with h; injection h with h1 h2; subst h2; exact hl

/-! ### more expansions of single tokens -/

theorem expandDots_slash (p g : Bool) (r : Toks) :
    expandDots p (⟨.p .slash, g⟩ :: r) = ⟨.p .slash, g⟩ :: expandDots false r := expandDots_P (by simp) p g r
theorem expandDots_dslash (p g : Bool) (r : Toks) :
    expandDots p (⟨.p .dslash, g⟩ :: r) = ⟨.p .dslash, g⟩ :: expandDots false r := expandDots_P (by simp) p g r
theorem expandDots_lbrack (p g : Bool) (r : Toks) :
    expandDots p (⟨.p .lbrack, g⟩ :: r) = ⟨.p .lbrack, g⟩ :: expandDots false r := expandDots_P (by simp) p g r
theorem expandDots_rbrack (p g : Bool) (r : Toks) :
    expandDots p (⟨.p .rbrack, g⟩ :: r) = ⟨.p .rbrack, g⟩ :: expandDots false r := expandDots_P (by simp) p g r
theorem expandDots_comma (p g : Bool) (r : Toks) :
    expandDots p (⟨.p .comma, g⟩ :: r) = ⟨.p .comma, g⟩ :: expandDots false r := expandDots_P (by simp) p g r
theorem expandDots_pipe (p g : Bool) (r : Toks) :
    expandDots p (⟨.p .pipe, g⟩ :: r) = ⟨.p .pipe, g⟩ :: expandDots false r := expandDots_P (by simp) p g r
theorem expandDots_minus (p g : Bool) (r : Toks) :
    expandDots p (⟨.p .minus, g⟩ :: r) = ⟨.p .minus, g⟩ :: expandDots false r := expandDots_P (by simp) p g r
theorem expandDots_coloncolon (p g : Bool) (r : Toks) :
    expandDots p (⟨.p .coloncolon, g⟩ :: r) = ⟨.p .coloncolon, g⟩ :: expandDots false r := expandDots_P (by simp) p g r
theorem expandDots_at (p g : Bool) (r : Toks) :
    expandDots p (⟨.p .at, g⟩ :: r) = ⟨.p .at, g⟩ :: expandDots false r := expandDots_P (by simp) p g r
theorem expandDots_dotdot (p g : Bool) (r : Toks) :
    expandDots p (⟨.p .dotdot, g⟩ :: r) = ⟨.p .dotdot, g⟩ :: expandDots false r := expandDots_P (by simp) p g r
theorem expandDots_var (p : Bool) (s : Chars) (g : Bool) (r : Toks) :
    expandDots p (⟨.var s, g⟩ :: r) = ⟨.var s, g⟩ :: expandDots false r :=
  expandDots_cons_of_ne (t := ⟨.var s, g⟩) (by simp) p r

theorem opAt_dot (lvl : Nat) : opAt lvl (.p .dot) = none := by
  unfold opAt; split <;> first | rfl | (rename_i h; cases h)

theorem opAt_digits (lvl : Nat) (s : Chars) : opAt lvl (.digits s) = none := by
  unfold opAt; split <;> first | rfl | (rename_i h; cases h)

theorem expandDots_op {lvl : Nat} {t : LTok} {op : BinOp} (h : opAt lvl t.tok = some op) (p : Bool) (r : Toks) :
    expandDots p (t :: r) = t :: expandDots false r := by
  have h1 : t.tok ≠ .p .dot := by intro he; rw [he, opAt_dot] at h; cases h
  have h2 : isDigitsTok t.tok = false := by
    obtain ⟨tok, g⟩ := t
    cases tok with
    | digits s => simp only [opAt_digits] at h; cases h
    | _ => rfl
  rw [expandDots_cons_of_ne h1, h2]

theorem expandDots_head_opAt {lvl : Nat} {p : Bool} {ts : Toks} (h : ∀ t r0, ts = t :: r0 → opAt lvl t.tok = none) :
    ∀ t r0, expandDots p ts = t :: r0 → opAt lvl t.tok = none := by
  intro t r0 he
  have hx := expD_expand p ts
  rw [he] at hx
  cases hx with
  | keep _ _ _ _ => exact h _ _ rfl
  | dotKeep _ g _ _ => exact opAt_dot _
  | dot _ g _ _ => exact opAt_kw_axis _ _

theorem expandDots_not_axis {p : Bool} {ts : Toks} (h1 : ∀ g r', ts ≠ P .dot g :: r')
    (h4 : ∀ a g g' r', ts ≠ K (.axis a) g :: P .coloncolon g' :: r') :
    ∀ a g g' r', expandDots p ts ≠ K (.axis a) g :: P .coloncolon g' :: r' := by
  intro a g g' r' he
  have hx := expD_expand p ts
  rw [he] at hx
  cases hx with
  | keep _ _ _ hx' =>
    cases hx' with
    | keep _ _ _ _ => exact h4 _ _ _ _ rfl
  | dot _ g _ _ => exact h1 _ _ rfl

/-! ### the parser reads the expansion as it reads the dotted tokens -/

structure AbbrD (c : Cfg) (f : Nat) : Prop where
  bin : ∀ lvl ts e r, pBin c f lvl ts = some (e, r) → Live r → NoDot r → ∀ p,
    ∃ f', pBin c f' lvl (expandDots p ts) = some (e, expandDots false r)
  binRest : ∀ lvl l ts e r, pBinRest c f lvl l ts = some (e, r) → Live r → NoDot r → ∀ p,
    ∃ f', pBinRest c f' lvl l (expandDots p ts) = some (e, expandDots false r)
  unary : ∀ ts e r, pUnary c f ts = some (e, r) → Live r → NoDot r → ∀ p,
    ∃ f', pUnary c f' (expandDots p ts) = some (e, expandDots false r)
  unionRest : ∀ l ts e r, pUnionRest c f l ts = some (e, r) → Live r → NoDot r → ∀ p,
    ∃ f', pUnionRest c f' l (expandDots p ts) = some (e, expandDots false r)
  path : ∀ ts e r, pPath c f ts = some (e, r) → Live r → NoDot r → ∀ p,
    ∃ f', pPath c f' (expandDots p ts) = some (e, expandDots false r)
  filt : ∀ b ts e r, pFilt c f b ts = some (e, r) → NoDot r → ∀ p,
    ∃ f', pFilt c f' b (expandDots p ts) = some (e, expandDots false r)
  primary : ∀ ts e r, pPrimary c f ts = some (e, r) → NoDot r → ∀ p,
    ∃ f', pPrimary c f' (expandDots p ts) = some (e, expandDots false r)
  rel : ∀ b ts e r, pRel c f b ts = some (e, r) → Live r → NoDot r → ∀ p,
    ∃ f', pRel c f' b (expandDots p ts) = some (e, expandDots false r)
  step : ∀ b ts e r, pStep c f b ts = some (e, r) → Live r → NoDot r → ∀ p,
    ∃ f', pStep c f' b (expandDots p ts) = some (e, expandDots false r)
  preds : ∀ ts e r, pPreds c f ts = some (e, r) → NoDot r → ∀ p,
    ∃ f', pPreds c f' (expandDots p ts) = some (e, expandDots false r)
  args : ∀ ts e r, pArgs c f ts = some (e, r) → NoDot r → ∀ p,
    ∃ f', pArgs c f' (expandDots p ts) = some (e, expandDots false r)
  args1 : ∀ ts e r, pArgs1 c f ts = some (e, r) → NoDot r → ∀ p,
    ∃ f', pArgs1 c f' (expandDots p ts) = some (e, expandDots false r)

theorem abbrD_zero (c : Cfg) : AbbrD c 0 := by
  constructor <;> intros <;> simp_all [pBin_zero, pBinRest_zero, pUnary_zero, pUnionRest_zero, pPath_zero,
    pFilt_zero, pPrimary_zero, pRel_zero, pStep_zero, pPreds_zero, pArgs_zero, pArgs1_zero]

theorem abbrD_bin {c : Cfg} {f : Nat} (ih : AbbrD c f) : ∀ lvl ts e r, pBin c (f + 1) lvl ts = some (e, r) →
    Live r → NoDot r → ∀ p, ∃ f', pBin c f' lvl (expandDots p ts) = some (e, expandDots false r) := by
  intro lvl ts e r h hl hd p
  rw [pBin_succ] at h
  split at h
  · rename_i h6
    obtain ⟨f1, h1⟩ := ih.unary _ _ _ h hl hd p
    exact ⟨f1 + 1, by rw [pBin_succ, if_pos h6]; exact h1⟩
  · rename_i h6
    split at h
    · rename_i l r1 heq
      obtain ⟨f1, h1⟩ := ih.bin _ _ _ _ heq (pBinRest_live h hl) (pBinRest_noDot h hd) p
      obtain ⟨f2, h2⟩ := ih.binRest _ _ _ _ _ h hl hd false
      refine ⟨f1 + f2 + 1, ?_⟩
      rw [pBin_succ, if_neg h6, pBin_mono h1 (show f1 ≤ f1 + f2 by omega)]
      exact pBinRest_mono h2 (by omega)
    · cases h

theorem abbrD_binRest {c : Cfg} {f : Nat} (ih : AbbrD c f) : ∀ lvl l ts e r, pBinRest c (f + 1) lvl l ts = some (e, r) →
    Live r → NoDot r → ∀ p, ∃ f', pBinRest c f' lvl l (expandDots p ts) = some (e, expandDots false r) := by
  intro lvl l ts e r h hl hd p
  rw [pBinRest_succ] at h
  split at h
  · rename_i t r0
    split at h
    · rename_i op hop
      split at h
      · rename_i rhs r1 heq
        obtain ⟨f1, h1⟩ := ih.bin _ _ _ _ heq (pBinRest_live h hl) (pBinRest_noDot h hd) false
        obtain ⟨f2, h2⟩ := ih.binRest _ _ _ _ _ h hl hd false
        refine ⟨f1 + f2 + 1, ?_⟩
        rw [expandDots_op hop, pBinRest_succ]
        simp only [hop, pBin_mono h1 (show f1 ≤ f1 + f2 by omega)]
        exact pBinRest_mono h2 (by omega)
      · cases h
    · rename_i hop
      injection h with h; injection h with h1 h2; subst h1 h2
      refine ⟨1, ?_⟩
      rw [← expandDots_flag hd p]
      exact pBinRest_stop (expandDots_head_opAt (fun t' r' he => by cases he; exact hop))
  · injection h with h; injection h with h1 h2; subst h1 h2
    exact ⟨1, rfl⟩

theorem abbrD_unary {c : Cfg} {f : Nat} (ih : AbbrD c f) : ∀ ts e r, pUnary c (f + 1) ts = some (e, r) →
    Live r → NoDot r → ∀ p, ∃ f', pUnary c f' (expandDots p ts) = some (e, expandDots false r) := by
  intro ts e r h hl hd p
  rw [pUnary_succ] at h
  split at h
  · split at h
    · rename_i e0 r0 heq
      injection h with h; injection h with h1 h2; subst h1 h2
      obtain ⟨f1, h1⟩ := ih.unary _ _ _ heq hl hd false
      refine ⟨f1 + 1, ?_⟩
      rw [expandDots_minus, pUnary_succ]
      simp only [h1]
    · cases h
  · rename_i hm
    split at h
    · rename_i l r1 heq
      obtain ⟨f1, h1⟩ := ih.path _ _ _ heq (pUnionRest_live h hl) (pUnionRest_noDot h hd) p
      obtain ⟨f2, h2⟩ := ih.unionRest _ _ _ _ h hl hd false
      refine ⟨f1 + f2 + 1, ?_⟩
      rw [pUnary_succ]
      split
      · rename_i heq'; exact absurd heq' (expandDots_not_head hm _ _)
      · simp only [pPath_mono h1 (show f1 ≤ f1 + f2 by omega)]
        exact pUnionRest_mono h2 (by omega)
    · cases h

theorem abbrD_unionRest {c : Cfg} {f : Nat} (ih : AbbrD c f) : ∀ l ts e r, pUnionRest c (f + 1) l ts = some (e, r) →
    Live r → NoDot r → ∀ p, ∃ f', pUnionRest c f' l (expandDots p ts) = some (e, expandDots false r) := by
  intro l ts e r h hl hd p
  rw [pUnionRest_succ] at h
  split at h
  · split at h
    · rename_i rhs r1 heq
      obtain ⟨f1, h1⟩ := ih.path _ _ _ heq (pUnionRest_live h hl) (pUnionRest_noDot h hd) false
      obtain ⟨f2, h2⟩ := ih.unionRest _ _ _ _ h hl hd false
      refine ⟨f1 + f2 + 1, ?_⟩
      rw [expandDots_pipe, pUnionRest_succ]
      simp only [pPath_mono h1 (show f1 ≤ f1 + f2 by omega)]
      exact pUnionRest_mono h2 (by omega)
    · cases h
  · rename_i hm
    injection h with h; injection h with h1 h2; subst h1 h2
    refine ⟨1, ?_⟩
    rw [← expandDots_flag hd p]
    exact pUnionRest_stop (expandDots_not_head hm)

theorem noDot_P {x : Punct} (hx : x ≠ .dot) {g : Bool} {r : Toks} : NoDot (⟨.p x, g⟩ :: r) :=
  noDot_cons (by simpa using hx)

theorem abbrD_path {c : Cfg} {f : Nat} (ih : AbbrD c f) : ∀ ts e r, pPath c (f + 1) ts = some (e, r) →
    Live r → NoDot r → ∀ p, ∃ f', pPath c f' (expandDots p ts) = some (e, expandDots false r) := by
  intro ts e r h hl hd p
  rw [pPath_succ] at h
  split at h
  · rename_i g0 r0
    rw [expandDots_slash]
    split at h
    · rename_i hs
      obtain ⟨f1, h1⟩ := ih.rel _ _ _ _ h hl hd false
      refine ⟨f1 + 1, ?_⟩
      rw [pPath_succ]
      simp only [startsStep_expD (expD_expand false r0), hs, if_true]
      exact h1
    · rename_i hs
      injection h with h; injection h with h1 h2; subst h1 h2
      refine ⟨1, ?_⟩
      rw [pPath_succ]
      exact if_neg (by rw [startsStep_expD (expD_expand false r0)]; exact hs)
  · rename_i g0 r0
    obtain ⟨f1, h1⟩ := ih.rel _ _ _ _ h hl hd false
    refine ⟨f1 + 1, ?_⟩
    rw [expandDots_dslash, pPath_succ]
    exact h1
  · rename_i hn1 hn2
    have hx1 := expandDots_not_head (p := p) hn1
    have hx2 := expandDots_not_head (p := p) hn2
    split at h
    · rename_i hs
      have hs' : startsPrimary c (expandDots p ts) = true := by rw [startsPrimary_expD (expD_expand p ts)]; exact hs
      split at h
      · rename_i e0 r0 hp
        split at h
        · rename_i e1 g1 r1 hf
          obtain ⟨f1, h1⟩ := ih.primary _ _ _ hp (pFilt_noDot hf (noDot_P (by simp))) p
          obtain ⟨f2, h2⟩ := ih.filt _ _ _ _ hf (noDot_P (by simp)) false
          obtain ⟨f3, h3⟩ := ih.rel _ _ _ _ h hl hd false
          rw [expandDots_slash] at h2
          refine ⟨f1 + f2 + f3 + 1, ?_⟩
          rw [pPath_succ]
          split
          · rename_i heq; exact absurd heq (hx1 _ _)
          · rename_i heq; exact absurd heq (hx2 _ _)
          · simp only [hs', if_true, pPrimary_mono h1 (show f1 ≤ f1 + f2 + f3 by omega),
              pFilt_mono h2 (show f2 ≤ f1 + f2 + f3 by omega)]
            exact pRel_mono h3 (by omega)
        · rename_i e1 g1 r1 hf
          obtain ⟨f1, h1⟩ := ih.primary _ _ _ hp (pFilt_noDot hf (noDot_P (by simp))) p
          obtain ⟨f2, h2⟩ := ih.filt _ _ _ _ hf (noDot_P (by simp)) false
          obtain ⟨f3, h3⟩ := ih.rel _ _ _ _ h hl hd false
          rw [expandDots_dslash] at h2
          refine ⟨f1 + f2 + f3 + 1, ?_⟩
          rw [pPath_succ]
          split
          · rename_i heq; exact absurd heq (hx1 _ _)
          · rename_i heq; exact absurd heq (hx2 _ _)
          · simp only [hs', if_true, pPrimary_mono h1 (show f1 ≤ f1 + f2 + f3 by omega),
              pFilt_mono h2 (show f2 ≤ f1 + f2 + f3 by omega)]
            exact pRel_mono h3 (by omega)
        · rename_i hm1 hm2
          obtain ⟨f1, h1⟩ := ih.primary _ _ _ hp (pFilt_noDot h hd) p
          obtain ⟨f2, h2⟩ := ih.filt _ _ _ _ h hd false
          have hr1 : ∀ g r', r ≠ P .slash g :: r' := fun g r' he => hm1 _ _ _ (he ▸ h)
          have hr2 : ∀ g r', r ≠ P .dslash g :: r' := fun g r' he => hm2 _ _ _ (he ▸ h)
          have hy1 := expandDots_not_head (p := false) hr1
          have hy2 := expandDots_not_head (p := false) hr2
          refine ⟨f1 + f2 + 1, ?_⟩
          rw [pPath_succ]
          split
          · rename_i heq; exact absurd heq (hx1 _ _)
          · rename_i heq; exact absurd heq (hx2 _ _)
          · simp only [hs', if_true, pPrimary_mono h1 (show f1 ≤ f1 + f2 by omega),
              pFilt_mono h2 (show f2 ≤ f1 + f2 by omega)]
            split
            · rename_i heq; injection heq with heq; injection heq with _ heq; exact absurd heq (hy1 _ _)
            · rename_i heq; injection heq with heq; injection heq with _ heq; exact absurd heq (hy2 _ _)
            · rfl
      · cases h
    · rename_i hs
      have hs' : startsPrimary c (expandDots p ts) = false := by
        rw [startsPrimary_expD (expD_expand p ts)]; simpa using hs
      obtain ⟨f1, h1⟩ := ih.rel _ _ _ _ h hl hd p
      refine ⟨f1 + 1, ?_⟩
      rw [pPath_succ]
      split
      · rename_i heq; exact absurd heq (hx1 _ _)
      · rename_i heq; exact absurd heq (hx2 _ _)
      · simp only [hs']
        exact h1

theorem abbrD_filt {c : Cfg} {f : Nat} (ih : AbbrD c f) : ∀ b ts e r, pFilt c (f + 1) b ts = some (e, r) →
    NoDot r → ∀ p, ∃ f', pFilt c f' b (expandDots p ts) = some (e, expandDots false r) := by
  intro b ts e r h hd p
  rw [pFilt_succ] at h
  split at h
  · split at h
    · rename_i q g1 r1 hb
      obtain ⟨f1, h1⟩ := ih.bin _ _ _ _ hb live_rbrack (noDot_P (by simp)) false
      obtain ⟨f2, h2⟩ := ih.filt _ _ _ _ h hd false
      rw [expandDots_rbrack] at h1
      refine ⟨f1 + f2 + 1, ?_⟩
      rw [expandDots_lbrack, pFilt_succ]
      simp only [pBin_mono h1 (show f1 ≤ f1 + f2 by omega)]
      exact pFilt_mono h2 (by omega)
    · cases h
  · rename_i hm
    injection h with h; injection h with h1 h2; subst h1 h2
    refine ⟨1, ?_⟩
    rw [← expandDots_flag hd p]
    exact pFilt_stop (expandDots_not_head hm)

theorem abbrD_primary {c : Cfg} {f : Nat} (ih : AbbrD c f) : ∀ ts e r, pPrimary c (f + 1) ts = some (e, r) →
    NoDot r → ∀ p, ∃ f', pPrimary c f' (expandDots p ts) = some (e, expandDots false r) := by
  intro ts e r h hd p
  rw [pPrimary_succ] at h
  split at h
  · split at h
    · rename_i e0 g1 r1 hb
      injection h with h; injection h with h1 h2; subst h1 h2
      obtain ⟨f1, h1⟩ := ih.bin _ _ _ _ hb live_rparen (noDot_P (by simp)) false
      rw [expandDots_rparen] at h1
      refine ⟨f1 + 1, ?_⟩
      rw [expandDots_lparen, pPrimary_succ]
      simp only [h1]
    · cases h
  · injection h with h; injection h with h1 h2; subst h1 h2
    exact ⟨1, by rw [expandDots_lit]; rfl⟩
  · injection h with h; injection h with h1 h2; subst h1 h2
    exact ⟨1, by rw [expandDots_var]; rfl⟩
  · rename_i hn1 hn2 hn3
    have hx1 := expandDots_not_head (p := p) hn1
    have hx2 : ∀ d s g r', expandDots p ts ≠ ⟨.lit d s, g⟩ :: r' := by
      intro d s g r' he
      obtain ⟨r0, h0, _⟩ := expandDots_eq_cons he (by simp)
      exact hn2 _ _ _ _ h0
    have hx3 : ∀ s g r', expandDots p ts ≠ ⟨.var s, g⟩ :: r' := by
      intro s g r' he
      obtain ⟨r0, h0, _⟩ := expandDots_eq_cons he (by simp)
      exact hn3 _ _ _ h0
    split at h
    · rename_i pfx name r0 hc
      split at h
      · rename_i as r1 ha
        injection h with h; injection h with h1 h2; subst h1 h2
        obtain ⟨f1, h1⟩ := ih.args _ _ _ ha hd false
        refine ⟨f1 + 1, ?_⟩
        rw [pPrimary_succ]
        split
        · rename_i heq; exact absurd heq (hx1 _ _)
        · rename_i heq; exact absurd heq (hx2 _ _ _ _)
        · rename_i heq; exact absurd heq (hx3 _ _ _)
        · simp only [callStart_expandDots_some hc, h1]
      · cases h
    · rename_i hc
      refine ⟨1, ?_⟩
      rw [pPrimary_succ]
      split
      · rename_i heq; exact absurd heq (hx1 _ _)
      · rename_i heq; exact absurd heq (hx2 _ _ _ _)
      · rename_i heq; exact absurd heq (hx3 _ _ _)
      · simp only [callStart_expandDots_none hc]
        exact number_expD (expD_expand p ts) h hd

theorem abbrD_rel {c : Cfg} {f : Nat} (ih : AbbrD c f) : ∀ b ts e r, pRel c (f + 1) b ts = some (e, r) →
    Live r → NoDot r → ∀ p, ∃ f', pRel c f' b (expandDots p ts) = some (e, expandDots false r) := by
  intro b ts e r h hl hd p
  rw [pRel_succ] at h
  split at h
  · rename_i e1 g1 r1 hs
    obtain ⟨f1, h1⟩ := ih.step _ _ _ _ hs live_slash (noDot_P (by simp)) p
    obtain ⟨f2, h2⟩ := ih.rel _ _ _ _ h hl hd false
    rw [expandDots_slash] at h1
    refine ⟨f1 + f2 + 1, ?_⟩
    rw [pRel_succ]
    simp only [pStep_mono h1 (show f1 ≤ f1 + f2 by omega)]
    exact pRel_mono h2 (by omega)
  · rename_i e1 g1 r1 hs
    obtain ⟨f1, h1⟩ := ih.step _ _ _ _ hs live_dslash (noDot_P (by simp)) p
    obtain ⟨f2, h2⟩ := ih.rel _ _ _ _ h hl hd false
    rw [expandDots_dslash] at h1
    refine ⟨f1 + f2 + 1, ?_⟩
    rw [pRel_succ]
    simp only [pStep_mono h1 (show f1 ≤ f1 + f2 by omega)]
    exact pRel_mono h2 (by omega)
  · rename_i hm1 hm2
    obtain ⟨f1, h1⟩ := ih.step _ _ _ _ h hl hd p
    have hr1 : ∀ g r', r ≠ P .slash g :: r' := fun g r' he => hm1 _ _ _ (he ▸ h)
    have hr2 : ∀ g r', r ≠ P .dslash g :: r' := fun g r' he => hm2 _ _ _ (he ▸ h)
    have hy1 := expandDots_not_head (p := false) hr1
    have hy2 := expandDots_not_head (p := false) hr2
    refine ⟨f1 + 1, ?_⟩
    rw [pRel_succ, h1]
    split
    · rename_i heq; injection heq with heq; injection heq with _ heq; exact absurd heq (hy1 _ _)
    · rename_i heq; injection heq with heq; injection heq with _ heq; exact absurd heq (hy2 _ _)
    · rfl

theorem abbrD_step {c : Cfg} {f : Nat} (ih : AbbrD c f) : ∀ b ts e r, pStep c (f + 1) b ts = some (e, r) →
    Live r → NoDot r → ∀ p, ∃ f', pStep c f' b (expandDots p ts) = some (e, expandDots false r) := by
  intro b ts e r h hl hd p
  rw [pStep_succ] at h
  split at h
  · rename_i g0 r0
    injection h with h; injection h with h1 h2; subst h1 h2
    cases hc : (p || headDigits r0) with
    | true => exact ⟨1, by rw [expandDots_dot_keep hc]; rfl⟩
    | false =>
      refine ⟨2, ?_⟩
      rw [expandDots_dot hc, pStep_succ]
      simp only [nodeTest, pPreds_stop (expandDots_not_head (x := .lbrack) hl.2)]
  · injection h with h; injection h with h1 h2; subst h1 h2
    exact ⟨1, by rw [expandDots_dotdot]; rfl⟩
  · rename_i g0 r0
    split at h
    · rename_i t r1 hnt
      split at h
      · rename_i ps r2 hp
        injection h with h; injection h with h1 h2; subst h1 h2
        obtain ⟨f1, h1⟩ := ih.preds _ _ _ hp hd false
        refine ⟨f1 + 1, ?_⟩
        rw [expandDots_at, pStep_succ]
        simp only [nodeTest_expandDots hnt (pPreds_colon hp hl.1) false, h1]
      · cases h
    · cases h
  · rename_i a g0 g1 r0
    split at h
    · rename_i t r1 hnt
      split at h
      · rename_i ps r2 hp
        injection h with h; injection h with h1 h2; subst h1 h2
        obtain ⟨f1, h1⟩ := ih.preds _ _ _ hp hd false
        refine ⟨f1 + 1, ?_⟩
        rw [expandDots_K, expandDots_coloncolon, pStep_succ]
        simp only [nodeTest_expandDots hnt (pPreds_colon hp hl.1) false, h1]
      · cases h
    · cases h
  · rename_i hn1 hn2 hn3 hn4
    have hx1 := expandDots_not_head (p := p) hn1
    have hx2 := expandDots_not_head (p := p) hn2
    have hx3 := expandDots_not_head (p := p) hn3
    have hx4 := expandDots_not_axis (p := p) hn1 hn4
    split at h
    · rename_i pfx name r0 hc
      split at h
      · rename_i as r1 ha
        injection h with h; injection h with h1 h2; subst h1 h2
        obtain ⟨f1, h1⟩ := ih.args _ _ _ ha hd false
        refine ⟨f1 + 1, ?_⟩
        rw [pStep_succ]
        split
        · rename_i heq; exact absurd heq (hx1 _ _)
        · rename_i heq; exact absurd heq (hx2 _ _)
        · rename_i heq; exact absurd heq (hx3 _ _)
        · rename_i heq; exact absurd heq (hx4 _ _ _ _)
        · simp only [callStart_expandDots_some hc, h1]
      · cases h
    · rename_i hc
      split at h
      · rename_i t r1 hnt
        split at h
        · rename_i ps r2 hp
          injection h with h; injection h with h1 h2; subst h1 h2
          obtain ⟨f1, h1⟩ := ih.preds _ _ _ hp hd false
          refine ⟨f1 + 1, ?_⟩
          rw [pStep_succ]
          split
          · rename_i heq; exact absurd heq (hx1 _ _)
          · rename_i heq; exact absurd heq (hx2 _ _)
          · rename_i heq; exact absurd heq (hx3 _ _)
          · rename_i heq; exact absurd heq (hx4 _ _ _ _)
          · simp only [callStart_expandDots_none hc, nodeTest_expandDots hnt (pPreds_colon hp hl.1) p, h1]
        · cases h
      · cases h

theorem abbrD_preds {c : Cfg} {f : Nat} (ih : AbbrD c f) : ∀ ts e r, pPreds c (f + 1) ts = some (e, r) →
    NoDot r → ∀ p, ∃ f', pPreds c f' (expandDots p ts) = some (e, expandDots false r) := by
  intro ts e r h hd p
  rw [pPreds_succ] at h
  split at h
  · split at h
    · rename_i q g1 r1 hb
      split at h
      · rename_i ps r2 hp
        injection h with h; injection h with h1 h2; subst h1 h2
        obtain ⟨f1, h1⟩ := ih.bin _ _ _ _ hb live_rbrack (noDot_P (by simp)) false
        obtain ⟨f2, h2⟩ := ih.preds _ _ _ hp hd false
        rw [expandDots_rbrack] at h1
        refine ⟨f1 + f2 + 1, ?_⟩
        rw [expandDots_lbrack, pPreds_succ]
        simp only [pBin_mono h1 (show f1 ≤ f1 + f2 by omega), pPreds_mono h2 (show f2 ≤ f1 + f2 by omega)]
      · cases h
    · cases h
  · rename_i hm
    injection h with h; injection h with h1 h2; subst h1 h2
    refine ⟨1, ?_⟩
    rw [← expandDots_flag hd p]
    exact pPreds_stop (expandDots_not_head hm)

theorem abbrD_args {c : Cfg} {f : Nat} (ih : AbbrD c f) : ∀ ts e r, pArgs c (f + 1) ts = some (e, r) →
    NoDot r → ∀ p, ∃ f', pArgs c f' (expandDots p ts) = some (e, expandDots false r) := by
  intro ts e r h hd p
  rw [pArgs_succ] at h
  split at h
  · injection h with h; injection h with h1 h2; subst h1 h2
    exact ⟨1, by rw [expandDots_rparen]; rfl⟩
  · rename_i hm
    obtain ⟨f1, h1⟩ := ih.args1 _ _ _ h hd p
    refine ⟨f1 + 1, ?_⟩
    rw [pArgs_succ]
    split
    · rename_i heq; exact absurd heq (expandDots_not_head hm _ _)
    · exact h1

theorem abbrD_args1 {c : Cfg} {f : Nat} (ih : AbbrD c f) : ∀ ts e r, pArgs1 c (f + 1) ts = some (e, r) →
    NoDot r → ∀ p, ∃ f', pArgs1 c f' (expandDots p ts) = some (e, expandDots false r) := by
  intro ts e r h hd p
  rw [pArgs1_succ] at h
  split at h
  · rename_i e0 g1 r1 hb
    split at h
    · rename_i es r2 ha
      injection h with h; injection h with h1 h2; subst h1 h2
      obtain ⟨f1, h1⟩ := ih.bin _ _ _ _ hb live_comma (noDot_P (by simp)) p
      obtain ⟨f2, h2⟩ := ih.args1 _ _ _ ha hd false
      rw [expandDots_comma] at h1
      refine ⟨f1 + f2 + 1, ?_⟩
      rw [pArgs1_succ]
      simp only [pBin_mono h1 (show f1 ≤ f1 + f2 by omega), pArgs1_mono h2 (show f2 ≤ f1 + f2 by omega)]
    · cases h
  · rename_i e0 g1 r1 hb
    injection h with h; injection h with h1 h2; subst h1 h2
    obtain ⟨f1, h1⟩ := ih.bin _ _ _ _ hb live_rparen (noDot_P (by simp)) p
    rw [expandDots_rparen] at h1
    refine ⟨f1 + 1, ?_⟩
    rw [pArgs1_succ]
    simp only [h1]
  · cases h

theorem abbrD (c : Cfg) : ∀ f, AbbrD c f
  | 0 => abbrD_zero c
  | f + 1 =>
    have ih := abbrD c f
    ⟨abbrD_bin ih, abbrD_binRest ih, abbrD_unary ih, abbrD_unionRest ih, abbrD_path ih, abbrD_filt ih,
      abbrD_primary ih, abbrD_rel ih, abbrD_step ih, abbrD_preds ih, abbrD_args ih, abbrD_args1 ih⟩

/-- replacing every `.` that is not next to a `digits` token (so not part of a Number) by
    `self::node()` does not change the tree -/
theorem parse_expand_dot (c : Cfg) (ts : Toks) (e : Expr) (h : parseToks c ts = some e) :
    parseToks c (expandDot ts) = some e := by
  obtain ⟨f, hf⟩ := parseToks_sound c ts e h
  obtain ⟨f', hf'⟩ := (abbrD c f).bin _ _ _ _ hf live_nil noDot_nil false
  exact parseToks_complete c (expandDot ts) e f' hf'

/-- all four abbreviations at once -/
theorem parse_expand_all (c : Cfg) (ts : Toks) (e : Expr) (h : parseToks c ts = some e) :
    parseToks c (expand (expandDot ts)) = some e :=
  parse_expand c _ e (parse_expand_dot c ts e h)


end Xsel.Syntax
