/-
  Proofs/Lemmas/NumRoundTrip.lean — `number(string(x)) = x` for finite doubles (used by C04).
-/
import Proofs.Lemmas.NumParse
import Proofs.Lemmas.NumPrint

namespace Xsel.NumL
open Xsel

/-! ### values of digit strings -/

theorem digitsVal_eq (l : Chars) : digitsVal l = Nat.ofDigitChars 10 l 0 := by
  unfold digitsVal Nat.ofDigitChars
  congr 1
  funext acc c
  rw [Nat.mul_comm]; rfl

theorem digitsVal_nil : digitsVal [] = 0 := rfl

theorem digitsVal_append (a b : Chars) : digitsVal (a ++ b) = digitsVal a * 10 ^ b.length + digitsVal b := by
  rw [digitsVal_eq, digitsVal_eq, digitsVal_eq, Nat.ofDigitChars_append,
    Nat.ofDigitChars_eq_ofDigitChars_zero, Nat.mul_comm]

theorem digitsVal_zeros (n : Nat) : digitsVal (zeros n) = 0 := by
  rw [digitsVal_eq, zeros, Nat.ofDigitChars_replicate_zero]; simp

theorem zeros_length (n : Nat) : (zeros n).length = n := by simp [zeros]

theorem digitsVal_append_zeros (a : Chars) (n : Nat) : digitsVal (a ++ zeros n) = digitsVal a * 10 ^ n := by
  rw [digitsVal_append, digitsVal_zeros, zeros_length]; simp

theorem digitsVal_zeros_append (a : Chars) (n : Nat) : digitsVal (zeros n ++ a) = digitsVal a := by
  rw [digitsVal_append, digitsVal_zeros]; simp

theorem digitsVal_natDigits (m : Nat) : digitsVal (natDigits m) = m := by
  rw [digitsVal_eq, natDigits]; exact Nat.ofDigitChars_ten_toDigits

theorem strip_decomp (ds : Chars) :
    ∃ z, ds = stripTrailingZeros ds ++ zeros z ∧ ds.length = (stripTrailingZeros ds).length + z := by
  have h : ds.reverse.takeWhile (· == '0') ++ ds.reverse.dropWhile (· == '0') = ds.reverse :=
    List.takeWhile_append_dropWhile
  have h1 : ds = stripTrailingZeros ds ++ (ds.reverse.takeWhile (· == '0')).reverse := by
    have := congrArg List.reverse h
    rw [List.reverse_append, List.reverse_reverse] at this
    exact this.symm
  have h2 : (ds.reverse.takeWhile (· == '0')).reverse = zeros (ds.reverse.takeWhile (· == '0')).length := by
    unfold zeros
    apply List.eq_replicate_iff.2
    refine ⟨by simp, ?_⟩
    intro b hb
    have := mem_takeWhile_imp (p := (· == '0')) ds.reverse b (List.mem_reverse.1 hb)
    simpa using this
  refine ⟨(ds.reverse.takeWhile (· == '0')).length, ?_, ?_⟩
  · rw [← h2]; exact h1
  · have := congrArg List.length h1
    simpa using this

/-! ### the value of a `Dec` and of its `%f` layout -/

def T : Rat := 10

theorem T_ne : T ≠ 0 := by decide +kernel

/-- value of a decimal: `0.d₁d₂… × 10^dp` -/
def decVal (d : Dec) : Rat := (digitsVal d.digits : Rat) * T ^ (d.dp - (d.digits.length : Int))

theorem natCast_ten_pow (n : Nat) : ((10 ^ n : Nat) : Rat) = T ^ n := by
  rw [Rat.natCast_pow]; rfl

theorem T_zpow_neg_nat (n : Nat) : T ^ (-(n : Int)) = (T ^ n)⁻¹ := by
  rw [Rat.zpow_neg, Rat.zpow_natCast]

theorem T_zpow_toNat (x : Int) (hx : 0 ≤ x) : T ^ x.toNat = T ^ x := by
  obtain ⟨n, rfl⟩ := Int.eq_ofNat_of_zero_le hx
  rw [Int.toNat_natCast, Rat.zpow_natCast]

theorem parseUnsigned_int (ip : Chars) (hi : ∀ c ∈ ip, isDigit c = true) (hne : ip ≠ []) :
    parseUnsigned ip = some ((digitsVal ip : Nat) : Rat) := by
  have ⟨h1, h2⟩ := takeWhile_all (p := isDigit) ip hi
  unfold parseUnsigned
  simp only [h1, h2]
  cases ip with
  | nil => exact absurd rfl hne
  | cons x t => simp

theorem parseUnsigned_dec (ip fr : Chars) (hi : ∀ c ∈ ip, isDigit c = true) (hf : ∀ c ∈ fr, isDigit c = true)
    (hne : ¬ (ip = [] ∧ fr = [])) :
    parseUnsigned (ip ++ '.' :: fr) =
      some (((digitsVal ip * 10 ^ fr.length + digitsVal fr : Nat) : Rat) / ((10 ^ fr.length : Nat) : Rat)) := by
  have hdot : ¬ isDigit '.' = true := by decide
  have h1 : (ip ++ '.' :: fr).takeWhile isDigit = ip := by
    rw [List.takeWhile_append_of_pos hi, List.takeWhile_cons_of_neg hdot, List.append_nil]
  have h2 : (ip ++ '.' :: fr).dropWhile isDigit = '.' :: fr := by
    rw [List.dropWhile_append_of_pos hi, List.dropWhile_cons_of_neg hdot]
  have h3 : fr.all isDigit = true := by simpa [List.all_eq_true] using hf
  have h4 : (!(ip.isEmpty && fr.isEmpty)) = true := by
    cases ip <;> cases fr <;> simp_all
  unfold parseUnsigned
  simp only [h1, h2, h3, h4, Bool.and_self, if_true]

theorem parse_layoutF (d : Dec) (h : DigitsOK d) : parseUnsigned (layoutF d) = some (decVal d) := by
  unfold layoutF decVal
  dsimp only
  split
  · rename_i h1
    -- "0." zeros digits
    have e : ('0' :: '.' :: (zeros (-d.dp).toNat ++ d.digits)) = ['0'] ++ '.' :: (zeros (-d.dp).toNat ++ d.digits) := rfl
    have hfr : ∀ c ∈ zeros (-d.dp).toNat ++ d.digits, isDigit c = true := by
      intro c hc
      rcases List.mem_append.1 hc with hc | hc
      · exact zeros_digits _ c hc
      · exact h c hc
    rw [e, parseUnsigned_dec ['0'] _ (by intro c hc; simp at hc; subst hc; decide) hfr (by simp)]
    congr 1
    have hz : digitsVal ['0'] = 0 := by decide
    rw [hz, Nat.zero_mul, Nat.zero_add, digitsVal_zeros_append, natCast_ten_pow, List.length_append, zeros_length,
      Rat.div_def]
    congr 1
    have : d.dp - (d.digits.length : Int) = -(((-d.dp).toNat + d.digits.length : Nat) : Int) := by omega
    rw [this, T_zpow_neg_nat]
  · split
    · rename_i h1 h2
      have hall : ∀ c ∈ d.digits ++ zeros (d.dp - ↑d.digits.length).toNat, isDigit c = true := by
        intro c hc
        rcases List.mem_append.1 hc with hc | hc
        · exact h c hc
        · exact zeros_digits _ c hc
      have hne : d.digits ++ zeros (d.dp - ↑d.digits.length).toNat ≠ [] := by
        intro he
        have := congrArg List.length he
        simp only [List.length_append, zeros_length, List.length_nil] at this
        omega
      rw [parseUnsigned_int _ hall hne, digitsVal_append_zeros, Rat.natCast_mul, natCast_ten_pow]
      rw [T_zpow_toNat (d.dp - (d.digits.length : Int)) (by omega)]
    · rename_i h1 h2
      have ht : ∀ c ∈ d.digits.take d.dp.toNat, isDigit c = true :=
        fun c hc => h c (List.mem_of_mem_take hc)
      have hd : ∀ c ∈ d.digits.drop d.dp.toNat, isDigit c = true :=
        fun c hc => h c (List.mem_of_mem_drop hc)
      have hne : ¬ (d.digits.take d.dp.toNat = [] ∧ d.digits.drop d.dp.toNat = []) := by
        rintro ⟨_, h3⟩
        have := congrArg List.length h3
        simp only [List.length_drop, List.length_nil] at this
        omega
      rw [parseUnsigned_dec _ _ ht hd hne, ← digitsVal_append, List.take_append_drop, natCast_ten_pow, Rat.div_def]
      congr 2
      have : d.dp - (d.digits.length : Int) = -(((d.digits.drop d.dp.toNat).length : Nat) : Int) := by
        simp only [List.length_drop]; omega
      rw [this, T_zpow_neg_nat]

/-! ### the decimals produced by the search read back -/

/-- value of the `Dec` built from the digits of `m` with the point shifted by `x` -/
theorem decVal_of_nat (m : Nat) (x : Int) :
    decVal { digits := stripTrailingZeros (natDigits m), dp := x + ((natDigits m).length : Int) } =
      (m : Rat) * T ^ x := by
  obtain ⟨z, hz, hl⟩ := strip_decomp (natDigits m)
  have hm : m = digitsVal (stripTrailingZeros (natDigits m)) * 10 ^ z := by
    have := digitsVal_natDigits m
    rw [hz, digitsVal_append_zeros] at this
    exact this.symm
  unfold decVal
  dsimp only
  rw [hl]
  generalize digitsVal (stripTrailingZeros (natDigits m)) = D at hm
  generalize (stripTrailingZeros (natDigits m)).length = L
  subst hm
  have : x + ((L + z : Nat) : Int) - (L : Int) = (z : Int) + x := by omega
  rw [this, Rat.zpow_add T_ne, Rat.zpow_natCast, Rat.natCast_mul, natCast_ten_pow, Rat.mul_assoc]

theorem shortestAt_reads_back (q : Rat) (k : Int) (n : Nat) (d : Dec) (h : shortestAt q k n = some d) :
    Num.rnd (decVal d) = .fin q := by
  unfold shortestAt at h
  dsimp only at h
  split at h
  · simp at h
  · rename_i m hm
    simp only [Option.some.injEq] at h
    subst h
    have hval := decVal_of_nat m (k + 1 - (n : Int))
    have hdp : k + 1 - (n : Int) + ((natDigits m).length : Int) = k + 1 + (((natDigits m).length : Int) - (n : Int)) := by
      omega
    rw [hdp] at hval
    rw [hval]
    -- which candidate was picked
    have hT : (10 : Rat) = T := rfl
    rw [hT] at hm
    generalize T ^ (k + 1 - (n : Int)) = scale at hm ⊢
    generalize (q / scale).floor.toNat = lo at hm
    generalize hbl : (Num.rnd ((lo : Rat) * scale) == Num.fin q) = bl at hm
    generalize hbh : (Num.rnd (((lo + 1 : Nat) : Rat) * scale) == Num.fin q) = bh at hm
    have key : (m = lo ∧ bl = true) ∨ (m = lo + 1 ∧ bh = true) := by
      cases bl <;> cases bh <;>
        simp only [Bool.and_false, Bool.and_true, Bool.false_eq_true, if_false, if_true] at hm
      all_goals repeat' split at hm
      all_goals first | (simp at hm; done) | (simp at hm; subst hm; simp) | (subst hm; simp)
    rcases key with ⟨h1, h2⟩ | ⟨h1, h2⟩
    · subst h1; subst h2; exact (beq_iff_eq.1 hbl)
    · subst h1; subst h2; exact (beq_iff_eq.1 hbh)

/-! ### the exact expansion (fallback of the search) -/

theorem cast_of_den_one (m : Rat) (hm : 0 ≤ m) (hd : m.den = 1) : ((m.num.toNat : Nat) : Rat) = m := by
  have hn : 0 ≤ m.num := Rat.num_nonneg.2 hm
  apply Rat.ext
  · rw [Rat.num_natCast]; omega
  · rw [Rat.den_natCast, hd]

theorem floor_of_den_one (m : Rat) (hd : m.den = 1) : m.floor = m.num := by
  rw [Rat.floor_def, hd]; simp

theorem T_nonneg : 0 ≤ T := by decide +kernel

theorem exactDec_go_spec (fuel : Nat) (m : Rat) (sh j : Nat) (hm : 0 ≤ m) (hj : j ≤ fuel)
    (hd : (m * T ^ j).den = 1) :
    ∃ i, (exactDec.go fuel m sh).2 = sh + i ∧ (((exactDec.go fuel m sh).1 : Nat) : Rat) = m * T ^ i := by
  induction fuel generalizing m sh j with
  | zero =>
    have : j = 0 := by omega
    subst this
    rw [Rat.pow_zero, Rat.mul_one] at hd
    refine ⟨0, rfl, ?_⟩
    simp only [exactDec.go, Rat.pow_zero, Rat.mul_one]
    rw [floor_of_den_one m hd]
    exact cast_of_den_one m hm hd
  | succ f ih =>
    unfold exactDec.go
    split
    · rename_i h1
      refine ⟨0, rfl, ?_⟩
      simp only [Rat.pow_zero, Rat.mul_one]
      exact cast_of_den_one m hm (by simpa using h1)
    · rename_i h1
      cases j with
      | zero =>
        rw [Rat.pow_zero, Rat.mul_one] at hd
        exact absurd (by simpa using hd) h1
      | succ j =>
        have hd' : (m * 10 * T ^ j).den = 1 := by
          have : m * 10 * T ^ j = m * T ^ (j + 1) := by
            rw [Rat.pow_succ, Rat.mul_assoc, Rat.mul_comm 10 (T ^ j)]; rfl
          rw [this]; exact hd
        obtain ⟨i, h2, h3⟩ := ih (m * 10) (sh + 1) j (Rat.mul_nonneg hm T_nonneg) (by omega) hd'
        refine ⟨i + 1, by rw [h2]; omega, ?_⟩
        rw [h3, Rat.pow_succ, Rat.mul_assoc, Rat.mul_comm 10 (T ^ i)]; rfl

theorem exactDec_val (q : Rat) (k : Int) (hq : 0 ≤ q) (j : Nat) (hj : j ≤ 1100) (hd : (q * T ^ j).den = 1) :
    decVal (exactDec q k) = q := by
  obtain ⟨i, h2, h3⟩ := exactDec_go_spec 1100 q 0 j hq hj hd
  unfold exactDec
  generalize exactDec.go 1100 q 0 = r at h2 h3
  obtain ⟨M, S⟩ := r
  dsimp only at h2 h3 ⊢
  have hS : S = i := by omega
  subst hS
  have hdp : ((natDigits M).length : Int) - (S : Int) = -(S : Int) + ((natDigits M).length : Int) := by omega
  rw [hdp, decVal_of_nat, h3, T_zpow_neg_nat, Rat.mul_assoc, Rat.mul_inv_cancel, Rat.mul_one]
  exact Rat.ne_of_gt (Rat.pow_pos (by decide +kernel))

/-! ### doubles are dyadic rationals with a bounded exponent -/

theorem ulpExp_ge (a : Rat) : -1074 ≤ Num.ulpExp a := by
  unfold Num.ulpExp
  dsimp only
  split <;> omega

theorem double_form (p : Rat) (hp : 0 < p) (h : Num.rnd p = .fin p) :
    ∃ (M : Nat) (e : Int), -1074 ≤ e ∧ p = (M : Rat) * Num.pow2 e := by
  have h0 : (p == 0) = false := by
    have : p ≠ 0 := Rat.ne_of_gt hp
    simpa using this
  have hn : decide (p < 0) = false := by
    have : ¬ p < 0 := by grind
    simpa using this
  unfold Num.rnd at h
  simp only [h0, hn, Bool.false_eq_true, if_false] at h
  split at h
  · simp only [Num.fin.injEq] at h
    exact absurd h.symm (Rat.ne_of_gt hp)
  · split at h
    · simp at h
    · simp only [Num.fin.injEq] at h
      exact ⟨_, _, ulpExp_ge p, h.symm⟩

theorem dyadic_den (M N : Nat) (e : Int) (he : -(N : Int) ≤ e) : ((M : Rat) * Num.pow2 e * T ^ N).den = 1 := by
  have two_ne : (2 : Rat) ≠ 0 := by decide +kernel
  have c2 : ((2 : Nat) : Rat) = 2 := rfl
  have h10 : T ^ N = ((2 ^ N * 5 ^ N : Nat) : Rat) := by
    rw [← natCast_ten_pow]
    congr 1
    exact Nat.mul_pow 2 5 N
  have h2 : Num.pow2 e * ((2 ^ N : Nat) : Rat) = ((2 ^ (e + N).toNat : Nat) : Rat) := by
    unfold Num.pow2
    rw [Rat.natCast_pow, Rat.natCast_pow, c2, ← Rat.zpow_natCast, ← Rat.zpow_natCast, ← Rat.zpow_add two_ne]
    congr 1
    omega
  have : (M : Rat) * Num.pow2 e * T ^ N = ((M * 2 ^ (e + N).toNat * 5 ^ N : Nat) : Rat) := by
    rw [h10, Rat.natCast_mul (2 ^ N), Rat.natCast_mul, Rat.natCast_mul, ← h2]
    simp only [Rat.mul_assoc]
  rw [this, Rat.den_natCast]

theorem double_den (p : Rat) (hp : 0 < p) (h : Num.rnd p = .fin p) : (p * T ^ 1074).den = 1 := by
  obtain ⟨M, e, he, hpe⟩ := double_form p hp h
  rw [hpe]
  exact dyadic_den M 1074 e he

/-! ### assembly -/

theorem shortestDec_reads_back (p : Rat) (hp : 0 < p) (h : Num.rnd p = .fin p) :
    Num.rnd (decVal (shortestDec p)) = .fin p := by
  unfold shortestDec
  have key : ∀ fuel n, Num.rnd (decVal (shortestDec.search p (log10Floor p) fuel n)) = .fin p := by
    intro fuel
    induction fuel with
    | zero =>
      intro n
      unfold shortestDec.search
      rw [exactDec_val p _ (Rat.le_of_lt hp) 1074 (by omega) (double_den p hp h)]
      exact h
    | succ f ih =>
      intro n
      unfold shortestDec.search
      split
      · rename_i d hd; exact shortestAt_reads_back p _ n d hd
      · exact ih _
  exact key 17 1

theorem body_char_not_space (c : Char) (h : isDigit c = true ∨ c = '.') : isXmlSpace c = false ∧ c ≠ '-' := by
  rcases h with h | h
  · exact isDigit_not_space c h
  · subst h; decide

theorem strToNum_of_body (s : Chars) (v : Rat) (hs : ∀ c ∈ s, isDigit c = true ∨ c = '.') (hne : s ≠ [])
    (hp : parseUnsigned s = some v) :
    strToNum s = Num.rnd v ∧ strToNum ('-' :: s) = Num.neg (Num.rnd v) := by
  have hh : ∀ c, s.head? = some c → isXmlSpace c = false :=
    fun c hc => (body_char_not_space c (hs c (List.mem_of_head? hc))).1
  have hl : ∀ c, s.getLast? = some c → isXmlSpace c = false :=
    fun c hc => (body_char_not_space c (hs c (List.mem_of_getLast? hc))).1
  have t1 : trimXml s = s := by
    have := trimXml_of_core [] s [] (by simp) (by simp) hh hl hne
    simpa using this
  have t2 : trimXml ('-' :: s) = '-' :: s := by
    have := trimXml_of_core [] ('-' :: s) [] (by simp) (by simp)
      (by intro c hc; simp at hc; subst hc; decide)
      (by intro c hc; rw [List.getLast?_cons_of_ne_nil hne] at hc; exact hl c hc) (by simp)
    simpa using this
  constructor
  · unfold strToNum
    rw [t1]
    split
    · exact absurd rfl (body_char_not_space '-' (hs '-' (by simp))).2
    · rw [hp]
  · unfold strToNum
    rw [t2]
    simp only [hp]

theorem rnd_neg_double (q : Rat) (hq : q < 0) (h : Num.rnd q = .fin q) : Num.rnd (-q) = .fin (-q) := by
  have h0 : (q == 0) = false := by
    have : q ≠ 0 := Rat.ne_of_lt hq
    simpa using this
  have h0' : (-q == 0) = false := by
    have : -q ≠ 0 := by grind
    simpa using this
  have hn : decide (q < 0) = true := by simpa using hq
  have hn' : decide (-q < 0) = false := by
    have : ¬ (-q < 0) := by grind
    simpa using this
  unfold Num.rnd at h ⊢
  simp only [h0, hn, Bool.false_eq_true, if_false, if_true] at h
  simp only [h0', hn', Bool.false_eq_true, if_false]
  split at h
  · simp at h
  · split at h
    · simp at h
    · rename_i h1 h2
      simp only [Num.fin.injEq] at h
      simp only [h1, h2]
      have := congrArg Neg.neg h
      rw [Rat.neg_neg] at this
      exact congrArg Num.fin this

/-- `number(string(x)) = x` for every non-zero finite double `x` -/
theorem reads_back (q : Rat) (hq : q ≠ 0) (h : Num.rnd q = .fin q) :
    strToNum (numToStr (.fin q)) = .fin q := by
  rw [numToStr_fin_eq]
  have hb : (q == 0) = false := by simpa using hq
  rw [hb]
  simp only [Bool.false_eq_true, if_false]
  by_cases hneg : q < 0
  · simp only [hneg, if_true]
    have hp : 0 < -q := by grind
    have hd := rnd_neg_double q hneg h
    have hsh := layoutF_shape _ (shortestDec_digits (-q))
    have := (strToNum_of_body _ _ hsh.1 hsh.2.2.1 (parse_layoutF _ (shortestDec_digits (-q)))).2
    rw [this, shortestDec_reads_back (-q) hp hd]
    have : (-q == 0) = false := by
      have : -q ≠ 0 := by grind
      simpa using this
    simp only [Num.neg, this, Bool.false_eq_true, if_false, Rat.neg_neg]
  · simp only [hneg, if_false]
    have hp : 0 < q := by grind
    have hsh := layoutF_shape _ (shortestDec_digits q)
    have := (strToNum_of_body _ _ hsh.1 hsh.2.2.1 (parse_layoutF _ (shortestDec_digits q))).1
    rw [this, shortestDec_reads_back q hp h]

end Xsel.NumL
