/-
  Proofs/Lemmas/Misc.lean — small facts used by several properties.
-/
import Xsel.Eval
import Xsel.Cli

namespace Xsel.Misc
open Xsel

/-- an absolute location path starts from the root of the queried tree wherever it occurs — at the
    top of a query, inside a predicate, inside a function argument: the value of `/` does not depend
    on the context at all -/
theorem absolute_from_root (sem : Sem) (c c' : Ctx) :
    eval sem .root c = .ok (.nodes [0]) ∧ eval sem .root c = eval sem .root c' := by
  simp [eval]

/-- hence every absolute path `/ step …` evaluates identically in two contexts that share the tree
    and the bindings, whatever their context node, position and size -/
theorem absolute_step_context_free (sem : Sem) (ax : Axis) (t : NodeTest) (c : Ctx) (r : Val) (p s : Nat) :
    eval sem (.step .root ax t .nil) { c with result := r, pos := p, size := s }
      = eval sem (.step .root ax t .nil) c := by
  simp [eval, applyPreds]

/-- `//x` is `/descendant-or-self::node()/child::x` by definition of the abstract syntax; the `self`
    axis with `node()` returns the context set unchanged (`.` is the identity step) -/
theorem self_node_identity (sem : Sem) (hax : sem.axis = Model.axis) (hper : sem.perNode = false)
    (base : Expr) (c : Ctx) (l : List Nat) (h : eval sem base c = .ok (.nodes l)) :
    eval sem (.step base .self .node .nil) c = .ok (.nodes l) := by
  simp [eval, h, Val.nodes?, hax, hper, Model.axis, NodeTest.apply, applyPreds, Exprs.isNil, bind, Except.bind, pure, Except.pure]

end Xsel.Misc

namespace Xsel.Cli

/-- `keyValuePair.Set` after the repair: split a `-s`/`-v`/`-e` argument at its FIRST '=' -/
def splitKV (s : Chars) : Option (Chars × Chars) :=
  if s.contains '=' then some (s.takeWhile (· != '='), (s.dropWhile (· != '=')).drop 1) else none

theorem splitKV_none {s : Chars} : splitKV s = none ↔ '=' ∉ s := by
  unfold splitKV
  by_cases h : s.contains '=' <;> simp_all

theorem not_eq_of_mem_takeWhile {c : Char} : ∀ {s : Chars}, c ∈ s.takeWhile (· != '=') → c ≠ '='
  | [], h => by simp at h
  | x :: t, h => by
    rw [List.takeWhile_cons] at h
    by_cases hx : (x != '=') = true
    · rw [if_pos hx] at h
      rcases List.mem_cons.mp h with e | e
      · subst e; simpa using hx
      · exact not_eq_of_mem_takeWhile e
    · rw [if_neg hx] at h; simp at h

theorem takeWhile_dropWhile_eq (s : Chars) (h : '=' ∈ s) :
    s = s.takeWhile (· != '=') ++ ('=' :: (s.dropWhile (· != '=')).drop 1) := by
  induction s with
  | nil => simp at h
  | cons c t ih =>
    by_cases hc : c = '='
    · subst hc; simp
    · have ht : '=' ∈ t := by
        rcases List.mem_cons.mp h with e | e
        · exact absurd e.symm hc
        · exact e
      have hne : (c != '=') = true := by simpa using hc
      rw [List.takeWhile_cons, List.dropWhile_cons, hne]
      simp only [if_true, List.cons_append]
      congr 1
      exact ih ht

/-- the key is everything before the first '=', the value everything after it (which may itself
    contain '='): `-v v=a=b` binds `v` to `a=b` -/
theorem splitKV_spec {s k v : Chars} (h : splitKV s = some (k, v)) :
    s = k ++ ('=' :: v) ∧ '=' ∉ k := by
  unfold splitKV at h
  by_cases hc : s.contains '=' = true
  · rw [if_pos hc] at h
    have hk : s.takeWhile (· != '=') = k := by injection h with h; exact (Prod.mk.inj h).1
    have hv : (s.dropWhile (· != '=')).drop 1 = v := by injection h with h; exact (Prod.mk.inj h).2
    have hm : '=' ∈ s := by simpa using hc
    refine ⟨?_, ?_⟩
    · rw [← hk, ← hv]; exact takeWhile_dropWhile_eq s hm
    · intro hin
      rw [← hk] at hin
      exact not_eq_of_mem_takeWhile hin rfl
  · rw [if_neg hc] at h
    cases h

example : splitKV "v=a=b".toList = some ("v".toList, "a=b".toList) := by decide
example : splitKV "p=http://x/?q=1".toList = some ("p".toList, "http://x/?q=1".toList) := by decide
example : splitKV "novalue".toList = none := by decide

end Xsel.Cli
