/-
  Proofs/Lemmas/GramXPath.lean — the XPath 1.0 grammar (W3C Recommendation 16 November 1999, §2–§3,
  productions [1]–[39]) as a production table over the token alphabet of xsel's generated parser,
  and the proof that the parser's context-free grammar generates every token string it generates.

  Token alphabet (the terminals of `Xsel.Expect.productions`): the punctuation and operator tokens
  "/" "//" "[" "]" "(" ")" "," "@" "::" ":" "." ".." "*" "|" "+" "-" "=" "!=" "<" "<=" ">" ">=",
  the operator names "or" "and" "div" "mod", the 13 axis names, the 4 node type names, and the
  token classes "ncname" "digits" "singlequote" "doublequote" "variableReference".
-/
import Proofs.Expect
import Proofs.Lemmas.GramCfg

namespace Xsel.Gram

/-- nonterminal -/
abbrev N (s : String) : Sym := (true, s)
/-- terminal (token) -/
abbrev T (s : String) : Sym := (false, s)

/-- the grammar compiled into xsel's parser (`Xsel.Gen.productions_agree` ties the table to the
    source on every run); its start symbol is `OrExpr` -/
def G : Cfg := ⟨Xsel.Expect.productions⟩

/-- The XPath 1.0 grammar over the parser's token alphabet.  Each group is the W3C production of
    that number; `X*` and `X?` are desugared in the standard way (`Predicates`, the empty
    alternative of `AbbreviatedAxisSpecifier`, the two alternatives of `AbsoluteLocationPath` and
    `FunctionCall`).

    Lexical level, as the parser's token alphabet forces it:
    * an `NCName` is the token `ncname` or one of the 17 keyword tokens that are also names
      (13 axis names, 4 node types);  `QName → NCName | NCName ":" NCName`;
    * `Literal` [29] is one of the tokens `singlequote`, `doublequote`;  `Digits` [31] is the token
      `digits`;  `'$' QName` [36] is the single token `variableReference`;
    * `MultiplyOperator` [34] is the token `*` (the same token as the name test `*`: which of the
      two is meant is decided by the grammar position, not by the lexer);
    * [28] ExprToken, [32] Operator, [33] OperatorName, [39] ExprWhitespace are lexical only.

    LEFT OUT (the parser's grammar has no simulation for them — see the findings at the end):
    * [30] `Number → digits "."`                        (`1.` is a Number in XPath; known finding)
    * `NCName → "and" | "or" | "div" | "mod"`           (operator names used as names; known finding)
    * [35] `FunctionName → NCName | NCName ":" NCName` where an NCName is one of the 17 keyword
      tokens (`FunctionName` is `QName - NodeType`, so in XPath `self()`, `child:f()`, `f:text()`
      are function calls); kept here: `FunctionName → ncname | ncname ":" ncname`. -/
def GspecProds : List (String × Form) := [
  -- [1]
  ("LocationPath", [N "RelativeLocationPath"]),
  ("LocationPath", [N "AbsoluteLocationPath"]),
  -- [2]  '/' RelativeLocationPath? | AbbreviatedAbsoluteLocationPath
  ("AbsoluteLocationPath", [T "/"]),
  ("AbsoluteLocationPath", [T "/", N "RelativeLocationPath"]),
  ("AbsoluteLocationPath", [N "AbbreviatedAbsoluteLocationPath"]),
  -- [3]
  ("RelativeLocationPath", [N "Step"]),
  ("RelativeLocationPath", [N "RelativeLocationPath", T "/", N "Step"]),
  ("RelativeLocationPath", [N "AbbreviatedRelativeLocationPath"]),
  -- [4]  AxisSpecifier NodeTest Predicate* | AbbreviatedStep
  ("Step", [N "AxisSpecifier", N "NodeTest", N "Predicates"]),
  ("Step", [N "AbbreviatedStep"]),
  ("Predicates", []),
  ("Predicates", [N "Predicate", N "Predicates"]),
  -- [5]
  ("AxisSpecifier", [N "AxisName", T "::"]),
  ("AxisSpecifier", [N "AbbreviatedAxisSpecifier"]),
  -- [6]
  ("AxisName", [T "ancestor"]),
  ("AxisName", [T "ancestor-or-self"]),
  ("AxisName", [T "attribute"]),
  ("AxisName", [T "child"]),
  ("AxisName", [T "descendant"]),
  ("AxisName", [T "descendant-or-self"]),
  ("AxisName", [T "following"]),
  ("AxisName", [T "following-sibling"]),
  ("AxisName", [T "namespace"]),
  ("AxisName", [T "parent"]),
  ("AxisName", [T "preceding"]),
  ("AxisName", [T "preceding-sibling"]),
  ("AxisName", [T "self"]),
  -- [7]
  ("NodeTest", [N "NameTest"]),
  ("NodeTest", [N "NodeType", T "(", T ")"]),
  ("NodeTest", [T "processing-instruction", T "(", N "Literal", T ")"]),
  -- [8]
  ("Predicate", [T "[", N "PredicateExpr", T "]"]),
  -- [9]
  ("PredicateExpr", [N "Expr"]),
  -- [10]
  ("AbbreviatedAbsoluteLocationPath", [T "//", N "RelativeLocationPath"]),
  -- [11]
  ("AbbreviatedRelativeLocationPath", [N "RelativeLocationPath", T "//", N "Step"]),
  -- [12]
  ("AbbreviatedStep", [T "."]),
  ("AbbreviatedStep", [T ".."]),
  -- [13]  '@'?
  ("AbbreviatedAxisSpecifier", [T "@"]),
  ("AbbreviatedAxisSpecifier", []),
  -- [14]
  ("Expr", [N "OrExpr"]),
  -- [15]
  ("PrimaryExpr", [N "VariableReference"]),
  ("PrimaryExpr", [T "(", N "Expr", T ")"]),
  ("PrimaryExpr", [N "Literal"]),
  ("PrimaryExpr", [N "Number"]),
  ("PrimaryExpr", [N "FunctionCall"]),
  -- [16]  FunctionName '(' ( Argument ( ',' Argument )* )? ')'
  --       (`ArgumentList` is `Argument ( ',' Argument )* ')'`, the closing parenthesis included)
  ("FunctionCall", [N "FunctionName", T "(", T ")"]),
  ("FunctionCall", [N "FunctionName", T "(", N "ArgumentList"]),
  ("ArgumentList", [N "Argument", T ")"]),
  ("ArgumentList", [N "Argument", T ",", N "ArgumentList"]),
  -- [17]
  ("Argument", [N "Expr"]),
  -- [18]
  ("UnionExpr", [N "PathExpr"]),
  ("UnionExpr", [N "UnionExpr", T "|", N "PathExpr"]),
  -- [19]
  ("PathExpr", [N "LocationPath"]),
  ("PathExpr", [N "FilterExpr"]),
  ("PathExpr", [N "FilterExpr", T "/", N "RelativeLocationPath"]),
  ("PathExpr", [N "FilterExpr", T "//", N "RelativeLocationPath"]),
  -- [20]
  ("FilterExpr", [N "PrimaryExpr"]),
  ("FilterExpr", [N "FilterExpr", N "Predicate"]),
  -- [21]
  ("OrExpr", [N "AndExpr"]),
  ("OrExpr", [N "OrExpr", T "or", N "AndExpr"]),
  -- [22]
  ("AndExpr", [N "EqualityExpr"]),
  ("AndExpr", [N "AndExpr", T "and", N "EqualityExpr"]),
  -- [23]
  ("EqualityExpr", [N "RelationalExpr"]),
  ("EqualityExpr", [N "EqualityExpr", T "=", N "RelationalExpr"]),
  ("EqualityExpr", [N "EqualityExpr", T "!=", N "RelationalExpr"]),
  -- [24]
  ("RelationalExpr", [N "AdditiveExpr"]),
  ("RelationalExpr", [N "RelationalExpr", T "<", N "AdditiveExpr"]),
  ("RelationalExpr", [N "RelationalExpr", T ">", N "AdditiveExpr"]),
  ("RelationalExpr", [N "RelationalExpr", T "<=", N "AdditiveExpr"]),
  ("RelationalExpr", [N "RelationalExpr", T ">=", N "AdditiveExpr"]),
  -- [25]
  ("AdditiveExpr", [N "MultiplicativeExpr"]),
  ("AdditiveExpr", [N "AdditiveExpr", T "+", N "MultiplicativeExpr"]),
  ("AdditiveExpr", [N "AdditiveExpr", T "-", N "MultiplicativeExpr"]),
  -- [26]  (MultiplyOperator [34] is the token "*")
  ("MultiplicativeExpr", [N "UnaryExpr"]),
  ("MultiplicativeExpr", [N "MultiplicativeExpr", T "*", N "UnaryExpr"]),
  ("MultiplicativeExpr", [N "MultiplicativeExpr", T "div", N "UnaryExpr"]),
  ("MultiplicativeExpr", [N "MultiplicativeExpr", T "mod", N "UnaryExpr"]),
  -- [27]
  ("UnaryExpr", [N "UnionExpr"]),
  ("UnaryExpr", [T "-", N "UnaryExpr"]),
  -- [29]
  ("Literal", [T "doublequote"]),
  ("Literal", [T "singlequote"]),
  -- [30]  Digits ('.' Digits?)? | '.' Digits      (`digits "."` left out: known finding)
  ("Number", [T "digits"]),
  ("Number", [T "digits", T ".", T "digits"]),
  ("Number", [T ".", T "digits"]),
  -- [35]  QName - NodeType      (only names made of `ncname` tokens: see LEFT OUT above)
  ("FunctionName", [T "ncname"]),
  ("FunctionName", [T "ncname", T ":", T "ncname"]),
  -- [36]  '$' QName, one token
  ("VariableReference", [T "variableReference"]),
  -- [37]
  ("NameTest", [T "*"]),
  ("NameTest", [N "NCName", T ":", T "*"]),
  ("NameTest", [N "QName"]),
  -- [38]
  ("NodeType", [T "comment"]),
  ("NodeType", [T "text"]),
  ("NodeType", [T "processing-instruction"]),
  ("NodeType", [T "node"]),
  -- Namespaces in XML [6] QName, [4] NCName
  ("QName", [N "NCName"]),
  ("QName", [N "NCName", T ":", N "NCName"]),
  ("NCName", [T "ncname"]),
  ("NCName", [T "ancestor"]),
  ("NCName", [T "ancestor-or-self"]),
  ("NCName", [T "attribute"]),
  ("NCName", [T "child"]),
  ("NCName", [T "descendant"]),
  ("NCName", [T "descendant-or-self"]),
  ("NCName", [T "following"]),
  ("NCName", [T "following-sibling"]),
  ("NCName", [T "namespace"]),
  ("NCName", [T "parent"]),
  ("NCName", [T "preceding"]),
  ("NCName", [T "preceding-sibling"]),
  ("NCName", [T "self"]),
  ("NCName", [T "comment"]),
  ("NCName", [T "text"]),
  ("NCName", [T "processing-instruction"]),
  ("NCName", [T "node"])
]

def Gspec : Cfg := ⟨GspecProds⟩

/-- φ — the images in the parser's grammar of the nonterminals of `Gspec`.  A nonterminal not
    listed is mapped to the parser's nonterminal of the same name.  Five nonterminals have more
    than one image, because the parser's grammar has no single counterpart:
    `Predicates` (Predicate*) is either empty or the parser's `StepWithPredicate` (Predicate+);
    the two optional axis specifiers are either empty or the parser's nonterminal;
    an `NCName` is the token `ncname` or the parser's `ReservedNameConflictResolver`;
    a `QName` used as a name test is one of the parser's six `NameTestQName…` variants. -/
def phiTable : List (String × List Form) := [
  ("Expr", [[N "OrExpr"]]),
  ("PredicateExpr", [[N "OrExpr"]]),
  ("Argument", [[N "OrExpr"]]),
  ("ArgumentList", [[N "FunctionCallArgumentList"]]),
  ("FunctionName", [[N "QName"]]),
  ("NameTest", [[N "NodeTest"]]),
  ("Predicates", [[], [N "StepWithPredicate"]]),
  ("AxisSpecifier", [[], [N "AxisSpecifier"]]),
  ("AbbreviatedAxisSpecifier", [[], [N "AbbreviatedAxisSpecifier"]]),
  ("NCName", [[T "ncname"], [N "ReservedNameConflictResolver"]]),
  ("QName", [[N "NameTestQNameLocalOnly"],
             [N "NameTestQNameLocalOnlyReservedNameConflict"],
             [N "NameTestQNameNamespaceWithLocal"],
             [N "NameTestQNameNamespaceWithLocalReservedNameConflictNamespace"],
             [N "NameTestQNameNamespaceWithLocalReservedNameConflictLocal"],
             [N "NameTestQNameNamespaceWithLocalReservedNameConflictBoth"]])
]

def phi : String → List Form := imgsOf phiTable

/-- the simulation witnesses, one entry per production of `Gspec` (same order): for each image of
    the right-hand side, `(k, steps)` = the `k`-th image of the head derives it by `steps`, a list of
    `(position of the nonterminal rewritten, index of the production of the parser's table)`.
    (Found by search; CHECKED by `phi_simulates`.) -/
def phiWitnesses : List Wit := [
  /- LocationPath → RelativeLocationPath -/ [(0, [(0, 54)])],
  /- LocationPath → AbsoluteLocationPath -/ [(0, [(0, 55)])],
  /- AbsoluteLocationPath → "/" -/ [(0, [(0, 7), (0, 10)])],
  /- AbsoluteLocationPath → "/" RelativeLocationPath -/ [(0, [(0, 8), (0, 11)])],
  /- AbsoluteLocationPath → AbbreviatedAbsoluteLocationPath -/ [(0, [(0, 9)])],
  /- RelativeLocationPath → Step -/ [(0, [(0, 126)])],
  /- RelativeLocationPath → RelativeLocationPath "/" Step -/ [(0, [(0, 127), (0, 129)])],
  /- RelativeLocationPath → AbbreviatedRelativeLocationPath -/ [(0, [(0, 128)])],
  /- Step → AxisSpecifier NodeTest Predicates -/ [(0, [(0, 148)]), (0, [(0, 147), (0, 87)]), (0, [(0, 150), (0, 153)]), (0, [(0, 149), (0, 154), (0, 153)])],
  /- Step → AbbreviatedStep -/ [(0, [(0, 151)])],
  /- Predicates → ε -/ [(0, [])],
  /- Predicates → Predicate Predicates -/ [(1, [(0, 156)]), (1, [(0, 155), (0, 157)])],
  /- AxisSpecifier → AxisName "::" -/ [(1, [(0, 33), (0, 35)])],
  /- AxisSpecifier → AbbreviatedAxisSpecifier -/ [(0, []), (1, [(0, 34)])],
  /- AxisName → "ancestor" -/ [(0, [(0, 20)])],
  /- AxisName → "ancestor-or-self" -/ [(0, [(0, 21)])],
  /- AxisName → "attribute" -/ [(0, [(0, 22)])],
  /- AxisName → "child" -/ [(0, [(0, 23)])],
  /- AxisName → "descendant" -/ [(0, [(0, 24)])],
  /- AxisName → "descendant-or-self" -/ [(0, [(0, 25)])],
  /- AxisName → "following" -/ [(0, [(0, 26)])],
  /- AxisName → "following-sibling" -/ [(0, [(0, 27)])],
  /- AxisName → "namespace" -/ [(0, [(0, 28)])],
  /- AxisName → "parent" -/ [(0, [(0, 29)])],
  /- AxisName → "preceding" -/ [(0, [(0, 30)])],
  /- AxisName → "preceding-sibling" -/ [(0, [(0, 31)])],
  /- AxisName → "self" -/ [(0, [(0, 32)])],
  /- NodeTest → NameTest -/ [(0, [])],
  /- NodeTest → NodeType "(" ")" -/ [(0, [(0, 74), (0, 88)])],
  /- NodeTest → "processing-instruction" "(" Literal ")" -/ [(0, [(0, 75), (0, 89)])],
  /- Predicate → "[" PredicateExpr "]" -/ [(0, [(0, 106)])],
  /- PredicateExpr → Expr -/ [(0, [])],
  /- AbbreviatedAbsoluteLocationPath → "//" RelativeLocationPath -/ [(0, [(0, 0)])],
  /- AbbreviatedRelativeLocationPath → RelativeLocationPath "//" Step -/ [(0, [(0, 2)])],
  /- AbbreviatedStep → "." -/ [(0, [(0, 3), (0, 6)])],
  /- AbbreviatedStep → ".." -/ [(0, [(0, 4), (0, 5)])],
  /- AbbreviatedAxisSpecifier → "@" -/ [(1, [(0, 1)])],
  /- AbbreviatedAxisSpecifier → ε -/ [(0, [])],
  /- Expr → OrExpr -/ [(0, [])],
  /- PrimaryExpr → VariableReference -/ [(0, [(0, 110)])],
  /- PrimaryExpr → "(" Expr ")" -/ [(0, [(0, 107), (0, 112)])],
  /- PrimaryExpr → Literal -/ [(0, [(0, 108)])],
  /- PrimaryExpr → Number -/ [(0, [(0, 109)])],
  /- PrimaryExpr → FunctionCall -/ [(0, [(0, 111)])],
  /- FunctionCall → FunctionName "(" ")" -/ [(0, [(0, 44), (2, 49), (2, 51)])],
  /- FunctionCall → FunctionName "(" ArgumentList -/ [(0, [(0, 44), (2, 50)])],
  /- ArgumentList → Argument ")" -/ [(0, [(0, 46), (0, 48)])],
  /- ArgumentList → Argument "," ArgumentList -/ [(0, [(0, 45), (0, 47)])],
  /- Argument → Expr -/ [(0, [])],
  /- UnionExpr → PathExpr -/ [(0, [(0, 161)])],
  /- UnionExpr → UnionExpr "|" PathExpr -/ [(0, [(0, 162), (0, 163)])],
  /- PathExpr → LocationPath -/ [(0, [(0, 100)])],
  /- PathExpr → FilterExpr -/ [(0, [(0, 101)])],
  /- PathExpr → FilterExpr "/" RelativeLocationPath -/ [(0, [(0, 102), (0, 105)])],
  /- PathExpr → FilterExpr "//" RelativeLocationPath -/ [(0, [(0, 103), (0, 104)])],
  /- FilterExpr → PrimaryExpr -/ [(0, [(0, 41)])],
  /- FilterExpr → FilterExpr Predicate -/ [(0, [(0, 42), (0, 43)])],
  /- OrExpr → AndExpr -/ [(0, [(0, 97)])],
  /- OrExpr → OrExpr "or" AndExpr -/ [(0, [(0, 98), (0, 99)])],
  /- AndExpr → EqualityExpr -/ [(0, [(0, 17)])],
  /- AndExpr → AndExpr "and" EqualityExpr -/ [(0, [(0, 18), (0, 19)])],
  /- EqualityExpr → RelationalExpr -/ [(0, [(0, 36)])],
  /- EqualityExpr → EqualityExpr "=" RelationalExpr -/ [(0, [(0, 37), (0, 39)])],
  /- EqualityExpr → EqualityExpr "!=" RelationalExpr -/ [(0, [(0, 38), (0, 40)])],
  /- RelationalExpr → AdditiveExpr -/ [(0, [(0, 117)])],
  /- RelationalExpr → RelationalExpr "<" AdditiveExpr -/ [(0, [(0, 118), (0, 124)])],
  /- RelationalExpr → RelationalExpr ">" AdditiveExpr -/ [(0, [(0, 119), (0, 122)])],
  /- RelationalExpr → RelationalExpr "<=" AdditiveExpr -/ [(0, [(0, 120), (0, 125)])],
  /- RelationalExpr → RelationalExpr ">=" AdditiveExpr -/ [(0, [(0, 121), (0, 123)])],
  /- AdditiveExpr → MultiplicativeExpr -/ [(0, [(0, 12)])],
  /- AdditiveExpr → AdditiveExpr "+" MultiplicativeExpr -/ [(0, [(0, 13), (0, 15)])],
  /- AdditiveExpr → AdditiveExpr "-" MultiplicativeExpr -/ [(0, [(0, 14), (0, 16)])],
  /- MultiplicativeExpr → UnaryExpr -/ [(0, [(0, 56)])],
  /- MultiplicativeExpr → MultiplicativeExpr "*" UnaryExpr -/ [(0, [(0, 57), (0, 62)])],
  /- MultiplicativeExpr → MultiplicativeExpr "div" UnaryExpr -/ [(0, [(0, 58), (0, 60)])],
  /- MultiplicativeExpr → MultiplicativeExpr "mod" UnaryExpr -/ [(0, [(0, 59), (0, 61)])],
  /- UnaryExpr → UnionExpr -/ [(0, [(0, 158)])],
  /- UnaryExpr → "-" UnaryExpr -/ [(0, [(0, 159), (0, 160)])],
  /- Literal → "doublequote" -/ [(0, [(0, 53)])],
  /- Literal → "singlequote" -/ [(0, [(0, 52)])],
  /- Number → "digits" -/ [(0, [(0, 94)])],
  /- Number → "digits" "." "digits" -/ [(0, [(0, 96)])],
  /- Number → "." "digits" -/ [(0, [(0, 95)])],
  /- FunctionName → "ncname" -/ [(0, [(0, 113), (0, 115)])],
  /- FunctionName → "ncname" ":" "ncname" -/ [(0, [(0, 114), (0, 116)])],
  /- VariableReference → "variableReference" -/ [(0, [(0, 164)])],
  /- NameTest → "*" -/ [(0, [(0, 76), (0, 63)])],
  /- NameTest → NCName ":" "*" -/ [(0, [(0, 77), (0, 66)]), (0, [(0, 78), (0, 67)])],
  /- NameTest → QName -/ [(0, [(0, 85)]), (0, [(0, 86)]), (0, [(0, 81)]), (0, [(0, 82)]), (0, [(0, 83)]), (0, [(0, 84)])],
  /- NodeType → "comment" -/ [(0, [(0, 90)])],
  /- NodeType → "text" -/ [(0, [(0, 91)])],
  /- NodeType → "processing-instruction" -/ [(0, [(0, 92)])],
  /- NodeType → "node" -/ [(0, [(0, 93)])],
  /- QName → NCName -/ [(0, [(0, 68)]), (1, [(0, 69)])],
  /- QName → NCName ":" NCName -/ [(2, [(0, 70)]), (4, [(0, 72)]), (3, [(0, 73)]), (5, [(0, 71)])],
  /- NCName → "ncname" -/ [(0, [])],
  /- NCName → "ancestor" -/ [(1, [(0, 130)])],
  /- NCName → "ancestor-or-self" -/ [(1, [(0, 131)])],
  /- NCName → "attribute" -/ [(1, [(0, 132)])],
  /- NCName → "child" -/ [(1, [(0, 133)])],
  /- NCName → "descendant" -/ [(1, [(0, 134)])],
  /- NCName → "descendant-or-self" -/ [(1, [(0, 135)])],
  /- NCName → "following" -/ [(1, [(0, 136)])],
  /- NCName → "following-sibling" -/ [(1, [(0, 137)])],
  /- NCName → "namespace" -/ [(1, [(0, 138)])],
  /- NCName → "parent" -/ [(1, [(0, 139)])],
  /- NCName → "preceding" -/ [(1, [(0, 140)])],
  /- NCName → "preceding-sibling" -/ [(1, [(0, 141)])],
  /- NCName → "self" -/ [(1, [(0, 142)])],
  /- NCName → "comment" -/ [(1, [(0, 143)])],
  /- NCName → "text" -/ [(1, [(0, 144)])],
  /- NCName → "processing-instruction" -/ [(1, [(0, 145)])],
  /- NCName → "node" -/ [(1, [(0, 146)])]
]

/-- every production of the XPath grammar is simulated by a derivation of the parser's grammar -/
theorem phi_simulates : Simulates Gspec G phi :=
  checkSim_sound (wits := phiWitnesses) (by decide +kernel)

/-- **xsel_accepts_xpath** — every token string generated by the XPath 1.0 grammar (from `Expr`)
    is generated by the grammar of xsel's parser (from its start symbol `OrExpr`) -/
theorem xsel_accepts_xpath : ∀ w, w ∈ L Gspec "Expr" → w ∈ L G "OrExpr" :=
  sim_lang phi_simulates (by decide +kernel)

/-! ### The converse: the parser's grammar generates nothing but XPath and the two extensions -/

/-- the documented extensions of xsel's expression language, as productions added to `Gspec` -/
def extensionProds : List (String × Form) := [
  -- a function call may be a location step (`a/f()`, `/f()`; no predicates may follow it there)
  ("Step", [N "FunctionCall"]),
  -- the name test `*:local` (any namespace, given local name)
  ("NameTest", [T "*", T ":", N "NCName"])
]

/-- `Gspec` plus the documented extensions -/
def GspecExt : Cfg := ⟨GspecProds ++ extensionProds⟩

/-- ψ — the images in `GspecExt` of the nonterminals of the parser's grammar (a nonterminal not
    listed is mapped to the nonterminal of the same name).  The parser's grammar names every
    alternative; an alternative's nonterminal is mapped to the XPath nonterminal it is an
    alternative of.  `FunctionSignature` (everything after the `(` of a call) has two images. -/
def psiTable : List (String × List Form) := [
  ("AbbreviatedStepSelf", [[N "AbbreviatedStep"]]),
  ("AbbreviatedStepParent", [[N "AbbreviatedStep"]]),
  ("AbsoluteLocationPathOnly", [[N "AbsoluteLocationPath"]]),
  ("AbsoluteLocationPathWithRelative", [[N "AbsoluteLocationPath"]]),
  ("AdditiveExprAdd", [[N "AdditiveExpr"]]),
  ("AdditiveExprSubtract", [[N "AdditiveExpr"]]),
  ("AndExprAnd", [[N "AndExpr"]]),
  ("AxisSpecifierWithAxisName", [[N "AxisSpecifier"]]),
  ("EqualityExprEqual", [[N "EqualityExpr"]]),
  ("EqualityExprNotEqual", [[N "EqualityExpr"]]),
  ("FilterExprWithPredicate", [[N "FilterExpr"]]),
  ("FunctionCallArgumentList", [[N "ArgumentList"]]),
  ("FunctionCallArgumentListArgWithNext", [[N "ArgumentList"]]),
  ("FunctionCallArgumentListEndArg", [[N "ArgumentList"]]),
  ("FunctionSignature", [[T ")"], [N "ArgumentList"]]),
  ("FunctionSignatureNoArgs", [[T ")"]]),
  ("MultiplicativeExprDivide", [[N "MultiplicativeExpr"]]),
  ("MultiplicativeExprMod", [[N "MultiplicativeExpr"]]),
  ("MultiplicativeExprMultiply", [[N "MultiplicativeExpr"]]),
  ("NameTestAnyElement", [[N "NameTest"]]),
  ("NameTestLocalAnyNamespace", [[N "NameTest"]]),
  ("NameTestLocalAnyNamespaceReservedNameConflict", [[N "NameTest"]]),
  ("NameTestNamespaceAnyLocal", [[N "NameTest"]]),
  ("NameTestNamespaceAnyLocalReservedNameConflict", [[N "NameTest"]]),
  ("NameTestQNameLocalOnly", [[N "NameTest"]]),
  ("NameTestQNameLocalOnlyReservedNameConflict", [[N "NameTest"]]),
  ("NameTestQNameNamespaceWithLocal", [[N "NameTest"]]),
  ("NameTestQNameNamespaceWithLocalReservedNameConflictBoth", [[N "NameTest"]]),
  ("NameTestQNameNamespaceWithLocalReservedNameConflictLocal", [[N "NameTest"]]),
  ("NameTestQNameNamespaceWithLocalReservedNameConflictNamespace", [[N "NameTest"]]),
  ("NodeTestAndPredicate", [[N "Step"]]),
  ("NodeTestNodeTypeNoArgTest", [[N "NodeTest"]]),
  ("NodeTestProcInstTargetTest", [[N "NodeTest"]]),
  ("OrExprOr", [[N "OrExpr"]]),
  ("PathExprFilterWithAbbreviatedPath", [[N "PathExpr"]]),
  ("PathExprFilterWithPath", [[N "PathExpr"]]),
  ("PrimaryExprParenthetic", [[N "PrimaryExpr"]]),
  ("QName", [[N "FunctionName"]]),
  ("QNameLocalOnly", [[N "FunctionName"]]),
  ("QNameNamespaceWithLocal", [[N "FunctionName"]]),
  ("RelationalExprGreaterThan", [[N "RelationalExpr"]]),
  ("RelationalExprGreaterThanOrEqual", [[N "RelationalExpr"]]),
  ("RelationalExprLessThan", [[N "RelationalExpr"]]),
  ("RelationalExprLessThanOrEqual", [[N "RelationalExpr"]]),
  ("RelativeLocationPathWithStep", [[N "RelativeLocationPath"]]),
  ("ReservedNameConflictResolver", [[N "NCName"]]),
  ("StepWithAxisAndNodeTest", [[N "AxisSpecifier", N "NodeTest"]]),
  ("StepWithAxisAndNodeTestAndPredicate", [[N "Step"]]),
  ("StepWithPredicate", [[N "Predicate", N "Predicates"]]),
  ("StepWithPredicateWithAnotherPredicate", [[N "Predicate", N "Predicates"]]),
  ("UnaryExprNegate", [[N "UnaryExpr"]]),
  ("UnionExprUnion", [[N "UnionExpr"]])
]

def psi : String → List Form := imgsOf psiTable

/-- the simulation witnesses, one entry per production of the parser's table (same order); the
    production indices refer to `GspecProds ++ extensionProds` (113 and 114 are the extensions).
    (Found by search; CHECKED by `psi_simulates`.) -/
def psiWitnesses : List Wit := [
  /- AbbreviatedAbsoluteLocationPath → "//" RelativeLocationPath -/ [(0, [(0, 32)])],
  /- AbbreviatedAxisSpecifier → "@" -/ [(0, [(0, 36)])],
  /- AbbreviatedRelativeLocationPath → RelativeLocationPath "//" Step -/ [(0, [(0, 33)])],
  /- AbbreviatedStep → AbbreviatedStepSelf -/ [(0, [])],
  /- AbbreviatedStep → AbbreviatedStepParent -/ [(0, [])],
  /- AbbreviatedStepParent → ".." -/ [(0, [(0, 35)])],
  /- AbbreviatedStepSelf → "." -/ [(0, [(0, 34)])],
  /- AbsoluteLocationPath → AbsoluteLocationPathOnly -/ [(0, [])],
  /- AbsoluteLocationPath → AbsoluteLocationPathWithRelative -/ [(0, [])],
  /- AbsoluteLocationPath → AbbreviatedAbsoluteLocationPath -/ [(0, [(0, 4)])],
  /- AbsoluteLocationPathOnly → "/" -/ [(0, [(0, 2)])],
  /- AbsoluteLocationPathWithRelative → "/" RelativeLocationPath -/ [(0, [(0, 3)])],
  /- AdditiveExpr → MultiplicativeExpr -/ [(0, [(0, 69)])],
  /- AdditiveExpr → AdditiveExprAdd -/ [(0, [])],
  /- AdditiveExpr → AdditiveExprSubtract -/ [(0, [])],
  /- AdditiveExprAdd → AdditiveExpr "+" MultiplicativeExpr -/ [(0, [(0, 70)])],
  /- AdditiveExprSubtract → AdditiveExpr "-" MultiplicativeExpr -/ [(0, [(0, 71)])],
  /- AndExpr → EqualityExpr -/ [(0, [(0, 59)])],
  /- AndExpr → AndExprAnd -/ [(0, [])],
  /- AndExprAnd → AndExpr "and" EqualityExpr -/ [(0, [(0, 60)])],
  /- AxisName → "ancestor" -/ [(0, [(0, 14)])],
  /- AxisName → "ancestor-or-self" -/ [(0, [(0, 15)])],
  /- AxisName → "attribute" -/ [(0, [(0, 16)])],
  /- AxisName → "child" -/ [(0, [(0, 17)])],
  /- AxisName → "descendant" -/ [(0, [(0, 18)])],
  /- AxisName → "descendant-or-self" -/ [(0, [(0, 19)])],
  /- AxisName → "following" -/ [(0, [(0, 20)])],
  /- AxisName → "following-sibling" -/ [(0, [(0, 21)])],
  /- AxisName → "namespace" -/ [(0, [(0, 22)])],
  /- AxisName → "parent" -/ [(0, [(0, 23)])],
  /- AxisName → "preceding" -/ [(0, [(0, 24)])],
  /- AxisName → "preceding-sibling" -/ [(0, [(0, 25)])],
  /- AxisName → "self" -/ [(0, [(0, 26)])],
  /- AxisSpecifier → AxisSpecifierWithAxisName -/ [(0, [])],
  /- AxisSpecifier → AbbreviatedAxisSpecifier -/ [(0, [(0, 13)])],
  /- AxisSpecifierWithAxisName → AxisName "::" -/ [(0, [(0, 12)])],
  /- EqualityExpr → RelationalExpr -/ [(0, [(0, 61)])],
  /- EqualityExpr → EqualityExprEqual -/ [(0, [])],
  /- EqualityExpr → EqualityExprNotEqual -/ [(0, [])],
  /- EqualityExprEqual → EqualityExpr "=" RelationalExpr -/ [(0, [(0, 62)])],
  /- EqualityExprNotEqual → EqualityExpr "!=" RelationalExpr -/ [(0, [(0, 63)])],
  /- FilterExpr → PrimaryExpr -/ [(0, [(0, 55)])],
  /- FilterExpr → FilterExprWithPredicate -/ [(0, [])],
  /- FilterExprWithPredicate → FilterExpr Predicate -/ [(0, [(0, 56)])],
  /- FunctionCall → QName "(" FunctionSignature -/ [(0, [(0, 44)]), (0, [(0, 45)])],
  /- FunctionCallArgumentList → FunctionCallArgumentListArgWithNext -/ [(0, [])],
  /- FunctionCallArgumentList → FunctionCallArgumentListEndArg -/ [(0, [])],
  /- FunctionCallArgumentListArgWithNext → OrExpr "," FunctionCallArgumentList -/ [(0, [(0, 47), (0, 48), (0, 38)])],
  /- FunctionCallArgumentListEndArg → OrExpr ")" -/ [(0, [(0, 46), (0, 48), (0, 38)])],
  /- FunctionSignature → FunctionSignatureNoArgs -/ [(0, [])],
  /- FunctionSignature → FunctionCallArgumentList -/ [(1, [])],
  /- FunctionSignatureNoArgs → ")" -/ [(0, [])],
  /- Literal → "singlequote" -/ [(0, [(0, 79)])],
  /- Literal → "doublequote" -/ [(0, [(0, 78)])],
  /- LocationPath → RelativeLocationPath -/ [(0, [(0, 0)])],
  /- LocationPath → AbsoluteLocationPath -/ [(0, [(0, 1)])],
  /- MultiplicativeExpr → UnaryExpr -/ [(0, [(0, 72)])],
  /- MultiplicativeExpr → MultiplicativeExprMultiply -/ [(0, [])],
  /- MultiplicativeExpr → MultiplicativeExprDivide -/ [(0, [])],
  /- MultiplicativeExpr → MultiplicativeExprMod -/ [(0, [])],
  /- MultiplicativeExprDivide → MultiplicativeExpr "div" UnaryExpr -/ [(0, [(0, 74)])],
  /- MultiplicativeExprMod → MultiplicativeExpr "mod" UnaryExpr -/ [(0, [(0, 75)])],
  /- MultiplicativeExprMultiply → MultiplicativeExpr "*" UnaryExpr -/ [(0, [(0, 73)])],
  /- NameTestAnyElement → "*" -/ [(0, [(0, 86)])],
  /- NameTestLocalAnyNamespace → "*" ":" "ncname" -/ [(0, [(0, 114), (2, 95)])],
  /- NameTestLocalAnyNamespaceReservedNameConflict → "*" ":" ReservedNameConflictResolver -/ [(0, [(0, 114)])],
  /- NameTestNamespaceAnyLocal → "ncname" ":" "*" -/ [(0, [(0, 87), (0, 95)])],
  /- NameTestNamespaceAnyLocalReservedNameConflict → ReservedNameConflictResolver ":" "*" -/ [(0, [(0, 87)])],
  /- NameTestQNameLocalOnly → "ncname" -/ [(0, [(0, 88), (0, 93), (0, 95)])],
  /- NameTestQNameLocalOnlyReservedNameConflict → ReservedNameConflictResolver -/ [(0, [(0, 88), (0, 93)])],
  /- NameTestQNameNamespaceWithLocal → "ncname" ":" "ncname" -/ [(0, [(0, 88), (0, 94), (0, 95), (2, 95)])],
  /- NameTestQNameNamespaceWithLocalReservedNameConflictBoth → ReservedNameConflictResolver ":" ReservedNameConflictResolver -/ [(0, [(0, 88), (0, 94)])],
  /- NameTestQNameNamespaceWithLocalReservedNameConflictLocal → "ncname" ":" ReservedNameConflictResolver -/ [(0, [(0, 88), (0, 94), (0, 95)])],
  /- NameTestQNameNamespaceWithLocalReservedNameConflictNamespace → ReservedNameConflictResolver ":" "ncname" -/ [(0, [(0, 88), (0, 94), (2, 95)])],
  /- NodeTest → NodeTestNodeTypeNoArgTest -/ [(0, [])],
  /- NodeTest → NodeTestProcInstTargetTest -/ [(0, [])],
  /- NodeTest → NameTestAnyElement -/ [(0, [(0, 27)])],
  /- NodeTest → NameTestNamespaceAnyLocal -/ [(0, [(0, 27)])],
  /- NodeTest → NameTestNamespaceAnyLocalReservedNameConflict -/ [(0, [(0, 27)])],
  /- NodeTest → NameTestLocalAnyNamespace -/ [(0, [(0, 27)])],
  /- NodeTest → NameTestLocalAnyNamespaceReservedNameConflict -/ [(0, [(0, 27)])],
  /- NodeTest → NameTestQNameNamespaceWithLocal -/ [(0, [(0, 27)])],
  /- NodeTest → NameTestQNameNamespaceWithLocalReservedNameConflictNamespace -/ [(0, [(0, 27)])],
  /- NodeTest → NameTestQNameNamespaceWithLocalReservedNameConflictLocal -/ [(0, [(0, 27)])],
  /- NodeTest → NameTestQNameNamespaceWithLocalReservedNameConflictBoth -/ [(0, [(0, 27)])],
  /- NodeTest → NameTestQNameLocalOnly -/ [(0, [(0, 27)])],
  /- NodeTest → NameTestQNameLocalOnlyReservedNameConflict -/ [(0, [(0, 27)])],
  /- NodeTestAndPredicate → NodeTest StepWithPredicate -/ [(0, [(0, 8), (0, 13), (0, 37), (1, 11)])],
  /- NodeTestNodeTypeNoArgTest → NodeType "(" ")" -/ [(0, [(0, 28)])],
  /- NodeTestProcInstTargetTest → "processing-instruction" "(" Literal ")" -/ [(0, [(0, 29)])],
  /- NodeType → "comment" -/ [(0, [(0, 89)])],
  /- NodeType → "text" -/ [(0, [(0, 90)])],
  /- NodeType → "processing-instruction" -/ [(0, [(0, 91)])],
  /- NodeType → "node" -/ [(0, [(0, 92)])],
  /- Number → "digits" -/ [(0, [(0, 80)])],
  /- Number → "." "digits" -/ [(0, [(0, 82)])],
  /- Number → "digits" "." "digits" -/ [(0, [(0, 81)])],
  /- OrExpr → AndExpr -/ [(0, [(0, 57)])],
  /- OrExpr → OrExprOr -/ [(0, [])],
  /- OrExprOr → OrExpr "or" AndExpr -/ [(0, [(0, 58)])],
  /- PathExpr → LocationPath -/ [(0, [(0, 51)])],
  /- PathExpr → FilterExpr -/ [(0, [(0, 52)])],
  /- PathExpr → PathExprFilterWithPath -/ [(0, [])],
  /- PathExpr → PathExprFilterWithAbbreviatedPath -/ [(0, [])],
  /- PathExprFilterWithAbbreviatedPath → FilterExpr "//" RelativeLocationPath -/ [(0, [(0, 54)])],
  /- PathExprFilterWithPath → FilterExpr "/" RelativeLocationPath -/ [(0, [(0, 53)])],
  /- Predicate → "[" OrExpr "]" -/ [(0, [(0, 30), (1, 31), (1, 38)])],
  /- PrimaryExpr → PrimaryExprParenthetic -/ [(0, [])],
  /- PrimaryExpr → Literal -/ [(0, [(0, 41)])],
  /- PrimaryExpr → Number -/ [(0, [(0, 42)])],
  /- PrimaryExpr → VariableReference -/ [(0, [(0, 39)])],
  /- PrimaryExpr → FunctionCall -/ [(0, [(0, 43)])],
  /- PrimaryExprParenthetic → "(" OrExpr ")" -/ [(0, [(0, 40), (1, 38)])],
  /- QName → QNameLocalOnly -/ [(0, [])],
  /- QName → QNameNamespaceWithLocal -/ [(0, [])],
  /- QNameLocalOnly → "ncname" -/ [(0, [(0, 83)])],
  /- QNameNamespaceWithLocal → "ncname" ":" "ncname" -/ [(0, [(0, 84)])],
  /- RelationalExpr → AdditiveExpr -/ [(0, [(0, 64)])],
  /- RelationalExpr → RelationalExprLessThan -/ [(0, [])],
  /- RelationalExpr → RelationalExprGreaterThan -/ [(0, [])],
  /- RelationalExpr → RelationalExprLessThanOrEqual -/ [(0, [])],
  /- RelationalExpr → RelationalExprGreaterThanOrEqual -/ [(0, [])],
  /- RelationalExprGreaterThan → RelationalExpr ">" AdditiveExpr -/ [(0, [(0, 66)])],
  /- RelationalExprGreaterThanOrEqual → RelationalExpr ">=" AdditiveExpr -/ [(0, [(0, 68)])],
  /- RelationalExprLessThan → RelationalExpr "<" AdditiveExpr -/ [(0, [(0, 65)])],
  /- RelationalExprLessThanOrEqual → RelationalExpr "<=" AdditiveExpr -/ [(0, [(0, 67)])],
  /- RelativeLocationPath → Step -/ [(0, [(0, 5)])],
  /- RelativeLocationPath → RelativeLocationPathWithStep -/ [(0, [])],
  /- RelativeLocationPath → AbbreviatedRelativeLocationPath -/ [(0, [(0, 7)])],
  /- RelativeLocationPathWithStep → RelativeLocationPath "/" Step -/ [(0, [(0, 6)])],
  /- ReservedNameConflictResolver → "ancestor" -/ [(0, [(0, 96)])],
  /- ReservedNameConflictResolver → "ancestor-or-self" -/ [(0, [(0, 97)])],
  /- ReservedNameConflictResolver → "attribute" -/ [(0, [(0, 98)])],
  /- ReservedNameConflictResolver → "child" -/ [(0, [(0, 99)])],
  /- ReservedNameConflictResolver → "descendant" -/ [(0, [(0, 100)])],
  /- ReservedNameConflictResolver → "descendant-or-self" -/ [(0, [(0, 101)])],
  /- ReservedNameConflictResolver → "following" -/ [(0, [(0, 102)])],
  /- ReservedNameConflictResolver → "following-sibling" -/ [(0, [(0, 103)])],
  /- ReservedNameConflictResolver → "namespace" -/ [(0, [(0, 104)])],
  /- ReservedNameConflictResolver → "parent" -/ [(0, [(0, 105)])],
  /- ReservedNameConflictResolver → "preceding" -/ [(0, [(0, 106)])],
  /- ReservedNameConflictResolver → "preceding-sibling" -/ [(0, [(0, 107)])],
  /- ReservedNameConflictResolver → "self" -/ [(0, [(0, 108)])],
  /- ReservedNameConflictResolver → "comment" -/ [(0, [(0, 109)])],
  /- ReservedNameConflictResolver → "text" -/ [(0, [(0, 110)])],
  /- ReservedNameConflictResolver → "processing-instruction" -/ [(0, [(0, 111)])],
  /- ReservedNameConflictResolver → "node" -/ [(0, [(0, 112)])],
  /- Step → NodeTestAndPredicate -/ [(0, [])],
  /- Step → NodeTest -/ [(0, [(0, 8), (0, 13), (0, 37), (1, 10)])],
  /- Step → StepWithAxisAndNodeTestAndPredicate -/ [(0, [])],
  /- Step → StepWithAxisAndNodeTest -/ [(0, [(0, 8), (2, 10)])],
  /- Step → AbbreviatedStep -/ [(0, [(0, 9)])],
  /- Step → FunctionCall -/ [(0, [(0, 113)])],
  /- StepWithAxisAndNodeTest → AxisSpecifier NodeTest -/ [(0, [])],
  /- StepWithAxisAndNodeTestAndPredicate → StepWithAxisAndNodeTest StepWithPredicate -/ [(0, [(0, 8), (2, 11)])],
  /- StepWithPredicate → StepWithPredicateWithAnotherPredicate -/ [(0, [])],
  /- StepWithPredicate → Predicate -/ [(0, [(1, 10)])],
  /- StepWithPredicateWithAnotherPredicate → Predicate StepWithPredicate -/ [(0, [(1, 11)])],
  /- UnaryExpr → UnionExpr -/ [(0, [(0, 76)])],
  /- UnaryExpr → UnaryExprNegate -/ [(0, [])],
  /- UnaryExprNegate → "-" UnaryExpr -/ [(0, [(0, 77)])],
  /- UnionExpr → PathExpr -/ [(0, [(0, 49)])],
  /- UnionExpr → UnionExprUnion -/ [(0, [])],
  /- UnionExprUnion → UnionExpr "|" PathExpr -/ [(0, [(0, 50)])],
  /- VariableReference → "variableReference" -/ [(0, [(0, 85)])]
]

/-- every production of the parser's grammar is simulated by a derivation of XPath + extensions -/
theorem psi_simulates : Simulates G GspecExt psi :=
  checkSim_sound (wits := psiWitnesses) (by decide +kernel)

theorem xsel_accepts_only_xpath_OrExpr : ∀ w, w ∈ L G "OrExpr" → w ∈ L GspecExt "OrExpr" :=
  sim_lang psi_simulates (by decide +kernel)

/-- **xsel_accepts_only_xpath** — every token string generated by the grammar of xsel's parser is
    generated by the XPath 1.0 grammar extended by the two documented extensions -/
theorem xsel_accepts_only_xpath : ∀ w, w ∈ L G "OrExpr" → w ∈ L GspecExt "Expr" := by
  intro w hw
  have h := xsel_accepts_only_xpath_OrExpr w hw
  have hs : Step1 GspecExt [(true, "Expr")] [(true, "OrExpr")] :=
    Step1.mk (G := GspecExt) [] [] "Expr" [N "OrExpr"] (by decide +kernel)
  exact Derives.head hs h

/-- the two extension productions are simulated by the parser's grammar as well
    (witnesses for `extensionProds`, appended to those for `GspecProds`) -/
def phiExtWitnesses : List Wit := phiWitnesses ++ [
  /- Step → FunctionCall -/ [(0, [(0, 152)])],
  /- NameTest → "*" ":" NCName -/ [(0, [(0, 79), (0, 64)]), (0, [(0, 80), (0, 65)])]
]

theorem phiExt_simulates : Simulates GspecExt G phi :=
  checkSim_sound (wits := phiExtWitnesses) (by decide +kernel)

/-- the converse of `xsel_accepts_only_xpath` -/
theorem xsel_accepts_xpath_ext : ∀ w, w ∈ L GspecExt "Expr" → w ∈ L G "OrExpr" :=
  sim_lang phiExt_simulates (by decide +kernel)

/-- **xsel_language_exact** — the token language of xsel's parser is EXACTLY the language of the
    XPath 1.0 grammar `Gspec` extended by the two documented extensions -/
theorem xsel_language_exact : ∀ w, w ∈ L G "OrExpr" ↔ w ∈ L GspecExt "Expr" :=
  fun w => ⟨xsel_accepts_only_xpath w, xsel_accepts_xpath_ext w⟩

/-- `Gspec` is a sub-grammar of `GspecExt` -/
theorem Gspec_sub_GspecExt (A : String) : ∀ w, w ∈ L Gspec A → w ∈ L GspecExt A :=
  L_mono (fun _ hp => List.mem_append_left _ hp) A

/-! ### Findings: XPath productions the parser's grammar does NOT simulate

  For each production left out of `Gspec`, a token string that XPath generates and the parser's
  grammar does not.  Non-membership is proved with a finite description of ALL sentential forms
  that derive the string — a list of forms closed under one-step predecessors (`checkClosed`) or,
  cheaper, one symbol set per position closed under the productions that fit (`checkShape`) —
  which does not contain the start symbol. -/

/-- the symbols that can stand at the two positions of a sentential form of the parser's grammar
    that derives `digits "."` (only unit productions occur in such a derivation) -/
def shapeDigitsDot : List (List Sym) := [
  [T "digits", N "Number", N "PrimaryExpr", N "FilterExpr", N "PathExpr", N "UnionExpr", N "UnaryExpr",
     N "MultiplicativeExpr", N "AdditiveExpr", N "RelationalExpr", N "EqualityExpr", N "AndExpr",
     N "OrExpr"],
  [T ".", N "AbbreviatedStepSelf", N "AbbreviatedStep", N "Step", N "RelativeLocationPath",
     N "LocationPath", N "PathExpr", N "UnionExpr", N "UnaryExpr", N "MultiplicativeExpr", N "AdditiveExpr",
     N "RelationalExpr", N "EqualityExpr", N "AndExpr", N "OrExpr"]
]

/-- finding (known, KF-number-trailing-dot): XPath's `Number → Digits '.'` — the expression `1.` —
    is not generated by the parser's grammar -/
theorem digits_dot_rejected : ¬ ["digits", "."] ∈ L G "OrExpr" :=
  not_mem_L_of_shape (S := shapeDigitsDot) (by decide +kernel)

/-- finding (known, KF-operator-names): the operator names are not names — the expression `and`
    (in XPath: the child elements named `and`) is not generated by the parser's grammar; the same
    argument applies to `or`, `div`, `mod` -/
theorem operator_name_rejected :
    ¬ ["and"] ∈ L G "OrExpr" ∧ ¬ ["or"] ∈ L G "OrExpr" ∧ ¬ ["div"] ∈ L G "OrExpr" ∧ ¬ ["mod"] ∈ L G "OrExpr" :=
  ⟨not_mem_L_of_closed (B := [[T "and"]]) (by decide +kernel),
   not_mem_L_of_closed (B := [[T "or"]]) (by decide +kernel),
   not_mem_L_of_closed (B := [[T "div"]]) (by decide +kernel),
   not_mem_L_of_closed (B := [[T "mod"]]) (by decide +kernel)⟩

/-- the input of KF-operator-names, `//div`: no production fits the two tokens at all -/
theorem slash_slash_div_rejected : ¬ ["//", "div"] ∈ L G "OrExpr" :=
  not_mem_L_of_shape (S := [[T "//"], [T "div"]]) (by decide +kernel)

/-- the symbols that can stand at the three positions of a sentential form of the parser's grammar
    that derives `child "(" ")"` -/
def shapeChildCall : List (List Sym) := [
  [T "child", N "AxisName", N "ReservedNameConflictResolver",
     N "NameTestQNameLocalOnlyReservedNameConflict", N "NodeTest", N "Step", N "RelativeLocationPath",
     N "LocationPath", N "PathExpr", N "UnionExpr", N "UnaryExpr", N "MultiplicativeExpr", N "AdditiveExpr",
     N "RelationalExpr", N "EqualityExpr", N "AndExpr", N "OrExpr"],
  [T "("],
  [T ")", N "FunctionSignatureNoArgs", N "FunctionSignature"]
]

/-- finding (new): a function whose name spells an axis name — the XPath expression `child()`,
    a call of the function named `child` ([35] FunctionName is `QName - NodeType`) — is not
    generated by the parser's grammar: its `FunctionCall` takes its name from `QName`, which has no
    `ReservedNameConflictResolver` alternatives -/
theorem axis_named_function_rejected : ¬ ["child", "(", ")"] ∈ L G "OrExpr" :=
  not_mem_L_of_shape (S := shapeChildCall) (by decide +kernel)

/-- the productions of XPath 1.0 that were left out of `Gspec` -/
def leftOutProds : List (String × Form) := [
  -- [30] Number: Digits '.'
  ("Number", [T "digits", T "."]),
  -- [33] OperatorName; an NCName may spell one
  ("OperatorName", [T "and"]),
  ("OperatorName", [T "or"]),
  ("OperatorName", [T "div"]),
  ("OperatorName", [T "mod"]),
  ("NCName", [N "OperatorName"]),
  -- [35] FunctionName: QName - NodeType
  ("FunctionName", [N "AxisName"]),
  ("FunctionName", [N "OperatorName"]),
  ("FunctionName", [N "NCName", T ":", N "NCName"])
]

/-- the whole XPath 1.0 grammar over the token alphabet: `Gspec` plus the productions left out -/
def GspecFull : Cfg := ⟨GspecProds ++ leftOutProds⟩

/-- `Gspec` is a sub-grammar of the whole XPath grammar -/
theorem Gspec_sub_GspecFull (A : String) : ∀ w, w ∈ L Gspec A → w ∈ L GspecFull A :=
  L_mono (fun _ hp => List.mem_append_left _ hp) A

/-- the three findings: token strings that XPath 1.0 generates and xsel's parser rejects
    (`1.`, `and`, `child()`) -/
theorem findings_witnesses :
    (["digits", "."] ∈ L GspecFull "Expr" ∧ ¬ ["digits", "."] ∈ L G "OrExpr") ∧
    (["and"] ∈ L GspecFull "Expr" ∧ ¬ ["and"] ∈ L G "OrExpr") ∧
    (["child", "(", ")"] ∈ L GspecFull "Expr" ∧ ¬ ["child", "(", ")"] ∈ L G "OrExpr") :=
  ⟨⟨mem_L_of_check [(0, 38), (0, 57), (0, 59), (0, 61), (0, 64), (0, 69), (0, 72), (0, 76), (0, 49),
      (0, 52), (0, 55), (0, 42), (0, 113)] (by decide +kernel), digits_dot_rejected⟩,
   ⟨mem_L_of_check [(0, 38), (0, 57), (0, 59), (0, 61), (0, 64), (0, 69), (0, 72), (0, 76), (0, 49),
      (0, 51), (0, 0), (0, 5), (0, 8), (0, 13), (0, 37), (0, 27), (0, 88), (0, 93), (0, 118), (0, 114),
      (1, 10)] (by decide +kernel), operator_name_rejected.1⟩,
   ⟨mem_L_of_check [(0, 38), (0, 57), (0, 59), (0, 61), (0, 64), (0, 69), (0, 72), (0, 76), (0, 49),
      (0, 52), (0, 55), (0, 43), (0, 44), (0, 119), (0, 17)] (by decide +kernel),
    axis_named_function_rejected⟩⟩

end Xsel.Gram
