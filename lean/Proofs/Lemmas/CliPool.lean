/-
  Proofs/Lemmas/CliPool.lean — the worker pool of the command-line tool: each worker emits the
  block of one file with ONE write, so stdout under any schedule is a concatenation of whole blocks.
-/
import Xsel.Cli

namespace Xsel
namespace Cli

/-- the per-file output blocks, in the order of processing with `-c 1` -/
def blocks (f : Flags) (args : List FTree) : List Chars :=
  (processed f args).map (fun pr => block f pr.1 pr.2)

theorem length_blocks (f : Flags) (args : List FTree) :
    (blocks f args).length = (processed f args).length := by simp [blocks]

/-- the blocks as they reach stdout under a schedule -/
def blocksUnder (f : Flags) (args : List FTree) (schedule : List Nat) : List Chars :=
  schedule.map (fun i => (blocks f args).getD i [])

theorem stdoutUnder_eq (f : Flags) (args : List FTree) (schedule : List Nat) :
    stdoutUnder f args schedule = (blocksUnder f args schedule).flatten := by
  simp [stdoutUnder, blocksUnder, blocks, List.flatMap_def]

theorem stdout_eq (f : Flags) (args : List FTree) : stdout f args = (blocks f args).flatten := by
  simp [stdout, blocks, List.flatMap_def]

theorem map_getD_range {α : Type} (d : α) : ∀ l : List α,
    (List.range l.length).map (fun i => l.getD i d) = l := by
  intro l
  apply List.ext_getElem
  · simp
  · intro i h1 h2
    simp at h1
    simp [h1]

theorem blocksUnder_range (f : Flags) (args : List FTree) :
    blocksUnder f args (List.range (processed f args).length) = blocks f args := by
  rw [← length_blocks]; exact map_getD_range [] _

theorem blocksUnder_perm (f : Flags) (args : List FTree) (schedule : List Nat)
    (hp : schedule.Perm (List.range (processed f args).length)) :
    (blocksUnder f args schedule).Perm (blocks f args) := by
  have := hp.map (fun i => (blocks f args).getD i [])
  rw [← blocksUnder_range]
  exact this

/-- every block printed under a permutation schedule is the intact block of a processed file, and
    every processed file's block is printed -/
theorem mem_blocksUnder (f : Flags) (args : List FTree) (schedule : List Nat)
    (hp : schedule.Perm (List.range (processed f args).length)) (b : Chars) :
    b ∈ blocksUnder f args schedule ↔ ∃ pr ∈ processed f args, b = block f pr.1 pr.2 := by
  rw [(blocksUnder_perm f args schedule hp).mem_iff]
  simp [blocks, eq_comm]

end Cli
end Xsel
