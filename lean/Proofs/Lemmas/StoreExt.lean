/-
  Proofs/Lemmas/StoreExt.lean — every change `Store.step` / `Store.finish` makes to the arena is an
  `Ext X cur`: fresh cells of list-class `X` with parent `cur` are appended, and their indices are
  appended to list `X` of cell `cur`; kinds, parents, positions and all other lists are untouched.
-/
import Proofs.Lemmas.StoreBasic

namespace Xsel.StoreL
open Xsel Xsel.Store Xsel.Arena

structure Ext (X : Cls) (cur : Nat) (a a' : Arena) : Prop where
  le : a.size ≤ a'.size
  kind : ∀ i, i < a.size → (cell a' i).kind = (cell a i).kind
  parent : ∀ i, i < a.size → (cell a' i).parent = (cell a i).parent
  pos : ∀ i, i < a.size → (cell a' i).pos = (cell a i).pos
  list : ∀ (Y : Cls) i, i < a.size → (Y ≠ X ∨ i ≠ cur) → Y.list (cell a' i) = Y.list (cell a i)
  lcur : X.list (cell a' cur) = X.list (cell a cur) ++ List.range' a.size (a'.size - a.size)
  new : ∀ i, a.size ≤ i → i < a'.size → NewCell X cur (cell a' i) i

theorem cell_setCell {a : Arena} {f : Cell → Cell} {i : Nat} (h : i < a.size) (j : Nat) :
    cell (setCell a i f) j = if j = i then f (cell a j) else cell a j := by
  by_cases hj : j = i
  · subst hj; simp [cell_setCell_eq h]
  · simp [hj, cell_setCell_ne (Ne.symm hj)]

/-- a `Push` followed by recording the fresh cells in list `X` of `cur` -/
theorem Ext.of_push {X : Cls} {cur : Nat} {a a1 : Arena} (hp : Push X cur a a1) (hc : cur < a.size)
    (f : Cell → Cell)
    (hk : ∀ c, (f c).kind = c.kind) (hpa : ∀ c, (f c).parent = c.parent)
    (hpo : ∀ c, (f c).pos = c.pos)
    (hoth : ∀ Y, Y ≠ X → ∀ c, Y.list (f c) = Y.list c)
    (hx : X.list (f (cell a cur)) = X.list (cell a cur) ++ List.range' a.size (a1.size - a.size)) :
    Ext X cur a (setCell a1 cur f) := by
  have hc1 : cur < a1.size := Nat.lt_of_lt_of_le hc hp.le
  refine ⟨?_, ?_, ?_, ?_, ?_, ?_, ?_⟩
  · rw [size_setCell]; exact hp.le
  · intro i hi
    rw [cell_setCell hc1]; split
    · rw [hk, hp.old i hi]
    · rw [hp.old i hi]
  · intro i hi
    rw [cell_setCell hc1]; split
    · rw [hpa, hp.old i hi]
    · rw [hp.old i hi]
  · intro i hi
    rw [cell_setCell hc1]; split
    · rw [hpo, hp.old i hi]
    · rw [hp.old i hi]
  · intro Y i hi hY
    rw [cell_setCell hc1]; split
    · next h =>
      have : Y ≠ X := by
        rcases hY with h' | h'
        · exact h'
        · exact absurd h h'
      rw [hoth Y this, hp.old i hi]
    · rw [hp.old i hi]
  · rw [cell_setCell hc1, if_pos rfl, hp.old cur hc, size_setCell]; exact hx
  · intro i hi hi'
    rw [size_setCell] at hi'
    have : i ≠ cur := by omega
    rw [cell_setCell hc1, if_neg this]
    exact hp.new i hi hi'

/-- a change of names / values only -/
theorem Ext.of_shape (X : Cls) (cur : Nat) (a : Arena) (j : Nat) (f : Cell → Cell)
    (hk : ∀ c, (f c).kind = c.kind) (hpa : ∀ c, (f c).parent = c.parent)
    (hpo : ∀ c, (f c).pos = c.pos) (hl : ∀ Y c, Cls.list Y (f c) = Cls.list Y c) :
    Ext X cur a (setCell a j f) := by
  by_cases hj : j < a.size
  · refine ⟨?_, ?_, ?_, ?_, ?_, ?_, ?_⟩
    · rw [size_setCell]; exact Nat.le_refl _
    · intro i _; rw [cell_setCell hj]; split <;> simp [hk]
    · intro i _; rw [cell_setCell hj]; split <;> simp [hpa]
    · intro i _; rw [cell_setCell hj]; split <;> simp [hpo]
    · intro Y i _ _; rw [cell_setCell hj]; split <;> simp [hl]
    · rw [cell_setCell hj, size_setCell]; split <;> simp [hl]
    · intro i hi hi'; rw [size_setCell] at hi'; omega
  · have : setCell a j f = a := by
      simp only [setCell]
      apply Array.ext
      · simp
      · intro i h1 h2
        rw [Array.getElem_modify]
        have : j ≠ i := by omega
        simp [this]
    rw [this]
    exact ⟨Nat.le_refl _, fun _ _ => rfl, fun _ _ => rfl, fun _ _ => rfl, fun _ _ _ _ => rfl,
      by simp, fun i hi hi' => by omega⟩

theorem Ext.refl (X : Cls) (cur : Nat) (a : Arena) : Ext X cur a a :=
  ⟨Nat.le_refl _, fun _ _ => rfl, fun _ _ => rfl, fun _ _ => rfl, fun _ _ _ _ => rfl,
      by simp, fun i hi hi' => by omega⟩

/-! ### `finish` -/

def fin1 (s : BState) : Arena × List Nat :=
  s.pending.foldl (fun (acc : Arena × List Nat) (pu : Chars × Chars) =>
      if pu.2.isEmpty then acc
      else
        let (a', i) := alloc acc.1 { kind := .ns, loc := pu.1, val := pu.2, parent := s.cur }
        (a', acc.2 ++ [i])) (s.a, [])

def fin2 (s : BState) : Arena × List Nat :=
  (if s.cur == 0 then [] else Arena.nss s.a (Arena.parent s.a s.cur)).foldl
    (fun (acc : Arena × List Nat) (j : Nat) =>
      if s.pending.any (fun pu => pu.1 == (Arena.cell s.a j).loc) then acc
      else
        let (a', i) := alloc acc.1 { kind := .ns, loc := (Arena.cell s.a j).loc,
                                     val := (Arena.cell s.a j).val, parent := s.cur }
        (a', acc.2 ++ [i])) (fin1 s)

theorem finish_eq (s : BState) : finish s =
    if s.done then s else
      { s with a := setCell (fin2 s).1 s.cur (fun c => { c with nss := (fin2 s).2 }),
               pending := [], done := true } := rfl

theorem range'_cat {n m k : Nat} (h1 : n ≤ m) (h2 : m ≤ k) :
    List.range' n (m - n) ++ List.range' m (k - m) = List.range' n (k - n) := by
  have e1 : m = n + 1 * (m - n) := by omega
  have e2 : k - n = (m - n) + (k - m) := by omega
  rw [e2, ← List.range'_append (s := n) (m := m - n) (n := k - m) (step := 1), ← e1]

theorem fin1_push (s : BState) :
    Push .ns s.cur s.a (fin1 s).1
    ∧ (fin1 s).2 = [] ++ List.range' s.a.size ((fin1 s).1.size - s.a.size) :=
  foldl_push .ns s.cur (fun pu : Chars × Chars => pu.2.isEmpty)
    (fun pu => { kind := .ns, loc := pu.1, val := pu.2, parent := s.cur })
    (fun _ => ⟨rfl, rfl, rfl, rfl, rfl⟩) s.pending s.a []

theorem fin2_push (s : BState) :
    Push .ns s.cur s.a (fin2 s).1
    ∧ (fin2 s).2 = List.range' s.a.size ((fin2 s).1.size - s.a.size) := by
  obtain ⟨h1, h2⟩ := fin1_push s
  obtain ⟨h3, h4⟩ := foldl_push .ns s.cur
    (fun j : Nat => s.pending.any (fun pu => pu.1 == (Arena.cell s.a j).loc))
    (fun j => { kind := .ns, loc := (Arena.cell s.a j).loc, val := (Arena.cell s.a j).val,
                parent := s.cur })
    (fun _ => ⟨rfl, rfl, rfl, rfl, rfl⟩)
    (if s.cur == 0 then [] else Arena.nss s.a (Arena.parent s.a s.cur)) (fin1 s).1 (fin1 s).2
  refine ⟨h1.trans h3, ?_⟩
  have h4' : (fin2 s).2 = (fin1 s).2 ++ List.range' (fin1 s).1.size
      ((fin2 s).1.size - (fin1 s).1.size) := h4
  have h3' : (fin1 s).1.size ≤ (fin2 s).1.size := h3.le
  rw [h4', h2, List.nil_append]
  exact range'_cat h1.le h3'

theorem finish_cur (s : BState) : (finish s).cur = s.cur := by
  rw [finish_eq]; split <;> rfl

theorem finish_done (s : BState) : (finish s).done = true := by
  rw [finish_eq]; split
  · assumption
  · rfl

theorem list_set_nss (g : Cell → List Nat) : ∀ Y, Y ≠ Cls.ns → ∀ c : Cell,
    Cls.list Y { c with nss := g c } = Cls.list Y c := by
  intro Y hY c; cases Y <;> simp_all [Cls.list]

theorem list_set_attrs (g : Cell → List Nat) : ∀ Y, Y ≠ Cls.attr → ∀ c : Cell,
    Cls.list Y { c with attrs := g c } = Cls.list Y c := by
  intro Y hY c; cases Y <;> simp_all [Cls.list]

theorem list_set_kids (g : Cell → List Nat) : ∀ Y, Y ≠ Cls.kid → ∀ c : Cell,
    Cls.list Y { c with kids := g c } = Cls.list Y c := by
  intro Y hY c; cases Y <;> simp_all [Cls.list]

theorem finish_ext (s : BState) (hc : s.cur < s.a.size)
    (hn : s.done = false → (cell s.a s.cur).nss = []) :
    Ext .ns s.cur s.a (finish s).a := by
  rw [finish_eq]
  cases hd : s.done
  · obtain ⟨h1, h2⟩ := fin2_push s
    refine Ext.of_push h1 hc (fun c => { c with nss := (fin2 s).2 }) (fun _ => rfl) (fun _ => rfl)
      (fun _ => rfl) (list_set_nss fun _ => (fin2 s).2) ?_
    show (fin2 s).2 = (cell s.a s.cur).nss ++ _
    rw [hn hd, h2]; rfl
  · exact Ext.refl _ _ _

/-! ### the events -/

theorem alloc_push (X : Cls) (cur : Nat) (a : Arena) (c : Cell) (hk : X.ok c.kind)
    (h1 : c.nss = []) (h2 : c.attrs = []) (h3 : c.kids = []) :
    Push X cur a (alloc a { c with parent := cur }).1 :=
  Push.alloc X cur a _ hk rfl h1 h2 h3

theorem range'_one (a : Arena) (c : Cell) :
    List.range' a.size ((alloc a c).1.size - a.size) = [a.size] := by
  rw [size_alloc]
  have : a.size + 1 - a.size = 1 := by omega
  rw [this]; rfl

theorem addLeaf_cur (s : BState) (c : Cell) (b : Bool) : (addLeaf s c b).cur = s.cur :=
  finish_cur s

theorem addLeaf_done (s : BState) (c : Cell) (b : Bool) : (addLeaf s c b).done = true :=
  finish_done s

theorem addAttr_ext (s : BState) (c : Cell) (hk : c.kind = .attr)
    (h1 : c.nss = []) (h2 : c.attrs = []) (h3 : c.kids = [])
    (hc : (finish s).cur < (finish s).a.size) :
    Ext .attr (finish s).cur (finish s).a (addLeaf s c true).a := by
  show Ext .attr _ _ (setCell (alloc (finish s).a { c with parent := (finish s).cur }).1
    (finish s).cur (fun p => { p with attrs := p.attrs ++ [(finish s).a.size] }))
  refine Ext.of_push (alloc_push .attr _ _ c hk h1 h2 h3) hc _ (fun _ => rfl) (fun _ => rfl)
    (fun _ => rfl) (list_set_attrs fun p => p.attrs ++ [(finish s).a.size]) ?_
  rw [range'_one]; rfl

theorem addKid_ext (s : BState) (c : Cell) (hk : Cls.kid.ok c.kind)
    (h1 : c.nss = []) (h2 : c.attrs = []) (h3 : c.kids = [])
    (hc : (finish s).cur < (finish s).a.size) :
    Ext .kid (finish s).cur (finish s).a (addLeaf s c false).a := by
  show Ext .kid _ _ (setCell (alloc (finish s).a { c with parent := (finish s).cur }).1
    (finish s).cur (fun p => { p with kids := p.kids ++ [(finish s).a.size] }))
  refine Ext.of_push (alloc_push .kid _ _ c hk h1 h2 h3) hc _ (fun _ => rfl) (fun _ => rfl)
    (fun _ => rfl) (list_set_kids fun p => p.kids ++ [(finish s).a.size]) ?_
  rw [range'_one]; rfl

theorem elem_a (s : BState) (u l : Chars) :
    (step s (.elem u l)).a = (addLeaf s { kind := .elem, uri := u, loc := l } false).a := rfl

theorem elem_cur (s : BState) (u l : Chars) :
    (step s (.elem u l)).cur = (finish s).a.size := rfl

theorem elem_done (s : BState) (u l : Chars) : (step s (.elem u l)).done = false := rfl

theorem close_a (s : BState) : (step s .close).a = (finish s).a := rfl
theorem close_cur (s : BState) :
    (step s .close).cur = (cell (finish s).a (finish s).cur).parent := rfl
theorem close_done (s : BState) : (step s .close).done = true := rfl

theorem ns_pending (s : BState) (p u : Chars) (hd : s.done = false) :
    (step s (.ns p u)).a = s.a ∧ (step s (.ns p u)).cur = s.cur
    ∧ (step s (.ns p u)).done = false := by
  simp [step, hd]

theorem ns_late (s : BState) (p u : Chars) (hd : s.done = true) (hc : s.cur < s.a.size) :
    Ext .ns s.cur s.a (step s (.ns p u)).a ∧ (step s (.ns p u)).cur = s.cur
    ∧ (step s (.ns p u)).done = true := by
  simp only [step, hd, if_true]
  split
  · next j _ =>
    refine ⟨?_, rfl, rfl⟩
    exact Ext.of_shape .ns s.cur s.a j (fun c => { c with val := u }) (fun _ => rfl) (fun _ => rfl)
      (fun _ => rfl) (fun Y c => by cases Y <;> rfl)
  · refine ⟨?_, rfl, rfl⟩
    refine Ext.of_push (alloc_push .ns s.cur s.a { kind := .ns, loc := p, val := u } rfl rfl rfl rfl)
      hc (fun c => { c with nss := c.nss ++ [s.a.size] }) (fun _ => rfl) (fun _ => rfl)
      (fun _ => rfl) (list_set_nss fun c => c.nss ++ [s.a.size]) ?_
    rw [range'_one]; rfl

end Xsel.StoreL
