/-
  Proofs/Lemmas/LexRound.lean — the lexer reads back what a token list spells.

  * `Tok.spell`   : the text of a token; `tokOk lc t`: `t` is a token the lexer can produce.
  * `lexOne_spell`: a good token followed by a rest whose first character cannot extend it
                    (`headOk`) is read back as exactly that token.
  * `lexRaw_spellPadded` : token lists written with arbitrary white space runs (possibly empty where
                    `headOk` allows it) before every token and trailing white space; the `glued`
                    flags record exactly the empty runs.  `lexRaw` is the tokenisation proper (keywords
                    are always keyword tokens).
  * `lexRaw_spellAll`, `lexRaw_extra_space`, `lexRaw_spellGlue` : the corollaries.
  * `retagOps` (XPath §3.7, the operator names): `retagOps_cons` (one token at a time: `retagTok`,
                    `expNext`), `retagOps_length`, `retagOps_glued`, `retagOps_spell`, `retagOps_keeps`
                    (only operator-name keywords change, and only into the name they spell),
                    `opsPlaced` / `retagOps_id` (when nothing changes), `retagOps_append`.
  * `retagFns` (a name in front of `(` is a function name unless it is a node type): `retagFns_cons`
                    (`retagFnTok`, `fnHere`), `retagFns_length`, `retagFns_glued`, `retagFns_spell`,
                    `retagFns_keeps`, `retagFns_changes` (only axis-name and node-type keywords change,
                    and only into the name they spell), `fnsPlaced` / `retagFns_id` /
                    `fnsPlaced_of_retagFns_id` (when nothing changes).
  * `dropTrailDots` (XPath's Number `Digits '.'`): `dropTrailDots_keep`, `dropTrailDots_drop` (one
                    token at a time: `dotHere`, `piNext`), `dropTrailDots_length_le`,
                    `dropTrailDots_sublist` (tokens are only dropped), `dotsPlaced` /
                    `dropTrailDots_id` / `dotsPlaced_of_dropTrailDots_id` (when nothing changes).
  * `lc.post` = `lc.dotPass ∘ lc.fnPass ∘ lc.opPass` (`post_eq`), `post_id`, `post_lexModel`,
                    `post_lexSpec`, `post_length_le`, `post_sublist`.
  * `lex_spellPadded`, `lex_extra_space`, `lex_extra_space_zip`, `lex_spellAll`, `lex_spellGlue` : the
                    same for `lex` (= `lexRaw` followed by `lc.post`: the three passes, each when its
                    rule is on); the `…_placed` forms: if for every rule that is on no token stands
                    where it applies (`opsPlaced`, `fnsPlaced`, `dotsPlaced`), exactly the tokens.
-/
import Xsel.Lex

namespace Xsel.Syntax

/-! ### the text of a token -/

def Punct.chars : Punct → Chars
  | .slash => ['/'] | .dslash => ['/','/'] | .lbrack => ['['] | .rbrack => [']']
  | .lparen => ['('] | .rparen => [')'] | .comma => [','] | .at => ['@']
  | .coloncolon => [':',':'] | .colon => [':'] | .dot => ['.'] | .dotdot => ['.','.']
  | .star => ['*'] | .pipe => ['|'] | .plus => ['+'] | .minus => ['-'] | .eq => ['=']
  | .ne => ['!','='] | .lt => ['<'] | .le => ['<','='] | .gt => ['>'] | .ge => ['>','=']

def Tok.spell : Tok → Chars
  | .p x => x.chars
  | .kw k => k.chars
  | .ncname s => s
  | .digits s => s
  | .lit false s => '\'' :: s ++ ['\'']
  | .lit true s => '"' :: s ++ ['"']
  | .var s => '$' :: s

/-- a name of the lexer: a name start character followed by name characters -/
def isName (lc : LexCfg) (s : Chars) : Bool :=
  match s with
  | [] => false
  | c :: _ => isNameStart lc c && s.all isNameChar

/-- the tokens that the lexer can produce -/
def tokOk (lc : LexCfg) : Tok → Bool
  | .p _ => true
  | .kw _ => true
  | .ncname s => isName lc s && (kwOf s).isNone
  | .digits s => !s.isEmpty && s.all isDigit
  | .lit false s => !s.contains '\'' && !s.contains '\\'
  | .lit true s => !s.contains '"' && !s.contains '\\'
  | .var s =>
    isName lc s ||
      (match s.dropWhile (· != ':') with
       | ':' :: b => isName lc (s.takeWhile (· != ':')) && isName lc b
       | _ => false)

/-- the first character after token `t` (none: end of input) does not change how `t` is read -/
def headOk (t : Tok) (h : Option Char) : Bool :=
  match h with
  | none => true
  | some c =>
    match t with
    | .p .slash => c != '/'
    | .p .colon => c != ':'
    | .p .dot => c != '.'
    | .p .lt => c != '='
    | .p .gt => c != '='
    | .p _ => true
    | .kw _ => !isNameChar c && !foreign c
    | .ncname _ => !isNameChar c && !foreign c
    | .digits _ => !isDigit c
    | .lit _ _ => true
    | .var _ => !isNameChar c && !foreign c && c != ':'

/-! ### characters as numbers -/

theorem char_le_nat (a b : Char) : a ≤ b ↔ a.toNat ≤ b.toNat := by
  rw [Char.le_def, UInt32.le_iff_toNat_le]; rfl

theorem char_eq_nat (a b : Char) : a = b ↔ a.toNat = b.toNat := Char.toNat_inj.symm

theorem letter_nat (c : Char) :
    isAsciiLetter c = true ↔ (97 ≤ c.toNat ∧ c.toNat ≤ 122) ∨ (65 ≤ c.toNat ∧ c.toNat ≤ 90) := by
  simp [isAsciiLetter, char_le_nat]

theorem digit_nat (c : Char) : isDigit c = true ↔ (48 ≤ c.toNat ∧ c.toNat ≤ 57) := by
  simp [isDigit, char_le_nat]

/-- name start characters and digits are printable ASCII -/
theorem nameStart_nat (lc : LexCfg) (c : Char) (h : isNameStart lc c = true) :
    (97 ≤ c.toNat ∧ c.toNat ≤ 122) ∨ (65 ≤ c.toNat ∧ c.toNat ≤ 90) ∨ c.toNat = 35 ∨ c.toNat = 95 := by
  simp only [isNameStart, Bool.or_eq_true, Bool.and_eq_true, beq_iff_eq, letter_nat] at h
  rcases h with (h | h) | h
  · omega
  · subst h; simp
  · rw [h.2]; simp

theorem goSpace_of_space (lc : LexCfg) (c : Char) (h : isSpace lc c = true) : isGoSpace c = true := by
  unfold isSpace at h
  split at h
  · simp only [isXmlSpace, Bool.or_eq_true, beq_iff_eq] at h
    rcases h with ((h | h) | h) | h <;> subst h <;> decide
  · exact h

theorem goSpace_nat (c : Char) (h : isGoSpace c = true) :
    (9 ≤ c.toNat ∧ c.toNat ≤ 13) ∨ c.toNat = 32 ∨ 128 ≤ c.toNat := by
  simp [isGoSpace] at h
  omega

theorem space_nat (lc : LexCfg) (c : Char) (h : isSpace lc c = true) :
    (9 ≤ c.toNat ∧ c.toNat ≤ 13) ∨ c.toNat = 32 ∨ 128 ≤ c.toNat :=
  goSpace_nat c (goSpace_of_space lc c h)

theorem not_space_of_nat (lc : LexCfg) (c : Char) (h : 33 ≤ c.toNat ∧ c.toNat < 128) :
    isSpace lc c = false := by
  cases hs : isSpace lc c with
  | false => rfl
  | true => have := space_nat lc c hs; omega

theorem nameChar_nat (c : Char) (h : isNameChar c = true) : 33 ≤ c.toNat ∧ c.toNat < 128 := by
  simp only [isNameChar, Bool.or_eq_true, beq_iff_eq, letter_nat, digit_nat, char_eq_nat] at h
  simp at h
  omega

/-- white space never extends a token -/
theorem headOk_space (lc : LexCfg) (t : Tok) (c : Char) (h : isSpace lc c = true) :
    headOk t (some c) = true := by
  have hg := goSpace_of_space lc c h
  have hn := goSpace_nat c hg
  have hnc : isNameChar c = false := by
    cases hc : isNameChar c with
    | false => rfl
    | true => have := nameChar_nat c hc; omega
  have hd : isDigit c = false := by
    cases hc : isDigit c with
    | false => rfl
    | true => have := (digit_nat c).mp hc; omega
  have hf : foreign c = false := by simp [foreign, hg]
  have h1 : c ≠ '/' := by rw [Ne, char_eq_nat]; simp; omega
  have h2 : c ≠ ':' := by rw [Ne, char_eq_nat]; simp; omega
  have h3 : c ≠ '.' := by rw [Ne, char_eq_nat]; simp; omega
  have h4 : c ≠ '=' := by rw [Ne, char_eq_nat]; simp; omega
  cases t with
  | p x => cases x <;> simp [headOk, h1, h2, h3, h4]
  | _ => simp [headOk, hnc, hd, hf, h2]

/-! ### `takeWhile` / `dropWhile` over an append -/

theorem takeWhile_append_stop (p : Char → Bool) (s r : Chars) (hs : ∀ c ∈ s, p c = true)
    (hr : ∀ c, r.head? = some c → p c = false) : (s ++ r).takeWhile p = s := by
  induction s with
  | nil =>
    cases r with
    | nil => rfl
    | cons c r' => simp [hr c rfl]
  | cons a s ih =>
    have ha : p a = true := hs a (by simp)
    simp only [List.cons_append, List.takeWhile, ha]
    rw [ih (fun c hc => hs c (by simp [hc]))]

theorem dropWhile_append_stop (p : Char → Bool) (s r : Chars) (hs : ∀ c ∈ s, p c = true)
    (hr : ∀ c, r.head? = some c → p c = false) : (s ++ r).dropWhile p = r := by
  induction s with
  | nil =>
    cases r with
    | nil => rfl
    | cons c r' => simp [hr c rfl]
  | cons a s ih =>
    have ha : p a = true := hs a (by simp)
    simp only [List.cons_append, List.dropWhile, ha]
    rw [ih (fun c hc => hs c (by simp [hc]))]

/-! ### one token -/

/-- the characters that start a punctuation token, a literal or a variable reference -/
def special (c : Char) : Bool :=
  c == '/' || c == '[' || c == ']' || c == '(' || c == ')' || c == ',' || c == '@' || c == ':' ||
  c == '.' || c == '*' || c == '|' || c == '+' || c == '-' || c == '=' || c == '!' || c == '<' ||
  c == '>' || c == '\'' || c == '"' || c == '$'

/-- the last branch of `lexOne` -/
theorem lexOne_default (lc : LexCfg) (c : Char) (r : Chars) (h : special c = false) :
    lexOne lc (c :: r) =
      if isDigit c then .tok (.digits ((c :: r).takeWhile isDigit)) ((c :: r).dropWhile isDigit)
      else match takeName lc (c :: r) with
        | some (n, r1) =>
          (match r1 with
           | c1 :: _ => if foreign c1 then .unsup else
               (match kwOf n with | some k => .tok (.kw k) r1 | none => .tok (.ncname n) r1)
           | [] => (match kwOf n with | some k => .tok (.kw k) r1 | none => .tok (.ncname n) r1))
        | none => if foreign c then .unsup else .err := by
  simp [special] at h
  unfold lexOne
  split <;> simp_all
  rfl

theorem special_of_nameStart (lc : LexCfg) (c : Char) (h : isNameStart lc c = true) :
    special c = false := by
  have := nameStart_nat lc c h
  simp only [special, Bool.or_eq_false_iff, beq_eq_false_iff_ne, ne_eq, char_eq_nat]
  simp
  omega

theorem special_of_digit (c : Char) (h : isDigit c = true) : special c = false := by
  have := (digit_nat c).mp h
  simp only [special, Bool.or_eq_false_iff, beq_eq_false_iff_ne, ne_eq, char_eq_nat]
  simp
  omega

theorem digit_of_nameStart (lc : LexCfg) (c : Char) (h : isNameStart lc c = true) :
    isDigit c = false := by
  have := nameStart_nat lc c h
  cases hc : isDigit c with
  | false => rfl
  | true => have := (digit_nat c).mp hc; omega

theorem lexOne_punct (lc : LexCfg) (x : Punct) (r : Chars) (h : headOk (.p x) r.head? = true) :
    lexOne lc (x.chars ++ r) = .tok (.p x) r := by
  cases x <;> cases r <;> simp [Punct.chars, headOk] at h ⊢ <;> simp [lexOne, h]

theorem takeName_append (lc : LexCfg) (s r : Chars) (hs : isName lc s = true)
    (hr : ∀ c, r.head? = some c → isNameChar c = false) : takeName lc (s ++ r) = some (s, r) := by
  cases s with
  | nil => simp [isName] at hs
  | cons a s =>
    simp only [isName, Bool.and_eq_true, List.all_eq_true] at hs
    simp only [takeName, List.cons_append, hs.1, if_true]
    rw [← List.cons_append, takeWhile_append_stop _ _ _ hs.2 hr, dropWhile_append_stop _ _ _ hs.2 hr]

/-- a name followed by something that is not a name character: keyword or `ncname` -/
theorem lexOne_name (lc : LexCfg) (s r : Chars) (hs : isName lc s = true)
    (hr : ∀ c, r.head? = some c → isNameChar c = false ∧ foreign c = false) :
    lexOne lc (s ++ r) = match kwOf s with | some k => .tok (.kw k) r | none => .tok (.ncname s) r := by
  have htn := takeName_append lc s r hs (fun c hc => (hr c hc).1)
  cases s with
  | nil => simp [isName] at hs
  | cons a s =>
    have ha : isNameStart lc a = true := by
      simp only [isName, Bool.and_eq_true] at hs; exact hs.1
    rw [List.cons_append, lexOne_default lc a _ (special_of_nameStart lc a ha),
      digit_of_nameStart lc a ha, ← List.cons_append, htn]
    cases r with
    | nil => simp
    | cons c r' => simp [(hr c rfl).2]

theorem kwOf_chars (k : Kw) : kwOf k.chars = some k := by
  cases k with
  | axis a => cases a <;> decide
  | _ => decide

theorem isName_of_letter (lc : LexCfg) (c : Char) (s : Chars) (hc : isAsciiLetter c = true)
    (hs : (c :: s).all isNameChar = true) : isName lc (c :: s) = true := by
  simp only [isName, isNameStart, hc, Bool.true_or, Bool.true_and]
  exact hs

theorem isName_kw (lc : LexCfg) (k : Kw) : isName lc k.chars = true := by
  cases k with
  | axis a => cases a <;> exact isName_of_letter lc _ _ (by decide) (by decide)
  | _ => exact isName_of_letter lc _ _ (by decide) (by decide)

theorem contains_false (s : Chars) (q : Char) (h : s.contains q = false) : ∀ c ∈ s, (c != q) = true := by
  intro c hc
  cases hq : (c != q) with
  | true => rfl
  | false =>
    simp at hq
    subst hq
    have : s.contains c = true := by simp [hc]
    rw [this] at h; cases h

theorem lexLiteral_close (q : Char) (dq : Bool) (s r : Chars) (hq : s.contains q = false)
    (hb : s.contains '\\' = false) : lexLiteral q dq (s ++ q :: r) = .tok (.lit dq s) r := by
  have hs := contains_false s q hq
  have hr : ∀ c, (q :: r).head? = some c → (c != q) = false := by
    intro c hc; simp at hc; subst hc; simp
  simp only [lexLiteral, takeWhile_append_stop _ _ _ hs hr, dropWhile_append_stop _ _ _ hs hr, hb]
  simp

theorem lexOne_var (lc : LexCfg) (s r : Chars) (hs : tokOk lc (.var s) = true)
    (hr : headOk (.var s) r.head? = true) : lexOne lc ('$' :: s ++ r) = .tok (.var s) r := by
  have hr' : ∀ c, r.head? = some c → isNameChar c = false ∧ foreign c = false ∧ c ≠ ':' := by
    intro c hc
    rw [hc] at hr
    simpa [headOk, and_assoc] using hr
  have hlex : lexOne lc ('$' :: s ++ r) =
      match takeName lc (s ++ r) with
      | none => (match s ++ r with | c :: _ => if foreign c then .unsup else .err | [] => .err)
      | some (n1, r1) =>
        match r1 with
        | ':' :: r2 =>
          (match takeName lc r2 with
           | none => (match r2 with | c :: _ => if foreign c then .unsup else .err | [] => .err)
           | some (n2, r3) =>
             match r3 with
             | ':' :: _ => .unsup
             | c :: _ => if foreign c then .unsup else .tok (.var (n1 ++ ':' :: n2)) r3
             | [] => .tok (.var (n1 ++ ':' :: n2)) r3)
        | c :: _ => if foreign c then .unsup else .tok (.var n1) r1
        | [] => .tok (.var n1) r1 := by
    simp only [List.cons_append, lexOne]
    rfl
  rw [hlex]
  simp only [tokOk, Bool.or_eq_true] at hs
  rcases hs with hs | hs
  · rw [takeName_append lc s r hs (fun c hc => (hr' c hc).1)]
    cases r with
    | nil => rfl
    | cons c r' =>
      have := hr' c rfl
      simp only
      split
      · next heq => simp at heq; exact absurd heq.1 this.2.2
      · next heq => simp at heq; simp [← heq.1, this.2.1, heq.2]
      · next heq => simp at heq
  · split at hs
    · next b hb =>
      simp only [Bool.and_eq_true] at hs
      have hsplit : s = s.takeWhile (· != ':') ++ ':' :: b := by
        rw [← hb, List.takeWhile_append_dropWhile]
      generalize s.takeWhile (· != ':') = a at hs hsplit
      subst hsplit
      rw [List.append_assoc, takeName_append lc a _ hs.1 (by intro c hc; simp at hc; subst hc; decide)]
      simp only [List.cons_append]
      rw [takeName_append lc b r hs.2 (fun c hc => (hr' c hc).1)]
      cases r with
      | nil => rfl
      | cons c r' =>
        have := hr' c rfl
        simp only
        split
        · next heq => simp at heq; exact absurd heq.1 this.2.2
        · next heq => simp at heq; simp [← heq.1, this.2.1, heq.2]
        · next heq => simp at heq
    · cases hs

/-- the key lemma: a good token, followed by a rest that cannot extend it, is read back -/
theorem lexOne_spell (lc : LexCfg) (t : Tok) (r : Chars) (ht : tokOk lc t = true)
    (hr : headOk t r.head? = true) : lexOne lc (t.spell ++ r) = .tok t r := by
  cases t with
  | p x => exact lexOne_punct lc x r hr
  | kw k =>
    have hr' : ∀ c, r.head? = some c → isNameChar c = false ∧ foreign c = false := by
      intro c hc; rw [hc] at hr; simpa [headOk] using hr
    simp only [Tok.spell]
    rw [lexOne_name lc k.chars r (isName_kw lc k) hr', kwOf_chars]
  | ncname s =>
    have hr' : ∀ c, r.head? = some c → isNameChar c = false ∧ foreign c = false := by
      intro c hc; rw [hc] at hr; simpa [headOk] using hr
    simp only [tokOk, Bool.and_eq_true, Option.isNone_iff_eq_none] at ht
    simp only [Tok.spell]
    rw [lexOne_name lc s r ht.1 hr', ht.2]
  | digits s =>
    have hr' : ∀ c, r.head? = some c → isDigit c = false := by
      intro c hc; rw [hc] at hr; simpa [headOk] using hr
    simp only [tokOk, Bool.and_eq_true, List.all_eq_true] at ht
    cases s with
    | nil => simp at ht
    | cons a s =>
      have ha : isDigit a = true := ht.2 a (by simp)
      simp only [Tok.spell, List.cons_append]
      rw [lexOne_default lc a _ (special_of_digit a ha), if_pos ha, ← List.cons_append,
        takeWhile_append_stop _ _ _ ht.2 hr', dropWhile_append_stop _ _ _ ht.2 hr']
  | lit dq s =>
    cases dq with
    | false =>
      simp only [tokOk, Bool.and_eq_true, Bool.not_eq_true'] at ht
      have : lexOne lc ((Tok.lit false s).spell ++ r) = lexLiteral '\'' false (s ++ '\'' :: r) := by
        simp [Tok.spell, lexOne]
      rw [this, lexLiteral_close _ _ _ _ ht.1 ht.2]
    | true =>
      simp only [tokOk, Bool.and_eq_true, Bool.not_eq_true'] at ht
      have : lexOne lc ((Tok.lit true s).spell ++ r) = lexLiteral '"' true (s ++ '"' :: r) := by
        simp [Tok.spell, lexOne]
      rw [this, lexLiteral_close _ _ _ _ ht.1 ht.2]
  | var s => exact lexOne_var lc s r ht hr

/-! ### the first character of a token is not white space; tokens are not empty -/

theorem spell_head (lc : LexCfg) (t : Tok) (ht : tokOk lc t = true) :
    ∃ c s, t.spell = c :: s ∧ isSpace lc c = false := by
  cases t with
  | p x => cases x <;> exact ⟨_, _, rfl, not_space_of_nat lc _ (by decide)⟩
  | kw k =>
    have hk := isName_kw lc k
    simp only [Tok.spell]
    generalize k.chars = s at hk
    cases s with
    | nil => simp [isName] at hk
    | cons a s =>
      simp only [isName, Bool.and_eq_true] at hk
      have := nameStart_nat lc a hk.1
      exact ⟨a, s, rfl, not_space_of_nat lc a (by omega)⟩
  | ncname s =>
    simp only [tokOk, Bool.and_eq_true] at ht
    have hk := ht.1
    cases s with
    | nil => simp [isName] at hk
    | cons a s =>
      simp only [isName, Bool.and_eq_true] at hk
      have := nameStart_nat lc a hk.1
      exact ⟨a, s, rfl, not_space_of_nat lc a (by omega)⟩
  | digits s =>
    simp only [tokOk, Bool.and_eq_true, List.all_eq_true] at ht
    cases s with
    | nil => simp at ht
    | cons a s =>
      have := (digit_nat a).mp (ht.2 a (by simp))
      exact ⟨a, s, rfl, not_space_of_nat lc a (by omega)⟩
  | lit dq s =>
    cases dq
    · exact ⟨_, _, rfl, not_space_of_nat lc _ (by decide)⟩
    · exact ⟨_, _, rfl, not_space_of_nat lc _ (by decide)⟩
  | var s => exact ⟨_, _, rfl, not_space_of_nat lc _ (by decide)⟩

/-! ### the operator names (XPath §3.7): what `lex` does after `lexRaw` -/

/-- `or and div mod` as keyword tokens -/
def Tok.isOpKw : Tok → Bool
  | .kw k => k.isOpName
  | _ => false

/-- the flag "an operand is expected" after token `t`, given the flag before it -/
def expNext (exp : Bool) : Tok → Bool
  | .kw k => if k.isOpName then !exp else false
  | .p .star => !exp
  | .p x => x.wantsOperand
  | _ => false

/-- what `retagOps` does to one token: an operator-name keyword where an operand is expected becomes
    the name it spells -/
def retagTok (exp : Bool) (t : LTok) : LTok :=
  match t.tok with
  | .kw k => if k.isOpName && exp then ⟨.ncname k.chars, t.glued⟩ else t
  | _ => t

theorem retagOps_nil (exp : Bool) : retagOps exp [] = [] := by simp [retagOps]

/-- `retagOps` token by token -/
theorem retagOps_cons (exp : Bool) (t : LTok) (ts : List LTok) :
    retagOps exp (t :: ts) = retagTok exp t :: retagOps (expNext exp t.tok) ts := by
  obtain ⟨tok, g⟩ := t
  cases tok with
  | kw k => cases hk : k.isOpName <;> cases exp <;> simp [retagOps, retagTok, expNext, hk]
  | p x => cases x <;> simp [retagOps, retagTok, expNext]
  | _ => simp [retagOps, retagTok, expNext]

/-- the flag after a token list -/
def expAfter : Bool → List LTok → Bool
  | exp, [] => exp
  | exp, t :: ts => expAfter (expNext exp t.tok) ts

/-- no operator-name keyword stands where an operand is expected -/
def opsPlaced : Bool → List LTok → Bool
  | _, [] => true
  | exp, t :: ts => !(t.tok.isOpKw && exp) && opsPlaced (expNext exp t.tok) ts

theorem retagTok_glued (exp : Bool) (t : LTok) : (retagTok exp t).glued = t.glued := by
  obtain ⟨tok, g⟩ := t
  cases tok <;> simp [retagTok]
  split <;> rfl

/-- a retagged token is spelled as before -/
theorem retagTok_spell (exp : Bool) (t : LTok) : (retagTok exp t).tok.spell = t.tok.spell := by
  obtain ⟨tok, g⟩ := t
  cases tok <;> simp [retagTok]
  split <;> rfl

/-- only operator-name keywords are retagged … -/
theorem retagTok_of_not_opKw (exp : Bool) (t : LTok) (h : t.tok.isOpKw = false) : retagTok exp t = t := by
  obtain ⟨tok, g⟩ := t
  cases tok <;> simp_all [retagTok, Tok.isOpKw]

/-- … and only where an operand is expected -/
theorem retagTok_of_not_exp (t : LTok) : retagTok false t = t := by
  obtain ⟨tok, g⟩ := t
  cases tok <;> simp [retagTok]

/-- … into the name they spell -/
theorem retagTok_opKw (t : LTok) (k : Kw) (hk : k.isOpName = true) (h : t.tok = .kw k) :
    retagTok true t = ⟨.ncname k.chars, t.glued⟩ := by
  obtain ⟨tok, g⟩ := t
  simp only at h
  subst h
  simp [retagTok, hk]

theorem retagOps_length (exp : Bool) (ts : List LTok) : (retagOps exp ts).length = ts.length := by
  induction ts generalizing exp with
  | nil => simp [retagOps_nil]
  | cons t ts ih => simp [retagOps_cons, ih]

/-- the adjacency flags are kept -/
theorem retagOps_glued (exp : Bool) (ts : List LTok) :
    (retagOps exp ts).map (·.glued) = ts.map (·.glued) := by
  induction ts generalizing exp with
  | nil => simp [retagOps_nil]
  | cons t ts ih => simp [retagOps_cons, ih, retagTok_glued]

/-- the text of every token is kept -/
theorem retagOps_spell (exp : Bool) (ts : List LTok) :
    (retagOps exp ts).map (·.tok.spell) = ts.map (·.tok.spell) := by
  induction ts generalizing exp with
  | nil => simp [retagOps_nil]
  | cons t ts ih => simp [retagOps_cons, ih, retagTok_spell]

/-- every token that is not an operator-name keyword is kept, at its position -/
theorem retagOps_keeps (exp : Bool) (ts : List LTok) (i : Nat) (t : LTok) (hi : ts[i]? = some t)
    (h : t.tok.isOpKw = false) : (retagOps exp ts)[i]? = some t := by
  induction ts generalizing exp i with
  | nil => simp at hi
  | cons a ts ih =>
    rw [retagOps_cons]
    cases i with
    | zero =>
      simp only [List.getElem?_cons_zero, Option.some.injEq] at hi ⊢
      subst hi
      exact retagTok_of_not_opKw exp a h
    | succ i =>
      simp only [List.getElem?_cons_succ] at hi ⊢
      exact ih _ i hi

/-- a token that changes was an operator-name keyword and becomes the `ncname` of the same text -/
theorem retagOps_changes (exp : Bool) (ts : List LTok) (i : Nat) (t t' : LTok) (hi : ts[i]? = some t)
    (hi' : (retagOps exp ts)[i]? = some t') (hne : t' ≠ t) :
    ∃ k, k.isOpName = true ∧ t.tok = .kw k ∧ t' = ⟨.ncname k.chars, t.glued⟩ := by
  induction ts generalizing exp i with
  | nil => simp at hi
  | cons a ts ih =>
    rw [retagOps_cons] at hi'
    cases i with
    | zero =>
      simp only [List.getElem?_cons_zero, Option.some.injEq] at hi hi'
      subst hi hi'
      obtain ⟨tok, g⟩ := a
      cases tok with
      | kw k =>
        cases hk : k.isOpName with
        | false => exact absurd (retagTok_of_not_opKw exp _ (by simp [Tok.isOpKw, hk])) hne
        | true =>
          cases exp with
          | false => exact absurd (retagTok_of_not_exp _) hne
          | true => exact ⟨k, hk, rfl, retagTok_opKw _ k hk rfl⟩
      | _ => exact absurd (retagTok_of_not_opKw exp _ rfl) hne
    | succ i =>
      simp only [List.getElem?_cons_succ] at hi hi'
      exact ih _ i hi hi'

/-- **when retagging does nothing** -/
theorem retagOps_id (exp : Bool) (ts : List LTok) (h : opsPlaced exp ts = true) : retagOps exp ts = ts := by
  induction ts generalizing exp with
  | nil => exact retagOps_nil exp
  | cons t ts ih =>
    simp only [opsPlaced, Bool.and_eq_true, Bool.not_eq_true', Bool.and_eq_false_iff] at h
    rw [retagOps_cons, ih _ h.2]
    rcases h.1 with h1 | h1
    · rw [retagTok_of_not_opKw exp t h1]
    · subst h1; rw [retagTok_of_not_exp]

/-- … and conversely: it changes something as soon as an operator name is misplaced -/
theorem opsPlaced_of_retagOps_id (exp : Bool) (ts : List LTok) (h : retagOps exp ts = ts) :
    opsPlaced exp ts = true := by
  induction ts generalizing exp with
  | nil => rfl
  | cons t ts ih =>
    rw [retagOps_cons] at h
    simp only [List.cons.injEq] at h
    simp only [opsPlaced, Bool.and_eq_true, Bool.not_eq_true', Bool.and_eq_false_iff]
    refine ⟨?_, ih _ h.2⟩
    obtain ⟨tok, g⟩ := t
    cases tok with
    | kw k =>
      cases hk : k.isOpName with
      | false => exact Or.inl (by simp [Tok.isOpKw, hk])
      | true =>
        cases exp with
        | false => exact Or.inr rfl
        | true =>
          have h1 := h.1
          rw [retagTok_opKw _ k hk rfl] at h1
          simp at h1
    | _ => exact Or.inl rfl

theorem retagOps_append (exp : Bool) (a b : List LTok) :
    retagOps exp (a ++ b) = retagOps exp a ++ retagOps (expAfter exp a) b := by
  induction a generalizing exp with
  | nil => simp [retagOps_nil, expAfter]
  | cons t a ih => simp [retagOps_cons, expAfter, ih]

theorem opsPlaced_append (exp : Bool) (a b : List LTok) :
    opsPlaced exp (a ++ b) = (opsPlaced exp a && opsPlaced (expAfter exp a) b) := by
  induction a generalizing exp with
  | nil => simp [opsPlaced, expAfter]
  | cons t a ih => simp [opsPlaced, expAfter, ih, Bool.and_assoc]

theorem expAfter_append (exp : Bool) (a b : List LTok) :
    expAfter exp (a ++ b) = expAfter (expAfter exp a) b := by
  induction a generalizing exp with
  | nil => simp [expAfter]
  | cons t a ih => simp [expAfter, ih]

/-- token lists without operator-name keywords are never changed -/
theorem opsPlaced_of_no_opKw (exp : Bool) (ts : List LTok) (h : ∀ t ∈ ts, t.tok.isOpKw = false) :
    opsPlaced exp ts = true := by
  induction ts generalizing exp with
  | nil => rfl
  | cons t ts ih =>
    simp only [opsPlaced, Bool.and_eq_true, Bool.not_eq_true', Bool.and_eq_false_iff]
    exact ⟨Or.inl (h t (by simp)), ih _ (fun t ht => h t (by simp [ht]))⟩

/-! ### the function names: what `retagFns` does -/

/-- an axis-name or node-type keyword: the keywords that can be (part of) a function name -/
def Tok.isNameKw : Tok → Bool
  | .kw k => !k.isOpName
  | _ => false

/-- the keyword `k` stands where a function name is read: directly in front of `(` (a node type only
    after `:`, as the local part of a QName), or as the prefix in `k : name (` -/
def fnHere (pc : Bool) (k : Kw) (ts : List LTok) : Bool :=
  !k.isOpName && ((startsParen ts && (pc || !k.isNodeType)) || prefixOfCall ts)

/-- what `retagFns` does to one token (`ts`: the tokens after it) -/
def retagFnTok (pc : Bool) (t : LTok) (ts : List LTok) : LTok :=
  match t.tok with
  | .kw k => if fnHere pc k ts then ⟨.ncname k.chars, t.glued⟩ else t
  | _ => t

theorem retagFns_nil (pc : Bool) : retagFns pc [] = [] := by simp [retagFns]

/-- `retagFns` token by token -/
theorem retagFns_cons (pc : Bool) (t : LTok) (ts : List LTok) :
    retagFns pc (t :: ts) = retagFnTok pc t ts :: retagFns (t.tok == .p .colon) ts := by
  obtain ⟨tok, g⟩ := t
  cases tok with
  | kw k =>
    simp only [retagFns, retagFnTok, fnHere]
    congr 1
    by_cases hk : k.isOpName = true
    · simp [hk]
    · by_cases hs : (startsParen ts && (pc || !k.isNodeType)) = true
      · simp [hk, hs]
      · by_cases hp : prefixOfCall ts = true <;> simp [hk, hs, hp]
  | _ => simp [retagFns, retagFnTok]

/-- no keyword stands where a function name is read -/
def fnsPlaced : Bool → List LTok → Bool
  | _, [] => true
  | pc, t :: ts =>
    (match t.tok with | .kw k => !fnHere pc k ts | _ => true) && fnsPlaced (t.tok == .p .colon) ts

theorem retagFnTok_glued (pc : Bool) (t : LTok) (ts : List LTok) : (retagFnTok pc t ts).glued = t.glued := by
  obtain ⟨tok, g⟩ := t
  cases tok <;> simp [retagFnTok]
  split <;> rfl

/-- a retagged token is spelled as before -/
theorem retagFnTok_spell (pc : Bool) (t : LTok) (ts : List LTok) :
    (retagFnTok pc t ts).tok.spell = t.tok.spell := by
  obtain ⟨tok, g⟩ := t
  cases tok <;> simp [retagFnTok]
  split <;> rfl

/-- only axis-name and node-type keywords are retagged … -/
theorem retagFnTok_of_not_nameKw (pc : Bool) (t : LTok) (ts : List LTok) (h : t.tok.isNameKw = false) :
    retagFnTok pc t ts = t := by
  obtain ⟨tok, g⟩ := t
  cases tok <;> simp_all [retagFnTok, Tok.isNameKw, fnHere]

theorem retagFnTok_kw (pc : Bool) (t : LTok) (ts : List LTok) (k : Kw) (h : t.tok = .kw k) :
    retagFnTok pc t ts = if fnHere pc k ts then ⟨.ncname k.chars, t.glued⟩ else t := by
  obtain ⟨tok, g⟩ := t
  simp only at h
  subst h
  rfl

theorem retagFns_length (pc : Bool) (ts : List LTok) : (retagFns pc ts).length = ts.length := by
  induction ts generalizing pc with
  | nil => simp [retagFns_nil]
  | cons t ts ih => simp [retagFns_cons, ih]

/-- the adjacency flags are kept -/
theorem retagFns_glued (pc : Bool) (ts : List LTok) :
    (retagFns pc ts).map (·.glued) = ts.map (·.glued) := by
  induction ts generalizing pc with
  | nil => simp [retagFns_nil]
  | cons t ts ih => simp [retagFns_cons, ih, retagFnTok_glued]

/-- the text of every token is kept -/
theorem retagFns_spell (pc : Bool) (ts : List LTok) :
    (retagFns pc ts).map (·.tok.spell) = ts.map (·.tok.spell) := by
  induction ts generalizing pc with
  | nil => simp [retagFns_nil]
  | cons t ts ih => simp [retagFns_cons, ih, retagFnTok_spell]

/-- every token that is not an axis-name or node-type keyword is kept, at its position -/
theorem retagFns_keeps (pc : Bool) (ts : List LTok) (i : Nat) (t : LTok) (hi : ts[i]? = some t)
    (h : t.tok.isNameKw = false) : (retagFns pc ts)[i]? = some t := by
  induction ts generalizing pc i with
  | nil => simp at hi
  | cons a ts ih =>
    rw [retagFns_cons]
    cases i with
    | zero =>
      simp only [List.getElem?_cons_zero, Option.some.injEq] at hi ⊢
      subst hi
      exact retagFnTok_of_not_nameKw pc a ts h
    | succ i =>
      simp only [List.getElem?_cons_succ] at hi ⊢
      exact ih _ i hi

/-- a token that changes was an axis-name or node-type keyword and becomes the `ncname` of the same text -/
theorem retagFns_changes (pc : Bool) (ts : List LTok) (i : Nat) (t t' : LTok) (hi : ts[i]? = some t)
    (hi' : (retagFns pc ts)[i]? = some t') (hne : t' ≠ t) :
    ∃ k, k.isOpName = false ∧ t.tok = .kw k ∧ t' = ⟨.ncname k.chars, t.glued⟩ := by
  induction ts generalizing pc i with
  | nil => simp at hi
  | cons a ts ih =>
    rw [retagFns_cons] at hi'
    cases i with
    | zero =>
      simp only [List.getElem?_cons_zero, Option.some.injEq] at hi hi'
      subst hi hi'
      obtain ⟨tok, g⟩ := a
      cases tok with
      | kw k =>
        rw [retagFnTok_kw pc _ ts k rfl] at hne ⊢
        cases hf : fnHere pc k ts with
        | false => simp [hf] at hne
        | true =>
          refine ⟨k, ?_, rfl, by simp⟩
          simp only [fnHere, Bool.and_eq_true, Bool.not_eq_true'] at hf
          exact hf.1
      | _ => exact absurd (retagFnTok_of_not_nameKw pc _ ts rfl) hne
    | succ i =>
      simp only [List.getElem?_cons_succ] at hi hi'
      exact ih _ i hi hi'

/-- **when `retagFns` does nothing** -/
theorem retagFns_id (pc : Bool) (ts : List LTok) (h : fnsPlaced pc ts = true) : retagFns pc ts = ts := by
  induction ts generalizing pc with
  | nil => exact retagFns_nil pc
  | cons t ts ih =>
    simp only [fnsPlaced, Bool.and_eq_true] at h
    rw [retagFns_cons, ih _ h.2]
    obtain ⟨tok, g⟩ := t
    cases tok with
    | kw k =>
      have h1 : fnHere pc k ts = false := by simpa using h.1
      rw [retagFnTok_kw pc _ ts k rfl, h1]
      rfl
    | _ => rfl

/-- … and conversely -/
theorem fnsPlaced_of_retagFns_id (pc : Bool) (ts : List LTok) (h : retagFns pc ts = ts) :
    fnsPlaced pc ts = true := by
  induction ts generalizing pc with
  | nil => rfl
  | cons t ts ih =>
    rw [retagFns_cons] at h
    simp only [List.cons.injEq] at h
    simp only [fnsPlaced, Bool.and_eq_true]
    refine ⟨?_, ih _ h.2⟩
    obtain ⟨tok, g⟩ := t
    cases tok with
    | kw k =>
      have h1 := h.1
      rw [retagFnTok_kw pc _ ts k rfl] at h1
      cases hf : fnHere pc k ts with
      | false => simp [hf]
      | true => simp [hf] at h1
    | _ => rfl

/-- token lists without axis-name and node-type keywords are never changed -/
theorem fnsPlaced_of_no_nameKw (pc : Bool) (ts : List LTok) (h : ∀ t ∈ ts, t.tok.isNameKw = false) :
    fnsPlaced pc ts = true := by
  induction ts generalizing pc with
  | nil => rfl
  | cons t ts ih =>
    simp only [fnsPlaced, Bool.and_eq_true]
    refine ⟨?_, ih _ (fun t ht => h t (by simp [ht]))⟩
    have ht := h t (by simp)
    obtain ⟨tok, g⟩ := t
    cases tok with
    | kw k =>
      simp only [Tok.isNameKw, Bool.not_eq_false'] at ht
      simp [fnHere, ht]
    | _ => rfl

/-- … nor are lists without `(` -/
theorem startsParen_eq (ts : List LTok) :
    startsParen ts = (match ts with | n :: _ => n.tok == .p .lparen | [] => false) := by
  cases ts with
  | nil => rfl
  | cons n r =>
    obtain ⟨tok, g⟩ := n
    cases tok with
    | p x => cases x <;> simp [startsParen]
    | _ => simp [startsParen]

/-! ### `Digits '.'`: what `dropTrailDots` does -/

/-- the token `t` (followed by `ts`) is a `.` that `dropTrailDots` drops: directly after integer-part
    digits (`pi`) and not directly before digits -/
def dotHere (pi : Bool) (t : LTok) (ts : List LTok) : Bool :=
  pi && t.tok == .p .dot && t.glued && !gluedDigitsNext ts

/-- the flag `pi` after the kept token `t`: digits, unless they are the fraction after a `.` -/
def piNext (pdot : Bool) (t : LTok) : Bool := isDigitsTok t.tok && !(pdot && t.glued)

theorem dropTrailDots_nil (pi pdot : Bool) : dropTrailDots pi pdot [] = [] := by simp [dropTrailDots]

/-- a token that is kept -/
theorem dropTrailDots_keep (pi pdot : Bool) (t : LTok) (ts : List LTok) (h : dotHere pi t ts = false) :
    dropTrailDots pi pdot (t :: ts) = t :: dropTrailDots (piNext pdot t) (t.tok == .p .dot) ts := by
  unfold dotHere at h
  cases ts with
  | nil => rw [dropTrailDots.eq_2, if_neg (by simp [h])]; rfl
  | cons n r => rw [dropTrailDots.eq_3, if_neg (by simp [h])]; rfl

/-- a `.` that is dropped: the next token is no longer adjacent to its predecessor, and the walk goes
    on as from the start -/
theorem dropTrailDots_drop (pi pdot : Bool) (t : LTok) (ts : List LTok) (h : dotHere pi t ts = true) :
    dropTrailDots pi pdot (t :: ts) = dropTrailDots false false (unglueHead ts) := by
  unfold dotHere at h
  cases ts with
  | nil => rw [dropTrailDots.eq_2, if_pos h]; rfl
  | cons n r =>
    rw [dropTrailDots.eq_3, if_pos h]
    have hk : dotHere false ⟨n.tok, false⟩ r = false := rfl
    simp only [unglueHead]
    rw [dropTrailDots_keep false false _ r hk]
    simp [piNext]

/-- no `.` would be dropped -/
def dotsPlaced : Bool → Bool → List LTok → Bool
  | _, _, [] => true
  | pi, pdot, t :: ts => !dotHere pi t ts && dotsPlaced (piNext pdot t) (t.tok == .p .dot) ts

theorem unglueHead_length (ts : List LTok) : (unglueHead ts).length = ts.length := by
  cases ts <;> rfl

/-- tokens are only dropped -/
theorem dropTrailDots_length_le (pi pdot : Bool) (ts : List LTok) :
    (dropTrailDots pi pdot ts).length ≤ ts.length := by
  suffices h : ∀ (n : Nat) (ts : List LTok), ts.length ≤ n → ∀ pi pdot,
      (dropTrailDots pi pdot ts).length ≤ ts.length from h ts.length ts (Nat.le_refl _) pi pdot
  intro n
  induction n with
  | zero =>
    intro ts hl pi pdot
    cases ts with
    | nil => simp [dropTrailDots_nil]
    | cons t ts => simp at hl
  | succ n ih =>
    intro ts hl pi pdot
    cases ts with
    | nil => simp [dropTrailDots_nil]
    | cons t ts =>
      have hl' : ts.length ≤ n := by simpa using hl
      cases h : dotHere pi t ts with
      | false =>
        rw [dropTrailDots_keep pi pdot t ts h]
        simpa using ih ts hl' _ _
      | true =>
        rw [dropTrailDots_drop pi pdot t ts h]
        have := ih (unglueHead ts) (by rw [unglueHead_length]; exact hl') false false
        rw [unglueHead_length] at this
        simp only [List.length_cons]
        omega

/-- **when `dropTrailDots` does nothing** -/
theorem dropTrailDots_id (pi pdot : Bool) (ts : List LTok) (h : dotsPlaced pi pdot ts = true) :
    dropTrailDots pi pdot ts = ts := by
  induction ts generalizing pi pdot with
  | nil => exact dropTrailDots_nil pi pdot
  | cons t ts ih =>
    simp only [dotsPlaced, Bool.and_eq_true, Bool.not_eq_true'] at h
    rw [dropTrailDots_keep pi pdot t ts h.1, ih _ _ h.2]

/-- … and conversely: a dropped `.` makes the list shorter -/
theorem dotsPlaced_of_dropTrailDots_id (pi pdot : Bool) (ts : List LTok)
    (h : dropTrailDots pi pdot ts = ts) : dotsPlaced pi pdot ts = true := by
  induction ts generalizing pi pdot with
  | nil => rfl
  | cons t ts ih =>
    cases hd : dotHere pi t ts with
    | true =>
      rw [dropTrailDots_drop pi pdot t ts hd] at h
      have h1 := dropTrailDots_length_le false false (unglueHead ts)
      rw [h, unglueHead_length] at h1
      exact absurd h1 (by simp)
    | false =>
      rw [dropTrailDots_keep pi pdot t ts hd] at h
      simp only [List.cons.injEq, true_and] at h
      simp only [dotsPlaced, hd, Bool.not_false, Bool.true_and]
      exact ih _ _ h

/-- the length is kept exactly when nothing is dropped -/
theorem dropTrailDots_length_eq_iff (pi pdot : Bool) (ts : List LTok) :
    (dropTrailDots pi pdot ts).length = ts.length ↔ dotsPlaced pi pdot ts = true := by
  constructor
  · induction ts generalizing pi pdot with
    | nil => intro _; rfl
    | cons t ts ih =>
      intro h
      cases hd : dotHere pi t ts with
      | true =>
        rw [dropTrailDots_drop pi pdot t ts hd] at h
        have h1 := dropTrailDots_length_le false false (unglueHead ts)
        rw [h, unglueHead_length] at h1
        exact absurd h1 (by simp)
      | false =>
        rw [dropTrailDots_keep pi pdot t ts hd] at h
        simp only [dotsPlaced, hd, Bool.not_false, Bool.true_and]
        exact ih _ _ (by simpa using h)
  · intro h; rw [dropTrailDots_id pi pdot ts h]

/-- only `.` tokens that directly follow their predecessor can be dropped: a list without them is
    never changed -/
theorem dotsPlaced_of_no_glued_dot (pi pdot : Bool) (ts : List LTok)
    (h : ∀ t ∈ ts, (t.tok == .p .dot && t.glued) = false) : dotsPlaced pi pdot ts = true := by
  induction ts generalizing pi pdot with
  | nil => rfl
  | cons t ts ih =>
    simp only [dotsPlaced, Bool.and_eq_true, Bool.not_eq_true']
    refine ⟨?_, ih _ _ (fun t ht => h t (by simp [ht]))⟩
    have ht := h t (by simp)
    unfold dotHere
    rw [Bool.and_assoc pi, ht]
    simp

/-- what is kept is kept in order, with its text: the tokens after `dropTrailDots` are a sublist of the
    tokens before it -/
theorem dropTrailDots_sublist (pi pdot : Bool) (ts : List LTok) :
    ((dropTrailDots pi pdot ts).map (·.tok)).Sublist (ts.map (·.tok)) := by
  suffices h : ∀ (n : Nat) (ts : List LTok), ts.length ≤ n → ∀ pi pdot,
      ((dropTrailDots pi pdot ts).map (·.tok)).Sublist (ts.map (·.tok)) from
    h ts.length ts (Nat.le_refl _) pi pdot
  intro n
  induction n with
  | zero =>
    intro ts hl pi pdot
    cases ts with
    | nil => simp [dropTrailDots_nil]
    | cons t ts => simp at hl
  | succ n ih =>
    intro ts hl pi pdot
    cases ts with
    | nil => simp [dropTrailDots_nil]
    | cons t ts =>
      have hl' : ts.length ≤ n := by simpa using hl
      cases h : dotHere pi t ts with
      | false =>
        rw [dropTrailDots_keep pi pdot t ts h]
        simpa using ih ts hl' _ _
      | true =>
        rw [dropTrailDots_drop pi pdot t ts h]
        have := ih (unglueHead ts) (by rw [unglueHead_length]; exact hl') false false
        have hu : (unglueHead ts).map (·.tok) = ts.map (·.tok) := by cases ts <;> rfl
        rw [hu] at this
        simp only [List.map_cons]
        exact List.Sublist.cons _ this

/-! ### the three passes together: `lc.post` -/

theorem lex_eq (lc : LexCfg) (cs : Chars) :
    lex lc cs = match lexRaw lc cs with | .ok ts => .ok (lc.post ts) | r => r := rfl

theorem lex_of_lexRaw {lc : LexCfg} {cs : Chars} {ts : List LTok} (h : lexRaw lc cs = .ok ts) :
    lex lc cs = .ok (lc.post ts) := by
  rw [lex_eq, h]

theorem lex_err_of_lexRaw {lc : LexCfg} {cs : Chars} (h : lexRaw lc cs = .err) : lex lc cs = .err := by
  rw [lex_eq, h]

theorem lex_unsup_of_lexRaw {lc : LexCfg} {cs : Chars} (h : lexRaw lc cs = .unsup) :
    lex lc cs = .unsup := by
  rw [lex_eq, h]

/-- the three passes, each behind its switch -/
def LexCfg.opPass (lc : LexCfg) (ts : List LTok) : List LTok := if lc.opRule then retagOps true ts else ts
def LexCfg.fnPass (lc : LexCfg) (ts : List LTok) : List LTok := if lc.fnRule then retagFns false ts else ts
def LexCfg.dotPass (lc : LexCfg) (ts : List LTok) : List LTok :=
  if lc.dotRule then dropTrailDots false false ts else ts

/-- the passes one after the other -/
theorem post_eq (lc : LexCfg) (ts : List LTok) : lc.post ts = lc.dotPass (lc.fnPass (lc.opPass ts)) := rfl

theorem opPass_id {lc : LexCfg} {ts : List LTok} (h : lc.opRule = true → opsPlaced true ts = true) :
    lc.opPass ts = ts := by
  unfold LexCfg.opPass
  split
  · next ho => exact retagOps_id true ts (h ho)
  · rfl

theorem fnPass_id {lc : LexCfg} {ts : List LTok} (h : lc.fnRule = true → fnsPlaced false ts = true) :
    lc.fnPass ts = ts := by
  unfold LexCfg.fnPass
  split
  · next ho => exact retagFns_id false ts (h ho)
  · rfl

theorem dotPass_id {lc : LexCfg} {ts : List LTok} (h : lc.dotRule = true → dotsPlaced false false ts = true) :
    lc.dotPass ts = ts := by
  unfold LexCfg.dotPass
  split
  · next ho => exact dropTrailDots_id false false ts (h ho)
  · rfl

theorem opPass_length (lc : LexCfg) (ts : List LTok) : (lc.opPass ts).length = ts.length := by
  unfold LexCfg.opPass; split
  · exact retagOps_length true ts
  · rfl

theorem fnPass_length (lc : LexCfg) (ts : List LTok) : (lc.fnPass ts).length = ts.length := by
  unfold LexCfg.fnPass; split
  · exact retagFns_length false ts
  · rfl

theorem dotPass_length_le (lc : LexCfg) (ts : List LTok) : (lc.dotPass ts).length ≤ ts.length := by
  unfold LexCfg.dotPass; split
  · exact dropTrailDots_length_le false false ts
  · exact Nat.le_refl _

theorem opPass_glued (lc : LexCfg) (ts : List LTok) : (lc.opPass ts).map (·.glued) = ts.map (·.glued) := by
  unfold LexCfg.opPass; split
  · exact retagOps_glued true ts
  · rfl

theorem fnPass_glued (lc : LexCfg) (ts : List LTok) : (lc.fnPass ts).map (·.glued) = ts.map (·.glued) := by
  unfold LexCfg.fnPass; split
  · exact retagFns_glued false ts
  · rfl

theorem opPass_spell (lc : LexCfg) (ts : List LTok) :
    (lc.opPass ts).map (·.tok.spell) = ts.map (·.tok.spell) := by
  unfold LexCfg.opPass; split
  · exact retagOps_spell true ts
  · rfl

theorem fnPass_spell (lc : LexCfg) (ts : List LTok) :
    (lc.fnPass ts).map (·.tok.spell) = ts.map (·.tok.spell) := by
  unfold LexCfg.fnPass; split
  · exact retagFns_spell false ts
  · rfl

theorem dotPass_sublist (lc : LexCfg) (ts : List LTok) :
    ((lc.dotPass ts).map (·.tok)).Sublist (ts.map (·.tok)) := by
  unfold LexCfg.dotPass; split
  · exact dropTrailDots_sublist false false ts
  · exact List.Sublist.refl _

/-- **nothing changes** when, for every rule that is on, no token stands where the rule applies (the
    later passes then see the list the earlier ones left unchanged) -/
theorem post_id (lc : LexCfg) (ts : List LTok)
    (ho : lc.opRule = true → opsPlaced true ts = true)
    (hf : lc.fnRule = true → fnsPlaced false ts = true)
    (hd : lc.dotRule = true → dotsPlaced false false ts = true) : lc.post ts = ts := by
  rw [post_eq, opPass_id ho, fnPass_id hf, dotPass_id hd]

theorem post_of_rules_off {lc : LexCfg} (ho : lc.opRule = false) (hf : lc.fnRule = false)
    (hd : lc.dotRule = false) (ts : List LTok) : lc.post ts = ts :=
  post_id lc ts (by simp [ho]) (by simp [hf]) (by simp [hd])

/-- when no `.` is dropped (or the rule is off), `lc.post` keeps length, adjacency flags and the text of
    every token -/
theorem post_of_dotRule_false {lc : LexCfg} (hd : lc.dotRule = false) (ts : List LTok) :
    lc.post ts = lc.fnPass (lc.opPass ts) := by
  rw [post_eq]; unfold LexCfg.dotPass; simp [hd]

/-- xsel's lexer: the three passes of `grammar.newLexer` -/
theorem post_lexModel (ts : List LTok) :
    lexModel.post ts = dropTrailDots false false (retagFns false (retagOps true ts)) := rfl

/-- XPath's rules are in the specification's parser: its lexer is the tokeniser -/
theorem post_lexSpec (ts : List LTok) : lexSpec.post ts = ts := rfl

/-- the passes only drop tokens -/
theorem post_length_le (lc : LexCfg) (ts : List LTok) : (lc.post ts).length ≤ ts.length := by
  rw [post_eq]
  have h1 := dotPass_length_le lc (lc.fnPass (lc.opPass ts))
  rw [fnPass_length, opPass_length] at h1
  exact h1

/-- … and keep the text of every token they keep, in order -/
theorem post_sublist (lc : LexCfg) (ts : List LTok) :
    ((lc.post ts).map (·.tok.spell)).Sublist (ts.map (·.tok.spell)) := by
  rw [post_eq, ← opPass_spell lc ts, ← fnPass_spell lc (lc.opPass ts)]
  have := (dotPass_sublist lc (lc.fnPass (lc.opPass ts))).map Tok.spell
  simpa [List.map_map, Function.comp_def] using this

/-! ### the whole input -/

/-- white space runs `w` before every token, `trail` at the end -/
def spellPadded (items : List (Chars × Tok)) (trail : Chars) : Chars :=
  items.flatMap (fun it => it.1 ++ it.2.spell) ++ trail

/-- the tokens of `spellPadded`: a token is glued iff its white space run is empty (and it is not
    the first token) -/
def padToks (g : Bool) : List (Chars × Tok) → List LTok
  | [] => []
  | (w, t) :: rest => ⟨t, g && w.isEmpty⟩ :: padToks true rest

/-- the runs are white space, the tokens are good, and where a run is empty the next character
    does not extend the token before it -/
def padOk (lc : LexCfg) : List (Chars × Tok) → Chars → Bool
  | [], trail => trail.all (isSpace lc)
  | (w, t) :: rest, trail =>
    w.all (isSpace lc) && tokOk lc t && headOk t (spellPadded rest trail).head? && padOk lc rest trail

theorem padOk_cons (lc : LexCfg) (w : Chars) (t : Tok) (rest : List (Chars × Tok)) (trail : Chars) :
    padOk lc ((w, t) :: rest) trail =
      (w.all (isSpace lc) && tokOk lc t && headOk t (spellPadded rest trail).head? &&
        padOk lc rest trail) := rfl

theorem spellPadded_cons (w : Chars) (t : Tok) (rest : List (Chars × Tok)) (trail : Chars) :
    spellPadded ((w, t) :: rest) trail = w ++ (t.spell ++ spellPadded rest trail) := by
  simp [spellPadded]

/-- a run of white space costs its length in fuel and clears the `glued` state -/
theorem lexAll_spaces (lc : LexCfg) (w : Chars) (hw : ∀ c ∈ w, isSpace lc c = true) :
    ∀ (fuel : Nat) (g : Bool) (rest : Chars) (acc : List LTok), w.length ≤ fuel →
      lexAll lc fuel g (w ++ rest) acc = lexAll lc (fuel - w.length) (g && w.isEmpty) rest acc := by
  induction w with
  | nil => intro fuel g rest acc _; simp
  | cons c w ih =>
    intro fuel g rest acc hf
    cases fuel with
    | zero => simp at hf
    | succ fuel =>
      have hc : isSpace lc c = true := hw c (by simp)
      simp only [List.cons_append, lexAll, hc, if_true]
      rw [ih (fun c hc => hw c (by simp [hc])) fuel false rest acc (by simpa using hf)]
      simp

/-- one good token costs one unit of fuel -/
theorem lexAll_tok (lc : LexCfg) (t : Tok) (r : Chars) (ht : tokOk lc t = true)
    (hr : headOk t r.head? = true) (fuel : Nat) (g : Bool) (acc : List LTok) :
    lexAll lc (fuel + 1) g (t.spell ++ r) acc = lexAll lc fuel true r (⟨t, g⟩ :: acc) := by
  have h1 := lexOne_spell lc t r ht hr
  obtain ⟨c, s, hcs, hc⟩ := spell_head lc t ht
  rw [hcs] at h1 ⊢
  simp only [List.cons_append] at h1 ⊢
  simp only [lexAll, hc, h1]
  simp

theorem spell_length_pos (lc : LexCfg) (t : Tok) (ht : tokOk lc t = true) : 1 ≤ t.spell.length := by
  obtain ⟨c, s, hcs, _⟩ := spell_head lc t ht
  rw [hcs]; simp

theorem lexAll_padded (lc : LexCfg) (trail : Chars) :
    ∀ (items : List (Chars × Tok)) (fuel : Nat) (g : Bool) (acc : List LTok),
      padOk lc items trail = true → (spellPadded items trail).length + 1 ≤ fuel →
      lexAll lc fuel g (spellPadded items trail) acc = .ok (acc.reverse ++ padToks g items) := by
  intro items
  induction items with
  | nil =>
    intro fuel g acc hok hf
    simp only [padOk, List.all_eq_true] at hok
    have h0 : spellPadded [] trail = trail ++ [] := by simp [spellPadded]
    rw [h0] at hf ⊢
    rw [lexAll_spaces lc trail hok fuel g [] acc (by simp at hf; omega)]
    have : fuel - trail.length = (fuel - trail.length - 1) + 1 := by simp at hf; omega
    rw [this]
    simp [lexAll, padToks]
  | cons it rest ih =>
    obtain ⟨w, t⟩ := it
    intro fuel g acc hok hf
    simp only [padOk, Bool.and_eq_true, List.all_eq_true] at hok
    obtain ⟨⟨⟨hw, ht⟩, hh⟩, hrest⟩ := hok
    have hpos := spell_length_pos lc t ht
    rw [spellPadded_cons] at hf ⊢
    simp only [List.length_append] at hf
    rw [lexAll_spaces lc w hw fuel g _ acc (by omega)]
    have : fuel - w.length = (fuel - w.length - 1) + 1 := by omega
    rw [this, lexAll_tok lc t _ ht hh, ih _ true _ hrest (by omega)]
    simp [padToks]

/-- **round trip**, general form: arbitrary white space runs before the tokens (empty where the
    next character cannot extend the token), trailing white space; the `glued` flags are exactly
    the empty runs -/
theorem lexRaw_spellPadded (lc : LexCfg) (items : List (Chars × Tok)) (trail : Chars)
    (h : padOk lc items trail = true) :
    lexRaw lc (spellPadded items trail) = .ok (padToks false items) := by
  have := lexAll_padded lc trail items ((spellPadded items trail).length + 1) false [] h (Nat.le_refl _)
  simpa [lexRaw] using this

/-- the same for `lex`: the passes that are on are then applied (`lc.post`: operator names, function
    names, trailing dots) -/
theorem lex_spellPadded (lc : LexCfg) (items : List (Chars × Tok)) (trail : Chars)
    (h : padOk lc items trail = true) :
    lex lc (spellPadded items trail) = .ok (lc.post (padToks false items)) :=
  lex_of_lexRaw (lexRaw_spellPadded lc items trail h)

/-- … exactly the tokens, when for every rule that is on no token stands where it applies -/
theorem lex_spellPadded_placed (lc : LexCfg) (items : List (Chars × Tok)) (trail : Chars)
    (h : padOk lc items trail = true)
    (ho : lc.opRule = true → opsPlaced true (padToks false items) = true)
    (hf : lc.fnRule = true → fnsPlaced false (padToks false items) = true)
    (hd : lc.dotRule = true → dotsPlaced false false (padToks false items) = true) :
    lex lc (spellPadded items trail) = .ok (padToks false items) := by
  rw [lex_spellPadded lc items trail h, post_id lc _ ho hf hd]

/-! ### corollaries -/

/-- one space before every token -/
def spellAll (ts : List Tok) : Chars := ts.flatMap (fun t => ' ' :: t.spell)

theorem padOk_of_nonempty (lc : LexCfg) (trail : Chars) (htr : ∀ c ∈ trail, isSpace lc c = true) :
    ∀ (items : List (Chars × Tok)),
      (∀ it ∈ items, it.1 ≠ [] ∧ (∀ c ∈ it.1, isSpace lc c = true) ∧ tokOk lc it.2 = true) →
      padOk lc items trail = true := by
  intro items
  induction items with
  | nil => intro _; simpa [padOk] using htr
  | cons it rest ih =>
    obtain ⟨w, t⟩ := it
    intro h
    have hit := h (w, t) (by simp)
    have hrest := ih (fun it hi => h it (by simp [hi]))
    simp only [padOk, Bool.and_eq_true, List.all_eq_true]
    refine ⟨⟨⟨hit.2.1, hit.2.2⟩, ?_⟩, hrest⟩
    -- the text after the token starts with white space or is empty
    cases rest with
    | nil =>
      cases trail with
      | nil => simp [spellPadded, headOk]
      | cons c tr =>
        have : (spellPadded [] (c :: tr)).head? = some c := by simp [spellPadded]
        rw [this]; exact headOk_space lc t c (htr c (by simp))
    | cons it2 rest2 =>
      obtain ⟨w2, t2⟩ := it2
      have h2 := h (w2, t2) (by simp)
      cases w2 with
      | nil => exact absurd rfl h2.1
      | cons c w2 =>
        have : (spellPadded ((c :: w2, t2) :: rest2) trail).head? = some c := by
          simp [spellPadded]
        rw [this]; exact headOk_space lc t c (h2.2.1 c (by simp))

theorem padToks_of_nonempty (items : List (Chars × Tok)) (h : ∀ it ∈ items, it.1 ≠ []) :
    ∀ g, padToks g items = items.map (fun it => ⟨it.2, false⟩) := by
  induction items with
  | nil => intro g; rfl
  | cons it rest ih =>
    obtain ⟨w, t⟩ := it
    intro g
    have hw : w ≠ [] := h (w, t) (by simp)
    have hw' : w.isEmpty = false := by cases w <;> simp_all
    simp [padToks, hw', ih (fun it hi => h it (by simp [hi])) true]

/-- **white space insensitivity**: every token is preceded by a non-empty run of white space
    (any characters with `isSpace lc`), the input may end in white space -/
theorem lexRaw_extra_space (lc : LexCfg) (items : List (Chars × Tok)) (trail : Chars)
    (h : ∀ it ∈ items, it.1 ≠ [] ∧ (∀ c ∈ it.1, isSpace lc c = true) ∧ tokOk lc it.2 = true)
    (htr : ∀ c ∈ trail, isSpace lc c = true) :
    lexRaw lc (spellPadded items trail) = .ok (items.map (fun it => ⟨it.2, false⟩)) := by
  rw [lexRaw_spellPadded lc items trail (padOk_of_nonempty lc trail htr items h),
    padToks_of_nonempty items (fun it hi => (h it hi).1)]

/-- the same for `lex` (followed by the passes `lc.post`) -/
theorem lex_extra_space (lc : LexCfg) (items : List (Chars × Tok)) (trail : Chars)
    (h : ∀ it ∈ items, it.1 ≠ [] ∧ (∀ c ∈ it.1, isSpace lc c = true) ∧ tokOk lc it.2 = true)
    (htr : ∀ c ∈ trail, isSpace lc c = true) :
    lex lc (spellPadded items trail) = .ok (lc.post (items.map (fun it => ⟨it.2, false⟩))) :=
  lex_of_lexRaw (lexRaw_extra_space lc items trail h htr)

theorem lex_extra_space_placed (lc : LexCfg) (items : List (Chars × Tok)) (trail : Chars)
    (h : ∀ it ∈ items, it.1 ≠ [] ∧ (∀ c ∈ it.1, isSpace lc c = true) ∧ tokOk lc it.2 = true)
    (htr : ∀ c ∈ trail, isSpace lc c = true)
    (ho : lc.opRule = true → opsPlaced true (items.map (fun it => (⟨it.2, false⟩ : LTok))) = true)
    (hf : lc.fnRule = true → fnsPlaced false (items.map (fun it => (⟨it.2, false⟩ : LTok))) = true)
    (hd : lc.dotRule = true → dotsPlaced false false (items.map (fun it => (⟨it.2, false⟩ : LTok))) = true) :
    lex lc (spellPadded items trail) = .ok (items.map (fun it => ⟨it.2, false⟩)) := by
  rw [lex_extra_space lc items trail h htr, post_id lc _ ho hf hd]

/-- the same with the runs and the tokens as two lists -/
theorem lexRaw_extra_space_zip (lc : LexCfg) (ws : List Chars) (ts : List Tok) (trail : Chars)
    (hlen : ws.length = ts.length)
    (hws : ∀ w ∈ ws, w ≠ [] ∧ ∀ c ∈ w, isSpace lc c = true)
    (hts : ∀ t ∈ ts, tokOk lc t = true) (htr : ∀ c ∈ trail, isSpace lc c = true) :
    lexRaw lc (spellPadded (ws.zip ts) trail) = .ok (ts.map (fun t => ⟨t, false⟩)) := by
  rw [lexRaw_extra_space lc (ws.zip ts) trail ?_ htr]
  · congr 1
    have : (ws.zip ts).map (fun it => (⟨it.2, false⟩ : LTok)) =
        ((ws.zip ts).map Prod.snd).map (fun t => ⟨t, false⟩) := by simp [List.map_map]
    rw [this, List.map_snd_zip]
    omega
  · intro it hi
    have h1 := hws it.1 (List.of_mem_zip hi).1
    exact ⟨h1.1, h1.2, hts it.2 (List.of_mem_zip hi).2⟩

/-- the same for `lex` (followed by the passes `lc.post`) -/
theorem lex_extra_space_zip (lc : LexCfg) (ws : List Chars) (ts : List Tok) (trail : Chars)
    (hlen : ws.length = ts.length)
    (hws : ∀ w ∈ ws, w ≠ [] ∧ ∀ c ∈ w, isSpace lc c = true)
    (hts : ∀ t ∈ ts, tokOk lc t = true) (htr : ∀ c ∈ trail, isSpace lc c = true) :
    lex lc (spellPadded (ws.zip ts) trail) = .ok (lc.post (ts.map (fun t => ⟨t, false⟩))) :=
  lex_of_lexRaw (lexRaw_extra_space_zip lc ws ts trail hlen hws hts htr)

theorem lex_extra_space_zip_placed (lc : LexCfg) (ws : List Chars) (ts : List Tok) (trail : Chars)
    (hlen : ws.length = ts.length)
    (hws : ∀ w ∈ ws, w ≠ [] ∧ ∀ c ∈ w, isSpace lc c = true)
    (hts : ∀ t ∈ ts, tokOk lc t = true) (htr : ∀ c ∈ trail, isSpace lc c = true)
    (ho : lc.opRule = true → opsPlaced true (ts.map (fun t => (⟨t, false⟩ : LTok))) = true)
    (hf : lc.fnRule = true → fnsPlaced false (ts.map (fun t => (⟨t, false⟩ : LTok))) = true)
    (hd : lc.dotRule = true → dotsPlaced false false (ts.map (fun t => (⟨t, false⟩ : LTok))) = true) :
    lex lc (spellPadded (ws.zip ts) trail) = .ok (ts.map (fun t => ⟨t, false⟩)) := by
  rw [lex_extra_space_zip lc ws ts trail hlen hws hts htr, post_id lc _ ho hf hd]

theorem spellAll_eq (ts : List Tok) : spellAll ts = spellPadded (ts.map (fun t => ([' '], t))) [] := by
  simp [spellAll, spellPadded, List.flatMap_map]

/-- **round trip**: the lexer reads back a list of good tokens written with one space before
    every token -/
theorem lexRaw_spellAll (lc : LexCfg) (ts : List Tok) (h : ∀ t ∈ ts, tokOk lc t = true) :
    lexRaw lc (spellAll ts) = .ok (ts.map (fun t => ⟨t, false⟩)) := by
  rw [spellAll_eq, lexRaw_extra_space lc _ [] ?_ (by simp)]
  · simp [List.map_map, Function.comp_def]
  · intro it hi
    simp only [List.mem_map] at hi
    obtain ⟨t, ht, rfl⟩ := hi
    refine ⟨by simp, ?_, h t ht⟩
    intro c hc
    simp at hc; subst hc
    cases lc with
    | mk u x => cases x <;> rfl

/-- the same for `lex` (followed by the passes `lc.post`) -/
theorem lex_spellAll (lc : LexCfg) (ts : List Tok) (h : ∀ t ∈ ts, tokOk lc t = true) :
    lex lc (spellAll ts) = .ok (lc.post (ts.map (fun t => ⟨t, false⟩))) :=
  lex_of_lexRaw (lexRaw_spellAll lc ts h)

theorem lex_spellAll_placed (lc : LexCfg) (ts : List Tok) (h : ∀ t ∈ ts, tokOk lc t = true)
    (ho : lc.opRule = true → opsPlaced true (ts.map (fun t => (⟨t, false⟩ : LTok))) = true)
    (hf : lc.fnRule = true → fnsPlaced false (ts.map (fun t => (⟨t, false⟩ : LTok))) = true)
    (hd : lc.dotRule = true → dotsPlaced false false (ts.map (fun t => (⟨t, false⟩ : LTok))) = true) :
    lex lc (spellAll ts) = .ok (ts.map (fun t => ⟨t, false⟩)) := by
  rw [lex_spellAll lc ts h, post_id lc _ ho hf hd]

/-! ### glued tokens -/

/-- tokens with a flag: written after one space (`true`) or directly after the previous token -/
def spellGlue (items : List (Bool × Tok)) : Chars :=
  items.flatMap (fun it => (if it.1 then [' '] else []) ++ it.2.spell)

/-- `t'` may directly follow `t` -/
def glueOk (t t' : Tok) : Bool := headOk t t'.spell.head?

/-- good tokens; where the space is left out, the pair may be glued -/
def glueAllOk (lc : LexCfg) : List (Bool × Tok) → Bool
  | [] => true
  | [(_, t)] => tokOk lc t
  | (_, t) :: (sp, t') :: rest =>
    tokOk lc t && (sp || glueOk t t') && glueAllOk lc ((sp, t') :: rest)

/-- the first token is never glued, the others are iff there is no space before them -/
def glueToks : List (Bool × Tok) → List LTok
  | [] => []
  | (_, t) :: rest => ⟨t, false⟩ :: rest.map (fun it => ⟨it.2, !it.1⟩)

def glueItems (items : List (Bool × Tok)) : List (Chars × Tok) :=
  items.map (fun it => (if it.1 then [' '] else [], it.2))

theorem spellGlue_eq (items : List (Bool × Tok)) : spellGlue items = spellPadded (glueItems items) [] := by
  simp [spellGlue, spellPadded, glueItems, List.flatMap_map]

theorem isSpace_blank (lc : LexCfg) : isSpace lc ' ' = true := by
  cases lc with
  | mk u x => cases x <;> rfl

theorem padOk_glue (lc : LexCfg) : ∀ (items : List (Bool × Tok)), glueAllOk lc items = true →
    padOk lc (glueItems items) [] = true := by
  intro items
  induction items with
  | nil => intro _; rfl
  | cons it rest ih =>
    obtain ⟨sp, t⟩ := it
    cases rest with
    | nil =>
      intro h
      simp only [glueAllOk] at h
      have hw : ∀ c ∈ (if sp = true then [' '] else []), isSpace lc c = true := by
        intro c hc; cases sp <;> simp at hc; subst hc; exact isSpace_blank lc
      simp only [glueItems, List.map_cons, List.map_nil, padOk, Bool.and_eq_true, List.all_eq_true]
      exact ⟨⟨⟨hw, h⟩, by simp [spellPadded, headOk]⟩, by simp⟩
    | cons it2 rest2 =>
      obtain ⟨sp2, t2⟩ := it2
      intro h
      simp only [glueAllOk, Bool.and_eq_true, Bool.or_eq_true] at h
      obtain ⟨⟨ht, hg⟩, hrest⟩ := h
      have ih' := ih hrest
      have hw : ∀ c ∈ (if sp = true then [' '] else []), isSpace lc c = true := by
        intro c hc; cases sp <;> simp at hc; subst hc; exact isSpace_blank lc
      have ht2 : tokOk lc t2 = true := by
        cases rest2 with
        | nil => simpa [glueAllOk] using hrest
        | cons it3 rest3 =>
          obtain ⟨sp3, t3⟩ := it3
          simp only [glueAllOk, Bool.and_eq_true] at hrest; exact hrest.1.1
      obtain ⟨c2, s2, hcs2, _⟩ := spell_head lc t2 ht2
      have hhead : headOk t (spellPadded (glueItems ((sp2, t2) :: rest2)) []).head? = true := by
        cases sp2 with
        | true =>
          have : (spellPadded (glueItems ((true, t2) :: rest2)) []).head? = some ' ' := by
            simp [spellPadded, glueItems]
          rw [this]; exact headOk_space lc t ' ' (isSpace_blank lc)
        | false =>
          have : (spellPadded (glueItems ((false, t2) :: rest2)) []).head? = t2.spell.head? := by
            simp [spellPadded, glueItems, hcs2]
          rw [this]; simpa [glueOk] using hg
      have hcons : glueItems ((sp, t) :: (sp2, t2) :: rest2) =
          ((if sp = true then [' '] else []), t) :: glueItems ((sp2, t2) :: rest2) := rfl
      rw [hcons, padOk_cons]
      simp only [Bool.and_eq_true, List.all_eq_true]
      exact ⟨⟨⟨hw, ht⟩, hhead⟩, ih'⟩

theorem padToks_glue (items : List (Bool × Tok)) :
    padToks true (glueItems items) = items.map (fun it => ⟨it.2, !it.1⟩) := by
  induction items with
  | nil => rfl
  | cons it rest ih =>
    obtain ⟨sp, t⟩ := it
    simp only [glueItems, List.map_cons, padToks] at ih ⊢
    rw [ih]
    cases sp <;> simp

/-- **glued tokens**: white space between two tokens may be left out when the second cannot be
    taken for a continuation of the first; the `glued` flag records it -/
theorem lexRaw_spellGlue (lc : LexCfg) (items : List (Bool × Tok)) (h : glueAllOk lc items = true) :
    lexRaw lc (spellGlue items) = .ok (glueToks items) := by
  rw [spellGlue_eq, lexRaw_spellPadded lc _ [] (padOk_glue lc items h)]
  cases items with
  | nil => rfl
  | cons it rest =>
    obtain ⟨sp, t⟩ := it
    have := padToks_glue rest
    simp only [glueItems, List.map_cons, padToks, glueToks] at this ⊢
    rw [this]
    simp

/-- the same for `lex` (followed by the passes `lc.post`) -/
theorem lex_spellGlue (lc : LexCfg) (items : List (Bool × Tok)) (h : glueAllOk lc items = true) :
    lex lc (spellGlue items) = .ok (lc.post (glueToks items)) :=
  lex_of_lexRaw (lexRaw_spellGlue lc items h)

/-- … exactly the tokens, when for every rule that is on no token stands where it applies -/
theorem lex_spellGlue_placed (lc : LexCfg) (items : List (Bool × Tok)) (h : glueAllOk lc items = true)
    (ho : lc.opRule = true → opsPlaced true (glueToks items) = true)
    (hf : lc.fnRule = true → fnsPlaced false (glueToks items) = true)
    (hd : lc.dotRule = true → dotsPlaced false false (glueToks items) = true) :
    lex lc (spellGlue items) = .ok (glueToks items) := by
  rw [lex_spellGlue lc items h, post_id lc _ ho hf hd]

/-- punctuation that no following text can extend: everything but `/ : . < >` -/
theorem glueOk_punct (x : Punct) (t' : Tok)
    (hx : x ≠ .slash ∧ x ≠ .colon ∧ x ≠ .dot ∧ x ≠ .lt ∧ x ≠ .gt) : glueOk (.p x) t' = true := by
  unfold glueOk
  cases t'.spell.head? with
  | none => rfl
  | some c => cases x <;> simp_all [headOk]

/-- the other five only must not be followed by the character that makes them `// :: .. <= >=` -/
theorem glueOk_punct_iff (x : Punct) (t' : Tok) :
    glueOk (.p x) t' = true ↔
      ¬ ((x = .slash ∧ t'.spell.head? = some '/') ∨ (x = .colon ∧ t'.spell.head? = some ':') ∨
         (x = .dot ∧ t'.spell.head? = some '.') ∨ (x = .lt ∧ t'.spell.head? = some '=') ∨
         (x = .gt ∧ t'.spell.head? = some '=')) := by
  unfold glueOk
  cases t'.spell.head? with
  | none => simp [headOk]
  | some c => cases x <;> simp [headOk]

/-- literals may be followed by anything -/
theorem glueOk_lit (dq : Bool) (s : Chars) (t' : Tok) : glueOk (.lit dq s) t' = true := by
  unfold glueOk
  cases t'.spell.head? <;> rfl

/-! ### examples (non-vacuity) -/

-- concrete inputs are evaluated by the kernel (`decide +kernel`)
deriving instance DecidableEq for LexRes

example : tokOk lexModel (.ncname ['a','-','1']) = true := by decide
example : tokOk lexModel (.ncname ['_','a']) = false := by decide
example : tokOk lexSpec (.ncname ['_','a']) = true := by decide
example : tokOk lexModel (.ncname ['d','i','v']) = false := by decide
example : tokOk lexModel (.var ['p',':','d','i','v']) = true := by decide
example : tokOk lexModel (.var ['a',':','b',':','c']) = false := by decide
example : tokOk lexModel (.lit false ['i','t','\'','s']) = false := by decide
example : tokOk lexModel (.lit true ['i','t','\'','s']) = true := by decide

example : spellAll [.ncname ['a'], .p .slash, .kw (.axis .child), .p .coloncolon, .p .star,
      .digits ['1','0'], .lit false ['x'], .var ['n']] = " a / child :: * 10 'x' $n".toList := by
  decide

example : lex lexModel (spellAll [.ncname ['a'], .p .slash, .kw (.axis .child), .p .coloncolon,
      .p .star, .digits ['1','0'], .lit false ['x'], .var ['n']]) =
    .ok [⟨.ncname ['a'], false⟩, ⟨.p .slash, false⟩, ⟨.kw (.axis .child), false⟩,
      ⟨.p .coloncolon, false⟩, ⟨.p .star, false⟩, ⟨.digits ['1','0'], false⟩,
      ⟨.lit false ['x'], false⟩, ⟨.var ['n'], false⟩] := by decide +kernel

/-- the same through the theorem -/
example : lex lexSpec (spellAll [.ncname ['a'], .p .slash, .kw (.axis .child), .p .coloncolon,
      .p .star, .digits ['1','0'], .lit false ['x'], .var ['n']]) =
    .ok ([.ncname ['a'], .p .slash, .kw (.axis .child), .p .coloncolon,
      .p .star, .digits ['1','0'], .lit false ['x'], .var ['n']].map (fun t => ⟨t, false⟩)) :=
  lex_spellAll lexSpec _ (by decide)

/-- … and for xsel's lexer, where the operator-name rule is on: there is no operator name here -/
example : lex lexModel (spellAll [.ncname ['a'], .p .slash, .kw (.axis .child), .p .coloncolon,
      .p .star, .digits ['1','0'], .lit false ['x'], .var ['n']]) =
    .ok ([.ncname ['a'], .p .slash, .kw (.axis .child), .p .coloncolon,
      .p .star, .digits ['1','0'], .lit false ['x'], .var ['n']].map (fun t => ⟨t, false⟩)) :=
  lex_spellAll_placed lexModel _ (by decide) (by decide) (by decide) (by decide)

/-- `child::a[@b='x']//c` without any white space -/
example : spellGlue [(false, .kw (.axis .child)), (false, .p .coloncolon), (false, .ncname ['a']),
      (false, .p .lbrack), (false, .p .at), (false, .ncname ['b']), (false, .p .eq),
      (false, .lit false ['x']), (false, .p .rbrack), (false, .p .dslash), (false, .ncname ['c'])] =
    "child::a[@b='x']//c".toList := by decide

example : glueAllOk lexModel [(false, .kw (.axis .child)), (false, .p .coloncolon),
      (false, .ncname ['a']), (false, .p .lbrack), (false, .p .at), (false, .ncname ['b']),
      (false, .p .eq), (false, .lit false ['x']), (false, .p .rbrack), (false, .p .dslash),
      (false, .ncname ['c'])] = true := by decide

/-- what `tokOk`/`glueOk` exclude is really read differently -/
example : lex lexModel "/ /".toList = .ok [⟨.p .slash, false⟩, ⟨.p .slash, false⟩] := by decide +kernel
example : lex lexModel "//".toList = .ok [⟨.p .dslash, false⟩] := by decide +kernel
example : glueOk (.p .slash) (.p .slash) = false := by decide
example : glueOk (.ncname ['a']) (.digits ['1']) = false := by decide
example : lex lexModel "a 1".toList = .ok [⟨.ncname ['a'], false⟩, ⟨.digits ['1'], false⟩] := by decide +kernel
example : lex lexModel "a1".toList = .ok [⟨.ncname ['a', '1'], false⟩] := by decide +kernel
/-- runs of tabs, line ends and blanks, trailing white space -/
example : lex lexModel (spellPadded [(['\t', '\n'], .ncname ['a']), ([' ', '\r'], .p .slash),
      (['\r'], .ncname ['b'])] [' ', ' ']) =
    .ok [⟨.ncname ['a'], false⟩, ⟨.p .slash, false⟩, ⟨.ncname ['b'], false⟩] :=
  lex_extra_space_placed lexModel _ _ (by decide) (by decide) (by decide) (by decide) (by decide)
/-- U+00A0 is white space for Go's `unicode.IsSpace` (a lexer with `xmlSpace = false`), not for XML:
    neither xsel nor XPath 1.0 separates tokens with it -/
example : lex ⟨false, false, true, true, true⟩ (spellPadded [(['\t', '\n'], .ncname ['a']), ([' ', '\u00a0'], .p .slash),
      (['\r'], .ncname ['b'])] [' ', ' ']) =
    .ok [⟨.ncname ['a'], false⟩, ⟨.p .slash, false⟩, ⟨.ncname ['b'], false⟩] :=
  lex_extra_space_placed _ _ _ (by decide) (by decide) (by decide) (by decide) (by decide)
example : lex lexSpec ['a', '\u00a0', 'b'] = .err := by decide +kernel
example : lex lexModel ['a', '\u00a0', 'b'] = .err := by decide +kernel
/-- empty runs: `a/b` has glued tokens -/
example : lex lexSpec (spellPadded [([], .ncname ['a']), ([], .p .slash), ([], .ncname ['b'])] []) =
    .ok [⟨.ncname ['a'], false⟩, ⟨.p .slash, true⟩, ⟨.ncname ['b'], true⟩] :=
  lex_spellPadded lexSpec _ _ (by decide)
/-- the operator names: always keyword tokens for `lexRaw`; for `lex lexModel` names where an operand
    is expected (at the start, after an operator, after `/`, `::`, `@`, `(`, `[`, `,`), operators
    after an operand; `lexSpec` leaves the decision to the parser -/
example : lexRaw lexModel " div".toList = .ok [⟨.kw .div, false⟩] := by decide +kernel
example : lex lexModel " div".toList = .ok [⟨.ncname ['d','i','v'], false⟩] := by decide +kernel
example : lex lexSpec " div".toList = .ok [⟨.kw .div, false⟩] := by decide +kernel
example : lex lexModel "a div div".toList =
    .ok [⟨.ncname ['a'], false⟩, ⟨.kw .div, false⟩, ⟨.ncname ['d','i','v'], false⟩] := by decide +kernel
example : lex lexModel "div div div div div".toList =
    .ok [⟨.ncname ['d','i','v'], false⟩, ⟨.kw .div, false⟩, ⟨.ncname ['d','i','v'], false⟩,
         ⟨.kw .div, false⟩, ⟨.ncname ['d','i','v'], false⟩] := by decide +kernel
example : lex lexModel "//or/@and[mod]".toList =
    .ok [⟨.p .dslash, false⟩, ⟨.ncname ['o','r'], true⟩, ⟨.p .slash, true⟩, ⟨.p .at, true⟩,
         ⟨.ncname ['a','n','d'], true⟩, ⟨.p .lbrack, true⟩, ⟨.ncname ['m','o','d'], true⟩,
         ⟨.p .rbrack, true⟩] := by decide +kernel
/-- `*` toggles like an operator name: `* * *` is name test, times, name test; so after `* *` an
    operator name is a name, after `*` an operator -/
example : lex lexModel "* * mod".toList =
    .ok [⟨.p .star, false⟩, ⟨.p .star, false⟩, ⟨.ncname ['m','o','d'], false⟩] := by decide +kernel
example : lex lexModel "* mod *".toList =
    .ok [⟨.p .star, false⟩, ⟨.kw .mod, false⟩, ⟨.p .star, false⟩] := by decide +kernel
/-- through the theorems: the general form says what is retagged, `opsPlaced` when nothing is -/
example : lex lexModel (spellAll [.kw .div, .kw .div, .kw .div]) =
    .ok [⟨.ncname ['d','i','v'], false⟩, ⟨.kw .div, false⟩, ⟨.ncname ['d','i','v'], false⟩] :=
  lex_spellAll lexModel _ (by decide)
example : opsPlaced true [⟨.kw .div, false⟩] = false ∧
    opsPlaced true [⟨.ncname ['a'], false⟩, ⟨.kw .div, false⟩, ⟨.ncname ['b'], false⟩] = true := by decide
/-- the function names: an axis-name or node-type keyword in front of `(` (a node type only after `:`) or
    as the prefix of `k:name(` is a name for `lex lexModel`; `lexRaw` and `lex lexSpec` keep the keyword -/
example : lexRaw lexModel "self()".toList = .ok [⟨.kw (.axis .self), false⟩, ⟨.p .lparen, true⟩, ⟨.p .rparen, true⟩] := by
  decide +kernel
example : lex lexSpec "self()".toList = .ok [⟨.kw (.axis .self), false⟩, ⟨.p .lparen, true⟩, ⟨.p .rparen, true⟩] := by
  decide +kernel
example : lex lexModel "self()".toList =
    .ok [⟨.ncname ['s','e','l','f'], false⟩, ⟨.p .lparen, true⟩, ⟨.p .rparen, true⟩] := by decide +kernel
example : lex lexModel "text()".toList = .ok [⟨.kw .text, false⟩, ⟨.p .lparen, true⟩, ⟨.p .rparen, true⟩] := by
  decide +kernel
example : lex lexModel "p:text()".toList =
    .ok [⟨.ncname ['p'], false⟩, ⟨.p .colon, true⟩, ⟨.ncname ['t','e','x','t'], true⟩, ⟨.p .lparen, true⟩,
         ⟨.p .rparen, true⟩] := by decide +kernel
example : lex lexModel "child:node()".toList =
    .ok [⟨.ncname ['c','h','i','l','d'], false⟩, ⟨.p .colon, true⟩, ⟨.ncname ['n','o','d','e'], true⟩,
         ⟨.p .lparen, true⟩, ⟨.p .rparen, true⟩] := by decide +kernel
example : lex lexModel "child::node()".toList =
    .ok [⟨.kw (.axis .child), false⟩, ⟨.p .coloncolon, true⟩, ⟨.kw .node, true⟩, ⟨.p .lparen, true⟩,
         ⟨.p .rparen, true⟩] := by decide +kernel
example : fnsPlaced false [⟨.kw (.axis .self), false⟩, ⟨.p .lparen, true⟩] = false ∧
    fnsPlaced false [⟨.kw .text, false⟩, ⟨.p .lparen, true⟩] = true ∧
    fnsPlaced false [⟨.kw (.axis .self), false⟩, ⟨.p .coloncolon, true⟩, ⟨.kw .text, true⟩, ⟨.p .lparen, true⟩] = true := by
  decide
/-- the trailing dots: `1.` is `1`; the `.` of `1.5`, of `1 .` and the one after a fraction stay; the
    token after a dropped `.` is no longer adjacent -/
example : lexRaw lexModel "1.".toList = .ok [⟨.digits ['1'], false⟩, ⟨.p .dot, true⟩] := by decide +kernel
example : lex lexSpec "1.".toList = .ok [⟨.digits ['1'], false⟩, ⟨.p .dot, true⟩] := by decide +kernel
example : lex lexModel "1.".toList = .ok [⟨.digits ['1'], false⟩] := by decide +kernel
example : lex lexModel "1.5".toList = .ok [⟨.digits ['1'], false⟩, ⟨.p .dot, true⟩, ⟨.digits ['5'], true⟩] := by
  decide +kernel
example : lex lexModel "1 .".toList = .ok [⟨.digits ['1'], false⟩, ⟨.p .dot, false⟩] := by decide +kernel
example : lex lexModel ".5.".toList = .ok [⟨.p .dot, false⟩, ⟨.digits ['5'], true⟩, ⟨.p .dot, true⟩] := by
  decide +kernel
example : lex lexModel "1.]".toList = .ok [⟨.digits ['1'], false⟩, ⟨.p .rbrack, false⟩] := by decide +kernel
example : lex lexModel "1..".toList = .ok [⟨.digits ['1'], false⟩, ⟨.p .dotdot, true⟩] := by decide +kernel
example : dotsPlaced false false [⟨.digits ['1'], false⟩, ⟨.p .dot, true⟩] = false ∧
    dotsPlaced false false [⟨.digits ['1'], false⟩, ⟨.p .dot, true⟩, ⟨.digits ['5'], true⟩] = true ∧
    dotsPlaced false false [⟨.p .dot, false⟩, ⟨.digits ['5'], true⟩, ⟨.p .dot, true⟩] = true := by decide
/-- through the theorems -/
example : lex lexModel (spellGlue [(true, .kw (.axis .self)), (false, .p .lparen), (false, .p .rparen)]) =
    .ok [⟨.ncname ['s','e','l','f'], false⟩, ⟨.p .lparen, true⟩, ⟨.p .rparen, true⟩] :=
  lex_spellGlue lexModel _ (by decide)
example : lex lexModel (spellGlue [(true, .digits ['1']), (false, .p .dot), (true, .p .plus)]) =
    .ok [⟨.digits ['1'], false⟩, ⟨.p .plus, false⟩] :=
  lex_spellGlue lexModel _ (by decide)

end Xsel.Syntax
