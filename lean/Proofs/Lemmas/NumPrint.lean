/-
  Proofs/Lemmas/NumPrint.lean — shape of `numToStr` on finite numbers (used by C04).
-/
import Xsel.NumStr

namespace Xsel.NumL
open Xsel

theorem isDigit_eq (c : Char) : Xsel.isDigit c = c.isDigit := by
  simp [Xsel.isDigit, Char.isDigit, Char.le_def, UInt32.le_iff_toNat_le]

theorem natDigits_digits (n : Nat) : ∀ c ∈ natDigits n, isDigit c = true := by
  intro c hc
  rw [isDigit_eq]
  exact Nat.isDigit_of_mem_toDigits (by decide) (by decide) hc

theorem mem_stripTrailingZeros (ds : Chars) : ∀ c ∈ stripTrailingZeros ds, c ∈ ds := by
  intro c hc
  unfold stripTrailingZeros at hc
  have := (List.dropWhile_sublist (fun x => x == '0') (l := ds.reverse)).mem (List.mem_reverse.1 hc)
  exact List.mem_reverse.1 this

def DigitsOK (d : Dec) : Prop := ∀ c ∈ d.digits, isDigit c = true

theorem shortestAt_digits (q : Rat) (k : Int) (n : Nat) (d : Dec) (h : shortestAt q k n = some d) :
    DigitsOK d := by
  unfold shortestAt at h
  dsimp only at h
  split at h
  · simp at h
  · simp only [Option.some.injEq] at h
    subst h
    intro c hc
    exact natDigits_digits _ c (mem_stripTrailingZeros _ c hc)

theorem exactDec_digits (q : Rat) (k : Int) : DigitsOK (exactDec q k) := by
  unfold exactDec
  intro c hc
  exact natDigits_digits _ c (mem_stripTrailingZeros _ c hc)

theorem shortestDec_digits (q : Rat) : DigitsOK (shortestDec q) := by
  unfold shortestDec
  have key : ∀ fuel n, DigitsOK (shortestDec.search q (log10Floor q) fuel n) := by
    intro fuel
    induction fuel with
    | zero => intro n; exact exactDec_digits q _
    | succ f ih =>
      intro n
      unfold shortestDec.search
      split
      · rename_i d hd; exact shortestAt_digits q _ n d hd
      · exact ih _
  exact key 17 1

theorem count_dot_digits (l : Chars) (h : ∀ c ∈ l, isDigit c = true) : l.count '.' = 0 := by
  apply List.count_eq_zero.2
  intro hm
  have := h '.' hm
  exact absurd this (by decide)

theorem zeros_digits (n : Nat) : ∀ c ∈ zeros n, isDigit c = true := by
  intro c hc
  have := (List.mem_replicate.1 hc).2
  subst this; decide

/-- `layoutF` writes digits and at most one '.', never an exponent; no '.' when the decimal point
    is at or after the last significant digit -/
theorem layoutF_shape (d : Dec) (h : DigitsOK d) :
    (∀ c ∈ layoutF d, isDigit c = true ∨ c = '.') ∧ (layoutF d).count '.' ≤ 1 ∧ layoutF d ≠ [] ∧
    (0 < d.dp → (d.digits.length : Int) ≤ d.dp → ∀ c ∈ layoutF d, isDigit c = true) := by
  have hz := count_dot_digits d.digits h
  unfold layoutF
  dsimp only
  split
  · rename_i h1
    refine ⟨?_, ?_, by simp, fun h0 => absurd h0 (by omega)⟩
    · intro c hc
      simp only [List.mem_cons, List.mem_append] at hc
      rcases hc with hc | hc | hc | hc
      · subst hc; left; decide
      · right; exact hc
      · left; exact zeros_digits _ c hc
      · left; exact h c hc
    · simp [List.count_append, hz, count_dot_digits _ (zeros_digits _)]
  · split
    · rename_i h1 h2
      have hall : ∀ c ∈ d.digits ++ zeros (d.dp - ↑d.digits.length).toNat, isDigit c = true := by
        intro c hc
        rcases List.mem_append.1 hc with hc | hc
        · exact h c hc
        · exact zeros_digits _ c hc
      refine ⟨fun c hc => .inl (hall c hc), ?_, ?_, fun _ _ => hall⟩
      · rw [count_dot_digits _ hall]; omega
      · intro he
        have := congrArg List.length he
        simp only [List.length_append, zeros, List.length_replicate, List.length_nil] at this
        omega
    · rename_i h1 h2
      have ht : ∀ c ∈ d.digits.take d.dp.toNat, isDigit c = true :=
        fun c hc => h c (List.mem_of_mem_take hc)
      have hd : ∀ c ∈ d.digits.drop d.dp.toNat, isDigit c = true :=
        fun c hc => h c (List.mem_of_mem_drop hc)
      refine ⟨?_, ?_, by simp, fun _ h3 => absurd h3 h2⟩
      · intro c hc
        simp only [List.mem_cons, List.mem_append] at hc
        rcases hc with hc | hc | hc
        · left; exact ht c hc
        · right; exact hc
        · left; exact hd c hc
      · simp [List.count_append, count_dot_digits _ ht, count_dot_digits _ hd]

/-- `numToStr` on a finite number: an optional leading '-', then digits with at most one '.' -/
theorem numToStr_fin_eq (q : Rat) :
    numToStr (.fin q) = if q == 0 then ['0'] else if q < 0 then '-' :: layoutF (shortestDec (-q))
      else layoutF (shortestDec q) := rfl

theorem numToStr_fin_shape (q : Rat) :
    ∃ body : Chars, numToStr (.fin q) = (if q < 0 then ['-'] else []) ++ body ∧
      (∀ c ∈ body, isDigit c = true ∨ c = '.') ∧ body.count '.' ≤ 1 ∧ body ≠ [] := by
  rw [numToStr_fin_eq]
  by_cases h0 : q = 0
  · subst h0
    refine ⟨['0'], by decide +kernel, ?_, by decide, by simp⟩
    intro c hc; simp at hc; subst hc; left; decide
  · have hb : (q == 0) = false := by simpa using h0
    rw [hb]
    by_cases h2 : q < 0
    · have ⟨a, b, c, _⟩ := layoutF_shape _ (shortestDec_digits (-q))
      refine ⟨layoutF (shortestDec (-q)), ?_, a, b, c⟩
      simp only [h2, if_true, Bool.false_eq_true, if_false]; rfl
    · have ⟨a, b, c, _⟩ := layoutF_shape _ (shortestDec_digits q)
      refine ⟨layoutF (shortestDec q), ?_, a, b, c⟩
      simp only [h2, if_false, Bool.false_eq_true]; rfl

end Xsel.NumL
