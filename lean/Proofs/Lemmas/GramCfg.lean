/-
  Proofs/Lemmas/GramCfg.lean — context-free grammars as production tables, derivations, languages,
  and a CHECKABLE simulation argument for language inclusion.

  A grammar is a list of productions `(head, rhs)`; a symbol is `(isNonterminal, name)`; a sentential
  form is a list of symbols.  `Derives G α β` is the reflexive-transitive closure of "rewrite one
  occurrence of a nonterminal by one of its productions".  `L G A` is the set of terminal strings
  derivable from the nonterminal `A`.

  Language inclusion `L G1 A ⊆ L G2 B` is proved by a *simulation*: every nonterminal `X` of `G1` is
  given a finite list `imgs X` of sentential forms of `G2` (its images; in the simplest case the
  single form `[φ X]` for a renaming `φ`), and for every production `X → ρ` of `G1` and every image
  `ρ'` of `ρ` (an image of each nonterminal of `ρ` chosen independently, terminals unchanged) some
  image of `X` derives `ρ'` in `G2` (`sim_sound`).  The per-production derivations are DATA — lists
  of `(position, production index)` steps — checked by the Boolean function `checkDeriv`, so that
  "every production has a witness" is one kernel evaluation (`checkSim`, `checkSim_sound`).

  The last two sections give the converse tool: `w ∉ L G A` from a finite set of sentential forms
  that contains `w` and is closed under *predecessors* (`not_mem_L_of_closed`), or from one symbol
  set per position of `w` (`not_mem_L_of_shape`).
-/
namespace Xsel.Gram

/-- a grammar symbol: `(true, A)` is the nonterminal `A`, `(false, t)` the terminal (token) `t` -/
abbrev Sym := Bool × String
/-- a sentential form -/
abbrev Form := List Sym

/-- a context-free grammar: its production table -/
structure Cfg where
  prods : List (String × List (Bool × String))

/-- one rewriting step: an occurrence of the nonterminal `A` is replaced by the right-hand side of
    one of its productions -/
inductive Step1 (G : Cfg) : Form → Form → Prop
  | mk (γ δ : Form) (A : String) (ρ : Form) (h : (A, ρ) ∈ G.prods) :
      Step1 G (γ ++ [(true, A)] ++ δ) (γ ++ ρ ++ δ)

/-- derivation: zero or more rewriting steps -/
inductive Derives (G : Cfg) : Form → Form → Prop
  | refl (α : Form) : Derives G α α
  | head {α β γ : Form} : Step1 G α β → Derives G β γ → Derives G α γ

variable {G : Cfg}

theorem Derives.single {α β : Form} (s : Step1 G α β) : Derives G α β := .head s (.refl _)

theorem Derives.trans {α β γ : Form} (h1 : Derives G α β) (h2 : Derives G β γ) : Derives G α γ := by
  induction h1 with
  | refl => exact h2
  | head s _ ih => exact .head s (ih h2)

theorem Derives.tail {α β γ : Form} (h1 : Derives G α β) (s : Step1 G β γ) : Derives G α γ :=
  h1.trans (.single s)

theorem Step1.append {α β : Form} (s : Step1 G α β) (γ δ : Form) :
    Step1 G (γ ++ α ++ δ) (γ ++ β ++ δ) := by
  cases s with
  | mk γ' δ' A ρ h =>
    have := Step1.mk (G := G) (γ ++ γ') (δ' ++ δ) A ρ h
    simpa [List.append_assoc] using this

/-- congruence: a derivation may take place inside any context -/
theorem Derives.append {α β : Form} (h : Derives G α β) (γ δ : Form) :
    Derives G (γ ++ α ++ δ) (γ ++ β ++ δ) := by
  induction h with
  | refl => exact .refl _
  | head s _ ih => exact .head (s.append γ δ) ih

theorem Derives.append_left {α β : Form} (h : Derives G α β) (γ : Form) :
    Derives G (γ ++ α) (γ ++ β) := by
  simpa using h.append γ []

theorem Derives.append_right {α β : Form} (h : Derives G α β) (δ : Form) :
    Derives G (α ++ δ) (β ++ δ) := by
  simpa using h.append [] δ

/-- a concatenation is derived by deriving its parts -/
theorem Derives.concat {α β α' β' : Form} (h : Derives G α β) (h' : Derives G α' β') :
    Derives G (α ++ α') (β ++ β') :=
  (h.append_right α').trans (h'.append_left β)

/-- the sentential form consisting of the tokens `w` -/
def word (w : List String) : Form := w.map fun t => (false, t)

/-- a language: a set of token strings -/
def Lang := List String → Prop

instance : Membership (List String) Lang := ⟨fun L w => L w⟩

/-- the language of the nonterminal `A` -/
def L (G : Cfg) (A : String) : Lang := fun w => Derives G [(true, A)] (word w)

theorem mem_L {A : String} {w : List String} : w ∈ L G A ↔ Derives G [(true, A)] (word w) := Iff.rfl

/-- a grammar with more productions derives more -/
theorem Derives.mono {G G' : Cfg} (h : ∀ p ∈ G.prods, p ∈ G'.prods) {α β : Form}
    (d : Derives G α β) : Derives G' α β := by
  induction d with
  | refl => exact .refl _
  | head s _ ih =>
    cases s with
    | mk γ δ A ρ hm => exact .head (Step1.mk γ δ A ρ (h _ hm)) ih

theorem L_mono {G G' : Cfg} (h : ∀ p ∈ G.prods, p ∈ G'.prods) (A : String) :
    ∀ w, w ∈ L G A → w ∈ L G' A := fun _ hw => Derives.mono h hw

/-! ### Checkable derivations -/

/-- rewrite the nonterminal at position `pos` of `f` by production number `idx` of `G` -/
def applyStep (G : Cfg) (f : Form) (pos idx : Nat) : Option Form :=
  match G.prods[idx]?, f.drop pos with
  | some (A, ρ), (true, B) :: δ => if A = B then some (f.take pos ++ ρ ++ δ) else none
  | _, _ => none

theorem applyStep_sound {f f' : Form} {pos idx : Nat} (h : applyStep G f pos idx = some f') :
    Step1 G f f' := by
  unfold applyStep at h
  split at h
  · next A ρ B δ hp hd =>
    split at h
    · next hAB =>
      subst hAB
      have hf : f = f.take pos ++ [(true, A)] ++ δ := by
        have := List.take_append_drop pos f
        rw [hd] at this
        simpa using this.symm
      have hm : (A, ρ) ∈ G.prods := List.mem_of_getElem? hp
      have hs := Step1.mk (G := G) (f.take pos) δ A ρ hm
      rw [← hf] at hs
      cases h
      exact hs
    · cases h
  · cases h

/-- does the list of steps `(position, production index)` lead from `f` to `t`? -/
def checkDeriv (G : Cfg) : Form → List (Nat × Nat) → Form → Bool
  | f, [], t => f == t
  | f, (p, i) :: s, t =>
    match applyStep G f p i with
    | some f' => checkDeriv G f' s t
    | none => false

theorem checkDeriv_sound {f t : Form} {s : List (Nat × Nat)} (h : checkDeriv G f s t = true) :
    Derives G f t := by
  induction s generalizing f with
  | nil =>
    have : f = t := by simpa [checkDeriv] using h
    subst this; exact .refl _
  | cons x s ih =>
    obtain ⟨p, i⟩ := x
    unfold checkDeriv at h
    split at h
    · next f' hf => exact .head (applyStep_sound hf) (ih h)
    · cases h

/-- membership in a language from a checked derivation -/
theorem mem_L_of_check {A : String} {w : List String} (s : List (Nat × Nat))
    (h : checkDeriv G [(true, A)] s (word w) = true) : w ∈ L G A :=
  checkDeriv_sound h

/-! ### Simulation -/

/-- all images of a sentential form: every nonterminal is replaced by one of its images, terminals
    are kept -/
def allImgs (imgs : String → List Form) : Form → List Form
  | [] => [[]]
  | (false, t) :: r => (allImgs imgs r).map fun r' => (false, t) :: r'
  | (true, A) :: r => (imgs A).flatMap fun a => (allImgs imgs r).map fun r' => a ++ r'

variable {imgs : String → List Form}

theorem mem_allImgs_append {α β x : Form} :
    x ∈ allImgs imgs (α ++ β) ↔ ∃ a ∈ allImgs imgs α, ∃ b ∈ allImgs imgs β, x = a ++ b := by
  induction α generalizing x with
  | nil => simp [allImgs]
  | cons s α ih =>
    obtain ⟨b, n⟩ := s
    cases b with
    | false =>
      simp only [List.cons_append, allImgs, List.mem_map, ih]
      constructor
      · rintro ⟨r', ⟨a, ha, b, hb, rfl⟩, rfl⟩
        exact ⟨(false, n) :: a, ⟨a, ha, rfl⟩, b, hb, rfl⟩
      · rintro ⟨a', ⟨a, ha, rfl⟩, b, hb, rfl⟩
        exact ⟨a ++ b, ⟨a, ha, b, hb, rfl⟩, rfl⟩
    | true =>
      simp only [List.cons_append, allImgs, List.mem_flatMap, List.mem_map, ih]
      constructor
      · rintro ⟨i, hi, r', ⟨a, ha, b, hb, rfl⟩, rfl⟩
        exact ⟨i ++ a, ⟨i, hi, a, ha, rfl⟩, b, hb, by simp⟩
      · rintro ⟨a', ⟨i, hi, a, ha, rfl⟩, b, hb, rfl⟩
        exact ⟨i, hi, a ++ b, ⟨a, ha, b, hb, rfl⟩, by simp⟩

theorem mem_allImgs_single {A : String} {x : Form} :
    x ∈ allImgs imgs [(true, A)] ↔ x ∈ imgs A := by
  simp [allImgs]

theorem allImgs_word (w : List String) : allImgs imgs (word w) = [word w] := by
  induction w with
  | nil => rfl
  | cons t w ih =>
    show allImgs imgs ((false, t) :: word w) = [(false, t) :: word w]
    simp [allImgs, ih]

/-- the simulation condition: for every production `X → ρ` of `G1` and every image `ρ'` of `ρ`,
    some image of `X` derives `ρ'` in `G2` -/
def Simulates (G1 G2 : Cfg) (imgs : String → List Form) : Prop :=
  ∀ p ∈ G1.prods, ∀ ρ' ∈ allImgs imgs p.2, ∃ a ∈ imgs p.1, Derives G2 a ρ'

/-- **sim_sound** — derivations of `G1` are simulated in `G2`: whatever image of the derived form
    is chosen, some image of the original form derives it -/
theorem sim_sound {G1 G2 : Cfg} (h : Simulates G1 G2 imgs) {α β : Form} (d : Derives G1 α β) :
    ∀ β' ∈ allImgs imgs β, ∃ α' ∈ allImgs imgs α, Derives G2 α' β' := by
  induction d with
  | refl α => intro β' hβ; exact ⟨β', hβ, .refl _⟩
  | head s _ ih =>
    intro β' hβ
    obtain ⟨μ', hμ, dμ⟩ := ih β' hβ
    cases s with
    | mk γ δ A ρ hm =>
      rw [mem_allImgs_append] at hμ
      obtain ⟨γρ', hγρ, δ', hδ, rfl⟩ := hμ
      rw [mem_allImgs_append] at hγρ
      obtain ⟨γ', hγ, ρ', hρ, rfl⟩ := hγρ
      obtain ⟨a, ha, da⟩ := h (A, ρ) hm ρ' hρ
      refine ⟨γ' ++ a ++ δ', ?_, (da.append γ' δ').trans dμ⟩
      rw [mem_allImgs_append]
      refine ⟨γ' ++ a, ?_, δ', hδ, rfl⟩
      rw [mem_allImgs_append]
      exact ⟨γ', hγ, a, mem_allImgs_single.mpr ha, rfl⟩

/-- language inclusion from a simulation in which the start symbol `A` has the single image `[B]` -/
theorem sim_lang {G1 G2 : Cfg} (h : Simulates G1 G2 imgs) {A B : String}
    (hA : imgs A = [[(true, B)]]) : ∀ w, w ∈ L G1 A → w ∈ L G2 B := by
  intro w hw
  obtain ⟨α', hα, d⟩ := sim_sound h hw (word w) (by simp [allImgs_word])
  rw [mem_allImgs_single, hA] at hα
  have : α' = [(true, B)] := by simpa using hα
  subst this
  exact d

/-- the special case of a renaming `φ` of nonterminals (every nonterminal has exactly one image,
    a single nonterminal) -/
def renImgs (φ : String → String) : String → List Form := fun A => [[(true, φ A)]]

/-- `φ` applied to the nonterminals of a sentential form -/
def renForm (φ : String → String) (α : Form) : Form :=
  α.map fun s => if s.1 then (true, φ s.2) else s

theorem allImgs_ren (φ : String → String) (α : Form) :
    allImgs (renImgs φ) α = [renForm φ α] := by
  induction α with
  | nil => rfl
  | cons s α ih =>
    obtain ⟨b, n⟩ := s
    cases b <;> simp [allImgs, ih, renForm, renImgs]

/-- **sim_sound** for a renaming: if every production `(A, α)` of `G1` satisfies
    `[φ A] ⇒* φ α` in `G2`, then `α ⇒* β` in `G1` implies `φ α ⇒* φ β` in `G2` -/
theorem sim_sound_ren {G1 G2 : Cfg} (φ : String → String)
    (h : ∀ p ∈ G1.prods, Derives G2 [(true, φ p.1)] (renForm φ p.2)) {α β : Form}
    (d : Derives G1 α β) : Derives G2 (renForm φ α) (renForm φ β) := by
  have hs : Simulates G1 G2 (renImgs φ) := by
    intro p hp ρ' hρ
    rw [allImgs_ren] at hρ
    have : ρ' = renForm φ p.2 := by simpa using hρ
    subst this
    exact ⟨[(true, φ p.1)], by simp [renImgs], h p hp⟩
  obtain ⟨α', hα, d'⟩ := sim_sound hs d (renForm φ β) (by simp [allImgs_ren])
  rw [allImgs_ren] at hα
  have : α' = renForm φ α := by simpa using hα
  subst this
  exact d'

theorem sim_lang_ren {G1 G2 : Cfg} (φ : String → String)
    (h : ∀ p ∈ G1.prods, Derives G2 [(true, φ p.1)] (renForm φ p.2)) (A : String) :
    ∀ w, w ∈ L G1 A → w ∈ L G2 (φ A) := by
  intro w hw
  have := sim_sound_ren φ h hw
  have hw' : renForm φ (word w) = word w := by
    simp [renForm, word]
  rw [hw'] at this
  exact this

/-! ### The simulation condition as checkable data -/

/-- the witness for one production `X → ρ`: for each image `ρ'` of `ρ`, in the order of
    `allImgs imgs ρ`, the index (in `imgs X`) of the image of `X` that derives it and the steps -/
abbrev Wit := List (Nat × List (Nat × Nat))

def checkImgs (G2 : Cfg) (as : List Form) : List Form → Wit → Bool
  | [], [] => true
  | ρ' :: rs, (k, steps) :: ws =>
    (match as[k]? with
     | some a => checkDeriv G2 a steps ρ'
     | none => false) && checkImgs G2 as rs ws
  | _, _ => false

theorem checkImgs_sound {G2 : Cfg} {as : List Form} {rs : List Form} {ws : Wit}
    (h : checkImgs G2 as rs ws = true) : ∀ ρ' ∈ rs, ∃ a ∈ as, Derives G2 a ρ' := by
  induction rs generalizing ws with
  | nil => intro _ h'; cases h'
  | cons r rs ih =>
    cases ws with
    | nil => simp [checkImgs] at h
    | cons x ws =>
      obtain ⟨k, steps⟩ := x
      simp only [checkImgs, Bool.and_eq_true] at h
      obtain ⟨h1, h2⟩ := h
      intro ρ' hρ
      rcases List.mem_cons.mp hρ with rfl | hρ
      · split at h1
        · next a ha => exact ⟨a, List.mem_of_getElem? ha, checkDeriv_sound h1⟩
        · cases h1
      · exact ih h2 ρ' hρ

/-- check a whole table of witnesses, one per production of `G1` (same order) -/
def checkProds (G2 : Cfg) (imgs : String → List Form) : List (String × Form) → List Wit → Bool
  | [], [] => true
  | (X, ρ) :: ps, w :: ws => checkImgs G2 (imgs X) (allImgs imgs ρ) w && checkProds G2 imgs ps ws
  | _, _ => false

theorem checkProds_sound {G2 : Cfg} {ps : List (String × Form)} {ws : List Wit}
    (h : checkProds G2 imgs ps ws = true) :
    ∀ p ∈ ps, ∀ ρ' ∈ allImgs imgs p.2, ∃ a ∈ imgs p.1, Derives G2 a ρ' := by
  induction ps generalizing ws with
  | nil => intro _ h'; cases h'
  | cons p ps ih =>
    obtain ⟨X, ρ⟩ := p
    cases ws with
    | nil => simp [checkProds] at h
    | cons w ws =>
      simp only [checkProds, Bool.and_eq_true] at h
      intro q hq
      rcases List.mem_cons.mp hq with rfl | hq
      · exact checkImgs_sound h.1
      · exact ih h.2 q hq

def checkSim (G1 G2 : Cfg) (imgs : String → List Form) (wits : List Wit) : Bool :=
  checkProds G2 imgs G1.prods wits

theorem checkSim_sound {G1 G2 : Cfg} {wits : List Wit}
    (h : checkSim G1 G2 imgs wits = true) : Simulates G1 G2 imgs :=
  checkProds_sound h

/-- an image table as data: nonterminals not listed have themselves as their only image -/
def imgsOf (table : List (String × List Form)) : String → List Form := fun A =>
  match table.lookup A with
  | some l => l
  | none => [[(true, A)]]

/-! ### Non-membership: predecessor-closed sets -/

/-- the forms from which `f` is obtained by ONE application of the production `A → ρ` -/
def predsBy (A : String) (ρ : Form) : Form → List Form
  | [] => if ρ = [] then [[(true, A)]] else []
  | x :: r =>
    (if (x :: r).take ρ.length = ρ then [(true, A) :: (x :: r).drop ρ.length] else [])
      ++ (predsBy A ρ r).map fun r' => x :: r'

theorem mem_predsBy (A : String) (ρ γ δ : Form) :
    γ ++ [(true, A)] ++ δ ∈ predsBy A ρ (γ ++ ρ ++ δ) := by
  induction γ with
  | nil =>
    cases hρ : ρ ++ δ with
    | nil =>
      have h1 : ρ = [] := (List.append_eq_nil_iff.mp hρ).1
      have h2 : δ = [] := (List.append_eq_nil_iff.mp hρ).2
      subst h1 h2
      simp [predsBy]
    | cons x r =>
      simp only [List.nil_append, hρ, predsBy, List.mem_append]
      left
      rw [← hρ]
      simp
  | cons y γ ih =>
    simp only [List.cons_append, predsBy, List.mem_append, List.mem_map]
    right
    exact ⟨γ ++ [(true, A)] ++ δ, by simpa using ih, by simp⟩

/-- all one-step predecessors of `f` -/
def preds (G : Cfg) (f : Form) : List Form := G.prods.flatMap fun p => predsBy p.1 p.2 f

theorem mem_preds {f f' : Form} (s : Step1 G f f') : f ∈ preds G f' := by
  cases s with
  | mk γ δ A ρ h =>
    simp only [preds, List.mem_flatMap]
    exact ⟨(A, ρ), h, mem_predsBy A ρ γ δ⟩

/-- is the finite set `B` closed under predecessors? -/
def checkClosed (G : Cfg) (B : List Form) : Bool :=
  B.all fun f' => (preds G f').all fun f => B.contains f

/-- if `B` contains `t` and is closed under predecessors then everything that derives `t` is in `B` -/
theorem mem_of_derives_of_closed {B : List Form} (hc : checkClosed G B = true) {f t : Form}
    (ht : t ∈ B) (d : Derives G f t) : f ∈ B := by
  induction d with
  | refl => exact ht
  | head s _ ih =>
    have hβ := ih ht
    simp only [checkClosed, List.all_eq_true] at hc
    have := hc _ hβ _ (mem_preds s)
    simpa using this

/-- **non-membership**: `w ∉ L G A` from a predecessor-closed finite set that contains `w` but not `A` -/
theorem not_mem_L_of_closed {B : List Form} {A : String} {w : List String}
    (h : (checkClosed G B && B.contains (word w) && !B.contains [(true, A)]) = true) : ¬ w ∈ L G A := by
  simp only [Bool.and_eq_true, Bool.not_eq_true', List.contains_eq_mem, decide_eq_true_eq,
    decide_eq_false_iff_not] at h
  obtain ⟨⟨hc, hw⟩, hA⟩ := h
  intro hm
  exact hA (mem_of_derives_of_closed hc hw hm)

/-! ### Non-membership, cheaper: position-wise symbol sets

  When only unit productions (`A → X`) can occur in a derivation of the token string `w` (no other
  production's right-hand side fits anywhere), every form deriving `w` has the length of `w`, and it
  is enough to give, for every position, the set of symbols that can stand there. -/

/-- `f` has the shape `S`: the same length, and its `i`-th symbol is in the `i`-th set -/
def inShape : List (List Sym) → Form → Bool
  | [], [] => true
  | s :: S, x :: f => s.contains x && inShape S f
  | _, _ => false

/-- wherever the right-hand side `ρ` fits into the shape `S`, it is a single symbol and the head
    `A` is allowed at that position as well -/
def windowsOK (A : String) (ρ : Form) : List (List Sym) → Bool
  | [] => !inShape [] ρ
  | s :: S =>
    (if inShape ((s :: S).take ρ.length) ρ then
       (match ρ with
        | [_] => s.contains (true, A)
        | _ => false)
     else true) && windowsOK A ρ S

def checkShape (G : Cfg) (S : List (List Sym)) : Bool :=
  G.prods.all fun p => windowsOK p.1 p.2 S

theorem inShape_take {S : List (List Sym)} {ρ δ : Form} (h : inShape S (ρ ++ δ) = true) :
    inShape (S.take ρ.length) ρ = true := by
  induction ρ generalizing S with
  | nil => simp [inShape]
  | cons x ρ ih =>
    cases S with
    | nil => simp [inShape] at h
    | cons s S =>
      simp only [List.cons_append, inShape, Bool.and_eq_true] at h
      simp only [List.length_cons, List.take_succ_cons, inShape, Bool.and_eq_true]
      exact ⟨h.1, ih h.2⟩

theorem inShape_step {A : String} {ρ : Form} {S : List (List Sym)} (γ δ : Form)
    (hw : windowsOK A ρ S = true) (h : inShape S (γ ++ ρ ++ δ) = true) :
    inShape S (γ ++ [(true, A)] ++ δ) = true := by
  induction γ generalizing S with
  | nil =>
    simp only [List.nil_append] at h ⊢
    cases S with
    | nil =>
      have h1 := inShape_take h
      simp only [List.take_nil] at h1
      simp [windowsOK, h1] at hw
    | cons s S =>
      have h1 := inShape_take h
      simp only [windowsOK, h1, if_true, Bool.and_eq_true] at hw
      match ρ, hw.1, h with
      | [x], hA, h =>
        simp only [List.cons_append, List.nil_append, inShape, Bool.and_eq_true] at h ⊢
        exact ⟨hA, h.2⟩
  | cons y γ ih =>
    cases S with
    | nil => simp [inShape] at h
    | cons s S =>
      simp only [List.cons_append, inShape, Bool.and_eq_true] at h ⊢
      simp only [windowsOK, Bool.and_eq_true] at hw
      exact ⟨h.1, by simpa using ih hw.2 (by simpa using h.2)⟩

theorem inShape_of_derives {S : List (List Sym)} (hc : checkShape G S = true) {f t : Form}
    (ht : inShape S t = true) (d : Derives G f t) : inShape S f = true := by
  induction d with
  | refl => exact ht
  | head s _ ih =>
    have hβ := ih ht
    cases s with
    | mk γ δ A ρ hm =>
      simp only [checkShape, List.all_eq_true] at hc
      exact inShape_step γ δ (hc (A, ρ) hm) hβ

/-- **non-membership**: `w ∉ L G A` from position-wise symbol sets that admit `w`, are closed under
    every production that fits, and do not admit the form `A` -/
theorem not_mem_L_of_shape {S : List (List Sym)} {A : String} {w : List String}
    (h : (checkShape G S && inShape S (word w) && !inShape S [(true, A)]) = true) : ¬ w ∈ L G A := by
  simp only [Bool.and_eq_true, Bool.not_eq_true'] at h
  obtain ⟨⟨hc, hw⟩, hA⟩ := h
  intro hm
  have := inShape_of_derives hc hw hm
  rw [hA] at this
  cases this

end Xsel.Gram
