/-
  Proofs/Lemmas/LowerDeriv.lean — `lower` is a left inverse of `derivTop`: it reads the derivation tree of the
  canonical spelling of an expression back as that expression (`.` read as `self::node()`).  So the trees
  `walk_lower` speaks about include every canonical tree, and `forest_walk_refines_eval` is a corollary of it.
-/
import Proofs.Lemmas.WalkLower

namespace Xsel.Walk.L2
open Xsel Xsel.Syntax Xsel.Walk

theorem lowE_level (k : Nat) (h : k < 9) (m : String) (ks : PTs) :
    lowE (.nt (levelName k) (.cons (.nt m ks) .nil)) = lowE (.nt m ks) := by
  match k, h with
  | 0, _ | 1, _ | 2, _ | 3, _ | 4, _ | 5, _ | 6, _ | 7, _ | 8, _ =>
    simp only [levelName]
    conv => lhs; unfold lowE
    simp [binOpOfNode, unitNTs]

theorem lowE_FilterExpr (t : PT) (h : t.isNt = true) : lowE (N "FilterExpr" [t]) = lowE t := by
  cases t with
  | tk _ => simp [PT.isNt] at h
  | nt m ks =>
    simp only [N, ofList_cons, ofList_nil]
    conv => lhs; unfold lowE
    simp [binOpOfNode, unitNTs]

theorem lowE_PrimaryExpr (t : PT) (h : t.isNt = true) : lowE (N "PrimaryExpr" [t]) = lowE t := by
  cases t with
  | tk _ => simp [PT.isNt] at h
  | nt m ks =>
    simp only [N, ofList_cons, ofList_nil]
    conv => lhs; unfold lowE
    simp [binOpOfNode, unitNTs]

theorem lowE_PathExpr (t : PT) (h : t.isNt = true) : lowE (N "PathExpr" [t]) = lowE t := by
  cases t with
  | tk _ => simp [PT.isNt] at h
  | nt m ks =>
    simp only [N, ofList_cons, ofList_nil]
    conv => lhs; unfold lowE
    simp [binOpOfNode, unitNTs]

theorem lowE_LocationPath (t : PT) (h : t.isNt = true) : lowE (N "LocationPath" [t]) = lowE t := by
  cases t with
  | tk _ => simp [PT.isNt] at h
  | nt m ks =>
    simp only [N, ofList_cons, ofList_nil]
    conv => lhs; unfold lowE
    simp [binOpOfNode, unitNTs]

theorem lowE_AbsoluteLocationPath (t : PT) (h : t.isNt = true) : lowE (N "AbsoluteLocationPath" [t]) = lowE t := by
  cases t with
  | tk _ => simp [PT.isNt] at h
  | nt m ks =>
    simp only [N, ofList_cons, ofList_nil]
    conv => lhs; unfold lowE
    simp [binOpOfNode, unitNTs]

theorem lowE_climb : ∀ (n lo : Nat) (t : PT), t.isNt = true → lo + n ≤ 9 → lowE (climb n lo t) = lowE t
  | 0, _, _, _, _ => rfl
  | n + 1, lo, t, h, hle => by
    rw [climb]
    have hc : (climb n (lo + 1) t).isNt = true := by cases n <;> first | exact h | rfl
    cases hk : climb n (lo + 1) t with
    | tk _ => rw [hk] at hc; simp [PT.isNt] at hc
    | nt m ks =>
      simp only [N, ofList_cons, ofList_nil]
      rw [lowE_level lo (by omega), ← hk]
      exact lowE_climb n (lo + 1) t h (by omega)

theorem lowE_lift (lo hi : Nat) (t : PT) (h : t.isNt = true) (hle : hi ≤ 9) : lowE (lift lo hi t) = lowE t := by
  rw [lift]
  by_cases hl : lo ≤ hi
  · exact lowE_climb _ _ _ h (by omega)
  · rw [show hi - lo = 0 by omega]; rfl

theorem lowE_parenFilter (t : PT) : lowE (parenFilter t) = lowE t := by
  rw [parenFilter, lowE_FilterExpr _ rfl, lowE_PrimaryExpr _ rfl]
  simp only [N, ofList_cons, ofList_nil, tkp]
  conv => lhs; unfold lowE
  simp [binOpOfNode]

theorem level_le (e : Expr) : level e ≤ 9 := by
  cases e with
  | bin op _ _ => rw [level]; cases op <;> simp [opLevel] <;> (try (rename_i c; cases c <;> simp))
  | call b _ _ _ => cases b <;> simp [level]
  | _ => simp [level]

theorem lowE_wrapAt (m lv : Nat) (t : PT) (h : t.isNt = true) (hlv : lv ≤ 9) : lowE (wrapAt m lv t) = lowE t := by
  unfold wrapAt
  split
  · rw [lowE_lift _ _ _ rfl (Nat.le_refl _), lowE_parenFilter, lowE_lift _ _ _ h hlv]
  · exact lowE_lift _ _ _ h hlv


/-! ### leaves -/

theorem lowE_litNode (s : Chars) : lowE (litNode s) = some (.lit s) := by
  simp only [litNode, litTok, N, ofList_cons, ofList_nil]
  unfold lowE
  simp [binOpOfNode]

theorem lowE_numNode (n : Num) (h : numOk n = true) : lowE (numNode n) = some (.num n) := by
  unfold numOk at h
  unfold numNode
  simp only at h ⊢
  split at h
  · next heq =>
    simp only [heq, N, ofList_cons, ofList_nil]
    simp only [Bool.and_eq_true] at h
    obtain ⟨r, hr, hn⟩ := opt_map_beq h.2
    unfold lowE
    simp [binOpOfNode, PTs.text, PT.text, tokText, hr, hn]
  · next ch fr heq =>
    simp only [heq, N, ofList_cons, ofList_nil]
    simp only [Bool.and_eq_true] at h
    obtain ⟨r, hr, hn⟩ := opt_map_beq h.2
    unfold lowE
    simp [binOpOfNode, PTs.text, PT.text, tokText, tkp, Punct.chars, hr, hn]

theorem lowE_varNode (p : Option Chars) (n : Chars) (h : qnOk p n = true) :
    lowE (N "VariableReference" [.tk (varTok p n)]) = some (.var p n) := by
  have hs := splitQName_varTok p n h
  cases p with
  | none =>
    simp only [varTok] at hs ⊢
    simp only [N, ofList_cons, ofList_nil]
    unfold lowE
    simp [binOpOfNode, hs]
  | some q =>
    simp only [varTok] at hs ⊢
    simp only [N, ofList_cons, ofList_nil]
    unfold lowE
    simp [binOpOfNode, hs]

theorem lowAxis_axisNode (ax : Axis) : lowAxis (axisNode ax) = some ax := by
  simp [axisNode, N, ofList_cons, ofList_nil, tkp, lowAxis]

theorem lowTest_testNode (t : NodeTest) : lowTest (testNode t) = some t := by
  cases t <;> simp [testNode, nodeTypeNode, litNode, litTok, N, ofList_cons, ofList_nil, tkp, lowTest, lowNodeType]

theorem lowQName_qnameNode (p : Option Chars) (n : Chars) (h : qnOk p n = true) :
    lowQName (qnameNode p n) = some (p, n) := by
  cases p with
  | none =>
    simp only [qnOk, Bool.and_true] at h
    simp [qnameNode, N, ofList_cons, ofList_nil, lowQName, h]
  | some q =>
    simp only [qnOk, Bool.and_eq_true] at h
    simp [qnameNode, N, ofList_cons, ofList_nil, tkp, lowQName, h.1, h.2]


/-! ### composite nodes -/

theorem binOp_opNode (op : BinOp) : binOpOfNode (opNode op) = some op := by
  cases op <;> first | rfl | (rename_i c; cases c <;> rfl)

theorem lowE_opNode (op : BinOp) (l r : PT) (a b : Expr) (hl : lowE l = some a) (hr : lowE r = some b) :
    lowE (N (opNode op) [l, .tk (opTok op), r]) = some (.bin op a b) := by
  simp only [N, ofList_cons, ofList_nil]
  unfold lowE
  simp [binOp_opNode, hl, hr]

theorem opLevel_lt (op : BinOp) : opLevel op < 9 := by
  cases op <;> simp [opLevel] <;> (rename_i c; cases c <;> simp)

theorem lowE_negate (u : PT) (a : Expr) (h : lowE u = some a) :
    lowE (N "UnaryExpr" [N "UnaryExprNegate" [tkp .minus, u]]) = some (.neg a) := by
  have := lowE_level 6 (by omega) "UnaryExprNegate" (PTs.ofList [tkp .minus, u])
  simp only [levelName] at this
  simp only [N, ofList_cons, ofList_nil] at this ⊢
  rw [this]
  unfold lowE
  simp [binOpOfNode, tkp, h]

theorem lowPred_predNode (t : PT) : lowPred (predNode t) = lowE t := by
  simp [predNode, N, ofList_cons, ofList_nil, tkp, lowPred]

theorem lowE_filt (f pr : PT) (a b : Expr) (hf : lowE f = some a) (hp : lowPred pr = some b) :
    lowE (N "FilterExpr" [N "FilterExprWithPredicate" [f, pr]]) = some (.filt a b) := by
  rw [lowE_FilterExpr _ rfl]
  simp only [N, ofList_cons, ofList_nil]
  unfold lowE
  simp [binOpOfNode, hf, hp]

/-- the predicates of a step, read back -/
theorem lowPreds_dPreds : ∀ (qs : Exprs) (first : PT) (a : Expr), lowPred first = some a → (∃ k, first = .nt "Predicate" k) →
    AllE (fun q => lowE (exprTree q) = some (normCtx q)) qs →
      lowPreds (dPreds first qs) = some (.cons a (normCtxs qs))
  | .nil, first, a, hf, hn, _ => by
    obtain ⟨k, rfl⟩ := hn
    simp only [dPreds, N, ofList_cons, ofList_nil, normCtxs]
    unfold lowPreds
    simp [hf]
  | .cons q qs, first, a, hf, hn, hall => by
    simp only [dPreds, N, ofList_cons, ofList_nil, normCtxs]
    have := lowPreds_dPreds qs (predNode (wrapAt 0 (level q) (dNat q))) (normCtx q)
      (by rw [lowPred_predNode]; exact hall.1) ⟨_, rfl⟩ hall.2
    unfold lowPreds
    simp [hf, this]


abbrev LowE (q : Expr) : Prop := lowE (exprTree q) = some (normCtx q)

theorem lowStep_dStep (ax : Axis) (t : NodeTest) (ps : Exprs) (base : Expr) (hall : AllE LowE ps) :
    lowStep (dStep ax t ps) base = some (.step base ax t (normCtxs ps)) := by
  cases ps with
  | nil =>
    simp only [dStep, N, ofList_cons, ofList_nil, normCtxs]
    unfold lowStep
    simp [lowAxis_axisNode, lowTest_testNode]
  | cons q qs =>
    have hp := lowPreds_dPreds qs (predNode (wrapAt 0 (level q) (dNat q))) (normCtx q)
      (by rw [lowPred_predNode]; exact hall.1) ⟨_, rfl⟩ hall.2
    simp only [dStep, N, ofList_cons, ofList_nil]
    unfold lowStep
    simp [lowAxis_axisNode, lowTest_testNode, hp, normCtxs]

theorem lowArgs_dArgs : ∀ (bs : Exprs) (first : PT) (a : Expr), lowE first = some a →
    AllE LowE bs → lowArgs (dArgs first bs) = some (.cons a (normCtxs bs))
  | .nil, first, a, hf, _ => by
    simp only [dArgs, N, ofList_cons, ofList_nil, normCtxs, tkp]
    unfold lowArgs
    simp [hf]
  | .cons b bs, first, a, hf, hall => by
    have := lowArgs_dArgs bs (wrapAt 0 (level b) (dNat b)) (normCtx b) hall.1 hall.2
    simp only [dArgs, N, ofList_cons, ofList_nil, normCtxs, tkp]
    unfold lowArgs
    simp [hf, this]

def sigNode : Exprs → PT
  | .nil => N "FunctionSignature" [N "FunctionSignatureNoArgs" [tkp .rparen]]
  | .cons a as => N "FunctionSignature" [dArgs (wrapAt 0 (level a) (dNat a)) as]

theorem lowArgs_sig (as : Exprs) (hall : AllE LowE as) :
    lowArgs (sigNode as) = some (normCtxs as) := by
  cases as with
  | nil =>
    simp only [sigNode, N, ofList_cons, ofList_nil, normCtxs, tkp]
    unfold lowArgs
    simp
  | cons a as =>
    have := lowArgs_dArgs as (wrapAt 0 (level a) (dNat a)) (normCtx a) hall.1 hall.2
    have hn : ∃ k, dArgs (wrapAt 0 (level a) (dNat a)) as = .nt "FunctionCallArgumentList" k := by
      cases as <;> exact ⟨_, rfl⟩
    obtain ⟨k, hk⟩ := hn
    rw [hk] at this
    simp only [sigNode, N, ofList_cons, ofList_nil, normCtxs, hk]
    unfold lowArgs
    simp [this]

theorem dCall_eq (p : Option Chars) (n : Chars) (as : Exprs) :
    dCall p n as = N "FunctionCall" [qnameNode p n, tkp .lparen, (sigNode as)] := by
  cases as <;> rfl

theorem lowE_dCall (p : Option Chars) (n : Chars) (as : Exprs) (h : qnOk p n = true) (hall : AllE LowE as) :
    lowE (dCall p n as) = some (.call .ctx p n (normCtxs as)) := by
  rw [dCall_eq]
  simp only [N, ofList_cons, ofList_nil, tkp]
  unfold lowE
  have := lowArgs_sig as hall
  simp [binOpOfNode, lowQName_qnameNode p n h, this]

theorem lowStep_dCall (p : Option Chars) (n : Chars) (as : Exprs) (base : Expr) (h : qnOk p n = true) (hall : AllE LowE as) :
    lowStep (N "Step" [dCall p n as]) base = some (.call base p n (normCtxs as)) := by
  rw [dCall_eq]
  simp only [N, ofList_cons, ofList_nil, tkp]
  unfold lowStep
  have := lowArgs_sig as hall
  simp [lowQName_qnameNode p n h, this]


/-! ### paths -/

/-- the expression a path starts from -/
def headBase : Head → Option Expr
  | .rel => some .ctx
  | .abs => some .root
  | .filt f => lowE f

/-- the expression a path denotes: its steps (`hr.2`) continued from its head (`hr.1`) -/
def pathExpr (hr : Head × PT) : Option Expr :=
  match headBase hr.1 with
  | some base => lowRel hr.2 base
  | none => none

theorem lowE_pathNode (h : Head) (ks : PTs) :
    lowE (pathNode h (.nt "RelativeLocationPath" ks)) = pathExpr (h, .nt "RelativeLocationPath" ks) := by
  cases h with
  | rel =>
    rw [pathNode, lowE_PathExpr _ rfl, lowE_LocationPath _ rfl]
    simp only [pathExpr, headBase]
    conv => lhs; unfold lowE
    conv => rhs; unfold lowRel
    simp [binOpOfNode]
  | abs =>
    rw [pathNode, lowE_PathExpr _ rfl, lowE_LocationPath _ rfl, lowE_AbsoluteLocationPath _ rfl]
    simp only [pathExpr, headBase, N, ofList_cons, ofList_nil, tkp]
    conv => lhs; unfold lowE
    simp [binOpOfNode]
  | filt f =>
    rw [pathNode, lowE_PathExpr _ rfl]
    simp only [pathExpr, headBase, N, ofList_cons, ofList_nil, tkp]
    conv => lhs; unfold lowE
    simp [binOpOfNode]
    cases lowE f <;> rfl

theorem lowRel_one (S : PT) (k : PTs) (hS : S = .nt "Step" k) (base : Expr) :
    lowRel (N "RelativeLocationPath" [S]) base = lowStep S base := by
  subst hS
  simp only [N, ofList_cons, ofList_nil]
  unfold lowRel
  unfold lowRelKids
  simp

theorem lowRel_more (r S : PT) (base : Expr) :
    lowRel (N "RelativeLocationPath" [N "RelativeLocationPathWithStep" [r, tkp .slash, S]]) base =
      (match lowRel r base with
       | some b => lowStep S b
       | none => none) := by
  simp only [N, ofList_cons, ofList_nil, tkp]
  conv => lhs; unfold lowRel
  conv => lhs; unfold lowRelKids
  simp
  cases lowRel r base <;> rfl

theorem path_relWith (b : Expr) (S : PT) (k : PTs) (G : Expr → Expr) (hS : S = .nt "Step" k)
    (hG : ∀ base, lowStep S base = some (G base))
    (ihRel : isPathLike b = true → pathExpr (dRel b) = some (normBase b))
    (ihNat : lowE (dNat b) = some (normCtx b)) :
    pathExpr (relWith b (dRel b) (dNat b) S) = some (G (normBase b)) := by
  by_cases h1 : b = .ctx
  · subst h1
    simp only [relWith, pathExpr, headBase, normBase]
    rw [lowRel_one S k hS]; exact hG _
  by_cases h2 : b = .root
  · subst h2
    simp only [relWith, pathExpr, headBase, normBase_root]
    rw [lowRel_one S k hS]; exact hG _
  rw [relWith_other b _ _ _ h1 h2]
  by_cases hp : isPathLike b = true
  · simp only [hp, if_true]
    have ih := ihRel hp
    unfold pathExpr at ih ⊢
    simp only at ih ⊢
    cases hb : headBase (dRel b).1 with
    | none => rw [hb] at ih; exact absurd ih (by simp)
    | some base =>
      rw [hb] at ih
      simp only [lowRel_more, ih]
      exact hG _
  · simp only [hp]
    simp only [pathExpr, headBase, Bool.false_eq_true, if_false]
    rw [lowE_wrapAt _ _ _ (isNt_dNat b) (level_le b), ihNat]
    simp only [lowRel_one S k hS]
    rw [normBase_eq b h1]; exact hG _


theorem relWith_rlp (b : Expr) (relB : Head × PT) (natB s : PT) :
    ∃ ks, (relWith b relB natB s).2 = .nt "RelativeLocationPath" ks := by
  unfold relWith
  cases b <;> simp only <;> (try split) <;> exact ⟨_, rfl⟩

theorem lowE_path (hr : Head × PT) (h : ∃ ks, hr.2 = .nt "RelativeLocationPath" ks) :
    lowE (pathNode hr.1 hr.2) = pathExpr hr := by
  obtain ⟨ks, hk⟩ := h
  rw [hk, lowE_pathNode, ← hk]

theorem dStep_step (ax : Axis) (t : NodeTest) (ps : Exprs) : ∃ k, dStep ax t ps = .nt "Step" k := by
  cases ps <;> exact ⟨_, rfl⟩

/-! ### the theorem -/

mutual

theorem lowE_dNat : (e : Expr) → walkOk e = true → lowE (dNat e) = some (normCtx e)
  | .bin op l r, h => by
    simp only [walkOk, Bool.and_eq_true] at h
    rw [dNat, normCtx]
    have hl : lowE (wrapAt (opLevel op) (level l) (dNat l)) = some (normCtx l) := by
      rw [lowE_wrapAt _ _ _ (isNt_dNat l) (level_le l)]; exact lowE_dNat l h.1
    have hr : lowE (wrapAt (opLevel op + 1) (level r) (dNat r)) = some (normCtx r) := by
      rw [lowE_wrapAt _ _ _ (isNt_dNat r) (level_le r)]; exact lowE_dNat r h.2
    have := lowE_opNode op _ _ _ _ hl hr
    simp only [N, ofList_cons, ofList_nil] at this ⊢
    rw [lowE_level _ (opLevel_lt op), this]
  | .neg e, h => by
    simp only [walkOk] at h
    rw [dNat, normCtx]
    refine lowE_negate _ _ ?_
    rw [lowE_wrapAt _ _ _ (isNt_dNat e) (level_le e)]; exact lowE_dNat e h
  | .num n, h => by
    simp only [walkOk] at h
    rw [dNat, normCtx_num, lowE_FilterExpr _ rfl, lowE_PrimaryExpr _ (isNt_numNode n)]
    exact lowE_numNode n h
  | .lit s, _ => by
    rw [dNat, normCtx_lit, lowE_FilterExpr _ rfl, lowE_PrimaryExpr _ rfl]
    exact lowE_litNode s
  | .var p n, h => by
    simp only [walkOk] at h
    rw [dNat, normCtx_var, lowE_FilterExpr _ rfl, lowE_PrimaryExpr _ rfl]
    exact lowE_varNode p n h
  | .root, _ => by
    rw [dNat, normCtx_root, lowE_PathExpr _ (isNt_parenFilter _), lowE_parenFilter, lowE_lift _ _ _ rfl (by omega)]
    rw [rootPath, lowE_PathExpr _ rfl, lowE_LocationPath _ rfl, lowE_AbsoluteLocationPath _ rfl]
    simp only [N, ofList_cons, ofList_nil, tkp]
    unfold lowE
    simp [binOpOfNode]
  | .ctx, _ => by
    rw [dNat, normCtx, selfStepPath, lowE_PathExpr _ rfl, lowE_LocationPath _ rfl]
    simp only [N, ofList_cons, ofList_nil, tkp]
    unfold lowE
    simp [binOpOfNode]
    unfold lowRelKids
    simp
    unfold lowStep
    simp
  | .filt b p, h => by
    simp only [walkOk, Bool.and_eq_true] at h
    rw [dNat, normCtx]
    refine lowE_filt _ _ _ _ ?_ ?_
    · rw [lowE_wrapAt _ _ _ (isNt_dNat b) (level_le b)]; exact lowE_dNat b h.1
    · rw [lowPred_predNode, lowE_wrapAt _ _ _ (isNt_dNat p) (level_le p)]; exact lowE_dNat p h.2
  | .call b p n as, h => by
    simp only [walkOk, Bool.and_eq_true] at h
    have hall := low_all as h.2
    by_cases hb : b = .ctx
    · subst hb
      rw [dNat, normCtx, normBase, lowE_FilterExpr _ rfl, lowE_PrimaryExpr _ (isNt_dCall p n as)]
      exact lowE_dCall p n as h.1.1 hall
    · rw [dNat_call_of_ne b p n as hb, normCtx, lowE_path _ (relWith_rlp _ _ _ _)]
      exact path_relWith b _ _ (fun base => .call base p n (normCtxs as)) rfl
        (fun base => lowStep_dCall p n as base h.1.1 hall) (fun hp => low_dRel b h.1.2 hp) (lowE_dNat b h.1.2)
  | .step b ax t ps, h => by
    simp only [walkOk, Bool.and_eq_true] at h
    have hall := low_all ps h.2
    obtain ⟨k, hk⟩ := dStep_step ax t ps
    rw [dNat, normCtx]
    rw [lowE_path _ (relWith_rlp _ _ _ _)]
    exact path_relWith b _ k (fun base => .step base ax t (normCtxs ps)) hk
      (fun base => lowStep_dStep ax t ps base hall) (fun hp => low_dRel b h.1 hp) (lowE_dNat b h.1)

theorem low_dRel : (e : Expr) → walkOk e = true → isPathLike e = true → pathExpr (dRel e) = some (normBase e)
  | .step b ax t ps, h, _ => by
    simp only [walkOk, Bool.and_eq_true] at h
    have hall := low_all ps h.2
    obtain ⟨k, hk⟩ := dStep_step ax t ps
    rw [dRel, normBase]
    exact path_relWith b _ k (fun base => .step base ax t (normCtxs ps)) hk
      (fun base => lowStep_dStep ax t ps base hall) (fun hp => low_dRel b h.1 hp) (lowE_dNat b h.1)
  | .call b p n as, h, _ => by
    simp only [walkOk, Bool.and_eq_true] at h
    have hall := low_all as h.2
    rw [dRel, normBase]
    exact path_relWith b _ _ (fun base => .call base p n (normCtxs as)) rfl
      (fun base => lowStep_dCall p n as base h.1.1 hall) (fun hp => low_dRel b h.1.2 hp) (lowE_dNat b h.1.2)
  | .bin _ _ _, _, hp | .neg _, _, hp | .num _, _, hp | .lit _, _, hp | .var _ _, _, hp
  | .root, _, hp | .ctx, _, hp | .filt _ _, _, hp => by simp [isPathLike] at hp

theorem low_all : (es : Exprs) → walkOks es = true → AllE LowE es
  | .nil, _ => trivial
  | .cons e es, h => by
    simp only [walkOks, Bool.and_eq_true] at h
    refine ⟨?_, low_all es h.2⟩
    show lowE (exprTree e) = some (normCtx e)
    rw [exprTree, lowE_wrapAt _ _ _ (isNt_dNat e) (level_le e)]
    exact lowE_dNat e h.1

end

/-- **lower_derivTop** — `lower` reads the derivation tree of the canonical spelling of `e` back as `e`
    (with `.` as `self::node()`): it is a left inverse of `derivTop` on the modelled domain. -/
theorem lower_derivTop (e : Expr) (h : walkOk e = true) : lower (derivTop e) = some (normCtx e) := by
  unfold lower
  by_cases hr : e = .root
  · subst hr
    rw [derivTop, normCtx_root, lowE_lift _ _ _ rfl (by omega)]
    rw [rootPath, lowE_PathExpr _ rfl, lowE_LocationPath _ rfl, lowE_AbsoluteLocationPath _ rfl]
    simp only [N, ofList_cons, ofList_nil, tkp]
    unfold lowE
    simp [binOpOfNode]
  · have : derivTop e = wrapAt 0 (level e) (dNat e) := by
      cases e <;> first | exact absurd rfl hr | rfl
    rw [this, lowE_wrapAt _ _ _ (isNt_dNat e) (level_le e)]
    exact lowE_dNat e h

end Xsel.Walk.L2
