/-
  Proofs/Lemmas/WalkNoPanic.lean — on ANY derivation tree whose productions fit the registered handlers
  (`WalkFit.fits`), the walk of the evaluator over the parse forest never reaches one of the Go panics of the
  handler layer.  Unlike `walk_never_panics` (the derivation tree of the canonical spelling of an expression)
  this covers EVERY forest the generated parser can hand to the evaluator: abbreviated forms, names that spell
  keywords, either derivation of an ambiguous sentence, white-space variants.
-/
import Proofs.Lemmas.WalkFit
import Proofs.Lemmas.WalkBase

namespace Xsel.Walk
open Xsel Xsel.Syntax

/-- not the panic outcome -/
def NP {α : Type} : Except WErr α → Prop
  | .error .panic => False
  | _ => True

theorem NP.ok {α : Type} (a : α) : NP (.ok a : Except WErr α) := trivial
theorem NP.err {α : Type} (e : Err) : NP (.error (.err e) : Except WErr α) := trivial

theorem NP.ne {α : Type} {r : Except WErr α} (h : NP r) : r ≠ .error .panic := by
  intro hr; rw [hr] at h; exact h

theorem NP.bind {α β : Type} {r : Except WErr α} {f : α → Except WErr β} (h1 : NP r) (h2 : ∀ a, NP (f a)) :
    NP (r >>= f) := by
  cases r with
  | ok a => exact h2 a
  | error e =>
    cases e with
    | panic => exact h1.elim
    | err x => exact NP.err x

theorem NP.map {α β : Type} {r : Except WErr α} (f : α → β) (h : NP r) : NP (r.map f) := by
  cases r with
  | ok a => exact NP.ok _
  | error e =>
    cases e with
    | panic => exact h.elim
    | err x => exact NP.err x

theorem NP.liftE {α : Type} (r : Except Err α) : NP (liftE r) := by
  cases r <;> exact trivial

/-- the walk of a tree, and the gathering of arguments below it, never panic — in any context -/
def Inv (tb : List (String × String)) (t : PT) : Prop :=
  (∀ w, NP (walk tb t w)) ∧ (∀ w, NP (walkArgs tb t w))

def AllInv (tb : List (String × String)) : PTs → Prop
  | .nil => True
  | .cons t ts => Inv tb t ∧ AllInv tb ts

theorem inv_tk (tb) (t : Tok) : Inv tb (.tk t) := by
  constructor
  · intro w; rw [walk]; exact NP.ok _
  · intro w; rw [walkArgs]; exact NP.ok _

theorem walkFirst_np (tb) : ∀ (ks : PTs), AllInv tb ks → ∀ w, NP (walkFirst tb ks w)
  | .nil, _, w => by rw [walkFirst]; exact NP.ok _
  | .cons t ts, h, w => by
    rw [walkFirst]
    by_cases ht : t.isNt = true
    · simp only [ht, if_true]; exact h.1.1 w
    · simp only [ht]; exact walkFirst_np tb ts h.2 w

theorem walkNth_np (tb) : ∀ (ks : PTs) (n : Nat), AllInv tb ks → n < ks.ntCount → ∀ w, NP (walkNth tb ks n w)
  | .nil, n, _, hn, _ => by simp at hn
  | .cons t ts, n, h, hn, w => by
    by_cases ht : t.isNt = true
    · cases n with
      | zero => rw [walkNth_cons_nt0 _ _ _ _ ht]; exact h.1.1 w
      | succ m =>
        rw [walkNth_cons_ntS _ _ _ _ _ ht]
        refine walkNth_np tb ts m h.2 ?_ w
        simp [ht] at hn; omega
    · have ht' : t.isNt = false := by simpa using ht
      rw [walkNth_cons_tok _ _ _ _ _ ht']
      refine walkNth_np tb ts n h.2 ?_ w
      simpa [ht'] using hn

theorem walkArgsNth_np (tb) : ∀ (ks : PTs) (n : Nat), AllInv tb ks → n < ks.ntCount → ∀ w, NP (walkArgsNth tb ks n w)
  | .nil, n, _, hn, _ => by simp at hn
  | .cons t ts, n, h, hn, w => by
    by_cases ht : t.isNt = true
    · cases n with
      | zero => rw [walkArgsNth_cons_nt0 _ _ _ _ ht]; exact h.1.2 w
      | succ m =>
        rw [walkArgsNth_cons_ntS _ _ _ _ _ ht]
        refine walkArgsNth_np tb ts m h.2 ?_ w
        simp [ht] at hn; omega
    · have ht' : t.isNt = false := by simpa using ht
      rw [walkArgsNth_cons_tok _ _ _ _ _ ht']
      refine walkArgsNth_np tb ts n h.2 ?_ w
      simpa [ht'] using hn

theorem walkLast_np (tb) : ∀ (ks : PTs), AllInv tb ks → 1 ≤ ks.ntCount → ∀ w, NP (walkLast tb ks w)
  | .nil, _, hn, _ => by simp at hn
  | .cons t ts, h, hn, w => by
    rw [walkLast_cons]
    by_cases h0 : ts.ntCount = 0
    · simp only [h0, beq_self_eq_true, if_true]
      have ht : t.isNt = true := by
        by_cases ht : t.isNt = true
        · exact ht
        · simp [ht, h0] at hn
      simp only [ht, if_true]
      exact h.1.1 w
    · have : (ts.ntCount == 0) = false := by simpa using h0
      simp only [this]
      exact walkLast_np tb ts h.2 (by omega) w

theorem ntCount_rhs : ∀ ks : PTs, ks.ntCount = ntCountR ks.rhs
  | .nil => rfl
  | .cons (.nt n k) ts => by
    have := ntCount_rhs ts
    simp [PTs.rhs, ntCountR, PT.isNt] at this ⊢
    omega
  | .cons (.tk t) ts => by
    have := ntCount_rhs ts
    simp [PTs.rhs, ntCountR, PT.isNt] at this ⊢
    omega

theorem filterIdxW_np {test : Nat → Nat → Except WErr Bool} (h : ∀ i n, NP (test i n)) :
    ∀ (l : List Nat) (i : Nat), NP (filterIdxW test l i)
  | [], _ => NP.ok _
  | n :: t, i => by
    rw [filterIdxW]
    refine NP.bind (h i n) (fun keep => NP.bind (filterIdxW_np h t (i + 1)) (fun rest => NP.ok _))

theorem concatMapW_np {f : Nat → Except WErr (List Nat)} (h : ∀ n, NP (f n)) :
    ∀ (l : List Nat), NP (concatMapW f l)
  | [] => NP.ok _
  | n :: t => by
    rw [concatMapW]
    refine NP.bind (h n) (fun r => NP.bind (concatMapW_np h t) (fun rest => NP.ok _))

theorem nodesOf_np (w : WCtx) : NP (nodesOf w) := by
  unfold nodesOf; cases w.res <;> first | exact NP.ok _ | exact NP.err _

theorem nameTest_np (w : WCtx) (t : NodeTest) : NP (nameTest w t) := by
  unfold nameTest
  cases w.res with
  | nodes l => simp only; cases NodeTest.apply w.c.a w.c.env (kindAxis w.principal) t l <;> first | exact NP.ok _ | exact NP.err _
  | _ => simp only; cases NodeTest.apply w.c.a w.c.env (kindAxis w.principal) t [] <;> first | exact NP.ok _ | exact NP.err _

theorem callFn_np (w : WCtx) (f : Chars) (vs : List Val) : NP (callFn w f vs) := by
  unfold callFn
  simp only
  cases resolve w.c.env (splitQName f).1 (splitQName f).2 with
  | error e => exact NP.err _
  | ok q =>
    simp only
    cases lookupQ q w.c.env.fns with
    | some g => exact NP.map _ (NP.liftE _)
    | none =>
      simp only
      split
      · cases builtin Model.sem w.c q.2 vs with
        | some r => exact NP.map _ (NP.liftE _)
        | none => exact NP.err _
      · exact NP.err _

/-! ### what the shape of a production says about the children of a node -/

theorem ntText_some : ∀ (ks : PTs) (n : Nat), n < ks.ntCount → ∃ x, ks.ntText n = some x
  | .nil, n, hn => by simp at hn
  | .cons (.nt m k) ts, 0, _ => ⟨(PT.nt m k).text, by simp [PTs.ntText, PT.isNt]⟩
  | .cons (.nt m k) ts, n + 1, hn => by
    have : n < ts.ntCount := by simp [PT.isNt] at hn; omega
    obtain ⟨x, hx⟩ := ntText_some ts n this
    exact ⟨x, by simp [PTs.ntText, PT.isNt, hx]⟩
  | .cons (.tk t) ts, n, hn => by
    have : n < ts.ntCount := by simpa [PT.isNt] using hn
    obtain ⟨x, hx⟩ := ntText_some ts n this
    exact ⟨x, by simp [PTs.ntText, PT.isNt, hx]⟩

theorem tokText_some : ∀ (ks : PTs) (i : Nat), isTermAt ks.rhs i = true → ∃ x, ks.tokText i = some x
  | .nil, i, h => by simp [isTermAt, PTs.rhs] at h
  | .cons (.tk t) ts, 0, _ => ⟨tokText t, by simp [PTs.tokText]⟩
  | .cons (.nt m k) ts, 0, h => by simp [isTermAt, PTs.rhs] at h
  | .cons (.tk t) ts, i + 1, h => by
    have : isTermAt ts.rhs i = true := by simpa [isTermAt, PTs.rhs] using h
    obtain ⟨x, hx⟩ := tokText_some ts i this
    exact ⟨x, by simp [PTs.tokText, hx]⟩
  | .cons (.nt m k) ts, i + 1, h => by
    have : isTermAt ts.rhs i = true := by simpa [isTermAt, PTs.rhs] using h
    obtain ⟨x, hx⟩ := tokText_some ts i this
    exact ⟨x, by simp [PTs.tokText, hx]⟩

theorem lastNtName_some : ∀ (ks : PTs), 1 ≤ ks.ntCount → ∃ x, ks.lastNtName = some x
  | .nil, h => by simp at h
  | .cons t ts, h => by
    rw [PTs.lastNtName]
    cases hl : ts.lastNtName with
    | some n => exact ⟨n, rfl⟩
    | none =>
      by_cases ht : t.isNt = true
      · exact ⟨t.name, by simp [ht]⟩
      · exfalso
        have h0 : ts.ntCount = 0 := by
          by_cases h1 : 1 ≤ ts.ntCount
          · obtain ⟨x, hx⟩ := lastNtName_some ts h1; rw [hl] at hx; cases hx
          · omega
        simp [ht, h0] at h

/-! ### every node -/

/-- closes goals `NP (…)` built from binds, matches, ifs and sub-walks of the children `kids`, given
    `hk : AllInv tb kids` and `hn : k ≤ kids.ntCount` in the context -/
macro "np_close" : tactic => `(tactic|
  repeat' (first
    | exact NP.ok _
    | exact NP.err _
    | exact nodesOf_np _
    | exact nameTest_np _ _
    | exact callFn_np _ _ _
    | exact NP.liftE _
    | (apply walkNth_np _ _ _ ‹AllInv _ _› (by omega))
    | (apply walkArgsNth_np _ _ _ ‹AllInv _ _› (by omega))
    | (apply walkLast_np _ _ ‹AllInv _ _› (by omega))
    | (apply walkFirst_np _ _ ‹AllInv _ _›)
    | (apply NP.map)
    | (apply filterIdxW_np)
    | (apply concatMapW_np)
    | (apply NP.bind)
    | intro _
    | (exfalso; omega)
    | split))

theorem walkArgs_nt_np (tb : List (String × String)) (name : String) (kids : PTs) (hk : AllInv tb kids) (w : WCtx) :
    NP (walkArgs tb (.nt name kids) w) := by
  rw [walkArgs]
  split
  · rename_i h
    have : kids.ntCount = 1 := by simp at h; exact h.2
    exact walkArgsNth_np tb kids 0 hk (by omega) w
  · split
    · exact NP.ok _
    · rename_i h0
      have h1 : 1 ≤ kids.ntCount := by
        have : ¬ kids.ntCount = 0 := by simpa using h0
        omega
      refine NP.bind (walkNth_np tb kids 0 hk (by omega) w) (fun x => ?_)
      split
      · rename_i h2
        have : kids.ntCount = 2 := by simpa using h2
        exact NP.bind (walkArgsNth_np tb kids 1 hk (by omega) w) (fun vs => NP.ok _)
      · exact NP.ok _

theorem walk_nt_np_two (tb : List (String × String)) (name h : String) (kids : PTs)
    (hl : lookupS name tb = some h) (hh : h ∈ twoChildHandlers) (hn : 2 ≤ kids.ntCount) (hk : AllInv tb kids)
    (w : WCtx) : NP (walk tb (.nt name kids) w) := by
  simp only [twoChildHandlers, List.mem_cons, List.mem_nil_iff, or_false] at hh
  obtain ⟨fname, hf⟩ := ntText_some kids 0 (by omega)
  rcases hh with rfl | rfl | rfl | rfl | rfl | rfl | rfl | rfl | rfl | rfl | rfl | rfl | rfl | rfl | rfl | rfl | rfl | rfl <;>
    (rw [walk]; simp only [hl, hf]; np_close)

theorem walk_nt_np_one (tb : List (String × String)) (name h : String) (kids : PTs)
    (hl : lookupS name tb = some h) (hh : h ∈ oneChildHandlers) (hn : 1 ≤ kids.ntCount) (hk : AllInv tb kids)
    (w : WCtx) : NP (walk tb (.nt name kids) w) := by
  simp only [oneChildHandlers, List.mem_cons, List.mem_nil_iff, or_false] at hh
  obtain ⟨knt, hknt⟩ := lastNtName_some kids hn
  rcases hh with rfl | rfl | rfl | rfl <;>
    (rw [walk]; simp only [hl, hknt]; np_close)

theorem walk_nt_np_free (tb : List (String × String)) (name h : String) (kids : PTs)
    (hl : lookupS name tb = some h) (hh : h ∈ freeHandlers) (hk : AllInv tb kids)
    (w : WCtx) : NP (walk tb (.nt name kids) w) := by
  simp only [freeHandlers, List.mem_cons, List.mem_nil_iff, or_false] at hh
  rcases hh with rfl | rfl | rfl | rfl | rfl | rfl | rfl | rfl | rfl | rfl | rfl <;>
    (rw [walk]; simp only [hl]; np_close)

/-! ### token texts from terminals -/

theorem lit_of_term {t : Tok} (h : t.term = "singlequote" ∨ t.term = "doublequote") : ∃ dq s, t = .lit dq s := by
  cases t with
  | lit dq s => exact ⟨dq, s, rfl⟩
  | p x => cases x <;> simp [Tok.term, Punct.term] at h
  | kw k =>
    cases k with
    | axis a => cases a <;> simp [Tok.term, Kw.term, axisTerm] at h
    | _ => simp [Tok.term, Kw.term] at h
  | ncname s => simp [Tok.term] at h
  | digits s => simp [Tok.term] at h
  | var s => simp [Tok.term] at h

theorem lparen_of_term {t : Tok} (h : t.term = "(") : t = .p .lparen := by
  cases t with
  | p x => cases x <;> first | rfl | simp [Tok.term, Punct.term] at h
  | kw k =>
    cases k with
    | axis a => cases a <;> simp [Tok.term, Kw.term, axisTerm] at h
    | _ => simp [Tok.term, Kw.term] at h
  | lit dq s => cases dq <;> simp [Tok.term] at h
  | ncname s => simp [Tok.term] at h
  | digits s => simp [Tok.term] at h
  | var s => simp [Tok.term] at h

theorem text_of_literal_rhs : ∀ (ks : PTs),
    (ks.rhs = [(false, "singlequote")] ∨ ks.rhs = [(false, "doublequote")]) → 2 ≤ ks.text.length
  | .cons (.tk t) .nil, h => by
    have ht : t.term = "singlequote" ∨ t.term = "doublequote" := by
      rcases h with h | h <;> simp [PTs.rhs] at h
      · exact .inl h
      · exact .inr h
    obtain ⟨dq, s, rfl⟩ := lit_of_term ht
    simp [PTs.text, PT.text, tokText]
  | .nil, h => by rcases h with h | h <;> simp [PTs.rhs] at h
  | .cons (.nt n k) ts, h => by rcases h with h | h <;> simp [PTs.rhs] at h
  | .cons (.tk t) (.cons u us), h => by
    rcases h with h | h <;> (cases u <;> simp [PTs.rhs] at h)

theorem text_contains_lparen : ∀ (ks : PTs), ks.rhs.contains (false, "(") = true → ks.text.contains '(' = true
  | .nil, h => by simp [PTs.rhs] at h
  | .cons (.tk t) ts, h => by
    simp only [PTs.rhs, List.contains_cons, Bool.or_eq_true] at h
    simp only [PTs.text, PT.text]
    rcases h with h | h
    · have : t.term = "(" := by
        have := of_decide_eq_true (by simpa using h : decide (((false, "(") : Bool × String) = (false, t.term)) = true)
        exact (Prod.mk.inj this).2.symm
      rw [lparen_of_term this]
      simp [tokText, Punct.chars]
    · have := text_contains_lparen ts h
      simp at this ⊢
      exact .inr this
  | .cons (.nt n k) ts, h => by
    simp only [PTs.rhs, List.contains_cons, Bool.or_eq_true] at h
    simp only [PTs.text]
    rcases h with h | h
    · simp at h
    · have := text_contains_lparen ts h
      simp at this ⊢
      exact .inr this

/-- **every node**: when the production of a node fits the handler registered for its nonterminal and the walks
    of its children never panic, neither does its own -/
theorem walk_nt_np (tb : List (String × String)) (name : String) (kids : PTs)
    (hfit : fitsNode tb name kids.rhs = true)
    (hk : AllInv tb kids) (w : WCtx) : NP (walk tb (.nt name kids) w) := by
  unfold fitsNode at hfit
  cases hl : lookupS name tb with
  | none => rw [walk]; simp only [hl]; exact walkFirst_np tb kids hk w
  | some h =>
    rw [hl] at hfit
    change fits h kids.rhs = true at hfit
    have hcnt := ntCount_rhs kids
    unfold fits at hfit
    by_cases hc : twoChildHandlers.contains h = true
    · rw [if_pos hc] at hfit
      exact walk_nt_np_two tb name h kids hl (by simpa using hc) (by rw [hcnt]; simpa using hfit) hk w
    rw [if_neg hc] at hfit
    clear hc
    by_cases hc : oneChildHandlers.contains h = true
    · rw [if_pos hc] at hfit
      exact walk_nt_np_one tb name h kids hl (by simpa using hc) (by rw [hcnt]; simpa using hfit) hk w
    rw [if_neg hc] at hfit
    clear hc
    by_cases hc : freeHandlers.contains h = true
    · rw [if_pos hc] at hfit
      exact walk_nt_np_free tb name h kids hl (by simpa using hc) hk w
    rw [if_neg hc] at hfit
    clear hc
    by_cases hc : (h == "execLiteral") = true
    · rw [if_pos hc] at hfit
      have hh : h = "execLiteral" := by simpa using hc
      subst hh
      have := text_of_literal_rhs kids (by simpa using hfit)
      rw [walk]; simp only [hl]
      have hlt : ¬ kids.text.length < 2 := by omega
      simp only [hlt, if_false]
      exact NP.ok _
    rw [if_neg hc] at hfit
    clear hc
    by_cases hc : (h == "execNodeTestNodeTypeNoArgTest") = true
    · rw [if_pos hc] at hfit
      have hh : h = "execNodeTestNodeTypeNoArgTest" := by simpa using hc
      subst hh
      have := text_contains_lparen kids hfit
      rw [walk]; simp only [hl, this, Bool.not_true, Bool.false_eq_true, if_false]
      np_close
    rw [if_neg hc] at hfit
    clear hc
    by_cases hc : (h == "execNameTestNamespaceAnyLocal") = true
    · rw [if_pos hc] at hfit
      have hh : h = "execNameTestNamespaceAnyLocal" := by simpa using hc
      subst hh
      obtain ⟨x, hx⟩ := tokText_some kids 0 hfit
      rw [walk]; simp only [hl, hx]; np_close
    rw [if_neg hc] at hfit
    clear hc
    by_cases hc : (h == "execNameTestLocalAnyNamespace") = true
    · rw [if_pos hc] at hfit
      have hh : h = "execNameTestLocalAnyNamespace" := by simpa using hc
      subst hh
      obtain ⟨x, hx⟩ := tokText_some kids 2 hfit
      rw [walk]; simp only [hl, hx]; np_close
    rw [if_neg hc] at hfit
    clear hc
    by_cases hc : (h == "execNameTestQNameNamespaceWithLocal") = true
    · rw [if_pos hc] at hfit
      have hh : h = "execNameTestQNameNamespaceWithLocal" := by simpa using hc
      subst hh
      simp only [Bool.and_eq_true] at hfit
      obtain ⟨x, hx⟩ := tokText_some kids 0 hfit.1
      obtain ⟨y, hy⟩ := tokText_some kids 2 hfit.2
      rw [walk]; simp only [hl, hx, hy]; np_close
    rw [if_neg hc] at hfit
    clear hc
    by_cases hc : (h == "execNameTestNamespaceAnyLocalReservedNameConflict") = true
    · rw [if_pos hc] at hfit
      have hh : h = "execNameTestNamespaceAnyLocalReservedNameConflict" := by simpa using hc
      subst hh
      obtain ⟨x, hx⟩ := ntText_some kids 0 (by rw [hcnt]; have := of_decide_eq_true hfit; omega)
      rw [walk]; simp only [hl, hx]; np_close
    rw [if_neg hc] at hfit
    clear hc
    by_cases hc : (h == "execNameTestLocalAnyNamespaceReservedNameConflict") = true
    · rw [if_pos hc] at hfit
      have hh : h = "execNameTestLocalAnyNamespaceReservedNameConflict" := by simpa using hc
      subst hh
      obtain ⟨x, hx⟩ := ntText_some kids 0 (by rw [hcnt]; have := of_decide_eq_true hfit; omega)
      rw [walk]; simp only [hl, hx]; np_close
    rw [if_neg hc] at hfit
    clear hc
    by_cases hc : (h == "execNameTestQNameNamespaceWithLocalReservedNameConflictNamespace") = true
    · rw [if_pos hc] at hfit
      have hh : h = "execNameTestQNameNamespaceWithLocalReservedNameConflictNamespace" := by simpa using hc
      subst hh
      simp only [Bool.and_eq_true, decide_eq_true_eq] at hfit
      obtain ⟨x, hx⟩ := ntText_some kids 0 (by rw [hcnt]; omega)
      obtain ⟨y, hy⟩ := tokText_some kids 2 hfit.2
      rw [walk]; simp only [hl, hx, hy]; np_close
    rw [if_neg hc] at hfit
    clear hc
    by_cases hc : (h == "execNameTestQNameNamespaceWithLocalReservedNameConflictLocal") = true
    · rw [if_pos hc] at hfit
      have hh : h = "execNameTestQNameNamespaceWithLocalReservedNameConflictLocal" := by simpa using hc
      subst hh
      simp only [Bool.and_eq_true, decide_eq_true_eq] at hfit
      obtain ⟨x, hx⟩ := ntText_some kids 0 (by rw [hcnt]; omega)
      obtain ⟨y, hy⟩ := tokText_some kids 0 hfit.2
      rw [walk]; simp only [hl, hx, hy]; np_close
    rw [if_neg hc] at hfit
    clear hc
    by_cases hc : (h == "execNameTestQNameNamespaceWithLocalReservedNameConflictBoth") = true
    · rw [if_pos hc] at hfit
      have hh : h = "execNameTestQNameNamespaceWithLocalReservedNameConflictBoth" := by simpa using hc
      subst hh
      have h2 : 2 ≤ kids.ntCount := by rw [hcnt]; exact of_decide_eq_true hfit
      obtain ⟨x, hx⟩ := ntText_some kids 0 (by omega)
      obtain ⟨y, hy⟩ := ntText_some kids 1 (by omega)
      rw [walk]; simp only [hl, hx, hy]; np_close
    rw [if_neg hc] at hfit
    clear hc
    exact absurd hfit (by simp)

/-- every node of the tree is an instance of a production that fits its handler -/
def fitsAll (tb : List (String × String)) : PT → Bool
  | .nt n ks => fitsNode tb n ks.rhs && fitsAlls tb ks
  | .tk _ => true
where fitsAlls (tb : List (String × String)) : PTs → Bool
  | .nil => true
  | .cons t ts => fitsAll tb t && fitsAlls tb ts

mutual
theorem inv_of_fits (tb : List (String × String)) : (t : PT) → fitsAll tb t = true → Inv tb t
  | .tk t, _ => inv_tk tb t
  | .nt n ks, h => by
    rw [fitsAll] at h
    simp only [Bool.and_eq_true] at h
    have hk := allinv_of_fits tb ks h.2
    exact ⟨fun w => walk_nt_np tb n ks h.1 hk w, fun w => walkArgs_nt_np tb n ks hk w⟩
theorem allinv_of_fits (tb : List (String × String)) : (ts : PTs) → fitsAll.fitsAlls tb ts = true → AllInv tb ts
  | .nil, _ => trivial
  | .cons t ts, h => by
    rw [fitsAll.fitsAlls] at h
    simp only [Bool.and_eq_true] at h
    exact ⟨inv_of_fits tb t h.1, allinv_of_fits tb ts h.2⟩
end

theorem fitsNode_of_mem (tb : List (String × String)) (prods : List (String × List (Bool × String)))
    (hall : allFit tb prods = true) (n : String) (rhs : List (Bool × String))
    (hm : prods.contains (n, rhs) = true) : fitsNode tb n rhs = true := by
  have hm' : (n, rhs) ∈ prods := by simpa using hm
  exact List.all_eq_true.mp hall (n, rhs) hm'

mutual
/-- a derivation tree of a grammar all of whose productions fit their handlers: every node fits -/
theorem fits_of_valid (tb : List (String × String)) (prods : List (String × List (Bool × String)))
    (hall : allFit tb prods = true) : (t : PT) → t.valid prods = true → fitsAll tb t = true
  | .tk _, _ => rfl
  | .nt n ks, h => by
    rw [PT.valid] at h
    simp only [Bool.and_eq_true] at h
    rw [fitsAll]
    simp only [Bool.and_eq_true]
    exact ⟨fitsNode_of_mem tb prods hall n ks.rhs h.1, fitss_of_valid tb prods hall ks h.2⟩
theorem fitss_of_valid (tb : List (String × String)) (prods : List (String × List (Bool × String)))
    (hall : allFit tb prods = true) : (ts : PTs) → ts.valid prods = true → fitsAll.fitsAlls tb ts = true
  | .nil, _ => rfl
  | .cons t ts, h => by
    rw [PTs.valid] at h
    simp only [Bool.and_eq_true] at h
    rw [fitsAll.fitsAlls]
    simp only [Bool.and_eq_true]
    exact ⟨fits_of_valid tb prods hall t h.1, fitss_of_valid tb prods hall ts h.2⟩
end

/-- **no forest panics**: for a handler table and a grammar that fit, the walk over ANY derivation tree of the
    grammar, from any context, never reaches a panic of the handler layer -/
theorem walk_valid_never_panics (tb : List (String × String)) (prods : List (String × List (Bool × String)))
    (hall : allFit tb prods = true) (t : PT) (hv : t.valid prods = true) (w : WCtx) :
    walk tb t w ≠ .error .panic :=
  ((inv_of_fits tb t (fits_of_valid tb prods hall t hv)).1 w).ne

end Xsel.Walk
