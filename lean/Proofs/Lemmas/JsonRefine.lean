/-
  Proofs/Lemmas/JsonRefine.lean — the JSON adapter (`Xsel.Json.run`, MODEL of parser/json.go)
  refines the README mapping (`Xsel.Json.eventsOf`), for every sequence of top-level values;
  truncated input leaves a non-empty stack (reported as an error by `adapter`).
-/
import Xsel.Json

namespace Xsel.Json

/-! ### `run` = fold of `stepTok`, then flush of the pending end element -/

/-- the fold of `stepTok` (no flush at the end of the input) -/
def runNF : Stack → List Tok → Stack × List Ev
  | st, [] => (st, [])
  | st, t :: ts =>
    ((runNF (stepTok st t).1 ts).1, (stepTok st t).2 ++ (runNF (stepTok st t).1 ts).2)

/-- what `run` does when the token source reports io.EOF -/
def flush (st : Stack) : Stack × List Ev :=
  if isEmitEnd st then (setEmitEnd false st, [.close]) else (st, [])

theorem run_eq (st : Stack) (ts : List Tok) :
    run st ts = ((flush (runNF st ts).1).1, (runNF st ts).2 ++ (flush (runNF st ts).1).2) := by
  induction ts generalizing st with
  | nil => simp only [run, runNF, flush]; split <;> simp_all
  | cons t ts ih => simp only [run, runNF, ih, List.append_assoc]

theorem runNF_append (st : Stack) (ts us : List Tok) :
    runNF st (ts ++ us) =
      ((runNF (runNF st ts).1 us).1, (runNF st ts).2 ++ (runNF (runNF st ts).1 us).2) := by
  induction ts generalizing st with
  | nil => simp [runNF]
  | cons t ts ih => simp only [List.cons_append, runNF, ih, List.append_assoc]

theorem runNF_cons (st : Stack) (t : Tok) (ts : List Tok) :
    runNF st (t :: ts) =
      ((runNF (stepTok st t).1 ts).1, (stepTok st t).2 ++ (runNF (stepTok st t).1 ts).2) := rfl

theorem runNF_single (st : Stack) (t : Tok) : runNF st [t] = stepTok st t := by
  simp [runNF]

/-! ### value positions -/

/-- a stack on which a value may start: top level, inside an array, or inside an object right
    after a key -/
def Ready (st : Stack) : Prop := isEmitEnd st = false ∧ isOnField st = false

/-- the stack after a complete value that started on `st` -/
def afterVal (st : Stack) : Stack :=
  if isObject st then setEmitEnd true (setOnField true st) else st

/-- the stack below a container opened on `st` -/
def below (st : Stack) : Stack := if isObject st then setOnField true st else st

/-- what the closing bracket of a container leaves (`s` is the stack below the container) -/
def closeInto (s : Stack) : Stack := if isOnField s then setEmitEnd true s else s

theorem ready_nil : Ready [] := ⟨rfl, rfl⟩
theorem afterVal_nil : afterVal [] = [] := rfl
theorem ready_arr (s : Stack) : Ready ({ ty := .array } :: s) := ⟨rfl, rfl⟩
theorem afterVal_arr (s : Stack) : afterVal ({ ty := .array } :: s) = { ty := .array } :: s := rfl
theorem ready_obj (s : Stack) : Ready ({ ty := .object, onField := false, emitEnd := false } :: s) :=
  ⟨rfl, rfl⟩
theorem afterVal_obj (s : Stack) :
    afterVal ({ ty := .object, onField := false, emitEnd := false } :: s) =
      { ty := .object, onField := true, emitEnd := true } :: s := rfl

theorem closeInto_below (st : Stack) (h : Ready st) : closeInto (below st) = afterVal st := by
  obtain ⟨h1, h2⟩ := h
  cases st with
  | nil => rfl
  | cons f r =>
    obtain ⟨ty, onf, em⟩ := f
    cases ty <;> simp_all [closeInto, below, afterVal, isObject, isOnField, isEmitEnd, setOnField,
      setEmitEnd]

/-! ### single-token lemmas -/

def Tok.isScalar : Tok → Bool
  | .str _ | .num _ | .bool _ | .null => true
  | _ => false

theorem step_scalar (st : Stack) (h : Ready st) (t : Tok) (ht : t.isScalar = true) :
    stepTok st t = (afterVal st, [.text (tokenValue t)]) := by
  obtain ⟨h1, h2⟩ := h
  cases st with
  | nil => cases t <;> simp_all [stepTok, onTok, afterVal, isObject, isEmitEnd, Tok.isScalar]
  | cons f r =>
    obtain ⟨ty, onf, em⟩ := f
    cases ty <;> cases t <;>
      simp_all [stepTok, onTok, afterVal, isObject, isOnField, isEmitEnd, setOnField, setEmitEnd,
        Tok.isScalar]

theorem step_lbrack (st : Stack) (h : Ready st) :
    stepTok st .lbrack = ({ ty := .array } :: below st, [elemEv "#arr".toList]) := by
  simp [stepTok, onTok, h.1, below]

theorem step_lbrace (st : Stack) (h : Ready st) :
    stepTok st .lbrace =
      ({ ty := .object, onField := true, emitEnd := false } :: below st, [elemEv "#obj".toList]) := by
  simp [stepTok, onTok, h.1, below]

theorem step_rbrack (s : Stack) :
    stepTok ({ ty := .array } :: s) .rbrack = (closeInto s, [.close]) := by
  simp [stepTok, onTok, isEmitEnd, closeInto]
  rfl

/-- the closing brace of an object: the pending end element of the last member comes first -/
theorem step_rbrace (s : Stack) (e : Bool) :
    stepTok ({ ty := .object, onField := true, emitEnd := e } :: s) .rbrace =
      (closeInto s, (if e then [.close] else []) ++ [.close]) := by
  cases e <;> simp [stepTok, onTok, isEmitEnd, setEmitEnd, closeInto] <;> rfl

/-- a key: the pending end element of the previous member comes first -/
theorem step_key (s : Stack) (e : Bool) (k : Chars) :
    stepTok ({ ty := .object, onField := true, emitEnd := e } :: s) (.str k) =
      ({ ty := .object, onField := false, emitEnd := false } :: s,
        (if e then [.close] else []) ++ [elemEv k]) := by
  cases e <;> simp [stepTok, onTok, isEmitEnd, isOnField, setEmitEnd, setOnField, tokenValue]

/-! ### the refinement, by mutual structural recursion -/

mutual
theorem run_value (v : JVal) (st : Stack) (h : Ready st) :
    runNF st (tokensOf v) = (afterVal st, eventsOf v) :=
  match v with
  | .null => by
    simp only [tokensOf, eventsOf, runNF_single]; exact step_scalar st h .null rfl
  | .bool b => by
    simp only [tokensOf, eventsOf, runNF_single]; exact step_scalar st h (.bool b) rfl
  | .num n => by
    simp only [tokensOf, eventsOf, runNF_single]; exact step_scalar st h (.num n) rfl
  | .str s => by
    simp only [tokensOf, eventsOf, runNF_single]; exact step_scalar st h (.str s) rfl
  | .arr items => by
    simp only [tokensOf, eventsOf, runNF_cons, step_lbrack st h, runNF_append,
      run_list items (below st), step_rbrack, closeInto_below st h]
    rfl
  | .obj ms => by
    simp only [tokensOf, eventsOf, runNF_cons, step_lbrace st h, run_members ms (below st) false,
      closeInto_below st h]
    simp
theorem run_list (l : JList) (s : Stack) :
    runNF ({ ty := .array } :: s) (tokensOfList l) = ({ ty := .array } :: s, eventsOfList l) :=
  match l with
  | .nil => by simp [tokensOfList, eventsOfList, runNF]
  | .cons v t => by
    simp only [tokensOfList, eventsOfList, runNF_append, run_value v _ (ready_arr s), afterVal_arr,
      run_list t s]
theorem run_members (ms : JMembers) (s : Stack) (e : Bool) :
    runNF ({ ty := .object, onField := true, emitEnd := e } :: s) (tokensOfMembers ms ++ [.rbrace]) =
      (closeInto s, (if e then [.close] else []) ++ (eventsOfMembers ms ++ [.close])) :=
  match ms with
  | .nil => by simp only [tokensOfMembers, eventsOfMembers, List.nil_append, runNF_single, step_rbrace]
  | .cons k v t => by
    simp only [tokensOfMembers, eventsOfMembers, List.cons_append, List.append_assoc, runNF_cons,
      step_key, runNF_append, run_value v _ (ready_obj s), afterVal_obj, run_members t s true]
    simp
end

theorem runNF_values (vs : List JVal) :
    runNF [] (vs.flatMap tokensOf) = ([], vs.flatMap eventsOf) := by
  induction vs with
  | nil => rfl
  | cons v vs ih =>
    simp only [List.flatMap_cons, runNF_append, run_value v [] ready_nil, afterVal_nil, ih]

/-- **json_refines** -/
theorem json_refines (vs : List JVal) :
    adapter (vs.flatMap tokensOf) = some (vs.flatMap eventsOf) := by
  simp [adapter, run_eq, runNF_values, flush, isEmitEnd]

/-! ### truncated input: the stack depth -/

/-- the effect of one token on the depth of the stack -/
def delta (n : Nat) : Tok → Nat
  | .lbrace | .lbrack => n + 1
  | .rbrace | .rbrack => n - 1
  | _ => n

/-- the depth of the stack after a token list -/
def depth : Nat → List Tok → Nat
  | n, [] => n
  | n, t :: ts => depth (delta n t) ts

theorem length_setOnField (b : Bool) (st : Stack) : (setOnField b st).length = st.length := by
  cases st <;> rfl

theorem length_setEmitEnd (b : Bool) (st : Stack) : (setEmitEnd b st).length = st.length := by
  cases st <;> rfl

theorem length_onTok (st : Stack) (t : Tok) : (onTok st t).1.length = delta st.length t := by
  cases t <;> simp only [onTok, delta]
  case lbrace | lbrack => split <;> simp [length_setOnField]
  case rbrace | rbrack => split <;> simp [length_setEmitEnd]
  all_goals
    split
    · split <;> simp [length_setOnField, length_setEmitEnd]
    · rfl

theorem length_stepTok (st : Stack) (t : Tok) : (stepTok st t).1.length = delta st.length t := by
  simp only [stepTok]
  split
  · simp [length_onTok, length_setEmitEnd]
  · simp [length_onTok]

theorem length_runNF (st : Stack) (ts : List Tok) : (runNF st ts).1.length = depth st.length ts := by
  induction ts generalizing st with
  | nil => rfl
  | cons t ts ih => simp only [runNF, depth, ih, length_stepTok]

theorem length_flush (st : Stack) : (flush st).1.length = st.length := by
  simp only [flush]; split <;> simp [length_setEmitEnd]

theorem depth_append (n : Nat) (ts us : List Tok) : depth n (ts ++ us) = depth (depth n ts) us := by
  induction ts generalizing n with
  | nil => rfl
  | cons t ts ih => simp only [List.cons_append, depth, ih]

theorem prefix_append_cases {α : Type} {p a b : List α} (h : p <+: a ++ b) :
    p <+: a ∨ ∃ q, p = a ++ q ∧ q <+: b := by
  rcases List.prefix_or_prefix_of_prefix h (List.prefix_append a b) with h1 | ⟨q, rfl⟩
  · exact Or.inl h1
  · exact Or.inr ⟨q, rfl, (List.prefix_append_right_inj a).1 h⟩

mutual
theorem depth_value (v : JVal) (n : Nat) : depth n (tokensOf v) = n :=
  match v with
  | .null | .bool _ | .num _ | .str _ => by simp [tokensOf, depth, delta]
  | .arr items => by
    simp [tokensOf, depth, delta, depth_append, depth_list items]
  | .obj ms => by
    simp [tokensOf, depth, delta, depth_append, depth_members ms]
theorem depth_list (l : JList) (n : Nat) : depth n (tokensOfList l) = n :=
  match l with
  | .nil => rfl
  | .cons v t => by simp [tokensOfList, depth_append, depth_value v, depth_list t]
theorem depth_members (ms : JMembers) (n : Nat) : depth n (tokensOfMembers ms) = n :=
  match ms with
  | .nil => rfl
  | .cons k v t => by
    simp [tokensOfMembers, depth, delta, depth_append, depth_value v, depth_members t]
end

mutual
/-- inside a value the stack is never shallower than at its start, and strictly deeper strictly
    inside -/
theorem depth_value_prefix (v : JVal) (n : Nat) (p : List Tok) (hp : p <+: tokensOf v) :
    n ≤ depth n p ∧ (p ≠ [] → p ≠ tokensOf v → n < depth n p) :=
  match v with
  | .null | .bool _ | .num _ | .str _ => by
    simp only [tokensOf, List.prefix_cons_iff, List.prefix_nil] at hp
    rcases hp with rfl | ⟨t, rfl, rfl⟩ <;> simp [tokensOf, depth, delta]
  | .arr items => by
    simp only [tokensOf, List.prefix_cons_iff] at hp
    rcases hp with rfl | ⟨t, rfl, ht⟩
    · simp [depth]
    · rcases List.prefix_concat_iff.1 ht with rfl | ht
      · simp [tokensOf, depth, delta, depth_append, depth_list items]
      · have := depth_list_prefix items (n + 1) t ht
        simp only [depth, delta]
        exact ⟨by omega, fun _ _ => by omega⟩
  | .obj ms => by
    simp only [tokensOf, List.prefix_cons_iff] at hp
    rcases hp with rfl | ⟨t, rfl, ht⟩
    · simp [depth]
    · rcases List.prefix_concat_iff.1 ht with rfl | ht
      · simp [tokensOf, depth, delta, depth_append, depth_members ms]
      · have := depth_members_prefix ms (n + 1) t ht
        simp only [depth, delta]
        exact ⟨by omega, fun _ _ => by omega⟩
theorem depth_list_prefix (l : JList) (n : Nat) (p : List Tok) (hp : p <+: tokensOfList l) :
    n ≤ depth n p :=
  match l with
  | .nil => by
    simp only [tokensOfList, List.prefix_nil] at hp; subst hp; exact Nat.le_refl _
  | .cons v t => by
    simp only [tokensOfList] at hp
    rcases prefix_append_cases hp with h1 | ⟨q, rfl, hq⟩
    · exact (depth_value_prefix v n p h1).1
    · rw [depth_append, depth_value]; exact depth_list_prefix t n q hq
theorem depth_members_prefix (ms : JMembers) (n : Nat) (p : List Tok)
    (hp : p <+: tokensOfMembers ms) : n ≤ depth n p :=
  match ms with
  | .nil => by
    simp only [tokensOfMembers, List.prefix_nil] at hp; subst hp; exact Nat.le_refl _
  | .cons k v t => by
    simp only [tokensOfMembers, List.prefix_cons_iff] at hp
    rcases hp with rfl | ⟨p', rfl, hp'⟩
    · exact Nat.le_refl _
    · simp only [depth, delta]
      rcases prefix_append_cases hp' with h1 | ⟨q, rfl, hq⟩
      · exact (depth_value_prefix v n p' h1).1
      · rw [depth_append, depth_value]; exact depth_members_prefix t n q hq
end

/-- the stack left by complete top-level values followed by a part of a further value is as deep as
    that part is nested -/
theorem length_run_values_prefix (vs : List JVal) (p : List Tok) :
    (run [] (vs.flatMap tokensOf ++ p)).1.length = depth 0 p := by
  simp [run_eq, length_flush, runNF_append, runNF_values, length_runNF]

/-- **json_truncated_errors** — complete values followed by a proper non-empty prefix of the
    tokens of a further value (necessarily an array or an object: a scalar is a single token and has
    no such prefix): the input ends inside a container and `ReadJson` reports an error -/
theorem json_truncated_errors (vs : List JVal) (v : JVal) (p : List Tok)
    (hp : p <+: tokensOf v) (hne : p ≠ []) (hproper : p ≠ tokensOf v) :
    adapter (vs.flatMap tokensOf ++ p) = none := by
  have h1 := length_run_values_prefix vs p
  have h2 := (depth_value_prefix v 0 p hp).2 hne hproper
  simp only [adapter]
  cases h : (run [] (vs.flatMap tokensOf ++ p)).1 with
  | nil => rw [h] at h1; simp at h1; omega
  | cons f r => simp

/-! ### siblings are never merged: one text event per scalar leaf, in document order -/

mutual
/-- the string forms of the scalar leaves of a JSON value, in document order -/
def leafVals : JVal → List Chars
  | .null => ["null".toList]
  | .bool b => [if b then "true".toList else "false".toList]
  | .num n => [numToStrG n]
  | .str s => [s]
  | .arr items => leafValsList items
  | .obj ms => leafValsMembers ms
def leafValsList : JList → List Chars
  | .nil => []
  | .cons v t => leafVals v ++ leafValsList t
def leafValsMembers : JMembers → List Chars
  | .nil => []
  | .cons _ v t => leafVals v ++ leafValsMembers t
end

mutual
/-- the number of scalar leaves of a JSON value -/
def leaves : JVal → Nat
  | .null | .bool _ | .num _ | .str _ => 1
  | .arr items => leavesList items
  | .obj ms => leavesMembers ms
def leavesList : JList → Nat
  | .nil => 0
  | .cons v t => leaves v + leavesList t
def leavesMembers : JMembers → Nat
  | .nil => 0
  | .cons _ v t => leaves v + leavesMembers t
end

/-- the text events of an event list -/
def texts : List Ev → List Chars
  | [] => []
  | .text v :: es => v :: texts es
  | _ :: es => texts es

def Ev.isText : Ev → Bool
  | .text _ => true
  | _ => false

theorem texts_append (xs ys : List Ev) : texts (xs ++ ys) = texts xs ++ texts ys := by
  induction xs with
  | nil => rfl
  | cons e xs ih => cases e <;> simp [texts, ih]

theorem texts_length (xs : List Ev) : (texts xs).length = xs.countP Ev.isText := by
  induction xs with
  | nil => rfl
  | cons e xs ih => cases e <;> simp [texts, ih, Ev.isText, List.countP_cons]

mutual
theorem texts_eventsOf (v : JVal) : texts (eventsOf v) = leafVals v :=
  match v with
  | .null | .bool _ | .num _ | .str _ => by simp [eventsOf, leafVals, texts]
  | .arr items => by
    simp [eventsOf, leafVals, texts, elemEv, texts_append, texts_eventsOfList items]
  | .obj ms => by
    simp [eventsOf, leafVals, texts, elemEv, texts_append, texts_eventsOfMembers ms]
theorem texts_eventsOfList (l : JList) : texts (eventsOfList l) = leafValsList l :=
  match l with
  | .nil => rfl
  | .cons v t => by
    simp [eventsOfList, leafValsList, texts_append, texts_eventsOf v, texts_eventsOfList t]
theorem texts_eventsOfMembers (ms : JMembers) : texts (eventsOfMembers ms) = leafValsMembers ms :=
  match ms with
  | .nil => rfl
  | .cons k v t => by
    simp [eventsOfMembers, leafValsMembers, texts, elemEv, texts_append, texts_eventsOf v,
      texts_eventsOfMembers t]
end

mutual
theorem length_leafVals (v : JVal) : (leafVals v).length = leaves v :=
  match v with
  | .null | .bool _ | .num _ | .str _ => by simp [leafVals, leaves]
  | .arr items => by simp [leafVals, leaves, length_leafValsList items]
  | .obj ms => by simp [leafVals, leaves, length_leafValsMembers ms]
theorem length_leafValsList (l : JList) : (leafValsList l).length = leavesList l :=
  match l with
  | .nil => rfl
  | .cons v t => by simp [leafValsList, leavesList, length_leafVals v, length_leafValsList t]
theorem length_leafValsMembers (ms : JMembers) : (leafValsMembers ms).length = leavesMembers ms :=
  match ms with
  | .nil => rfl
  | .cons k v t => by
    simp [leafValsMembers, leavesMembers, length_leafVals v, length_leafValsMembers t]
end

/-- **json_siblings_never_merged** — as many text events as scalar leaves -/
theorem json_siblings_never_merged (v : JVal) : (eventsOf v).countP Ev.isText = leaves v := by
  rw [← texts_length, texts_eventsOf, length_leafVals]

end Xsel.Json
