/-
  Proofs/Lemmas/WalkPaths.lean — `walk` at the path nodes of a derivation tree: relative and absolute
  location paths, a path continued after a filter expression, `RelativeLocationPathWithStep`.
-/
import Proofs.Lemmas.WalkCalls

namespace Xsel.Walk
open Xsel Xsel.Syntax

/-- the context a path starts from -/
def startOf (h : Head) (w : WCtx) : R :=
  match h with
  | .rel => .ok w
  | .abs => .ok (w.set (.nodes [0]))
  | .filt f => walk tbl f w

def Head.ok : Head → Bool
  | .filt f => f.isNt
  | _ => true

theorem walk_pathNode (h : Head) (r : PT) (w : WCtx) (hr : r.isNt = true) (hh : h.ok = true) :
    walk tbl (pathNode h r) w = (startOf h w >>= walk tbl r) := by
  cases h with
  | rel =>
    simp only [pathNode, N, ofList_cons, ofList_nil]
    rw [walk_nohandler _ _ _ _ lk_PathExpr, walkFirst_nt, walk_nohandler _ _ _ _ lk_LocationPath,
      walkFirst_cons_nt _ _ _ _ hr]
    rfl
  | abs =>
    simp only [pathNode, N, ofList_cons, ofList_nil]
    rw [walk_nohandler _ _ _ _ lk_PathExpr, walkFirst_nt, walk_nohandler _ _ _ _ lk_LocationPath, walkFirst_nt,
      walk_nohandler _ _ _ _ lk_AbsoluteLocationPath, walkFirst_nt, walk]
    simp only [lk_AbsoluteLocationPathWithRelative, walkFirst_tkp, walkFirst_cons_nt _ _ _ _ hr]
    rfl
  | filt f =>
    simp only [pathNode, N, ofList_cons, ofList_nil]
    have hf : f.isNt = true := hh
    rw [walk_nohandler _ _ _ _ lk_PathExpr, walkFirst_nt, walk]
    simp only [lk_PathExprFilterWithPath]
    rw [walkNth_cons_nt0 _ _ _ _ hf]
    simp only [walkNth_one _ _ _ _ hf, walkNth_tkp, walkNth_cons_nt0 _ _ _ _ hr]
    rfl

theorem walk_rlp1 (s : PT) (w : WCtx) (hs : s.isNt = true) :
    walk tbl (N "RelativeLocationPath" [s]) w = walk tbl s w :=
  walk_unit _ _ _ _ lk_RelativeLocationPath hs

theorem walk_rlp2 (r s : PT) (w : WCtx) (hr : r.isNt = true) (hs : s.isNt = true) :
    walk tbl (N "RelativeLocationPath" [N "RelativeLocationPathWithStep" [r, tkp .slash, s]]) w =
      (walk tbl r w >>= walk tbl s) := by
  simp only [N, ofList_cons, ofList_nil]
  rw [walk_nohandler _ _ _ _ lk_RelativeLocationPath, walkFirst_nt, walk]
  simp only [lk_RelativeLocationPathWithStep]
  rw [walkNth_cons_nt0 _ _ _ _ hr]
  simp only [walkNth_one _ _ _ _ hr, walkNth_tkp, walkNth_cons_nt0 _ _ _ _ hs]

theorem relWith_other (b : Expr) (relB : Head × PT) (natB s : PT) (h1 : b ≠ .ctx) (h2 : b ≠ .root) :
    relWith b relB natB s =
      if isPathLike b then
        (relB.1, N "RelativeLocationPath" [N "RelativeLocationPathWithStep" [relB.2, tkp .slash, s]])
      else (.filt (wrapAt 9 (level b) natB), N "RelativeLocationPath" [s]) := by
  cases b <;> first | exact absurd rfl h1 | exact absurd rfl h2 | rfl

theorem normBase_eq (b : Expr) (h : b ≠ .ctx) : normBase b = normCtx b := by
  cases b <;> first | exact absurd rfl h | rfl | simp [normBase, normCtx]

end Xsel.Walk
