/-
  Proofs/Lemmas/EvalEquiv.lean — equivalence of values "up to the order in which a node-set is
  listed", and the congruence of the conversions, the comparison operators and the function
  library with respect to it.
-/
import Xsel.Eval
import Proofs.Lemmas.Cleanup
import Proofs.Lemmas.TreeRefine
import Proofs.C05

namespace Xsel
open Arena

/-! ## relations on results -/

/-- two computations agree: both succeed with related values, or both fail
    (the error codes need not agree) -/
def ExRel {α β : Type} (R : α → β → Prop) : Except Err α → Except Err β → Prop
  | .ok u, .ok v => R u v
  | .error _, .error _ => True
  | _, _ => False

/-- the same value up to the order in which a node-set is listed -/
inductive Val.Equiv : Val → Val → Prop
  | nodes {l m : List Nat} : l.Perm m → Val.Equiv (.nodes l) (.nodes m)
  | refl (v : Val) : Val.Equiv v v

inductive Vals.Equiv : List Val → List Val → Prop
  | nil : Vals.Equiv [] []
  | cons {v w : Val} {vs ws : List Val} : Val.Equiv v w → Vals.Equiv vs ws → Vals.Equiv (v :: vs) (w :: ws)

abbrev Res.Equiv : Except Err Val → Except Err Val → Prop := ExRel Val.Equiv

structure Ctx.Equiv (c c' : Ctx) : Prop where
  a : c.a = c'.a
  env : c.env = c'.env
  pos : c.pos = c'.pos
  size : c.size = c'.size
  result : Val.Equiv c.result c'.result

/-- node-sets list cells of the arena, each once -/
def Val.Ok (a : Arena) : Val → Prop
  | .nodes l => (∀ x ∈ l, x < a.size) ∧ l.Nodup
  | _ => True

/-- a node-set listed in ascending document order -/
def Val.Asc : Val → Prop
  | .nodes l => l.Pairwise (· < ·)
  | _ => True

/-- every node-set variable is a list of cells of the arena in ascending document order -/
def EnvOk (a : Arena) (env : Env) : Prop :=
  ∀ p ∈ env.vars, Val.Ok a p.2 ∧ Val.Asc p.2

/-! ### basic facts -/

theorem nodup_of_lt {l : List Nat} (h : l.Pairwise (· < ·)) : l.Nodup :=
  h.imp (fun hab => Nat.ne_of_lt hab)

theorem nodup_of_gt {l : List Nat} (h : l.Pairwise (· > ·)) : l.Nodup :=
  h.imp (fun hab => Nat.ne_of_gt hab)

namespace ExRel
variable {α β γ δ : Type}

theorem ok_ok {R : α → β → Prop} {u : α} {v : β} (h : R u v) : ExRel R (.ok u) (.ok v) := h

theorem pure_pure {R : α → β → Prop} {u : α} {v : β} (h : R u v) :
    ExRel R (pure u : Except Err α) (pure v : Except Err β) := h

theorem err_err {R : α → β → Prop} (e e' : Err) : ExRel R (.error e) (.error e') := True.intro

theorem throw_throw {R : α → β → Prop} (e e' : Err) :
    ExRel R (throw e : Except Err α) (throw e' : Except Err β) := True.intro

theorem bind {R : α → β → Prop} {S : γ → δ → Prop} {x : Except Err α} {y : Except Err β}
    {f : α → Except Err γ} {g : β → Except Err δ} (h : ExRel R x y)
    (hf : ∀ u v, x = .ok u → y = .ok v → R u v → ExRel S (f u) (g v)) :
    ExRel S (x >>= f) (y >>= g) := by
  cases x <;> cases y <;> simp only [ExRel] at h
  · exact True.intro
  · exact hf _ _ rfl rfl h

theorem refl {R : α → α → Prop} (hr : ∀ u, R u u) (x : Except Err α) : ExRel R x x := by
  cases x
  · exact True.intro
  · exact hr _

theorem mono {R S : α → β → Prop} (hrs : ∀ u v, R u v → S u v) {x : Except Err α}
    {y : Except Err β} (h : ExRel R x y) : ExRel S x y := by
  cases x <;> cases y <;> simp only [ExRel] at h ⊢
  exact hrs _ _ h

theorem trans {R : α → β → Prop} {S : β → γ → Prop} {T : α → γ → Prop}
    (hrs : ∀ u v w, R u v → S v w → T u w) {x : Except Err α} {y : Except Err β}
    {z : Except Err γ} (h1 : ExRel R x y) (h2 : ExRel S y z) : ExRel T x z := by
  cases x <;> cases y <;> cases z <;> simp only [ExRel] at h1 h2 ⊢
  exact hrs _ _ _ h1 h2

theorem of_eq {R : α → α → Prop} (hr : ∀ u, R u u) {x y : Except Err α} (h : x = y) :
    ExRel R x y := h ▸ refl hr x

/-- both succeed, or both fail -/
theorem ok_left {R : α → β → Prop} {x : Except Err α} {y : Except Err β} (h : ExRel R x y)
    {u : α} (hx : x = .ok u) : ∃ v, y = .ok v ∧ R u v := by
  subst hx
  cases y
  · simp only [ExRel] at h
  · exact ⟨_, rfl, h⟩

theorem ok_right {R : α → β → Prop} {x : Except Err α} {y : Except Err β} (h : ExRel R x y)
    {v : β} (hy : y = .ok v) : ∃ u, x = .ok u ∧ R u v := by
  subst hy
  cases x
  · simp only [ExRel] at h
  · exact ⟨_, rfl, h⟩

end ExRel

namespace Val.Equiv

theorem symm {v w : Val} (h : Val.Equiv v w) : Val.Equiv w v := by
  cases h with
  | nodes hp => exact .nodes hp.symm
  | refl => exact .refl _

theorem trans {u v w : Val} (h1 : Val.Equiv u v) (h2 : Val.Equiv v w) : Val.Equiv u w := by
  cases h1 with
  | refl => exact h2
  | nodes hp =>
    cases h2 with
    | refl => exact .nodes hp
    | nodes hq => exact .nodes (hp.trans hq)

theorem nodes_left {l : List Nat} {w : Val} (h : Val.Equiv (.nodes l) w) :
    ∃ m, w = .nodes m ∧ l.Perm m := by
  cases h with
  | refl => exact ⟨l, rfl, List.Perm.refl _⟩
  | nodes hp => exact ⟨_, rfl, hp⟩

theorem nodes_right {l : List Nat} {v : Val} (h : Val.Equiv v (.nodes l)) :
    ∃ m, v = .nodes m ∧ m.Perm l := by
  obtain ⟨m, e, hp⟩ := nodes_left h.symm
  exact ⟨m, e, hp.symm⟩

/-- equivalent values that are both ascending are equal -/
theorem eq_of_asc {v w : Val} (h : Val.Equiv v w) (hv : Val.Asc v) (hw : Val.Asc w) : v = w := by
  cases h with
  | refl => rfl
  | nodes hp => exact congrArg Val.nodes (strict_ext hv hw (fun x => hp.mem_iff))

theorem ok {a : Arena} {v w : Val} (h : Val.Equiv v w) (hv : Val.Ok a v) : Val.Ok a w := by
  cases h with
  | refl => exact hv
  | nodes hp =>
    exact ⟨fun x hx => hv.1 x (hp.mem_iff.mpr hx), hp.nodup_iff.mp hv.2⟩

end Val.Equiv

theorem Val.Asc.single (n : Nat) : Val.Asc (.nodes [n]) := by simp [Val.Asc]

theorem Val.Ok.single {a : Arena} {n : Nat} (h : n < a.size) : Val.Ok a (.nodes [n]) := by
  simp [Val.Ok, h]

theorem Val.Ok.of_asc {a : Arena} {l : List Nat} (hr : ∀ x ∈ l, x < a.size)
    (h : l.Pairwise (· < ·)) : Val.Ok a (.nodes l) := ⟨hr, nodup_of_lt h⟩

namespace Vals.Equiv

theorem refl : ∀ (vs : List Val), Vals.Equiv vs vs
  | [] => .nil
  | v :: vs => .cons (.refl v) (refl vs)

/-- the shapes the function library distinguishes -/
theorem shape {vs ws : List Val} (h : Vals.Equiv vs ws) :
    (vs = [] ∧ ws = [])
    ∨ (∃ v w, vs = [v] ∧ ws = [w] ∧ Val.Equiv v w)
    ∨ (∃ v1 w1 v2 w2, vs = [v1, v2] ∧ ws = [w1, w2] ∧ Val.Equiv v1 w1 ∧ Val.Equiv v2 w2)
    ∨ (∃ v1 w1 v2 w2 v3 w3, vs = [v1, v2, v3] ∧ ws = [w1, w2, w3]
        ∧ Val.Equiv v1 w1 ∧ Val.Equiv v2 w2 ∧ Val.Equiv v3 w3)
    ∨ (∃ v1 v2 v3 v4 r w1 w2 w3 w4 r', vs = v1 :: v2 :: v3 :: v4 :: r
        ∧ ws = w1 :: w2 :: w3 :: w4 :: r') := by
  cases h with
  | nil => exact .inl ⟨rfl, rfl⟩
  | cons h1 t1 =>
    cases t1 with
    | nil => exact .inr (.inl ⟨_, _, rfl, rfl, h1⟩)
    | cons h2 t2 =>
      cases t2 with
      | nil => exact .inr (.inr (.inl ⟨_, _, _, _, rfl, rfl, h1, h2⟩))
      | cons h3 t3 =>
        cases t3 with
        | nil => exact .inr (.inr (.inr (.inl ⟨_, _, _, _, _, _, rfl, rfl, h1, h2, h3⟩)))
        | cons h4 t4 => exact .inr (.inr (.inr (.inr ⟨_, _, _, _, _, _, _, _, _, _, rfl, rfl⟩)))

theorem length_eq {vs ws : List Val} (h : Vals.Equiv vs ws) : vs.length = ws.length := by
  induction h with
  | nil => rfl
  | cons _ _ ih => simp [ih]

end Vals.Equiv

/-! ## the first node in document order -/

namespace Model

theorem foldl_min_le_init (l : List Nat) (m : Nat) :
    l.foldl (fun m y => if y < m then y else m) m ≤ m := by
  induction l generalizing m with
  | nil => exact Nat.le_refl _
  | cons y t ih =>
    simp only [List.foldl_cons]
    split
    · exact Nat.le_trans (ih y) (by omega)
    · exact ih m

theorem foldl_min_le_mem (l : List Nat) (m : Nat) {y : Nat} (hy : y ∈ l) :
    l.foldl (fun m y => if y < m then y else m) m ≤ y := by
  induction l generalizing m with
  | nil => cases hy
  | cons z t ih =>
    simp only [List.foldl_cons]
    rcases List.mem_cons.mp hy with rfl | hy'
    · split
      · exact foldl_min_le_init t y
      · exact Nat.le_trans (foldl_min_le_init t m) (by omega)
    · exact ih _ hy'

theorem foldl_min_mem (l : List Nat) (m : Nat) :
    l.foldl (fun m y => if y < m then y else m) m = m
    ∨ l.foldl (fun m y => if y < m then y else m) m ∈ l := by
  induction l generalizing m with
  | nil => exact .inl rfl
  | cons z t ih =>
    simp only [List.foldl_cons]
    split
    · rcases ih z with e | e
      · exact .inr (by rw [e]; exact List.mem_cons_self)
      · exact .inr (List.mem_cons_of_mem _ e)
    · rcases ih m with e | e
      · exact .inl e
      · exact .inr (List.mem_cons_of_mem _ e)

theorem firstDoc_spec {l : List Nat} {m : Nat} (h : firstDoc l = some m) :
    m ∈ l ∧ ∀ y ∈ l, m ≤ y := by
  cases l with
  | nil => simp [firstDoc] at h
  | cons x xs =>
    simp only [firstDoc, Option.some.injEq] at h
    subst h
    constructor
    · rcases foldl_min_mem xs x with e | e
      · rw [e]; exact List.mem_cons_self
      · exact List.mem_cons_of_mem _ e
    · intro y hy
      rcases List.mem_cons.mp hy with rfl | hy'
      · exact foldl_min_le_init xs y
      · exact foldl_min_le_mem xs x hy'

theorem firstDoc_perm {l l' : List Nat} (hp : l.Perm l') : firstDoc l = firstDoc l' := by
  cases h : firstDoc l with
  | none =>
    cases l with
    | nil => rw [← hp.nil_eq]; rfl
    | cons x xs => simp [firstDoc] at h
  | some m =>
    cases h' : firstDoc l' with
    | none =>
      cases l' with
      | nil => rw [hp.eq_nil] at h; simp [firstDoc] at h
      | cons x xs => simp [firstDoc] at h'
    | some m' =>
      have s := firstDoc_spec h
      have s' := firstDoc_spec h'
      have h1 := s.2 m' (hp.mem_iff.mpr s'.1)
      have h2 := s'.2 m (hp.mem_iff.mp s.1)
      exact congrArg some (by omega)

theorem firstDoc_single (n : Nat) : firstDoc [n] = some n := rfl

end Model

/-! ## the conversions respect the equivalence -/

theorem toStr_congr (sv : Nat → Chars) {v w : Val} (h : Val.Equiv v w) :
    Model.toStr sv v = Model.toStr sv w := by
  cases h with
  | refl => rfl
  | nodes hp => simp [Model.toStr, Model.firstDoc_perm hp]

theorem toNum_congr (sv : Nat → Chars) {v w : Val} (h : Val.Equiv v w) :
    Model.toNum sv v = Model.toNum sv w := by
  cases h with
  | refl => rfl
  | nodes hp => simp [Model.toNum, Model.toStr, Model.firstDoc_perm hp]

theorem toBool_congr {v w : Val} (h : Val.Equiv v w) : Model.toBool v = Model.toBool w := by
  cases h with
  | refl => rfl
  | nodes hp => simp [Model.toBool, hp.isEmpty_eq]

theorem predTruth_congr (p : Nat) {v w : Val} (h : Val.Equiv v w) :
    predTruth p v = predTruth p w := by
  cases h with
  | refl => rfl
  | nodes hp => simp [predTruth, Model.toBool, hp.isEmpty_eq]

theorem nameOf_congr (a : Arena) (k : NameKind) {l l' : List Nat} (hp : l.Perm l') :
    nameOf a k l = nameOf a k l' := by
  simp [nameOf, Model.firstDoc_perm hp]

/-! ## comparisons -/

theorem spec_compare_congr_left (sv : Nat → Chars) (op : CmpOp) {x x' : Val} (y : Val)
    (h : Val.Equiv x x') : Spec.compare sv op x y = Spec.compare sv op x' y := by
  cases h with
  | refl => rfl
  | nodes hp => cases y <;> simp [Spec.compare, hp.any_eq, hp.isEmpty_eq]

theorem spec_compare_congr_right (sv : Nat → Chars) (op : CmpOp) (x : Val) {y y' : Val}
    (h : Val.Equiv y y') : Spec.compare sv op x y = Spec.compare sv op x y' := by
  cases h with
  | refl => rfl
  | nodes hp => cases x <;> simp [Spec.compare, hp.any_eq, hp.isEmpty_eq]

theorem spec_compare_congr (sv : Nat → Chars) (op : CmpOp) {x x' y y' : Val}
    (hx : Val.Equiv x x') (hy : Val.Equiv y y') :
    Spec.compare sv op x y = Spec.compare sv op x' y' :=
  (spec_compare_congr_left sv op y hx).trans (spec_compare_congr_right sv op x' hy)

/-- the code's comparison cascade on one listing of the operands is §3.4 on any other listing -/
theorem compare_congr (sv : Nat → Chars) (op : CmpOp) {x x' y y' : Val}
    (hx : Val.Equiv x x') (hy : Val.Equiv y y') :
    Model.compare sv op x y = Spec.compare sv op x' y' :=
  (C05.compare_refines sv op x y).trans (spec_compare_congr sv op hx hy)

/-! ## string-values -/

/-- outside the arena both string-value functions return the empty string; with the hypothesis
    that they agree inside, they are the same function -/
theorem strval_eq {a : Arena} (h : wfb a = true)
    (hsv : ∀ i, i < a.size → Model.strval a i = Spec.strval a i) :
    Model.strval a = Spec.strval a := by
  funext i
  by_cases hi : i < a.size
  · exact hsv i hi
  · have hi' : a.size ≤ i := Nat.not_lt.mp hi
    have hs := Tree.size_pos h
    have e1 : Model.strval a i = [] := by
      obtain ⟨n, hn⟩ : ∃ n, a.size = n + 1 := ⟨a.size - 1, by omega⟩
      simp [Model.strval, Tree.kind_oob hi', hn, Model.elemStr, Tree.kids_oob hi']
    have e2 : Spec.strval a i = [] := by
      simp only [Spec.strval, Tree.kind_oob hi']
      have : (Spec.allNodes a).filter (fun j => a.kind j == .text && Spec.anc a i j) = [] := by
        apply List.filter_eq_nil_iff.mpr
        intro j _ hj
        simp only [Bool.and_eq_true] at hj
        have := Tree.anc_lt_size h hj.2
        omega
      rw [this]; rfl
    rw [e1, e2]

end Xsel
