/-
  Proofs/Lemmas/EvalFuncs.lean — the function library respects the equivalence of values
  "up to the listing order of node-sets".
-/
import Proofs.Lemmas.EvalEquiv

namespace Xsel
open Arena

def OptRel {α β : Type} (R : α → β → Prop) : Option α → Option β → Prop
  | some x, some y => R x y
  | none, none => True
  | _, _ => False

@[simp] theorem exRel_ok_ok {α β : Type} (R : α → β → Prop) (u : α) (v : β) :
    ExRel R (.ok u) (.ok v) ↔ R u v := Iff.rfl
@[simp] theorem exRel_err_err {α β : Type} (R : α → β → Prop) (e e' : Err) :
    ExRel R (.error e : Except Err α) (.error e' : Except Err β) ↔ True := Iff.rfl
@[simp] theorem exRel_ok_err {α β : Type} (R : α → β → Prop) (u : α) (e' : Err) :
    ExRel R (.ok u : Except Err α) (.error e' : Except Err β) ↔ False := Iff.rfl
@[simp] theorem exRel_err_ok {α β : Type} (R : α → β → Prop) (e : Err) (v : β) :
    ExRel R (.error e : Except Err α) (.ok v : Except Err β) ↔ False := Iff.rfl

@[simp] theorem equiv_num (x y : Num) : Val.Equiv (.num x) (.num y) ↔ x = y := by
  constructor
  · intro h; cases h; rfl
  · rintro rfl; exact .refl _
@[simp] theorem equiv_str (x y : Chars) : Val.Equiv (.str x) (.str y) ↔ x = y := by
  constructor
  · intro h; cases h; rfl
  · rintro rfl; exact .refl _
@[simp] theorem equiv_bool (x y : Bool) : Val.Equiv (.bool x) (.bool y) ↔ x = y := by
  constructor
  · intro h; cases h; rfl
  · rintro rfl; exact .refl _
@[simp] theorem equiv_nodes (x y : List Nat) : Val.Equiv (.nodes x) (.nodes y) ↔ x.Perm y := by
  constructor
  · intro h; cases h with
    | nodes hp => exact hp
    | refl => exact List.Perm.refl _
  · exact .nodes

theorem OptRel.refl_res (x : Option (Except Err Val)) : OptRel Res.Equiv x x := by
  cases x with
  | none => exact True.intro
  | some r => exact ExRel.refl Val.Equiv.refl r

/-- the function library reads a `Sem` only through its string-value function and `round` -/
theorem builtin_sem_congr (sem sem' : Sem) (c : Ctx) (hsv : sem.sv c.a = sem'.sv c.a)
    (hr : sem.round = sem'.round) (name : Chars) (args : List Val) :
    builtin sem c name args = builtin sem' c name args := by
  unfold builtin
  rw [hsv, hr]

theorem userFn_sem_congr (sem sem' : Sem) (c : Ctx) (hsv : sem.sv c.a = sem'.sv c.a)
    (f : UserFn) (args : List Val) :
    userFn sem c f args = userFn sem' c f args := by
  unfold userFn
  rw [hsv]

theorem flatMap_toStr_congr (sv : Nat → Chars) {vs ws : List Val} (h : Vals.Equiv vs ws) :
    vs.flatMap (fun v => Model.toStr sv v) = ws.flatMap (fun v => Model.toStr sv v) := by
  induction h with
  | nil => rfl
  | cons h1 _ ih => simp [List.flatMap_cons, toStr_congr sv h1, ih]

theorem builtin_congr (sem : Sem) {c c' : Ctx} (hc : Ctx.Equiv c c') {vs ws : List Val}
    (hv : Vals.Equiv vs ws) (name : Chars)
    (hsum : String.ofList name = "sum" → ∀ v w, vs = [v] → ws = [w] → v = w)
    (hlang : String.ofList name = "lang" → c.result = c'.result) :
    OptRel Res.Equiv (builtin sem c name vs) (builtin sem c' name ws) := by
  obtain ⟨a, env, res, pos, size⟩ := c
  obtain ⟨a', env', res', pos', size'⟩ := c'
  obtain ⟨ha, he, hp, hs, hr⟩ := hc
  simp only at ha he hp hs hr hlang
  subst ha he hp hs
  have sr := toStr_congr (sem.sv a) hr
  have nr := toNum_congr (sem.sv a) hr
  have hcat := flatMap_toStr_congr (sem.sv a) hv
  unfold builtin
  simp only []
  split
  all_goals
    rcases hv.shape with ⟨rfl, rfl⟩ | ⟨v1, w1, rfl, rfl, h1⟩ | ⟨v1, w1, v2, w2, rfl, rfl, h1, h2⟩
      | ⟨v1, w1, v2, w2, v3, w3, rfl, rfl, h1, h2, h3⟩ | ⟨_, _, _, _, _, _, _, _, _, _, rfl, rfl⟩
  all_goals try have s1 := toStr_congr (sem.sv a) h1
  all_goals try have s2 := toStr_congr (sem.sv a) h2
  all_goals try have s3 := toStr_congr (sem.sv a) h3
  all_goals try have n1 := toNum_congr (sem.sv a) h1
  all_goals try have n2 := toNum_congr (sem.sv a) h2
  all_goals try have n3 := toNum_congr (sem.sv a) h3
  all_goals try have b1 := toBool_congr h1
  all_goals try (simp [OptRel, *]; done)
  all_goals try (
    cases h1 with
    | refl => exact OptRel.refl_res _
    | nodes hp => simp [OptRel, hp.length_eq, nameOf_congr a _ hp]; done)
  all_goals try (
    cases hr with
    | refl => exact OptRel.refl_res _
    | nodes hp => simp [OptRel, nameOf_congr a _ hp]; done)
  · obtain rfl := hlang (by assumption)
    simp only [s1]
    exact OptRel.refl_res _
  · obtain rfl := hsum (by assumption) v1 w1 rfl rfl
    exact OptRel.refl_res _

theorem userFn_congr (sem : Sem) {c c' : Ctx} (hc : Ctx.Equiv c c') {vs ws : List Val}
    (hv : Vals.Equiv vs ws) (f : UserFn) :
    Res.Equiv (userFn sem c f vs) (userFn sem c' f ws) := by
  obtain ⟨ha, he, hp, hs, hr⟩ := hc
  have sr := toStr_congr (sem.sv c'.a) hr
  have hl := hv.length_eq
  cases f <;> cases hv with
    | nil => simp [userFn, Res.Equiv, ha, hp, sr]
    | cons h1 ht =>
      have s1 := toStr_congr (sem.sv c'.a) h1
      simp [userFn, Res.Equiv, ha, hp, sr, s1, ht.length_eq, h1]

/-- the function library never returns a node-set -/
theorem builtin_not_nodes (sem : Sem) (c : Ctx) (name : Chars) (vs : List Val) (l : List Nat) :
    builtin sem c name vs ≠ some (.ok (.nodes l)) := by
  unfold builtin
  simp only []
  split <;> intro h <;> simp only [Option.some.injEq, reduceCtorEq] at h
  all_goals (repeat' split at h)
  all_goals (first | cases h | trace_state)

theorem userFn_ok (sem : Sem) (c : Ctx) (f : UserFn) {vs : List Val} {a : Arena}
    (hvs : ∀ w ∈ vs, Val.Ok a w) {v : Val} (h : userFn sem c f vs = .ok v) : Val.Ok a v := by
  cases f <;> simp only [userFn] at h
  case echo =>
    cases vs with
    | nil => cases h
    | cons w t =>
      simp only [Except.ok.injEq] at h
      subst h
      exact hvs _ List.mem_cons_self
  all_goals (cases h; first | done | exact True.intro)

end Xsel
