/-
  Proofs/Lemmas/ParseAbbrev.lean — XPath's abbreviations `@`, `..`, `//` are their expansions
  `attribute::`, `parent::node()`, `/descendant-or-self::node()/` at the level of tokens: replacing
  every abbreviation token by the tokens of its expansion does not change the tree `parseToks` finds.
-/
import Proofs.Lemmas.ParseFuel
import Proofs.Lemmas.ParseRenderBasics

set_option linter.unusedSimpArgs false

namespace Xsel.Syntax

/-! ### the expansion -/

def expandTok (t : LTok) : Toks :=
  match t.tok with
  | .p .at => [K (.axis .attribute) t.glued, P .coloncolon true]
  | .p .dotdot => [K (.axis .parent) t.glued, P .coloncolon true, K .node true, P .lparen true, P .rparen true]
  | .p .dslash => [P .slash t.glued, K (.axis .descendantOrSelf) true, P .coloncolon true, K .node true,
      P .lparen true, P .rparen true, P .slash true]
  | _ => [t]

def expand (ts : Toks) : Toks := ts.flatMap expandTok

def isAbbr : Tok → Bool
  | .p .at | .p .dotdot | .p .dslash => true
  | _ => false

/-- `Exp ts xs`: `xs` is the expansion of `ts` (the graph of `expand`, convenient for case analysis) -/
inductive Exp : Toks → Toks → Prop
  | nil : Exp [] []
  | keep (t : LTok) {r x : Toks} (h : isAbbr t.tok = false) : Exp r x → Exp (t :: r) (t :: x)
  | at (g : Bool) {r x : Toks} : Exp r x → Exp (P .at g :: r) (K (.axis .attribute) g :: P .coloncolon true :: x)
  | dotdot (g : Bool) {r x : Toks} : Exp r x →
      Exp (P .dotdot g :: r) (K (.axis .parent) g :: P .coloncolon true :: K .node true :: P .lparen true :: P .rparen true :: x)
  | dslash (g : Bool) {r x : Toks} : Exp r x →
      Exp (P .dslash g :: r) (P .slash g :: K (.axis .descendantOrSelf) true :: P .coloncolon true :: K .node true ::
        P .lparen true :: P .rparen true :: P .slash true :: x)

theorem expand_nil : expand [] = [] := rfl
theorem expand_cons (t : LTok) (r : Toks) : expand (t :: r) = expandTok t ++ expand r := by
  simp only [expand, List.flatMap_cons]

theorem expandTok_of_not {t : LTok} (h : isAbbr t.tok = false) : expandTok t = [t] := by
  obtain ⟨tok, g⟩ := t
  unfold expandTok
  split
  · rename_i heq; simp only at heq; subst heq; simp [isAbbr] at h
  · rename_i heq; simp only at heq; subst heq; simp [isAbbr] at h
  · rename_i heq; simp only at heq; subst heq; simp [isAbbr] at h
  · rfl

theorem expand_cons_of_not {t : LTok} (h : isAbbr t.tok = false) (r : Toks) : expand (t :: r) = t :: expand r := by
  rw [expand_cons, expandTok_of_not h]; rfl

theorem expand_at (g : Bool) (r : Toks) :
    expand (P .at g :: r) = K (.axis .attribute) g :: P .coloncolon true :: expand r := by
  rw [expand_cons]; rfl
theorem expand_dotdot (g : Bool) (r : Toks) :
    expand (P .dotdot g :: r) = K (.axis .parent) g :: P .coloncolon true :: K .node true :: P .lparen true ::
      P .rparen true :: expand r := by
  rw [expand_cons]; rfl
theorem expand_dslash (g : Bool) (r : Toks) :
    expand (P .dslash g :: r) = P .slash g :: K (.axis .descendantOrSelf) true :: P .coloncolon true :: K .node true ::
        P .lparen true :: P .rparen true :: P .slash true :: expand r := by
  rw [expand_cons]; rfl

theorem isAbbr_cases {t : LTok} (h : isAbbr t.tok = true) :
    (∃ g, t = P .at g) ∨ (∃ g, t = P .dotdot g) ∨ (∃ g, t = P .dslash g) := by
  obtain ⟨tok, g⟩ := t
  cases tok with
  | p x => cases x <;> simp [isAbbr] at h <;> simp [P]
  | _ => simp [isAbbr] at h

theorem exp_expand : ∀ ts : Toks, Exp ts (expand ts)
  | [] => .nil
  | t :: r => by
    cases h : isAbbr t.tok with
    | false => rw [expand_cons_of_not h]; exact .keep t h (exp_expand r)
    | true =>
      rcases isAbbr_cases h with ⟨g, rfl⟩ | ⟨g, rfl⟩ | ⟨g, rfl⟩
      · rw [expand_at]; exact .at g (exp_expand r)
      · rw [expand_dotdot]; exact .dotdot g (exp_expand r)
      · rw [expand_dslash]; exact .dslash g (exp_expand r)

theorem Exp.eq {ts xs : Toks} (h : Exp ts xs) : xs = expand ts := by
  induction h with
  | nil => rfl
  | keep t h _ ih => rw [expand_cons_of_not h, ih]
  | «at» g _ ih => rw [expand_at, ih]
  | dotdot g _ ih => rw [expand_dotdot, ih]
  | dslash g _ ih => rw [expand_dslash, ih]

theorem exp_iff {ts xs : Toks} : Exp ts xs ↔ xs = expand ts :=
  ⟨Exp.eq, fun h => h ▸ exp_expand ts⟩

/-! ### `callStart` -/

theorem callStart_nil {c : Cfg} : callStart c [] = none := rfl
theorem callStart_one {c : Cfg} {a : LTok} : callStart c [a] = none := rfl

theorem callStart_two_none {c : Cfg} {a b : LTok} {y : Toks} (h1 : b.tok ≠ .p .lparen) (h2 : b.tok ≠ .p .colon) :
    callStart c (a :: b :: y) = none := by
  unfold callStart
  split
  · rename_i heq; cases heq; exact absurd rfl h1
  · rename_i heq; cases heq; exact absurd rfl h2
  · rfl

theorem callStart_four_none {c : Cfg} {a d e : LTok} {g : Bool} {y : Toks} (h1 : e.tok ≠ .p .lparen) :
    callStart c (a :: P .colon g :: d :: e :: y) = none := by
  unfold callStart
  split
  · rename_i heq; cases heq
  · rename_i heq; cases heq; exact absurd rfl h1
  · rfl

theorem callStart_three_none {c : Cfg} {a d : LTok} {g : Bool} {y : Toks} (h1 : fnTok c d.tok = none) :
    callStart c (a :: P .colon g :: d :: y) = none := by
  unfold callStart
  split
  · rename_i heq; cases heq
  · rename_i heq; cases heq
    split
    · split <;> simp_all
    · rfl
  · rfl

theorem tok_eq_P {b : LTok} {x : Punct} (h : b.tok = .p x) : b = P x b.glued := by
  obtain ⟨t, g⟩ := b; simp only at h; subst h; rfl

theorem callStart_exp {c : Cfg} {ts xs : Toks} (he : Exp ts xs) :
    callStart c xs = (callStart c ts).map (fun R => (R.1, R.2.1, expand R.2.2)) := by
  have hcc : ∀ g, (P .coloncolon g).tok ≠ .p .lparen ∧ (P .coloncolon g).tok ≠ .p .colon := by
    intro g; simp [P]
  have hkw : ∀ k g, (K k g).tok ≠ .p .lparen ∧ (K k g).tok ≠ .p .colon := by
    intro k g; simp [K]
  have hP : ∀ x g, fnTok c (P x g).tok = none := fun _ _ => rfl
  cases he with
  | nil => rfl
  | «at» g he' =>
    rw [callStart_none_of_fnTok (hP .at g), callStart_two_none (hcc true).1 (hcc true).2]; rfl
  | dotdot g he' =>
    rw [callStart_none_of_fnTok (hP .dotdot g), callStart_two_none (hcc true).1 (hcc true).2]; rfl
  | dslash g he' =>
    rw [callStart_none_of_fnTok (hP .dslash g), callStart_none_of_fnTok (hP .slash g)]; rfl
  | keep a ha he' =>
    cases he' with
    | nil => rfl
    | «at» g he' => rw [callStart_two_none (hkw _ g).1 (hkw _ g).2, callStart_two_none (b := P .at g) (by simp [P]) (by simp [P])]; rfl
    | dotdot g he' => rw [callStart_two_none (hkw _ g).1 (hkw _ g).2, callStart_two_none (b := P .dotdot g) (by simp [P]) (by simp [P])]; rfl
    | dslash g he' => rw [callStart_two_none (b := P .slash g) (by simp [P]) (by simp [P]), callStart_two_none (b := P .dslash g) (by simp [P]) (by simp [P])]; rfl
    | keep b hb he' =>
      rename_i r x
      by_cases h1 : b.tok = .p .lparen
      · rw [tok_eq_P h1, he'.eq]
        simp only [callStart]
        split
        · split <;> simp [Option.map_map, Function.comp_def]
        · simp [Option.map_map, Function.comp_def]
      · by_cases h2 : b.tok = .p .colon
        · rw [tok_eq_P h2]
          cases he' with
          | nil => rfl
          | «at» g he' => rw [callStart_four_none (hcc true).1, callStart_three_none (hP .at g)]; rfl
          | dotdot g he' => rw [callStart_four_none (hcc true).1, callStart_three_none (hP .dotdot g)]; rfl
          | dslash g he' => rw [callStart_three_none (hP .slash g), callStart_three_none (hP .dslash g)]; rfl
          | keep d hd he' =>
            cases he' with
            | nil => rfl
            | «at» g he' => rw [callStart_four_none (hkw _ g).1, callStart_four_none (e := P .at g) (by simp [P])]; rfl
            | dotdot g he' => rw [callStart_four_none (hkw _ g).1, callStart_four_none (e := P .dotdot g) (by simp [P])]; rfl
            | dslash g he' => rw [callStart_four_none (e := P .slash g) (by simp [P]), callStart_four_none (e := P .dslash g) (by simp [P])]; rfl
            | keep e hE he' =>
              by_cases h3 : e.tok = .p .lparen
              · rw [tok_eq_P h3, he'.eq]
                simp only [callStart]
                split
                · split <;> simp
                · rfl
              · rw [callStart_four_none h3, callStart_four_none h3]; rfl
        · rw [callStart_two_none h1 h2, callStart_two_none h1 h2]; rfl

theorem callStart_expand_some {c : Cfg} {ts : Toks} {p : Option Chars} {n : Chars} {r : Toks}
    (h : callStart c ts = some (p, n, r)) : callStart c (expand ts) = some (p, n, expand r) := by
  rw [callStart_exp (exp_expand ts), h]; rfl

theorem callStart_expand_none {c : Cfg} {ts : Toks} (h : callStart c ts = none) : callStart c (expand ts) = none := by
  rw [callStart_exp (exp_expand ts), h]; rfl

/-! ### heads of expansions -/

def isExpHead : Tok → Bool
  | .kw (.axis .attribute) | .kw (.axis .parent) | .p .slash => true
  | _ => false

theorem expand_eq_nil {ts : Toks} (h : expand ts = []) : ts = [] := by
  have he := exp_expand ts
  rw [h] at he
  cases he; rfl

theorem expand_eq_cons {ts : Toks} {t : LTok} {y : Toks} (h : expand ts = t :: y) (ht : isExpHead t.tok = false) :
    ∃ r, ts = t :: r ∧ y = expand r := by
  have he := exp_expand ts
  rw [h] at he
  cases he with
  | keep _ _ he' => exact ⟨_, rfl, he'.eq⟩
  | «at» g he' => simp [isExpHead, K] at ht
  | dotdot g he' => simp [isExpHead, K] at ht
  | dslash g he' => simp [isExpHead, P] at ht

theorem expand_eq_slash {ts : Toks} {g : Bool} {y : Toks} (h : expand ts = P .slash g :: y) :
    (∃ r, ts = P .slash g :: r) ∨ (∃ r, ts = P .dslash g :: r) := by
  have he := exp_expand ts
  rw [h] at he
  cases he with
  | keep _ _ he' => exact .inl ⟨_, rfl⟩
  | dslash g he' => exact .inr ⟨_, rfl⟩

/-! ### `startsStep`, `startsPrimary` -/

theorem startsStep_exp {c : Cfg} {ts xs : Toks} (he : Exp ts xs) : startsStep c xs = startsStep c ts := by
  cases he with
  | nil => rfl
  | «at» g he' => rfl
  | dotdot g he' => rfl
  | dslash g he' => rfl
  | keep a ha he' =>
    rcases a with ⟨(x|k|s|s|⟨b,s⟩|s), g⟩
    · cases x <;> rfl
    all_goals rfl

theorem startsPrimary_dot_eq {c : Cfg} {g : Bool} {y : Toks} :
    startsPrimary c (P .dot g :: y) = match y with | ⟨.digits _, g'⟩ :: _ => gl c g' | _ => false := by
  cases y with
  | nil => rfl
  | cons b y' =>
    have hc : callStart c (P .dot g :: b :: y') = none := callStart_none_of_fnTok rfl
    rcases b with ⟨(x|k|s|s|⟨b,s⟩|s), g'⟩
    · cases x <;> simp [startsPrimary, hc]
    all_goals simp [startsPrimary, hc]

theorem startsPrimary_exp {c : Cfg} {ts xs : Toks} (he : Exp ts xs) : startsPrimary c xs = startsPrimary c ts := by
  have hcs := callStart_exp (c := c) he
  cases he with
  | nil => rfl
  | «at» g he' => simp only [P, K] at hcs ⊢; simp [startsPrimary, hcs]
  | dotdot g he' => simp only [P, K] at hcs ⊢; simp [startsPrimary, hcs]
  | dslash g he' => simp only [P, K] at hcs ⊢; simp [startsPrimary, hcs]
  | keep a ha he' =>
    rcases a with ⟨(x|k|s|s|⟨b,s⟩|s), g⟩
    · cases x
      case dot =>
        change startsPrimary c (P .dot g :: _) = startsPrimary c (P .dot g :: _)
        rw [startsPrimary_dot_eq, startsPrimary_dot_eq]
        cases he' with
        | nil => rfl
        | «at» g he' => rfl
        | dotdot g he' => rfl
        | dslash g he' => rfl
        | keep b hb he' => rcases b with ⟨(x|k|s|s|⟨b,s⟩|s), g'⟩ <;> rfl
      all_goals simp [startsPrimary, hcs]
    all_goals simp [startsPrimary, hcs]

/-! ### `number` -/

theorem number_exp {c : Cfg} {ts xs : Toks} {e : Expr} {r : Toks} (he : Exp ts xs)
    (h : number c ts = some (e, r)) : number c xs = some (e, expand r) := by
  cases he with
  | nil => simp [number] at h
  | «at» g he' => simp [number, P] at h
  | dotdot g he' => simp [number, P] at h
  | dslash g he' => simp [number, P] at h
  | keep a ha he1 =>
    rcases a with ⟨(x|k|s|s|⟨b,s⟩|s), g⟩
    · cases x
      case dot =>
        cases he1 with
        | nil => simp [number] at h
        | «at» g he' => simp [number, P] at h
        | dotdot g he' => simp [number, P] at h
        | dslash g he' => simp [number, P] at h
        | keep b hb he2 =>
          rcases b with ⟨(x|k|s|s|⟨b,s⟩|s), g'⟩
          case digits =>
            simp only [number, P] at h ⊢
            split at h
            · rename_i hg; simp only [hg, if_true]; injection h with h; injection h with h1 h2; subst h1 h2; rw [he2.eq]
            · cases h
          all_goals simp [number, P] at h
      all_goals simp [number, P] at h
    case digits =>
      cases he1 with
      | nil => simp [number] at h ⊢; obtain ⟨rfl, rfl⟩ := h; simp [expand_nil]
      | «at» g' he' =>
        simp [number, P] at h ⊢; obtain ⟨rfl, rfl⟩ := h; rw [he'.eq]; exact ⟨rfl, (expand_at _ _).symm⟩
      | dotdot g' he' =>
        simp [number, P] at h ⊢; obtain ⟨rfl, rfl⟩ := h; rw [he'.eq]; exact ⟨rfl, (expand_dotdot _ _).symm⟩
      | dslash g' he' =>
        simp [number, P] at h ⊢; obtain ⟨rfl, rfl⟩ := h; rw [he'.eq]; exact ⟨rfl, (expand_dslash _ _).symm⟩
      | keep b hb he2 =>
        rcases b with ⟨(x|k|s'|s'|⟨b,s'⟩|s'), g'⟩
        · cases x
          case dot =>
            have hd : ∀ y, expand (⟨.p .dot, g'⟩ :: y) = ⟨.p .dot, g'⟩ :: expand y := fun y => expand_cons_of_not rfl y
            cases he2 with
            | nil =>
              simp only [number, P] at h ⊢
              split at h <;> rename_i hc <;> simp only [hc] <;>
                (injection h with h; injection h with h1 h2; subst h1 h2; simp [hd, expand_nil])
            | «at» g2 he' =>
              simp only [number, P] at h ⊢
              split at h <;> rename_i hc <;> simp only [hc] <;>
                (injection h with h; injection h with h1 h2; subst h1 h2; rw [he'.eq]; simp [hd]; exact (expand_at _ _).symm)
            | dotdot g2 he' =>
              simp only [number, P] at h ⊢
              split at h <;> rename_i hc <;> simp only [hc] <;>
                (injection h with h; injection h with h1 h2; subst h1 h2; rw [he'.eq]; simp [hd]; exact (expand_dotdot _ _).symm)
            | dslash g2 he' =>
              simp only [number, P] at h ⊢
              split at h <;> rename_i hc <;> simp only [hc] <;>
                (injection h with h; injection h with h1 h2; subst h1 h2; rw [he'.eq]; simp [hd]; exact (expand_dslash _ _).symm)
            | keep b2 hb2 he3 =>
              have hb := expand_cons_of_not hb2
              rw [he3.eq]
              rcases b2 with ⟨(x|k|s2|s2|⟨b,s2⟩|s2), g2⟩
              case digits =>
                simp only [number, P] at h ⊢
                split at h
                · rename_i hc; simp only [hc, if_true]
                  injection h with h; injection h with h1 h2; subst h1 h2; rfl
                · rename_i hc; simp only [hc]
                  split at h <;> rename_i hc2 <;> simp only [hc2] <;>
                    (injection h with h; injection h with h1 h2; subst h1 h2; simp [hd, hb])
              · cases x <;> (
                  simp only [number, P] at h ⊢
                  split at h <;> rename_i hc <;> simp only [hc] <;>
                    (injection h with h; injection h with h1 h2; subst h1 h2; simp [hd, hb]))
              all_goals (
                  simp only [number, P] at h ⊢
                  split at h <;> rename_i hc <;> simp only [hc] <;>
                    (injection h with h; injection h with h1 h2; subst h1 h2; simp [hd, hb]))
          all_goals (simp [number, P] at h ⊢; obtain ⟨rfl, rfl⟩ := h; rw [he2.eq]; exact ⟨rfl, (expand_cons_of_not hb _).symm⟩)
        all_goals (simp [number, P] at h ⊢; obtain ⟨rfl, rfl⟩ := h; rw [he2.eq]; exact ⟨rfl, (expand_cons_of_not hb _).symm⟩)
    all_goals simp [number] at h

/-! ### `nodeTest` -/

theorem expand_K (k : Kw) (g : Bool) (r : Toks) : expand (⟨.kw k, g⟩ :: r) = ⟨.kw k, g⟩ :: expand r := expand_cons_of_not rfl r
theorem expand_lparen (g : Bool) (r : Toks) : expand (⟨.p .lparen, g⟩ :: r) = ⟨.p .lparen, g⟩ :: expand r := expand_cons_of_not rfl r
theorem expand_rparen (g : Bool) (r : Toks) : expand (⟨.p .rparen, g⟩ :: r) = ⟨.p .rparen, g⟩ :: expand r := expand_cons_of_not rfl r
theorem expand_colon (g : Bool) (r : Toks) : expand (⟨.p .colon, g⟩ :: r) = ⟨.p .colon, g⟩ :: expand r := expand_cons_of_not rfl r
theorem expand_star (g : Bool) (r : Toks) : expand (⟨.p .star, g⟩ :: r) = ⟨.p .star, g⟩ :: expand r := expand_cons_of_not rfl r
theorem expand_lit (d : Bool) (s : Chars) (g : Bool) (r : Toks) : expand (⟨.lit d s, g⟩ :: r) = ⟨.lit d s, g⟩ :: expand r :=
  expand_cons_of_not rfl r

theorem tok_eq_mk {b : LTok} {x : Tok} (h : b.tok = x) : b = ⟨x, b.glued⟩ := by
  obtain ⟨t, g⟩ := b; simp only at h; subst h; rfl

theorem isAbbr_of_nameTok {c : Cfg} {t : Tok} {n : Chars} (h : nameTok c t = some n) : isAbbr t = false := by
  cases t with
  | p x => simp [nameTok] at h
  | _ => rfl

theorem nodeTest_name_plain {c : Cfg} {a : LTok} {n : Chars} {y : Toks} (hn : nameTok c a.tok = some n)
    (h1 : ∀ g r', y ≠ P .lparen g :: r') (h2 : ∀ g r', y ≠ P .colon g :: r') :
    nodeTest c (a :: y) = some (.name n, y) := by
  unfold nodeTest
  split
  · rename_i heq; cases heq; exact absurd rfl (h1 _ _)
  · rename_i heq; cases heq; exact absurd rfl (h1 _ _)
  · rename_i heq; cases heq; exact absurd rfl (h1 _ _)
  · rename_i heq; cases heq; exact absurd rfl (h1 _ _)
  · rename_i heq; cases heq; exact absurd rfl (h1 _ _)
  · rename_i heq; cases heq; simp [nameTok] at hn
  · rename_i heq; cases heq
    simp only [hn]
    split
    · exact absurd rfl (h1 _ _)
    · exact absurd rfl (h2 _ _)
    · rfl
  · rename_i heq; cases heq

theorem nodeTest_name_colon {c : Cfg} {a b : LTok} {n : Chars} {g1 : Bool} {y : Toks} (hn : nameTok c a.tok = some n) :
    nodeTest c (a :: ⟨.p .colon, g1⟩ :: b :: y) =
      if gl c g1 && gl c b.glued then
        match b.tok with
        | .p .star => some (.nsAny n, y)
        | t => (match nameTok c t with
                | some l => some (.qname n l, y)
                | none => some (.name n, ⟨.p .colon, g1⟩ :: b :: y))
      else some (.name n, ⟨.p .colon, g1⟩ :: b :: y) := by
  unfold nodeTest
  split
  · rename_i heq; cases heq
  · rename_i heq; cases heq
  · rename_i heq; cases heq
  · rename_i heq; cases heq
  · rename_i heq; cases heq
  · rename_i heq; cases heq; simp [nameTok] at hn
  · rename_i heq; cases heq
    simp only [hn]
    rfl
  · rename_i heq; cases heq

theorem nodeTest_star_plain {c : Cfg} {g : Bool} {y : Toks} (h2 : ∀ g r', y ≠ P .colon g :: r') :
    nodeTest c (P .star g :: y) = some (.any, y) := by
  simp only [nodeTest]
  split
  · exact absurd rfl (h2 _ _)
  · rfl

theorem expand_not_head {x : Punct} (hx : x ≠ .slash) {r : Toks} (h : ∀ g r', r ≠ P x g :: r') :
    ∀ g r', expand r ≠ P x g :: r' := by
  intro g r' he
  obtain ⟨r0, h0, _⟩ := expand_eq_cons he (by cases x <;> first | rfl | exact absurd rfl hx)
  exact h _ _ h0

theorem nodeTest_expand {c : Cfg} {ts : Toks} {t : NodeTest} {r : Toks}
    (h : nodeTest c ts = some (t, r)) (hr : ∀ g r', r ≠ P .colon g :: r') :
    nodeTest c (expand ts) = some (t, expand r) := by
  unfold nodeTest at h
  split at h
  · injection h with h; injection h with h1 h2; subst h1 h2
    simp only [expand_K, expand_lparen, expand_rparen]; rfl
  · injection h with h; injection h with h1 h2; subst h1 h2
    simp only [expand_K, expand_lparen, expand_rparen]; rfl
  · injection h with h; injection h with h1 h2; subst h1 h2
    simp only [expand_K, expand_lparen, expand_rparen]; rfl
  · injection h with h; injection h with h1 h2; subst h1 h2
    simp only [expand_K, expand_lparen, expand_rparen]; rfl
  · injection h with h; injection h with h1 h2; subst h1 h2
    simp only [expand_K, expand_lparen, expand_rparen, expand_lit]; rfl
  · rename_i g r0
    rw [expand_star]
    split at h
    · rename_i g1 b r'
      split at h
      · rename_i n hn
        split at h
        · rename_i hc
          injection h with h; injection h with h1 h2; subst h1 h2
          rw [expand_colon, expand_cons_of_not (isAbbr_of_nameTok hn)]
          simp only [nodeTest, hn, hc, if_true]
        · injection h with h; injection h with h1 h2; subst h1 h2
          exact absurd rfl (hr _ _)
      · injection h with h; injection h with h1 h2; subst h1 h2
        exact absurd rfl (hr _ _)
    · injection h with h; injection h with h1 h2; subst h1 h2
      exact nodeTest_star_plain (expand_not_head (by simp) hr)
  · rename_i a r0 q1 q2 q3 q4 q5 q6
    clear q1 q2 q3 q4 q5 q6
    split at h
    · cases h
    · rename_i n hn
      rw [expand_cons_of_not (isAbbr_of_nameTok hn)]
      split at h
      · cases h
      · rename_i g1 b r'
        rw [expand_colon]
        split at h
        · rename_i hc
          split at h
          · rename_i hb
            injection h with h; injection h with h1 h2; subst h1 h2
            rw [tok_eq_mk hb, expand_star, nodeTest_name_colon hn]
            simp only [hc, if_true]
          · rename_i hb
            split at h
            · rename_i l hl
              injection h with h; injection h with h1 h2; subst h1 h2
              rw [expand_cons_of_not (isAbbr_of_nameTok hl), nodeTest_name_colon hn]
              simp only [hc, if_true, hl]
            · injection h with h; injection h with h1 h2; subst h1 h2
              exact absurd rfl (hr _ _)
        · injection h with h; injection h with h1 h2; subst h1 h2
          exact absurd rfl (hr _ _)
      · rename_i hl hcn
        injection h with h; injection h with h1 h2; subst h1 h2
        exact nodeTest_name_plain hn (expand_not_head (by simp) (fun g r' he => hl g r' he)) (expand_not_head (by simp) hr)
  · cases h


/-! ### remainders no caller can use -/

/-- the remainder of a call does not start with `:` or `[` (after such a remainder every complete
    parse fails, and the expansion may read on: `* : @x`, `..[1]`) -/
def Live (r : Toks) : Prop := (∀ g r', r ≠ P .colon g :: r') ∧ (∀ g r', r ≠ P .lbrack g :: r')

theorem live_nil : Live [] := ⟨fun _ _ h => (by cases h), fun _ _ h => (by cases h)⟩

theorem live_cons {t : LTok} {r : Toks} (h1 : t.tok ≠ .p .colon) (h2 : t.tok ≠ .p .lbrack) : Live (t :: r) :=
  ⟨fun _ _ h => (by cases h; exact h1 rfl), fun _ _ h => (by cases h; exact h2 rfl)⟩

theorem pBinRest_live {c : Cfg} {f lvl : Nat} {l e : Expr} {r1 r : Toks}
    (h : pBinRest c f lvl l r1 = some (e, r)) (hl : Live r) : Live r1 := by
  cases f with
  | zero => cases h
  | succ f =>
    rw [pBinRest_succ] at h
    split at h
    · rename_i t r0
      split at h
      · rename_i op hop
        refine live_cons ?_ ?_ <;> (intro ht; rw [ht] at hop; simp [opAt] at hop)
      · injection h with h; injection h with h1 h2; subst h2; exact hl
    · exact live_nil

theorem pUnionRest_live {c : Cfg} {f : Nat} {l e : Expr} {r1 r : Toks}
    (h : pUnionRest c f l r1 = some (e, r)) (hl : Live r) : Live r1 := by
  cases f with
  | zero => cases h
  | succ f =>
    rw [pUnionRest_succ] at h
    split at h
    · exact live_cons (by simp) (by simp)
    · injection h with h; injection h with h1 h2; subst h2; exact hl

theorem pPreds_colon {c : Cfg} {f : Nat} {ps : Exprs} {r1 r : Toks}
    (h : pPreds c f r1 = some (ps, r)) (hl : ∀ g r', r ≠ P .colon g :: r') : ∀ g r', r1 ≠ P .colon g :: r' := by
  cases f with
  | zero => cases h
  | succ f =>
    rw [pPreds_succ] at h
    split at h
    · intro g r' he; cases he
    · injection h with h; injection h with h1 h2; subst h2; exact hl

/-! ### more expansions of single tokens -/

theorem expand_slash (g : Bool) (r : Toks) : expand (⟨.p .slash, g⟩ :: r) = ⟨.p .slash, g⟩ :: expand r := expand_cons_of_not rfl r
theorem expand_lbrack (g : Bool) (r : Toks) : expand (⟨.p .lbrack, g⟩ :: r) = ⟨.p .lbrack, g⟩ :: expand r := expand_cons_of_not rfl r
theorem expand_rbrack (g : Bool) (r : Toks) : expand (⟨.p .rbrack, g⟩ :: r) = ⟨.p .rbrack, g⟩ :: expand r := expand_cons_of_not rfl r
theorem expand_comma (g : Bool) (r : Toks) : expand (⟨.p .comma, g⟩ :: r) = ⟨.p .comma, g⟩ :: expand r := expand_cons_of_not rfl r
theorem expand_pipe (g : Bool) (r : Toks) : expand (⟨.p .pipe, g⟩ :: r) = ⟨.p .pipe, g⟩ :: expand r := expand_cons_of_not rfl r
theorem expand_minus (g : Bool) (r : Toks) : expand (⟨.p .minus, g⟩ :: r) = ⟨.p .minus, g⟩ :: expand r := expand_cons_of_not rfl r
theorem expand_dot (g : Bool) (r : Toks) : expand (⟨.p .dot, g⟩ :: r) = ⟨.p .dot, g⟩ :: expand r := expand_cons_of_not rfl r
theorem expand_coloncolon (g : Bool) (r : Toks) : expand (⟨.p .coloncolon, g⟩ :: r) = ⟨.p .coloncolon, g⟩ :: expand r := expand_cons_of_not rfl r
theorem expand_var (s : Chars) (g : Bool) (r : Toks) : expand (⟨.var s, g⟩ :: r) = ⟨.var s, g⟩ :: expand r := expand_cons_of_not rfl r

theorem expand_at' (g : Bool) (r : Toks) :
    expand (⟨.p .at, g⟩ :: r) = ⟨.kw (.axis .attribute), g⟩ :: ⟨.p .coloncolon, true⟩ :: expand r := expand_at g r
theorem expand_dotdot' (g : Bool) (r : Toks) :
    expand (⟨.p .dotdot, g⟩ :: r) = ⟨.kw (.axis .parent), g⟩ :: ⟨.p .coloncolon, true⟩ :: ⟨.kw .node, true⟩ ::
      ⟨.p .lparen, true⟩ :: ⟨.p .rparen, true⟩ :: expand r := expand_dotdot g r
theorem expand_dslash' (g : Bool) (r : Toks) :
    expand (⟨.p .dslash, g⟩ :: r) = ⟨.p .slash, g⟩ :: ⟨.kw (.axis .descendantOrSelf), true⟩ :: ⟨.p .coloncolon, true⟩ ::
      ⟨.kw .node, true⟩ :: ⟨.p .lparen, true⟩ :: ⟨.p .rparen, true⟩ :: ⟨.p .slash, true⟩ :: expand r := expand_dslash g r

theorem expand_not_slash {r : Toks} (h1 : ∀ g r', r ≠ P .slash g :: r') (h2 : ∀ g r', r ≠ P .dslash g :: r') :
    ∀ g r', expand r ≠ P .slash g :: r' := by
  intro g r' he
  rcases expand_eq_slash he with ⟨r0, h0⟩ | ⟨r0, h0⟩
  · exact h1 _ _ h0
  · exact h2 _ _ h0

theorem opAt_kw_axis (lvl : Nat) (a : Axis) : opAt lvl (.kw (.axis a)) = none := by
  unfold opAt; split <;> first | rfl | (rename_i h; cases h)

theorem opAt_slash (lvl : Nat) : opAt lvl (.p .slash) = none := by
  unfold opAt; split <;> first | rfl | (rename_i h; cases h)

theorem opAt_at (lvl : Nat) : opAt lvl (.p .at) = none := by
  unfold opAt; split <;> first | rfl | (rename_i h; cases h)
theorem opAt_dotdot (lvl : Nat) : opAt lvl (.p .dotdot) = none := by
  unfold opAt; split <;> first | rfl | (rename_i h; cases h)
theorem opAt_dslash (lvl : Nat) : opAt lvl (.p .dslash) = none := by
  unfold opAt; split <;> first | rfl | (rename_i h; cases h)

theorem isAbbr_of_opAt {lvl : Nat} {t : Tok} {op : BinOp} (h : opAt lvl t = some op) : isAbbr t = false := by
  cases t with
  | p x => cases x <;> first | rfl | (simp only [opAt_at, opAt_dotdot, opAt_dslash] at h; cases h)
  | _ => rfl

/-! ### loops that stop at once -/

theorem pBinRest_stop {c : Cfg} {lvl : Nat} {l : Expr} {y : Toks} (h : ∀ t r0, y = t :: r0 → opAt lvl t.tok = none) :
    pBinRest c 1 lvl l y = some (l, y) := by
  rw [pBinRest_succ]
  cases y with
  | nil => rfl
  | cons t r0 => simp only [h t r0 rfl]

theorem expand_head_opAt {lvl : Nat} {ts : Toks} (h : ∀ t r0, ts = t :: r0 → opAt lvl t.tok = none) :
    ∀ t r0, expand ts = t :: r0 → opAt lvl t.tok = none := by
  intro t r0 he
  have hx := exp_expand ts
  rw [he] at hx
  cases hx with
  | keep _ _ _ => exact h _ _ rfl
  | «at» g _ => exact opAt_kw_axis _ _
  | dotdot g _ => exact opAt_kw_axis _ _
  | dslash g _ => exact opAt_slash _

theorem pUnionRest_stop {c : Cfg} {l : Expr} {y : Toks} (h : ∀ g r', y ≠ P .pipe g :: r') :
    pUnionRest c 1 l y = some (l, y) := pUnionRest_trivial h
theorem pFilt_stop {c : Cfg} {l : Expr} {y : Toks} (h : ∀ g r', y ≠ P .lbrack g :: r') :
    pFilt c 1 l y = some (l, y) := pFilt_trivial h
theorem pPreds_stop {c : Cfg} {y : Toks} (h : ∀ g r', y ≠ P .lbrack g :: r') :
    pPreds c 1 y = some (.nil, y) := pPreds_trivial h

/-- the expansion of `//` after a step: `descendant-or-self::node()` is a step of its own -/
theorem pRel_dos {c : Cfg} {f : Nat} {b : Expr} {y : Toks} {R : Expr × Toks} {g1 g2 g3 g4 g5 g6 : Bool}
    (h : pRel c f (dos b) y = some R) :
    pRel c (f + 2) b (⟨.kw (.axis .descendantOrSelf), g1⟩ :: ⟨.p .coloncolon, g2⟩ :: ⟨.kw .node, g3⟩ ::
      ⟨.p .lparen, g4⟩ :: ⟨.p .rparen, g5⟩ :: ⟨.p .slash, g6⟩ :: y) = some R := by
  cases f with
  | zero => cases h
  | succ f =>
    rw [pRel_succ, pStep_succ]
    simp only [nodeTest, pPreds_succ]
    exact pRel_mono h (by omega)


/-! ### the parser reads the expansion as it reads the abbreviated tokens -/

structure Abbr (c : Cfg) (f : Nat) : Prop where
  bin : ∀ lvl ts e r, pBin c f lvl ts = some (e, r) → Live r →
    ∃ f', pBin c f' lvl (expand ts) = some (e, expand r)
  binRest : ∀ lvl l ts e r, pBinRest c f lvl l ts = some (e, r) → Live r →
    ∃ f', pBinRest c f' lvl l (expand ts) = some (e, expand r)
  unary : ∀ ts e r, pUnary c f ts = some (e, r) → Live r →
    ∃ f', pUnary c f' (expand ts) = some (e, expand r)
  unionRest : ∀ l ts e r, pUnionRest c f l ts = some (e, r) → Live r →
    ∃ f', pUnionRest c f' l (expand ts) = some (e, expand r)
  path : ∀ ts e r, pPath c f ts = some (e, r) → Live r →
    ∃ f', pPath c f' (expand ts) = some (e, expand r)
  filt : ∀ b ts e r, pFilt c f b ts = some (e, r) →
    ∃ f', pFilt c f' b (expand ts) = some (e, expand r)
  primary : ∀ ts e r, pPrimary c f ts = some (e, r) →
    ∃ f', pPrimary c f' (expand ts) = some (e, expand r)
  rel : ∀ b ts e r, pRel c f b ts = some (e, r) → Live r →
    ∃ f', pRel c f' b (expand ts) = some (e, expand r)
  step : ∀ b ts e r, pStep c f b ts = some (e, r) → Live r →
    ∃ f', pStep c f' b (expand ts) = some (e, expand r)
  preds : ∀ ts e r, pPreds c f ts = some (e, r) →
    ∃ f', pPreds c f' (expand ts) = some (e, expand r)
  args : ∀ ts e r, pArgs c f ts = some (e, r) →
    ∃ f', pArgs c f' (expand ts) = some (e, expand r)
  args1 : ∀ ts e r, pArgs1 c f ts = some (e, r) →
    ∃ f', pArgs1 c f' (expand ts) = some (e, expand r)

theorem abbr_zero (c : Cfg) : Abbr c 0 := by
  constructor <;> intros <;> simp_all [pBin_zero, pBinRest_zero, pUnary_zero, pUnionRest_zero, pPath_zero,
    pFilt_zero, pPrimary_zero, pRel_zero, pStep_zero, pPreds_zero, pArgs_zero, pArgs1_zero]

theorem abbr_bin {c : Cfg} {f : Nat} (ih : Abbr c f) : ∀ lvl ts e r, pBin c (f + 1) lvl ts = some (e, r) → Live r →
    ∃ f', pBin c f' lvl (expand ts) = some (e, expand r) := by
  intro lvl ts e r h hl
  rw [pBin_succ] at h
  split at h
  · rename_i h6
    obtain ⟨f1, h1⟩ := ih.unary _ _ _ h hl
    exact ⟨f1 + 1, by rw [pBin_succ, if_pos h6]; exact h1⟩
  · rename_i h6
    split at h
    · rename_i l r1 heq
      obtain ⟨f1, h1⟩ := ih.bin _ _ _ _ heq (pBinRest_live h hl)
      obtain ⟨f2, h2⟩ := ih.binRest _ _ _ _ _ h hl
      refine ⟨f1 + f2 + 1, ?_⟩
      rw [pBin_succ, if_neg h6, pBin_mono h1 (show f1 ≤ f1 + f2 by omega)]
      exact pBinRest_mono h2 (by omega)
    · cases h

theorem abbr_binRest {c : Cfg} {f : Nat} (ih : Abbr c f) : ∀ lvl l ts e r, pBinRest c (f + 1) lvl l ts = some (e, r) → Live r →
    ∃ f', pBinRest c f' lvl l (expand ts) = some (e, expand r) := by
  intro lvl l ts e r h hl
  rw [pBinRest_succ] at h
  split at h
  · rename_i t r0
    split at h
    · rename_i op hop
      split at h
      · rename_i rhs r1 heq
        obtain ⟨f1, h1⟩ := ih.bin _ _ _ _ heq (pBinRest_live h hl)
        obtain ⟨f2, h2⟩ := ih.binRest _ _ _ _ _ h hl
        refine ⟨f1 + f2 + 1, ?_⟩
        rw [expand_cons_of_not (isAbbr_of_opAt hop), pBinRest_succ]
        simp only [hop, pBin_mono h1 (show f1 ≤ f1 + f2 by omega)]
        exact pBinRest_mono h2 (by omega)
      · cases h
    · rename_i hop
      injection h with h; injection h with h1 h2; subst h1 h2
      exact ⟨1, pBinRest_stop (expand_head_opAt (fun t' r' he => by cases he; exact hop))⟩
  · injection h with h; injection h with h1 h2; subst h1 h2
    exact ⟨1, rfl⟩

theorem abbr_unary {c : Cfg} {f : Nat} (ih : Abbr c f) : ∀ ts e r, pUnary c (f + 1) ts = some (e, r) → Live r →
    ∃ f', pUnary c f' (expand ts) = some (e, expand r) := by
  intro ts e r h hl
  rw [pUnary_succ] at h
  split at h
  · split at h
    · rename_i e0 r0 heq
      injection h with h; injection h with h1 h2; subst h1 h2
      obtain ⟨f1, h1⟩ := ih.unary _ _ _ heq hl
      refine ⟨f1 + 1, ?_⟩
      rw [expand_minus, pUnary_succ]
      simp only [h1]
    · cases h
  · rename_i hm
    split at h
    · rename_i l r1 heq
      obtain ⟨f1, h1⟩ := ih.path _ _ _ heq (pUnionRest_live h hl)
      obtain ⟨f2, h2⟩ := ih.unionRest _ _ _ _ h hl
      refine ⟨f1 + f2 + 1, ?_⟩
      rw [pUnary_succ]
      split
      · rename_i heq'; exact absurd heq' (expand_not_head (by simp) hm _ _)
      · simp only [pPath_mono h1 (show f1 ≤ f1 + f2 by omega)]
        exact pUnionRest_mono h2 (by omega)
    · cases h

theorem abbr_unionRest {c : Cfg} {f : Nat} (ih : Abbr c f) : ∀ l ts e r, pUnionRest c (f + 1) l ts = some (e, r) → Live r →
    ∃ f', pUnionRest c f' l (expand ts) = some (e, expand r) := by
  intro l ts e r h hl
  rw [pUnionRest_succ] at h
  split at h
  · split at h
    · rename_i rhs r1 heq
      obtain ⟨f1, h1⟩ := ih.path _ _ _ heq (pUnionRest_live h hl)
      obtain ⟨f2, h2⟩ := ih.unionRest _ _ _ _ h hl
      refine ⟨f1 + f2 + 1, ?_⟩
      rw [expand_pipe, pUnionRest_succ]
      simp only [pPath_mono h1 (show f1 ≤ f1 + f2 by omega)]
      exact pUnionRest_mono h2 (by omega)
    · cases h
  · rename_i hm
    injection h with h; injection h with h1 h2; subst h1 h2
    exact ⟨1, pUnionRest_stop (expand_not_head (by simp) hm)⟩

theorem live_slash {g : Bool} {r : Toks} : Live (⟨.p .slash, g⟩ :: r) := live_cons (by simp) (by simp)
theorem live_dslash {g : Bool} {r : Toks} : Live (⟨.p .dslash, g⟩ :: r) := live_cons (by simp) (by simp)
theorem live_rbrack {g : Bool} {r : Toks} : Live (⟨.p .rbrack, g⟩ :: r) := live_cons (by simp) (by simp)
theorem live_rparen {g : Bool} {r : Toks} : Live (⟨.p .rparen, g⟩ :: r) := live_cons (by simp) (by simp)
theorem live_comma {g : Bool} {r : Toks} : Live (⟨.p .comma, g⟩ :: r) := live_cons (by simp) (by simp)

theorem abbr_path {c : Cfg} {f : Nat} (ih : Abbr c f) : ∀ ts e r, pPath c (f + 1) ts = some (e, r) → Live r →
    ∃ f', pPath c f' (expand ts) = some (e, expand r) := by
  intro ts e r h hl
  rw [pPath_succ] at h
  split at h
  · rename_i g0 r0
    rw [expand_slash]
    split at h
    · rename_i hs
      obtain ⟨f1, h1⟩ := ih.rel _ _ _ _ h hl
      refine ⟨f1 + 1, ?_⟩
      rw [pPath_succ]
      simp only [startsStep_exp (exp_expand r0), hs, if_true]
      exact h1
    · rename_i hs
      injection h with h; injection h with h1 h2; subst h1 h2
      refine ⟨1, ?_⟩
      rw [pPath_succ]
      exact if_neg (by rw [startsStep_exp (exp_expand r0)]; exact hs)
  · rename_i g0 r0
    obtain ⟨f1, h1⟩ := ih.rel _ _ _ _ h hl
    refine ⟨f1 + 3, ?_⟩
    rw [expand_dslash', pPath_succ]
    simp only [startsStep, nameTok, Kw.isOpName, Bool.false_and, Option.isSome_some, if_true, Bool.false_eq_true, if_false]
    exact pRel_dos h1
  · rename_i hn1 hn2
    have hx1 := expand_not_slash hn1 hn2
    have hx2 := expand_not_head (x := .dslash) (by simp) hn2
    split at h
    · rename_i hs
      have hs' : startsPrimary c (expand ts) = true := by rw [startsPrimary_exp (exp_expand ts)]; exact hs
      split at h
      · rename_i e0 r0 hp
        obtain ⟨f1, h1⟩ := ih.primary _ _ _ hp
        split at h
        · rename_i e1 g1 r1 hf
          obtain ⟨f2, h2⟩ := ih.filt _ _ _ _ hf
          obtain ⟨f3, h3⟩ := ih.rel _ _ _ _ h hl
          rw [expand_slash] at h2
          refine ⟨f1 + f2 + f3 + 1, ?_⟩
          rw [pPath_succ]
          split
          · rename_i heq; exact absurd heq (hx1 _ _)
          · rename_i heq; exact absurd heq (hx2 _ _)
          · simp only [hs', if_true, pPrimary_mono h1 (show f1 ≤ f1 + f2 + f3 by omega),
              pFilt_mono h2 (show f2 ≤ f1 + f2 + f3 by omega)]
            exact pRel_mono h3 (by omega)
        · rename_i e1 g1 r1 hf
          obtain ⟨f2, h2⟩ := ih.filt _ _ _ _ hf
          obtain ⟨f3, h3⟩ := ih.rel _ _ _ _ h hl
          rw [expand_dslash'] at h2
          refine ⟨f1 + f2 + f3 + 3, ?_⟩
          rw [pPath_succ]
          split
          · rename_i heq; exact absurd heq (hx1 _ _)
          · rename_i heq; exact absurd heq (hx2 _ _)
          · simp only [hs', if_true, pPrimary_mono h1 (show f1 ≤ f1 + f2 + f3 + 2 by omega),
              pFilt_mono h2 (show f2 ≤ f1 + f2 + f3 + 2 by omega)]
            exact pRel_mono (pRel_dos h3) (by omega)
        · rename_i hm1 hm2
          obtain ⟨f2, h2⟩ := ih.filt _ _ _ _ h
          have hr1 : ∀ g r', r ≠ P .slash g :: r' := fun g r' he => hm1 _ _ _ (he ▸ h)
          have hr2 : ∀ g r', r ≠ P .dslash g :: r' := fun g r' he => hm2 _ _ _ (he ▸ h)
          have hy1 := expand_not_slash hr1 hr2
          have hy2 := expand_not_head (x := .dslash) (by simp) hr2
          refine ⟨f1 + f2 + 1, ?_⟩
          rw [pPath_succ]
          split
          · rename_i heq; exact absurd heq (hx1 _ _)
          · rename_i heq; exact absurd heq (hx2 _ _)
          · simp only [hs', if_true, pPrimary_mono h1 (show f1 ≤ f1 + f2 by omega),
              pFilt_mono h2 (show f2 ≤ f1 + f2 by omega)]
            split
            · rename_i heq; injection heq with heq; injection heq with _ heq; exact absurd heq (hy1 _ _)
            · rename_i heq; injection heq with heq; injection heq with _ heq; exact absurd heq (hy2 _ _)
            · rfl
      · cases h
    · rename_i hs
      have hs' : startsPrimary c (expand ts) = false := by
        rw [startsPrimary_exp (exp_expand ts)]; simpa using hs
      obtain ⟨f1, h1⟩ := ih.rel _ _ _ _ h hl
      refine ⟨f1 + 1, ?_⟩
      rw [pPath_succ]
      split
      · rename_i heq; exact absurd heq (hx1 _ _)
      · rename_i heq; exact absurd heq (hx2 _ _)
      · simp only [hs']
        exact h1

theorem abbr_filt {c : Cfg} {f : Nat} (ih : Abbr c f) : ∀ b ts e r, pFilt c (f + 1) b ts = some (e, r) →
    ∃ f', pFilt c f' b (expand ts) = some (e, expand r) := by
  intro b ts e r h
  rw [pFilt_succ] at h
  split at h
  · split at h
    · rename_i p g1 r1 hb
      obtain ⟨f1, h1⟩ := ih.bin _ _ _ _ hb live_rbrack
      obtain ⟨f2, h2⟩ := ih.filt _ _ _ _ h
      rw [expand_rbrack] at h1
      refine ⟨f1 + f2 + 1, ?_⟩
      rw [expand_lbrack, pFilt_succ]
      simp only [pBin_mono h1 (show f1 ≤ f1 + f2 by omega)]
      exact pFilt_mono h2 (by omega)
    · cases h
  · rename_i hm
    injection h with h; injection h with h1 h2; subst h1 h2
    exact ⟨1, pFilt_stop (expand_not_head (by simp) hm)⟩

theorem abbr_primary {c : Cfg} {f : Nat} (ih : Abbr c f) : ∀ ts e r, pPrimary c (f + 1) ts = some (e, r) →
    ∃ f', pPrimary c f' (expand ts) = some (e, expand r) := by
  intro ts e r h
  rw [pPrimary_succ] at h
  split at h
  · split at h
    · rename_i e0 g1 r1 hb
      injection h with h; injection h with h1 h2; subst h1 h2
      obtain ⟨f1, h1⟩ := ih.bin _ _ _ _ hb live_rparen
      rw [expand_rparen] at h1
      refine ⟨f1 + 1, ?_⟩
      rw [expand_lparen, pPrimary_succ]
      simp only [h1]
    · cases h
  · injection h with h; injection h with h1 h2; subst h1 h2
    exact ⟨1, by rw [expand_lit]; rfl⟩
  · injection h with h; injection h with h1 h2; subst h1 h2
    exact ⟨1, by rw [expand_var]; rfl⟩
  · rename_i hn1 hn2 hn3
    have hx1 := expand_not_head (x := .lparen) (by simp) hn1
    have hx2 : ∀ d s g r', expand ts ≠ ⟨.lit d s, g⟩ :: r' := by
      intro d s g r' he
      obtain ⟨r0, h0, _⟩ := expand_eq_cons he rfl
      exact hn2 _ _ _ _ h0
    have hx3 : ∀ s g r', expand ts ≠ ⟨.var s, g⟩ :: r' := by
      intro s g r' he
      obtain ⟨r0, h0, _⟩ := expand_eq_cons he rfl
      exact hn3 _ _ _ h0
    split at h
    · rename_i pfx name r0 hc
      split at h
      · rename_i as r1 ha
        injection h with h; injection h with h1 h2; subst h1 h2
        obtain ⟨f1, h1⟩ := ih.args _ _ _ ha
        refine ⟨f1 + 1, ?_⟩
        rw [pPrimary_succ]
        split
        · rename_i heq; exact absurd heq (hx1 _ _)
        · rename_i heq; exact absurd heq (hx2 _ _ _ _)
        · rename_i heq; exact absurd heq (hx3 _ _ _)
        · simp only [callStart_expand_some hc, h1]
      · cases h
    · rename_i hc
      refine ⟨1, ?_⟩
      rw [pPrimary_succ]
      split
      · rename_i heq; exact absurd heq (hx1 _ _)
      · rename_i heq; exact absurd heq (hx2 _ _ _ _)
      · rename_i heq; exact absurd heq (hx3 _ _ _)
      · simp only [callStart_expand_none hc]
        exact number_exp (exp_expand ts) h

theorem abbr_rel {c : Cfg} {f : Nat} (ih : Abbr c f) : ∀ b ts e r, pRel c (f + 1) b ts = some (e, r) → Live r →
    ∃ f', pRel c f' b (expand ts) = some (e, expand r) := by
  intro b ts e r h hl
  rw [pRel_succ] at h
  split at h
  · rename_i e1 g1 r1 hs
    obtain ⟨f1, h1⟩ := ih.step _ _ _ _ hs live_slash
    obtain ⟨f2, h2⟩ := ih.rel _ _ _ _ h hl
    rw [expand_slash] at h1
    refine ⟨f1 + f2 + 1, ?_⟩
    rw [pRel_succ]
    simp only [pStep_mono h1 (show f1 ≤ f1 + f2 by omega)]
    exact pRel_mono h2 (by omega)
  · rename_i e1 g1 r1 hs
    obtain ⟨f1, h1⟩ := ih.step _ _ _ _ hs live_dslash
    obtain ⟨f2, h2⟩ := ih.rel _ _ _ _ h hl
    rw [expand_dslash'] at h1
    refine ⟨f1 + f2 + 3, ?_⟩
    rw [pRel_succ]
    simp only [pStep_mono h1 (show f1 ≤ f1 + f2 + 2 by omega)]
    exact pRel_mono (pRel_dos h2) (by omega)
  · rename_i hm1 hm2
    obtain ⟨f1, h1⟩ := ih.step _ _ _ _ h hl
    have hr1 : ∀ g r', r ≠ P .slash g :: r' := fun g r' he => hm1 _ _ _ (he ▸ h)
    have hr2 : ∀ g r', r ≠ P .dslash g :: r' := fun g r' he => hm2 _ _ _ (he ▸ h)
    have hy1 := expand_not_slash hr1 hr2
    have hy2 := expand_not_head (x := .dslash) (by simp) hr2
    refine ⟨f1 + 1, ?_⟩
    rw [pRel_succ, h1]
    split
    · rename_i heq; injection heq with heq; injection heq with _ heq; exact absurd heq (hy1 _ _)
    · rename_i heq; injection heq with heq; injection heq with _ heq; exact absurd heq (hy2 _ _)
    · rfl

theorem expand_not_axis {ts : Toks} (h2 : ∀ g r', ts ≠ P .dotdot g :: r') (h3 : ∀ g r', ts ≠ P .at g :: r')
    (h4 : ∀ a g g' r', ts ≠ K (.axis a) g :: P .coloncolon g' :: r') :
    ∀ a g g' r', expand ts ≠ K (.axis a) g :: P .coloncolon g' :: r' := by
  intro a g g' r' he
  have hx := exp_expand ts
  rw [he] at hx
  cases hx with
  | keep _ _ hx' =>
    cases hx' with
    | keep _ _ _ => exact h4 _ _ _ _ rfl
  | «at» g _ => exact h3 _ _ rfl
  | dotdot g _ => exact h2 _ _ rfl

theorem abbr_step {c : Cfg} {f : Nat} (ih : Abbr c f) : ∀ b ts e r, pStep c (f + 1) b ts = some (e, r) → Live r →
    ∃ f', pStep c f' b (expand ts) = some (e, expand r) := by
  intro b ts e r h hl
  rw [pStep_succ] at h
  split at h
  · injection h with h; injection h with h1 h2; subst h1 h2
    exact ⟨1, by rw [expand_dot]; rfl⟩
  · injection h with h; injection h with h1 h2; subst h1 h2
    refine ⟨2, ?_⟩
    rw [expand_dotdot', pStep_succ]
    simp only [nodeTest, pPreds_stop (expand_not_head (x := .lbrack) (by simp) hl.2)]
  · rename_i g0 r0
    split at h
    · rename_i t r1 hnt
      split at h
      · rename_i ps r2 hp
        injection h with h; injection h with h1 h2; subst h1 h2
        obtain ⟨f1, h1⟩ := ih.preds _ _ _ hp
        refine ⟨f1 + 1, ?_⟩
        rw [expand_at', pStep_succ]
        simp only [nodeTest_expand hnt (pPreds_colon hp hl.1), h1]
      · cases h
    · cases h
  · rename_i a g0 g1 r0
    split at h
    · rename_i t r1 hnt
      split at h
      · rename_i ps r2 hp
        injection h with h; injection h with h1 h2; subst h1 h2
        obtain ⟨f1, h1⟩ := ih.preds _ _ _ hp
        refine ⟨f1 + 1, ?_⟩
        rw [expand_K, expand_coloncolon, pStep_succ]
        simp only [nodeTest_expand hnt (pPreds_colon hp hl.1), h1]
      · cases h
    · cases h
  · rename_i hn1 hn2 hn3 hn4
    have hx1 := expand_not_head (x := .dot) (by simp) hn1
    have hx2 := expand_not_head (x := .dotdot) (by simp) hn2
    have hx3 := expand_not_head (x := .at) (by simp) hn3
    have hx4 := expand_not_axis hn2 hn3 hn4
    split at h
    · rename_i pfx name r0 hc
      split at h
      · rename_i as r1 ha
        injection h with h; injection h with h1 h2; subst h1 h2
        obtain ⟨f1, h1⟩ := ih.args _ _ _ ha
        refine ⟨f1 + 1, ?_⟩
        rw [pStep_succ]
        split
        · rename_i heq; exact absurd heq (hx1 _ _)
        · rename_i heq; exact absurd heq (hx2 _ _)
        · rename_i heq; exact absurd heq (hx3 _ _)
        · rename_i heq; exact absurd heq (hx4 _ _ _ _)
        · simp only [callStart_expand_some hc, h1]
      · cases h
    · rename_i hc
      split at h
      · rename_i t r1 hnt
        split at h
        · rename_i ps r2 hp
          injection h with h; injection h with h1 h2; subst h1 h2
          obtain ⟨f1, h1⟩ := ih.preds _ _ _ hp
          refine ⟨f1 + 1, ?_⟩
          rw [pStep_succ]
          split
          · rename_i heq; exact absurd heq (hx1 _ _)
          · rename_i heq; exact absurd heq (hx2 _ _)
          · rename_i heq; exact absurd heq (hx3 _ _)
          · rename_i heq; exact absurd heq (hx4 _ _ _ _)
          · simp only [callStart_expand_none hc, nodeTest_expand hnt (pPreds_colon hp hl.1), h1]
        · cases h
      · cases h

theorem abbr_preds {c : Cfg} {f : Nat} (ih : Abbr c f) : ∀ ts e r, pPreds c (f + 1) ts = some (e, r) →
    ∃ f', pPreds c f' (expand ts) = some (e, expand r) := by
  intro ts e r h
  rw [pPreds_succ] at h
  split at h
  · split at h
    · rename_i p g1 r1 hb
      split at h
      · rename_i ps r2 hp
        injection h with h; injection h with h1 h2; subst h1 h2
        obtain ⟨f1, h1⟩ := ih.bin _ _ _ _ hb live_rbrack
        obtain ⟨f2, h2⟩ := ih.preds _ _ _ hp
        rw [expand_rbrack] at h1
        refine ⟨f1 + f2 + 1, ?_⟩
        rw [expand_lbrack, pPreds_succ]
        simp only [pBin_mono h1 (show f1 ≤ f1 + f2 by omega), pPreds_mono h2 (show f2 ≤ f1 + f2 by omega)]
      · cases h
    · cases h
  · rename_i hm
    injection h with h; injection h with h1 h2; subst h1 h2
    exact ⟨1, pPreds_stop (expand_not_head (by simp) hm)⟩

theorem abbr_args {c : Cfg} {f : Nat} (ih : Abbr c f) : ∀ ts e r, pArgs c (f + 1) ts = some (e, r) →
    ∃ f', pArgs c f' (expand ts) = some (e, expand r) := by
  intro ts e r h
  rw [pArgs_succ] at h
  split at h
  · injection h with h; injection h with h1 h2; subst h1 h2
    exact ⟨1, by rw [expand_rparen]; rfl⟩
  · rename_i hm
    obtain ⟨f1, h1⟩ := ih.args1 _ _ _ h
    refine ⟨f1 + 1, ?_⟩
    rw [pArgs_succ]
    split
    · rename_i heq; exact absurd heq (expand_not_head (by simp) hm _ _)
    · exact h1

theorem abbr_args1 {c : Cfg} {f : Nat} (ih : Abbr c f) : ∀ ts e r, pArgs1 c (f + 1) ts = some (e, r) →
    ∃ f', pArgs1 c f' (expand ts) = some (e, expand r) := by
  intro ts e r h
  rw [pArgs1_succ] at h
  split at h
  · rename_i e0 g1 r1 hb
    split at h
    · rename_i es r2 ha
      injection h with h; injection h with h1 h2; subst h1 h2
      obtain ⟨f1, h1⟩ := ih.bin _ _ _ _ hb live_comma
      obtain ⟨f2, h2⟩ := ih.args1 _ _ _ ha
      rw [expand_comma] at h1
      refine ⟨f1 + f2 + 1, ?_⟩
      rw [pArgs1_succ]
      simp only [pBin_mono h1 (show f1 ≤ f1 + f2 by omega), pArgs1_mono h2 (show f2 ≤ f1 + f2 by omega)]
    · cases h
  · rename_i e0 g1 r1 hb
    injection h with h; injection h with h1 h2; subst h1 h2
    obtain ⟨f1, h1⟩ := ih.bin _ _ _ _ hb live_rparen
    rw [expand_rparen] at h1
    refine ⟨f1 + 1, ?_⟩
    rw [pArgs1_succ]
    simp only [h1]
  · cases h

theorem abbr (c : Cfg) : ∀ f, Abbr c f
  | 0 => abbr_zero c
  | f + 1 =>
    have ih := abbr c f
    ⟨abbr_bin ih, abbr_binRest ih, abbr_unary ih, abbr_unionRest ih, abbr_path ih, abbr_filt ih,
      abbr_primary ih, abbr_rel ih, abbr_step ih, abbr_preds ih, abbr_args ih, abbr_args1 ih⟩

/-- replacing `@`, `..`, `//` by `attribute::`, `parent::node()`, `/descendant-or-self::node()/` does
    not change the tree -/
theorem parse_expand (c : Cfg) (ts : Toks) (e : Expr) (h : parseToks c ts = some e) :
    parseToks c (expand ts) = some e := by
  obtain ⟨f, hf⟩ := parseToks_sound c ts e h
  obtain ⟨f', hf'⟩ := (abbr c f).bin _ _ _ _ hf live_nil
  exact parseToks_complete c (expand ts) e f' hf'


end Xsel.Syntax
