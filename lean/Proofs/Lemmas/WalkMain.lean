/-
  Proofs/Lemmas/WalkMain.lean — THE WALK THEOREM: for every expression whose names are free of colons
  and whose numbers have a canonical spelling, walking its derivation tree with the handler table of the
  code computes exactly what the evaluator on abstract syntax computes (`eval Model.sem`), in every
  context — nothing of the tree is dropped, every handler finds the children it indexes, no handler
  panics.
-/
import Proofs.Lemmas.WalkPaths

namespace Xsel.Walk
open Xsel Xsel.Syntax

mutual
/-- the modelled domain: numbers with a canonical spelling (`numOk`), names of variables and functions
    without a colon (`GetQName` splits at colons) -/
def walkOk : Expr → Bool
  | .bin _ l r => walkOk l && walkOk r
  | .neg e => walkOk e
  | .num n => numOk n
  | .lit _ => true
  | .var p nm => qnOk p nm
  | .call b p nm as => qnOk p nm && walkOk b && walkOks as
  | .root => true
  | .ctx => true
  | .step b _ _ ps => walkOk b && walkOks ps
  | .filt b p => walkOk b && walkOk p
def walkOks : Exprs → Bool
  | .nil => true
  | .cons e es => walkOk e && walkOks es
end

/-! ### every tree of `Deriv.lean` is a nonterminal node -/

theorem isNt_numNode (n : Num) : (numNode n).isNt = true := by
  unfold numNode; simp only; split <;> rfl

theorem isNt_pathNode (h : Head) (r : PT) : (pathNode h r).isNt = true := by cases h <;> rfl

theorem isNt_dNat (e : Expr) : (dNat e).isNt = true := by
  cases e with
  | call b p n as => cases b <;> simp only [dNat] <;> first | rfl | exact isNt_pathNode _ _
  | step b ax t ps => rw [dNat]; exact isNt_pathNode _ _
  | _ => rw [dNat] <;> rfl

theorem isNt_exprTree (e : Expr) : (exprTree e).isNt = true := isNt_wrapAt _ _ _ (isNt_dNat e)

theorem allNt : ∀ es : Exprs, AllE (fun q => (exprTree q).isNt = true) es
  | .nil => trivial
  | .cons e es => ⟨isNt_exprTree e, allNt es⟩

theorem isNt_dStep (ax : Axis) (t : NodeTest) (ps : Exprs) : (dStep ax t ps).isNt = true := by
  cases ps <;> rfl

theorem isNt_dCall (p : Option Chars) (n : Chars) (as : Exprs) : (dCall p n as).isNt = true := by
  cases as <;> rfl

theorem relWith_isNt (b : Expr) (relB : Head × PT) (natB s : PT) : (relWith b relB natB s).2.isNt = true := by
  unfold relWith
  cases b <;> simp only <;> (try split) <;> rfl

theorem relWith_ok (b : Expr) (relB : Head × PT) (natB s : PT) (h1 : relB.1.ok = true) (h2 : natB.isNt = true) :
    (relWith b relB natB s).1.ok = true := by
  unfold relWith
  cases b <;> simp only <;> (try split) <;> first | rfl | exact h1 | exact isNt_wrapAt _ _ _ h2

theorem dRel_ok : ∀ e : Expr, (dRel e).1.ok = true
  | .step b ax t ps => by rw [dRel]; exact relWith_ok b _ _ _ (dRel_ok b) (isNt_dNat b)
  | .call b p n as => by rw [dRel]; exact relWith_ok b _ _ _ (dRel_ok b) (isNt_dNat b)
  | .bin _ _ _ | .neg _ | .num _ | .lit _ | .var _ _ | .root | .ctx | .filt _ _ => by simp only [dRel]; rfl

theorem dRel_isNt (e : Expr) (h : isPathLike e = true) : (dRel e).2.isNt = true := by
  cases e with
  | step b ax t ps => rw [dRel]; exact relWith_isNt _ _ _ _
  | call b p n as => rw [dRel]; exact relWith_isNt _ _ _ _
  | _ => simp [isPathLike] at h

/-! ### a path continued from its base -/

theorem normCtx_num (n : Num) : normCtx (.num n) = .num n := by simp [normCtx]
theorem normCtx_lit (x : Chars) : normCtx (.lit x) = .lit x := by simp [normCtx]
theorem normCtx_var (p : Option Chars) (n : Chars) : normCtx (.var p n) = .var p n := by simp [normCtx]
theorem normCtx_root : normCtx .root = .root := by simp [normCtx]
theorem normBase_root : normBase .root = .root := by simp [normBase]

theorem sim_relWith (b : Expr) (S : PT) (F : Ctx → Val → Except Err Val) (w : WCtx)
    (hS : S.isNt = true)
    (hF : ∀ (c : Ctx) (x v : Val), F { c with result := x } v = F c v)
    (hSim : ∀ w' : WCtx, Sim (walk tbl S w') w'.c (F w'.c w'.res))
    (ihRel : isPathLike b = true → ∀ w' : WCtx,
      Sim (startOf (dRel b).1 w' >>= walk tbl (dRel b).2) w'.c (eval Model.sem (normBase b) w'.c))
    (ihNat : ∀ w' : WCtx, Sim (walk tbl (dNat b) w') w'.c (eval Model.sem (normCtx b) w'.c)) :
    Sim (startOf (relWith b (dRel b) (dNat b) S).1 w >>= walk tbl (relWith b (dRel b) (dNat b) S).2) w.c
      (eval Model.sem (normBase b) w.c >>= F w.c) := by
  have cont : ∀ (v : Val) (k : Kind), Sim (walk tbl S ⟨{ w.c with result := v }, k⟩) w.c (F w.c v) := by
    intro v k
    have := hSim ⟨{ w.c with result := v }, k⟩
    rw [show (⟨{ w.c with result := v }, k⟩ : WCtx).res = v from rfl, hF] at this
    exact this.ctx (fun _ => rfl)
  by_cases h1 : b = .ctx
  · subst h1
    show Sim (walk tbl (N "RelativeLocationPath" [S]) w) _ _
    rw [walk_rlp1 _ _ hS, normBase, eval]
    exact hSim w
  by_cases h2 : b = .root
  · subst h2
    show Sim (walk tbl (N "RelativeLocationPath" [S]) (w.set (.nodes [0]))) _ _
    rw [walk_rlp1 _ _ hS, normBase_root, eval]
    exact cont (.nodes [0]) w.principal
  rw [relWith_other b _ _ _ h1 h2]
  by_cases hp : isPathLike b = true
  · simp only [hp, if_true]
    have hr := dRel_isNt b hp
    show Sim (startOf (dRel b).1 w >>= fun w1 => walk tbl (N "RelativeLocationPath"
      [N "RelativeLocationPathWithStep" [(dRel b).2, tkp .slash, S]]) w1) _ _
    simp only [walk_rlp2 _ _ _ hr hS]
    rw [← bind_assoc]
    exact Sim.bind (ihRel hp w) cont
  · simp only [hp]
    show Sim (walk tbl (wrapAt 9 (level b) (dNat b)) w >>= fun w1 => walk tbl (N "RelativeLocationPath" [S]) w1) _ _
    simp only [walk_rlp1 _ _ hS]
    rw [walk_wrapAt _ _ _ (isNt_dNat b), normBase_eq b h1]
    exact Sim.bind (ihNat w) cont

theorem callSem_ctx (p : Option Chars) (n : Chars) (args : Exprs) (c : Ctx) (x v : Val) :
    callSem p n args { c with result := x } v = callSem p n args c v := rfl

/-- a function call as a step of a path -/
theorem walk_Step_call (p : Option Chars) (n : Chars) (as : Exprs) (w : WCtx) :
    walk tbl (N "Step" [dCall p n as]) w = walk tbl (dCall p n as) ⟨w.c, .elem⟩ := by
  have : ∃ k, dCall p n as = .nt "FunctionCall" k := by cases as <;> exact ⟨_, rfl⟩
  obtain ⟨k, hk⟩ := this
  rw [hk]
  simp only [N, ofList_cons, ofList_nil]
  rw [walk]
  simp [PTs.lastNtName, PT.isNt, PT.name, implicitChild, walkLast_cons]

theorem dNat_call_of_ne (b : Expr) (p : Option Chars) (n : Chars) (as : Exprs) (hb : b ≠ .ctx) :
    dNat (.call b p n as) =
      pathNode (relWith b (dRel b) (dNat b) (N "Step" [dCall p n as])).1
        (relWith b (dRel b) (dNat b) (N "Step" [dCall p n as])).2 := by
  cases b <;> first | exact absurd rfl hb | simp only [dNat]

/-! ### the theorem -/

mutual

theorem sim_dNat : (e : Expr) → walkOk e = true → ∀ w : WCtx,
    Sim (walk tbl (dNat e) w) w.c (eval Model.sem (normCtx e) w.c)
  | .bin op l r, h, w => by
    simp only [walkOk, Bool.and_eq_true] at h
    rw [dNat, normCtx, eval_bin]
    have hL := isNt_wrapAt (opLevel op) (level l) _ (isNt_dNat l)
    have hR := isNt_wrapAt (opLevel op + 1) (level r) _ (isNt_dNat r)
    rw [walk_unit _ _ _ _ (lk_levelName _) rfl, walk_opNode op _ _ w hL hR,
      walk_wrapAt _ _ _ (isNt_dNat l), walk_wrapAt _ _ _ (isNt_dNat r)]
    have il := sim_dNat l h.1 w
    have ir := sim_dNat r h.2 w
    cases hl : eval Model.sem (normCtx l) w.c with
    | error e => rw [hl] at il; rw [show walk tbl (dNat l) w = .error (.err e) from il]; exact Sim.err rfl
    | ok x =>
      rw [hl] at il; obtain ⟨k1, hk1⟩ := il; rw [hk1]
      cases hr : eval Model.sem (normCtx r) w.c with
      | error e => rw [hr] at ir; rw [show walk tbl (dNat r) w = .error (.err e) from ir]; exact Sim.err rfl
      | ok y =>
        rw [hr] at ir; obtain ⟨k2, hk2⟩ := ir; rw [hk2]
        show Sim (match binSem (Model.strval w.c.a) op x y with | .ok v => _ | .error e => _) _ (binSem _ op x y)
        cases binSem (Model.strval w.c.a) op x y with
        | error e => exact Sim.err rfl
        | ok v => exact Sim.ok w.principal rfl
  | .neg e, h, w => by
    simp only [walkOk] at h
    rw [dNat, normCtx, eval]
    have hT := isNt_wrapAt 6 (level e) _ (isNt_dNat e)
    rw [walk_unit _ _ _ _ lk_UnaryExpr rfl, walk_negate _ w hT, walk_wrapAt _ _ _ (isNt_dNat e)]
    have ie := sim_dNat e h w
    cases he : eval Model.sem (normCtx e) w.c with
    | error x => rw [he] at ie; rw [show walk tbl (dNat e) w = .error (.err x) from ie]; exact Sim.err rfl
    | ok v => rw [he] at ie; obtain ⟨k, hk⟩ := ie; rw [hk]; exact Sim.ok w.principal rfl
  | .num n, h, w => by
    simp only [walkOk] at h
    rw [dNat, normCtx_num, eval]
    rw [walk_unit _ _ _ _ lk_FilterExpr rfl, walk_unit _ _ _ _ lk_PrimaryExpr (isNt_numNode n), walk_number n w h]
    exact Sim.ok w.principal rfl
  | .lit s, _, w => by
    rw [dNat, normCtx_lit, eval]
    rw [walk_unit _ _ _ _ lk_FilterExpr rfl, walk_unit _ _ _ _ lk_PrimaryExpr rfl, walk_literal]
    exact Sim.ok w.principal rfl
  | .var p n, h, w => by
    simp only [walkOk] at h
    rw [dNat, normCtx_var]
    rw [walk_unit _ _ _ _ lk_FilterExpr rfl, walk_unit _ _ _ _ lk_PrimaryExpr rfl]
    exact walk_var p n w h
  | .root, _, w => by
    rw [dNat, normCtx_root, eval]
    rw [walk_unit _ _ _ _ lk_PathExpr (isNt_parenFilter _), walk_parenFilter _ (isNt_lift _ _ _ rfl), walk_lift _ _ _ rfl]
    simp only [rootPath, N, ofList_cons, ofList_nil]
    rw [walk_nohandler _ _ _ _ lk_PathExpr, walkFirst_nt, walk_nohandler _ _ _ _ lk_LocationPath, walkFirst_nt,
      walk_nohandler _ _ _ _ lk_AbsoluteLocationPath, walkFirst_nt, walk]
    simp only [lk_AbsoluteLocationPathOnly]
    exact Sim.ok w.principal rfl
  | .ctx, _, w => by
    rw [dNat, normCtx, eval_step, eval]
    simp only [selfStepPath, N, ofList_cons, ofList_nil]
    rw [walk_nohandler _ _ _ _ lk_PathExpr, walkFirst_nt, walk_nohandler _ _ _ _ lk_LocationPath, walkFirst_nt,
      walk_nohandler _ _ _ _ lk_RelativeLocationPath, walkFirst_nt, walk]
    simp [PTs.lastNtName, PT.isNt, PT.name, implicitChild, walkLast_cons]
    rw [walk_nohandler _ _ _ _ lk_AbbreviatedStep, walkFirst_nt, walk]
    simp only [lk_AbbreviatedStepSelf, nodesOf, WCtx.res]
    unfold stepSem
    cases hr : w.c.result with
    | nodes s =>
      simp [Val.nodes?, Model.sem, Exprs.isNil, NodeTest.apply, Model.axis, applyPreds, bind, Except.bind, pure, Except.pure]
      refine Sim.ok .elem ?_
      congr 2
      rw [← hr]
    | num n => exact Sim.err rfl
    | str n => exact Sim.err rfl
    | bool n => exact Sim.err rfl
  | .filt b p, h, w => by
    simp only [walkOk, Bool.and_eq_true] at h
    rw [dNat, normCtx]
    have hB := isNt_wrapAt 9 (level b) _ (isNt_dNat b)
    have hP := isNt_exprTree p
    refine sim_filt _ (exprTree p) (normCtx b) (normCtx p) w hB hP ?_ ?_
    · rw [walk_wrapAt _ _ _ (isNt_dNat b)]; exact sim_dNat b h.1 w
    · intro w'; rw [exprTree, walk_wrapAt _ _ _ (isNt_dNat p)]; exact sim_dNat p h.2 w'
  | .call b p n as, h, w => by
    simp only [walkOk, Bool.and_eq_true] at h
    have hall := sim_all as h.2
    by_cases hb : b = .ctx
    · subst hb
      rw [dNat, normCtx, normBase, eval_call, eval]
      rw [walk_unit _ _ _ _ lk_FilterExpr rfl, walk_unit _ _ _ _ lk_PrimaryExpr (isNt_dCall p n as)]
      exact sim_dCall p n as w h.1.1 hall (allNt as)
    · rw [dNat_call_of_ne b p n as hb, normCtx, eval_call]
      rw [walk_pathNode _ _ w (relWith_isNt _ _ _ _) (relWith_ok _ _ _ _ (dRel_ok b) (isNt_dNat b))]
      refine sim_relWith b _ (callSem p n (normCtxs as)) w rfl (callSem_ctx p n _) ?_
        (fun hp => sim_dRel b h.1.2 hp) (sim_dNat b h.1.2)
      intro w'
      rw [walk_Step_call]
      exact sim_dCall p n as ⟨w'.c, .elem⟩ h.1.1 hall (allNt as)
  | .step b ax t ps, h, w => by
    simp only [walkOk, Bool.and_eq_true] at h
    have hall := sim_all ps h.2
    rw [dNat, normCtx, eval_step]
    rw [walk_pathNode _ _ w (relWith_isNt _ _ _ _) (relWith_ok _ _ _ _ (dRel_ok b) (isNt_dNat b))]
    refine sim_relWith b _ (stepSem ax t (normCtxs ps)) w (isNt_dStep ax t ps) (stepSem_ctx ax t _) ?_
      (fun hp => sim_dRel b h.1 hp) (sim_dNat b h.1)
    intro w'
    cases ps with
    | nil => rw [normCtxs]; exact sim_dStep_nil ax t w'
    | cons q qs =>
      rw [normCtxs]
      exact sim_dStep_cons ax t q qs w' (isNt_exprTree q) hall.1 hall.2 (allNt qs)

theorem sim_dRel : (e : Expr) → walkOk e = true → isPathLike e = true → ∀ w : WCtx,
    Sim (startOf (dRel e).1 w >>= walk tbl (dRel e).2) w.c (eval Model.sem (normBase e) w.c)
  | .step b ax t ps, h, _, w => by
    simp only [walkOk, Bool.and_eq_true] at h
    have hall := sim_all ps h.2
    rw [dRel, normBase, eval_step]
    refine sim_relWith b _ (stepSem ax t (normCtxs ps)) w (isNt_dStep ax t ps) (stepSem_ctx ax t _) ?_
      (fun hp => sim_dRel b h.1 hp) (sim_dNat b h.1)
    intro w'
    cases ps with
    | nil => rw [normCtxs]; exact sim_dStep_nil ax t w'
    | cons q qs =>
      rw [normCtxs]
      exact sim_dStep_cons ax t q qs w' (isNt_exprTree q) hall.1 hall.2 (allNt qs)
  | .call b p n as, h, _, w => by
    simp only [walkOk, Bool.and_eq_true] at h
    have hall := sim_all as h.2
    rw [dRel, normBase, eval_call]
    refine sim_relWith b _ (callSem p n (normCtxs as)) w rfl (callSem_ctx p n _) ?_
      (fun hp => sim_dRel b h.1.2 hp) (sim_dNat b h.1.2)
    intro w'
    rw [walk_Step_call]
    exact sim_dCall p n as ⟨w'.c, .elem⟩ h.1.1 hall (allNt as)
  | .bin _ _ _, _, hp, _ | .neg _, _, hp, _ | .num _, _, hp, _ | .lit _, _, hp, _ | .var _ _, _, hp, _
  | .root, _, hp, _ | .ctx, _, hp, _ | .filt _ _, _, hp, _ => by simp [isPathLike] at hp

theorem sim_all : (es : Exprs) → walkOks es = true → AllE SimE es
  | .nil, _ => trivial
  | .cons e es, h => by
    simp only [walkOks, Bool.and_eq_true] at h
    refine ⟨?_, sim_all es h.2⟩
    intro w
    rw [exprTree, walk_wrapAt _ _ _ (isNt_dNat e)]
    exact sim_dNat e h.1 w

end

end Xsel.Walk
