/-
  Proofs/Lemmas/StoreBasic.lean — how `alloc` / `setCell` and the allocating folds of
  `Store.finish` act on `Arena.cell` and on the size of the arena.

  `Push X cur a a'` : `a'` is `a` followed by fresh cells of list-class `X` whose parent is `cur`.
  `Ext  X cur a a'` : a `Push` followed by appending the fresh indices to list `X` of cell `cur`
                      (nothing else changes except, possibly, names and values).
-/
import Xsel.SpecStore

namespace Xsel.StoreL
open Xsel Xsel.Store Xsel.Arena

/-! ### cells of pushed / modified arrays -/

theorem cell_lt {a : Arena} {i : Nat} (h : i < a.size) : cell a i = a[i] := by
  simp [Arena.cell, h]

theorem cell_push_lt {a : Arena} {c : Cell} {i : Nat} (h : i < a.size) :
    cell (a.push c) i = cell a i := by
  simp [Arena.cell, Array.getD, h, Array.getElem_push, Nat.lt_succ_of_lt h]

theorem cell_push_size {a : Arena} {c : Cell} : cell (a.push c) a.size = c := by
  simp [Arena.cell]

theorem cell_modify_ne {a : Arena} {f : Cell → Cell} {i j : Nat} (h : i ≠ j) :
    cell (a.modify i f) j = cell a j := by
  simp [Arena.cell, Array.getD, Array.getElem_modify, h]

theorem cell_modify_eq {a : Arena} {f : Cell → Cell} {i : Nat} (h : i < a.size) :
    cell (a.modify i f) i = f (cell a i) := by
  simp [Arena.cell, Array.getD, Array.getElem_modify, h]

theorem size_setCell (a : Arena) (i : Nat) (f : Cell → Cell) : (setCell a i f).size = a.size := by
  simp [setCell]

theorem cell_setCell_ne {a : Arena} {f : Cell → Cell} {i j : Nat} (h : i ≠ j) :
    cell (setCell a i f) j = cell a j := cell_modify_ne h

theorem cell_setCell_eq {a : Arena} {f : Cell → Cell} {i : Nat} (h : i < a.size) :
    cell (setCell a i f) i = f (cell a i) := cell_modify_eq h

/-! ### the three child lists of a cell -/

inductive Cls where
  | ns | attr | kid
deriving DecidableEq, Repr

/-- the kinds a list may contain -/
def Cls.ok : Cls → Kind → Prop
  | .ns, k => k = .ns
  | .attr, k => k = .attr
  | .kid, k => k ≠ .ns ∧ k ≠ .attr ∧ k ≠ .root

def Cls.list : Cls → Cell → List Nat
  | .ns, c => c.nss
  | .attr, c => c.attrs
  | .kid, c => c.kids

/-- the list in which a node of the given kind is recorded by its parent -/
def clsOf : Kind → Cls
  | .ns => .ns
  | .attr => .attr
  | _ => .kid

theorem clsOf_ok {X : Cls} {k : Kind} (h : X.ok k) : clsOf k = X := by
  cases X <;> cases k <;> simp_all [Cls.ok, clsOf]

/-- a freshly allocated cell -/
structure NewCell (X : Cls) (cur : Nat) (c : Cell) (i : Nat) : Prop where
  kind : X.ok c.kind
  parent : c.parent = cur
  pos : c.pos = i
  nss : c.nss = []
  attrs : c.attrs = []
  kids : c.kids = []

theorem NewCell.list {X cur c i} (h : NewCell X cur c i) (Y : Cls) : Y.list c = [] := by
  cases Y
  · exact h.nss
  · exact h.attrs
  · exact h.kids

/-- `a'` is `a` with fresh `X`-cells below `cur` appended -/
structure Push (X : Cls) (cur : Nat) (a a' : Arena) : Prop where
  le : a.size ≤ a'.size
  old : ∀ i, i < a.size → cell a' i = cell a i
  new : ∀ i, a.size ≤ i → i < a'.size → NewCell X cur (cell a' i) i

theorem Push.refl (X cur a) : Push X cur a a :=
  ⟨Nat.le_refl _, fun _ _ => rfl, fun _ h1 h2 => absurd h2 (Nat.not_lt.mpr h1)⟩

theorem Push.trans {X cur a b c} (h1 : Push X cur a b) (h2 : Push X cur b c) : Push X cur a c where
  le := Nat.le_trans h1.le h2.le
  old := fun i hi => by rw [h2.old i (Nat.lt_of_lt_of_le hi h1.le), h1.old i hi]
  new := fun i hi hi' => by
    by_cases hb : i < b.size
    · rw [h2.old i hb]; exact h1.new i hi hb
    · exact h2.new i (Nat.not_lt.mp hb) hi'

theorem Push.alloc (X : Cls) (cur : Nat) (a : Arena) (c : Cell) (hk : X.ok c.kind)
    (hp : c.parent = cur) (h1 : c.nss = []) (h2 : c.attrs = []) (h3 : c.kids = []) :
    Push X cur a (alloc a c).1 where
  le := by simp [Store.alloc]
  old := fun i hi => by simp only [Store.alloc]; exact cell_push_lt hi
  new := fun i hi hi' => by
    have : i = a.size := by simp [Store.alloc] at hi'; omega
    subst this
    simp only [Store.alloc, cell_push_size]
    exact ⟨hk, hp, rfl, h1, h2, h3⟩

theorem alloc_snd (a : Arena) (c : Cell) : (alloc a c).2 = a.size := rfl
theorem size_alloc (a : Arena) (c : Cell) : (alloc a c).1.size = a.size + 1 := by
  simp [Store.alloc]

theorem range'_split {n m : Nat} (h : n + 1 ≤ m) :
    [n] ++ List.range' (n + 1) (m - (n + 1)) = List.range' n (m - n) := by
  have : m - n = (m - (n + 1)) + 1 := by omega
  rw [this, List.range'_succ]
  simp

/-- the allocating folds of `Store.finish` -/
theorem foldl_push {β : Type} (X : Cls) (cur : Nat) (skip : β → Bool) (mk : β → Cell)
    (hmk : ∀ x, X.ok (mk x).kind ∧ (mk x).parent = cur ∧ (mk x).nss = [] ∧ (mk x).attrs = []
      ∧ (mk x).kids = []) :
    ∀ (xs : List β) (a : Arena) (l : List Nat),
      Push X cur a (xs.foldl (fun (acc : Arena × List Nat) (x : β) =>
        if skip x then acc
        else
          let (a', i) := alloc acc.1 (mk x)
          (a', acc.2 ++ [i])) (a, l)).1
      ∧ (xs.foldl (fun (acc : Arena × List Nat) (x : β) =>
        if skip x then acc
        else
          let (a', i) := alloc acc.1 (mk x)
          (a', acc.2 ++ [i])) (a, l)).2
        = l ++ List.range' a.size ((xs.foldl (fun (acc : Arena × List Nat) (x : β) =>
        if skip x then acc
        else
          let (a', i) := alloc acc.1 (mk x)
          (a', acc.2 ++ [i])) (a, l)).1.size - a.size) := by
  intro xs
  induction xs with
  | nil => intro a l; exact ⟨Push.refl _ _ _, by simp⟩
  | cons x xs ih =>
    intro a l
    rw [List.foldl_cons]
    by_cases hs : skip x = true
    · simp only [hs, if_true]; exact ih a l
    · simp only [hs]
      obtain ⟨h1, h2, h3, h4, h5⟩ := hmk x
      have hp := Push.alloc X cur a (mk x) h1 h2 h3 h4 h5
      obtain ⟨ih1, ih2⟩ := ih (alloc a (mk x)).1 (l ++ [(alloc a (mk x)).2])
      refine ⟨hp.trans ih1, ?_⟩
      simp only [Bool.false_eq_true, if_false] at ih1 ih2 ⊢
      rw [ih2]
      have hle := ih1.le
      rw [size_alloc] at hle ⊢
      simp only [alloc_snd] at hle ⊢
      rw [List.append_assoc]
      congr 1
      exact range'_split hle

end Xsel.StoreL
