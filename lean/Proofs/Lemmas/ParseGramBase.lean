/-
  Proofs/Lemmas/ParseGramBase.lean — tools for `Proofs/Lemmas/ParseGram.lean`: the terminal string of a
  token list, combinators that build derivations of the grammar compiled into xsel's parser
  (`Xsel.Gram.G`) production by production, and the grammar facts about the non-recursive parts of the
  model parser (`nameTok`, `fnTok`, `nodeTest`, `callStart`, `number`, `opAt`).
-/
import Xsel.Parse
import Proofs.Lemmas.GramXPath

namespace Xsel.Syntax
open Xsel.Gram

/-- the terminal string of a token list -/
def terms (ts : Toks) : List String := ts.map (fun t => t.tok.term)

@[simp] theorem terms_nil : terms [] = [] := rfl
@[simp] theorem terms_cons (t : LTok) (ts : Toks) : terms (t :: ts) = t.tok.term :: terms ts := rfl
@[simp] theorem terms_append (a b : Toks) : terms (a ++ b) = terms a ++ terms b := by
  simp [terms]

@[simp] theorem word_nil : word [] = [] := rfl
@[simp] theorem word_cons (t : String) (w : List String) : word (t :: w) = T t :: word w := rfl
@[simp] theorem word_append (a b : List String) : word (a ++ b) = word a ++ word b := by
  simp [word]

/-- `w` is derived from the nonterminal `A` in the grammar of xsel's parser -/
def Der (A : String) (w : List String) : Prop := Derives G [N A] (word w)

theorem Der.mem_L {A : String} {w : List String} (h : Der A w) : w ∈ L G A := h

/-! ### building derivations: one production, then its right-hand side symbol by symbol -/

/-- apply a production at the root -/
theorem der_prod {A : String} {ρ : Form} (h : (A, ρ) ∈ G.prods) {w : List String}
    (d : Derives G ρ (word w)) : Der A w := by
  have s : Step1 G [N A] ρ := by
    have := Step1.mk (G := G) [] [] A ρ h
    simpa using this
  exact .head s d

/-- apply a production at the root, forms instead of words -/
theorem derives_prod {A : String} {ρ β : Form} (h : (A, ρ) ∈ G.prods)
    (d : Derives G ρ β) : Derives G [N A] β := by
  have s : Step1 G [N A] ρ := by
    have := Step1.mk (G := G) [] [] A ρ h
    simpa using this
  exact .head s d

theorem rhs_nil : Derives G [] (word []) := .refl _

/-- a terminal of the right-hand side -/
theorem rhs_T (t : String) {ρ : Form} {w : List String} (d : Derives G ρ (word w)) :
    Derives G (T t :: ρ) (word (t :: w)) := by
  have := d.append_left [T t]
  simpa using this

/-- a nonterminal of the right-hand side -/
theorem rhs_N {X : String} {a : List String} (dx : Der X a) {ρ : Form} {w : List String}
    (d : Derives G ρ (word w)) : Derives G (N X :: ρ) (word (a ++ w)) := by
  have := Derives.concat dx d
  simpa using this

/-- the last terminal of the right-hand side -/
theorem rhs_T1 (t : String) : Derives G [T t] (word [t]) := .refl _

/-- a unit production -/
theorem der_unit {A X : String} (h : (A, [N X]) ∈ G.prods) {w : List String} (d : Der X w) : Der A w :=
  der_prod h d

/-- prove membership of a production in the table -/
macro "prod_mem" : tactic => `(tactic| decide +kernel)

/-! ### names -/

theorem nameTok_cases {c : Cfg} (h1 : c.opNames = false) {t : Tok} {n : Chars}
    (h : nameTok c t = some n) :
    (∃ s, t = .ncname s) ∨ (∃ k, t = .kw k ∧ k.isOpName = false) := by
  cases t with
  | ncname s => exact .inl ⟨s, rfl⟩
  | kw k =>
    right
    refine ⟨k, rfl, ?_⟩
    cases hk : k.isOpName with
    | false => rfl
    | true => simp [nameTok, hk, h1] at h
  | p x => simp [nameTok] at h
  | digits s => simp [nameTok] at h
  | lit dq s => simp [nameTok] at h
  | var s => simp [nameTok] at h

/-- a keyword that is not an operator name is a `ReservedNameConflictResolver` -/
theorem der_reserved {k : Kw} (hk : k.isOpName = false) :
    Der "ReservedNameConflictResolver" [k.term] := by
  cases k with
  | or => cases hk
  | and => cases hk
  | div => cases hk
  | mod => cases hk
  | axis a => cases a <;> exact der_prod (by prod_mem) (rhs_T1 _)
  | node => exact der_prod (by prod_mem) (rhs_T1 _)
  | text => exact der_prod (by prod_mem) (rhs_T1 _)
  | comment => exact der_prod (by prod_mem) (rhs_T1 _)
  | pi => exact der_prod (by prod_mem) (rhs_T1 _)

theorem fnTok_ncname {c : Cfg} (h2 : c.fnNames = false) {t : Tok} {n : Chars}
    (h : fnTok c t = some n) : ∃ s, t = .ncname s := by
  cases t with
  | ncname s => exact ⟨s, rfl⟩
  | kw k => simp [fnTok, h2] at h
  | p x => simp [fnTok] at h
  | digits s => simp [fnTok] at h
  | lit dq s => simp [fnTok] at h
  | var s => simp [fnTok] at h

theorem der_axisName (a : Axis) : Der "AxisName" [axisTerm a] := by
  cases a <;> exact der_prod (by prod_mem) (rhs_T1 _)

/-! ### the name tests -/

/-- `a` where `a` is a name -/
theorem der_nt_name {c : Cfg} (h1 : c.opNames = false) {a : Tok} {n : Chars}
    (ha : nameTok c a = some n) : Der "NodeTest" [a.term] := by
  rcases nameTok_cases h1 ha with ⟨s, rfl⟩ | ⟨k, rfl, hk⟩
  · show Der "NodeTest" ["ncname"]
    exact der_unit (by prod_mem) (der_prod (A := "NameTestQNameLocalOnly") (by prod_mem) (rhs_T1 _))
  · exact der_unit (by prod_mem)
      (der_prod (A := "NameTestQNameLocalOnlyReservedNameConflict") (by prod_mem) (der_reserved hk))

/-- `a:*` -/
theorem der_nt_nsAny {c : Cfg} (h1 : c.opNames = false) {a : Tok} {n : Chars}
    (ha : nameTok c a = some n) : Der "NodeTest" [a.term, ":", "*"] := by
  rcases nameTok_cases h1 ha with ⟨s, rfl⟩ | ⟨k, rfl, hk⟩
  · show Der "NodeTest" ["ncname", ":", "*"]
    exact der_unit (by prod_mem)
      (der_prod (A := "NameTestNamespaceAnyLocal") (by prod_mem) (rhs_T _ (rhs_T _ (rhs_T1 _))))
  · exact der_unit (by prod_mem)
      (der_prod (A := "NameTestNamespaceAnyLocalReservedNameConflict") (by prod_mem)
        (rhs_N (der_reserved hk) (rhs_T _ (rhs_T1 _))))

/-- `*:b` -/
theorem der_nt_localAny {c : Cfg} (h1 : c.opNames = false) {b : Tok} {n : Chars}
    (hb : nameTok c b = some n) : Der "NodeTest" ["*", ":", b.term] := by
  rcases nameTok_cases h1 hb with ⟨s, rfl⟩ | ⟨k, rfl, hk⟩
  · show Der "NodeTest" ["*", ":", "ncname"]
    exact der_unit (by prod_mem)
      (der_prod (A := "NameTestLocalAnyNamespace") (by prod_mem) (rhs_T _ (rhs_T _ (rhs_T1 _))))
  · exact der_unit (by prod_mem)
      (der_prod (A := "NameTestLocalAnyNamespaceReservedNameConflict") (by prod_mem)
        (rhs_T _ (rhs_T _ (der_reserved hk))))

/-- `a:b` -/
theorem der_nt_qname {c : Cfg} (h1 : c.opNames = false) {a b : Tok} {n l : Chars}
    (ha : nameTok c a = some n) (hb : nameTok c b = some l) :
    Der "NodeTest" [a.term, ":", b.term] := by
  rcases nameTok_cases h1 ha with ⟨s, rfl⟩ | ⟨k, rfl, hk⟩ <;>
    rcases nameTok_cases h1 hb with ⟨s', rfl⟩ | ⟨k', rfl, hk'⟩
  · show Der "NodeTest" ["ncname", ":", "ncname"]
    exact der_unit (by prod_mem)
      (der_prod (A := "NameTestQNameNamespaceWithLocal") (by prod_mem) (rhs_T _ (rhs_T _ (rhs_T1 _))))
  · show Der "NodeTest" ["ncname", ":", k'.term]
    exact der_unit (by prod_mem)
      (der_prod (A := "NameTestQNameNamespaceWithLocalReservedNameConflictLocal") (by prod_mem)
        (rhs_T _ (rhs_T _ (der_reserved hk'))))
  · show Der "NodeTest" [k.term, ":", "ncname"]
    exact der_unit (by prod_mem)
      (der_prod (A := "NameTestQNameNamespaceWithLocalReservedNameConflictNamespace") (by prod_mem)
        (rhs_N (der_reserved hk) (rhs_T _ (rhs_T1 _))))
  · exact der_unit (by prod_mem)
      (der_prod (A := "NameTestQNameNamespaceWithLocalReservedNameConflictBoth") (by prod_mem)
        (rhs_N (der_reserved hk) (rhs_T _ (der_reserved hk'))))

theorem der_nt_any : Der "NodeTest" ["*"] :=
  der_unit (by prod_mem) (der_prod (A := "NameTestAnyElement") (by prod_mem) (rhs_T1 _))

theorem der_nodeType_test {k : String} (hk : Der "NodeType" [k]) : Der "NodeTest" [k, "(", ")"] :=
  der_unit (by prod_mem)
    (der_prod (A := "NodeTestNodeTypeNoArgTest") (by prod_mem) (rhs_N hk (rhs_T _ (rhs_T1 _))))

theorem der_literal (dq : Bool) (s : Chars) : Der "Literal" [(Tok.lit dq s).term] := by
  cases dq
  · show Der "Literal" ["singlequote"]
    exact der_prod (by prod_mem) (rhs_T1 _)
  · show Der "Literal" ["doublequote"]
    exact der_prod (by prod_mem) (rhs_T1 _)

theorem der_piTarget (dq : Bool) (s : Chars) :
    Der "NodeTest" ["processing-instruction", "(", (Tok.lit dq s).term, ")"] :=
  der_unit (by prod_mem)
    (der_prod (A := "NodeTestProcInstTargetTest") (by prod_mem)
      (rhs_T _ (rhs_T _ (rhs_N (der_literal dq s) (rhs_T1 _)))))

/-! ### `nodeTest` -/

theorem der_nodeType (k : String) (h : ("NodeType", [T k]) ∈ G.prods) : Der "NodeTest" [k, "(", ")"] :=
  der_nodeType_test (der_prod h (rhs_T1 _))

theorem nodeTest_sound {c : Cfg} (h1 : c.opNames = false) {ts r : Toks} {t : NodeTest}
    (h : nodeTest c ts = some (t, r)) : ∃ pre, ts = pre ++ r ∧ Der "NodeTest" (terms pre) := by
  unfold nodeTest at h
  split at h
  · cases h
    exact ⟨[_, _, _], rfl, der_nodeType "node" (by prod_mem)⟩
  · cases h
    exact ⟨[_, _, _], rfl, der_nodeType "text" (by prod_mem)⟩
  · cases h
    exact ⟨[_, _, _], rfl, der_nodeType "comment" (by prod_mem)⟩
  · cases h
    exact ⟨[_, _, _], rfl, der_nodeType "processing-instruction" (by prod_mem)⟩
  · cases h
    exact ⟨[_, _, _, _], rfl, der_piTarget _ _⟩
  · -- `*`
    split at h
    · split at h
      · next n hn =>
        split at h
        · cases h
          exact ⟨[_, _, _], rfl, der_nt_localAny h1 hn⟩
        · cases h
          exact ⟨[_], rfl, der_nt_any⟩
      · cases h
        exact ⟨[_], rfl, der_nt_any⟩
    · cases h
      exact ⟨[_], rfl, der_nt_any⟩
  · -- a name
    split at h
    · cases h
    · next n hn =>
      split at h
      · cases h
      · split at h
        · split at h
          · next hb =>
            cases h
            refine ⟨[_, _, _], rfl, ?_⟩
            have := der_nt_nsAny h1 hn
            simpa [terms, hb, Tok.term, Punct.term] using this
          · split at h
            · next l hl =>
              cases h
              exact ⟨[_, _, _], rfl, der_nt_qname h1 hn hl⟩
            · cases h
              exact ⟨[_], rfl, der_nt_name h1 hn⟩
        · cases h
          exact ⟨[_], rfl, der_nt_name h1 hn⟩
      · cases h
        exact ⟨[_], rfl, der_nt_name h1 hn⟩
  · cases h

/-! ### binary operators -/

/-- the nonterminal of a precedence level -/
def lvlNT : Nat → String
  | 0 => "OrExpr" | 1 => "AndExpr" | 2 => "EqualityExpr" | 3 => "RelationalExpr"
  | 4 => "AdditiveExpr" | 5 => "MultiplicativeExpr" | _ => "UnaryExpr"

theorem lvlNT_ge {lvl : Nat} (h : lvl ≥ 6) : lvlNT lvl = "UnaryExpr" := by
  match lvl, h with
  | n + 6, _ => rfl

/-- a level contains the next one -/
theorem der_lvl_up {lvl : Nat} (h : ¬ lvl ≥ 6) {w : List String} (d : Der (lvlNT (lvl + 1)) w) :
    Der (lvlNT lvl) w := by
  match lvl, h with
  | 0, _ => exact der_unit (by prod_mem) d
  | 1, _ => exact der_unit (by prod_mem) d
  | 2, _ => exact der_unit (by prod_mem) d
  | 3, _ => exact der_unit (by prod_mem) d
  | 4, _ => exact der_unit (by prod_mem) d
  | 5, _ => exact der_unit (by prod_mem) d
  | n + 6, h => exact absurd (Nat.le_add_left 6 n) h

/-- `X → XOp`, `XOp → X op Y` -/
theorem der_binop {X XOp Y op : String} (hu : (X, [N XOp]) ∈ G.prods)
    (hp : (XOp, [N X, T op, N Y]) ∈ G.prods) {a b : List String} (da : Der X a) (db : Der Y b) :
    Der X (a ++ op :: b) :=
  der_unit hu (der_prod hp (rhs_N da (rhs_T _ db)))

theorem opAt_sound {lvl : Nat} {t : Tok} {op : BinOp} (h : opAt lvl t = some op)
    {a b : List String} (da : Der (lvlNT lvl) a) (db : Der (lvlNT (lvl + 1)) b) :
    Der (lvlNT lvl) (a ++ t.term :: b) := by
  unfold opAt at h
  split at h
  · exact der_binop (XOp := "OrExprOr") (by prod_mem) (by prod_mem) da db
  · exact der_binop (XOp := "AndExprAnd") (by prod_mem) (by prod_mem) da db
  · exact der_binop (XOp := "EqualityExprEqual") (by prod_mem) (by prod_mem) da db
  · exact der_binop (XOp := "EqualityExprNotEqual") (by prod_mem) (by prod_mem) da db
  · exact der_binop (XOp := "RelationalExprLessThan") (by prod_mem) (by prod_mem) da db
  · exact der_binop (XOp := "RelationalExprLessThanOrEqual") (by prod_mem) (by prod_mem) da db
  · exact der_binop (XOp := "RelationalExprGreaterThan") (by prod_mem) (by prod_mem) da db
  · exact der_binop (XOp := "RelationalExprGreaterThanOrEqual") (by prod_mem) (by prod_mem) da db
  · exact der_binop (XOp := "AdditiveExprAdd") (by prod_mem) (by prod_mem) da db
  · exact der_binop (XOp := "AdditiveExprSubtract") (by prod_mem) (by prod_mem) da db
  · exact der_binop (XOp := "MultiplicativeExprMultiply") (by prod_mem) (by prod_mem) da db
  · exact der_binop (XOp := "MultiplicativeExprDivide") (by prod_mem) (by prod_mem) da db
  · exact der_binop (XOp := "MultiplicativeExprMod") (by prod_mem) (by prod_mem) da db
  · cases h

/-! ### `callStart`, `number` -/

/-- `name (`: what follows is the `FunctionSignature` of a `FunctionCall` -/
theorem callStart_sound {c : Cfg} (h2 : c.fnNames = false) {ts r : Toks} {pfx : Option Chars}
    {n : Chars} (h : callStart c ts = some (pfx, n, r)) :
    ∃ pre, ts = pre ++ r ∧ ∀ w, Der "FunctionSignature" w → Der "FunctionCall" (terms pre ++ w) := by
  unfold callStart at h
  split at h
  · next a g r' =>
    have hf : ∃ m, fnTok c a.tok = some m ∧ r' = r := by
      split at h
      · split at h
        · cases h
        · simp only [Option.map_eq_some_iff] at h
          obtain ⟨m, hm, he⟩ := h
          cases he
          exact ⟨_, by simpa using hm, rfl⟩
      · simp only [Option.map_eq_some_iff] at h
        obtain ⟨m, hm, he⟩ := h
        cases he
        exact ⟨_, hm, rfl⟩
    obtain ⟨m, hm, rfl⟩ := hf
    obtain ⟨s, hs⟩ := fnTok_ncname h2 hm
    refine ⟨[a, P .lparen g], rfl, ?_⟩
    intro w dw
    have hq : Der "QName" ["ncname"] :=
      der_unit (by prod_mem) (der_prod (A := "QNameLocalOnly") (by prod_mem) (rhs_T1 _))
    have := der_prod (A := "FunctionCall") (by prod_mem) (rhs_N hq (rhs_T "(" dw))
    simpa [terms, hs, Tok.term, P, Punct.term] using this
  · next a g1 b g r' =>
    split at h
    · split at h
      · next p m hp hm =>
        cases h
        obtain ⟨s, hs⟩ := fnTok_ncname h2 hp
        obtain ⟨s', hs'⟩ := fnTok_ncname h2 hm
        refine ⟨[a, P .colon g1, b, P .lparen g], rfl, ?_⟩
        intro w dw
        have hq : Der "QName" ["ncname", ":", "ncname"] :=
          der_unit (by prod_mem)
            (der_prod (A := "QNameNamespaceWithLocal") (by prod_mem) (rhs_T _ (rhs_T _ (rhs_T1 _))))
        have := der_prod (A := "FunctionCall") (by prod_mem) (rhs_N hq (rhs_T "(" dw))
        simpa [terms, hs, hs', Tok.term, P, Punct.term] using this
      · cases h
    · cases h
  · cases h

theorem number_sound {c : Cfg} (h3 : c.trailDot = false) {ts r : Toks} {e : Expr}
    (h : number c ts = some (e, r)) : ∃ pre, ts = pre ++ r ∧ Der "Number" (terms pre) := by
  have d1 : Der "Number" ["digits"] := der_prod (by prod_mem) (rhs_T1 _)
  have d2 : Der "Number" [".", "digits"] := der_prod (by prod_mem) (rhs_T _ (rhs_T1 _))
  have d3 : Der "Number" ["digits", ".", "digits"] := der_prod (by prod_mem) (rhs_T _ (rhs_T _ (rhs_T1 _)))
  unfold number at h
  simp only [h3, Bool.false_and, Bool.false_eq_true, if_false] at h
  split at h
  · split at h
    · cases h
      exact ⟨[_, _, _], rfl, d3⟩
    · cases h
      exact ⟨[_], rfl, d1⟩
  · cases h
    exact ⟨[_], rfl, d1⟩
  · cases h
    exact ⟨[_], rfl, d1⟩
  · split at h
    · cases h
      exact ⟨[_, _], rfl, d2⟩
    · cases h
  · cases h

end Xsel.Syntax
