/-
  Proofs/Lemmas/ParseWs.lean — what does not matter to the reading of an expression.

  A. Optional white space: two padded spellings (`spellPadded`) of the same tokens whose white-space
     runs are empty at the same places (`samePattern`) are tokenised, lexed and parsed alike
     (`lexRaw_ws_insensitive`, `lex_ws_insensitive`, `parse_ws_insensitive`,
     `parseSpec_ws_insensitive`); with `lexRaw_sound_items` the input-level form
     (`lex_ws_respaced`, `parse_ws_respaced`, `parseSpec_ws_respaced`).

  B. Redundant parentheses around a whole expression (`parse_parens`).  The parser does not look
     beyond a closing parenthesis: a successful run of any of the twelve parser functions on `ts`
     that leaves `r` succeeds on `ts ++ s` with the same tree and leaves `r ++ s`, for every `s`
     that starts with `)` (`Closer s`; `CloserExt`, `closerExt`, `pBin_closer`).
-/
import Proofs.Lemmas.LexSound
import Proofs.Lemmas.ParseFuel

namespace Xsel.Syntax

/-! ## A. optional white space -/

/-- same tokens, and a run is empty in one list iff it is empty in the other -/
def samePattern (a b : List (Chars × Tok)) : Prop :=
  a.map (·.2) = b.map (·.2) ∧ a.map (·.1.isEmpty) = b.map (·.1.isEmpty)

theorem samePattern_refl (a : List (Chars × Tok)) : samePattern a a := ⟨rfl, rfl⟩

theorem samePattern_symm {a b : List (Chars × Tok)} (h : samePattern a b) : samePattern b a :=
  ⟨h.1.symm, h.2.symm⟩

theorem samePattern_trans {a b d : List (Chars × Tok)} (h : samePattern a b) (h' : samePattern b d) :
    samePattern a d :=
  ⟨h.1.trans h'.1, h.2.trans h'.2⟩

/-- the token list of a padded spelling depends on the tokens and on which runs are empty only -/
theorem padToks_samePattern : ∀ (a b : List (Chars × Tok)) (g : Bool), samePattern a b →
    padToks g a = padToks g b
  | [], [], _, _ => rfl
  | [], _ :: _, _, h => by simp [samePattern] at h
  | _ :: _, [], _, h => by simp [samePattern] at h
  | (w, t) :: a, (w', t') :: b, g, h => by
    simp only [samePattern, List.map_cons, List.cons.injEq] at h
    obtain ⟨⟨ht, hts⟩, hw, hws⟩ := h
    have ih := padToks_samePattern a b true ⟨hts, hws⟩
    have ht' : t = t' := ht
    have hw' : w.isEmpty = w'.isEmpty := hw
    simp only [padToks, ih, ht', hw']

/-- **optional white space does not matter**, tokeniser: two padded spellings of the same tokens whose
    white-space runs are empty at the same places are tokenised alike -/
theorem lexRaw_ws_insensitive (lc : LexCfg) (a b : List (Chars × Tok)) (ta tb : Chars)
    (ha : padOk lc a ta = true) (hb : padOk lc b tb = true) (h : samePattern a b) :
    lexRaw lc (spellPadded a ta) = lexRaw lc (spellPadded b tb) := by
  rw [lexRaw_spellPadded lc a ta ha, lexRaw_spellPadded lc b tb hb, padToks_samePattern a b false h]

/-- … lexed alike (the passes see the same token list) -/
theorem lex_ws_insensitive (lc : LexCfg) (a b : List (Chars × Tok)) (ta tb : Chars)
    (ha : padOk lc a ta = true) (hb : padOk lc b tb = true) (h : samePattern a b) :
    lex lc (spellPadded a ta) = lex lc (spellPadded b tb) := by
  rw [lex_eq, lex_eq, lexRaw_ws_insensitive lc a b ta tb ha hb h]

theorem parseModel_of_lex_eq {cs cs' : Chars} (h : lex lexModel cs = lex lexModel cs') :
    parseModel cs = parseModel cs' := by
  simp only [parseModel, h]

theorem parseSpec_of_lex_eq {cs cs' : Chars} (h : lex lexSpec cs = lex lexSpec cs') :
    parseSpec cs = parseSpec cs' := by
  simp only [parseSpec, h]

/-- … and read alike by the model (same verdict, same tree) -/
theorem parse_ws_insensitive (a b : List (Chars × Tok)) (ta tb : Chars)
    (ha : padOk lexModel a ta = true) (hb : padOk lexModel b tb = true) (h : samePattern a b) :
    parseModel (spellPadded a ta) = parseModel (spellPadded b tb) :=
  parseModel_of_lex_eq (lex_ws_insensitive lexModel a b ta tb ha hb h)

/-- … and by the specification -/
theorem parseSpec_ws_insensitive (a b : List (Chars × Tok)) (ta tb : Chars)
    (ha : padOk lexSpec a ta = true) (hb : padOk lexSpec b tb = true) (h : samePattern a b) :
    parseSpec (spellPadded a ta) = parseSpec (spellPadded b tb) :=
  parseSpec_of_lex_eq (lex_ws_insensitive lexSpec a b ta tb ha hb h)

/-- `cs'` is `cs` with its white-space runs replaced by other white-space runs, empty ones by empty
    ones: both are padded spellings of the same tokens with the same pattern of empty runs -/
def Respaced (lc : LexCfg) (cs cs' : Chars) : Prop :=
  ∃ (a b : List (Chars × Tok)) (ta tb : Chars),
    cs = spellPadded a ta ∧ cs' = spellPadded b tb ∧
    padOk lc a ta = true ∧ padOk lc b tb = true ∧ samePattern a b

theorem Respaced.symm {lc : LexCfg} {cs cs' : Chars} (h : Respaced lc cs cs') : Respaced lc cs' cs := by
  obtain ⟨a, b, ta, tb, h1, h2, h3, h4, h5⟩ := h
  exact ⟨b, a, tb, ta, h2, h1, h4, h3, samePattern_symm h5⟩

/-- every accepted input is a padded spelling, so it is respaced to itself -/
theorem Respaced.refl_of_ok {lc : LexCfg} {cs : Chars} {ts : List LTok} (h : lexRaw lc cs = .ok ts) :
    Respaced lc cs cs := by
  obtain ⟨a, ta, hok, hcs, _⟩ := lexRaw_sound_items lc cs ts h
  exact ⟨a, a, ta, ta, hcs, hcs, hok, hok, samePattern_refl a⟩

/-- input-level form: respacing does not change what the lexer answers -/
theorem lex_ws_respaced (lc : LexCfg) (cs cs' : Chars) (h : Respaced lc cs cs') :
    lex lc cs' = lex lc cs := by
  obtain ⟨a, b, ta, tb, rfl, rfl, ha, hb, hp⟩ := h
  exact (lex_ws_insensitive lc a b ta tb ha hb hp).symm

theorem lexRaw_ws_respaced (lc : LexCfg) (cs cs' : Chars) (h : Respaced lc cs cs') :
    lexRaw lc cs' = lexRaw lc cs := by
  obtain ⟨a, b, ta, tb, rfl, rfl, ha, hb, hp⟩ := h
  exact (lexRaw_ws_insensitive lc a b ta tb ha hb hp).symm

/-- … stated from an accepted input: if the tokeniser accepts `cs`, every decomposition-independent
    respacing `cs'` (other white-space runs before the same tokens, empty exactly where the runs of
    `cs` are empty, each token still not extended by what follows) is lexed to the same tokens.  The
    padded spelling `a`, `ta` of `cs` is the one `lexRaw_sound_items` produces. -/
theorem lex_ws_respaced_of_ok (lc : LexCfg) (cs : Chars) (ts : List LTok) (h : lexRaw lc cs = .ok ts) :
    ∃ (a : List (Chars × Tok)) (ta : Chars), cs = spellPadded a ta ∧ padOk lc a ta = true ∧
      ∀ (b : List (Chars × Tok)) (tb : Chars), padOk lc b tb = true → samePattern a b →
        lexRaw lc (spellPadded b tb) = .ok ts ∧ lex lc (spellPadded b tb) = lex lc cs := by
  obtain ⟨a, ta, hok, hcs, hts⟩ := lexRaw_sound_items lc cs ts h
  refine ⟨a, ta, hcs, hok, ?_⟩
  intro b tb hb hp
  constructor
  · rw [← h, hcs]; exact (lexRaw_ws_insensitive lc a b ta tb hok hb hp).symm
  · rw [hcs]; exact (lex_ws_insensitive lc a b ta tb hok hb hp).symm

theorem parse_ws_respaced (cs cs' : Chars) (h : Respaced lexModel cs cs') :
    parseModel cs' = parseModel cs :=
  parseModel_of_lex_eq (lex_ws_respaced lexModel cs cs' h)

theorem parseSpec_ws_respaced (cs cs' : Chars) (h : Respaced lexSpec cs cs') :
    parseSpec cs' = parseSpec cs :=
  parseSpec_of_lex_eq (lex_ws_respaced lexSpec cs cs' h)

/-! ## B. redundant parentheses around a whole expression

  The parser never looks beyond a closing parenthesis it does not consume.  `Closer s`: the token list
  `s` starts with `)`.  For every parser function, a successful call on `ts` that leaves `r` succeeds
  on `ts ++ s` with the same tree and leaves `r ++ s` (`CloserExt`, proved by induction on the fuel in
  `closerExt`).  The helpers that peek (`callStart`, `nodeTest`, `number`, `startsStep`, `startsPrimary`)
  come first: none of them can take a `)` for part of a name, a call, a node test or a number. -/

/-- the token list starts with `)` -/
def Closer (s : Toks) : Prop := ∃ g s', s = P .rparen g :: s'

theorem Closer.cons_of_append {s : Toks} (hs : Closer s) {ts r' : Toks} {t : LTok}
    (h : ts ++ s = t :: r') (ht : t.tok ≠ .p .rparen) : ∃ r0, ts = t :: r0 ∧ r' = r0 ++ s := by
  obtain ⟨g, s', rfl⟩ := hs
  cases ts with
  | nil =>
    simp only [List.nil_append] at h
    injection h with h1 h2
    subst h1
    exact absurd rfl ht
  | cons a ts' =>
    simp only [List.cons_append] at h
    injection h with h1 h2
    subst h1 h2
    exact ⟨ts', rfl, rfl⟩

theorem fnTok_rparen (c : Cfg) : fnTok c (.p .rparen) = none := rfl
theorem nameTok_rparen (c : Cfg) : nameTok c (.p .rparen) = none := rfl

theorem fnTok_ne_rparen {c : Cfg} {t : Tok} {n : Chars} (h : fnTok c t = some n) : t ≠ .p .rparen := by
  intro ht; subst ht; cases h

theorem callStart_closer_some {c : Cfg} {s : Toks} {ts : Toks} {p n r}
    (h : callStart c ts = some (p, n, r)) : callStart c (ts ++ s) = some (p, n, r ++ s) := by
  unfold callStart at h
  split at h
  · rename_i a g0 r0
    simp only [List.cons_append, callStart]
    generalize a.tok = t at h ⊢
    cases t <;> simp_all [fnTok]
  · rename_i a g1 b g2 r0
    simp only [List.cons_append, callStart]
    split at h
    · rename_i hg
      simp only [hg, if_true]
      split at h
      · injection h with h; injection h with h1 h; injection h with h2 h3
        subst h1 h2 h3
        rfl
      · cases h
    · cases h
  · cases h

theorem callStart_closer_down {c : Cfg} {s : Toks} (hs : Closer s) {ts : Toks} {p n r'}
    (h : callStart c (ts ++ s) = some (p, n, r')) : ∃ r, callStart c ts = some (p, n, r) ∧ r' = r ++ s := by
  unfold callStart at h
  split at h
  · rename_i a g0 r0 heq
    have ha : a.tok ≠ .p .rparen := by
      intro ha; rw [ha] at h; simp [fnTok] at h
    obtain ⟨r1, h1, h2⟩ := hs.cons_of_append heq ha
    obtain ⟨r2, h3, h4⟩ := hs.cons_of_append h2.symm (by intro hh; cases hh)
    subst h1 h3 h4
    simp only [callStart]
    generalize a.tok = t at h ⊢
    cases t <;> simp_all [fnTok]
  · rename_i a g1 b g2 r0 heq
    split at h
    · rename_i hg
      split at h
      · rename_i pa na h5 h6
        injection h with h; injection h with h1 h; injection h with h2 h3
        subst h1 h2 h3
        obtain ⟨r1, e1, k1⟩ := hs.cons_of_append heq (fnTok_ne_rparen h5)
        obtain ⟨r2, e2, k2⟩ := hs.cons_of_append k1.symm (by intro hh; cases hh)
        obtain ⟨r3, e3, k3⟩ := hs.cons_of_append k2.symm (fnTok_ne_rparen h6)
        obtain ⟨r4, e4, k4⟩ := hs.cons_of_append k3.symm (by intro hh; cases hh)
        subst e1 e2 e3 e4 k4
        refine ⟨r4, ?_, rfl⟩
        simp only [callStart, hg, if_true, h5, h6]
      · cases h
    · cases h
  · cases h

theorem callStart_closer_none {c : Cfg} {s : Toks} (hs : Closer s) {ts : Toks}
    (h : callStart c ts = none) : callStart c (ts ++ s) = none := by
  cases h' : callStart c (ts ++ s) with
  | none => rfl
  | some x =>
    obtain ⟨p, n, r'⟩ := x
    obtain ⟨r, h1, _⟩ := callStart_closer_down hs h'
    rw [h] at h1; cases h1

theorem startsStep_closer {c : Cfg} {s : Toks} (hs : Closer s) (ts : Toks) :
    startsStep c (ts ++ s) = startsStep c ts := by
  obtain ⟨g, s', rfl⟩ := hs
  cases ts with
  | nil => simp [startsStep, nameTok]
  | cons a ts' =>
    simp only [List.cons_append]
    unfold startsStep
    split <;> simp_all

theorem callStart_closer_isSome {c : Cfg} {s : Toks} (hs : Closer s) (ts : Toks) :
    (callStart c (ts ++ s)).isSome = (callStart c ts).isSome := by
  cases h : callStart c ts with
  | none => rw [callStart_closer_none hs h]
  | some x => obtain ⟨p, n, r⟩ := x; rw [callStart_closer_some h]; rfl

theorem startsPrimary_closer {c : Cfg} {s : Toks} (hs : Closer s) (ts : Toks) :
    startsPrimary c (ts ++ s) = startsPrimary c ts := by
  have hcs := callStart_closer_isSome (c := c) hs ts
  obtain ⟨g, s', rfl⟩ := hs
  rcases ts with _ | ⟨⟨tok, g1⟩, ts'⟩
  · simp only [List.nil_append] at hcs ⊢
    simp only [startsPrimary, hcs]
  · simp only [List.cons_append] at hcs ⊢
    cases tok with
    | p x =>
      cases x
      case lparen => simp [startsPrimary]
      case dot =>
        rcases ts' with _ | ⟨⟨tok2, g2⟩, ts''⟩
        · simp only [List.nil_append] at hcs ⊢
          simp only [startsPrimary, hcs]
        · simp only [List.cons_append] at hcs ⊢
          cases tok2 <;> simp only [startsPrimary, hcs]
      all_goals simp only [startsPrimary, hcs]
    | _ => simp only [startsPrimary, hcs]

theorem number_dot_eq {c : Cfg} {d : Chars} {g0 g1 : Bool} {X : Toks}
    (hX : ∀ d2 g2 r, X ≠ ⟨.digits d2, g2⟩ :: r) :
    number c (⟨.digits d, g0⟩ :: ⟨.p .dot, g1⟩ :: X) =
      if c.trailDot && g1 then some (numOf d, X) else some (numOf d, ⟨.p .dot, g1⟩ :: X) := by
  rcases X with _ | ⟨⟨tok, g⟩, X'⟩
  · simp [number, P]
  · cases tok
    case digits d2 => exact absurd rfl (hX d2 g X')
    all_goals simp [number, P]

theorem number_digits_eq {c : Cfg} {d : Chars} {g0 : Bool} {X : Toks}
    (hX : ∀ g1 r, X ≠ ⟨.p .dot, g1⟩ :: r) :
    number c (⟨.digits d, g0⟩ :: X) = some (numOf d, X) := by
  rcases X with _ | ⟨⟨tok, g⟩, X'⟩
  · simp [number]
  · cases tok
    case p x =>
      cases x
      case dot => exact absurd rfl (hX g X')
      all_goals simp [number]
    all_goals simp [number]

theorem Closer.append_ne {s : Toks} (hs : Closer s) {ts : Toks} {t : LTok} (ht : t.tok ≠ .p .rparen)
    (h : ∀ r, ts ≠ t :: r) : ∀ r, ts ++ s ≠ t :: r := by
  intro r hr
  obtain ⟨r0, h1, _⟩ := hs.cons_of_append hr ht
  exact h r0 h1

theorem number_closer {c : Cfg} {s : Toks} (hs : Closer s) {ts : Toks} {e r}
    (h : number c ts = some (e, r)) : number c (ts ++ s) = some (e, r ++ s) := by
  unfold number at h
  split at h
  · simp only [List.cons_append, number]
    split at h
    · rename_i hc; rw [if_pos hc]
      injection h with h; injection h with h1 h2; subst h1 h2; rfl
    · rename_i hc; rw [if_neg hc]
      split at h
      · rename_i hc; rw [if_pos hc]
        injection h with h; injection h with h1 h2; subst h1 h2; rfl
      · rename_i hc; rw [if_neg hc]
        injection h with h; injection h with h1 h2; subst h1 h2; rfl
  · rename_i d g0 g1 r0 hn
    simp only [List.cons_append]
    rw [number_dot_eq (fun d2 g2 r => hs.append_ne (by intro hh; cases hh) (fun r hr => hn d2 g2 r hr) r)]
    split at h
    · rename_i hc; rw [if_pos hc]
      injection h with h; injection h with h1 h2; subst h1 h2; rfl
    · rename_i hc; rw [if_neg hc]
      injection h with h; injection h with h1 h2; subst h1 h2; rfl
  · rename_i d g0 r0 hn1 hn2
    simp only [List.cons_append]
    rw [number_digits_eq (fun g1 r => hs.append_ne (by intro hh; cases hh) (fun r hr => hn2 g1 r hr) r)]
    injection h with h; injection h with h1 h2; subst h1 h2; rfl
  · simp only [List.cons_append, number]
    split at h
    · rename_i hc; rw [if_pos hc]
      injection h with h; injection h with h1 h2; subst h1 h2; rfl
    · cases h
  · cases h

theorem nameTok_ncname (c : Cfg) (n : Chars) : nameTok c (.ncname n) = some n := rfl

theorem nodeTest_of_name {c : Cfg} {a : LTok} {n : Chars} {X : Toks} (hn : nameTok c a.tok = some n)
    (hX : ∀ g r, X ≠ ⟨.p .lparen, g⟩ :: r) :
    nodeTest c (a :: X) = nodeTest c (⟨.ncname n, false⟩ :: X) := by
  conv => lhs; unfold nodeTest
  split
  · rename_i heq; injection heq with h1 h2; exact absurd h2 (hX _ _)
  · rename_i heq; injection heq with h1 h2; exact absurd h2 (hX _ _)
  · rename_i heq; injection heq with h1 h2; exact absurd h2 (hX _ _)
  · rename_i heq; injection heq with h1 h2; exact absurd h2 (hX _ _)
  · rename_i heq; injection heq with h1 h2; exact absurd h2 (hX _ _)
  · rename_i heq; injection heq with h1 h2; subst h1; cases hn
  · rename_i heq; injection heq with h1 h2; subst h1 h2
    simp only [hn, nodeTest, nameTok_ncname]
  · rename_i heq; cases heq

theorem nodeTest_name_closer {c : Cfg} {s : Toks} (hs : Closer s) {n : Chars} {g : Bool} {X : Toks} {t r}
    (h : nodeTest c (⟨.ncname n, g⟩ :: X) = some (t, r)) :
    nodeTest c (⟨.ncname n, g⟩ :: (X ++ s)) = some (t, r ++ s) := by
  simp only [nodeTest, nameTok_ncname] at h ⊢
  split at h
  · cases h
  · rename_i g1 b r'
    simp only [List.cons_append]
    split at h
    · rename_i hc; rw [if_pos hc]
      generalize b.tok = bt at h ⊢
      split at h
      · injection h with h; injection h with h1 h2; subst h1 h2; rfl
      · rename_i hns
        split at h
        · rename_i l hl
          injection h with h; injection h with h1 h2; subst h1 h2
          rfl
        · rename_i hl
          injection h with h; injection h with h1 h2; subst h1 h2
          rfl
    · rename_i hc; rw [if_neg hc]
      injection h with h; injection h with h1 h2; subst h1 h2; rfl
  · rename_i hn1 hn2
    injection h with h; injection h with h1 h2; subst h1 h2
    split
    · rename_i heq
      obtain ⟨r0, e1, _⟩ := hs.cons_of_append heq (by intro hh; cases hh)
      exact absurd e1 (hn1 _ _)
    · rename_i g1 b r' heq
      obtain ⟨r0, e1, k1⟩ := hs.cons_of_append heq (by intro hh; cases hh)
      by_cases hb : b.tok = .p .rparen
      · simp only [hb, nameTok_rparen, ite_self]
      · obtain ⟨r1, e2, k2⟩ := hs.cons_of_append k1.symm hb
        subst e2
        exact absurd e1 (hn2 _ _ _)
    · rfl

theorem nodeTest_star_closer {c : Cfg} {s : Toks} (hs : Closer s) {g : Bool} {X : Toks} {t r}
    (h : nodeTest c (⟨.p .star, g⟩ :: X) = some (t, r)) :
    nodeTest c (⟨.p .star, g⟩ :: (X ++ s)) = some (t, r ++ s) := by
  simp only [nodeTest] at h ⊢
  split at h
  · rename_i g1 b r'
    simp only [List.cons_append]
    split at h
    · rename_i nm hnm
      split at h
      · rename_i hc; rw [if_pos hc]
        injection h with h; injection h with h1 h2; subst h1 h2; rfl
      · rename_i hc; rw [if_neg hc]
        injection h with h; injection h with h1 h2; subst h1 h2; rfl
    · rename_i hnm
      injection h with h; injection h with h1 h2; subst h1 h2; rfl
  · rename_i hn1
    injection h with h; injection h with h1 h2; subst h1 h2
    split
    · rename_i g1 b r' heq
      obtain ⟨r0, e1, k1⟩ := hs.cons_of_append heq (by intro hh; cases hh)
      by_cases hb : b.tok = .p .rparen
      · simp only [hb, nameTok_rparen]
      · obtain ⟨r1, e2, k2⟩ := hs.cons_of_append k1.symm hb
        subst e2
        exact absurd e1 (hn1 _ _ _)
    · rfl

theorem nodeTest_closer {c : Cfg} {s : Toks} (hs : Closer s) {ts : Toks} {t r}
    (h : nodeTest c ts = some (t, r)) : nodeTest c (ts ++ s) = some (t, r ++ s) := by
  have h0 := h
  unfold nodeTest at h
  split at h
  · injection h with h; injection h with h1 h2; subst h1 h2; simp only [List.cons_append, nodeTest]
  · injection h with h; injection h with h1 h2; subst h1 h2; simp only [List.cons_append, nodeTest]
  · injection h with h; injection h with h1 h2; subst h1 h2; simp only [List.cons_append, nodeTest]
  · injection h with h; injection h with h1 h2; subst h1 h2; simp only [List.cons_append, nodeTest]
  · injection h with h; injection h with h1 h2; subst h1 h2; simp only [List.cons_append, nodeTest]
  · exact nodeTest_star_closer hs h0
  · rename_i a r0 _ _ _ _ _ _
    split at h
    · cases h
    · rename_i n hn
      have hX : ∀ g r, r0 ≠ ⟨.p .lparen, g⟩ :: r := by
        intro g r hr; subst hr; simp at h
      rw [nodeTest_of_name hn hX] at h0
      rw [List.cons_append, nodeTest_of_name hn (fun g r => hs.append_ne (by intro hh; cases hh) (hX g) r)]
      exact nodeTest_name_closer hs h0
  · cases h

theorem opAt_rparen (lvl : Nat) : opAt lvl (.p .rparen) = none := by
  unfold opAt; split <;> simp_all

theorem pArgs1_nil (c : Cfg) (f : Nat) : pArgs1 c f [] = none := by
  cases f with
  | zero => rfl
  | succ f =>
    rw [pArgs1_succ]
    split
    · rename_i heq; obtain ⟨n, hl, _⟩ := pBin_fuel heq; simp at hl
    · rename_i heq; obtain ⟨n, hl, _⟩ := pBin_fuel heq; simp at hl
    · rfl

/-- a successful call on `ts` that leaves `r` succeeds on `ts ++ s` and leaves `r ++ s` -/
structure CloserExt (c : Cfg) (s : Toks) (f : Nat) : Prop where
  bin : ∀ lvl ts e r, pBin c f lvl ts = some (e, r) → pBin c f lvl (ts ++ s) = some (e, r ++ s)
  binRest : ∀ lvl l ts e r, pBinRest c f lvl l ts = some (e, r) →
    pBinRest c f lvl l (ts ++ s) = some (e, r ++ s)
  unary : ∀ ts e r, pUnary c f ts = some (e, r) → pUnary c f (ts ++ s) = some (e, r ++ s)
  unionRest : ∀ l ts e r, pUnionRest c f l ts = some (e, r) → pUnionRest c f l (ts ++ s) = some (e, r ++ s)
  path : ∀ ts e r, pPath c f ts = some (e, r) → pPath c f (ts ++ s) = some (e, r ++ s)
  filt : ∀ b ts e r, pFilt c f b ts = some (e, r) → pFilt c f b (ts ++ s) = some (e, r ++ s)
  primary : ∀ ts e r, pPrimary c f ts = some (e, r) → pPrimary c f (ts ++ s) = some (e, r ++ s)
  rel : ∀ b ts e r, pRel c f b ts = some (e, r) → pRel c f b (ts ++ s) = some (e, r ++ s)
  step : ∀ b ts e r, pStep c f b ts = some (e, r) → pStep c f b (ts ++ s) = some (e, r ++ s)
  preds : ∀ ts e r, pPreds c f ts = some (e, r) → pPreds c f (ts ++ s) = some (e, r ++ s)
  args : ∀ ts e r, pArgs c f ts = some (e, r) → pArgs c f (ts ++ s) = some (e, r ++ s)
  args1 : ∀ ts e r, pArgs1 c f ts = some (e, r) → pArgs1 c f (ts ++ s) = some (e, r ++ s)

theorem closerExt_zero (c : Cfg) (s : Toks) : CloserExt c s 0 := by
  constructor <;> intros <;> simp_all [pBin_zero, pBinRest_zero, pUnary_zero, pUnionRest_zero, pPath_zero,
    pFilt_zero, pPrimary_zero, pRel_zero, pStep_zero, pPreds_zero, pArgs_zero, pArgs1_zero]

section step
variable {c : Cfg} {s : Toks} {f : Nat}

theorem closerExt_bin (ih : CloserExt c s f) : ∀ lvl ts e r, pBin c (f + 1) lvl ts = some (e, r) →
    pBin c (f + 1) lvl (ts ++ s) = some (e, r ++ s) := by
  intro lvl ts e r h
  rw [pBin_succ] at h ⊢
  split at h
  · rename_i hl; rw [if_pos hl]; exact ih.unary _ _ _ h
  · rename_i hl; rw [if_neg hl]
    split at h
    · rename_i l r1 heq
      simp only [ih.bin _ _ _ _ heq]
      exact ih.binRest _ _ _ _ _ h
    · cases h

theorem closerExt_binRest (hs : Closer s) (ih : CloserExt c s f) : ∀ lvl l ts e r, pBinRest c (f + 1) lvl l ts = some (e, r) →
    pBinRest c (f + 1) lvl l (ts ++ s) = some (e, r ++ s) := by
  intro lvl l ts e r h
  rw [pBinRest_succ] at h ⊢
  split at h
  · rename_i t r0
    simp only [List.cons_append]
    split at h
    · rename_i op hop
      split at h
      · rename_i rhs r1 heq
        simp only [ih.bin _ _ _ _ heq]
        exact ih.binRest _ _ _ _ _ h
      · cases h
    · rename_i hop
      injection h with h; injection h with h1 h2; subst h1 h2; rfl
  · injection h with h; injection h with h1 h2; subst h1 h2
    obtain ⟨g, s', rfl⟩ := hs
    simp only [List.nil_append, P, opAt_rparen]

theorem closerExt_unary (hs : Closer s) (ih : CloserExt c s f) : ∀ ts e r, pUnary c (f + 1) ts = some (e, r) →
    pUnary c (f + 1) (ts ++ s) = some (e, r ++ s) := by
  intro ts e r h
  rw [pUnary_succ] at h ⊢
  split at h
  · simp only [List.cons_append]
    split at h
    · rename_i e0 r1 heq
      injection h with h; injection h with h1 h2; subst h1 h2
      simp only [ih.unary _ _ _ heq]
    · cases h
  · rename_i hm
    split
    · rename_i heq
      obtain ⟨r0, e1, _⟩ := hs.cons_of_append heq (by intro hh; cases hh)
      exact absurd e1 (hm _ _)
    · split at h
      · rename_i l r1 heq
        simp only [ih.path _ _ _ heq]
        exact ih.unionRest _ _ _ _ h
      · cases h

theorem closerExt_unionRest (hs : Closer s) (ih : CloserExt c s f) : ∀ l ts e r, pUnionRest c (f + 1) l ts = some (e, r) →
    pUnionRest c (f + 1) l (ts ++ s) = some (e, r ++ s) := by
  intro l ts e r h
  rw [pUnionRest_succ] at h ⊢
  split at h
  · simp only [List.cons_append]
    split at h
    · rename_i rhs r1 heq
      simp only [ih.path _ _ _ heq]
      exact ih.unionRest _ _ _ _ h
    · cases h
  · rename_i hm
    injection h with h; injection h with h1 h2; subst h1 h2
    split
    · rename_i heq
      obtain ⟨r0, e1, _⟩ := hs.cons_of_append heq (by intro hh; cases hh)
      exact absurd e1 (hm _ _)
    · rfl

theorem closerExt_path (hs : Closer s) (ih : CloserExt c s f) : ∀ ts e r, pPath c (f + 1) ts = some (e, r) →
    pPath c (f + 1) (ts ++ s) = some (e, r ++ s) := by
  intro ts e r h
  rw [pPath_succ] at h ⊢
  split at h
  · simp only [List.cons_append, startsStep_closer hs]
    split at h
    · rename_i hst; rw [if_pos hst]; exact ih.rel _ _ _ _ h
    · rename_i hst; rw [if_neg hst]
      injection h with h; injection h with h1 h2; subst h1 h2; rfl
  · simp only [List.cons_append]
    exact ih.rel _ _ _ _ h
  · rename_i hn1 hn2
    split
    · rename_i heq
      obtain ⟨r0, e1, _⟩ := hs.cons_of_append heq (by intro hh; cases hh)
      exact absurd e1 (hn1 _ _)
    · rename_i heq
      obtain ⟨r0, e1, _⟩ := hs.cons_of_append heq (by intro hh; cases hh)
      exact absurd e1 (hn2 _ _)
    · rw [startsPrimary_closer hs]
      split at h
      · rename_i hsp; rw [if_pos hsp]
        split at h
        · rename_i e0 r0 hp
          simp only [ih.primary _ _ _ hp]
          split at h
          · rename_i e1 g1 r1 hf
            have hf' := ih.filt _ _ _ _ hf
            rw [List.cons_append] at hf'
            simp only [hf']
            exact ih.rel _ _ _ _ h
          · rename_i e1 g1 r1 hf
            have hf' := ih.filt _ _ _ _ hf
            rw [List.cons_append] at hf'
            simp only [hf']
            exact ih.rel _ _ _ _ h
          · rename_i hm1 hm2
            rw [ih.filt _ _ _ _ h]
            split
            · rename_i heq
              injection heq with heq; injection heq with h1 h2
              obtain ⟨r2, e1, _⟩ := hs.cons_of_append h2 (by intro hh; cases hh)
              exact absurd (by rw [h, e1, h1]) (hm1 _ _ _)
            · rename_i heq
              injection heq with heq; injection heq with h1 h2
              obtain ⟨r2, e1, _⟩ := hs.cons_of_append h2 (by intro hh; cases hh)
              exact absurd (by rw [h, e1, h1]) (hm2 _ _ _)
            · rfl
        · cases h
      · rename_i hsp; rw [if_neg hsp]; exact ih.rel _ _ _ _ h

theorem closerExt_filt (hs : Closer s) (ih : CloserExt c s f) : ∀ b ts e r, pFilt c (f + 1) b ts = some (e, r) →
    pFilt c (f + 1) b (ts ++ s) = some (e, r ++ s) := by
  intro b ts e r h
  rw [pFilt_succ] at h ⊢
  split at h
  · simp only [List.cons_append]
    split at h
    · rename_i p g1 r1 hb
      have hb' := ih.bin _ _ _ _ hb
      rw [List.cons_append] at hb'
      simp only [hb']
      exact ih.filt _ _ _ _ h
    · cases h
  · rename_i hm
    injection h with h; injection h with h1 h2; subst h1 h2
    split
    · rename_i heq
      obtain ⟨r0, e1, _⟩ := hs.cons_of_append heq (by intro hh; cases hh)
      exact absurd e1 (hm _ _)
    · rfl

theorem closerExt_primary (hs : Closer s) (ih : CloserExt c s f) : ∀ ts e r, pPrimary c (f + 1) ts = some (e, r) →
    pPrimary c (f + 1) (ts ++ s) = some (e, r ++ s) := by
  intro ts e r h
  rw [pPrimary_succ] at h ⊢
  split at h
  · simp only [List.cons_append]
    split at h
    · rename_i e0 g1 r1 hb
      injection h with h; injection h with h1 h2; subst h1 h2
      have hb' := ih.bin _ _ _ _ hb
      rw [List.cons_append] at hb'
      simp only [hb']
    · cases h
  · injection h with h; injection h with h1 h2; subst h1 h2
    simp only [List.cons_append]
  · injection h with h; injection h with h1 h2; subst h1 h2
    simp only [List.cons_append]
  · rename_i hn1 hn2 hn3
    split
    · rename_i heq
      obtain ⟨r0, e1, _⟩ := hs.cons_of_append heq (by intro hh; cases hh)
      exact absurd e1 (hn1 _ _)
    · rename_i heq
      obtain ⟨r0, e1, _⟩ := hs.cons_of_append heq (by intro hh; cases hh)
      exact absurd e1 (hn2 _ _ _ _)
    · rename_i heq
      obtain ⟨r0, e1, _⟩ := hs.cons_of_append heq (by intro hh; cases hh)
      exact absurd e1 (hn3 _ _ _)
    · split at h
      · rename_i pfx name r0 hc
        simp only [callStart_closer_some hc]
        split at h
        · rename_i as r1 ha
          injection h with h; injection h with h1 h2; subst h1 h2
          simp only [ih.args _ _ _ ha]
        · cases h
      · rename_i hc
        simp only [callStart_closer_none hs hc]
        exact number_closer hs h

theorem closerExt_rel (hs : Closer s) (ih : CloserExt c s f) : ∀ b ts e r, pRel c (f + 1) b ts = some (e, r) →
    pRel c (f + 1) b (ts ++ s) = some (e, r ++ s) := by
  intro b ts e r h
  rw [pRel_succ] at h ⊢
  split at h
  · rename_i e1 g1 r1 hst
    have hst' := ih.step _ _ _ _ hst
    rw [List.cons_append] at hst'
    simp only [hst']
    exact ih.rel _ _ _ _ h
  · rename_i e1 g1 r1 hst
    have hst' := ih.step _ _ _ _ hst
    rw [List.cons_append] at hst'
    simp only [hst']
    exact ih.rel _ _ _ _ h
  · rename_i hm1 hm2
    rw [ih.step _ _ _ _ h]
    split
    · rename_i heq
      injection heq with heq; injection heq with h1 h2
      obtain ⟨r2, e1, _⟩ := hs.cons_of_append h2 (by intro hh; cases hh)
      exact absurd (by rw [h, e1, h1]) (hm1 _ _ _)
    · rename_i heq
      injection heq with heq; injection heq with h1 h2
      obtain ⟨r2, e1, _⟩ := hs.cons_of_append h2 (by intro hh; cases hh)
      exact absurd (by rw [h, e1, h1]) (hm2 _ _ _)
    · rfl

theorem closerExt_step (hs : Closer s) (ih : CloserExt c s f) : ∀ b ts e r, pStep c (f + 1) b ts = some (e, r) →
    pStep c (f + 1) b (ts ++ s) = some (e, r ++ s) := by
  intro b ts e r h
  rw [pStep_succ] at h ⊢
  split at h
  · injection h with h; injection h with h1 h2; subst h1 h2
    simp only [List.cons_append]
  · injection h with h; injection h with h1 h2; subst h1 h2
    simp only [List.cons_append]
  · simp only [List.cons_append]
    split at h
    · rename_i t r1 hnt
      simp only [nodeTest_closer hs hnt]
      split at h
      · rename_i ps r2 hp
        injection h with h; injection h with h1 h2; subst h1 h2
        simp only [ih.preds _ _ _ hp]
      · cases h
    · cases h
  · simp only [List.cons_append]
    split at h
    · rename_i t r1 hnt
      simp only [nodeTest_closer hs hnt]
      split at h
      · rename_i ps r2 hp
        injection h with h; injection h with h1 h2; subst h1 h2
        simp only [ih.preds _ _ _ hp]
      · cases h
    · cases h
  · rename_i hn1 hn2 hn3 hn4
    split
    · rename_i heq
      obtain ⟨r0, e1, _⟩ := hs.cons_of_append heq (by intro hh; cases hh)
      exact absurd e1 (hn1 _ _)
    · rename_i heq
      obtain ⟨r0, e1, _⟩ := hs.cons_of_append heq (by intro hh; cases hh)
      exact absurd e1 (hn2 _ _)
    · rename_i heq
      obtain ⟨r0, e1, _⟩ := hs.cons_of_append heq (by intro hh; cases hh)
      exact absurd e1 (hn3 _ _)
    · rename_i heq
      obtain ⟨r0, e1, k1⟩ := hs.cons_of_append heq (by intro hh; cases hh)
      obtain ⟨r1, e2, _⟩ := hs.cons_of_append k1.symm (by intro hh; cases hh)
      subst e2
      exact absurd e1 (hn4 _ _ _ _)
    · split at h
      · rename_i pfx name r0 hc
        simp only [callStart_closer_some hc]
        split at h
        · rename_i as r1 ha
          injection h with h; injection h with h1 h2; subst h1 h2
          simp only [ih.args _ _ _ ha]
        · cases h
      · rename_i hc
        simp only [callStart_closer_none hs hc]
        split at h
        · rename_i t r1 hnt
          simp only [nodeTest_closer hs hnt]
          split at h
          · rename_i ps r2 hp
            injection h with h; injection h with h1 h2; subst h1 h2
            simp only [ih.preds _ _ _ hp]
          · cases h
        · cases h

theorem closerExt_preds (hs : Closer s) (ih : CloserExt c s f) : ∀ ts e r, pPreds c (f + 1) ts = some (e, r) →
    pPreds c (f + 1) (ts ++ s) = some (e, r ++ s) := by
  intro ts e r h
  rw [pPreds_succ] at h ⊢
  split at h
  · simp only [List.cons_append]
    split at h
    · rename_i p g1 r1 hb
      have hb' := ih.bin _ _ _ _ hb
      rw [List.cons_append] at hb'
      simp only [hb']
      split at h
      · rename_i ps r2 hp
        injection h with h; injection h with h1 h2; subst h1 h2
        simp only [ih.preds _ _ _ hp]
      · cases h
    · cases h
  · rename_i hm
    injection h with h; injection h with h1 h2; subst h1 h2
    split
    · rename_i heq
      obtain ⟨r0, e1, _⟩ := hs.cons_of_append heq (by intro hh; cases hh)
      exact absurd e1 (hm _ _)
    · rfl

theorem closerExt_args (ih : CloserExt c s f) : ∀ ts e r, pArgs c (f + 1) ts = some (e, r) →
    pArgs c (f + 1) (ts ++ s) = some (e, r ++ s) := by
  intro ts e r h
  rw [pArgs_succ] at h ⊢
  split at h
  · injection h with h; injection h with h1 h2; subst h1 h2
    simp only [List.cons_append]
  · rename_i hm
    cases ts with
    | nil => rw [pArgs1_nil] at h; cases h
    | cons a ts' =>
      simp only [List.cons_append]
      split
      · rename_i heq
        injection heq with h1 h2
        subst h1
        exact absurd rfl (hm _ _)
      · exact ih.args1 _ _ _ h

theorem closerExt_args1 (ih : CloserExt c s f) : ∀ ts e r, pArgs1 c (f + 1) ts = some (e, r) →
    pArgs1 c (f + 1) (ts ++ s) = some (e, r ++ s) := by
  intro ts e r h
  rw [pArgs1_succ] at h ⊢
  split at h
  · rename_i e0 g1 r1 hb
    have hb' := ih.bin _ _ _ _ hb
    rw [List.cons_append] at hb'
    simp only [hb']
    split at h
    · rename_i es r2 ha
      injection h with h; injection h with h1 h2; subst h1 h2
      simp only [ih.args1 _ _ _ ha]
    · cases h
  · rename_i e0 g1 r1 hb
    have hb' := ih.bin _ _ _ _ hb
    rw [List.cons_append] at hb'
    simp only [hb']
    injection h with h; injection h with h1 h2; subst h1 h2; rfl
  · cases h

end step

/-- **the parser does not look beyond a closing parenthesis** -/
theorem closerExt (c : Cfg) {s : Toks} (hs : Closer s) : ∀ f, CloserExt c s f
  | 0 => closerExt_zero c s
  | f + 1 =>
    have ih := closerExt c hs f
    ⟨closerExt_bin ih, closerExt_binRest hs ih, closerExt_unary hs ih, closerExt_unionRest hs ih, closerExt_path hs ih, closerExt_filt hs ih,
      closerExt_primary hs ih, closerExt_rel hs ih, closerExt_step hs ih, closerExt_preds hs ih, closerExt_args ih, closerExt_args1 ih⟩

/-- a successful `pBin` run is not disturbed by what follows a closing parenthesis: appending a token
    list that starts with `)` leaves the tree and the consumed tokens unchanged -/
theorem pBin_closer {c : Cfg} {f lvl : Nat} {ts r s : Toks} {e : Expr} (hs : Closer s)
    (h : pBin c f lvl ts = some (e, r)) : pBin c f lvl (ts ++ s) = some (e, r ++ s) :=
  (closerExt c hs f).bin _ _ _ _ h

/-- … in particular an expression that was read completely is read completely up to the `)` -/
theorem pBin_before_rparen {c : Cfg} {f : Nat} {ts : Toks} {e : Expr} (g : Bool) (r' : Toks)
    (h : pBin c f 0 ts = some (e, [])) :
    pBin c f 0 (ts ++ ⟨.p .rparen, g⟩ :: r') = some (e, ⟨.p .rparen, g⟩ :: r') :=
  pBin_closer ⟨g, r', rfl⟩ h

theorem pBin_level_down {c : Cfg} {f lvl : Nat} {ts : Toks} {e : Expr} (hl : ¬ lvl ≥ 6)
    (h : pBin c f (lvl + 1) ts = some (e, [])) : pBin c (f + 1) lvl ts = some (e, []) := by
  rw [pBin_succ, if_neg hl, h]
  cases f with
  | zero => cases h
  | succ f => rfl

/-- **redundant parentheses around a whole expression** do not change the tree -/
theorem parse_parens (c : Cfg) (ts : Toks) (e : Expr) (g1 g2 : Bool) (h : parseToks c ts = some e) :
    parseToks c (⟨.p .lparen, g1⟩ :: ts ++ [⟨.p .rparen, g2⟩]) = some e := by
  obtain ⟨f, h0⟩ := parseToks_sound c ts e h
  cases f with
  | zero => cases h0
  | succ f =>
    have h1 := pBin_before_rparen g2 [] h0
    rw [List.cons_append]
    generalize ts ++ [⟨.p .rparen, g2⟩] = us at h1
    have hprim : pPrimary c (f + 2) (⟨.p .lparen, g1⟩ :: us) = some (e, []) := by
      rw [pPrimary_succ]; simp only [h1]
    have hfilt : pFilt c (f + 2) e [] = some (e, []) := rfl
    have hpath : pPath c (f + 3) (⟨.p .lparen, g1⟩ :: us) = some (e, []) := by
      rw [pPath_succ]; simp only [startsPrimary, if_true, hprim, hfilt]
    have hunion : pUnionRest c (f + 3) e [] = some (e, []) := rfl
    have hunary : pUnary c (f + 4) (⟨.p .lparen, g1⟩ :: us) = some (e, []) := by
      rw [pUnary_succ]; simp only [hpath, hunion]
    have h6 : pBin c (f + 5) 6 (⟨.p .lparen, g1⟩ :: us) = some (e, []) := by
      rw [pBin_succ, if_pos (Nat.le_refl 6)]; exact hunary
    have h5 := pBin_level_down (by omega) h6
    have h4 := pBin_level_down (by omega) h5
    have h3 := pBin_level_down (by omega) h4
    have h2 := pBin_level_down (by omega) h3
    have h1' := pBin_level_down (by omega) h2
    have h0' := pBin_level_down (by omega) h1'
    exact parseToks_complete c _ e _ h0'

end Xsel.Syntax
