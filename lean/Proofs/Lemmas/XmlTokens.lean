/-
  Proofs/Lemmas/XmlTokens.lean — C09 step (a): on the token stream of a well-formed document the
  adapter (`Xml.adapter`, MODEL of parser/xml.go) emits exactly the event list the document
  denotes (`specEvents`).
-/
import Proofs.Lemmas.XmlSpec

namespace Xsel.XmlL
open Xsel Xsel.Xml

/-! ### flushing -/

/-- the token list does not start with character data -/
def noCharHead : List Tok → Bool
  | .chardata _ :: _ => false
  | _ => true

theorem flush_none (d : Nat) : flush d none = [] := rfl

theorem flush_inside (d : Nat) (s : Chars) : flush (d + 1) (some s) = [.text s] := by
  simp [flush]

/-- a non-chardata token (or the end of the input) flushes the pending character data -/
theorem adapter_flush (d : Nat) (p : Option Chars) :
    ∀ ts, noCharHead ts = true → adapter d p ts = flush d p ++ adapter d none ts
  | [], _ => by simp [adapter, flush_none]
  | .chardata _ :: _, h => by simp [noCharHead] at h
  | .start _ _ :: _, _ => by simp [adapter, flush_none]
  | .stop :: _, _ => by simp [adapter, flush_none]
  | .comment _ :: _, _ => by simp [adapter, flush_none]
  | .procinst _ _ :: _, _ => by simp [adapter, flush_none]
  | .directive :: _, _ => by simp [adapter, flush_none]

/-! ### the tokens of one text node -/

theorem adapter_chardata (d : Nat) (p : Option Chars) (s : Chars) (ts : List Tok) :
    adapter d p (.chardata s :: ts) = adapter d (some (p.getD [] ++ s)) ts := rfl

/-- with character data pending, the tokens of the (rest of a) text node extend it -/
theorem adapter_textToks_some (d : Nat) (R : List Tok) :
    ∀ (segs : List (Bool × Chars)) (a : Chars) (q : Option Chars),
      adapter d (some a) (textToks q segs ++ R) = adapter d (some (a ++ q.getD [] ++ flat segs)) R
  | [], a, none => by simp [textToks, flat]
  | [], a, some s => by simp [textToks, flat, adapter_chardata]
  | (false, s) :: t, a, q => by
    rw [textToks, adapter_textToks_some d R t a]
    simp [flat, List.append_assoc]
  | (true, s) :: t, a, none => by
    simp only [textToks, List.nil_append, List.cons_append, adapter_chardata, Option.getD_some]
    rw [adapter_textToks_some d R t (a ++ s) none]
    simp [flat, List.append_assoc]
  | (true, s) :: t, a, some q => by
    simp only [textToks, List.cons_append, List.nil_append, adapter_chardata, Option.getD_some]
    rw [adapter_textToks_some d R t (a ++ q ++ s) none]
    simp [flat, List.append_assoc]

/-- nothing pending in the adapter, a plain run pending in the tokeniser -/
theorem adapter_textToks_none (d : Nat) (R : List Tok) :
    ∀ (segs : List (Bool × Chars)) (q : Chars),
      adapter d none (textToks (some q) segs ++ R) = adapter d (some (q ++ flat segs)) R
  | [], q => by simp [textToks, flat, adapter_chardata]
  | (false, s) :: t, q => by
    rw [textToks, Option.getD_some, adapter_textToks_none d R t (q ++ s)]
    simp [flat, List.append_assoc]
  | (true, s) :: t, q => by
    simp only [textToks, List.cons_append, List.nil_append, adapter_chardata, Option.getD_none,
      Option.getD_some]
    rw [adapter_textToks_some d R t _ none]
    simp [flat, List.append_assoc]

/-- the tokens of a text node are merged into one pending string: the concatenation of its
    segments, CDATA sections included -/
theorem adapter_text (d : Nat) (R : List Tok) (segs : List (Bool × Chars))
    (h : segs.isEmpty = false) :
    adapter d none (textToks none segs ++ R) = adapter d (some (flat segs)) R := by
  match segs, h with
  | (false, s) :: t, _ =>
    rw [textToks, Option.getD_none, List.nil_append, adapter_textToks_none d R t s]
    simp [flat]
  | (true, s) :: t, _ =>
    simp only [textToks, List.cons_append, List.nil_append, adapter_chardata, Option.getD_none]
    rw [adapter_textToks_some d R t _ none]
    simp [flat]

/-- a text node followed by a non-chardata token (or the end) inside the document element
    yields exactly ONE text event -/
theorem adapter_text_node (d : Nat) (R : List Tok) (segs : List (Bool × Chars))
    (h : segs.isEmpty = false) (hR : noCharHead R = true) :
    adapter (d + 1) none (textToks none segs ++ R)
      = .text (flat segs) :: adapter (d + 1) none R := by
  rw [adapter_text _ _ _ h, adapter_flush _ _ _ hR, flush_inside]
  rfl

/-! ### attributes -/

def ordAttr (sc : List (Chars × Chars)) (a : Option Chars × Chars × Chars) : XAttr :=
  { name := { space := attrUri sc a.1, loc := a.2.1 }, val := a.2.2 }

theorem createNamespaces_append (xs ys : List XAttr) :
    createNamespaces (xs ++ ys) = createNamespaces xs ++ (createNamespaces ys).tail := by
  simp [createNamespaces, List.filterMap_append]

theorem createAttrs_append (xs ys : List XAttr) :
    createAttrs (xs ++ ys) = createAttrs xs ++ createAttrs ys := by
  simp [createAttrs, List.filterMap_append]

theorem xmlnsC_ne_nil : xmlnsC ≠ [] := by decide

/-- every declaration gives its namespace event … -/
theorem createNamespaces_decls : ∀ decls : List (Chars × Chars),
    createNamespaces (decls.map declAttr) = nsEvents decls
  | [] => rfl
  | pu :: t => by
    have ih := createNamespaces_decls t
    simp only [createNamespaces, nsEvents, List.cons.injEq, true_and] at ih ⊢
    rw [List.map_cons, List.filterMap_cons, ih]
    cases hp : pu.1.isEmpty
    · have : (xmlnsC.isEmpty) = false := by decide
      simp [declAttr, hp, this]
    · have : pu.1 = [] := by simpa using hp
      simp [declAttr, this]

/-- … and no attribute event -/
theorem createAttrs_decls : ∀ decls : List (Chars × Chars),
    createAttrs (decls.map declAttr) = []
  | [] => rfl
  | pu :: t => by
    have ih := createAttrs_decls t
    simp only [createAttrs] at ih ⊢
    rw [List.map_cons, List.filterMap_cons, ih]
    cases hp : pu.1.isEmpty <;> simp [declAttr, hp]

/-- an ordinary attribute gives no namespace event … -/
theorem createNamespaces_attrs (sc : List (Chars × Chars)) :
    ∀ attrs : List (Option Chars × Chars × Chars), attrs.all (wfAttr sc) = true →
      createNamespaces (attrs.map (ordAttr sc)) = [.ns xmlC xmlNsUri]
  | [], _ => rfl
  | a :: t, h => by
    rw [List.all_cons, Bool.and_eq_true] at h
    have ih := createNamespaces_attrs sc t h.2
    simp only [createNamespaces, List.cons.injEq, true_and] at ih ⊢
    rw [List.map_cons, List.filterMap_cons, ih]
    have ha := h.1
    simp only [wfAttr, Bool.and_eq_true, bne_iff_ne, ne_eq] at ha
    simp [ordAttr, ha.1.1, ha.1.2]

/-- … and its attribute event -/
theorem createAttrs_attrs (sc : List (Chars × Chars)) :
    ∀ attrs : List (Option Chars × Chars × Chars), attrs.all (wfAttr sc) = true →
      createAttrs (attrs.map (ordAttr sc)) = attrEvents sc attrs
  | [], _ => rfl
  | a :: t, h => by
    rw [List.all_cons, Bool.and_eq_true] at h
    have ih := createAttrs_attrs sc t h.2
    simp only [createAttrs, attrEvents] at ih ⊢
    rw [List.map_cons, List.filterMap_cons, ih]
    have ha := h.1
    simp only [wfAttr, Bool.and_eq_true, bne_iff_ne, ne_eq] at ha
    simp [ordAttr, ha.1.1, ha.1.2]

/-- the attribute list of a start tag, in either order of writing, gives the `xml` namespace
    event, the declarations in order, then the ordinary attributes in order -/
theorem start_events (sc : List (Chars × Chars)) (decls : List (Chars × Chars))
    (attrs : List (Option Chars × Chars × Chars)) (af : Bool)
    (h : attrs.all (wfAttr sc) = true) :
    let das := decls.map declAttr
    let aas := attrs.map (ordAttr sc)
    createNamespaces (if af then aas ++ das else das ++ aas)
        ++ createAttrs (if af then aas ++ das else das ++ aas)
      = nsEvents decls ++ attrEvents sc attrs := by
  intro das aas
  cases af
  · simp only [Bool.false_eq_true, if_false, createNamespaces_append, createAttrs_append, das, aas,
      createNamespaces_decls, createAttrs_decls, createNamespaces_attrs sc attrs h,
      createAttrs_attrs sc attrs h]
    simp
  · simp only [if_true, createNamespaces_append, createAttrs_append, das, aas,
      createNamespaces_decls, createAttrs_decls, createNamespaces_attrs sc attrs h,
      createAttrs_attrs sc attrs h]
    simp [nsEvents]

/-! ### inside the document element -/

theorem noCharHead_append_of_nonempty {ts us : List Tok} (h : noCharHead ts = true)
    (hne : ts ≠ []) : noCharHead (ts ++ us) = true := by
  cases ts with
  | nil => exact absurd rfl hne
  | cons t r => cases t <;> simp_all [noCharHead]

/-- the tokens of a list of children that does not start with a text node do not start with
    character data -/
theorem noCharHead_kids (sc : List (Chars × Chars)) (t : XNodes) (R : List Tok)
    (hw : wfKids sc t = true) (ht : headIs isText t = false) (hR : noCharHead R = true) :
    noCharHead (tokensOfList sc t ++ R) = true := by
  cases t with
  | nil => simpa [tokensOfList] using hR
  | cons n r =>
    rw [wfKids, Bool.and_eq_true, Bool.and_eq_true] at hw
    have hn := hw.1.1
    cases n <;> simp_all [tokensOfList, tokensOf, noCharHead, headIs, isText, wfNode]

mutual
theorem adapter_node (sc : List (Chars × Chars)) (n : XNode) (d : Nat) (R : List Tok)
    (hw : wfNode sc n = true) (hR : isText n = true → noCharHead R = true) :
    adapter (d + 1) none (tokensOf sc n ++ R) = specEvents sc n ++ adapter (d + 1) none R :=
  match n with
  | .elem pfx loc decls attrs af kids => by
    simp only [wfNode, Bool.and_eq_true] at hw
    have hs := start_events (scopeOf sc decls) decls attrs af hw.1.2
    unfold ordAttr at hs
    simp only [tokensOf, specEvents, List.cons_append, List.append_assoc, adapter, flush_none,
      List.nil_append]
    rw [adapter_kids (scopeOf sc decls) kids (d + 1) _ hw.2 rfl]
    simp only [adapter, flush_none, List.nil_append, Nat.add_sub_cancel]
    rw [← List.append_assoc (createNamespaces _), hs]
    simp [List.append_assoc]
  | .text segs => by
    simp only [wfNode, wfText, Bool.and_eq_true, Bool.not_eq_true'] at hw
    simp only [tokensOf, specEvents, List.cons_append, List.nil_append]
    exact adapter_text_node d R segs hw.1 (hR rfl)
  | .comment s => by
    simp [tokensOf, specEvents, adapter, flush_none]
  | .pi t v => by
    have : (t == xmlC) = false := by simpa [wfNode] using hw
    simp [tokensOf, specEvents, adapter, flush_none, this]
  | .xmldecl _ => by simp [wfNode] at hw
  | .doctype => by simp [wfNode] at hw
  | .ws _ => by simp [wfNode] at hw
theorem adapter_kids (sc : List (Chars × Chars)) (l : XNodes) (d : Nat) (R : List Tok)
    (hw : wfKids sc l = true) (hR : noCharHead R = true) :
    adapter (d + 1) none (tokensOfList sc l ++ R)
      = specEventsList sc l ++ adapter (d + 1) none R :=
  match l with
  | .nil => by simp [tokensOfList, specEventsList]
  | .cons n t => by
    rw [wfKids, Bool.and_eq_true, Bool.and_eq_true] at hw
    have hR' : isText n = true → noCharHead (tokensOfList sc t ++ R) = true := by
      intro hn
      have ht : headIs isText t = false := by simpa [hn] using hw.1.2
      exact noCharHead_kids sc t R hw.2 ht hR
    rw [tokensOfList, specEventsList, List.append_assoc,
      adapter_node sc n d _ hw.1.1 hR', adapter_kids sc t d R hw.2 hR, List.append_assoc]
end

/-! ### the children of the document node -/

/-- an element at any depth, with character data possibly pending before it -/
theorem adapter_elem (sc : List (Chars × Chars)) (d : Nat) (p : Option Chars) (R : List Tok)
    (pfx : Option Chars) (loc : Chars) (decls : List (Chars × Chars))
    (attrs : List (Option Chars × Chars × Chars)) (af : Bool) (kids : XNodes)
    (hw : wfNode sc (.elem pfx loc decls attrs af kids) = true) :
    adapter d p (tokensOf sc (.elem pfx loc decls attrs af kids) ++ R)
      = flush d p ++ (specEvents sc (.elem pfx loc decls attrs af kids) ++ adapter d none R) := by
  simp only [wfNode, Bool.and_eq_true] at hw
  have hs := start_events (scopeOf sc decls) decls attrs af hw.1.2
  unfold ordAttr at hs
  simp only [tokensOf, specEvents, List.cons_append, List.append_assoc, adapter]
  rw [adapter_kids (scopeOf sc decls) kids d _ hw.2 rfl]
  simp only [adapter, flush_none, List.nil_append, Nat.add_sub_cancel]
  rw [← List.append_assoc (createNamespaces _), hs]
  simp [List.append_assoc]

/-- what may be pending between the children of the document node: white space only -/
def wsPending : Option Chars → Bool
  | none => true
  | some s => isWs s

theorem flush_top (p : Option Chars) (h : wsPending p = true) : flush 0 p = [] := by
  cases p with
  | none => rfl
  | some s => simp [flush, show isWs s = true from h]

theorem wsPending_append (p : Option Chars) (s : Chars) (h : wsPending p = true)
    (hs : isWs s = true) : wsPending (some (p.getD [] ++ s)) = true := by
  cases p with
  | none => simpa [wsPending] using hs
  | some q =>
    have hq : isWs q = true := h
    simp only [wsPending, isWs, Option.getD_some, List.all_append, Bool.and_eq_true] at *
    exact ⟨hq, hs⟩

/-- outside the document element: the XML declaration, the DOCTYPE and white space yield nothing -/
theorem adapter_top (sc : List (Chars × Chars)) : ∀ (l : XNodes) (p : Option Chars),
    wsPending p = true → wfTop sc l = true →
      adapter 0 p (tokensOfList sc l) = specEventsList sc l
  | .nil, p, hp, _ => by simp [tokensOfList, specEventsList, adapter, flush_top p hp]
  | .cons n t, p, hp, hw => by
    rw [wfTop, Bool.and_eq_true] at hw
    have ih := adapter_top sc t none rfl hw.2
    rw [tokensOfList, specEventsList]
    match n, hw.1 with
    | .elem pfx loc decls attrs af kids, hn =>
      rw [adapter_elem sc 0 p _ pfx loc decls attrs af kids (by simpa [wfTopNode] using hn),
        flush_top p hp, ih]
      rfl
    | .text _, hn => simp [wfTopNode] at hn
    | .comment s, _ => simp [tokensOf, specEvents, adapter, flush_top p hp, ih]
    | .pi tg v, hn =>
      have : (tg == xmlC) = false := by simpa [wfTopNode, wfNode] using hn
      simp [tokensOf, specEvents, adapter, flush_top p hp, ih, this]
    | .xmldecl _, _ => simp [tokensOf, specEvents, adapter, flush_top p hp, ih]
    | .doctype, _ => simp [tokensOf, specEvents, adapter, flush_top p hp, ih]
    | .ws s, hn =>
      simp only [wfTopNode, Bool.and_eq_true] at hn
      simp only [tokensOf, specEvents, List.cons_append, List.nil_append, adapter]
      exact adapter_top sc t _ (wsPending_append p s hp hn.1.2) hw.2

/-- (a) the adapter emits exactly the event list the document denotes -/
theorem events_of_tokens (top : XNodes) (h : WFDoc top) :
    Xml.events (Xml.docTokens top) = docEvents top :=
  adapter_top topScope top none rfl h.1

end Xsel.XmlL
