/-
  Proofs/Lemmas/NamesRename.lean — renaming of the prefixes of a query together with the
  prefix bindings of its environment leaves every evaluation unchanged (lemmas for C11).

  `Expr.rename ρ` renames every prefix that is resolved through the prefix bindings: the
  prefix of a variable reference, of a function name, and of the node tests `p:*` and `p:x`.
  `Env.rename ρ` renames the keys of the prefix bindings; variables and functions are keyed by
  (namespace URI, local name) and stay as they are.

  The library has one more place where a name is looked up in the prefix bindings: on the
  NAMESPACE axis the name test `namespace::x` matches the namespace node whose URI is bound
  to the prefix `x` (`NodeTest.apply`, case `.name`).  `rename` does not touch plain names,
  so the invariance theorem carries the decidable syntactic hypothesis `noNsAxisName e`
  (no step `namespace::x`).
-/
import Proofs.Lemmas.EvalCalls

namespace Xsel
open Arena

/-! ## renaming -/

def NodeTest.rename (ρ : Chars → Chars) : NodeTest → NodeTest
  | .nsAny p => .nsAny (ρ p)
  | .qname p n => .qname (ρ p) n
  | t => t

mutual
def Expr.rename (ρ : Chars → Chars) : Expr → Expr
  | .bin op l r => .bin op (l.rename ρ) (r.rename ρ)
  | .neg e => .neg (e.rename ρ)
  | .num n => .num n
  | .lit s => .lit s
  | .var pfx name => .var (pfx.map ρ) name
  | .call base pfx name args => .call (base.rename ρ) (pfx.map ρ) name (args.rename ρ)
  | .root => .root
  | .ctx => .ctx
  | .step base ax t preds => .step (base.rename ρ) ax (t.rename ρ) (preds.rename ρ)
  | .filt base pred => .filt (base.rename ρ) (pred.rename ρ)
def Exprs.rename (ρ : Chars → Chars) : Exprs → Exprs
  | .nil => .nil
  | .cons e es => .cons (e.rename ρ) (es.rename ρ)
end

def Env.rename (ρ : Chars → Chars) (env : Env) : Env :=
  { env with ns := env.ns.map (fun pu => (ρ pu.1, pu.2)) }

/-- the name test `x` (no prefix, no wildcard) -/
def NodeTest.isName : NodeTest → Bool
  | .name _ => true
  | _ => false

mutual
/-- no step of the form `namespace::x` (see the head of this file) -/
def noNsAxisName : Expr → Bool
  | .bin _ l r => noNsAxisName l && noNsAxisName r
  | .neg e => noNsAxisName e
  | .call base _ _ args => noNsAxisName base && noNsAxisNameL args
  | .step base ax t preds =>
      noNsAxisName base && !(ax == .namespace && t.isName) && noNsAxisNameL preds
  | .filt base p => noNsAxisName base && noNsAxisName p
  | _ => true
def noNsAxisNameL : Exprs → Bool
  | .nil => true
  | .cons e es => noNsAxisName e && noNsAxisNameL es
end

/-! ## lookups -/

theorem lookup_rename {β : Type} {ρ : Chars → Chars} (hρ : ∀ p q, ρ p = ρ q → p = q) (p : Chars) :
    ∀ ns : List (Chars × β), lookup (ρ p) (ns.map (fun pu => (ρ pu.1, pu.2))) = lookup p ns
  | [] => rfl
  | (k, v) :: t => by
    simp only [List.map_cons, lookup, lookup_rename hρ p t]
    by_cases h : k = p
    · subst h; simp
    · have h' : ρ k ≠ ρ p := fun e => h (hρ _ _ e)
      simp [h, h']

theorem resolve_rename {ρ : Chars → Chars} (hρ : ∀ p q, ρ p = ρ q → p = q) (env : Env)
    (pfx : Option Chars) (name : Chars) :
    resolve (env.rename ρ) (pfx.map ρ) name = resolve env pfx name := by
  cases pfx with
  | none => rfl
  | some p => simp only [Option.map_some, resolve, Env.rename, lookup_rename hρ]

theorem NodeTest.apply_rename {ρ : Chars → Chars} (hρ : ∀ p q, ρ p = ρ q → p = q) (a : Arena)
    (env : Env) (ax : Axis) (t : NodeTest) (hn : (ax == .namespace && t.isName) = false)
    (l : List Nat) :
    NodeTest.apply a (env.rename ρ) ax (t.rename ρ) l = NodeTest.apply a env ax t l := by
  cases t <;> simp only [NodeTest.rename, NodeTest.apply, Env.rename, lookup_rename hρ]
  case name n =>
    have hp : (NodeTest.principal ax == Kind.ns) = false := by
      cases ax <;> simp [NodeTest.isName] at hn <;> simp [NodeTest.principal]
    simp only [hp, Bool.and_false, Bool.false_and]

theorem Exprs.isNil_rename (ρ : Chars → Chars) (es : Exprs) : (es.rename ρ).isNil = es.isNil := by
  cases es <;> simp [Exprs.rename, Exprs.isNil]

/-! ## the function library does not read the environment -/

theorem builtin_env (sem : Sem) (a : Arena) (env env' : Env) (res : Val) (pos size : Nat)
    (name : Chars) (args : List Val) :
    builtin sem ⟨a, env, res, pos, size⟩ name args = builtin sem ⟨a, env', res, pos, size⟩ name args := by
  unfold builtin
  rfl

theorem userFn_env (sem : Sem) (a : Arena) (env env' : Env) (res : Val) (pos size : Nat)
    (f : UserFn) (args : List Val) :
    userFn sem ⟨a, env, res, pos, size⟩ f args = userFn sem ⟨a, env', res, pos, size⟩ f args := by
  unfold userFn
  rfl

/-! ## invariance -/

section
variable (sem : Sem) (ρ : Chars → Chars)

def RnE (e : Expr) : Prop :=
  noNsAxisName e = true → ∀ (a : Arena) (env : Env) (res : Val) (pos size : Nat),
    eval sem (e.rename ρ) ⟨a, env.rename ρ, res, pos, size⟩ = eval sem e ⟨a, env, res, pos, size⟩

def RnEs (es : Exprs) : Prop :=
  noNsAxisNameL es = true → ∀ (a : Arena) (env : Env) (res : Val) (pos size : Nat),
    evalArgs sem (es.rename ρ) ⟨a, env.rename ρ, res, pos, size⟩
        = evalArgs sem es ⟨a, env, res, pos, size⟩
    ∧ ∀ l, applyPreds sem (es.rename ρ) ⟨a, env.rename ρ, res, pos, size⟩ l
        = applyPreds sem es ⟨a, env, res, pos, size⟩ l

variable {sem ρ}

theorem applyPred_rename {p : Expr} (ih : RnE sem ρ p) (hp : noNsAxisName p = true)
    (a : Arena) (env : Env) (res : Val) (pos size : Nat) (l : List Nat) :
    applyPred sem (p.rename ρ) ⟨a, env.rename ρ, res, pos, size⟩ l
      = applyPred sem p ⟨a, env, res, pos, size⟩ l := by
  simp only [applyPred, ih hp]

theorem rnE_bin (op : BinOp) {l r : Expr} (ihl : RnE sem ρ l) (ihr : RnE sem ρ r) :
    RnE sem ρ (.bin op l r) := by
  intro hn a env res pos size
  simp only [noNsAxisName, Bool.and_eq_true] at hn
  simp only [Expr.rename, eval, ihl hn.1, ihr hn.2]

theorem rnE_neg {e : Expr} (ih : RnE sem ρ e) : RnE sem ρ (.neg e) := by
  intro hn a env res pos size
  simp only [noNsAxisName] at hn
  simp only [Expr.rename, eval, ih hn]

theorem rnE_var (hρ : ∀ p q, ρ p = ρ q → p = q) (pfx : Option Chars) (name : Chars) :
    RnE sem ρ (.var pfx name) := by
  intro _ a env res pos size
  simp only [Expr.rename, eval, resolve_rename hρ]
  rfl

theorem rnE_call (hρ : ∀ p q, ρ p = ρ q → p = q) {base : Expr} (pfx : Option Chars) (name : Chars)
    {args : Exprs} (ihb : RnE sem ρ base) (iha : RnEs sem ρ args) :
    RnE sem ρ (.call base pfx name args) := by
  intro hn a env res pos size
  simp only [noNsAxisName, Bool.and_eq_true] at hn
  simp only [Expr.rename, eval, ihb hn.1, (iha hn.2 _ _ _ _ _).1, resolve_rename hρ]
  simp only [Env.rename, builtin_env sem a _ env, userFn_env sem a _ env]

theorem rnE_filt {base pred : Expr} (ihb : RnE sem ρ base) (ihp : RnE sem ρ pred) :
    RnE sem ρ (.filt base pred) := by
  intro hn a env res pos size
  simp only [noNsAxisName, Bool.and_eq_true] at hn
  simp only [Expr.rename, eval, ihb hn.1, applyPred_rename ihp hn.2]

theorem rnE_step (hρ : ∀ p q, ρ p = ρ q → p = q) {base : Expr} (ax : Axis) (t : NodeTest)
    {preds : Exprs} (ihb : RnE sem ρ base) (ihp : RnEs sem ρ preds) :
    RnE sem ρ (.step base ax t preds) := by
  intro hn a env res pos size
  simp only [noNsAxisName, Bool.and_eq_true, Bool.not_eq_true'] at hn
  obtain ⟨⟨hb, ht⟩, hp⟩ := hn
  simp only [Expr.rename, eval, ihb hb, NodeTest.apply_rename hρ a env ax t ht,
    (ihp hp _ _ _ _ _).2, Exprs.isNil_rename]

theorem rnEs_nil : RnEs sem ρ .nil := by
  intro _ a env res pos size
  simp only [Exprs.rename, evalArgs, applyPreds]
  exact ⟨trivial, fun _ => trivial⟩

theorem rnEs_cons {e : Expr} {es : Exprs} (ihe : RnE sem ρ e) (ihes : RnEs sem ρ es) :
    RnEs sem ρ (.cons e es) := by
  intro hn a env res pos size
  simp only [noNsAxisNameL, Bool.and_eq_true] at hn
  refine ⟨?_, fun l => ?_⟩
  · simp only [Exprs.rename, evalArgs, ihe hn.1, (ihes hn.2 _ _ _ _ _).1]
  · simp only [Exprs.rename, applyPreds, applyPred_rename ihe hn.1, (ihes hn.2 _ _ _ _ _).2]

theorem eval_rename (hρ : ∀ p q, ρ p = ρ q → p = q) (e : Expr) : RnE sem ρ e :=
  @Expr.rec (fun e => RnE sem ρ e) (fun es => RnEs sem ρ es)
    (fun op _ _ ihl ihr => rnE_bin op ihl ihr)
    (fun _ ih => rnE_neg ih)
    (fun _ _ _ _ _ _ _ => by simp only [Expr.rename, eval])
    (fun _ _ _ _ _ _ _ => by simp only [Expr.rename, eval])
    (rnE_var hρ)
    (fun _ pfx name _ ihb iha => rnE_call hρ pfx name ihb iha)
    (fun _ _ _ _ _ _ => by simp only [Expr.rename, eval])
    (fun _ _ _ _ _ _ => by simp only [Expr.rename, eval])
    (fun _ ax t _ ihb ihp => rnE_step hρ ax t ihb ihp)
    (fun _ _ ihb ihp => rnE_filt ihb ihp)
    rnEs_nil
    (fun _ _ ihe ihes => rnEs_cons ihe ihes)
    e

end
end Xsel
