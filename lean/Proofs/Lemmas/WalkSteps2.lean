/-
  Proofs/Lemmas/WalkSteps2.lean — `execStep` on a step WITH predicates: evaluated per context node when
  there are several (`nodeSet` of length > 1), exactly as `eval Model.sem` does.
-/
import Proofs.Lemmas.WalkSteps

namespace Xsel.Walk
open Xsel Xsel.Syntax

/-- the unfolding of `execStep` at a step with predicates -/
theorem walk_Step_preds (X : PTs) (w : WCtx) :
    walk tbl (.nt "Step" (.cons (.nt "StepWithAxisAndNodeTestAndPredicate" X) .nil)) w =
      (match w.res with
       | .nodes s =>
         if s.length > 1 then
           (concatMapW (fun n =>
              walk tbl (.nt "StepWithAxisAndNodeTestAndPredicate" X) ((⟨w.c, .elem⟩ : WCtx).set (.nodes [n])) >>= nodesOf) s
            >>= fun r => pure ((⟨w.c, .elem⟩ : WCtx).set (.nodes (cleanupFwd r))))
         else walk tbl (.nt "StepWithAxisAndNodeTestAndPredicate" X) ⟨w.c, .elem⟩
       | _ => walk tbl (.nt "StepWithAxisAndNodeTestAndPredicate" X) ⟨w.c, .elem⟩) := by
  rw [walk]
  simp only [lk_Step, PTs.lastNtName, PT.isNt, PT.name, implicitChild]
  simp [walkLast_cons, WCtx.res]
  cases hr : w.c.result with
  | nodes s =>
    simp only
    by_cases h : 1 < s.length
    · simp [h]
    · simp [h]
  | _ => rfl

theorem liftE_bind {α β} (x : Except Err α) (f : α → Except Err β) :
    liftE (x >>= f) = (liftE x >>= fun a => liftE (f a)) := by
  cases x <;> rfl

/-- the prefix check of the per-node loop is redundant when the loop runs at least once -/
theorem nil_bind_concat (a : Arena) (env : Env) (ax : Axis) (t : NodeTest) (k : List Nat → Except Err (List Nat))
    (ax' : Nat → List Nat) : ∀ (s : List Nat), s ≠ [] →
    (NodeTest.apply a env ax t [] >>= fun _ =>
        concatMapE (fun n => NodeTest.apply a env ax t (ax' n) >>= k) s)
      = concatMapE (fun n => NodeTest.apply a env ax t (ax' n) >>= k) s
  | [], h => absurd rfl h
  | n :: r, _ => by
    cases hb : NodeTest.apply a env ax t [] with
    | ok v => rfl
    | error e =>
      rw [concatMapE, NodeTest.apply_error_of_nil hb (ax' n)]
      rfl

/-- a step with predicates -/
theorem sim_dStep_cons (ax : Axis) (t : NodeTest) (p : Expr) (ps : Exprs) (w : WCtx)
    (hP : (exprTree p).isNt = true) (hp : SimE p)
    (hall : AllE SimE ps) (hnt : AllE (fun q => (exprTree q).isNt = true) ps) :
    Sim (walk tbl (dStep ax t (.cons p ps)) w) w.c
      (stepSem ax t (.cons (normCtx p) (normCtxs ps)) w.c w.res) := by
  rw [dStep]
  simp only [N, ofList_cons, ofList_nil]
  rw [walk_Step_preds]
  unfold stepSem
  cases hr : w.res with
  | nodes s =>
    simp only [Val.nodes?, Model.sem, Exprs.isNil, Bool.false_or, Bool.not_false, Bool.true_and, decide_eq_true_eq]
    have body := fun (x : WCtx) (s' : List Nat) (h1 : x.res = .nodes s') (h2 : x.principal = .elem) =>
      walk_stepBody ax t p ps x s' h1 h2 hP hp hall hnt
    simp only [N, ofList_cons, ofList_nil, exprTree] at body
    show Sim _ _ (if s.length > 1 then _ else _)
    by_cases hl : s.length > 1
    · simp only [hl, if_true]
      -- per context node
      have hf : ∀ n, (walk tbl (.nt "StepWithAxisAndNodeTestAndPredicate"
              (PTs.cons (PT.nt "StepWithAxisAndNodeTest" (PTs.cons (axisNode ax) (PTs.cons (testNode t) PTs.nil)))
                (PTs.cons (dPreds (predNode (wrapAt 0 (level p) (dNat p))) ps) PTs.nil))) ((⟨w.c, .elem⟩ : WCtx).set (.nodes [n])) >>= nodesOf)
          = liftE (NodeTest.apply w.c.a w.c.env ax t (Model.axis w.c.a ax [n]) >>= fun l =>
              applyPreds Model.sem (.cons (normCtx p) (normCtxs ps)) w.c l) := by
        intro n
        rw [body _ [n] rfl rfl]
        show (match (NodeTest.apply w.c.a w.c.env ax t (Model.axis w.c.a ax [n]) >>= fun l =>
            applyPreds Model.sem (.cons (normCtx p) (normCtxs ps)) { w.c with result := .nodes [n] } l) with
          | .ok r => _ | .error e => _) >>= nodesOf = _
        simp only [applyPreds_ctx]
        cases (NodeTest.apply w.c.a w.c.env ax t (Model.axis w.c.a ax [n]) >>= fun l =>
            applyPreds Model.sem (.cons (normCtx p) (normCtxs ps)) w.c l) <;> rfl
      rw [concatMapW_lift hf s]
      have hne : s ≠ [] := by intro h; rw [h] at hl; simp at hl
      show Sim _ _ (NodeTest.apply w.c.a w.c.env ax t [] >>= fun _ =>
        concatMapE (fun n => NodeTest.apply w.c.a w.c.env ax t (Model.axis w.c.a ax [n]) >>= fun l =>
          applyPreds Model.sem (.cons (normCtx p) (normCtxs ps)) w.c l) s >>= fun r => pure (.nodes (cleanupFwd r)))
      have := nil_bind_concat w.c.a w.c.env ax t
        (fun l => applyPreds Model.sem (.cons (normCtx p) (normCtxs ps)) w.c l) (fun n => Model.axis w.c.a ax [n]) s hne
      cases hb : NodeTest.apply w.c.a w.c.env ax t [] with
      | error e =>
        rw [hb] at this
        have h2 : concatMapE (fun n => NodeTest.apply w.c.a w.c.env ax t (Model.axis w.c.a ax [n]) >>= fun l =>
          applyPreds Model.sem (.cons (normCtx p) (normCtxs ps)) w.c l) s = .error e := this.symm
        rw [h2]
        exact Sim.err rfl
      | ok v =>
        show Sim _ _ (concatMapE _ s >>= fun r => pure (.nodes (cleanupFwd r)))
        cases concatMapE (fun n => NodeTest.apply w.c.a w.c.env ax t (Model.axis w.c.a ax [n]) >>= fun l =>
          applyPreds Model.sem (.cons (normCtx p) (normCtxs ps)) w.c l) s with
        | error e => exact Sim.err rfl
        | ok r => exact Sim.ok .elem rfl
    · simp only [hl, if_false]
      rw [body ⟨w.c, .elem⟩ s hr rfl]
      show Sim (match (NodeTest.apply w.c.a w.c.env ax t (Model.axis w.c.a ax s) >>= fun l =>
            applyPreds Model.sem (.cons (normCtx p) (normCtxs ps)) w.c l) with
          | .ok r => .ok ((⟨w.c, principalAfter ax .elem⟩ : WCtx).set (.nodes r))
          | .error e => .error (.err e)) w.c
        (NodeTest.apply w.c.a w.c.env ax t (Model.axis w.c.a ax s) >>= fun l =>
          applyPreds Model.sem (.cons (normCtx p) (normCtxs ps)) w.c l >>= fun r => pure (.nodes r))
      rw [← bind_assoc]
      generalize (NodeTest.apply w.c.a w.c.env ax t (Model.axis w.c.a ax s) >>= fun l =>
            applyPreds Model.sem (.cons (normCtx p) (normCtxs ps)) w.c l) = z
      cases z with
      | error e => exact Sim.err rfl
      | ok r => exact Sim.ok _ rfl
  | num n =>
    have := walk_stepBody_notNodes ax t (dPreds (predNode (exprTree p)) ps) ⟨w.c, .elem⟩ (fun l h => by rw [res_elem, hr] at h; cases h)
    simp only [N, ofList_cons, ofList_nil, exprTree] at this
    exact Sim.err this
  | str n =>
    have := walk_stepBody_notNodes ax t (dPreds (predNode (exprTree p)) ps) ⟨w.c, .elem⟩ (fun l h => by rw [res_elem, hr] at h; cases h)
    simp only [N, ofList_cons, ofList_nil, exprTree] at this
    exact Sim.err this
  | bool n =>
    have := walk_stepBody_notNodes ax t (dPreds (predNode (exprTree p)) ps) ⟨w.c, .elem⟩ (fun l h => by rw [res_elem, hr] at h; cases h)
    simp only [N, ofList_cons, ofList_nil, exprTree] at this
    exact Sim.err this

end Xsel.Walk
