/-
  Proofs/Lemmas/WalkHandlers.lean — what `walk` does at each kind of node of a derivation tree, with the
  handler table of the code (`Expect.handlers`, proved equal to the regenerated table in
  `Proofs/GenTables.lean`): unit productions, the binary operators, steps, predicates, calls.
-/
import Proofs.Lemmas.WalkBase

namespace Xsel.Walk
open Xsel Xsel.Syntax

/-! ### unit chains -/

theorem lk_levelName (n : Nat) : lookupS (levelName n) tbl = none := by
  match n with
  | 0 | 1 | 2 | 3 | 4 | 5 | 6 | 7 | 8 => simp [levelName]
  | n + 9 => simp [levelName]

theorem isNt_climb (n lo : Nat) (t : PT) (ht : t.isNt = true) : (climb n lo t).isNt = true := by
  cases n with
  | zero => simpa [climb] using ht
  | succ n => simp [climb]

theorem walk_climb (n lo : Nat) (t : PT) (ht : t.isNt = true) (w : WCtx) :
    walk tbl (climb n lo t) w = walk tbl t w := by
  induction n generalizing lo with
  | zero => simp [climb]
  | succ n ih =>
    rw [climb, walk_unit tbl _ _ w (lk_levelName lo) (isNt_climb n (lo + 1) t ht), ih]

theorem walk_lift (lo hi : Nat) (t : PT) (ht : t.isNt = true) (w : WCtx) :
    walk tbl (lift lo hi t) w = walk tbl t w := walk_climb _ _ t ht w

theorem isNt_lift (lo hi : Nat) (t : PT) (ht : t.isNt = true) : (lift lo hi t).isNt = true := isNt_climb _ _ t ht

theorem walk_parenFilter (t : PT) (ht : t.isNt = true) (w : WCtx) :
    walk tbl (parenFilter t) w = walk tbl t w := by
  simp only [parenFilter, N, ofList_cons, ofList_nil]
  rw [walk_nohandler _ _ _ _ lk_FilterExpr, walkFirst_nt, walk_nohandler _ _ _ _ lk_PrimaryExpr, walkFirst_nt,
    walk_nohandler _ _ _ _ lk_PrimaryExprParenthetic, walkFirst_tkp, walkFirst_cons_nt _ _ _ _ ht]

@[simp] theorem isNt_parenFilter (t : PT) : (parenFilter t).isNt = true := rfl

/-- `Render.wrap`: parentheses change nothing -/
theorem walk_wrapAt (min lv : Nat) (t : PT) (ht : t.isNt = true) (w : WCtx) :
    walk tbl (wrapAt min lv t) w = walk tbl t w := by
  unfold wrapAt
  split
  · rw [walk_lift _ _ _ (isNt_parenFilter _), walk_parenFilter _ (isNt_lift _ _ _ ht), walk_lift _ _ _ ht]
  · rw [walk_lift _ _ _ ht]

theorem isNt_wrapAt (min lv : Nat) (t : PT) (ht : t.isNt = true) : (wrapAt min lv t).isNt = true := by
  unfold wrapAt
  split
  · exact isNt_lift _ _ _ (isNt_parenFilter _)
  · exact isNt_lift _ _ _ ht

/-! ### binary operators -/

/-- the value of a binary expression from the values of its operands (`eval`'s `.bin` case) -/
def binSem (sv : Nat → Chars) (op : BinOp) (x y : Val) : Except Err Val :=
  match op with
  | .or => pure (.bool (Model.toBool x || Model.toBool y))
  | .and => pure (.bool (Model.toBool x && Model.toBool y))
  | .cmp o => pure (.bool (Model.compare sv o x y))
  | .union =>
    match x, y with
    | .nodes p, .nodes q => pure (.nodes (cleanupFwd (p ++ q)))
    | _, _ => throw .notNodeSet
  | o => pure (.num (arith o (Model.toNum sv x) (Model.toNum sv y)))

theorem eval_bin (op : BinOp) (l r : Expr) (c : Ctx) :
    eval Model.sem (.bin op l r) c =
      (eval Model.sem l c >>= fun x => eval Model.sem r c >>= fun y => binSem (Model.strval c.a) op x y) := by
  rw [eval]
  cases op <;> rfl

/-- the two operands are evaluated in copies of the context, the operator node puts the value into it -/
theorem walk_opNode (op : BinOp) (L R : PT) (w : WCtx) (hl : L.isNt = true) (hr : R.isNt = true) :
    walk tbl (N (opNode op) [L, .tk (opTok op), R]) w =
      (walk tbl L w >>= fun l => walk tbl R w >>= fun r =>
        match binSem (Model.strval w.c.a) op l.res r.res with
        | .ok v => .ok (w.set v)
        | .error e => .error (.err e)) := by
  simp only [N, ofList_cons, ofList_nil]
  rw [walk]
  cases op with
  | cmp o =>
    cases o <;>
      simp [opNode, walkNth_cons_nt0 _ _ _ _ hl, walkNth_cons_ntS _ _ _ _ _ hl, walkNth_cons_nt0 _ _ _ _ hr,
        binValue, cmpOfHandler, binSem, Except.map] <;> rfl
  | union =>
    simp [opNode, walkNth_cons_nt0 _ _ _ _ hl, walkNth_cons_ntS _ _ _ _ _ hl, walkNth_cons_nt0 _ _ _ _ hr,
      binValue, cmpOfHandler, arithOfHandler, binSem, Except.map]
    congr 1; funext l; congr 1; funext r
    cases l.res <;> cases r.res <;> rfl
  | _ =>
    simp [opNode, walkNth_cons_nt0 _ _ _ _ hl, walkNth_cons_ntS _ _ _ _ _ hl, walkNth_cons_nt0 _ _ _ _ hr,
      binValue, cmpOfHandler, arithOfHandler, binSem, Except.map] <;> rfl

end Xsel.Walk
