/-
  Proofs/Lemmas/TreeRefine.lean — T5/T6: on a well-formed arena the model's axis selectors
  return the specification's node list (same members, same order), one context node at a
  time and set-at-a-time.
-/
import Proofs.Lemmas.TreeAxes

namespace Xsel.Tree
open Xsel Arena

/-! ### strictly descending lists -/

/-- two strictly decreasing lists with the same members are equal -/
theorem strict_ext_desc {l m : List Nat} (hl : l.Pairwise (· > ·)) (hm : m.Pairwise (· > ·))
    (hmem : ∀ x, x ∈ l ↔ x ∈ m) : l = m := by
  have hl' : l.reverse.Pairwise (· < ·) := List.pairwise_reverse.mpr hl
  have hm' : m.reverse.Pairwise (· < ·) := List.pairwise_reverse.mpr hm
  have := strict_ext hl' hm' (by intro x; simp [hmem x])
  simpa using congrArg List.reverse this

/-- `cleanupBwd` is canonical: it depends only on the set of members -/
theorem cleanupBwd_ext {l m : List Nat} (hmem : ∀ x, x ∈ l ↔ x ∈ m) :
    cleanupBwd l = cleanupBwd m :=
  strict_ext_desc (cleanupBwd_strict l) (cleanupBwd_strict m) (by intro x; simp [hmem x])

theorem after_subset {c x : Nat} : ∀ {l : List Nat}, x ∈ Model.after c l → x ∈ l
  | [], hx => by simp [Model.after] at hx
  | y :: t, hx => by
    unfold Model.after at hx
    split at hx
    · exact List.mem_cons_of_mem _ hx
    · exact List.mem_cons_of_mem _ (after_subset hx)

theorem before_subset {c x : Nat} : ∀ {l : List Nat}, x ∈ Model.before c l → x ∈ l
  | [], hx => by simp [Model.before] at hx
  | y :: t, hx => by
    unfold Model.before at hx
    split at hx
    · cases hx
    · rcases List.mem_cons.mp hx with e | e
      · exact e ▸ List.mem_cons_self
      · exact List.mem_cons_of_mem _ (before_subset e)

/-! ### the specification's lists -/

theorem mem_axisList {a : Arena} {ax : Axis} {c j : Nat} :
    j ∈ Spec.axisList a ax c ↔ (j < a.size ∧ Spec.inAxis a ax c j = true) := by
  unfold Spec.axisList
  cases ax.isReverse <;> simp [Spec.allNodes]

theorem axisList_sorted (a : Arena) (ax : Axis) (c : Nat) :
    if ax.isReverse then (Spec.axisList a ax c).Pairwise (· > ·)
    else (Spec.axisList a ax c).Pairwise (· < ·) := by
  have hf : ((Spec.allNodes a).filter (Spec.inAxis a ax c)).Pairwise (· < ·) :=
    List.Pairwise.filter _ List.pairwise_lt_range
  unfold Spec.axisList
  cases ax.isReverse
  · simpa using hf
  · simp only [if_true]
    exact List.pairwise_reverse.mpr hf

theorem mem_axisSet {a : Arena} {ax : Axis} {s : List Nat} {j : Nat} :
    j ∈ Spec.axisSet a ax s ↔ (j < a.size ∧ ∃ c ∈ s, Spec.inAxis a ax c j = true) := by
  simp [Spec.axisSet, Spec.allNodes]

theorem axisSet_sorted (a : Arena) (ax : Axis) (s : List Nat) :
    (Spec.axisSet a ax s).Pairwise (· < ·) :=
  List.Pairwise.filter _ List.pairwise_lt_range

/-! ### the model's lists -/

/-- every selector other than `self` finishes with the clean-up of its axis direction -/
theorem model_axis_sorted (a : Arena) {ax : Axis} (hax : ax ≠ .self) (s : List Nat) :
    if ax.isReverse then (Model.axis a ax s).Pairwise (· > ·)
    else (Model.axis a ax s).Pairwise (· < ·) := by
  cases ax <;>
    first
    | exact absurd rfl hax
    | (simp only [Model.axis, Axis.isReverse, if_true]; exact cleanupBwd_strict _)
    | (simp only [Model.axis, Axis.isReverse, Bool.false_eq_true, if_false]
       exact cleanupFwd_strict _)

/-- set-at-a-time evaluation selects the union of the per-node selections -/
theorem mem_axis_set (a : Arena) {ax : Axis} (hax : ax ≠ .self) {s : List Nat} {x : Nat} :
    x ∈ Model.axis a ax s ↔ ∃ c ∈ s, x ∈ Model.axis a ax [c] := by
  cases ax with
  | self => exact absurd rfl hax
  | parent =>
    simp only [Model.axis, mem_cleanupFwd, List.mem_map, List.mem_filter, bne_iff_ne, ne_eq,
      List.mem_cons, List.not_mem_nil, or_false]
    constructor
    · rintro ⟨c, ⟨hc, hc0⟩, e⟩; exact ⟨c, hc, c, ⟨rfl, hc0⟩, e⟩
    · rintro ⟨c, hc, c', ⟨rfl, hc0⟩, e⟩; exact ⟨c', ⟨hc, hc0⟩, e⟩
  | ancestor =>
    simp only [Model.axis, mem_cleanupBwd, List.mem_flatMap, List.mem_filter, bne_iff_ne, ne_eq,
      List.mem_cons, List.not_mem_nil, or_false]
    constructor
    · rintro ⟨c, ⟨hc, hc0⟩, e⟩; exact ⟨c, hc, c, ⟨rfl, hc0⟩, e⟩
    · rintro ⟨c, hc, c', ⟨rfl, hc0⟩, e⟩; exact ⟨c', ⟨hc, hc0⟩, e⟩
  | _ => simp [Model.axis, List.mem_flatMap]

section
variable {a : Arena} (h : wfb a = true)
include h

/-- the selectors only return cells of the arena -/
theorem axis_range (ax : Axis) {c j : Nat} (hc : c < a.size) (hm : j ∈ Model.axis a ax [c]) :
    j < a.size := by
  cases ax with
  | self => simp [Model.axis] at hm; omega
  | child => simp [Model.axis] at hm; exact (mem_kids h hm).2.1
  | «attribute» => simp [Model.axis] at hm; exact (mem_attrs h hm).2.1
  | «namespace» => simp [Model.axis] at hm; exact (mem_nss h hm).2.1
  | parent =>
    simp only [Model.axis, mem_cleanupFwd, List.mem_map] at hm
    obtain ⟨c', _, rfl⟩ := hm
    exact parent_lt_size h _
  | ancestor => exact anc_lt_size h ((axis_mem_ancestor h).mp hm)
  | ancestorOrSelf =>
    have := (axis_mem_ancestorOrSelf).mp hm
    simp only [Spec.inAxis, Bool.or_eq_true, beq_iff_eq] at this
    rcases this with e | e
    · omega
    · exact anc_lt_size h e
  | descendant =>
    simp [Model.axis] at hm; exact ((mem_descendants h).mp hm).2.2
  | descendantOrSelf =>
    simp [Model.axis] at hm
    rcases hm with e | e
    · omega
    · exact ((mem_descendants h).mp e).2.2
  | following =>
    simp only [Model.axis, mem_cleanupFwd, List.flatMap_cons, List.flatMap_nil,
      List.append_nil] at hm
    exact ((mem_followingOf h _ c (Nat.le_of_lt hc) hc).mp hm).1
  | preceding =>
    simp only [Model.axis, mem_cleanupBwd, List.flatMap_cons, List.flatMap_nil,
      List.append_nil] at hm
    exact ((mem_precedingOf h _ c (Nat.le_of_lt hc) hc).mp hm).1
  | followingSibling =>
    simp only [Model.axis, mem_cleanupFwd, List.flatMap_cons, List.flatMap_nil,
      List.append_nil, Model.followingSiblingOf] at hm
    split at hm
    · cases hm
    · exact (mem_kids h (after_subset hm)).2.1
  | precedingSibling =>
    simp only [Model.axis, mem_cleanupBwd, List.flatMap_cons, List.flatMap_nil,
      List.append_nil, Model.precedingSiblingOf] at hm
    split at hm
    · cases hm
    · exact (mem_kids h (before_subset hm)).2.1

/-- T4 without the range hypothesis on the candidate -/
theorem axis_mem' (ax : Axis) {c j : Nat} (hc : c < a.size) :
    j ∈ Model.axis a ax [c] ↔ (j < a.size ∧ Spec.inAxis a ax c j = true) := by
  constructor
  · intro hm
    have hj := axis_range h ax hc hm
    exact ⟨hj, (axis_mem h ax hc hj).mp hm⟩
  · rintro ⟨hj, hs⟩
    exact (axis_mem h ax hc hj).mpr hs

theorem axis_mem_axisList (ax : Axis) {c j : Nat} (hc : c < a.size) :
    j ∈ Model.axis a ax [c] ↔ j ∈ Spec.axisList a ax c := by
  rw [axis_mem' h ax hc, mem_axisList]

/-! ### T5 -/

/-- T5: from one context node, the selector of the model returns the specification's list,
    in axis order -/
theorem axis_refines (ax : Axis) {c : Nat} (hc : c < a.size) :
    Model.axis a ax [c] = Spec.axisList a ax c := by
  by_cases hax : ax = .self
  · subst hax
    refine strict_ext (by simp [Model.axis]) ?_ (fun x => axis_mem_axisList h .self hc)
    simpa [Axis.isReverse] using axisList_sorted a .self c
  · have hm := model_axis_sorted a hax [c]
    have hs := axisList_sorted a ax c
    cases hr : ax.isReverse
    · rw [hr] at hm hs
      exact strict_ext (by simpa using hm) (by simpa using hs)
        (fun x => axis_mem_axisList h ax hc)
    · rw [hr] at hm hs
      exact strict_ext_desc (by simpa using hm) (by simpa using hs)
        (fun x => axis_mem_axisList h ax hc)

/-! ### T6 -/

theorem mem_axis_flatMap {ax : Axis} (hax : ax ≠ .self) {s : List Nat}
    (hs : ∀ c ∈ s, c < a.size) (x : Nat) :
    x ∈ Model.axis a ax s ↔ x ∈ s.flatMap (Spec.axisList a ax) := by
  rw [mem_axis_set a hax, List.mem_flatMap]
  constructor
  · rintro ⟨c, hc, hx⟩; exact ⟨c, hc, (axis_mem_axisList h ax (hs c hc)).mp hx⟩
  · rintro ⟨c, hc, hx⟩; exact ⟨c, hc, (axis_mem_axisList h ax (hs c hc)).mpr hx⟩

/-- T6: set-at-a-time evaluation of an axis is the cleaned-up union of the specification's
    per-node lists -/
theorem axis_set_at_a_time {ax : Axis} (hax : ax ≠ .self) {s : List Nat}
    (hs : ∀ c ∈ s, c < a.size) :
    Model.axis a ax s =
      if ax.isReverse then cleanupBwd (s.flatMap (Spec.axisList a ax))
      else cleanupFwd (s.flatMap (Spec.axisList a ax)) := by
  have hm := model_axis_sorted a hax s
  cases hr : ax.isReverse
  · rw [hr] at hm
    simp only [Bool.false_eq_true, if_false] at hm ⊢
    exact strict_ext hm (cleanupFwd_strict _)
      (fun x => by rw [mem_cleanupFwd]; exact mem_axis_flatMap h hax hs x)
  · rw [hr] at hm
    simp only [if_true] at hm ⊢
    exact strict_ext_desc hm (cleanupBwd_strict _)
      (fun x => by rw [mem_cleanupBwd]; exact mem_axis_flatMap h hax hs x)

/-- the node-set selected from a set of context nodes is the specification's `axisSet`
    (document order; reversed for the reverse axes) -/
theorem axis_eq_axisSet {ax : Axis} (hax : ax ≠ .self) {s : List Nat}
    (hs : ∀ c ∈ s, c < a.size) :
    Model.axis a ax s =
      if ax.isReverse then (Spec.axisSet a ax s).reverse else Spec.axisSet a ax s := by
  have hm := model_axis_sorted a hax s
  have hmem : ∀ x, x ∈ Model.axis a ax s ↔ x ∈ Spec.axisSet a ax s := by
    intro x
    rw [mem_axis_flatMap h hax hs, List.mem_flatMap, mem_axisSet]
    constructor
    · rintro ⟨c, hc, hx⟩
      obtain ⟨h1, h2⟩ := mem_axisList.mp hx
      exact ⟨h1, c, hc, h2⟩
    · rintro ⟨h1, c, hc, h2⟩
      exact ⟨c, hc, mem_axisList.mpr ⟨h1, h2⟩⟩
  cases hr : ax.isReverse
  · rw [hr] at hm
    simp only [Bool.false_eq_true, if_false] at hm ⊢
    exact strict_ext hm (axisSet_sorted a ax s) hmem
  · rw [hr] at hm
    simp only [if_true] at hm ⊢
    exact strict_ext_desc hm (List.pairwise_reverse.mpr (axisSet_sorted a ax s))
      (fun x => by rw [List.mem_reverse]; exact hmem x)

end

end Xsel.Tree
