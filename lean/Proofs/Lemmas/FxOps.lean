/-
  Proofs/Lemmas/FxOps.lean — the node-set operations of a query (`unionNew`, `docOrderCopy`,
  `selectInto`, `Op.run`): frame (nothing that existed before is written), value (the result shows
  `cleanupFwd …`), freshness and well-formedness of the returned slice.
-/
import Proofs.Lemmas.FxHeap

namespace Xsel
namespace Effects

/-! ### the common tail: sort in place, then `unique` (once or twice) -/

def sortUniq1 (h : Heap) (u : Slice) : Heap × Slice := goUnique (goSortAsc h u) u

def sortUniq2 (h : Heap) (u : Slice) : Heap × Slice :=
  goUnique (sortUniq1 h u).1 (sortUniq1 h u).2

theorem sortUniq1_frame (h : Heap) (u : Slice) {n : Nat} (hn : n ≤ u.arr) (hh : n ≤ h.size) :
    Frame n h (sortUniq1 h u).1 := by
  have a := goSortAsc_frame h u hn
  exact a.trans ((goUnique_frame _ u).mono (Nat.le_trans hh a.1))

theorem sortUniq1_arr (h : Heap) (u : Slice) : (sortUniq1 h u).2.arr = (sortUniq1 h u).1.size - 1 := by
  simp [sortUniq1, goUnique]

theorem sortUniq1_fresh (h : Heap) (u : Slice) : h.size ≤ (sortUniq1 h u).2.arr := by
  simp [sortUniq1, goUnique, goSortAsc]

theorem sortUniq1_valid (h : Heap) (u : Slice) : (sortUniq1 h u).2.valid (sortUniq1 h u).1 :=
  goUnique_valid _ _

theorem sortUniq1_read {h : Heap} {u : Slice} (hv : u.valid h) :
    read (sortUniq1 h u).1 (sortUniq1 h u).2 = cleanupFwd (read h u) := by
  rw [sortUniq1, goUnique_read, goSortAsc_read hv]; rfl

theorem sortUniq2_frame (h : Heap) (u : Slice) {n : Nat} (hn : n ≤ u.arr) (hh : n ≤ h.size) :
    Frame n h (sortUniq2 h u).1 := by
  have a := sortUniq1_frame h u hn hh
  exact a.trans ((goUnique_frame _ _).mono (Nat.le_trans hh a.1))

theorem sortUniq2_fresh (h : Heap) (u : Slice) : h.size ≤ (sortUniq2 h u).2.arr := by
  simp [sortUniq2, sortUniq1, goUnique, goSortAsc]

theorem sortUniq2_arr (h : Heap) (u : Slice) : (sortUniq2 h u).2.arr = (sortUniq2 h u).1.size - 1 := by
  simp [sortUniq2, goUnique]

theorem sortUniq2_valid (h : Heap) (u : Slice) : (sortUniq2 h u).2.valid (sortUniq2 h u).1 :=
  goUnique_valid _ _

theorem sortUniq2_read {h : Heap} {u : Slice} (hv : u.valid h) :
    read (sortUniq2 h u).1 (sortUniq2 h u).2 = cleanupFwd (read h u) := by
  rw [sortUniq2, goUnique_read, sortUniq1_read hv, uniqueAdj_cleanupFwd]

/-! ### copying into a slice of one's own: `make` then one or two `append`s -/

/-- `make([]T, 0, n)` followed by `append(·, read s)` -/
def copy1 (h : Heap) (n : Nat) (s : Slice) : Heap × Slice :=
  goAppend (goMake h n).1 (goMake h n).2 (read (goMake h n).1 s)

theorem copy1_frame (h : Heap) (n : Nat) (s : Slice) : Frame h.size h (copy1 h n s).1 := by
  have a := goMake_frame h n
  exact a.trans (goAppend_frame _ _ _ (Nat.le_refl _) a.1)

theorem copy1_arr (h : Heap) (n : Nat) (s : Slice) : h.size ≤ (copy1 h n s).2.arr :=
  goAppend_arr _ _ _ (Nat.le_refl _) (goMake_frame h n).1

theorem copy1_valid (h : Heap) (n : Nat) (s : Slice) : (copy1 h n s).2.valid (copy1 h n s).1 :=
  goAppend_valid (goMake_valid h n) _

theorem copy1_read (h : Heap) (n : Nat) {s : Slice} (hs : s.arr < h.size) :
    read (copy1 h n s).1 (copy1 h n s).2 = read h s := by
  rw [copy1, goAppend_read (goMake_valid h n), goMake_read, (goMake_frame h n).read hs]
  rfl

/-! ### `unionNew` -/

theorem unionNew_eq (h : Heap) (l r : Slice) :
    unionNew h l r =
      sortUniq2 (goAppend (copy1 h (l.len + r.len) l).1 (copy1 h (l.len + r.len) l).2
                  (read (copy1 h (l.len + r.len) l).1 r)).1
                (goAppend (copy1 h (l.len + r.len) l).1 (copy1 h (l.len + r.len) l).2
                  (read (copy1 h (l.len + r.len) l).1 r)).2 := rfl

theorem unionNew_frame (h : Heap) (l r : Slice) : Frame h.size h (unionNew h l r).1 := by
  rw [unionNew_eq]
  have a := copy1_frame h (l.len + r.len) l
  have ha := copy1_arr h (l.len + r.len) l
  have b := goAppend_frame (copy1 h (l.len + r.len) l).1 (copy1 h (l.len + r.len) l).2
    (read (copy1 h (l.len + r.len) l).1 r) ha a.1
  have hb := goAppend_arr (copy1 h (l.len + r.len) l).1 (copy1 h (l.len + r.len) l).2
    (read (copy1 h (l.len + r.len) l).1 r) ha a.1
  exact (a.trans b).trans (sortUniq2_frame _ _ hb (Nat.le_trans a.1 b.1))

theorem unionNew_fresh (h : Heap) (l r : Slice) : h.size ≤ (unionNew h l r).2.arr := by
  have a := copy1_frame h (l.len + r.len) l
  have ha := copy1_arr h (l.len + r.len) l
  have b := goAppend_frame (copy1 h (l.len + r.len) l).1 (copy1 h (l.len + r.len) l).2
    (read (copy1 h (l.len + r.len) l).1 r) ha a.1
  rw [unionNew_eq]
  exact Nat.le_trans (Nat.le_trans a.1 b.1) (sortUniq2_fresh _ _)

theorem unionNew_valid (h : Heap) (l r : Slice) : (unionNew h l r).2.valid (unionNew h l r).1 := by
  rw [unionNew_eq]; exact sortUniq2_valid _ _

theorem unionNew_arr (h : Heap) (l r : Slice) : (unionNew h l r).2.arr = (unionNew h l r).1.size - 1 := by
  rw [unionNew_eq]; exact sortUniq2_arr _ _

theorem unionNew_read {h : Heap} {l r : Slice} (hl : l.arr < h.size) (hr : r.arr < h.size) :
    read (unionNew h l r).1 (unionNew h l r).2 = cleanupFwd (read h l ++ read h r) := by
  rw [unionNew_eq, sortUniq2_read (goAppend_valid (copy1_valid _ _ _) _),
    goAppend_read (copy1_valid _ _ _), copy1_read h _ hl, (copy1_frame h _ l).read hr]

/-! ### `docOrderCopy` -/

theorem docOrderCopy_eq (h : Heap) (s : Slice) :
    docOrderCopy h s = sortUniq2 (copy1 h s.len s).1 (copy1 h s.len s).2 := rfl

theorem docOrderCopy_frame (h : Heap) (s : Slice) : Frame h.size h (docOrderCopy h s).1 := by
  rw [docOrderCopy_eq]
  have a := copy1_frame h s.len s
  exact a.trans (sortUniq2_frame _ _ (copy1_arr h s.len s) a.1)

theorem docOrderCopy_fresh (h : Heap) (s : Slice) : h.size ≤ (docOrderCopy h s).2.arr := by
  rw [docOrderCopy_eq]
  exact Nat.le_trans (copy1_frame h s.len s).1 (sortUniq2_fresh _ _)

theorem docOrderCopy_valid (h : Heap) (s : Slice) : (docOrderCopy h s).2.valid (docOrderCopy h s).1 := by
  rw [docOrderCopy_eq]; exact sortUniq2_valid _ _

theorem docOrderCopy_arr (h : Heap) (s : Slice) :
    (docOrderCopy h s).2.arr = (docOrderCopy h s).1.size - 1 := by
  rw [docOrderCopy_eq]; exact sortUniq2_arr _ _

theorem docOrderCopy_read {h : Heap} {s : Slice} (hs : s.arr < h.size) :
    read (docOrderCopy h s).1 (docOrderCopy h s).2 = cleanupFwd (read h s) := by
  rw [docOrderCopy_eq, sortUniq2_read (copy1_valid _ _ _), copy1_read h _ hs]

/-! ### `selectInto` -/

theorem selectInto_eq (h : Heap) (c : List Nat) :
    selectInto h c = sortUniq1 (goAppend (goMake h 0).1 (goMake h 0).2 c).1
                               (goAppend (goMake h 0).1 (goMake h 0).2 c).2 := rfl

theorem selectInto_frame (h : Heap) (c : List Nat) : Frame h.size h (selectInto h c).1 := by
  rw [selectInto_eq]
  have a := goMake_frame h 0
  have b := goAppend_frame (goMake h 0).1 (goMake h 0).2 c (Nat.le_refl h.size) a.1
  have hb := goAppend_arr (goMake h 0).1 (goMake h 0).2 c (Nat.le_refl h.size) a.1
  exact (a.trans b).trans (sortUniq1_frame _ _ hb (Nat.le_trans a.1 b.1))

theorem selectInto_fresh (h : Heap) (c : List Nat) : h.size ≤ (selectInto h c).2.arr := by
  have a := goMake_frame h 0
  have b := goAppend_frame (goMake h 0).1 (goMake h 0).2 c (Nat.le_refl h.size) a.1
  rw [selectInto_eq]
  exact Nat.le_trans (Nat.le_trans a.1 b.1) (sortUniq1_fresh _ _)

theorem selectInto_valid (h : Heap) (c : List Nat) : (selectInto h c).2.valid (selectInto h c).1 := by
  rw [selectInto_eq]; exact sortUniq1_valid _ _

theorem selectInto_arr (h : Heap) (c : List Nat) : (selectInto h c).2.arr = (selectInto h c).1.size - 1 := by
  rw [selectInto_eq]; exact sortUniq1_arr _ _

theorem selectInto_read (h : Heap) (c : List Nat) :
    read (selectInto h c).1 (selectInto h c).2 = cleanupFwd c := by
  rw [selectInto_eq, sortUniq1_read (goAppend_valid (goMake_valid h 0) _),
    goAppend_read (goMake_valid h 0), goMake_read]
  rfl

/-! ### `Op.run` -/

/-- the slices an operation is given -/
def Op.operands : Op → List Slice
  | .union l r => [l, r]
  | .docOrder s => [s]
  | .select _ => []

/-- the operand slices live in `h` (this is the part of `Slice.valid` that is needed) -/
def Op.inHeap (h : Heap) (o : Op) : Prop := ∀ s ∈ o.operands, s.arr < h.size

/-- all operand slices are well formed in `h` -/
def Op.valid (h : Heap) (o : Op) : Prop := ∀ s ∈ o.operands, s.valid h

theorem Op.valid.inHeap {h : Heap} {o : Op} (hv : o.valid h) : o.inHeap h :=
  fun s hs => (hv s hs).1

/-- the node list an operation denotes, given what its operands show in `h` -/
def Op.value (h : Heap) : Op → List Nat
  | .union l r => cleanupFwd (read h l ++ read h r)
  | .docOrder s => cleanupFwd (read h s)
  | .select c => cleanupFwd c

theorem Op.run_frame (h : Heap) (o : Op) : Frame h.size h (o.run h).1 := by
  cases o
  · exact unionNew_frame h _ _
  · exact docOrderCopy_frame h _
  · exact selectInto_frame h _

theorem Op.run_fresh (h : Heap) (o : Op) : h.size ≤ (o.run h).2.arr := by
  cases o
  · exact unionNew_fresh h _ _
  · exact docOrderCopy_fresh h _
  · exact selectInto_fresh h _

theorem Op.run_valid (h : Heap) (o : Op) : (o.run h).2.valid (o.run h).1 := by
  cases o
  · exact unionNew_valid h _ _
  · exact docOrderCopy_valid h _
  · exact selectInto_valid h _

theorem Op.run_arr (h : Heap) (o : Op) : (o.run h).2.arr = (o.run h).1.size - 1 := by
  cases o
  · exact unionNew_arr h _ _
  · exact docOrderCopy_arr h _
  · exact selectInto_arr h _

theorem Op.run_read {h : Heap} {o : Op} (hv : o.inHeap h) :
    read (o.run h).1 (o.run h).2 = o.value h := by
  cases o with
  | union l r => exact unionNew_read (hv l (by simp [Op.operands])) (hv r (by simp [Op.operands]))
  | docOrder s => exact docOrderCopy_read (hv s (by simp [Op.operands]))
  | select c => exact selectInto_read h c

/-- the value depends only on what the operands show -/
theorem Op.value_frame {n : Nat} {h h' : Heap} (a : Frame n h h') {o : Op}
    (ho : ∀ s ∈ o.operands, s.arr < n) : o.value h' = o.value h := by
  cases o with
  | union l r =>
    simp only [Op.value, a.read (ho l (by simp [Op.operands])), a.read (ho r (by simp [Op.operands]))]
  | docOrder s => simp only [Op.value, a.read (ho s (by simp [Op.operands]))]
  | select c => rfl

theorem Op.inHeap_frame {n : Nat} {h h' : Heap} (a : Frame n h h') {o : Op} (ho : o.inHeap h) :
    o.inHeap h' := fun s hs => Nat.lt_of_lt_of_le (ho s hs) a.1

/-- a result is non-empty storage of its own: the heap grew -/
theorem Op.run_size (h : Heap) (o : Op) : h.size < (o.run h).1.size := by
  have := o.run_valid h
  have := o.run_fresh h
  have := this
  have hv := (o.run_valid h).1
  omega

end Effects
end Xsel
