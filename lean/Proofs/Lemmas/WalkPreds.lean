/-
  Proofs/Lemmas/WalkPreds.lean — `walk` at predicate nodes (`execPredicate`) and at filter expressions.
-/
import Proofs.Lemmas.WalkNodes

namespace Xsel.Walk
open Xsel Xsel.Syntax

theorem filterIdxW_lift {f : Nat → Nat → Except WErr Bool} {g : Nat → Nat → Except Err Bool}
    (h : ∀ i n, f i n = liftE (g i n)) : ∀ (l : List Nat) (i : Nat), filterIdxW f l i = liftE (filterIdx g l i)
  | [], _ => rfl
  | n :: t, i => by
    rw [filterIdxW, filterIdx, h i n, filterIdxW_lift h t (i + 1)]
    cases g i n with
    | error e => rfl
    | ok b =>
      cases filterIdx g t (i + 1) with
      | error e => rfl
      | ok r => rfl

/-- from a simulation of the predicate expression to the test `execPredicate` applies to one node -/
theorem pred_test {P : PT} {p : Expr} (ih : ∀ w', Sim (walk tbl P w') w'.c (eval Model.sem p w'.c))
    (w' : WCtx) (k : Nat) :
    (walk tbl P w' >>= fun x => (pure (predTruth k x.res) : Except WErr Bool)) =
      liftE (eval Model.sem p w'.c >>= fun v => pure (predTruth k v)) := by
  have h := ih w'
  cases hev : eval Model.sem p w'.c with
  | error e =>
    rw [hev] at h
    have : walk tbl P w' = .error (.err e) := h
    rw [this]; rfl
  | ok v =>
    rw [hev] at h
    obtain ⟨kk, hk⟩ := h
    rw [hk]; rfl

theorem walk_predNode (P : PT) (p : Expr) (w : WCtx) (l : List Nat) (hP : P.isNt = true)
    (hres : w.res = .nodes l) (ih : ∀ w', Sim (walk tbl P w') w'.c (eval Model.sem p w'.c)) :
    walk tbl (predNode P) w =
      (match applyPred Model.sem p w.c l with
       | .ok r => .ok (w.set (.nodes r))
       | .error e => .error (.err e)) := by
  simp only [predNode, N, ofList_cons, ofList_nil]
  rw [walk]
  simp only [lk_Predicate, nodesOf, hres]
  simp only [walkLast_cons, ntCount_cons, ntCount_nil, isNt_tkp, hP]
  simp only [applyPred]
  have key := filterIdxW_lift (f := fun i n =>
      (walk tbl P { w with c := { w.c with result := .nodes [n], pos := i, size := l.length } } >>= fun x =>
        (pure (predTruth (i + 1) x.res) : Except WErr Bool)))
    (g := fun i n => eval Model.sem p { w.c with result := .nodes [n], pos := i, size := l.length } >>= fun v =>
        pure (predTruth (i + 1) v))
    (fun i n => pred_test ih _ (i + 1)) l 0
  simp at key ⊢
  have e1 : ∀ (f : List Nat → R), (Except.ok l >>= f) = f l := fun _ => rfl
  rw [e1, key]
  cases filterIdx _ l 0 <;> rfl

theorem walk_predNode_notNodes (P : PT) (w : WCtx) (h : ∀ l, w.res ≠ .nodes l) :
    walk tbl (predNode P) w = .error (.err .notNodeSet) := by
  simp only [predNode, N, ofList_cons, ofList_nil]
  rw [walk]
  simp only [lk_Predicate, nodesOf]
  cases hr : w.res with
  | nodes l => exact absurd hr (h l)
  | _ => rfl

theorem walkNth_one (tb : List (String × String)) (t : PT) (ts : PTs) (w : WCtx) (h : t.isNt = true) :
    walkNth tb (.cons t ts) 1 w = walkNth tb ts 0 w := walkNth_cons_ntS tb t ts 0 w h

theorem applyPred_ctx (p : Expr) (c : Ctx) (x : Val) (l : List Nat) :
    applyPred Model.sem p { c with result := x } l = applyPred Model.sem p c l := by
  rw [applyPred, applyPred]

theorem applyPreds_ctx : ∀ (ps : Exprs) (c : Ctx) (x : Val) (l : List Nat),
    applyPreds Model.sem ps { c with result := x } l = applyPreds Model.sem ps c l
  | .nil, _, _, _ => by rw [applyPreds, applyPreds]
  | .cons p ps, c, x, l => by
    rw [applyPreds, applyPreds, applyPred_ctx]
    cases applyPred Model.sem p c l with
    | error e => rfl
    | ok k => exact applyPreds_ctx ps c x k

/-- a filter expression `E[p]`: the value of `E` in document order, then the predicate -/
theorem sim_filt (B P : PT) (b p : Expr) (w : WCtx) (hB : B.isNt = true) (hP : P.isNt = true)
    (ihb : Sim (walk tbl B w) w.c (eval Model.sem b w.c))
    (ihp : ∀ w', Sim (walk tbl P w') w'.c (eval Model.sem p w'.c)) :
    Sim (walk tbl (N "FilterExpr" [N "FilterExprWithPredicate" [B, predNode P]]) w) w.c
      (eval Model.sem (.filt b p) w.c) := by
  have hw : walk tbl (N "FilterExpr" [N "FilterExprWithPredicate" [B, predNode P]]) w =
      (walk tbl B w >>= fun w1 =>
        walk tbl (predNode P) (match w1.res with | .nodes l => w1.set (.nodes (cleanupFwd l)) | _ => w1)) := by
    simp only [N, ofList_cons, ofList_nil]
    rw [walk_nohandler _ _ _ _ lk_FilterExpr, walkFirst_nt, walk]
    simp only [lk_FilterExprWithPredicate]
    rw [walkNth_cons_nt0 _ _ _ _ hB]
    simp only [walkNth_one _ _ _ _ hB]
    simp [predNode, N]
    rfl
  rw [hw, eval]
  refine Sim.bind ihb (fun v k => ?_)
  cases v with
  | nodes l =>
    simp only [WCtx.res]
    rw [walk_predNode P p _ (cleanupFwd l) hP rfl ihp]
    simp only [Val.nodes?, WCtx.set]
    show Sim _ _ (applyPred Model.sem p w.c (cleanupFwd l) >>= fun r => pure (.nodes r))
    rw [applyPred_ctx]
    cases applyPred Model.sem p w.c (cleanupFwd l) with
    | error e => exact Sim.err rfl
    | ok r => exact Sim.ok k rfl
  | num n => exact Sim.err (walk_predNode_notNodes P _ (fun l h => by simp [WCtx.res] at h))
  | str s => exact Sim.err (walk_predNode_notNodes P _ (fun l h => by simp [WCtx.res] at h))
  | bool b => exact Sim.err (walk_predNode_notNodes P _ (fun l h => by simp [WCtx.res] at h))

end Xsel.Walk
