/-
  Proofs/Lemmas/ChainE2E.lean — end-to-end corollaries: the refinement theorem of the evaluator
  (`run_refines_spec`, Proofs/Lemmas/EvalMain.lean) with its string-value hypothesis discharged
  (`Strval.strval_refines'`), chained with the store (`StoreL.build_wf_of_ordered`), the XML adapter
  (`XmlL.events_of_tokens`, `XmlL.docEvents_ordered`) and the JSON adapter (`Json.json_refines`).
-/
import Proofs.Lemmas.EvalMain
import Proofs.Lemmas.Strval
import Proofs.Lemmas.StoreWf
import Proofs.Lemmas.XmlTokens
import Proofs.Lemmas.XmlOrdered
import Proofs.Lemmas.JsonRefine

namespace Xsel.Chain
open Xsel Arena Xsel.StoreL

/-! ### 9. the string-value hypothesis is a theorem -/

/-- `exec_refines_spec` without the hypothesis `hsv` -/
theorem exec_refines_spec' (a : Arena) (h : wfb a = true)
    (env : Env) (henv : EnvOk a env) (e : Expr) (ca : Bool)
    (hs : sumSafe ca e = true) (hb : prefixesBound env e = true)
    (c c' : Ctx) (hc : Ctx.Equiv c c') (hok : Val.Ok a c.result)
    (hasc : ca = true → Val.Asc c.result ∧ Val.Asc c'.result)
    (ha : c.a = a) (he : c.env = env) :
    Res.Equiv (eval Model.sem e c) (eval Spec.semKF e c') :=
  Xsel.exec_refines_spec a h (fun i _ => Strval.strval_refines' h i) env henv e ca hs hb c c' hc hok
    hasc ha he

/-- **run_refines_spec'** — on every arena that satisfies the Cursor contract, `exec.Exec` from a
    start node returns what the XPath 1.0 specification (with the recorded `round` deviation)
    returns, up to the listing order of a node-set; or both fail. -/
theorem run_refines_spec' (a : Arena) (h : wfb a = true) (env : Env) (henv : EnvOk a env)
    (e : Expr) (start : Nat) (hs : start < a.size) (hsum : sumSafe true e = true)
    (hb : prefixesBound env e = true) :
    Res.Equiv (Model.run a env start e) (Spec.runKF a env start e) :=
  Xsel.run_refines_spec a h (fun i _ => Strval.strval_refines' h i) env henv start hs e hsum hb

/-! ### 10. chained with the store and the adapters -/

/-- a query on the tree the store builds for a stream that honours the Parser contract -/
theorem stream_query_refines_spec (evs : List Ev) (ho : Ordered evs)
    (env : Env) (henv : EnvOk (Store.build evs) env) (e : Expr)
    (hsum : sumSafe true e = true) (hb : prefixesBound env e = true) :
    wfb (Store.build evs) = true ∧
    Res.Equiv (Model.run (Store.build evs) env 0 e) (Spec.runKF (Store.build evs) env 0 e) :=
  have h := build_wf_of_ordered ho
  ⟨h, run_refines_spec' _ h env henv e 0 (build_size_pos evs) hsum hb⟩

/-- the same from any start node of the tree -/
theorem stream_query_refines_spec_at (evs : List Ev) (ho : Ordered evs)
    (env : Env) (henv : EnvOk (Store.build evs) env) (e : Expr) (start : Nat)
    (hstart : start < (Store.build evs).size)
    (hsum : sumSafe true e = true) (hb : prefixesBound env e = true) :
    Res.Equiv (Model.run (Store.build evs) env start e) (Spec.runKF (Store.build evs) env start e) :=
  run_refines_spec' _ (build_wf_of_ordered ho) env henv e start hstart hsum hb

/-- the event stream ReadXml feeds the store for a well-formed document is `Ordered` -/
theorem xml_events_ordered (top : Xml.XNodes) (h : XmlL.WFDoc top) :
    Ordered (Xml.events (Xml.docTokens top)) := by
  rw [XmlL.events_of_tokens top h]; exact XmlL.docEvents_ordered top

/-- **xml_query_refines_spec** — a query on the tree ReadXml builds for a well-formed
    namespace-conformant document evaluates as the XPath 1.0 specification says. -/
theorem xml_query_refines_spec (top : Xml.XNodes) (h : XmlL.WFDoc top)
    (env : Env) (henv : EnvOk (Store.build (Xml.events (Xml.docTokens top))) env) (e : Expr)
    (hsum : sumSafe true e = true) (hb : prefixesBound env e = true) :
    wfb (Store.build (Xml.events (Xml.docTokens top))) = true ∧
    Res.Equiv (Model.run (Store.build (Xml.events (Xml.docTokens top))) env 0 e)
      (Spec.runKF (Store.build (Xml.events (Xml.docTokens top))) env 0 e) :=
  stream_query_refines_spec _ (xml_events_ordered top h) env henv e hsum hb

/-! #### JSON: the documented event lists contain no namespace or attribute event -/

/-- no namespace and no attribute event -/
def plainEv : Ev → Bool
  | .ns _ _ => false
  | .attr _ _ _ => false
  | _ => true

theorem ordered_of_plain : ∀ (evs : List Ev) (ph : Phase), evs.all plainEv = true →
    orderedFrom ph evs = true
  | [], _, _ => rfl
  | e :: es, ph, h => by
    rw [List.all_cons, Bool.and_eq_true] at h
    cases e with
    | ns _ _ => exact absurd h.1 (by simp [plainEv])
    | attr _ _ _ => exact absurd h.1 (by simp [plainEv])
    | elem u l => cases ph <;> exact ordered_of_plain es _ h.2
    | text v => cases ph <;> exact ordered_of_plain es _ h.2
    | comment v => cases ph <;> exact ordered_of_plain es _ h.2
    | pi t v => cases ph <;> exact ordered_of_plain es _ h.2
    | close => cases ph <;> exact ordered_of_plain es _ h.2

mutual
theorem plain_eventsOf : ∀ v : JVal, (Json.eventsOf v).all plainEv = true
  | .null => rfl
  | .bool _ => rfl
  | .num _ => rfl
  | .str _ => rfl
  | .arr items => by
    simp only [Json.eventsOf, List.all_cons, List.all_append, plain_eventsOfList items]; rfl
  | .obj ms => by
    simp only [Json.eventsOf, List.all_cons, List.all_append, plain_eventsOfMembers ms]; rfl
theorem plain_eventsOfList : ∀ l : JList, (Json.eventsOfList l).all plainEv = true
  | .nil => rfl
  | .cons v t => by
    simp only [Json.eventsOfList, List.all_append, plain_eventsOf v, plain_eventsOfList t]; rfl
theorem plain_eventsOfMembers : ∀ ms : JMembers, (Json.eventsOfMembers ms).all plainEv = true
  | .nil => rfl
  | .cons k v t => by
    simp only [Json.eventsOfMembers, List.all_cons, List.all_append, plain_eventsOf v,
      plain_eventsOfMembers t]; rfl
end

theorem plain_json (vs : List JVal) : (vs.flatMap Json.eventsOf).all plainEv = true := by
  induction vs with
  | nil => rfl
  | cons v vs ih => rw [List.flatMap_cons, List.all_append, plain_eventsOf v, ih]; rfl

/-- the events of the documented JSON trees honour the Parser contract -/
theorem json_events_ordered (vs : List JVal) : Ordered (vs.flatMap Json.eventsOf) :=
  ordered_of_plain _ .ns (plain_json vs)

/-- **json_query_refines_spec** — for every sequence of top-level JSON values, ReadJson feeds the
    store exactly the events of the documented `#obj`/`#arr` trees, the tree built from them
    satisfies the Cursor contract, and a query on it evaluates as the XPath 1.0 specification
    says. -/
theorem json_query_refines_spec (vs : List JVal)
    (env : Env) (henv : EnvOk (Store.build (vs.flatMap Json.eventsOf)) env) (e : Expr)
    (hsum : sumSafe true e = true) (hb : prefixesBound env e = true) :
    Json.adapter (vs.flatMap Json.tokensOf) = some (vs.flatMap Json.eventsOf) ∧
    wfb (Store.build (vs.flatMap Json.eventsOf)) = true ∧
    Res.Equiv (Model.run (Store.build (vs.flatMap Json.eventsOf)) env 0 e)
      (Spec.runKF (Store.build (vs.flatMap Json.eventsOf)) env 0 e) :=
  ⟨Json.json_refines vs, stream_query_refines_spec _ (json_events_ordered vs) env henv e hsum hb⟩

end Xsel.Chain
