/-
  Proofs/Lemmas/ChainE2E.lean — end-to-end corollaries: the refinement theorem of the evaluator
  (`run_refines_spec`, Proofs/Lemmas/EvalMain.lean) with its string-value hypothesis discharged
  (`Strval.strval_refines'`), chained with the store (`StoreL.build_wf_of_ordered`), the XML adapter
  (`XmlL.events_of_tokens`, `XmlL.docEvents_ordered`) and the JSON adapter (`Json.json_refines`).
-/
import Proofs.Lemmas.EvalMain
import Proofs.Lemmas.Strval
import Proofs.Lemmas.StoreWf
import Proofs.Lemmas.XmlTokens
import Proofs.Lemmas.XmlOrdered
import Proofs.Lemmas.JsonRefine

namespace Xsel.Chain
open Xsel Arena Xsel.StoreL

/-! ### 9. the string-value hypothesis is a theorem -/

/-- `exec_refines_spec` without the hypothesis `hsv` -/
theorem exec_refines_spec' (a : Arena) (h : wfb a = true)
    (env : Env) (henv : EnvOk a env) (e : Expr) (ca : Bool)
    (hs : sumSafe ca e = true)
    (c c' : Ctx) (hc : Ctx.Equiv c c') (hok : Val.Ok a c.result)
    (hasc : ca = true → Val.Asc c.result ∧ Val.Asc c'.result)
    (ha : c.a = a) (he : c.env = env) :
    Res.Equiv (eval Model.sem e c) (eval Spec.semKF e c') :=
  Xsel.exec_refines_spec a h (fun i _ => Strval.strval_refines' h i) env henv e ca hs c c' hc hok
    hasc ha he

/-- **run_refines_spec'** — on every arena that satisfies the Cursor contract, `exec.Exec` from a
    start node returns what the XPath 1.0 specification (with the recorded `round` deviation)
    returns, up to the listing order of a node-set; or both fail. -/
theorem run_refines_spec' (a : Arena) (h : wfb a = true) (env : Env) (henv : EnvOk a env)
    (e : Expr) (start : Nat) (hs : start < a.size) (hsum : sumSafe true e = true) :
    Res.Equiv (Model.run a env start e) (Spec.runKF a env start e) :=
  Xsel.run_refines_spec a h (fun i _ => Strval.strval_refines' h i) env henv start hs e hsum

/-! ### 10. chained with the store and the adapters -/

/-- a query on the tree the store builds for a stream that honours the Parser contract -/
theorem stream_query_refines_spec (evs : List Ev) (ho : Ordered evs)
    (env : Env) (henv : EnvOk (Store.build evs) env) (e : Expr)
    (hsum : sumSafe true e = true) :
    wfb (Store.build evs) = true ∧
    Res.Equiv (Model.run (Store.build evs) env 0 e) (Spec.runKF (Store.build evs) env 0 e) :=
  have h := build_wf_of_ordered ho
  ⟨h, run_refines_spec' _ h env henv e 0 (build_size_pos evs) hsum⟩

/-- the same from any start node of the tree -/
theorem stream_query_refines_spec_at (evs : List Ev) (ho : Ordered evs)
    (env : Env) (henv : EnvOk (Store.build evs) env) (e : Expr) (start : Nat)
    (hstart : start < (Store.build evs).size)
    (hsum : sumSafe true e = true) :
    Res.Equiv (Model.run (Store.build evs) env start e) (Spec.runKF (Store.build evs) env start e) :=
  run_refines_spec' _ (build_wf_of_ordered ho) env henv e start hstart hsum

/-- the event stream ReadXml feeds the store for a well-formed document is `Ordered` -/
theorem xml_events_ordered (top : Xml.XNodes) (h : XmlL.WFDoc top) :
    Ordered (Xml.events (Xml.docTokens top)) := by
  rw [XmlL.events_of_tokens top h]; exact XmlL.docEvents_ordered top

/-- **xml_query_refines_spec** — a query on the tree ReadXml builds for a well-formed
    namespace-conformant document evaluates as the XPath 1.0 specification says. -/
theorem xml_query_refines_spec (top : Xml.XNodes) (h : XmlL.WFDoc top)
    (env : Env) (henv : EnvOk (Store.build (Xml.events (Xml.docTokens top))) env) (e : Expr)
    (hsum : sumSafe true e = true) :
    wfb (Store.build (Xml.events (Xml.docTokens top))) = true ∧
    Res.Equiv (Model.run (Store.build (Xml.events (Xml.docTokens top))) env 0 e)
      (Spec.runKF (Store.build (Xml.events (Xml.docTokens top))) env 0 e) :=
  stream_query_refines_spec _ (xml_events_ordered top h) env henv e hsum

/-! #### JSON: the documented event lists contain no namespace or attribute event -/

/-- no namespace and no attribute event -/
def plainEv : Ev → Bool
  | .ns _ _ => false
  | .attr _ _ _ => false
  | _ => true

theorem ordered_of_plain : ∀ (evs : List Ev) (ph : Phase), evs.all plainEv = true →
    orderedFrom ph evs = true
  | [], _, _ => rfl
  | e :: es, ph, h => by
    rw [List.all_cons, Bool.and_eq_true] at h
    cases e with
    | ns _ _ => exact absurd h.1 (by simp [plainEv])
    | attr _ _ _ => exact absurd h.1 (by simp [plainEv])
    | elem u l => cases ph <;> exact ordered_of_plain es _ h.2
    | text v => cases ph <;> exact ordered_of_plain es _ h.2
    | comment v => cases ph <;> exact ordered_of_plain es _ h.2
    | pi t v => cases ph <;> exact ordered_of_plain es _ h.2
    | close => cases ph <;> exact ordered_of_plain es _ h.2

mutual
theorem plain_eventsOf : ∀ v : JVal, (Json.eventsOf v).all plainEv = true
  | .null => rfl
  | .bool _ => rfl
  | .num _ => rfl
  | .str _ => rfl
  | .arr items => by
    simp only [Json.eventsOf, List.all_cons, List.all_append, plain_eventsOfList items]; rfl
  | .obj ms => by
    simp only [Json.eventsOf, List.all_cons, List.all_append, plain_eventsOfMembers ms]; rfl
theorem plain_eventsOfList : ∀ l : JList, (Json.eventsOfList l).all plainEv = true
  | .nil => rfl
  | .cons v t => by
    simp only [Json.eventsOfList, List.all_append, plain_eventsOf v, plain_eventsOfList t]; rfl
theorem plain_eventsOfMembers : ∀ ms : JMembers, (Json.eventsOfMembers ms).all plainEv = true
  | .nil => rfl
  | .cons k v t => by
    simp only [Json.eventsOfMembers, List.all_cons, List.all_append, plain_eventsOf v,
      plain_eventsOfMembers t]; rfl
end

theorem plain_json (vs : List JVal) : (vs.flatMap Json.eventsOf).all plainEv = true := by
  induction vs with
  | nil => rfl
  | cons v vs ih => rw [List.flatMap_cons, List.all_append, plain_eventsOf v, ih]; rfl

/-- the events of the documented JSON trees honour the Parser contract -/
theorem json_events_ordered (vs : List JVal) : Ordered (vs.flatMap Json.eventsOf) :=
  ordered_of_plain _ .ns (plain_json vs)

/-- **json_query_refines_spec** — for every sequence of top-level JSON values, ReadJson feeds the
    store exactly the events of the documented `#obj`/`#arr` trees, the tree built from them
    satisfies the Cursor contract, and a query on it evaluates as the XPath 1.0 specification
    says. -/
theorem json_query_refines_spec (vs : List JVal)
    (env : Env) (henv : EnvOk (Store.build (vs.flatMap Json.eventsOf)) env) (e : Expr)
    (hsum : sumSafe true e = true) :
    Json.adapter (vs.flatMap Json.tokensOf) = some (vs.flatMap Json.eventsOf) ∧
    wfb (Store.build (vs.flatMap Json.eventsOf)) = true ∧
    Res.Equiv (Model.run (Store.build (vs.flatMap Json.eventsOf)) env 0 e)
      (Spec.runKF (Store.build (vs.flatMap Json.eventsOf)) env 0 e) :=
  ⟨Json.json_refines vs, stream_query_refines_spec _ (json_events_ordered vs) env henv e hsum⟩

/-! ### 11. expressions without `round`/`substring`: the unmodified specification -/

/-- the function names whose builtin reads `Sem.round` -/
def roundName (nm : Chars) : Bool :=
  String.ofList nm == "round" || String.ofList nm == "substring"

mutual
/-- no call of a function named `round` or `substring` anywhere in the expression -/
def noRound : Expr → Bool
  | .bin _ l r => noRound l && noRound r
  | .neg e => noRound e
  | .call base _ name args => noRound base && !roundName name && noRoundL args
  | .step base _ _ preds => noRound base && noRoundL preds
  | .filt base p => noRound base && noRound p
  | _ => true
def noRoundL : Exprs → Bool
  | .nil => true
  | .cons e es => noRound e && noRoundL es
end

theorem semKF_sv : Spec.semKF.sv = Spec.sem.sv := rfl
theorem semKF_axis : Spec.semKF.axis = Spec.sem.axis := rfl
theorem semKF_perNode : Spec.semKF.perNode = Spec.sem.perNode := rfl
theorem semKF_compare : Spec.semKF.compare = Spec.sem.compare := rfl

theorem builtin_noRound (c : Ctx) (nm : Chars) (vs : List Val) (h : roundName nm = false) :
    builtin Spec.semKF c nm vs = builtin Spec.sem c nm vs := by
  unfold roundName at h
  unfold builtin
  simp only []
  split
  all_goals first
    | rfl
    | (rename_i heq; rw [heq] at h; exact absurd h (by decide))

def NRE (e : Expr) : Prop := noRound e = true → ∀ c, eval Spec.semKF e c = eval Spec.sem e c
def NRL (es : Exprs) : Prop := noRoundL es = true →
  (∀ c, evalArgs Spec.semKF es c = evalArgs Spec.sem es c) ∧
  (∀ c l, applyPreds Spec.semKF es c l = applyPreds Spec.sem es c l)

theorem nr_applyPred {p : Expr} (ih : NRE p) (hp : noRound p = true) (c : Ctx) (l : List Nat) :
    applyPred Spec.semKF p c l = applyPred Spec.sem p c l := by
  rw [applyPred, applyPred]
  congr 1
  funext i n
  rw [ih hp]

theorem nr_bin (op : BinOp) {l r : Expr} (ihl : NRE l) (ihr : NRE r) : NRE (.bin op l r) := by
  intro h c
  simp only [noRound, Bool.and_eq_true] at h
  rw [eval, eval, ihl h.1, ihr h.2]
  rfl

theorem nr_neg {e : Expr} (ih : NRE e) : NRE (.neg e) := by
  intro h c
  simp only [noRound] at h
  rw [eval, eval, ih h]
  rfl

theorem nr_call {base : Expr} (pfx : Option Chars) (name : Chars) {args : Exprs}
    (ihb : NRE base) (iha : NRL args) : NRE (.call base pfx name args) := by
  intro h c
  simp only [noRound, Bool.and_eq_true, Bool.not_eq_true'] at h
  obtain ⟨⟨hb, hn⟩, ha⟩ := h
  rw [eval, eval, ihb hb]
  cases hbv : eval Spec.sem base c with
  | error e => rfl
  | ok b =>
    simp only [bind, Except.bind]
    rw [(iha ha).1]
    cases evalArgs Spec.sem args { c with result := b } with
    | error e => rfl
    | ok vs =>
      simp only []
      cases hq : resolve c.env pfx name with
      | error e => rfl
      | ok q =>
        simp only []
        have hq2 : q.2 = name := resolve_snd hq
        cases lookupQ q c.env.fns with
        | some f =>
          simp only []
          exact userFn_sem_congr _ _ _ rfl f vs
        | none =>
          simp only []
          rw [hq2, builtin_noRound _ _ _ hn]

theorem nr_filt {base p : Expr} (ihb : NRE base) (ihp : NRE p) : NRE (.filt base p) := by
  intro h c
  simp only [noRound, Bool.and_eq_true] at h
  rw [eval, eval, ihb h.1]
  cases eval Spec.sem base c with
  | error e => rfl
  | ok b =>
    simp only [bind, Except.bind]
    cases b.nodes? with
    | error e => rfl
    | ok l =>
      simp only []
      rw [nr_applyPred ihp h.2]

theorem nr_step {base : Expr} (ax : Axis) (t : NodeTest) {preds : Exprs} (ihb : NRE base)
    (ihp : NRL preds) : NRE (.step base ax t preds) := by
  intro h c
  simp only [noRound, Bool.and_eq_true] at h
  rw [eval, eval, ihb h.1]
  have hp := (ihp h.2).2
  simp only [semKF_perNode, semKF_axis, hp]

theorem nr_nil : NRL .nil := by
  intro _
  exact ⟨fun c => by rw [evalArgs, evalArgs], fun c l => by rw [applyPreds, applyPreds]⟩

theorem nr_cons {e : Expr} {es : Exprs} (ihe : NRE e) (ihes : NRL es) : NRL (.cons e es) := by
  intro h
  simp only [noRoundL, Bool.and_eq_true] at h
  constructor
  · intro c
    rw [evalArgs, evalArgs, ihe h.1, (ihes h.2).1]
  · intro c l
    rw [applyPreds, applyPreds, nr_applyPred ihe h.1]
    cases applyPred Spec.sem e c l with
    | error e => rfl
    | ok kept =>
      simp only [bind, Except.bind]
      exact (ihes h.2).2 c kept

theorem nr_all (e : Expr) : NRE e :=
  @Expr.rec NRE NRL
    (fun op _ _ ihl ihr => nr_bin op ihl ihr)
    (fun _ ih => nr_neg ih)
    (fun _ _ c => by rw [eval, eval]) (fun _ _ c => by rw [eval, eval])
    (fun _ _ _ c => by rw [eval, eval])
    (fun _ pfx name _ ihb iha => nr_call pfx name ihb iha)
    (fun _ c => by rw [eval, eval]) (fun _ c => by rw [eval, eval])
    (fun _ ax t _ ihb ihp => nr_step ax t ihb ihp)
    (fun _ _ ihb ihp => nr_filt ihb ihp)
    nr_nil
    (fun _ _ ihe ihes => nr_cons ihe ihes)
    e

/-- **semKF_eq_sem_of_noRound** — on an expression that calls neither `round` nor `substring` the
    specification with the recorded deviation IS the specification -/
theorem semKF_eq_sem_of_noRound (e : Expr) (h : noRound e = true) (c : Ctx) :
    eval Spec.semKF e c = eval Spec.sem e c := nr_all e h c

theorem runKF_eq_run_of_noRound (a : Arena) (env : Env) (start : Nat) (e : Expr)
    (h : noRound e = true) : Spec.runKF a env start e = Spec.run a env start e :=
  nr_all e h _

/-- **run_refines_spec_noRound** — for such expressions `exec.Exec` refines the XPath 1.0
    specification itself (`Spec.sem`, no known finding involved) -/
theorem run_refines_spec_noRound (a : Arena) (h : wfb a = true) (env : Env) (henv : EnvOk a env)
    (e : Expr) (start : Nat) (hs : start < a.size) (hsum : sumSafe true e = true)
    (hnr : noRound e = true) :
    Res.Equiv (Model.run a env start e) (Spec.run a env start e) := by
  rw [← runKF_eq_run_of_noRound a env start e hnr]
  exact run_refines_spec' a h env henv e start hs hsum

theorem xml_query_refines_spec_noRound (top : Xml.XNodes) (h : XmlL.WFDoc top)
    (env : Env) (henv : EnvOk (Store.build (Xml.events (Xml.docTokens top))) env) (e : Expr)
    (hsum : sumSafe true e = true) (hnr : noRound e = true) :
    Res.Equiv (Model.run (Store.build (Xml.events (Xml.docTokens top))) env 0 e)
      (Spec.run (Store.build (Xml.events (Xml.docTokens top))) env 0 e) := by
  rw [← runKF_eq_run_of_noRound _ env 0 e hnr]
  exact (xml_query_refines_spec top h env henv e hsum).2

theorem json_query_refines_spec_noRound (vs : List JVal)
    (env : Env) (henv : EnvOk (Store.build (vs.flatMap Json.eventsOf)) env) (e : Expr)
    (hsum : sumSafe true e = true) (hnr : noRound e = true) :
    Res.Equiv (Model.run (Store.build (vs.flatMap Json.eventsOf)) env 0 e)
      (Spec.run (Store.build (vs.flatMap Json.eventsOf)) env 0 e) := by
  rw [← runKF_eq_run_of_noRound _ env 0 e hnr]
  exact (json_query_refines_spec vs env henv e hsum).2.2

/-- non-vacuity: `//a[position() = 2]/b[last()]` satisfies `noRound` (and, having no `sum` or
    `lang`, `sumSafe`) -/
example : noRound
    (.step (.step (.step .root .descendantOrSelf .node .nil) .child (.name "a".toList)
      (.cons (.bin (.cmp .eq) (.call .ctx none "position".toList .nil) (.num (Num.ofNat 2))) .nil))
      .child (.name "b".toList) (.cons (.call .ctx none "last".toList .nil) .nil)) = true := by
  decide

end Xsel.Chain
