/-
  Proofs/Lemmas/StoreOrd.lean — S4: inside every cell, namespace nodes < attributes < children.
  This is the one clause of the Cursor contract that depends on the event stream honouring the
  Parser contract; the decidable predicates `Ordered` / `Conforming` state what is needed.
-/
import Proofs.Lemmas.StoreFacts

namespace Xsel.StoreL
open Xsel Xsel.Store Xsel.Arena

/-- what the innermost open element (or the document, at top level) may still receive -/
inductive Phase where
  | ns | attr | child
deriving DecidableEq, Repr

/-- the phase after an event; `none` when the event comes too late:
    a namespace event after an attribute or child event of the same element,
    or an attribute event after a child event -/
def nextPhase : Phase → Ev → Option Phase
  | _, .elem _ _ => some .ns
  | .ns, .ns _ _ => some .ns
  | _, .ns _ _ => none
  | .child, .attr _ _ _ => none
  | _, .attr _ _ _ => some .attr
  | _, .text _ => some .child
  | _, .comment _ => some .child
  | _, .pi _ _ => some .child
  | _, .close => some .child

def orderedFrom : Phase → List Ev → Bool
  | _, [] => true
  | ph, e :: es =>
    match nextPhase ph e with
    | none => false
    | some ph' => orderedFrom ph' es

/-- no attribute event at nesting depth 0 -/
def noRootAttr : Nat → List Ev → Bool
  | _, [] => true
  | d, .attr _ _ _ :: es => decide (0 < d) && noRootAttr d es
  | d, .elem _ _ :: es => noRootAttr (d + 1) es
  | d, .close :: es => noRootAttr (d - 1) es
  | d, _ :: es => noRootAttr d es

/-- within an element (and at top level) namespace events come before attribute events, which come
    before child events -/
def Ordered (evs : List Ev) : Prop := orderedFrom .ns evs = true

/-- `Ordered`, and attribute events do not occur at the root level -/
def Conforming (evs : List Ev) : Prop := orderedFrom .ns evs = true ∧ noRootAttr 0 evs = true

instance (evs : List Ev) : Decidable (Ordered evs) := by unfold Ordered; infer_instance
instance (evs : List Ev) : Decidable (Conforming evs) := by unfold Conforming; infer_instance

theorem Conforming.ordered {evs : List Ev} (h : Conforming evs) : Ordered evs := h.1

def Cls.rank : Cls → Nat
  | .ns => 0
  | .attr => 1
  | .kid => 2

/-- in every cell: namespace nodes < attributes < children -/
def OrdInv (a : Arena) : Prop :=
  ∀ i, i < a.size → ∀ Y Z : Cls, Y.rank < Z.rank →
    ∀ x ∈ Y.list (cell a i), ∀ y ∈ Z.list (cell a i), x < y

theorem OrdInv.ext {X : Cls} {cur : Nat} {a a' : Arena} (o : OrdInv a) (h : AInv a)
    (e : Ext X cur a a') (hz : ∀ Z : Cls, X.rank < Z.rank → Z.list (cell a cur) = []) :
    OrdInv a' := by
  intro i hi Y Z hr x hx y hy
  by_cases ho : i < a.size
  · rcases e.mem_list ho hx with hx | ⟨rfl, rfl, hx1, hx2⟩
    · rcases e.mem_list ho hy with hy | ⟨rfl, rfl, hy1, hy2⟩
      · exact o i ho Y Z hr x hx y hy
      · have := (h.lst Y i ho x hx).2.1
        omega
    · rcases e.mem_list ho hy with hy | ⟨rfl, _, hy1, hy2⟩
      · rw [hz Z hr] at hy; exact absurd hy List.not_mem_nil
      · omega
  · rw [(e.new i (Nat.not_lt.mp ho) hi).list Y] at hx
    exact absurd hx List.not_mem_nil

theorem OrdInv_init : OrdInv Store.init.a := by
  intro i hi Y Z _ x hx
  have : i = 0 := by have : Store.init.a.size = 1 := rfl; omega
  subst this
  cases Y <;> simp [Cls.list, Store.init, Arena.cell] at hx

/-- the lists of a fresh open element are empty -/
theorem SInv.list_nil {s : BState} (h : SInv s) (hd : s.done = false) (Y : Cls) :
    Y.list (cell s.a s.cur) = [] := by
  apply List.eq_nil_iff_forall_not_mem.mpr
  intro j hj
  have := h.p.ainv.lst Y s.cur h.p.cur_lt j hj
  have := h.fresh hd
  omega

theorem finish_of_done {s : BState} (hd : s.done = true) : finish s = s := by
  rw [finish_eq, if_pos hd]

theorem OrdInv.finish {s : BState} (o : OrdInv s.a) (h : SInv s) : OrdInv (finish s).a := by
  cases hd : s.done
  · exact o.ext h.p.ainv h.finish_ext (fun Z _ => h.list_nil hd Z)
  · rw [finish_of_done hd]; exact o

/-- the link between the phase of the stream and the builder state -/
structure OInv (s : BState) (ph : Phase) : Prop where
  ord : OrdInv s.a
  nsPhase : ph = .ns → s.done = false
  attrPhase : ph = .attr → (cell s.a s.cur).kids = []

/-- `finish` leaves the attribute and child lists of the open element alone -/
theorem SInv.finish_list {s : BState} (h : SInv s) {Y : Cls} (hY : Y ≠ .ns) :
    Y.list (cell (Store.finish s).a (Store.finish s).cur) = Y.list (cell s.a s.cur) := by
  rw [finish_cur]
  exact h.finish_ext.list Y s.cur h.p.cur_lt (Or.inl hY)

theorem OInv.kids_nil {s : BState} {ph : Phase} (o : OInv s ph) (h : SInv s)
    (hp : ph = .ns ∨ ph = .attr) : (cell (finish s).a (finish s).cur).kids = [] := by
  have e : (cell (finish s).a (finish s).cur).kids = (cell s.a s.cur).kids :=
    h.finish_list (Y := .kid) (by decide)
  rw [e]
  rcases hp with hp | hp
  · exact h.list_nil (o.nsPhase hp) .kid
  · exact o.attrPhase hp

theorem OInv.addKid {s : BState} {ph : Phase} (o : OInv s ph) (h : SInv s) (c : Cell)
    (hk : Cls.kid.ok c.kind) (h1 : c.nss = []) (h2 : c.attrs = []) (h3 : c.kids = []) :
    OrdInv (addLeaf s c false).a := by
  have hf := h.finish
  refine (o.ord.finish h).ext hf.ainv (addKid_ext s c hk h1 h2 h3 hf.cur_lt) ?_
  intro Z hZ; cases Z <;> simp [Cls.rank] at hZ

theorem OInv.step {s : BState} {ph ph' : Phase} (o : OInv s ph) (h : SInv s) (e : Ev)
    (hn : nextPhase ph e = some ph') : OInv (step s e) ph' := by
  cases e with
  | elem u l =>
    have : ph' = .ns := by cases ph <;> simp [nextPhase] at hn <;> exact hn.symm
    subst this
    refine ⟨?_, fun _ => rfl, fun hp => (by cases hp)⟩
    rw [elem_a]; exact o.addKid h _ (by simp [Cls.ok]) rfl rfl rfl
  | ns p u =>
    have hph : ph = .ns ∧ ph' = .ns := by cases ph <;> simp [nextPhase] at hn <;> simp [hn]
    obtain ⟨rfl, rfl⟩ := hph
    obtain ⟨h1, h2, h3⟩ := ns_pending s p u (o.nsPhase rfl)
    refine ⟨by rw [h1]; exact o.ord, fun _ => h3, fun hp => (by cases hp)⟩
  | attr u l v =>
    have hph : (ph = .ns ∨ ph = .attr) ∧ ph' = .attr := by
      cases ph <;> simp [nextPhase] at hn <;> simp [hn]
    obtain ⟨hp, rfl⟩ := hph
    have hf := h.finish
    have hkn := o.kids_nil h hp
    have hx := addAttr_ext s { kind := .attr, uri := u, loc := l, val := v } rfl rfl rfl rfl
      hf.cur_lt
    refine ⟨?_, fun hp => (by cases hp), fun _ => ?_⟩
    · refine (o.ord.finish h).ext hf.ainv hx ?_
      intro Z hZ
      cases Z <;> simp [Cls.rank] at hZ
      exact hkn
    · show (cell (addLeaf s _ true).a (addLeaf s _ true).cur).kids = []
      rw [addLeaf_cur, ← finish_cur]
      have := hx.list .kid (finish s).cur hf.cur_lt (Or.inl (by decide))
      exact this.trans hkn
  | text v =>
    have : ph' = .child := by cases ph <;> simp [nextPhase] at hn <;> exact hn.symm
    subst this
    exact ⟨o.addKid h _ (by simp [Cls.ok]) rfl rfl rfl, fun hp => (by cases hp),
      fun hp => (by cases hp)⟩
  | comment v =>
    have : ph' = .child := by cases ph <;> simp [nextPhase] at hn <;> exact hn.symm
    subst this
    exact ⟨o.addKid h _ (by simp [Cls.ok]) rfl rfl rfl, fun hp => (by cases hp),
      fun hp => (by cases hp)⟩
  | pi t v =>
    have : ph' = .child := by cases ph <;> simp [nextPhase] at hn <;> exact hn.symm
    subst this
    exact ⟨o.addKid h _ (by simp [Cls.ok]) rfl rfl rfl, fun hp => (by cases hp),
      fun hp => (by cases hp)⟩
  | close =>
    have : ph' = .child := by cases ph <;> simp [nextPhase] at hn <;> exact hn.symm
    subst this
    refine ⟨?_, fun hp => (by cases hp), fun hp => (by cases hp)⟩
    rw [close_a]; exact o.ord.finish h

theorem OInv.foldl {s : BState} {ph : Phase} (o : OInv s ph) (h : SInv s) (evs : List Ev)
    (ho : orderedFrom ph evs = true) : OrdInv (finish (evs.foldl Store.step s)).a := by
  induction evs generalizing s ph with
  | nil => exact o.ord.finish h
  | cons e es ih =>
    simp only [orderedFrom] at ho
    split at ho
    · cases ho
    · next ph' hn => exact ih (o.step h e hn) (h.step e) ho

/-- S4 -/
theorem build_ordinv {evs : List Ev} (ho : Ordered evs) : OrdInv (build evs) :=
  OInv.foldl ⟨OrdInv_init, fun _ => rfl, fun hp => (by cases hp)⟩ SInv_init evs ho

end Xsel.StoreL
