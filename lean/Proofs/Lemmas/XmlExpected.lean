/-
  Proofs/Lemmas/XmlExpected.lean — C09 step (c): the tree the event list of a document denotes
  (`Spec.expected`) is the XPath data model of the document (`Xml.dataModel`).
-/
import Proofs.Lemmas.XmlScope

namespace Xsel.XmlL
open Xsel Xsel.Xml Xsel.Spec Xsel.StoreL

/-! ### single events -/

def elemDesc (u l : Chars) (dp : Nat) (sc : List (Chars × Chars)) : NodeDesc :=
  { kind := .elem, uri := u, loc := l, val := [], depth := dp, scope := sortBinds sc }

/-- the state while the namespaces of a just-opened element are being declared -/
def declSt (u l : Chars) (dp : Nat) (o : List NodeDesc) (sc r1 : List (Chars × Chars))
    (rest : List (List (Chars × Chars))) : EState :=
  { out := elemDesc u l dp sc :: o, scopes := sc :: r1 :: rest, declaring := true }

theorem estep_elem (o : List NodeDesc) (es : List (Chars × Chars))
    (rest : List (List (Chars × Chars))) (b : Bool) (u l : Chars) :
    estep ⟨o, es :: rest, b⟩ (.elem u l) = declSt u l (rest.length + 1) o es es rest := rfl

theorem estep_ns (u l : Chars) (dp : Nat) (o : List NodeDesc) (sc r1 : List (Chars × Chars))
    (rest : List (List (Chars × Chars))) (p v : Chars) :
    estep (declSt u l dp o sc r1 rest) (.ns p v) = declSt u l dp o (Spec.bind p v sc) r1 rest := by
  simp [estep, declSt, setHeadScope, elemDesc]

theorem fold_decls (u l : Chars) (dp : Nat) (o : List NodeDesc) (r1 : List (Chars × Chars))
    (rest : List (List (Chars × Chars))) : ∀ (decls sc : List (Chars × Chars)),
    (decls.map (fun pu => Ev.ns pu.1 pu.2)).foldl estep (declSt u l dp o sc r1 rest)
      = declSt u l dp o (scopeOf sc decls) r1 rest
  | [], _ => rfl
  | pu :: t, sc => by
    rw [List.map_cons, List.foldl_cons, estep_ns, fold_decls u l dp o r1 rest t, scopeOf_cons]

theorem fold_nsEvents (u l : Chars) (dp : Nat) (o : List NodeDesc) (es r1 : List (Chars × Chars))
    (rest : List (List (Chars × Chars))) (decls : List (Chars × Chars)) :
    (nsEvents decls).foldl estep (declSt u l dp o es r1 rest)
      = declSt u l dp o (evScope es decls) r1 rest := by
  rw [nsEvents, List.foldl_cons, estep_ns, fold_decls]
  rfl

def attrDesc (sc : List (Chars × Chars)) (d : Nat) (a : Option Chars × Chars × Chars) : NodeDesc :=
  { kind := .attr, uri := attrUri sc a.1, loc := a.2.1, val := a.2.2, depth := d, scope := [] }

theorem fold_attrs (sc : List (Chars × Chars)) (scs : List (List (Chars × Chars))) :
    ∀ (attrs : List (Option Chars × Chars × Chars)) (o : List NodeDesc) (b : Bool),
    ∃ b', (attrEvents sc attrs).foldl estep ⟨o, scs, b⟩
      = ⟨(attrs.map (attrDesc sc scs.length)).reverse ++ o, scs, b'⟩
  | [], o, b => ⟨b, rfl⟩
  | a :: t, o, b => by
    obtain ⟨b', h⟩ := fold_attrs sc scs t
      ({ kind := .attr, uri := attrUri sc a.1, loc := a.2.1, val := a.2.2, depth := scs.length,
         scope := [] } :: o) false
    refine ⟨b', ?_⟩
    rw [attrEvents, List.map_cons, List.foldl_cons]
    simp only [estep]
    rw [attrEvents] at h
    rw [h]
    simp [attrDesc]

theorem estep_close (o : List NodeDesc) (sc es : List (Chars × Chars))
    (rest : List (List (Chars × Chars))) (b : Bool) :
    estep ⟨o, sc :: es :: rest, b⟩ .close = ⟨o, es :: rest, false⟩ := rfl

/-! ### nodes -/

mutual
theorem fold_node (ms : List (Chars × Chars)) (n : XNode) (o : List NodeDesc)
    (es : List (Chars × Chars)) (rest : List (List (Chars × Chars))) (b : Bool)
    (hr : Rel es ms) (hw : wfNode ms n = true) :
    ∃ b', (specEvents ms n).foldl estep ⟨o, es :: rest, b⟩
      = ⟨(model ms (rest.length + 1) n).reverse ++ o, es :: rest, b'⟩ :=
  match n with
  | .elem pfx loc decls attrs af kids => by
    simp only [wfNode, Bool.and_eq_true] at hw
    have hd := hw.1.1.1.1
    obtain ⟨b1, h1⟩ := fold_attrs (scopeOf ms decls) (evScope es decls :: es :: rest) attrs
      (elemDesc (elemUri (scopeOf ms decls) pfx) loc (rest.length + 1) (evScope es decls) :: o) true
    obtain ⟨b2, h2⟩ := fold_kids (scopeOf ms decls) kids
      ((attrs.map (attrDesc (scopeOf ms decls) (evScope es decls :: es :: rest).length)).reverse ++
        (elemDesc (elemUri (scopeOf ms decls) pfx) loc (rest.length + 1) (evScope es decls) :: o))
      (evScope es decls) (es :: rest) b1 (evScope_rel hr decls hd) hw.2
    refine ⟨false, ?_⟩
    rw [specEvents, List.foldl_cons, estep_elem, List.foldl_append, fold_nsEvents,
      List.foldl_append]
    rw [declSt, h1, List.foldl_append, h2]
    simp only [List.foldl_cons, List.foldl_nil, estep_close]
    simp [model, elemDesc, evScope_sort hr decls, attrDesc]
  | .text segs => ⟨false, by simp [specEvents, model, estep, flat]⟩
  | .comment s => ⟨false, by simp [specEvents, model, estep]⟩
  | .pi t v => ⟨false, by simp [specEvents, model, estep]⟩
  | .xmldecl _ => ⟨b, by simp [specEvents, model]⟩
  | .doctype => ⟨b, by simp [specEvents, model]⟩
  | .ws _ => ⟨b, by simp [specEvents, model]⟩
theorem fold_kids (ms : List (Chars × Chars)) (l : XNodes) (o : List NodeDesc)
    (es : List (Chars × Chars)) (rest : List (List (Chars × Chars))) (b : Bool)
    (hr : Rel es ms) (hw : wfKids ms l = true) :
    ∃ b', (specEventsList ms l).foldl estep ⟨o, es :: rest, b⟩
      = ⟨(modelList ms (rest.length + 1) l).reverse ++ o, es :: rest, b'⟩ :=
  match l with
  | .nil => ⟨b, by simp [specEventsList, modelList]⟩
  | .cons n t => by
    rw [wfKids, Bool.and_eq_true, Bool.and_eq_true] at hw
    obtain ⟨b1, h1⟩ := fold_node ms n o es rest b hr hw.1.1
    obtain ⟨b2, h2⟩ := fold_kids ms t ((model ms (rest.length + 1) n).reverse ++ o) es rest b1 hr
      hw.2
    refine ⟨b2, ?_⟩
    rw [specEventsList, List.foldl_append, h1, h2]
    simp [modelList]
end

/-- a child of the document node is a layout node (no event, no node) or a `wfNode` -/
theorem fold_topNode (ms : List (Chars × Chars)) (n : XNode) (t : XNodes) (o : List NodeDesc)
    (es : List (Chars × Chars)) (rest : List (List (Chars × Chars))) (b : Bool)
    (hr : Rel es ms) (hw : wfTopNode ms n t = true) :
    ∃ b', (specEvents ms n).foldl estep ⟨o, es :: rest, b⟩
      = ⟨(model ms (rest.length + 1) n).reverse ++ o, es :: rest, b'⟩ := by
  cases n with
  | text _ => simp [wfTopNode] at hw
  | xmldecl _ => exact ⟨b, by simp [specEvents, model]⟩
  | doctype => exact ⟨b, by simp [specEvents, model]⟩
  | ws _ => exact ⟨b, by simp [specEvents, model]⟩
  | elem pfx loc decls attrs af kids => exact fold_node ms _ o es rest b hr hw
  | comment s => exact fold_node ms _ o es rest b hr hw
  | pi tg v => exact fold_node ms _ o es rest b hr hw

theorem fold_top (ms : List (Chars × Chars)) (es : List (Chars × Chars))
    (rest : List (List (Chars × Chars))) (hr : Rel es ms) :
    ∀ (l : XNodes) (o : List NodeDesc) (b : Bool), wfTop ms l = true →
    ∃ b', (specEventsList ms l).foldl estep ⟨o, es :: rest, b⟩
      = ⟨(modelList ms (rest.length + 1) l).reverse ++ o, es :: rest, b'⟩
  | .nil, o, b, _ => ⟨b, by simp [specEventsList, modelList]⟩
  | .cons n t, o, b, hw => by
    rw [wfTop, Bool.and_eq_true] at hw
    obtain ⟨b1, h1⟩ := fold_topNode ms n t o es rest b hr hw.1
    obtain ⟨b2, h2⟩ := fold_top ms es rest hr t ((model ms (rest.length + 1) n).reverse ++ o) b1 hw.2
    refine ⟨b2, ?_⟩
    rw [specEventsList, List.foldl_append, h1, h2]
    simp [modelList]

/-- (c) the tree the event list of a document denotes is the data model of the document -/
theorem expected_docEvents (top : XNodes) (h : WFDoc top) :
    Spec.expected (docEvents top) = Xml.dataModel top := by
  obtain ⟨b, hb⟩ := fold_top topScope [] [] Rel_top top [] true h.1
  have e : ({} : EState) = ⟨[], [[]], true⟩ := rfl
  rw [Spec.expected, docEvents, e, hb]
  simp [dataModel, topScope]

end Xsel.XmlL
