/-
  Proofs/Lemmas/ParseGram.lean — every token list that the model parser (`Xsel/Parse.lean`) accepts
  under xsel's syntax (`opNames = fnNames = trailDot = false`, `glue` arbitrary) is a sentence of the
  grammar compiled into xsel's generated parser (`Xsel.Gram.G`, start symbol `OrExpr`).

  For every function of the recursive-descent parser there is one invariant about TOKENS only: the
  tokens it consumes are derived from the function's nonterminal (`Inv`).  The grammar is left
  recursive where the parser loops, so the loop functions (`pBinRest`, `pUnionRest`, `pFilt`, `pRel`)
  are described relative to what has been consumed before: if the tokens so far are derived from the
  nonterminal, so are the tokens so far followed by the tokens consumed now.  All invariants are proved
  together by induction on the fuel (`inv_all`): every call decreases the fuel by one.
-/
import Proofs.Lemmas.ParseGramBase

set_option linter.unusedSimpArgs false

namespace Xsel.Syntax
open Xsel.Gram

/-! ### grammar facts used by several functions -/

/-- `w0` is what may stand to the left of a step in a `RelativeLocationPath`: nothing, or a
    `RelativeLocationPath` followed by `/` or `//` -/
def RelCtx (w0 : List String) : Prop := ∀ s, Der "Step" s → Der "RelativeLocationPath" (w0 ++ s)

theorem relCtx_nil : RelCtx [] := fun _ d => der_unit (by prod_mem) d

theorem relCtx_slash {w0 s : List String} (hc : RelCtx w0) (ds : Der "Step" s) :
    RelCtx (w0 ++ s ++ ["/"]) := by
  intro s' d'
  have := der_unit (A := "RelativeLocationPath") (by prod_mem)
    (der_prod (A := "RelativeLocationPathWithStep") (by prod_mem) (rhs_N (hc s ds) (rhs_T "/" d')))
  simpa using this

theorem relCtx_dslash {w0 s : List String} (hc : RelCtx w0) (ds : Der "Step" s) :
    RelCtx (w0 ++ s ++ ["//"]) := by
  intro s' d'
  have := der_unit (A := "RelativeLocationPath") (by prod_mem)
    (der_prod (A := "AbbreviatedRelativeLocationPath") (by prod_mem) (rhs_N (hc s ds) (rhs_T "//" d')))
  simpa using this

theorem der_predicate {a : List String} (d : Der "OrExpr" a) : Der "Predicate" ("[" :: (a ++ ["]"])) :=
  der_prod (by prod_mem) (rhs_T "[" (rhs_N d (rhs_T1 "]")))

/-- a step with an axis specifier: `AxisSpecifier NodeTest Predicate*` -/
theorem der_axis_step {a b p : List String} (da : Der "AxisSpecifier" a) (db : Der "NodeTest" b)
    (dp : p = [] ∨ Der "StepWithPredicate" p) : Der "Step" (a ++ (b ++ p)) := by
  have dab : Der "StepWithAxisAndNodeTest" (a ++ b) := der_prod (by prod_mem) (rhs_N da db)
  rcases dp with rfl | dp
  · have := der_unit (A := "Step") (by prod_mem) dab
    simpa using this
  · have := der_unit (A := "Step") (by prod_mem)
      (der_prod (A := "StepWithAxisAndNodeTestAndPredicate") (by prod_mem) (rhs_N dab dp))
    simpa using this

/-- a step without an axis specifier: `NodeTest Predicate*` -/
theorem der_child_step {b p : List String} (db : Der "NodeTest" b)
    (dp : p = [] ∨ Der "StepWithPredicate" p) : Der "Step" (b ++ p) := by
  rcases dp with rfl | dp
  · have := der_unit (A := "Step") (by prod_mem) db
    simpa using this
  · exact der_unit (A := "Step") (by prod_mem)
      (der_prod (A := "NodeTestAndPredicate") (by prod_mem) (rhs_N db dp))

/-- a `RelativeLocationPath` is a `PathExpr` -/
theorem der_path_of_rel {w : List String} (d : Der "RelativeLocationPath" w) : Der "PathExpr" w :=
  der_unit (by prod_mem) (der_unit (A := "LocationPath") (by prod_mem) d)

/-- an `AbsoluteLocationPath` is a `PathExpr` -/
theorem der_path_of_abs {w : List String} (d : Der "AbsoluteLocationPath" w) : Der "PathExpr" w :=
  der_unit (by prod_mem) (der_unit (A := "LocationPath") (by prod_mem) d)

/-! ### the invariants -/

/-- what is known about the parser functions run with fuel `f` -/
structure Inv (c : Cfg) (f : Nat) : Prop where
  bin : ∀ {lvl ts e r}, pBin c f lvl ts = some (e, r) →
    ∃ pre, ts = pre ++ r ∧ Der (lvlNT lvl) (terms pre)
  binRest : ∀ {lvl lhs ts e r}, pBinRest c f lvl lhs ts = some (e, r) →
    ∃ pre, ts = pre ++ r ∧ ∀ w0, Der (lvlNT lvl) w0 → Der (lvlNT lvl) (w0 ++ terms pre)
  unary : ∀ {ts e r}, pUnary c f ts = some (e, r) →
    ∃ pre, ts = pre ++ r ∧ Der "UnaryExpr" (terms pre)
  unionRest : ∀ {lhs ts e r}, pUnionRest c f lhs ts = some (e, r) →
    ∃ pre, ts = pre ++ r ∧ ∀ w0, Der "UnionExpr" w0 → Der "UnionExpr" (w0 ++ terms pre)
  path : ∀ {ts e r}, pPath c f ts = some (e, r) →
    ∃ pre, ts = pre ++ r ∧ Der "PathExpr" (terms pre)
  filt : ∀ {e0 ts e r}, pFilt c f e0 ts = some (e, r) →
    ∃ pre, ts = pre ++ r ∧ ∀ w0, Der "FilterExpr" w0 → Der "FilterExpr" (w0 ++ terms pre)
  primary : ∀ {ts e r}, pPrimary c f ts = some (e, r) →
    ∃ pre, ts = pre ++ r ∧ Der "PrimaryExpr" (terms pre)
  rel : ∀ {base ts e r}, pRel c f base ts = some (e, r) →
    ∃ pre, ts = pre ++ r ∧ ∀ w0, RelCtx w0 → Der "RelativeLocationPath" (w0 ++ terms pre)
  step : ∀ {base ts e r}, pStep c f base ts = some (e, r) →
    ∃ pre, ts = pre ++ r ∧ Der "Step" (terms pre)
  preds : ∀ {ts es r}, pPreds c f ts = some (es, r) →
    ∃ pre, ts = pre ++ r ∧ (terms pre = [] ∨ Der "StepWithPredicate" (terms pre))
  args : ∀ {ts es r}, pArgs c f ts = some (es, r) →
    ∃ pre, ts = pre ++ r ∧ Der "FunctionSignature" (terms pre)
  args1 : ∀ {ts es r}, pArgs1 c f ts = some (es, r) →
    ∃ pre, ts = pre ++ r ∧ Der "FunctionCallArgumentList" (terms pre)

variable {c : Cfg} {f : Nat}

theorem inv_zero : Inv c 0 := by
  constructor <;> intros <;> rename_i h <;> simp [pBin, pBinRest, pUnary, pUnionRest, pPath, pFilt,
    pPrimary, pRel, pStep, pPreds, pArgs, pArgs1] at h

/-! ### one step of fuel, function by function -/

theorem bin_succ (I : Inv c f) {lvl : Nat} {ts r : Toks} {e : Expr}
    (h : pBin c (f + 1) lvl ts = some (e, r)) :
    ∃ pre, ts = pre ++ r ∧ Der (lvlNT lvl) (terms pre) := by
  unfold pBin at h
  split at h
  · next hl =>
    obtain ⟨pre, rfl, d⟩ := I.unary h
    exact ⟨pre, rfl, by rw [lvlNT_ge hl]; exact d⟩
  · next hl =>
    split at h
    · next l r1 hb =>
      obtain ⟨pre1, rfl, d1⟩ := I.bin hb
      obtain ⟨pre2, rfl, d2⟩ := I.binRest h
      refine ⟨pre1 ++ pre2, by simp [P, K], ?_⟩
      rw [terms_append]
      exact d2 _ (der_lvl_up hl d1)
    · cases h

theorem binRest_succ (I : Inv c f) {lvl : Nat} {lhs : Expr} {ts r : Toks} {e : Expr}
    (h : pBinRest c (f + 1) lvl lhs ts = some (e, r)) :
    ∃ pre, ts = pre ++ r ∧ ∀ w0, Der (lvlNT lvl) w0 → Der (lvlNT lvl) (w0 ++ terms pre) := by
  unfold pBinRest at h
  split at h
  · next t r1 =>
    split at h
    · next op hop =>
      split at h
      · next rhs r' hb =>
        obtain ⟨pre1, rfl, d1⟩ := I.bin hb
        obtain ⟨pre2, rfl, d2⟩ := I.binRest h
        refine ⟨t :: (pre1 ++ pre2), by simp [P, K], ?_⟩
        intro w0 d0
        have := d2 _ (opAt_sound hop d0 d1)
        simpa using this
      · cases h
    · cases h
      exact ⟨[], by simp, fun w0 d0 => by simpa using d0⟩
  · cases h
    exact ⟨[], by simp, fun w0 d0 => by simpa using d0⟩

theorem unary_succ (I : Inv c f) {ts r : Toks} {e : Expr}
    (h : pUnary c (f + 1) ts = some (e, r)) :
    ∃ pre, ts = pre ++ r ∧ Der "UnaryExpr" (terms pre) := by
  unfold pUnary at h
  split at h
  · next g r1 =>
    split at h
    · next e1 r' hu =>
      cases h
      obtain ⟨pre, rfl, d⟩ := I.unary hu
      exact ⟨P .minus g :: pre, rfl, der_unit (by prod_mem)
        (der_prod (A := "UnaryExprNegate") (by prod_mem) (rhs_T "-" d))⟩
    · cases h
  · split at h
    · next l r1 hp =>
      obtain ⟨pre1, rfl, d1⟩ := I.path hp
      obtain ⟨pre2, rfl, d2⟩ := I.unionRest h
      refine ⟨pre1 ++ pre2, by simp [P, K], ?_⟩
      rw [terms_append]
      exact der_unit (by prod_mem) (d2 _ (der_unit (A := "UnionExpr") (by prod_mem) d1))
    · cases h

theorem unionRest_succ (I : Inv c f) {lhs : Expr} {ts r : Toks} {e : Expr}
    (h : pUnionRest c (f + 1) lhs ts = some (e, r)) :
    ∃ pre, ts = pre ++ r ∧ ∀ w0, Der "UnionExpr" w0 → Der "UnionExpr" (w0 ++ terms pre) := by
  unfold pUnionRest at h
  split at h
  · next g r1 =>
    split at h
    · next rhs r' hp =>
      obtain ⟨pre1, rfl, d1⟩ := I.path hp
      obtain ⟨pre2, rfl, d2⟩ := I.unionRest h
      refine ⟨P .pipe g :: (pre1 ++ pre2), by simp [P, K], ?_⟩
      intro w0 d0
      have du : Der "UnionExpr" (w0 ++ "|" :: terms pre1) :=
        der_unit (by prod_mem)
          (der_prod (A := "UnionExprUnion") (by prod_mem) (rhs_N d0 (rhs_T "|" d1)))
      have := d2 _ du
      simpa [P, Tok.term, Punct.term] using this
    · cases h
  · cases h
    exact ⟨[], by simp, fun w0 d0 => by simpa using d0⟩

theorem filt_succ (I : Inv c f) {e0 : Expr} {ts r : Toks} {e : Expr}
    (h : pFilt c (f + 1) e0 ts = some (e, r)) :
    ∃ pre, ts = pre ++ r ∧ ∀ w0, Der "FilterExpr" w0 → Der "FilterExpr" (w0 ++ terms pre) := by
  unfold pFilt at h
  split at h
  · next g r1 =>
    split at h
    · next p g2 r' hb =>
      obtain ⟨pre1, hr1, d1⟩ := I.bin hb
      obtain ⟨pre2, rfl, d2⟩ := I.filt h
      subst hr1
      refine ⟨P .lbrack g :: (pre1 ++ P .rbrack g2 :: pre2), by simp [P, K], ?_⟩
      intro w0 d0
      have dP := der_predicate d1
      have dF : Der "FilterExpr" (w0 ++ ("[" :: (terms pre1 ++ ["]"]))) :=
        der_unit (by prod_mem)
          (der_prod (A := "FilterExprWithPredicate") (by prod_mem) (rhs_N d0 dP))
      have := d2 _ dF
      simpa [P, Tok.term, Punct.term] using this
    · cases h
  · cases h
    exact ⟨[], by simp, fun w0 d0 => by simpa using d0⟩

theorem primary_succ (h2 : c.fnNames = false) (h3 : c.trailDot = false) (I : Inv c f)
    {ts r : Toks} {e : Expr} (h : pPrimary c (f + 1) ts = some (e, r)) :
    ∃ pre, ts = pre ++ r ∧ Der "PrimaryExpr" (terms pre) := by
  unfold pPrimary at h
  split at h
  · next g r1 =>
    split at h
    · next e1 g2 r' hb =>
      cases h
      obtain ⟨pre, hr, d⟩ := I.bin hb
      subst hr
      refine ⟨P .lparen g :: (pre ++ [P .rparen g2]), by simp [P, K], ?_⟩
      have d' : Der "OrExpr" (terms pre) := d
      have := der_unit (A := "PrimaryExpr") (by prod_mem)
        (der_prod (A := "PrimaryExprParenthetic") (by prod_mem) (rhs_T "(" (rhs_N d' (rhs_T1 ")"))))
      simpa [P, Tok.term, Punct.term] using this
    · cases h
  · cases h
    exact ⟨[_], rfl, der_unit (by prod_mem) (der_literal _ _)⟩
  · cases h
    exact ⟨[_], rfl, der_unit (by prod_mem)
      (der_prod (A := "VariableReference") (by prod_mem) (rhs_T1 "variableReference"))⟩
  · split at h
    · next pfx name r1 hcs =>
      split at h
      · next args r' ha =>
        cases h
        obtain ⟨pre1, rfl, d1⟩ := callStart_sound h2 hcs
        obtain ⟨pre2, rfl, d2⟩ := I.args ha
        refine ⟨pre1 ++ pre2, by simp [P, K], ?_⟩
        rw [terms_append]
        exact der_unit (by prod_mem) (d1 _ d2)
      · cases h
    · obtain ⟨pre, rfl, d⟩ := number_sound h3 h
      exact ⟨pre, rfl, der_unit (by prod_mem) d⟩

theorem path_succ (I : Inv c f) {ts r : Toks} {e : Expr}
    (h : pPath c (f + 1) ts = some (e, r)) :
    ∃ pre, ts = pre ++ r ∧ Der "PathExpr" (terms pre) := by
  unfold pPath at h
  split at h
  · next g r1 =>
    split at h
    · obtain ⟨pre, rfl, d⟩ := I.rel h
      refine ⟨P .slash g :: pre, rfl, ?_⟩
      have dr : Der "RelativeLocationPath" (terms pre) := by simpa using d [] relCtx_nil
      exact der_path_of_abs (der_unit (by prod_mem)
        (der_prod (A := "AbsoluteLocationPathWithRelative") (by prod_mem) (rhs_T "/" dr)))
    · cases h
      exact ⟨[P .slash g], rfl, der_path_of_abs (der_unit (by prod_mem)
        (der_prod (A := "AbsoluteLocationPathOnly") (by prod_mem) (rhs_T1 "/")))⟩
  · next g r1 =>
    obtain ⟨pre, rfl, d⟩ := I.rel h
    refine ⟨P .dslash g :: pre, rfl, ?_⟩
    have dr : Der "RelativeLocationPath" (terms pre) := by simpa using d [] relCtx_nil
    exact der_path_of_abs (der_unit (by prod_mem)
      (der_prod (A := "AbbreviatedAbsoluteLocationPath") (by prod_mem) (rhs_T "//" dr)))
  · split at h
    · split at h
      · next e1 r1 hp =>
        obtain ⟨pre1, rfl, d1⟩ := I.primary hp
        have dF1 : Der "FilterExpr" (terms pre1) := der_unit (by prod_mem) d1
        split at h
        · next e' g r' hf =>
          obtain ⟨pre2, hr1, d2⟩ := I.filt hf
          obtain ⟨pre3, rfl, d3⟩ := I.rel h
          subst hr1
          refine ⟨pre1 ++ (pre2 ++ P .slash g :: pre3), by simp [P, K], ?_⟩
          have dF := d2 _ dF1
          have dR : Der "RelativeLocationPath" (terms pre3) := by simpa using d3 [] relCtx_nil
          have := der_unit (A := "PathExpr") (by prod_mem)
            (der_prod (A := "PathExprFilterWithPath") (by prod_mem) (rhs_N dF (rhs_T "/" dR)))
          simpa [P, Tok.term, Punct.term] using this
        · next e' g r' hf =>
          obtain ⟨pre2, hr1, d2⟩ := I.filt hf
          obtain ⟨pre3, rfl, d3⟩ := I.rel h
          subst hr1
          refine ⟨pre1 ++ (pre2 ++ P .dslash g :: pre3), by simp [P, K], ?_⟩
          have dF := d2 _ dF1
          have dR : Der "RelativeLocationPath" (terms pre3) := by simpa using d3 [] relCtx_nil
          have := der_unit (A := "PathExpr") (by prod_mem)
            (der_prod (A := "PathExprFilterWithAbbreviatedPath") (by prod_mem)
              (rhs_N dF (rhs_T "//" dR)))
          simpa [P, Tok.term, Punct.term] using this
        · obtain ⟨pre2, rfl, d2⟩ := I.filt h
          refine ⟨pre1 ++ pre2, by simp [P, K], ?_⟩
          rw [terms_append]
          exact der_unit (by prod_mem) (d2 _ dF1)
      · cases h
    · obtain ⟨pre, rfl, d⟩ := I.rel h
      refine ⟨pre, rfl, ?_⟩
      have dr : Der "RelativeLocationPath" (terms pre) := by simpa using d [] relCtx_nil
      exact der_path_of_rel dr

theorem rel_succ (I : Inv c f) {base : Expr} {ts r : Toks} {e : Expr}
    (h : pRel c (f + 1) base ts = some (e, r)) :
    ∃ pre, ts = pre ++ r ∧ ∀ w0, RelCtx w0 → Der "RelativeLocationPath" (w0 ++ terms pre) := by
  unfold pRel at h
  split at h
  · next e1 g r1 hs =>
    obtain ⟨pre1, hts, d1⟩ := I.step hs
    obtain ⟨pre2, rfl, d2⟩ := I.rel h
    subst hts
    refine ⟨pre1 ++ P .slash g :: pre2, by simp [P, K], ?_⟩
    intro w0 hc
    have := d2 _ (relCtx_slash hc d1)
    simpa [P, Tok.term, Punct.term] using this
  · next e1 g r1 hs =>
    obtain ⟨pre1, hts, d1⟩ := I.step hs
    obtain ⟨pre2, rfl, d2⟩ := I.rel h
    subst hts
    refine ⟨pre1 ++ P .dslash g :: pre2, by simp [P, K], ?_⟩
    intro w0 hc
    have := d2 _ (relCtx_dslash hc d1)
    simpa [P, Tok.term, Punct.term] using this
  · obtain ⟨pre, rfl, d⟩ := I.step h
    exact ⟨pre, rfl, fun w0 hc => hc _ d⟩

theorem step_succ (h1 : c.opNames = false) (h2 : c.fnNames = false) (I : Inv c f)
    {base : Expr} {ts r : Toks} {e : Expr} (h : pStep c (f + 1) base ts = some (e, r)) :
    ∃ pre, ts = pre ++ r ∧ Der "Step" (terms pre) := by
  unfold pStep at h
  split at h
  · cases h
    exact ⟨[_], rfl, der_unit (by prod_mem) (der_unit (A := "AbbreviatedStep") (by prod_mem)
      (der_prod (A := "AbbreviatedStepSelf") (by prod_mem) (rhs_T1 "."))) ⟩
  · cases h
    exact ⟨[_], rfl, der_unit (by prod_mem) (der_unit (A := "AbbreviatedStep") (by prod_mem)
      (der_prod (A := "AbbreviatedStepParent") (by prod_mem) (rhs_T1 ".."))) ⟩
  · next g r0 =>
    split at h
    · next t r1 hnt =>
      split at h
      · next ps r2 hp =>
        cases h
        obtain ⟨pre1, rfl, d1⟩ := nodeTest_sound h1 hnt
        obtain ⟨pre2, rfl, d2⟩ := I.preds hp
        refine ⟨P .at g :: (pre1 ++ pre2), by simp [P, K], ?_⟩
        have da : Der "AxisSpecifier" ["@"] := der_unit (by prod_mem)
          (der_prod (A := "AbbreviatedAxisSpecifier") (by prod_mem) (rhs_T1 "@"))
        have := der_axis_step da d1 d2
        simpa [P, Tok.term, Punct.term] using this
      · cases h
    · cases h
  · next a g g' r0 =>
    split at h
    · next t r1 hnt =>
      split at h
      · next ps r2 hp =>
        cases h
        obtain ⟨pre1, rfl, d1⟩ := nodeTest_sound h1 hnt
        obtain ⟨pre2, rfl, d2⟩ := I.preds hp
        refine ⟨K (.axis a) g :: P .coloncolon g' :: (pre1 ++ pre2), by simp [P, K], ?_⟩
        have da : Der "AxisSpecifier" [axisTerm a, "::"] := der_unit (by prod_mem)
          (der_prod (A := "AxisSpecifierWithAxisName") (by prod_mem)
            (rhs_N (der_axisName a) (rhs_T1 "::")))
        have := der_axis_step da d1 d2
        simpa [P, K, Tok.term, Punct.term, Kw.term] using this
      · cases h
    · cases h
  · split at h
    · next pfx name r1 hcs =>
      split at h
      · next args r' ha =>
        cases h
        obtain ⟨pre1, rfl, d1⟩ := callStart_sound h2 hcs
        obtain ⟨pre2, rfl, d2⟩ := I.args ha
        refine ⟨pre1 ++ pre2, by simp [P, K], ?_⟩
        rw [terms_append]
        exact der_unit (by prod_mem) (d1 _ d2)
      · cases h
    · split at h
      · next t r1 hnt =>
        split at h
        · next ps r2 hp =>
          cases h
          obtain ⟨pre1, rfl, d1⟩ := nodeTest_sound h1 hnt
          obtain ⟨pre2, rfl, d2⟩ := I.preds hp
          refine ⟨pre1 ++ pre2, by simp [P, K], ?_⟩
          rw [terms_append]
          exact der_child_step d1 d2
        · cases h
      · cases h

theorem preds_succ (I : Inv c f) {ts r : Toks} {es : Exprs}
    (h : pPreds c (f + 1) ts = some (es, r)) :
    ∃ pre, ts = pre ++ r ∧ (terms pre = [] ∨ Der "StepWithPredicate" (terms pre)) := by
  unfold pPreds at h
  split at h
  · next g r1 =>
    split at h
    · next p g2 r' hb =>
      split at h
      · next ps r'' hp =>
        cases h
        obtain ⟨pre1, hr1, d1⟩ := I.bin hb
        obtain ⟨pre2, rfl, d2⟩ := I.preds hp
        subst hr1
        refine ⟨P .lbrack g :: (pre1 ++ P .rbrack g2 :: pre2), by simp [P, K], .inr ?_⟩
        have dP := der_predicate d1
        rcases d2 with d2 | d2
        · have := der_unit (A := "StepWithPredicate") (by prod_mem) dP
          simpa [P, Tok.term, Punct.term, d2] using this
        · have := der_unit (A := "StepWithPredicate") (by prod_mem)
            (der_prod (A := "StepWithPredicateWithAnotherPredicate") (by prod_mem) (rhs_N dP d2))
          simpa [P, Tok.term, Punct.term] using this
      · cases h
    · cases h
  · cases h
    exact ⟨[], rfl, .inl rfl⟩

theorem args_succ (I : Inv c f) {ts r : Toks} {es : Exprs}
    (h : pArgs c (f + 1) ts = some (es, r)) :
    ∃ pre, ts = pre ++ r ∧ Der "FunctionSignature" (terms pre) := by
  unfold pArgs at h
  split at h
  · cases h
    exact ⟨[_], rfl, der_unit (by prod_mem)
      (der_prod (A := "FunctionSignatureNoArgs") (by prod_mem) (rhs_T1 ")"))⟩
  · obtain ⟨pre, rfl, d⟩ := I.args1 h
    exact ⟨pre, rfl, der_unit (by prod_mem) d⟩

theorem args1_succ (I : Inv c f) {ts r : Toks} {es : Exprs}
    (h : pArgs1 c (f + 1) ts = some (es, r)) :
    ∃ pre, ts = pre ++ r ∧ Der "FunctionCallArgumentList" (terms pre) := by
  unfold pArgs1 at h
  split at h
  · next e1 g r1 hb =>
    split at h
    · next es' r' ha =>
      cases h
      obtain ⟨pre1, hts, d1⟩ := I.bin hb
      obtain ⟨pre2, rfl, d2⟩ := I.args1 ha
      subst hts
      refine ⟨pre1 ++ P .comma g :: pre2, by simp [P, K], ?_⟩
      have d1' : Der "OrExpr" (terms pre1) := d1
      have := der_unit (A := "FunctionCallArgumentList") (by prod_mem)
        (der_prod (A := "FunctionCallArgumentListArgWithNext") (by prod_mem)
          (rhs_N d1' (rhs_T "," d2)))
      simpa [P, Tok.term, Punct.term] using this
    · cases h
  · next e1 g r1 hb =>
    cases h
    obtain ⟨pre1, hts, d1⟩ := I.bin hb
    subst hts
    refine ⟨pre1 ++ [P .rparen g], by simp [P, K], ?_⟩
    have d1' : Der "OrExpr" (terms pre1) := d1
    have := der_unit (A := "FunctionCallArgumentList") (by prod_mem)
      (der_prod (A := "FunctionCallArgumentListEndArg") (by prod_mem) (rhs_N d1' (rhs_T1 ")")))
    simpa [P, Tok.term, Punct.term] using this
  · cases h

/-! ### all invariants, for every fuel -/

theorem inv_all (h1 : c.opNames = false) (h2 : c.fnNames = false) (h3 : c.trailDot = false) :
    ∀ f, Inv c f
  | 0 => inv_zero
  | f + 1 =>
    have I := inv_all h1 h2 h3 f
    { bin := bin_succ I
      binRest := binRest_succ I
      unary := unary_succ I
      unionRest := unionRest_succ I
      path := path_succ I
      filt := filt_succ I
      primary := primary_succ h2 h3 I
      rel := rel_succ I
      step := step_succ h1 h2 I
      preds := preds_succ I
      args := args_succ I
      args1 := args1_succ I }

/-! ### the theorem -/

/-- **parse_in_grammar** — every token list the model parser accepts under xsel's syntax is a sentence
    of the grammar compiled into xsel's generated parser; `glue` is arbitrary (adjacency of tokens is
    not visible in the grammar) -/
theorem parse_in_grammar (c : Cfg) (h1 : c.opNames = false) (h2 : c.fnNames = false)
    (h3 : c.trailDot = false) (ts : Toks) (e : Expr) (h : parseToks c ts = some e) :
    terms ts ∈ L G "OrExpr" := by
  unfold parseToks at h
  split at h
  · next e1 hb =>
    obtain ⟨pre, hts, d⟩ := (inv_all h1 h2 h3 (fuelFor ts)).bin hb
    have : ts = pre := by simpa using hts
    subst this
    exact d
  · cases h

/-- the model parser with adjacency required (`cfgModel`, the reading of `parseModel`) -/
theorem parse_in_grammar_model (ts : Toks) (e : Expr) (h : parseToks cfgModel ts = some e) :
    terms ts ∈ L G "OrExpr" :=
  parse_in_grammar cfgModel rfl rfl rfl ts e h

/-- the model parser without the adjacency requirement (`cfgModelLoose`) -/
theorem parse_in_grammar_modelLoose (ts : Toks) (e : Expr)
    (h : parseToks cfgModelLoose ts = some e) : terms ts ∈ L G "OrExpr" :=
  parse_in_grammar cfgModelLoose rfl rfl rfl ts e h

/-- whatever `parseModel` reads as an expression, or sets aside because it only parses without the
    adjacency requirement, is a sentence of the grammar -/
theorem parse_in_grammar_either (ts : Toks)
    (h : (parseToks cfgModel ts).isSome ∨ (parseToks cfgModelLoose ts).isSome) :
    terms ts ∈ L G "OrExpr" := by
  rcases h with h | h
  · obtain ⟨e, he⟩ := Option.isSome_iff_exists.mp h
    exact parse_in_grammar_model ts e he
  · obtain ⟨e, he⟩ := Option.isSome_iff_exists.mp h
    exact parse_in_grammar_modelLoose ts e he

end Xsel.Syntax
