/-
  Proofs/Lemmas/WalkAlt.lean — the ONE ambiguity of the parser's grammar: in `f(…)/step/…` the function
  call at the head of the path is derived both as a filter expression (`PathExprFilterWithPath`:
  `FilterExpr → PrimaryExpr → FunctionCall`, the derivation `derivTop` builds) and as the first step of a
  relative location path (`Step → FunctionCall`, the documented extension).  The GLL parser returns both
  derivations and the handlers take the first one of the list, whose order comes from the iteration of a Go
  map.  `alternatives_agree`: walking either derivation gives the same outcome, so that order cannot change
  a result.
-/
import Proofs.Lemmas.WalkTop
import Proofs.Lemmas.WalkYield

namespace Xsel.Walk
open Xsel Xsel.Syntax

/-- the steps of a path: a left-nested `RelativeLocationPath` whose leaves are `Step` nodes -/
inductive Spine : PT → Prop
  | one (k : PTs) : Spine (N "RelativeLocationPath" [.nt "Step" k])
  | more (r : PT) (k : PTs) : Spine r →
      Spine (N "RelativeLocationPath" [N "RelativeLocationPathWithStep" [r, tkp .slash, .nt "Step" k]])

/-- put the step `s0` in front of the steps of `r` -/
def graft (s0 : PT) : PT → PT
  | .nt "RelativeLocationPath" (.cons (.nt "RelativeLocationPathWithStep" (.cons r (.cons sl (.cons s .nil)))) .nil) =>
    N "RelativeLocationPath" [N "RelativeLocationPathWithStep" [graft s0 r, sl, s]]
  | .nt "RelativeLocationPath" (.cons s .nil) =>
    N "RelativeLocationPath" [N "RelativeLocationPathWithStep" [N "RelativeLocationPath" [s0], tkp .slash, s]]
  | t => t

/-- `execStep` sets the principal node type before anything else: the one it finds does not matter -/
theorem walk_Step_principal (k : PTs) (c : Ctx) (p1 p2 : Kind) :
    walk tbl (.nt "Step" k) ⟨c, p1⟩ = walk tbl (.nt "Step" k) ⟨c, p2⟩ := by
  rw [walk, walk]
  simp only [lk_Step]

/-- two contexts that differ in the principal node type only -/
def SameUpToPrincipal (x y : R) : Prop :=
  match x, y with
  | .ok a, .ok b => a.c = b.c
  | .error e, .error f => e = f
  | _, _ => False

theorem sameUp_refl (x : R) : SameUpToPrincipal x x := by
  cases x <;> simp [SameUpToPrincipal]

theorem isNt_spine {r : PT} (h : Spine r) : r.isNt = true := by cases h <;> rfl

/-- the steps of a path forget the principal node type they start with -/
theorem walk_spine_principal {r : PT} (h : Spine r) (c : Ctx) (p1 p2 : Kind) :
    walk tbl r ⟨c, p1⟩ = walk tbl r ⟨c, p2⟩ := by
  induction h with
  | one k => rw [walk_rlp1 _ _ rfl, walk_rlp1 _ _ rfl]; exact walk_Step_principal k c p1 p2
  | more r k hr ih => rw [walk_rlp2 _ _ _ (isNt_spine hr) rfl, walk_rlp2 _ _ _ (isNt_spine hr) rfl, ih]

theorem graft_one (s0 : PT) (k : PTs) :
    graft s0 (N "RelativeLocationPath" [.nt "Step" k]) =
      N "RelativeLocationPath" [N "RelativeLocationPathWithStep" [N "RelativeLocationPath" [s0], tkp .slash, .nt "Step" k]] := by
  simp [graft, N]

theorem graft_more (s0 r : PT) (k : PTs) :
    graft s0 (N "RelativeLocationPath" [N "RelativeLocationPathWithStep" [r, tkp .slash, .nt "Step" k]]) =
      N "RelativeLocationPath" [N "RelativeLocationPathWithStep" [graft s0 r, tkp .slash, .nt "Step" k]] := by
  simp [graft, N]

theorem spine_graft (s0k : PTs) {r : PT} (h : Spine r) : Spine (graft (.nt "Step" s0k) r) := by
  induction h with
  | one k => rw [graft_one]; exact .more _ k (.one s0k)
  | more r k _ ih => rw [graft_more]; exact .more _ k ih

/-- walking the grafted path from `w` = walking the first step, then the path -/
theorem walk_graft (s0k : PTs) {r : PT} (h : Spine r) (w : WCtx) :
    walk tbl (graft (.nt "Step" s0k) r) w = (walk tbl (.nt "Step" s0k) w >>= walk tbl r) := by
  induction h generalizing w with
  | one k =>
    rw [graft_one, walk_rlp2 _ _ _ rfl rfl, walk_rlp1 _ _ rfl]
    congr 1
  | more r k hr ih =>
    rw [graft_more, walk_rlp2 _ _ _ (isNt_spine (spine_graft s0k hr)) rfl, ih]
    rw [bind_assoc]
    congr 1; funext w1
    rw [walk_rlp2 _ _ _ (isNt_spine hr) rfl]

/-- **alternatives_agree_trees** — `f(args)/steps` derived with the call as a filter expression, and derived
    with the call as the first step of a relative path: the same outcome (value, or error), for every context -/
theorem alternatives_agree_trees (p : Option Chars) (n : Chars) (as : Exprs) (hq : qnOk p n = true)
    (hall : AllE SimE as) {r : PT} (h : Spine r) (w : WCtx) :
    (walk tbl (pathNode (.filt (N "FilterExpr" [N "PrimaryExpr" [dCall p n as]])) r) w).map WCtx.res =
    (walk tbl (pathNode .rel (graft (N "Step" [dCall p n as]) r)) w).map WCtx.res := by
  rw [walk_pathNode _ _ w (isNt_spine h) rfl]
  have hg : (graft (N "Step" [dCall p n as]) r).isNt = true := isNt_spine (spine_graft _ h)
  rw [walk_pathNode _ _ w hg rfl]
  show (walk tbl (N "FilterExpr" [N "PrimaryExpr" [dCall p n as]]) w >>= walk tbl r).map WCtx.res =
    (walk tbl (graft (N "Step" [dCall p n as]) r) w).map WCtx.res
  rw [show N "Step" [dCall p n as] = .nt "Step" (PTs.ofList [dCall p n as]) from rfl, walk_graft _ h]
  rw [show PT.nt "Step" (PTs.ofList [dCall p n as]) = N "Step" [dCall p n as] from rfl, walk_Step_call]
  rw [walk_unit _ _ _ _ lk_FilterExpr rfl, walk_unit _ _ _ _ lk_PrimaryExpr (isNt_dCall p n as)]
  -- the call itself: execFunctionCall keeps the principal node type it finds; both runs are simulations of
  -- the same evaluation, and the steps that follow forget the principal node type
  have s1 := sim_dCall p n as ⟨w.c, w.principal⟩ hq hall (allNt as)
  have s2 := sim_dCall p n as ⟨w.c, .elem⟩ hq hall (allNt as)
  have e0 : (⟨w.c, w.principal⟩ : WCtx) = w := rfl
  rw [e0] at s1
  have hres : (⟨w.c, .elem⟩ : WCtx).res = w.res := rfl
  rw [hres] at s2
  cases hev : callSem p n (normCtxs as) w.c w.res with
  | error e =>
    rw [hev] at s1 s2
    rw [show walk tbl (dCall p n as) w = .error (.err e) from s1,
      show walk tbl (dCall p n as) ⟨w.c, .elem⟩ = .error (.err e) from s2]
  | ok v =>
    rw [hev] at s1 s2
    obtain ⟨k1, h1⟩ := s1
    obtain ⟨k2, h2⟩ := s2
    rw [h1, h2]
    show (walk tbl r ⟨{ w.c with result := v }, k1⟩).map WCtx.res = (walk tbl r ⟨{ w.c with result := v }, k2⟩).map WCtx.res
    rw [walk_spine_principal h _ k1 k2]

/-! ### for expressions -/

theorem spine_relWith (b : Expr) (relB : Head × PT) (natB : PT) (k : PTs)
    (h : isPathLike b = true → Spine relB.2) : Spine (relWith b relB natB (.nt "Step" k)).2 := by
  by_cases h1 : b = .ctx
  · subst h1; exact .one k
  by_cases h2 : b = .root
  · subst h2; exact .one k
  rw [relWith_other b _ _ _ h1 h2]
  by_cases hp : isPathLike b = true
  · simp only [hp, if_true]; exact .more _ k (h hp)
  · simp only [hp]; exact .one k

theorem dStep_is_Step (ax : Axis) (t : NodeTest) (ps : Exprs) : ∃ k, dStep ax t ps = .nt "Step" k := by
  cases ps <;> exact ⟨_, rfl⟩

theorem spine_dRel : (e : Expr) → isPathLike e = true → Spine (dRel e).2
  | .step b ax t ps, _ => by
    rw [dRel]
    obtain ⟨k, hk⟩ := dStep_is_Step ax t ps
    rw [hk]
    exact spine_relWith b _ _ k (fun hp => spine_dRel b hp)
  | .call b p n as, _ => by
    rw [dRel]
    exact spine_relWith b _ _ _ (fun hp => spine_dRel b hp)
  | .bin _ _ _, hp | .neg _, hp | .num _, hp | .lit _, hp | .var _ _, hp | .root, hp | .ctx, hp | .filt _ _, hp => by
    simp [isPathLike] at hp

theorem dNat_pathLike (e : Expr) (h : isPathLike e = true) : dNat e = pathNode (dRel e).1 (dRel e).2 := by
  cases e with
  | step b ax t ps => rw [dNat, dRel]
  | call b p n as =>
    have hb : b ≠ .ctx := by intro hb; subst hb; simp [isPathLike] at h
    rw [dNat_call_of_ne b p n as hb, dRel]
  | _ => simp [isPathLike] at h

/-- the other derivation of a path whose head is the call `f(args)`: the call as the first step -/
def altPath (p : Option Chars) (n : Chars) (as : Exprs) (e : Expr) : PT :=
  pathNode .rel (graft (N "Step" [dCall p n as]) (dRel e).2)

@[simp] theorem yield_cons (t : PT) (ts : PTs) : (PTs.cons t ts).yield = t.yield ++ ts.yield := by rw [PTs.yield]
@[simp] theorem yield_pnil : PTs.yield .nil = [] := by rw [PTs.yield]
@[simp] theorem yield_nt (m : String) (k : PTs) : (PT.nt m k).yield = k.yield := by rw [PT.yield]

theorem yield_graft (s0 : PT) {r : PT} (h : Spine r) : (graft s0 r).yield = s0.yield ++ .p .slash :: r.yield := by
  induction h with
  | one k => rw [graft_one]; simp
  | more r k _ ih => rw [graft_more]; simp [ih]

/-- **alternatives_agree** — the grammar's one ambiguity.  For a path `e` whose head is the function call
    `f(args)`, the derivation with the call as a FILTER EXPRESSION (`dNat e`) and the derivation with the call
    as the FIRST STEP (`altPath`) have the same leaves and are evaluated to the same outcome by the handler
    walk, in every context: the order in which the GLL parser lists the two derivations cannot change a result. -/
theorem alternatives_agree (e : Expr) (hp : isPathLike e = true) (p : Option Chars) (n : Chars) (as : Exprs)
    (hhead : (dRel e).1 = .filt (N "FilterExpr" [N "PrimaryExpr" [dCall p n as]]))
    (hq : qnOk p n = true) (hall : walkOks as = true) (w : WCtx) :
    (altPath p n as e).yield = (dNat e).yield ∧
    (walk tbl (dNat e) w).map WCtx.res = (walk tbl (altPath p n as e) w).map WCtx.res := by
  have hs := spine_dRel e hp
  constructor
  · rw [dNat_pathLike e hp, hhead, altPath, yield_pathNode, yield_pathNode, yield_graft _ hs]
    simp [headYield]
  · rw [dNat_pathLike e hp, hhead, altPath]
    exact alternatives_agree_trees p n as hq (sim_all as hall) hs w

/-- `f()/child::a`: the hypotheses hold (non-vacuity) -/
example : let e : Expr := .step (.call .ctx none ['f'] .nil) .child (.name ['a']) .nil
    isPathLike e = true ∧ (dRel e).1 = .filt (N "FilterExpr" [N "PrimaryExpr" [dCall none ['f'] .nil]]) := by
  exact ⟨rfl, rfl⟩

end Xsel.Walk
