/-
  Proofs/Lemmas/StoreFin.lean — the data `Store.finish` writes: old cells are untouched (except the
  namespace list of the open element) and the bindings of the new namespace nodes are
  `resolve pending (bindings of the parent)`.
-/
import Proofs.Lemmas.StoreDesc

namespace Xsel.StoreL
open Xsel Xsel.Store Xsel.Arena Xsel.Spec

/-- (prefix, uri) of a namespace cell -/
def bd (a : Arena) (j : Nat) : Chars × Chars := ((cell a j).loc, (cell a j).val)

theorem binds_eq_map (a : Arena) (i : Nat) : binds a i = (cell a i).nss.map (bd a) := rfl

def pushStep {β : Type} (skip : β → Bool) (mk : β → Cell) (acc : Arena × List Nat) (x : β) :
    Arena × List Nat :=
  if skip x then acc
  else
    let (a', i) := alloc acc.1 (mk x)
    (a', acc.2 ++ [i])

section fold
variable {β : Type} (X : Cls) (cur : Nat) (skip : β → Bool) (mk : β → Cell)
  (hmk : ∀ x, X.ok (mk x).kind ∧ (mk x).parent = cur ∧ (mk x).nss = [] ∧ (mk x).attrs = []
      ∧ (mk x).kids = [])
include hmk

theorem foldl_push' (xs : List β) (a : Arena) (l : List Nat) :
    Push X cur a (xs.foldl (pushStep skip mk) (a, l)).1 :=
  (foldl_push X cur skip mk hmk xs a l).1

theorem foldl_bd : ∀ (xs : List β) (a : Arena) (l : List Nat),
    (List.range' a.size ((xs.foldl (pushStep skip mk) (a, l)).1.size - a.size)).map
        (bd (xs.foldl (pushStep skip mk) (a, l)).1)
      = (xs.filter (fun x => !skip x)).map (fun x => ((mk x).loc, (mk x).val)) := by
  intro xs
  induction xs with
  | nil => intro a l; simp
  | cons x xs ih =>
    intro a l
    rw [List.foldl_cons]
    by_cases hs : skip x = true
    · have e : pushStep skip mk (a, l) x = (a, l) := by simp [pushStep, hs]
      rw [e, List.filter_cons_of_neg (by simp [hs])]
      exact ih a l
    · have hs' : skip x = false := by simpa using hs
      have e : pushStep skip mk (a, l) x = ((alloc a (mk x)).1, l ++ [(alloc a (mk x)).2]) := by
        simp [pushStep, hs']
      rw [e, List.filter_cons_of_pos (by simp [hs']), List.map_cons]
      have hp := foldl_push' X cur skip mk hmk xs (alloc a (mk x)).1 (l ++ [(alloc a (mk x)).2])
      have ih' := ih (alloc a (mk x)).1 (l ++ [(alloc a (mk x)).2])
      have hle := hp.le
      rw [size_alloc] at hle ih'
      rw [← range'_split hle, List.map_append, ih', List.map_cons, List.map_nil]
      have hb : bd (xs.foldl (pushStep skip mk) ((alloc a (mk x)).1, l ++ [(alloc a (mk x)).2])).1
          a.size = ((mk x).loc, (mk x).val) := by
        unfold bd
        rw [hp.old a.size (by rw [size_alloc]; omega)]
        simp only [Store.alloc, cell_push_size]
      rw [hb]; rfl

end fold

theorem fin1_eq (s : BState) : fin1 s = s.pending.foldl
    (pushStep (fun pu : Chars × Chars => pu.2.isEmpty)
      (fun pu => { kind := .ns, loc := pu.1, val := pu.2, parent := s.cur })) (s.a, []) := rfl

theorem fin2_eq (s : BState) : fin2 s =
    (if s.cur == 0 then [] else Arena.nss s.a (Arena.parent s.a s.cur)).foldl
      (pushStep (fun j : Nat => s.pending.any (fun pu => pu.1 == (Arena.cell s.a j).loc))
        (fun j => { kind := .ns, loc := (Arena.cell s.a j).loc, val := (Arena.cell s.a j).val,
                    parent := s.cur })) ((fin1 s).1, (fin1 s).2) := rfl

/-- the bindings of the parent of the open element (none for the document) -/
def parentBinds (s : BState) : List (Chars × Chars) :=
  if s.cur == 0 then [] else binds s.a (cell s.a s.cur).parent

theorem fin_bd (s : BState) :
    (List.range' s.a.size ((fin2 s).1.size - s.a.size)).map (bd (fin2 s).1)
      = resolve s.pending (parentBinds s) := by
  have p1 := (fin1_push s).1
  have p12 : Push .ns s.cur (fin1 s).1 (fin2 s).1 := by
    rw [fin2_eq]
    exact foldl_push' .ns s.cur
      (fun j : Nat => s.pending.any (fun pu => pu.1 == (Arena.cell s.a j).loc))
      (fun j => { kind := .ns, loc := (Arena.cell s.a j).loc, val := (Arena.cell s.a j).val,
                  parent := s.cur })
      (fun _ => ⟨rfl, rfl, rfl, rfl, rfl⟩) _ _ _
  have b1 := foldl_bd .ns s.cur (fun pu : Chars × Chars => pu.2.isEmpty)
      (fun pu => { kind := .ns, loc := pu.1, val := pu.2, parent := s.cur })
      (fun _ => ⟨rfl, rfl, rfl, rfl, rfl⟩) s.pending s.a []
  rw [← fin1_eq] at b1
  have b2 := foldl_bd .ns s.cur
      (fun j : Nat => s.pending.any (fun pu => pu.1 == (Arena.cell s.a j).loc))
      (fun j => { kind := .ns, loc := (Arena.cell s.a j).loc, val := (Arena.cell s.a j).val,
                  parent := s.cur })
      (fun _ => ⟨rfl, rfl, rfl, rfl, rfl⟩)
      (if s.cur == 0 then [] else Arena.nss s.a (Arena.parent s.a s.cur)) (fin1 s).1 (fin1 s).2
  rw [← fin2_eq] at b2
  rw [← range'_cat p1.le p12.le, List.map_append, b2]
  have e1 : (List.range' s.a.size ((fin1 s).1.size - s.a.size)).map (bd (fin2 s).1)
      = (List.range' s.a.size ((fin1 s).1.size - s.a.size)).map (bd (fin1 s).1) := by
    apply List.map_congr_left
    intro j hj
    have := List.mem_range'_1.mp hj
    unfold bd
    rw [p12.old j (by have := p1.le; omega)]
  rw [e1, b1]
  unfold resolve
  congr 1
  · simp
  · unfold parentBinds
    split
    · simp
    · rw [binds_eq_map, List.filter_map]
      rfl

/-! ### the cells of `finish s` -/

theorem Keep.refl (a : Arena) : Keep a a :=
  ⟨Nat.le_refl _, fun _ _ => rfl, fun _ _ => rfl, fun _ _ => rfl, fun _ _ => rfl, fun _ _ => rfl⟩

theorem finish_a_fresh {s : BState} (hd : s.done = false) :
    (finish s).a = setCell (fin2 s).1 s.cur (fun c => { c with nss := (fin2 s).2 }) := by
  rw [finish_eq, hd]; rfl

theorem finish_pending_fresh {s : BState} (hd : s.done = false) : (finish s).pending = [] := by
  rw [finish_eq, hd]; rfl

theorem finish_size_fresh {s : BState} (hd : s.done = false) :
    (finish s).a.size = (fin2 s).1.size := by
  rw [finish_a_fresh hd, size_setCell]

theorem finish_cell_old {s : BState} (hd : s.done = false) (hc : s.cur < s.a.size) {i : Nat}
    (hi : i < s.a.size) :
    cell (finish s).a i
      = if i = s.cur then { cell s.a i with nss := (fin2 s).2 } else cell s.a i := by
  have p := (fin2_push s).1
  rw [finish_a_fresh hd, cell_setCell (Nat.lt_of_lt_of_le hc p.le), p.old i hi]

theorem finish_cell_new {s : BState} (hd : s.done = false) (hc : s.cur < s.a.size) {i : Nat}
    (hi : s.a.size ≤ i) : cell (finish s).a i = cell (fin2 s).1 i := by
  rw [finish_a_fresh hd, cell_setCell_ne (by omega)]

theorem finish_keep (s : BState) (hc : s.cur < s.a.size) : Keep s.a (finish s).a := by
  cases hd : s.done
  · have p := (fin2_push s).1
    refine ⟨by rw [finish_size_fresh hd]; exact p.le, ?_, ?_, ?_, ?_, ?_⟩ <;>
    · intro i hi
      rw [finish_cell_old hd hc hi]
      split <;> rfl
  · rw [finish_of_done hd]; exact Keep.refl _

theorem finish_nss_old (s : BState) (hc : s.cur < s.a.size) {i : Nat} (hi : i < s.a.size)
    (hne : i ≠ s.cur) : (cell (finish s).a i).nss = (cell s.a i).nss := by
  cases hd : s.done
  · rw [finish_cell_old hd hc hi, if_neg hne]
  · rw [finish_of_done hd]

/-- the bindings `finish` gives a fresh open element -/
theorem finish_binds {s : BState} (hd : s.done = false) (hc : s.cur < s.a.size) :
    binds (finish s).a s.cur = resolve s.pending (parentBinds s) := by
  rw [binds_eq_map, finish_cell_old hd hc hc, if_pos rfl]
  show ((fin2 s).2).map (bd (finish s).a) = _
  rw [(fin2_push s).2, ← fin_bd]
  apply List.map_congr_left
  intro j hj
  have := List.mem_range'_1.mp hj
  unfold bd
  rw [finish_cell_new hd hc this.1]

/-- the descriptions of the cells before the open element -/
def front (s : BState) : List NodeDesc := (List.range s.cur).filterMap (descOf s.a)

/-- the description of the open element, given its scope -/
def curDesc (s : BState) (sc : List (Chars × Chars)) : Option NodeDesc :=
  if (cell s.a s.cur).kind = .elem then
    some { kind := .elem, uri := (cell s.a s.cur).uri, loc := (cell s.a s.cur).loc, val := [],
           depth := depthIn s.a s.cur, scope := sortBinds sc }
  else none

theorem describe_fresh {s : BState} (h : SInv s) (hd : s.done = false) :
    describe (finish s).a
      = front s ++ (curDesc s (resolve s.pending (parentBinds s))).toList := by
  have hc := h.p.cur_lt
  have hf := h.fresh hd
  have k := finish_keep s hc
  have A := h.p.ainv
  rw [k.describe_split]
  have e2 : (List.range' s.a.size ((finish s).a.size - s.a.size)).filterMap (descOf (finish s).a)
      = [] := by
    apply List.filterMap_eq_nil_iff.mpr
    intro j hj
    have hj' := List.mem_range'_1.mp hj
    have n := h.finish_ext.new j hj'.1 (by have := k.le; omega)
    have : (cell (finish s).a j).kind = .ns := n.kind
    unfold descOf; rw [this]
  rw [e2, List.append_nil]
  have e1 : List.range s.a.size = List.range s.cur ++ [s.cur] := by
    rw [← hf, List.range_succ]
  rw [e1, List.filterMap_append]
  congr 1
  · apply filterMap_congr'
    intro i hi
    have hi' := List.mem_range.mp hi
    exact k.descOf_eq A (by omega) (fun _ => finish_nss_old s hc (by omega) (by omega))
  · have hk := k.kind s.cur hc
    simp only [List.filterMap_cons, List.filterMap_nil]
    unfold descOf curDesc
    rw [hk, k.uri _ hc, k.loc _ hc, k.depthIn_eq A hc, finish_binds hd hc]
    rcases h.p.cur_kind with hr | he
    · rw [hr]; simp
    · rw [he]; simp

theorem describe_done {s : BState} (hd : s.done = true) : describe (finish s).a = describe s.a := by
  rw [finish_of_done hd]

end Xsel.StoreL
