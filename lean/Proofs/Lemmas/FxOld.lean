/-
  Proofs/Lemmas/FxOld.lean — the union BEFORE the repair (`unionCleanup(append(left, right...))`)
  writes into storage of the caller: the documented defect (known_findings.json, "fixed").
-/
import Proofs.Lemmas.FxOps

namespace Xsel
namespace Effects

/-- the document's children array and a node-set `k = children[2:4:7]` taken from it -/
def exHeap : Heap := #[#[10, 11, 12, 13, 14, 15, 16], #[5, 3]]
def exLeft : Slice := { arr := 0, off := 2, len := 2, cap := 5 }
def exRight : Slice := { arr := 1, off := 0, len := 2, cap := 2 }

theorem exLeft_valid : exLeft.valid exHeap := by unfold Slice.valid; decide
theorem exRight_valid : exRight.valid exHeap := by unfold Slice.valid; decide

/-- `k | r` with the old code overwrites `children[4]`, `children[5]` (spare capacity of `k`) and
    reorders `children[2:4]` -/
theorem unionOld_mutates : (unionOld exHeap exLeft exRight).1.arrD 0 ≠ exHeap.arrD 0 := by decide

theorem unionOld_mutates_exact :
    (unionOld exHeap exLeft exRight).1.arrD 0 = #[10, 11, 3, 5, 12, 13, 16] := by decide

/-- the caller's own slice `k` shows other nodes afterwards -/
theorem unionOld_changes_caller_slice :
    read exHeap exLeft = [12, 13] ∧ read (unionOld exHeap exLeft exRight).1 exLeft = [3, 5] := by decide

/-- the repaired union on the same input leaves the array alone and returns the same node-set -/
theorem unionNew_same_input :
    (unionNew exHeap exLeft exRight).1.arrD 0 = exHeap.arrD 0 ∧
    read (unionNew exHeap exLeft exRight).1 (unionNew exHeap exLeft exRight).2 = [3, 5, 12, 13] ∧
    read (unionOld exHeap exLeft exRight).1 (unionOld exHeap exLeft exRight).2 = [3, 5, 12, 13] := by decide

theorem read_shorter (h : Heap) (s : Slice) (m : Nat) (hm : m ≤ s.len) :
    read h { s with len := m } = (read h s).take m := by
  simp only [read, List.take_take]
  rw [Nat.min_eq_left hm]

/-- the old tail sorts the slice it is given in place; the slice shows the sorted list afterwards -/
theorem sortUniq2_sorts_operand {h : Heap} {u : Slice} (hv : u.valid h) :
    read (sortUniq2 h u).1 u = sortAsc (read h u) := by
  have hv2 := goSortAsc_valid hv
  have f1 := goUnique_frame (goSortAsc h u) u
  have f2 := (goUnique_frame (sortUniq1 h u).1 (sortUniq1 h u).2).mono f1.1
  have := (f1.trans f2).read hv2.1
  rw [sortUniq2, this, goSortAsc_read hv]

/-- whenever the appended operand fits into the capacity of the left operand, the old union sorts
    the caller's storage in place: the region `l.off … l.off + l.len + r.len` of the caller's array
    shows the sorted concatenation afterwards -/
theorem unionOld_sorts_in_place {h : Heap} {l r : Slice} (hl : l.valid h) (hr : r.valid h)
    (hfit : l.len + r.len ≤ l.cap) :
    read (unionOld h l r).1 { l with len := l.len + r.len } = sortAsc (read h l ++ read h r) := by
  have hrl := length_read hr
  have hfit' : l.len + (read h r).length ≤ l.cap := by omega
  have e2 : (goAppend h l (read h r)).2 = { l with len := l.len + r.len } := by
    unfold goAppend; rw [if_pos hfit', hrl]
  have hv := goAppend_valid hl (read h r)
  have hrd := goAppend_read hl (read h r)
  have hunf : unionOld h l r = sortUniq2 (goAppend h l (read h r)).1 (goAppend h l (read h r)).2 := rfl
  rw [hunf, ← e2, sortUniq2_sorts_operand hv, hrd]

/-- in particular the caller's left operand itself is reordered: afterwards it shows the first
    `l.len` nodes of the sorted concatenation, whatever it showed before -/
theorem unionOld_reorders {h : Heap} {l r : Slice} (hl : l.valid h) (hr : r.valid h)
    (hfit : l.len + r.len ≤ l.cap) :
    read (unionOld h l r).1 l = (sortAsc (read h l ++ read h r)).take l.len := by
  rw [← unionOld_sorts_in_place hl hr hfit]
  exact read_shorter _ { l with len := l.len + r.len } l.len (Nat.le_add_right _ _)

/-- the variant without spare capacity being overwritten: `l.cap = l.len + r.len` with `r` empty,
    i.e. `l.cap = l.len`: an unsorted node-set bound to a variable is sorted in place by `$v | ()` -/
theorem unionOld_reorders_full {h : Heap} {l r : Slice} (hl : l.valid h) (hr : r.valid h)
    (hr0 : r.len = 0) : read (unionOld h l r).1 l = sortAsc (read h l) := by
  have h0 : read h r = [] := by
    have := length_read hr; rw [hr0] at this; exact List.eq_nil_of_length_eq_zero this
  have := unionOld_reorders hl hr (by have := hl.2.1; omega)
  rw [this, h0, List.append_nil]
  have hlen : (sortAsc (read h l)).length = l.len := by rw [length_sortAsc, length_read hl]
  rw [← hlen, List.take_length]

/-- concrete instance: `v = [30, 10, 20]` (len = cap = 3), `v | ()` with the old code -/
theorem unionOld_reorders_example :
    let h : Heap := #[#[30, 10, 20], #[]]
    let v : Slice := { arr := 0, off := 0, len := 3, cap := 3 }
    let e : Slice := { arr := 1, off := 0, len := 0, cap := 0 }
    read h v = [30, 10, 20] ∧ read (unionOld h v e).1 v = [10, 20, 30] ∧
    read (unionNew h v e).1 v = [30, 10, 20] := by decide

end Effects
end Xsel
