/-
  Proofs/Lemmas/JsonNum.lean — every finite double is `numOkJ`: the text Go writes for it with
  `strconv.FormatFloat(f, 'g', -1, 64)` (`numToStrG`, the model's `numText`) is a JSON number and
  the reader of Xsel/JsonText.lean reads it back as the same double (`numOkJ_of_double`,
  `numOkJ_nzero`).  Hence `wfJ v` holds for every value whose numbers are finite doubles
  (`wfJ_of_finite`).

  The proof goes through the shape of a number text: an integer part `ip` (digits, no leading zero
  unless it is `0`), an optional `.fr`, an optional `e±ds` (`pUNum_shape`); the two layouts of
  `numToStrG` (`layoutF` for exponents -4 … 5, `layoutE` otherwise) have this shape and the value
  `decVal d` of the shortest decimal `d` (`layoutF_parts`, `layoutE_parts`), which rounds to the
  double (`NumL.shortestDec_reads_back`).
-/
import Proofs.Lemmas.JsonText
import Proofs.Lemmas.ParseRenderNum

namespace Xsel.Json
open Xsel Xsel.NumL

/-! ### the shape of a number text -/

/-- the fraction part: nothing, or `.` and the digits -/
def fracTxt : Chars → Chars
  | [] => []
  | c :: t => '.' :: c :: t

/-- the exponent part: nothing, or `e`, a sign and the digits -/
def expTxt : Option (Bool × Chars) → Chars
  | none => []
  | some (sg, ds) => 'e' :: (if sg then '-' else '+') :: ds

def expVal : Option (Bool × Chars) → Int
  | none => 0
  | some (sg, ds) => if sg then -((digitsVal ds : Nat) : Int) else ((digitsVal ds : Nat) : Int)

theorem span_digits (ds rest : Chars) (hds : ∀ c ∈ ds, isDigit c = true)
    (hr : ∀ c r, rest = c :: r → isDigit c = false) :
    (ds ++ rest).takeWhile isDigit = ds ∧ (ds ++ rest).dropWhile isDigit = rest := by
  rw [List.takeWhile_append_of_pos hds, List.dropWhile_append_of_pos hds]
  cases rest with
  | nil => simp
  | cons c r => simp [hr c r rfl]

theorem expTxt_head (x : Option (Bool × Chars)) : ∀ c r, expTxt x = c :: r → c = 'e' := by
  intro c r h
  cases x with
  | none => simp [expTxt] at h
  | some p => obtain ⟨sg, ds⟩ := p; simp only [expTxt, List.cons.injEq] at h; exact h.1.symm

theorem scanInt_shape (ip rest : Chars) (hip : ∀ c ∈ ip, isDigit c = true) (hne : ip ≠ [])
    (h0 : ∀ t, ip = '0' :: t → t = []) (hr : ∀ c r, rest = c :: r → isDigit c = false) :
    scanInt (ip ++ rest) = some (ip, rest) := by
  cases ip with
  | nil => exact absurd rfl hne
  | cons c t =>
    simp only [List.cons_append, scanInt]
    by_cases hc : c = '0'
    · subst hc
      have := h0 t rfl
      subst this
      simp
    · have hd : isDigit c = true := hip c (by simp)
      have hsp := span_digits t rest (fun x hx => hip x (by simp [hx])) hr
      simp [hc, hd, hsp.1, hsp.2]

theorem scanFrac_shape (fr rest : Chars) (hfr : ∀ c ∈ fr, isDigit c = true)
    (hr : ∀ c r, rest = c :: r → c = 'e') :
    scanFrac (fracTxt fr ++ rest) = some (fr, rest) := by
  cases fr with
  | nil =>
    simp only [fracTxt, List.nil_append]
    cases rest with
    | nil => rfl
    | cons c r =>
      have := hr c r rfl
      subst this
      simp [scanFrac]
  | cons a t =>
    have hsp := span_digits (a :: t) rest hfr (by
      intro c r h; have := hr c r h; subst this; decide)
    simp only [fracTxt, List.cons_append, scanFrac, if_true]
    simp only [List.cons_append] at hsp
    rw [hsp.1, hsp.2]
    simp

theorem scanExp_shape (x : Option (Bool × Chars))
    (hx : ∀ sg ds, x = some (sg, ds) → ds ≠ [] ∧ ∀ c ∈ ds, isDigit c = true) :
    scanExp (expTxt x) = some (expVal x, []) := by
  cases x with
  | none => rfl
  | some p =>
    obtain ⟨sg, ds⟩ := p
    obtain ⟨hne, hds⟩ := hx sg ds rfl
    have ⟨h1, h2⟩ := takeWhile_all (p := isDigit) ds hds
    have hsg : scanSign ((if sg then '-' else '+') :: ds) = (sg, ds) := by
      cases sg <;> simp [scanSign]
    simp only [expTxt, scanExp, true_or, if_true, hsg, h1, h2, expVal]
    cases ds with
    | nil => exact absurd rfl hne
    | cons a t => simp

/-- a text of the shape `ip[.fr][e±ds]` is read as the number with these parts -/
theorem pUNum_shape (neg : Bool) (ip fr : Chars) (x : Option (Bool × Chars))
    (hip : ∀ c ∈ ip, isDigit c = true) (hne : ip ≠ []) (h0 : ∀ t, ip = '0' :: t → t = [])
    (hfr : ∀ c ∈ fr, isDigit c = true)
    (hx : ∀ sg ds, x = some (sg, ds) → ds ≠ [] ∧ ∀ c ∈ ds, isDigit c = true) :
    pUNum neg (ip ++ (fracTxt fr ++ expTxt x)) =
      if (numVal neg ip fr (expVal x)).isInf then none else some (numVal neg ip fr (expVal x), []) := by
  have hR : ∀ c r, fracTxt fr ++ expTxt x = c :: r → isDigit c = false := by
    intro c r h
    cases fr with
    | nil =>
      simp only [fracTxt, List.nil_append] at h
      have := expTxt_head x c r h
      subst this; decide
    | cons a t =>
      simp only [fracTxt, List.cons_append, List.cons.injEq] at h
      rw [← h.1]; decide
  unfold pUNum
  rw [scanInt_shape ip _ hip hne h0 hR]
  simp only
  rw [scanFrac_shape fr _ hfr (expTxt_head x)]
  simp only
  rw [scanExp_shape x hx]

/-! ### leading digits -/

theorem natDigits_head (m : Nat) (hm : 0 < m) : ∀ c t, natDigits m = c :: t → c ≠ '0' := by
  induction m using Nat.strongRecOn with
  | _ m ih =>
    intro c t h
    unfold natDigits at h
    rw [Nat.toDigits_eq_if (by decide)] at h
    split at h
    · rename_i hlt
      simp only [List.cons.injEq] at h
      rw [← h.1]
      have : ∀ k, k < 10 → 0 < k → Nat.digitChar k ≠ '0' := by decide
      exact this m hlt hm
    · rename_i hge
      have hpos : 0 < m / 10 := Nat.div_pos (by omega) (by decide)
      cases hd : Nat.toDigits 10 (m / 10) with
      | nil => exact absurd hd Nat.toDigits_ne_nil
      | cons c' t' =>
        rw [hd] at h
        simp only [List.cons_append, List.cons.injEq] at h
        rw [← h.1]
        exact ih (m / 10) (Nat.div_lt_self hm (by decide)) hpos c' t' hd

/-- stripping trailing zeros keeps the first character -/
theorem strip_head (ds : Chars) : ∀ c t, stripTrailingZeros ds = c :: t → ∃ t', ds = c :: t' := by
  intro c t h
  obtain ⟨z, hz, _⟩ := strip_decomp ds
  rw [h] at hz
  exact ⟨t ++ zeros z, by simpa using hz⟩

theorem strip_natDigits_head (m : Nat) : ∀ c t, stripTrailingZeros (natDigits m) = c :: t → c ≠ '0' := by
  intro c t h
  by_cases hm : m = 0
  · subst hm
    have : stripTrailingZeros (natDigits 0) = [] := by decide
    rw [this] at h
    cases h
  · obtain ⟨t', ht'⟩ := strip_head _ c t h
    exact natDigits_head m (by omega) c t' ht'

/-- the first significant digit is not `0` -/
def HeadOK (d : Dec) : Prop := ∀ c t, d.digits = c :: t → c ≠ '0'

theorem shortestAt_head (q : Rat) (k : Int) (n : Nat) (d : Dec) (h : shortestAt q k n = some d) :
    HeadOK d := by
  unfold shortestAt at h
  dsimp only at h
  split at h
  · simp at h
  · simp only [Option.some.injEq] at h
    subst h
    exact strip_natDigits_head _

theorem exactDec_head (q : Rat) (k : Int) : HeadOK (exactDec q k) := by
  unfold exactDec
  exact strip_natDigits_head _

theorem shortestDec_head (q : Rat) : HeadOK (shortestDec q) := by
  unfold shortestDec
  have key : ∀ fuel n, HeadOK (shortestDec.search q (log10Floor q) fuel n) := by
    intro fuel
    induction fuel with
    | zero => intro n; exact exactDec_head q _
    | succ f ih =>
      intro n
      unfold shortestDec.search
      split
      · rename_i d hd; exact shortestAt_head q _ n d hd
      · exact ih _
  exact key 17 1

/-! ### the two layouts -/

theorem fracTxt_ne (fr : Chars) (h : fr ≠ []) : fracTxt fr = '.' :: fr := by
  cases fr with
  | nil => exact absurd rfl h
  | cons a t => rfl

/-- the parts of a number text: digits, a valid integer part, and the value -/
structure Parts (ip fr : Chars) (x : Option (Bool × Chars)) (val : Rat) : Prop where
  ip_digits : ∀ c ∈ ip, isDigit c = true
  ip_ne : ip ≠ []
  ip_zero : ∀ t, ip = '0' :: t → t = []
  fr_digits : ∀ c ∈ fr, isDigit c = true
  exp_ok : ∀ sg ds, x = some (sg, ds) → ds ≠ [] ∧ ∀ c ∈ ds, isDigit c = true
  value : ((digitsVal (ip ++ fr) : Nat) : Rat) * T ^ (expVal x - (fr.length : Int)) = val

theorem layoutF_parts (d : Dec) (hD : DigitsOK d) (hne : d.digits ≠ []) (hh : HeadOK d) :
    ∃ ip fr, layoutF d = ip ++ (fracTxt fr ++ expTxt none) ∧ Parts ip fr none (decVal d) := by
  have hlen : 0 < d.digits.length := List.length_pos_iff.2 hne
  unfold layoutF
  dsimp only
  split
  · -- "0." zeros digits
    rename_i h1
    have hfrne : zeros (-d.dp).toNat ++ d.digits ≠ [] := by
      intro he
      have := congrArg List.length he
      simp only [List.length_append, List.length_nil] at this
      omega
    refine ⟨['0'], zeros (-d.dp).toNat ++ d.digits, ?_, ?_, by simp, ?_, ?_, ?_, ?_⟩
    · simp [fracTxt_ne _ hfrne, expTxt]
    · intro c hc; simp at hc; subst hc; decide
    · intro t ht; simp at ht; exact ht
    · intro c hc
      rcases List.mem_append.1 hc with hc | hc
      · exact zeros_digits _ c hc
      · exact hD c hc
    · intro sg ds h; cases h
    · have hz : ['0'] ++ (zeros (-d.dp).toNat ++ d.digits) = zeros ((-d.dp).toNat + 1) ++ d.digits := by
        simp [zeros, List.replicate_succ]
      rw [hz, digitsVal_zeros_append]
      unfold decVal expVal
      congr 1
      simp only [List.length_append, zeros_length]
      congr 1
      omega
  · split
    · -- digits zeros
      rename_i h1 h2
      refine ⟨d.digits ++ zeros (d.dp - ↑d.digits.length).toNat, [], by simp [fracTxt, expTxt], ?_, ?_, ?_,
        ?_, ?_, ?_⟩
      · intro c hc
        rcases List.mem_append.1 hc with hc | hc
        · exact hD c hc
        · exact zeros_digits _ c hc
      · intro he
        have := congrArg List.length he
        simp only [List.length_append, List.length_nil] at this
        omega
      · intro t ht
        cases hd : d.digits with
        | nil => exact absurd hd hne
        | cons c cs =>
          rw [hd] at ht
          simp only [List.cons_append, List.cons.injEq] at ht
          exact absurd ht.1 (hh c cs hd)
      · intro c hc; cases hc
      · intro sg ds h; cases h
      · rw [List.append_nil, digitsVal_append_zeros, Rat.natCast_mul, natCast_ten_pow]
        unfold decVal expVal
        rw [T_zpow_toNat (d.dp - (d.digits.length : Int)) (by omega)]
        simp
    · -- digits '.' digits
      rename_i h1 h2
      have hdne : d.digits.drop d.dp.toNat ≠ [] := by
        intro he
        have := congrArg List.length he
        simp only [List.length_drop, List.length_nil] at this
        omega
      refine ⟨d.digits.take d.dp.toNat, d.digits.drop d.dp.toNat, ?_,
        fun c hc => hD c (List.mem_of_mem_take hc), ?_, ?_, fun c hc => hD c (List.mem_of_mem_drop hc), ?_, ?_⟩
      · simp [fracTxt_ne _ hdne, expTxt]
      · intro he
        have := congrArg List.length he
        simp only [List.length_take, List.length_nil] at this
        omega
      · intro t ht
        cases hd : d.digits with
        | nil => exact absurd hd hne
        | cons c cs =>
          rw [hd] at ht
          have hpos : d.dp.toNat = (d.dp.toNat - 1) + 1 := by omega
          rw [hpos, List.take_succ_cons] at ht
          simp only [List.cons.injEq] at ht
          exact absurd ht.1 (hh c cs hd)
      · intro sg ds h; cases h
      · rw [List.take_append_drop]
        unfold decVal expVal
        congr 2
        simp only [List.length_drop]
        omega

theorem digitsVal_zero_cons (l : Chars) : digitsVal ('0' :: l) = digitsVal l := by
  have := digitsVal_zeros_append l 1
  simpa [zeros] using this

theorem layoutE_parts (d : Dec) (hD : DigitsOK d) (hne : d.digits ≠ []) :
    ∃ ip fr x, layoutE d = ip ++ (fracTxt fr ++ expTxt x) ∧ Parts ip fr x (decVal d) := by
  cases hd : d.digits with
  | nil => exact absurd hd hne
  | cons c cs =>
    have hc : isDigit c = true := hD c (by simp [hd])
    have hcs : ∀ a ∈ cs, isDigit a = true := fun a ha => hD a (by simp [hd, ha])
    -- the exponent digits
    let ea : Nat := (d.dp - 1).natAbs
    let ed : Chars := if (natDigits ea).length < 2 then '0' :: natDigits ea else natDigits ea
    have hed_digits : ∀ a ∈ ed, isDigit a = true := by
      intro a ha
      simp only [ed] at ha
      split at ha
      · rcases List.mem_cons.1 ha with rfl | ha
        · decide
        · exact natDigits_digits _ a ha
      · exact natDigits_digits _ a ha
    have hed_ne : ed ≠ [] := by
      simp only [ed]
      split
      · simp
      · exact Nat.toDigits_ne_nil
    have hed_val : digitsVal ed = ea := by
      simp only [ed]
      split
      · rw [digitsVal_zero_cons, digitsVal_natDigits]
      · exact digitsVal_natDigits _
    refine ⟨[c], cs, some (decide (d.dp - 1 < 0), ed), ?_, ?_, by simp, ?_, hcs, ?_, ?_⟩
    · unfold layoutE
      simp only [hd, expTxt, ed, ea]
      cases cs with
      | nil => simp [fracTxt]
      | cons a t => simp [fracTxt]
    · intro a ha; simp at ha; subst ha; exact hc
    · intro t ht; simp at ht; exact ht.2
    · intro sg ds h
      simp only [Option.some.injEq, Prod.mk.injEq] at h
      rw [← h.2]
      exact ⟨hed_ne, hed_digits⟩
    · unfold decVal expVal
      simp only [hd, List.singleton_append, hed_val, decide_eq_true_eq, List.length_cons]
      congr 2
      simp only [ea]
      split <;> omega

/-! ### assembly -/

/-- the body of `numToStrG` for the shortest decimal `d` of the magnitude -/
def gBody (d : Dec) : Chars := if d.dp - 1 < -4 || d.dp - 1 ≥ 6 then layoutE d else layoutF d

theorem numToStrG_fin (q : Rat) :
    numToStrG (.fin q) =
      if q == 0 then ['0']
      else if q < 0 then '-' :: gBody (shortestDec (-q)) else gBody (shortestDec q) := by
  by_cases h0 : (q == 0) = true
  · simp only [numToStrG, h0, if_true]
  · by_cases hq : q < 0
    · simp only [numToStrG, gBody, h0, hq, if_true]
    · simp only [numToStrG, gBody, h0, hq, if_false]

theorem gBody_parts (d : Dec) (hD : DigitsOK d) (hne : d.digits ≠ []) (hh : HeadOK d) :
    ∃ ip fr x, gBody d = ip ++ (fracTxt fr ++ expTxt x) ∧ Parts ip fr x (decVal d) := by
  unfold gBody
  split
  · exact layoutE_parts d hD hne
  · obtain ⟨ip, fr, h1, h2⟩ := layoutF_parts d hD hne hh
    exact ⟨ip, fr, none, h1, h2⟩

/-- the body of the text of a positive double `p` is read as `±p` -/
theorem pUNum_gBody (neg : Bool) (p : Rat) (hpos : 0 < p) (hr : Num.rnd p = .fin p) :
    pUNum neg (gBody (shortestDec p)) = some (if neg then .fin (-p) else .fin p, []) ∧
    ∃ c t, gBody (shortestDec p) = c :: t ∧ isDigit c = true := by
  have hD := shortestDec_digits p
  have hne := Syntax.shortestDec_digits_ne p hpos hr
  have hh := shortestDec_head p
  have hrb := shortestDec_reads_back p hpos hr
  obtain ⟨ip, fr, x, htxt, hparts⟩ := gBody_parts _ hD hne hh
  constructor
  · -- the reader rounds the exact value of the text, which is the value of the decimal
    rw [htxt]
    rw [pUNum_shape neg ip fr x hparts.ip_digits hparts.ip_ne hparts.ip_zero hparts.fr_digits
      hparts.exp_ok]
    have hv : numVal neg ip fr (expVal x) =
        if neg then Num.neg (Num.rnd (decVal (shortestDec p))) else Num.rnd (decVal (shortestDec p)) := by
      unfold numVal
      have : ((digitsVal (ip ++ fr) : Nat) : Rat) * (10 : Rat) ^ (expVal x - (fr.length : Int)) =
          decVal (shortestDec p) := hparts.value
      simp only [this]
    have hp0 : (p == 0) = false := by
      rw [beq_eq_false_iff_ne]; intro h0; rw [h0] at hpos; exact Rat.lt_irrefl hpos
    rw [hv, hrb]
    cases neg <;> simp [Num.neg, Num.isInf, hp0]
  · cases hip : ip with
    | nil => exact absurd hip hparts.ip_ne
    | cons c t =>
      refine ⟨c, t ++ (fracTxt fr ++ expTxt x), by rw [htxt, hip]; rfl, hparts.ip_digits c (by simp [hip])⟩

/-- **every finite double is `numOkJ`**: Go's 'g' text of a double is a JSON number and the reader
    reads it back as the same double -/
theorem numOkJ_of_double (q : Rat) (h : Num.rnd q = .fin q) : numOkJ (.fin q) = true := by
  suffices key : pNum (numToStrG (.fin q)) = some (.fin q, []) by
    simp only [numOkJ, decide_eq_true_eq]; exact key
  rw [numToStrG_fin]
  by_cases h0 : q = 0
  · subst h0; decide +kernel
  · have hb : (q == 0) = false := by simpa using h0
    simp only [hb, Bool.false_eq_true, if_false]
    by_cases hneg : q < 0
    · simp only [hneg, if_true]
      have hp : 0 < -q := by grind
      have hd := rnd_neg_double q hneg h
      have := (pUNum_gBody true (-q) hp hd).1
      rw [pNum, if_pos rfl, this]
      simp [Rat.neg_neg]
    · simp only [hneg, if_false]
      have hp : 0 < q := by grind
      obtain ⟨hval, c, t, hct, hc⟩ := pUNum_gBody false q hp h
      have hcm : c ≠ '-' := by rintro rfl; exact absurd hc (by decide)
      rw [hct] at hval ⊢
      rw [pNum, if_neg hcm, hval]
      simp

theorem numOkJ_nzero : numOkJ .nzero = true := by decide +kernel

/-- the numbers of a value are finite doubles -/
def finNum : Num → Bool
  | .nzero => true
  | .fin q => decide (Num.rnd q = .fin q)
  | _ => false

theorem numOkJ_of_finNum (n : Num) (h : finNum n = true) : numOkJ n = true := by
  cases n with
  | nzero => exact numOkJ_nzero
  | fin q => exact numOkJ_of_double q (by simpa [finNum] using h)
  | _ => simp [finNum] at h

mutual
/-- every number of the value is a finite double (NaN and the infinities have no JSON text) -/
def finJ : JVal → Bool
  | .num n => finNum n
  | .arr l => finJList l
  | .obj ms => finJMembers ms
  | _ => true
def finJList : JList → Bool
  | .nil => true
  | .cons v t => finJ v && finJList t
def finJMembers : JMembers → Bool
  | .nil => true
  | .cons _ v t => finJ v && finJMembers t
end

mutual
theorem wfJ_of_finJ (v : JVal) (h : finJ v = true) : wfJ v = true :=
  match v with
  | .null | .bool _ | .str _ => rfl
  | .num n => by simp only [wfJ]; exact numOkJ_of_finNum n (by simpa [finJ] using h)
  | .arr l => by simp only [wfJ]; exact wfJList_of_finJ l (by simpa [finJ] using h)
  | .obj ms => by simp only [wfJ]; exact wfJMembers_of_finJ ms (by simpa [finJ] using h)
theorem wfJList_of_finJ (l : JList) (h : finJList l = true) : wfJList l = true :=
  match l with
  | .nil => rfl
  | .cons v t => by
    simp only [finJList, Bool.and_eq_true] at h
    simp only [wfJList, Bool.and_eq_true]
    exact ⟨wfJ_of_finJ v h.1, wfJList_of_finJ t h.2⟩
theorem wfJMembers_of_finJ (l : JMembers) (h : finJMembers l = true) : wfJMembers l = true :=
  match l with
  | .nil => rfl
  | .cons _ v t => by
    simp only [finJMembers, Bool.and_eq_true] at h
    simp only [wfJMembers, Bool.and_eq_true]
    exact ⟨wfJ_of_finJ v h.1, wfJMembers_of_finJ t h.2⟩
end

/-- **parseText_render_fin** — for every JSON value whose numbers are finite doubles the canonical
    rendering is read back as exactly that value -/
theorem parseText_render_fin (v : JVal) (h : finJ v = true) : parseText (renderJson v) = some [v] :=
  parseText_render v (wfJ_of_finJ v h)

end Xsel.Json
