/-
  Proofs/Lemmas/WalkYield.lean — the yield of the derivation tree of an expression is its canonical token
  list: `(derivTop e).yield = (renderTop e).map (·.tok)`.
-/
import Xsel.Deriv

namespace Xsel.Walk
open Xsel Xsel.Syntax

/-- the tokens of a rendered token list -/
def toks (l : Toks) : List Tok := l.map (·.tok)

@[simp] theorem toks_nil : toks [] = [] := rfl
@[simp] theorem toks_cons (t : LTok) (l : Toks) : toks (t :: l) = t.tok :: toks l := rfl
@[simp] theorem toks_append (a b : Toks) : toks (a ++ b) = toks a ++ toks b := by simp [toks]
@[simp] theorem tok_U (t : Tok) : (U t).tok = t := rfl
@[simp] theorem tok_T (t : Tok) : (Syntax.T t).tok = t := rfl

@[simp] theorem yield_N (n : String) (ks : List PT) : (N n ks).yield = (PTs.ofList ks).yield := by
  rw [N, PT.yield]
@[simp] theorem yield_ofList_nil : (PTs.ofList []).yield = [] := rfl
@[simp] theorem yield_ofList_cons (t : PT) (ts : List PT) : (PTs.ofList (t :: ts)).yield = t.yield ++ (PTs.ofList ts).yield := by
  rw [PTs.ofList, PTs.yield]
@[simp] theorem yield_tk (t : Tok) : (PT.tk t).yield = [t] := by rw [PT.yield]
@[simp] theorem yield_tkp (x : Punct) : (tkp x).yield = [.p x] := by rw [tkp, PT.yield]

theorem yield_climb : ∀ (n lo : Nat) (t : PT), (climb n lo t).yield = t.yield
  | 0, _, _ => rfl
  | n + 1, lo, t => by rw [climb]; simp [yield_climb n (lo + 1) t]

@[simp] theorem yield_lift (lo hi : Nat) (t : PT) : (lift lo hi t).yield = t.yield := yield_climb _ _ t

@[simp] theorem yield_parenFilter (t : PT) : (parenFilter t).yield = .p .lparen :: (t.yield ++ [.p .rparen]) := by
  simp [parenFilter]

theorem yield_wrapAt (min lv : Nat) (t : PT) (ts : Toks) (h : t.yield = toks ts) :
    (wrapAt min lv t).yield = toks (wrap lv min ts) := by
  unfold wrapAt wrap
  split <;> simp [h]

def headYield : Head → List Tok
  | .rel => []
  | .abs => [.p .slash]
  | .filt f => f.yield ++ [.p .slash]

theorem yield_pathNode (h : Head) (r : PT) : (pathNode h r).yield = headYield h ++ r.yield := by
  cases h <;> simp [pathNode, headYield]

theorem yield_numNode (n : Num) : (numNode n).yield = toks (numToks n) := by
  unfold numNode numToks
  simp only
  split <;> rename_i heq <;> simp [heq]

theorem yield_testNode (t : NodeTest) : (testNode t).yield = toks (testToks t) := by
  cases t <;> simp [testNode, nodeTypeNode, testToks, litNode]

theorem yield_qnameNode (p : Option Chars) (n : Chars) : (qnameNode p n).yield = toks (fnToks p n) := by
  cases p <;> simp [qnameNode, fnToks]

theorem yield_axisNode (ax : Axis) : (axisNode ax).yield = [.kw (.axis ax), .p .coloncolon] := by
  simp [axisNode]

/-- what `renderArgs` writes after the first argument -/
def restArgs : Exprs → Toks
  | .nil => [U (.p .rparen)]
  | .cons b bs => U (.p .comma) :: (wrap (level b) 0 (raw b) ++ restArgs bs)

theorem renderArgs_cons : ∀ (as : Exprs) (a : Expr),
    renderArgs (.cons a as) = wrap (level a) 0 (raw a) ++ restArgs as
  | .nil, a => by rw [renderArgs, restArgs]
  | .cons b bs, a => by simp [renderArgs, restArgs, renderArgs_cons bs b]

theorem level_pathLike (b : Expr) (h : isPathLike b = true) : level b = 8 := by
  cases b with
  | step _ _ _ _ => rfl
  | call base _ _ _ => cases base <;> first | rfl | (simp [isPathLike] at h)
  | _ => simp [isPathLike] at h

theorem level_other (b : Expr) (h : isPathLike b = false) (h1 : b ≠ .ctx) (h2 : b ≠ .root) : level b ≠ 8 := by
  cases b with
  | bin op l r => cases op with | cmp o => cases o <;> simp [level, opLevel] | _ => simp [level, opLevel]
  | call base _ _ _ => cases base <;> first | (simp [level]; done) | (simp [isPathLike] at h)
  | step _ _ _ _ => simp [isPathLike] at h
  | ctx => exact absurd rfl h1
  | root => exact absurd rfl h2
  | _ => simp [level]

theorem wrap_8_9 (lv : Nat) (h : lv ≠ 8) (ts : Toks) : wrap lv 9 ts = wrap lv 8 ts := by
  unfold wrap
  have : (lv < 9) = (lv < 8) := by
    apply propext; constructor <;> intro h' <;> omega
  simp only [this]

theorem yield_relWith (b : Expr) (relB : Head × PT) (natB s : PT)
    (h1 : isPathLike b = true → headYield relB.1 ++ relB.2.yield = toks (raw b))
    (h2 : natB.yield = toks (raw b)) :
    headYield (relWith b relB natB s).1 ++ (relWith b relB natB s).2.yield = toks (basePrefix b) ++ s.yield := by
  by_cases hc : b = .ctx
  · subst hc; simp [relWith, headYield, basePrefix]
  by_cases hr : b = .root
  · subst hr; simp [relWith, headYield, basePrefix]
  have hrw : relWith b relB natB s =
      if isPathLike b then
        (relB.1, N "RelativeLocationPath" [N "RelativeLocationPathWithStep" [relB.2, tkp .slash, s]])
      else (.filt (wrapAt 9 (level b) natB), N "RelativeLocationPath" [s]) := by
    cases b <;> first | exact absurd rfl hc | exact absurd rfl hr | rfl
  have hbp : basePrefix b = wrap (level b) 8 (raw b) ++ [U (.p .slash)] := by
    cases b <;> first | exact absurd rfl hc | exact absurd rfl hr | simp [basePrefix]
  rw [hrw, hbp]
  by_cases hp : isPathLike b = true
  · simp only [hp, if_true]
    have hl := level_pathLike b hp
    simp [wrap, hl, ← h1 hp, List.append_assoc]
  · have hp' : isPathLike b = false := by simpa using hp
    simp only [hp]
    rw [← wrap_8_9 _ (level_other b hp' hc hr)]
    simp [headYield, yield_wrapAt 9 (level b) natB (raw b) h2]

mutual

theorem yield_dNat : (e : Expr) → (dNat e).yield = toks (raw e)
  | .bin op l r => by
    rw [dNat, raw]
    simp [yield_wrapAt _ _ _ _ (yield_dNat l), yield_wrapAt _ _ _ _ (yield_dNat r)]
  | .neg e => by
    rw [dNat, raw]
    simp [yield_wrapAt _ _ _ _ (yield_dNat e)]
  | .num n => by rw [dNat, raw]; simp [yield_numNode]
  | .lit s => by rw [dNat, raw]; simp [litNode]
  | .var p n => by rw [dNat, raw]; simp
  | .root => by rw [dNat, raw]; simp [rootPath]
  | .ctx => by rw [dNat, raw]; simp [selfStepPath]
  | .filt b p => by
    rw [dNat, raw]
    simp [predNode, yield_wrapAt _ _ _ _ (yield_dNat b), yield_wrapAt _ _ _ _ (yield_dNat p)]
  | .call b p n as => by
    by_cases hb : b = .ctx
    · subst hb
      rw [dNat, raw]
      simp [yield_dCall p n as, basePrefix]
    · have : dNat (.call b p n as) =
          pathNode (relWith b (dRel b) (dNat b) (N "Step" [dCall p n as])).1
            (relWith b (dRel b) (dNat b) (N "Step" [dCall p n as])).2 := by
        cases b <;> first | exact absurd rfl hb | simp only [dNat]
      rw [this, yield_pathNode, yield_relWith b _ _ _ (fun hp => yield_dRel b hp) (yield_dNat b), raw]
      simp [yield_dCall p n as]
  | .step b ax t ps => by
    rw [dNat, yield_pathNode, yield_relWith b _ _ _ (fun hp => yield_dRel b hp) (yield_dNat b), raw]
    simp [yield_dStep ax t ps]

theorem yield_dRel : (e : Expr) → isPathLike e = true → headYield (dRel e).1 ++ (dRel e).2.yield = toks (raw e)
  | .step b ax t ps, _ => by
    rw [dRel, yield_relWith b _ _ _ (fun hp => yield_dRel b hp) (yield_dNat b), raw]
    simp [yield_dStep ax t ps]
  | .call b p n as, h => by
    have hb : b ≠ .ctx := by intro hb; subst hb; simp [isPathLike] at h
    rw [dRel, yield_relWith b _ _ _ (fun hp => yield_dRel b hp) (yield_dNat b), raw]
    simp [yield_dCall p n as]
  | .bin _ _ _, hp | .neg _, hp | .num _, hp | .lit _, hp | .var _ _, hp | .root, hp | .ctx, hp | .filt _ _, hp => by
    simp [isPathLike] at hp

theorem yield_dStep (ax : Axis) (t : NodeTest) : (ps : Exprs) →
    (dStep ax t ps).yield = .kw (.axis ax) :: .p .coloncolon :: (toks (testToks t) ++ toks (renderPreds ps))
  | .nil => by rw [dStep, renderPreds]; simp [yield_axisNode, yield_testNode]
  | .cons p ps => by
    rw [dStep, renderPreds]
    simp [yield_axisNode, yield_testNode, yield_dPreds _ ps, predNode, yield_wrapAt _ _ _ _ (yield_dNat p)]

theorem yield_dPreds (first : PT) : (qs : Exprs) → (dPreds first qs).yield = first.yield ++ toks (renderPreds qs)
  | .nil => by rw [dPreds, renderPreds]; simp
  | .cons q qs => by
    rw [dPreds, renderPreds]
    simp [yield_dPreds _ qs, predNode, yield_wrapAt _ _ _ _ (yield_dNat q)]

theorem yield_dCall (p : Option Chars) (n : Chars) : (as : Exprs) →
    (dCall p n as).yield = toks (fnToks p n) ++ .p .lparen :: toks (renderArgs as)
  | .nil => by rw [dCall, renderArgs]; simp [yield_qnameNode]
  | .cons a as => by
    rw [dCall, renderArgs_cons]
    simp [yield_qnameNode, yield_dArgs _ as, yield_wrapAt _ _ _ _ (yield_dNat a)]

theorem yield_dArgs (first : PT) : (bs : Exprs) → (dArgs first bs).yield = first.yield ++ toks (restArgs bs)
  | .nil => by rw [dArgs, restArgs]; simp
  | .cons b bs => by
    rw [dArgs, restArgs]
    simp [yield_dArgs _ bs, yield_wrapAt _ _ _ _ (yield_dNat b)]

end

/-- **derivTop_yield** — the leaves of the derivation tree of `e`, left to right, are the tokens of the
    canonical spelling of `e` -/
theorem derivTop_yield (e : Expr) : (derivTop e).yield = (renderTop e).map (·.tok) := by
  by_cases hr : e = .root
  · subst hr; simp [derivTop, renderTop, rootPath]
  · have h1 : derivTop e = wrapAt 0 (level e) (dNat e) := by
      cases e <;> first | exact absurd rfl hr | rfl
    have h2 : renderTop e = wrap (level e) 0 (raw e) := by
      cases e <;> first | exact absurd rfl hr | rfl
    rw [h1, h2]
    exact yield_wrapAt _ _ _ _ (yield_dNat e)

end Xsel.Walk
