/-
  Proofs/Lemmas/TreeAxes.lean — T4: on a well-formed arena every axis walker of the model
  (`Model.axis a ax [c]`) selects exactly the nodes of `Spec.inAxis a ax c`.
-/
import Proofs.Lemmas.Tree

namespace Xsel.Tree
open Xsel Arena

/-! ### `after` / `before` on a strictly ascending list -/

theorem mem_after {c x : Nat} : ∀ {l : List Nat}, l.Pairwise (· < ·) → c ∈ l →
    (x ∈ Model.after c l ↔ x ∈ l ∧ c < x)
  | [], _, hc => by cases hc
  | y :: t, hl, hc => by
    have hl' := List.pairwise_cons.mp hl
    by_cases hy : y = c
    · subst hy
      simp only [Model.after, beq_self_eq_true, if_true, List.mem_cons]
      constructor
      · intro hx; exact ⟨Or.inr hx, hl'.1 x hx⟩
      · rintro ⟨hx | hx, hlt⟩
        · omega
        · exact hx
    · have hct : c ∈ t := by
        rcases List.mem_cons.mp hc with e | e
        · exact absurd e.symm hy
        · exact e
      have hyc := hl'.1 c hct
      simp only [Model.after, beq_iff_eq, hy, if_false, List.mem_cons]
      rw [mem_after hl'.2 hct]
      constructor
      · rintro ⟨hx, hlt⟩; exact ⟨Or.inr hx, hlt⟩
      · rintro ⟨hx | hx, hlt⟩
        · omega
        · exact ⟨hx, hlt⟩

theorem mem_before {c x : Nat} : ∀ {l : List Nat}, l.Pairwise (· < ·) → c ∈ l →
    (x ∈ Model.before c l ↔ x ∈ l ∧ x < c)
  | [], _, hc => by cases hc
  | y :: t, hl, hc => by
    have hl' := List.pairwise_cons.mp hl
    by_cases hy : y = c
    · subst hy
      simp only [Model.before, beq_self_eq_true, if_true, List.mem_cons, List.not_mem_nil,
        false_iff, not_and]
      rintro (hx | hx)
      · omega
      · have := hl'.1 x hx; omega
    · have hct : c ∈ t := by
        rcases List.mem_cons.mp hc with e | e
        · exact absurd e.symm hy
        · exact e
      have hyc := hl'.1 c hct
      simp only [Model.before, beq_iff_eq, hy, if_false, List.mem_cons]
      rw [mem_before hl'.2 hct]
      constructor
      · rintro (hx | ⟨hx, hlt⟩)
        · exact ⟨Or.inl hx, by omega⟩
        · exact ⟨Or.inr hx, hlt⟩
      · rintro ⟨hx | hx, hlt⟩
        · exact Or.inl hx
        · exact Or.inr ⟨hx, hlt⟩

section
variable {a : Arena} (h : wfb a = true)
include h

/-! ### membership in the three lists of a cell -/

theorem mem_kids_iff {p j : Nat} (hj : j < a.size) :
    j ∈ a.kids p ↔ (a.isTree j = true ∧ j ≠ 0 ∧ a.parent j = p) := by
  constructor
  · intro hm
    obtain ⟨h1, _, h3, h4⟩ := mem_kids h hm
    exact ⟨h3, by omega, h4⟩
  · rintro ⟨ht, h0, rfl⟩
    exact listed_kid h h0 hj ht

theorem mem_attrs_iff {p j : Nat} (hj : j < a.size) :
    j ∈ a.attrs p ↔ (a.kind j = .attr ∧ a.parent j = p) := by
  constructor
  · intro hm
    obtain ⟨_, _, h3, h4⟩ := mem_attrs h hm
    exact ⟨h3, h4⟩
  · rintro ⟨hk, rfl⟩
    exact listed_attr h hj hk

theorem mem_nss_iff {p j : Nat} (hj : j < a.size) :
    j ∈ a.nss p ↔ (a.kind j = .ns ∧ a.parent j = p) := by
  constructor
  · intro hm
    obtain ⟨_, _, h3, h4⟩ := mem_nss h hm
    exact ⟨h3, h4⟩
  · rintro ⟨hk, rfl⟩
    exact listed_ns h hj hk

/-! ### the easy axes -/

omit h in
theorem axis_mem_self {c j : Nat} :
    j ∈ Model.axis a .self [c] ↔ Spec.inAxis a .self c j = true := by
  simp [Model.axis, Spec.inAxis]

theorem axis_mem_child {c j : Nat} (hj : j < a.size) :
    j ∈ Model.axis a .child [c] ↔ Spec.inAxis a .child c j = true := by
  simp only [Model.axis, Spec.inAxis, mem_cleanupFwd, List.flatMap_cons, List.flatMap_nil,
    List.append_nil, mem_kids_iff h hj, Bool.and_eq_true, bne_iff_ne, beq_iff_eq]
  constructor
  · rintro ⟨h1, h2, h3⟩
    exact ⟨⟨⟨h1, h2⟩, h3⟩, h3 ▸ parent_isTree h h2 hj⟩
  · rintro ⟨⟨⟨h1, h2⟩, h3⟩, _⟩
    exact ⟨h1, h2, h3⟩

theorem axis_mem_attribute {c j : Nat} (hj : j < a.size) :
    j ∈ Model.axis a .attribute [c] ↔ Spec.inAxis a .attribute c j = true := by
  simp [Model.axis, Spec.inAxis, mem_attrs_iff h hj]

theorem axis_mem_namespace {c j : Nat} (hj : j < a.size) :
    j ∈ Model.axis a .namespace [c] ↔ Spec.inAxis a .namespace c j = true := by
  simp [Model.axis, Spec.inAxis, mem_nss_iff h hj]

omit h in
theorem axis_mem_parent {c j : Nat} :
    j ∈ Model.axis a .parent [c] ↔ Spec.inAxis a .parent c j = true := by
  by_cases hc : c = 0
  · simp [Model.axis, Spec.inAxis, hc]
  · simp [Model.axis, Spec.inAxis, hc]

omit h in
theorem axis_mem_ancestorOrSelf {c j : Nat} :
    j ∈ Model.axis a .ancestorOrSelf [c] ↔ Spec.inAxis a .ancestorOrSelf c j = true := by
  simp [Model.axis, Spec.inAxis, ancestorsOrSelf_eq, mem_ancestors]

theorem axis_mem_ancestor {c j : Nat} :
    j ∈ Model.axis a .ancestor [c] ↔ Spec.inAxis a .ancestor c j = true := by
  by_cases hc : c = 0
  · simp [Model.axis, Spec.inAxis, hc, anc_zero_right]
  · simp only [Model.axis, Spec.inAxis, mem_cleanupBwd, List.filter_cons, bne_iff_ne, ne_eq, hc,
      not_false_eq_true, if_true, List.filter_nil, List.flatMap_cons, List.flatMap_nil,
      List.append_nil, ancestorsOrSelf_eq, List.mem_cons, mem_ancestors, anc_iff h (j := c),
      true_and]
    constructor
    · rintro (e | e)
      · exact Or.inl e.symm
      · exact Or.inr e
    · rintro (e | e)
      · exact Or.inl e.symm
      · exact Or.inr e

theorem axis_mem_descendant {c j : Nat} (hj : j < a.size) :
    j ∈ Model.axis a .descendant [c] ↔ Spec.inAxis a .descendant c j = true := by
  simp [Model.axis, Spec.inAxis, mem_descendants h, hj]

theorem axis_mem_descendantOrSelf {c j : Nat} (hj : j < a.size) :
    j ∈ Model.axis a .descendantOrSelf [c] ↔ Spec.inAxis a .descendantOrSelf c j = true := by
  simp [Model.axis, Spec.inAxis, mem_descendants h, hj]

omit h in
theorem isAttrOrNs_eq_not_isTree (i : Nat) : a.isAttrOrNs i = !a.isTree i := by
  simp [Arena.isTree]

theorem axis_mem_followingSibling {c j : Nat} (hc : c < a.size) (hj : j < a.size) :
    j ∈ Model.axis a .followingSibling [c] ↔ Spec.inAxis a .followingSibling c j = true := by
  by_cases hc0 : c = 0
  · simp [Model.axis, Spec.inAxis, Model.followingSiblingOf, hc0]
  · cases ht : a.isTree c with
    | false =>
      have : a.isAttrOrNs c = true := by simp [Arena.isTree] at ht; exact ht
      simp [Model.axis, Spec.inAxis, Model.followingSiblingOf, ht, this]
    | true =>
      have hk : a.isAttrOrNs c = false := by simp [Arena.isTree] at ht; exact ht
      have hl := listed_kid h hc0 hc ht
      simp [Model.axis, Spec.inAxis, Model.followingSiblingOf, ht, hk, hc0,
        mem_after (kids_sorted h _) hl, mem_kids_iff h hj, and_assoc]

theorem axis_mem_precedingSibling {c j : Nat} (hc : c < a.size) (hj : j < a.size) :
    j ∈ Model.axis a .precedingSibling [c] ↔ Spec.inAxis a .precedingSibling c j = true := by
  by_cases hc0 : c = 0
  · simp [Model.axis, Spec.inAxis, Model.precedingSiblingOf, hc0]
  · cases ht : a.isTree c with
    | false =>
      have : a.isAttrOrNs c = true := by simp [Arena.isTree] at ht; exact ht
      simp [Model.axis, Spec.inAxis, Model.precedingSiblingOf, ht, this]
    | true =>
      have hk : a.isAttrOrNs c = false := by simp [Arena.isTree] at ht; exact ht
      have hl := listed_kid h hc0 hc ht
      simp [Model.axis, Spec.inAxis, Model.precedingSiblingOf, ht, hk, hc0,
        mem_before (kids_sorted h _) hl, mem_kids_iff h hj, and_assoc]

end

/-! ### the pre-order layout: the subtree of a node is a contiguous index interval -/

section
variable {a : Arena} (h : wfb a = true)
include h

theorem anc_pred {p c : Nat} (hc : c < a.size) (hpc : Spec.anc a p c = true) (hne : p ≠ c - 1) :
    Spec.anc a p (c - 1) = true := by
  obtain ⟨hc0, hp⟩ := (anc_iff h).mp hpc
  rcases preorder h hc0 hc with e | e
  · rcases hp with e' | e'
    · omega
    · exact e ▸ e'
  · rcases hp with e' | e'
    · exact e' ▸ e
    · exact anc_trans h e' e

/-- every cell between an ancestor and its descendant is a descendant of that ancestor -/
theorem anc_interval {p x : Nat} (hpx : p < x) : ∀ (n c : Nat), c - x = n → c < a.size →
    x ≤ c → Spec.anc a p c = true → Spec.anc a p x = true
  | 0, c, hn, _, hxc, hpc => by
    have : c = x := by omega
    exact this ▸ hpc
  | n + 1, c, hn, hc, hxc, hpc =>
    anc_interval hpx n (c - 1) (by omega) (by omega) (by omega) (anc_pred h hc hpc (by omega))

theorem anc_between {p x c : Nat} (hc : c < a.size) (hpc : Spec.anc a p c = true)
    (hpx : p < x) (hxc : x ≤ c) : Spec.anc a p x = true :=
  anc_interval h hpx _ c rfl hc hxc hpc

/-- below an ancestor `p` of a tree node `j` there is a child of `p` that is `j` or an
    ancestor of `j` -/
theorem kid_above {p j : Nat} (hj : j < a.size) (ht : a.isTree j = true)
    (hpj : Spec.anc a p j = true) : ∃ k ∈ a.kids p, k = j ∨ Spec.anc a k j = true := by
  obtain ⟨k, hk0, hkp, hkj⟩ := anc_child h hpj
  have hks : k < a.size := by
    rcases hkj with e | e
    · omega
    · have := anc_lt h e; omega
  have hkt : a.isTree k = true := by
    rcases hkj with e | e
    · exact e ▸ ht
    · exact anc_isTree h hj e
  exact ⟨k, (mem_kids_iff h hks).mpr ⟨hkt, hk0, hkp⟩, hkj⟩

omit h in
theorem isTree_false_of_attrOrNs {c : Nat} (hk : a.isAttrOrNs c = true) : a.isTree c = false := by
  simp [Arena.isTree, hk]

theorem ne_zero_of_attrOrNs {c : Nat} (hk : a.isAttrOrNs c = true) : c ≠ 0 := by
  intro e; subst e
  have := isTree_zero h
  simp [Arena.isTree, hk] at this

/-- an attribute or namespace node is not an ancestor -/
theorem not_anc_of_attrOrNs {c j : Nat} (hj : j < a.size) (hk : a.isAttrOrNs c = true) :
    Spec.anc a c j = false := by
  cases e : Spec.anc a c j with
  | false => rfl
  | true =>
    have := anc_isTree h hj e
    simp [Arena.isTree, hk] at this

/-- an attribute or namespace node is listed by its parent -/
theorem attrOrNs_listed {c : Nat} (hc : c < a.size) (hk : a.isAttrOrNs c = true) :
    c ∈ a.attrs (a.parent c) ∨ c ∈ a.nss (a.parent c) := by
  cases hkind : a.kind c with
  | attr => exact Or.inl (listed_attr h hc hkind)
  | ns => exact Or.inr (listed_ns h hc hkind)
  | _ => simp [Arena.isAttrOrNs, hkind] at hk

/-- the attributes and namespace nodes of an element precede all its tree descendants -/
theorem attrOrNs_lt_desc {c j : Nat} (hc : c < a.size) (hj : j < a.size)
    (hk : a.isAttrOrNs c = true) (ht : a.isTree j = true)
    (hpj : Spec.anc a (a.parent c) j = true) : c < j := by
  obtain ⟨k, hkm, hkj⟩ := kid_above h hj ht hpj
  have hck : c < k := by
    rcases attrOrNs_listed h hc hk with e | e
    · exact attrs_lt_kids h e hkm
    · exact nss_lt_kids h e hkm
  rcases hkj with e | e
  · omega
  · have := anc_lt h e; omega

/-- siblings are not ancestors of each other -/
theorem not_anc_sibling {c k : Nat} (hc : c ≠ 0) (hp : a.parent k = a.parent c) :
    Spec.anc a c k = false := by
  cases e : Spec.anc a c k with
  | false => rfl
  | true =>
    exfalso
    obtain ⟨_, hcase⟩ := (anc_iff h).mp e
    have := parent_lt h hc
    rcases hcase with e' | e'
    · omega
    · have := anc_lt h e'; omega

end

/-! ### following -/

/-- the specification of the following axis, as a proposition -/
def Fol (a : Arena) (c j : Nat) : Prop :=
  j < a.size ∧ a.isTree j = true ∧ c < j ∧ Spec.anc a c j = false

/-- the specification of the preceding axis, as a proposition -/
def Prec (a : Arena) (c j : Nat) : Prop :=
  j < a.size ∧ a.isTree j = true ∧ j < c ∧ Spec.anc a j c = false

section
variable {a : Arena} (h : wfb a = true)
include h

theorem fol_up {c j : Nat} (hc : c < a.size) (hc0 : c ≠ 0) (hf : Fol a (a.parent c) j) :
    Fol a c j := by
  obtain ⟨hj, ht, hlt, hn⟩ := hf
  have hpc := anc_parent h hc0
  refine ⟨hj, ht, ?_, ?_⟩
  · apply Nat.lt_of_not_le
    intro hle
    have := anc_between h hc hpc hlt hle
    rw [hn] at this; cases this
  · cases e : Spec.anc a c j with
    | false => rfl
    | true =>
      have := anc_trans h hpc e
      rw [hn] at this; cases this

theorem fol_attr {c j : Nat} (hc : c < a.size) (hk : a.isAttrOrNs c = true) :
    ((a.isTree j = true ∧ Spec.anc a (a.parent c) j = true ∧ j < a.size) ∨ Fol a (a.parent c) j)
      ↔ Fol a c j := by
  have hc0 := ne_zero_of_attrOrNs h hk
  have hp := parent_lt h hc0
  constructor
  · rintro (⟨ht, hpj, hj⟩ | hf)
    · exact ⟨hj, ht, attrOrNs_lt_desc h hc hj hk ht hpj, not_anc_of_attrOrNs h hj hk⟩
    · exact fol_up h hc hc0 hf
  · rintro ⟨hj, ht, hlt, hn⟩
    cases e : Spec.anc a (a.parent c) j with
    | true => exact Or.inl ⟨ht, rfl, hj⟩
    | false => exact Or.inr ⟨hj, ht, by omega, e⟩

theorem fol_tree {c j : Nat} (hc : c < a.size) (hc0 : c ≠ 0) (hct : a.isTree c = true) :
    ((∃ k ∈ Model.after c (a.kids (a.parent c)),
        j = k ∨ (a.isTree j = true ∧ Spec.anc a k j = true ∧ j < a.size))
      ∨ Fol a (a.parent c) j) ↔ Fol a c j := by
  have hp := parent_lt h hc0
  have hl := listed_kid h hc0 hc hct
  constructor
  · rintro (⟨k, hk, hjk⟩ | hf)
    · obtain ⟨hkm, hck⟩ := (mem_after (kids_sorted h _) hl).mp hk
      obtain ⟨hpk, hks, hkt, hkp⟩ := mem_kids h hkm
      have hnk := not_anc_sibling h hc0 hkp
      rcases hjk with e | ⟨ht, hkj, hj⟩
      · subst e; exact ⟨hks, hkt, hck, hnk⟩
      · have hkj' := anc_lt h hkj
        refine ⟨hj, ht, by omega, ?_⟩
        cases e : Spec.anc a c j with
        | false => rfl
        | true =>
          have := anc_between h hj e hck (by omega)
          rw [hnk] at this; cases this
    · exact fol_up h hc hc0 hf
  · rintro ⟨hj, ht, hlt, hn⟩
    cases e : Spec.anc a (a.parent c) j with
    | false => exact Or.inr ⟨hj, ht, by omega, e⟩
    | true =>
      left
      obtain ⟨k, hkm, hkj⟩ := kid_above h hj ht e
      obtain ⟨hpk, hks, hkt, hkp⟩ := mem_kids h hkm
      have hk0 : k ≠ 0 := by omega
      have hck : c < k := by
        apply Nat.lt_of_not_le
        intro hle
        have hne : k ≠ c := by
          intro e'; subst e'
          rcases hkj with e' | e'
          · omega
          · rw [hn] at e'; cases e'
        have hlt' : k < c := by omega
        rcases hkj with e' | e'
        · omega
        · have h1 := anc_between h hj e' hlt' (by omega)
          have h2 := not_anc_sibling h hk0 hkp.symm
          rw [h2] at h1; cases h1
      refine ⟨k, (mem_after (kids_sorted h _) hl).mpr ⟨hkm, hck⟩, ?_⟩
      rcases hkj with e' | e'
      · exact Or.inl e'.symm
      · exact Or.inr ⟨ht, e', hj⟩

theorem fol_root {j : Nat} : ¬ Fol a 0 j := by
  rintro ⟨_, _, hlt, hn⟩
  have := root_anc h (j := j) (by omega)
  rw [hn] at this; cases this

/-- the following walker selects exactly the specified nodes -/
theorem mem_followingOf {j : Nat} : ∀ (f c : Nat), c ≤ f → c < a.size →
    (j ∈ Model.followingOf a f c ↔ Fol a c j)
  | 0, c, hf, _ => by
    have : c = 0 := by omega
    subst this
    simp [Model.followingOf, fol_root h]
  | f + 1, c, hf, hc => by
    by_cases hc0 : c = 0
    · subst hc0; simp [Model.followingOf, fol_root h]
    · have hp := parent_lt h hc0
      have ih := mem_followingOf (j := j) f (a.parent c) (by omega) (by omega)
      cases hk : a.isAttrOrNs c with
      | true =>
        rw [← fol_attr h hc hk, ← ih]
        simp [Model.followingOf, hc0, hk, mem_descendants h]
      | false =>
        have hct : a.isTree c = true := by simp [Arena.isTree, hk]
        rw [← fol_tree h hc hc0 hct, ← ih]
        simp [Model.followingOf, hc0, hk, mem_descendants h, List.mem_flatMap]

theorem axis_mem_following {c j : Nat} (hc : c < a.size) (hj : j < a.size) :
    j ∈ Model.axis a .following [c] ↔ Spec.inAxis a .following c j = true := by
  simp [Model.axis, Spec.inAxis, mem_followingOf h _ c (Nat.le_of_lt hc) hc, Fol, hj, and_assoc]

/-! ### preceding -/

theorem prec_up {c j : Nat} (hc0 : c ≠ 0) (hf : Prec a (a.parent c) j) : Prec a c j := by
  obtain ⟨hj, ht, hlt, hn⟩ := hf
  have hp := parent_lt h hc0
  refine ⟨hj, ht, by omega, ?_⟩
  cases e : Spec.anc a j c with
  | false => rfl
  | true =>
    obtain ⟨_, hcase⟩ := (anc_iff h).mp e
    rcases hcase with e' | e'
    · omega
    · rw [hn] at e'; cases e'

/-- a preceding node of `c` that is not below the parent of `c` precedes that parent -/
theorem prec_parent {c j : Nat} (hc0 : c ≠ 0) (hf : Prec a c j) :
    Prec a (a.parent c) j ∨ (a.parent c < j ∧ Spec.anc a (a.parent c) j = true) := by
  obtain ⟨hj, ht, hlt, hn⟩ := hf
  have hpc := anc_parent h hc0
  have hne : j ≠ a.parent c := by
    intro e; rw [e, hpc] at hn; cases hn
  have hnp : Spec.anc a j (a.parent c) = false := by
    cases e : Spec.anc a j (a.parent c) with
    | false => rfl
    | true => rw [anc_of_anc_parent h hc0 e] at hn; cases hn
  by_cases hlt' : j < a.parent c
  · exact Or.inl ⟨hj, ht, hlt', hnp⟩
  · have hpj : a.parent c < j := by omega
    have hcs : c < a.size ∨ a.size ≤ c := Nat.lt_or_ge _ _
    rcases hcs with hc | hc
    · exact Or.inr ⟨hpj, anc_between h hc hpc hpj (by omega)⟩
    · rw [parent_oob hc] at hpj ⊢
      exact Or.inr ⟨hpj, root_anc h (by omega)⟩

theorem prec_attr {c j : Nat} (hc : c < a.size) (hk : a.isAttrOrNs c = true) :
    Prec a (a.parent c) j ↔ Prec a c j := by
  have hc0 := ne_zero_of_attrOrNs h hk
  constructor
  · exact prec_up h hc0
  · intro hf
    rcases prec_parent h hc0 hf with hp | ⟨_, hpj⟩
    · exact hp
    · obtain ⟨hj, ht, hlt, _⟩ := hf
      have := attrOrNs_lt_desc h hc hj hk ht hpj
      omega

theorem prec_tree {c j : Nat} (hc : c < a.size) (hc0 : c ≠ 0) (hct : a.isTree c = true) :
    ((∃ k ∈ Model.before c (a.kids (a.parent c)),
        j = k ∨ (a.isTree j = true ∧ Spec.anc a k j = true ∧ j < a.size))
      ∨ Prec a (a.parent c) j) ↔ Prec a c j := by
  have hp := parent_lt h hc0
  have hl := listed_kid h hc0 hc hct
  constructor
  · rintro (⟨k, hk, hjk⟩ | hf)
    · obtain ⟨hkm, hkc⟩ := (mem_before (kids_sorted h _) hl).mp hk
      obtain ⟨hpk, hks, hkt, hkp⟩ := mem_kids h hkm
      have hk0 : k ≠ 0 := by omega
      have hnk := not_anc_sibling h hk0 hkp.symm
      rcases hjk with e | ⟨ht, hkj, hj⟩
      · subst e; exact ⟨hks, hkt, hkc, hnk⟩
      · have hkj' := anc_lt h hkj
        refine ⟨hj, ht, ?_, ?_⟩
        · apply Nat.lt_of_not_le
          intro hle
          have := anc_between h hj hkj hkc hle
          rw [hnk] at this; cases this
        · cases e : Spec.anc a j c with
          | false => rfl
          | true =>
            obtain ⟨_, hcase⟩ := (anc_iff h).mp e
            rcases hcase with e' | e'
            · omega
            · have := anc_lt h e'; omega
    · exact prec_up h hc0 hf
  · intro hf
    rcases prec_parent h hc0 hf with hp' | ⟨_, hpj⟩
    · exact Or.inr hp'
    · obtain ⟨hj, ht, hlt, _⟩ := hf
      obtain ⟨k, hkm, hkj⟩ := kid_above h hj ht hpj
      have hkc : k < c := by
        rcases hkj with e' | e'
        · omega
        · have := anc_lt h e'; omega
      refine Or.inl ⟨k, (mem_before (kids_sorted h _) hl).mpr ⟨hkm, hkc⟩, ?_⟩
      rcases hkj with e' | e'
      · exact Or.inl e'.symm
      · exact Or.inr ⟨ht, e', hj⟩

omit h in
theorem prec_root {j : Nat} : ¬ Prec a 0 j := by
  rintro ⟨_, _, hlt, _⟩
  omega

/-- the preceding walker selects exactly the specified nodes -/
theorem mem_precedingOf {j : Nat} : ∀ (f c : Nat), c ≤ f → c < a.size →
    (j ∈ Model.precedingOf a f c ↔ Prec a c j)
  | 0, c, hf, _ => by
    have : c = 0 := by omega
    subst this
    simp [Model.precedingOf, prec_root]
  | f + 1, c, hf, hc => by
    by_cases hc0 : c = 0
    · subst hc0; simp [Model.precedingOf, prec_root]
    · have hp := parent_lt h hc0
      have ih := mem_precedingOf (j := j) f (a.parent c) (by omega) (by omega)
      cases hk : a.isAttrOrNs c with
      | true =>
        rw [← prec_attr h hc hk, ← ih]
        simp [Model.precedingOf, hc0, hk]
      | false =>
        have hct : a.isTree c = true := by simp [Arena.isTree, hk]
        rw [← prec_tree h hc hc0 hct, ← ih]
        simp [Model.precedingOf, hc0, hk, mem_descendants h, List.mem_flatMap]

theorem axis_mem_preceding {c j : Nat} (hc : c < a.size) (hj : j < a.size) :
    j ∈ Model.axis a .preceding [c] ↔ Spec.inAxis a .preceding c j = true := by
  simp [Model.axis, Spec.inAxis, mem_precedingOf h _ c (Nat.le_of_lt hc) hc, Prec, hj, and_assoc]

/-! ### T4 -/

/-- T4: on a well-formed arena each axis walker selects exactly the nodes of the
    specification -/
theorem axis_mem (ax : Axis) {c j : Nat} (hc : c < a.size) (hj : j < a.size) :
    j ∈ Model.axis a ax [c] ↔ Spec.inAxis a ax c j = true := by
  cases ax with
  | child => exact axis_mem_child h hj
  | descendant => exact axis_mem_descendant h hj
  | parent => exact axis_mem_parent
  | ancestor => exact axis_mem_ancestor h
  | followingSibling => exact axis_mem_followingSibling h hc hj
  | precedingSibling => exact axis_mem_precedingSibling h hc hj
  | following => exact axis_mem_following h hc hj
  | preceding => exact axis_mem_preceding h hc hj
  | «attribute» => exact axis_mem_attribute h hj
  | «namespace» => exact axis_mem_namespace h hj
  | self => exact axis_mem_self
  | descendantOrSelf => exact axis_mem_descendantOrSelf h hj
  | ancestorOrSelf => exact axis_mem_ancestorOrSelf

end

end Xsel.Tree
