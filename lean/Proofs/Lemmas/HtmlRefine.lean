/-
  Proofs/Lemmas/HtmlRefine.lean — `adapter` on a document that starts with a doctype: the walker
  skips Document and Doctype, emits the mirrored rest and leaves the document with one end event.
-/
import Proofs.Lemmas.HtmlWalk

namespace Xsel
namespace Html

/-! ### the Document → Doctype → NextSibling prefix of the first pull -/

theorem pull_document {dom : Array HNode} {i c : Nat} (f : Nat)
    (hty : (dom.getD i default).ty = .document) (hfc : (dom.getD i default).firstChild = some c)
    (hc : (dom.getD c default).ty = .doctype) :
    pull dom (f + 1) ⟨i, [], false, false, false⟩ = pull dom f ⟨c, [], false, false, false⟩ := by
  rw [pull]
  simp only [Bool.false_eq_true, if_false, hty, hfc, hc, bne_self_eq_false]

theorem pull_doctype {dom : Array HNode} {i x : Nat} (f : Nat)
    (hty : (dom.getD i default).ty = .doctype) (hns : (dom.getD i default).nextSibling = some x) :
    pull dom (f + 1) ⟨i, [], false, false, false⟩ = pull dom f ⟨x, [], false, false, false⟩ := by
  rw [pull]
  simp only [Bool.false_eq_true, if_false, hty, hns]

theorem pull_doctype_last {dom : Array HNode} {i : Nat} (f : Nat)
    (hty : (dom.getD i default).ty = .doctype) (hns : (dom.getD i default).nextSibling = none) :
    pull dom (f + 1) ⟨i, [], false, false, false⟩ = (⟨i, [], false, false, false⟩, .crash) := by
  rw [pull]
  simp only [Bool.false_eq_true, if_false, hty, hns]

/-- at an element, text or comment node `pull` does not recurse: its fuel is irrelevant -/
theorem pull_fuel_irrel {dom : Array HNode} {i : Nat} (f g : Nat)
    (h : (dom.getD i default).ty = .element ∨ (dom.getD i default).ty = .text
          ∨ (dom.getD i default).ty = .comment) :
    pull dom (f + 1) ⟨i, [], false, false, false⟩ = pull dom (g + 1) ⟨i, [], false, false, false⟩ := by
  rcases h with h | h | h
  · rw [pull_element f rfl h, pull_element g rfl h]
  · rw [pull_text f rfl h, pull_text g rfl h]
  · rw [pull_comment f rfl h, pull_comment g rfl h]

/-- the root cell of a laid-out well-typed tree is an element, text or comment node -/
theorem repr_wt_ty {dom : Array HNode} {i : Nat} {parent next : Option Nat} {t : HTree}
    (hr : ReprT dom i parent next t) (hw : wtTree t = true) :
    (dom.getD i default).ty = .element ∨ (dom.getD i default).ty = .text
      ∨ (dom.getD i default).ty = .comment := by
  obtain ⟨ty, data, attrs, kids⟩ := t
  simp only [ReprT] at hr
  rw [getD_of_getElem? hr.1]
  cases ty <;> simp [wtTree] at hw ⊢

theorem walk_congr_pull {dom : Array HNode} {s s' : PState} (h : pull dom 4 s = pull dom 4 s')
    (fuel : Nat) (acc : List Ev) : walk dom fuel s acc = walk dom fuel s' acc := by
  cases fuel with
  | zero => rw [walk, walk]
  | succ fuel => rw [walk, walk, h]

/-! ### the layout of a document that starts with a doctype -/

structure DocLayout (dom : Array HNode) (rest : HForest) (x : Nat) : Prop where
  root_ty : (dom.getD 0 default).ty = .document
  root_fc : (dom.getD 0 default).firstChild = some 1
  root_parent : (dom.getD 0 default).parent = none
  root_next : (dom.getD 0 default).nextSibling = none
  dt_ty : (dom.getD 1 default).ty = .doctype
  dt_next : (dom.getD 1 default).nextSibling = if rest.hasKids then some x else none
  rest_repr : ReprF dom x (some 0) rest

theorem doc_layout (data : Chars) (dattrs : List HAttr) (ddata : Chars) (dtattrs : List HAttr)
    (dkids rest : HForest) :
    DocLayout (linearize (.node .document data dattrs (.cons (.node .doctype ddata dtattrs dkids) rest)))
      rest (2 + fsize dkids) := by
  have h := linearize_repr
    (.node .document data dattrs (.cons (.node .doctype ddata dtattrs dkids) rest))
  have hk : ∀ (t : HTree) (ts : HForest), (HForest.cons t ts).hasKids = true := fun _ _ => rfl
  have e : 1 + (1 + fsize dkids) = 2 + fsize dkids := by omega
  simp only [ReprT, ReprF, hk, if_true, size, Nat.zero_add, e] at h
  obtain ⟨h0, ⟨h1, _⟩, hrest⟩ := h
  have h0 := getD_of_getElem? h0
  have h1 := getD_of_getElem? h1
  exact { root_ty := by rw [h0], root_fc := by rw [h0], root_parent := by rw [h0],
          root_next := by rw [h0], dt_ty := by rw [h1], dt_next := by rw [h1], rest_repr := hrest }

/-! ### the walker on such a layout -/

/-- with enough fuel the walker produces the mirrored rest and the surplus end event -/
theorem walk_document {dom : Array HNode} {rest : HForest} {x : Nat} (hl : DocLayout dom rest x)
    (hw : wtForest rest = true) (hne : rest.hasKids = true) (F : Nat) (hF : fcost rest + 2 ≤ F) :
    walk dom F {} [] = some (mirrorForest rest ++ [.close]) := by
  obtain ⟨fuel, rfl⟩ : ∃ fuel, F = (fuel + 1) + (fcost rest + 1) := ⟨F - (fcost rest + 2), by omega⟩
  have hx : (dom.getD x default).ty = .element ∨ (dom.getD x default).ty = .text
      ∨ (dom.getD x default).ty = .comment := by
    cases rest with
    | nil => simp [HForest.hasKids] at hne
    | cons t ts =>
      have hrr := hl.rest_repr
      simp only [ReprF] at hrr
      simp only [wtForest, Bool.and_eq_true] at hw
      exact repr_wt_ty hrr.1 hw.1
  have hdn : (dom.getD 1 default).nextSibling = some x := by rw [hl.dt_next, hne]; rfl
  have hpull : pull dom 4 ({} : PState) = pull dom 4 { node := x } := by
    show pull dom (3 + 1) ⟨0, [], false, false, false⟩ = _
    rw [pull_document 3 hl.root_ty hl.root_fc hl.dt_ty, pull_doctype 2 hl.dt_ty hdn]
    exact pull_fuel_irrel 1 3 hx
  rw [walk_congr_pull hpull,
    walk_forest dom rest x 0 none hl.rest_repr hw hne hl.root_next (fuel + 1), exitState,
    walk_eof (pull_crawl_root 3 hl.root_parent)]
  simp

/-- without a node after the doctype the Go code dereferences nil -/
theorem walk_document_crash {dom : Array HNode} {x : Nat} (hl : DocLayout dom .nil x) (F : Nat) :
    walk dom F {} [] = none := by
  have hdn : (dom.getD 1 default).nextSibling = none := by rw [hl.dt_next]; rfl
  have hpull : pull dom 4 ({} : PState) = (⟨1, [], false, false, false⟩, .crash) := by
    show pull dom (3 + 1) ⟨0, [], false, false, false⟩ = _
    rw [pull_document 3 hl.root_ty hl.root_fc hl.dt_ty, pull_doctype_last 2 hl.dt_ty hdn]
  cases F with
  | zero => rw [walk]
  | succ F => rw [walk, hpull]

/-! ### `adapter` -/

theorem adapter_eq (t : HTree) :
    adapter t = walk (linearize t) (4 * size t + 8 + 2 * tattrs t) {} [] := by
  show walk (linearize t) (4 * (linearize t).size + 8 + 2 * sumAttrs (linearize t)) {} [] = _
  rw [linearize_size, linearize_sumAttrs]

/-- **html_refines** — the adapter output is the specification -/
theorem adapter_refines (data : Chars) (dattrs : List HAttr) (ddata : Chars) (dtattrs : List HAttr)
    (dkids rest : HForest) (hw : WellTyped rest) (hne : rest ≠ .nil) :
    adapter (.node .document data dattrs (.cons (.node .doctype ddata dtattrs dkids) rest))
      = some (mirrorForest rest ++ [.close]) := by
  have hk : rest.hasKids = true := by
    cases rest with
    | nil => exact absurd rfl hne
    | cons _ _ => rfl
  rw [adapter_eq]
  apply walk_document (doc_layout data dattrs ddata dtattrs dkids rest) hw hk
  have := fcost_le rest
  simp only [size, fsize, tattrs, fattrs]
  omega

/-- the recorded behaviour for the degenerate tree `document [doctype]` -/
theorem adapter_doctype_only (data : Chars) (dattrs : List HAttr) (ddata : Chars)
    (dtattrs : List HAttr) (dkids : HForest) :
    adapter (.node .document data dattrs (.cons (.node .doctype ddata dtattrs dkids) .nil))
      = none := by
  rw [adapter_eq]
  exact walk_document_crash (doc_layout data dattrs ddata dtattrs dkids .nil) _

end Html
end Xsel
