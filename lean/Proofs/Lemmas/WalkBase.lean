/-
  Proofs/Lemmas/WalkBase.lean — tools for the proof that the evaluator's walk over the parse forest
  (`Xsel.Walk.walk`, the model of exec/contextfn*.go) computes, on the derivation tree of an
  expression (`Xsel.Walk.dNat`), what the evaluator on abstract syntax (`Xsel.eval Model.sem`) computes:
  the handler of every nonterminal in the expected table, one unfolding lemma per handler, the
  walkers on explicit child lists, and the simulation relation `Sim`.
-/
import Proofs.Lemmas.WalkTable

namespace Xsel.Walk
open Xsel Xsel.Syntax

/-! ### children lists -/

@[simp] theorem ofList_nil : PTs.ofList [] = .nil := rfl
@[simp] theorem ofList_cons (t : PT) (ts : List PT) : PTs.ofList (t :: ts) = .cons t (PTs.ofList ts) := rfl
@[simp] theorem isNt_N (n : String) (k : List PT) : (N n k).isNt = true := rfl
@[simp] theorem isNt_nt (n : String) (k : PTs) : (PT.nt n k).isNt = true := rfl
@[simp] theorem isNt_tk (t : Tok) : (PT.tk t).isNt = false := rfl
@[simp] theorem isNt_tkp (x : Punct) : (tkp x).isNt = false := rfl
@[simp] theorem name_N (n : String) (k : List PT) : (N n k).name = n := rfl
@[simp] theorem ntCount_nil : PTs.ntCount .nil = 0 := rfl
@[simp] theorem ntCount_cons (t : PT) (ts : PTs) : (PTs.cons t ts).ntCount = (if t.isNt then 1 else 0) + ts.ntCount := rfl

@[simp] theorem walk_tk (tb : List (String × String)) (t : Tok) (w : WCtx) : walk tb (.tk t) w = .ok w := by
  rw [walk]
@[simp] theorem walk_tkp (tb : List (String × String)) (x : Punct) (w : WCtx) : walk tb (tkp x) w = .ok w := by
  rw [tkp, walk]

@[simp] theorem walkNth_nil (tb) (n : Nat) (w : WCtx) : walkNth tb .nil n w = .error .panic := by rw [walkNth]
theorem walkNth_cons_tok (tb) (t : PT) (ts : PTs) (n : Nat) (w : WCtx) (h : t.isNt = false) :
    walkNth tb (.cons t ts) n w = walkNth tb ts n w := by
  conv => lhs; rw [walkNth.eq_def]
  simp [h]
theorem walkNth_cons_nt0 (tb) (t : PT) (ts : PTs) (w : WCtx) (h : t.isNt = true) :
    walkNth tb (.cons t ts) 0 w = walk tb t w := by
  rw [walkNth]; simp [h]
theorem walkNth_cons_ntS (tb) (t : PT) (ts : PTs) (n : Nat) (w : WCtx) (h : t.isNt = true) :
    walkNth tb (.cons t ts) (n + 1) w = walkNth tb ts n w := by
  conv => lhs; rw [walkNth.eq_def]
  simp [h]

@[simp] theorem walkFirst_nil (tb) (w : WCtx) : walkFirst tb .nil w = .ok w := by rw [walkFirst]
theorem walkFirst_cons_tok (tb) (t : PT) (ts : PTs) (w : WCtx) (h : t.isNt = false) :
    walkFirst tb (.cons t ts) w = walkFirst tb ts w := by
  rw [walkFirst]; simp [h]
theorem walkFirst_cons_nt (tb) (t : PT) (ts : PTs) (w : WCtx) (h : t.isNt = true) :
    walkFirst tb (.cons t ts) w = walk tb t w := by
  rw [walkFirst]; simp [h]

theorem walkLast_cons (tb) (t : PT) (ts : PTs) (w : WCtx) :
    walkLast tb (.cons t ts) w =
      if ts.ntCount == 0 then (if t.isNt then walk tb t w else .error .panic) else walkLast tb ts w := by
  rw [walkLast]

theorem walkArgsNth_cons_tok (tb) (t : PT) (ts : PTs) (n : Nat) (w : WCtx) (h : t.isNt = false) :
    walkArgsNth tb (.cons t ts) n w = walkArgsNth tb ts n w := by
  conv => lhs; rw [walkArgsNth.eq_def]
  simp [h]
theorem walkArgsNth_cons_nt0 (tb) (t : PT) (ts : PTs) (w : WCtx) (h : t.isNt = true) :
    walkArgsNth tb (.cons t ts) 0 w = walkArgs tb t w := by
  rw [walkArgsNth]; simp [h]
theorem walkArgsNth_cons_ntS (tb) (t : PT) (ts : PTs) (n : Nat) (w : WCtx) (h : t.isNt = true) :
    walkArgsNth tb (.cons t ts) (n + 1) w = walkArgsNth tb ts n w := by
  conv => lhs; rw [walkArgsNth.eq_def]
  simp [h]

/-! the same with the kind of the first child visible (unconditional: for `simp`) -/

@[simp] theorem walkNth_tk (tb : List (String × String)) (t : Tok) (ts : PTs) (n : Nat) (w : WCtx) :
    walkNth tb (.cons (.tk t) ts) n w = walkNth tb ts n w := walkNth_cons_tok tb _ ts n w rfl
@[simp] theorem walkNth_tkp (tb : List (String × String)) (x : Punct) (ts : PTs) (n : Nat) (w : WCtx) :
    walkNth tb (.cons (tkp x) ts) n w = walkNth tb ts n w := walkNth_cons_tok tb _ ts n w rfl
@[simp] theorem walkNth_nt0 (tb : List (String × String)) (m : String) (k ts : PTs) (w : WCtx) :
    walkNth tb (.cons (.nt m k) ts) 0 w = walk tb (.nt m k) w := walkNth_cons_nt0 tb _ ts w rfl
@[simp] theorem walkNth_ntS (tb : List (String × String)) (m : String) (k ts : PTs) (n : Nat) (w : WCtx) :
    walkNth tb (.cons (.nt m k) ts) (n + 1) w = walkNth tb ts n w := walkNth_cons_ntS tb _ ts n w rfl
@[simp] theorem walkFirst_tk (tb : List (String × String)) (t : Tok) (ts : PTs) (w : WCtx) :
    walkFirst tb (.cons (.tk t) ts) w = walkFirst tb ts w := walkFirst_cons_tok tb _ ts w rfl
@[simp] theorem walkFirst_tkp (tb : List (String × String)) (x : Punct) (ts : PTs) (w : WCtx) :
    walkFirst tb (.cons (tkp x) ts) w = walkFirst tb ts w := walkFirst_cons_tok tb _ ts w rfl
@[simp] theorem walkFirst_nt (tb : List (String × String)) (m : String) (k ts : PTs) (w : WCtx) :
    walkFirst tb (.cons (.nt m k) ts) w = walk tb (.nt m k) w := walkFirst_cons_nt tb _ ts w rfl
@[simp] theorem walkArgsNth_tk (tb : List (String × String)) (t : Tok) (ts : PTs) (n : Nat) (w : WCtx) :
    walkArgsNth tb (.cons (.tk t) ts) n w = walkArgsNth tb ts n w := walkArgsNth_cons_tok tb _ ts n w rfl
@[simp] theorem walkArgsNth_tkp (tb : List (String × String)) (x : Punct) (ts : PTs) (n : Nat) (w : WCtx) :
    walkArgsNth tb (.cons (tkp x) ts) n w = walkArgsNth tb ts n w := walkArgsNth_cons_tok tb _ ts n w rfl
@[simp] theorem walkArgsNth_nt0 (tb : List (String × String)) (m : String) (k ts : PTs) (w : WCtx) :
    walkArgsNth tb (.cons (.nt m k) ts) 0 w = walkArgs tb (.nt m k) w := walkArgsNth_cons_nt0 tb _ ts w rfl
@[simp] theorem walkArgsNth_ntS (tb : List (String × String)) (m : String) (k ts : PTs) (n : Nat) (w : WCtx) :
    walkArgsNth tb (.cons (.nt m k) ts) (n + 1) w = walkArgsNth tb ts n w := walkArgsNth_cons_ntS tb _ ts n w rfl

/-! ### a nonterminal without a handler evaluates its first nonterminal child (`execChildren`) -/

theorem walk_nohandler (tb) (name : String) (kids : PTs) (w : WCtx) (h : lookupS name tb = none) :
    walk tb (.nt name kids) w = walkFirst tb kids w := by
  rw [walk]; simp [h]

/-- a unit production without a handler -/
theorem walk_unit (tb) (name : String) (t : PT) (w : WCtx) (h : lookupS name tb = none) (ht : t.isNt = true) :
    walk tb (N name [t]) w = walk tb t w := by
  rw [N, walk_nohandler tb name _ w h, ofList_cons, walkFirst_cons_nt tb t _ w ht]

/-! ### simulation: the walk returns the value of the evaluator, in the same context -/

/-- `r` is the outcome `ev` of the evaluator, put into the context `c` (whatever the principal node type) -/
def Sim (r : R) (c : Ctx) (ev : Except Err Val) : Prop :=
  match ev with
  | .ok v => ∃ k, r = .ok ⟨{ c with result := v }, k⟩
  | .error e => r = .error (.err e)

theorem Sim.ok {r : R} {c : Ctx} {v : Val} (k : Kind) (h : r = .ok ⟨{ c with result := v }, k⟩) : Sim r c (.ok v) := ⟨k, h⟩

theorem Sim.err {r : R} {c : Ctx} {e : Err} (h : r = .error (.err e)) : Sim r c (.error e) := h

theorem Sim.bind {r : R} {c : Ctx} {ev : Except Err Val} {f : WCtx → R} {g : Val → Except Err Val}
    (h1 : Sim r c ev) (h2 : ∀ v k, Sim (f ⟨{ c with result := v }, k⟩) c (g v)) :
    Sim (r >>= f) c (ev >>= g) := by
  cases ev with
  | error e =>
    have : r = .error (.err e) := h1
    subst this
    exact Sim.err rfl
  | ok v =>
    obtain ⟨k, hk⟩ := h1
    subst hk
    exact h2 v k

/-- the context of a simulation may be replaced by one that differs in the result only -/
theorem Sim.ctx {r : R} {c c' : Ctx} {ev : Except Err Val} (h : Sim r c ev)
    (hc : ∀ v, ({ c with result := v } : Ctx) = { c' with result := v }) : Sim r c' ev := by
  cases ev with
  | error e => exact h
  | ok v =>
    obtain ⟨k, hk⟩ := h
    exact ⟨k, by rw [hk, hc]⟩

end Xsel.Walk
