/-
  Proofs/Lemmas/EvalOk.lean — the evaluator of the model only produces node-sets that list
  cells of the arena, each once (`Val.Ok`).
-/
import Proofs.Lemmas.EvalBasic

namespace Xsel
open Arena

theorem lookupQ_mem {β : Type} {k : QName} {v : β} :
    ∀ {l : List (QName × β)}, lookupQ k l = some v → ∃ p ∈ l, p.2 = v
  | [], h => by simp [lookupQ] at h
  | (k', w) :: t, h => by
    simp only [lookupQ] at h
    split at h
    · simp only [Option.some.injEq] at h
      exact ⟨(k', w), List.mem_cons_self, h⟩
    · obtain ⟨p, hp, e⟩ := lookupQ_mem h
      exact ⟨p, List.mem_cons_of_mem _ hp, e⟩

theorem Val.Ok.cleanup {a : Arena} {l : List Nat} (hr : ∀ x ∈ l, x < a.size) :
    Val.Ok a (.nodes (cleanupFwd l)) :=
  ⟨fun x hx => hr x (mem_cleanupFwd.mp hx), nodup_of_lt (cleanupFwd_strict l)⟩

theorem Val.Ok.sublist {a : Arena} {l r : List Nat} (hs : r.Sublist l) (h : Val.Ok a (.nodes l)) :
    Val.Ok a (.nodes r) :=
  ⟨fun x hx => h.1 x (hs.subset hx), hs.nodup h.2⟩

def OkE (a : Arena) (e : Expr) : Prop :=
  ∀ (c : Ctx) (v : Val), c.a = a → EnvOk a c.env → Val.Ok a c.result →
    eval Model.sem e c = .ok v → Val.Ok a v

def OkEs (a : Arena) (es : Exprs) : Prop :=
  ∀ (c : Ctx) (vs : List Val), c.a = a → EnvOk a c.env → Val.Ok a c.result →
    evalArgs Model.sem es c = .ok vs → ∀ v ∈ vs, Val.Ok a v

section
variable {a : Arena}

theorem okE_bin (op : BinOp) {l r : Expr} (ihl : OkE a l) (ihr : OkE a r) : OkE a (.bin op l r) := by
  intro c v ha he hc hv
  rw [eval] at hv
  simp only [bind_ok] at hv
  obtain ⟨x, hx, y, hy, hv⟩ := hv
  have ox := ihl c x ha he hc hx
  have oy := ihr c y ha he hc hy
  cases op <;> simp only [pure_ok] at hv
  case union =>
    cases x <;> cases y <;> simp only [pure_ok, throw_ok] at hv
    subst hv
    refine Val.Ok.cleanup ?_
    intro z hz
    rcases List.mem_append.mp hz with hz | hz
    · exact ox.1 z hz
    · exact oy.1 z hz
  all_goals (subst hv; exact True.intro)

theorem okE_neg {e : Expr} : OkE a (.neg e) := by
  intro c v ha he hc hv
  rw [eval] at hv
  simp only [bind_ok, pure_ok] at hv
  obtain ⟨x, _, hv⟩ := hv
  subst hv; exact True.intro

theorem okE_num (n : Num) : OkE a (.num n) := by
  intro c v ha he hc hv
  rw [eval] at hv
  cases hv; exact True.intro

theorem okE_lit (s : Chars) : OkE a (.lit s) := by
  intro c v ha he hc hv
  rw [eval] at hv
  cases hv; exact True.intro

theorem okE_root (h : wfb a = true) : OkE a .root := by
  intro c v ha he hc hv
  rw [eval] at hv
  cases hv
  exact Val.Ok.single (Tree.size_pos h)

theorem okE_ctx : OkE a .ctx := by
  intro c v ha he hc hv
  rw [eval] at hv
  cases hv
  exact hc

theorem okE_var (pfx : Option Chars) (name : Chars) : OkE a (.var pfx name) := by
  intro c v ha he hc hv
  rw [eval] at hv
  simp only [bind_ok] at hv
  obtain ⟨q, _, hv⟩ := hv
  split at hv
  · next w hw =>
    simp only [pure_ok] at hv
    subst hv
    obtain ⟨p, hp, e⟩ := lookupQ_mem hw
    exact e ▸ (he p hp).1
  · simp only [throw_ok] at hv

theorem okE_call {base : Expr} (pfx : Option Chars) (name : Chars) {args : Exprs}
    (ihb : OkE a base) (iha : OkEs a args) : OkE a (.call base pfx name args) := by
  intro c v ha he hc hv
  rw [eval] at hv
  simp only [bind_ok] at hv
  obtain ⟨b, hb, vs, hvs, q, _, hv⟩ := hv
  have ob := ihb c b ha he hc hb
  have ovs := iha { c with result := b } vs ha he ob hvs
  split at hv
  · exact userFn_ok _ _ _ ovs hv
  · split at hv
    · split at hv
      · next r hr =>
        subst hv
        cases v with
        | nodes l => exact absurd hr (builtin_not_nodes _ _ _ _ l)
        | _ => exact True.intro
      · simp only [throw_ok] at hv
    · simp only [throw_ok] at hv

theorem okE_filt {base pred : Expr} (ihb : OkE a base) : OkE a (.filt base pred) := by
  intro c v ha he hc hv
  rw [eval] at hv
  simp only [bind_ok, pure_ok, nodes?_ok] at hv
  obtain ⟨b, hb, l, rfl, r, hr, rfl⟩ := hv
  have ob := ihb c _ ha he hc hb
  exact Val.Ok.sublist (applyPred_sublist _ _ _ _ hr) (Val.Ok.cleanup ob.1)

theorem okE_step (h : wfb a = true) {base : Expr} (ax : Axis) (t : NodeTest) (preds : Exprs)
    (ihb : OkE a base) : OkE a (.step base ax t preds) := by
  intro c v ha he hc hv
  rw [eval] at hv
  simp only [bind_ok, nodes?_ok] at hv
  obtain ⟨b, hb, s, rfl, hv⟩ := hv
  have ob := ihb c _ ha he hc hb
  split at hv
  · simp only [bind_ok, pure_ok] at hv
    obtain ⟨_, _, r, hr, rfl⟩ := hv
    refine Val.Ok.cleanup ?_
    intro x hx
    obtain ⟨n, hn, l, hl, hxl⟩ := (concatMapE_mem hr).mp hx
    simp only [bind_ok] at hl
    obtain ⟨l0, hl0, hl⟩ := hl
    have hx0 : x ∈ l0 := (applyPreds_sublist _ _ _ _ hl).subset hxl
    have hx1 := (NodeTest.apply_sublist hl0).subset hx0
    rw [ha] at hx1
    exact Tree.axis_range h ax (ob.1 n hn) hx1
  · simp only [bind_ok, pure_ok] at hv
    obtain ⟨l0, hl0, r, hr, rfl⟩ := hv
    refine Val.Ok.sublist ((applyPreds_sublist _ _ _ _ hr).trans (NodeTest.apply_sublist hl0)) ?_
    rw [ha]
    exact ⟨fun x hx => model_axis_range h ax ob.1 hx, model_axis_nodup a ax ob.2⟩

theorem okEs_nil : OkEs a .nil := by
  intro c vs ha he hc hv
  rw [evalArgs] at hv
  cases hv
  intro v hv; cases hv

theorem okEs_cons {e : Expr} {es : Exprs} (ihe : OkE a e) (ihes : OkEs a es) :
    OkEs a (.cons e es) := by
  intro c vs ha he hc hv
  rw [evalArgs] at hv
  simp only [bind_ok, pure_ok] at hv
  obtain ⟨v, hv1, ws, hws, rfl⟩ := hv
  intro w hw
  rcases List.mem_cons.mp hw with rfl | hw
  · exact ihe c _ ha he hc hv1
  · exact ihes c ws ha he hc hws w hw

/-- on a well-formed arena, the model evaluator maps `Val.Ok` contexts to `Val.Ok` results -/
theorem eval_ok (h : wfb a = true) (e : Expr) : OkE a e :=
  @Expr.rec (fun e => OkE a e) (fun es => OkEs a es)
    (fun op _ _ ihl ihr => okE_bin op ihl ihr)
    (fun _ _ => okE_neg)
    okE_num okE_lit okE_var
    (fun _ pfx name _ ihb iha => okE_call pfx name ihb iha)
    (okE_root h) okE_ctx
    (fun _ ax t preds ihb _ => okE_step h ax t preds ihb)
    (fun _ _ ihb _ => okE_filt ihb)
    okEs_nil
    (fun _ _ ihe ihes => okEs_cons ihe ihes)
    e

theorem evalArgs_ok (h : wfb a = true) (es : Exprs) : OkEs a es :=
  @Exprs.rec (fun e => OkE a e) (fun es => OkEs a es)
    (fun op _ _ ihl ihr => okE_bin op ihl ihr)
    (fun _ _ => okE_neg)
    okE_num okE_lit okE_var
    (fun _ pfx name _ ihb iha => okE_call pfx name ihb iha)
    (okE_root h) okE_ctx
    (fun _ ax t preds ihb _ => okE_step h ax t preds ihb)
    (fun _ _ ihb _ => okE_filt ihb)
    okEs_nil
    (fun _ _ ihe ihes => okEs_cons ihe ihes)
    es

end
end Xsel
